(* C17, generated application: the invariant under which the supply queries report total supply minus locked eFUND
   (app_inv: props/C17.v, C17_supply_of ... C17_locked_le_supply) holds in every state of every well-formed history of
   the node that runs the GENERATED code; so does the invariant of the equality itself.
   The application assembled from the code generated from /repo (model/GeneratedApp.v: go_deliver_tx, go_check_tx,
   go_begin_block, go_end_block, go_ante, go_node_step, go_node_run) is the hand-written application of model/App.v under
   the hypotheses below (proofs/GeneratedAppEq.v; props/C01generatedApp.v); each theorem here is that equality followed by
   the theorem about the model (proofs/GeneratedAppTransport.v).
   Hypotheses (proofs/GeneratedAppEq.v; app_inv, tx_wf, op_wf, hist_wf, begin_wf, end_wf: proofs/AppInv.v):
     gen_inv B a     app_inv a and the registries' invariants and the machine-integer bounds the generated code relies on
                     (counters and numbers of decisions at most B, registry fees below 2^63, len(signers) an int);
     gnode_inv B n   gen_inv B of the committed, check and (if any) deliver state of the node n;
     gmsg_ok m       a WRKChain record carries five hashes, a BEACON record one; the fields of a parameter update are in
                     range (for governance: fees below 2^63, maximum limit below 2^64); at every authz depth;
     gop_ok o, ghist_ok h   gmsg_ok of every message of the operation o / of every operation of the history h;
     B + hist_size h < two63 (one transaction: B + leaves_l (tx_msgs t) < two63; BeginBlock: B < two63)
                     hist_size h = number of leaf messages of the delivered transactions of h: no counter reaches 2^63. *)
From Coq Require Import ZArith Lia List String Bool.
From MC Require Import lib.Prelude lib.AMap lib.GoSdk model.Bank model.Stream model.StreamSpec model.Registry
  model.RegistrySpec model.Enterprise model.EnterpriseSpec model.App model.AppSpec model.GeneratedApp.
From MC Require Import proofs.BankProofs proofs.AppFrame proofs.AppParamsProofs proofs.AppAuthProofs proofs.AppFeeProofs
  proofs.AppInv proofs.AppLockedProofs proofs.AppSupplyProofs proofs.AppCrashProofs.
From MC Require Import proofs.GeneratedAppEq proofs.GeneratedAppTransport.
Import ListNotations.
Local Open Scope Z_scope.

(* in every state of every well-formed history of the generated node *)
Theorem C17_generatedapp_reachable : forall B g h n,
  gen_inv B g -> hist_wf (node_init g) h -> ghist_ok h -> B + hist_size h < two63 ->
  go_node_run (node_init g) h = Some n ->
  app_inv (n_committed n) /\ app_inv (n_check n) /\
  match n_deliver n with Some a => app_inv a | None => True end.
Proof. exact gen_app_inv_node_run. Qed.
Print Assumptions C17_generatedapp_reachable.

(* the invariant the equality with the model needs, at the node reached: the history can be continued *)
Theorem C17_generatedapp_node_inv_reachable : forall B g h n,
  gen_inv B g -> hist_wf (node_init g) h -> ghist_ok h -> B + hist_size h < two63 ->
  go_node_run (node_init g) h = Some n ->
  gen_inv (B + hist_size h) (n_committed n) /\ gen_inv (B + hist_size h) (n_check n) /\
  match n_deliver n with Some a => gen_inv (B + hist_size h) a | None => True end.
Proof. exact gen_gnode_inv_node_run. Qed.
Print Assumptions C17_generatedapp_node_inv_reachable.
