(* C04 (escrow = total locked), link to the source at genesis: a successful InitGenesis of /repo/x/enterprise/genesis.go
   as generated on every run (coq/GeneratedEnterpriseKeeper.v: go_InitGenesis) on a fresh store has checked the escrow:
   the bank state is untouched, the stored total locked is the document's, the module account holds exactly that amount
   in that denomination and nothing in any other denomination - the base case of the books invariant (props/C04.v,
   [inv_escrow] / [inv_escrow0] of [ent_inv]).  From the import theorem (props/C15generatedent.v) and the definition of
   [import_ent].
   Hypotheses: valid parameters (InitGenesis drops the error of SetParams); bank_wf b (one row per account and
   denomination) and escrow_nonneg b (no negative row of the module account): without them the balances GetAllBalances
   lists are not the balances [balance] reads (proofs/GeneratedEnterpriseGenesisEq.v: gen_ent_InitGenesis_bank_wf_refuted,
   gen_ent_InitGenesis_nonneg_refuted).  No hypothesis on the document.
   Proofs: proofs/GeneratedEnterpriseGenesisEq.v. *)
From MC Require Import lib.Prelude lib.AMap lib.GoSdk GeneratedEnterpriseTypes model.Bank model.Enterprise model.EnterpriseSpec
  model.Genesis model.EnterpriseKeeperPrims GeneratedEnterpriseKeeper model.EnterpriseGenesisGenSpec.
From MC Require Import proofs.BankProofs proofs.EnterpriseProofs proofs.GeneratedEnterpriseGenesisEq.
Local Open Scope Z_scope.

Theorem C04_generated_ent_import_checks_escrow : forall now b p0 g w',
  ent_params_valid (params_of_go (GenesisState_Params g)) = true ->
  bank_wf b -> escrow_nonneg b ->
  go_InitGenesis (fresh_eworld now b p0) g = Ok (w', tt) ->
  ew_bank w' = b /\
  e_totlocked (ew_ent w') = Some (GenesisState_TotalLocked g) /\
  balance b ENT_MACC (fst (total_locked (ew_ent w'))) = snd (total_locked (ew_ent w')) /\
  (forall d, d <> fst (total_locked (ew_ent w')) -> balance b ENT_MACC d = 0).
Proof. exact gen_ent_InitGenesis_checks_escrow. Qed.
Print Assumptions C04_generated_ent_import_checks_escrow.

(* the concrete world of props/C15generatedent.v: the import over the bank holding 500 succeeds and the escrow is the
   total locked; over the bank holding 499 it panics *)
Example C04_generated_ent_import_checks_escrow_ex :
  match go_ExportGenesis exg_world with
  | Ok d =>
      match go_InitGenesis (fresh_eworld 99 (exg_bank 500) exg_p0) d with
      | Ok (w', _) =>
          total_locked (ew_ent w') = (0, 500) /\ balance (ew_bank w') ENT_MACC 0 = 500 /\
          balance (ew_bank w') ENT_MACC 1 = 0
      | _ => False
      end /\
      go_InitGenesis (fresh_eworld 99 (exg_bank 499) exg_p0) d = Panic enterprise_PANIC
  | _ => False
  end.
Proof. vm_compute. repeat split; reflexivity. Qed.
