(* C02, generated application: the C02 theorems (native coin supply changes only through approved purchase orders; the
   balances of all accounts sum to the recorded supply) hold of the application that runs the GENERATED code.
   The application assembled from the code generated from /repo (model/GeneratedApp.v: go_deliver_tx, go_check_tx,
   go_begin_block, go_end_block, go_ante, go_node_step, go_node_run) is the hand-written application of model/App.v under
   the hypotheses below (proofs/GeneratedAppEq.v; props/C01generatedApp.v); each theorem here is that equality followed by
   the theorem about the model (proofs/GeneratedAppTransport.v).
   Hypotheses (proofs/GeneratedAppEq.v; app_inv, tx_wf, op_wf, hist_wf, begin_wf, end_wf: proofs/AppInv.v):
     gen_inv B a     app_inv a and the registries' invariants and the machine-integer bounds the generated code relies on
                     (counters and numbers of decisions at most B, registry fees below 2^63, len(signers) an int);
     gnode_inv B n   gen_inv B of the committed, check and (if any) deliver state of the node n;
     gmsg_ok m       a WRKChain record carries five hashes, a BEACON record one; the fields of a parameter update are in
                     range (for governance: fees below 2^63, maximum limit below 2^64); at every authz depth;
     gop_ok o, ghist_ok h   gmsg_ok of every message of the operation o / of every operation of the history h;
     B + hist_size h < two63 (one transaction: B + leaves_l (tx_msgs t) < two63; BeginBlock: B < two63)
                     hist_size h = number of leaf messages of the delivered transactions of h: no counter reaches 2^63. *)
From Coq Require Import ZArith Lia List String Bool.
From MC Require Import lib.Prelude lib.AMap lib.GoSdk model.Bank model.Stream model.StreamSpec model.Registry
  model.RegistrySpec model.Enterprise model.EnterpriseSpec model.App model.AppSpec model.GeneratedApp.
From MC Require Import proofs.BankProofs proofs.AppFrame proofs.AppParamsProofs proofs.AppAuthProofs proofs.AppFeeProofs
  proofs.AppInv proofs.AppLockedProofs proofs.AppSupplyProofs proofs.AppCrashProofs.
From MC Require Import proofs.GeneratedAppEq proofs.GeneratedAppTransport.
Import ListNotations.
Local Open Scope Z_scope.

(* ---- a transaction delivered by the generated application (accepted, failed, rejected or panicking) keeps every
        supply ---- *)
Theorem C02_generatedapp_deliver_keeps_supply : forall B a t a' r,
  gen_inv B a -> tx_wf t -> Forall gmsg_ok (tx_msgs t) -> B + leaves_l (tx_msgs t) < two63 ->
  go_deliver_tx a t = (a', r) ->
  forall d, supply_of (a_bank a') d = supply_of (a_bank a) d /\
            total_balance (a_bank a') d = total_balance (a_bank a) d.
Proof. exact gen_deliver_keeps_supply. Qed.
Print Assumptions C02_generatedapp_deliver_keeps_supply.

Theorem C02_generatedapp_check_keeps_supply : forall B a t a' r,
  gen_inv B a -> tx_wf t -> Forall gmsg_ok (tx_msgs t) ->
  go_check_tx a t = (a', r) ->
  forall d, supply_of (a_bank a') d = supply_of (a_bank a) d /\
            total_balance (a_bank a') d = total_balance (a_bank a) d.
Proof. exact gen_check_keeps_supply. Qed.
Print Assumptions C02_generatedapp_check_keeps_supply.

(* ---- EndBlock (governance's parameter updates) keeps every supply ---- *)
Theorem C02_generatedapp_end_block_keeps_supply : forall a props,
  (forall ms m, In ms props -> In m ms -> is_param_update m = true) ->
  forall d, supply_of (a_bank (go_end_block a props)) d = supply_of (a_bank a) d /\
            total_balance (a_bank (go_end_block a props)) d = total_balance (a_bank a) d.
Proof. exact gen_end_block_keeps_supply. Qed.
Print Assumptions C02_generatedapp_end_block_keeps_supply.

(* ---- BeginBlock: + exactly the amounts of the orders accepted before the block, in the enterprise denomination ---- *)
Theorem C02_generatedapp_begin_block_supply_delta : forall B a now a',
  gen_inv B a -> B < two63 -> begin_wf a now -> go_begin_block a now = Some a' ->
  forall d, supply_of (a_bank a') d - supply_of (a_bank a) d =
            if d =? ep_denom (e_params (a_ent a))
            then asum (fun o => if po_status o =? ST_ACCEPTED then po_amount o else 0) (e_pos (a_ent a))
            else 0.
Proof. exact gen_begin_block_supply_delta. Qed.
Print Assumptions C02_generatedapp_begin_block_supply_delta.

(* ---- balances sum to the recorded supply in all three states of the generated node, at every point of every
        well-formed history ---- *)
Theorem C02_generatedapp_balances_sum_to_supply : forall B g h n,
  gen_inv B g -> hist_wf (node_init g) h -> ghist_ok h -> B + hist_size h < two63 ->
  go_node_run (node_init g) h = Some n ->
  (forall d, total_balance (a_bank (n_committed n)) d = supply_of (a_bank (n_committed n)) d) /\
  (forall d, total_balance (a_bank (n_check n)) d = supply_of (a_bank (n_check n)) d) /\
  match n_deliver n with
  | Some a => forall d, total_balance (a_bank a) d = supply_of (a_bank a) d
  | None => True
  end.
Proof. exact gen_balances_sum_to_supply. Qed.
Print Assumptions C02_generatedapp_balances_sum_to_supply.
