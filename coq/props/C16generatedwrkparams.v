(* C16, link to the source: Params.Validate of /repo/x/wrkchain/types/params.go as generated on every run (the six
   go_validate* functions and go_Params_Validate in coq/GeneratedWrkchainKeeper.v) is the model's [reg_params_valid]:
   Ok exactly on the valid sets; otherwise error 40, except that a non-blank malformed denomination gives the error of
   sdk.ValidateDenom itself (1), found first.  Premise: the four uint64 fields tested with `== 0` are not negative
   (shown necessary in proofs/GeneratedWrkchainParamsEq.v; [gen_wrk_Params_Validate_eq_u64] is the same under the full
   uint64 ranges).  (The x/wrkchain and x/beacon keepers define the same names: one file per module.) *)
From MC Require Import lib.Prelude lib.GoSdk GeneratedWrkchainTypes model.Registry model.WrkchainKeeperPrims
  GeneratedWrkchainKeeper.
From MC Require Import proofs.GeneratedWrkchainParamsEq.
Local Open Scope Z_scope.

Theorem C16_generated_wrk_params_validate_is_model : forall p,
  0 <= Params_FeeRegister p /\ 0 <= Params_FeeRecord p /\ 0 <= Params_FeePurchaseStorage p /\
  0 <= Params_DefaultStorageLimit p ->
  go_Params_Validate p =
    if reg_params_valid (params_of_go p) then Ok tt
    else Err (if (Params_Denom p <? 0) && negb (Params_Denom p =? go_zero_denom) then 1 else wrkchain_ErrInvalidParams).
Proof. exact gen_wrk_Params_Validate_eq. Qed.
Print Assumptions C16_generated_wrk_params_validate_is_model.

(* fields: FeeRegister FeeRecord FeePurchaseStorage Denom DefaultStorageLimit MaxStorageLimit *)
(* valid: fees 10/1/2, default limit 100 of at most 1000; and default = maximum (the boundary) *)
Example C16_generated_wrk_params_valid_ex :
  go_Params_Validate (mk_go_Params 10 1 2 0 100 1000) = Ok tt /\
  reg_params_valid (params_of_go (mk_go_Params 10 1 2 0 100 1000)) = true /\
  go_Params_Validate (mk_go_Params 10 1 2 0 1000 1000) = Ok tt /\
  reg_params_valid (params_of_go (mk_go_Params 10 1 2 0 1000 1000)) = true.
Proof. vm_compute. repeat split. Qed.

(* invalid, at the boundary: default = maximum + 1 *)
Example C16_generated_wrk_params_default_above_max_ex :
  go_Params_Validate (mk_go_Params 10 1 2 0 1001 1000) = Err 40 /\
  reg_params_valid (params_of_go (mk_go_Params 10 1 2 0 1001 1000)) = false.
Proof. vm_compute. repeat split. Qed.

(* invalid: a zero fee, a zero limit, a blank denomination (error 40), a malformed denomination (error 1) *)
Example C16_generated_wrk_params_invalid_ex :
  go_Params_Validate (mk_go_Params 0 1 2 0 100 1000) = Err 40 /\
  reg_params_valid (params_of_go (mk_go_Params 0 1 2 0 100 1000)) = false /\
  go_Params_Validate (mk_go_Params 10 1 2 0 0 1000) = Err 40 /\
  reg_params_valid (params_of_go (mk_go_Params 10 1 2 0 0 1000)) = false /\
  go_Params_Validate (mk_go_Params 10 1 2 (-1) 100 1000) = Err 40 /\
  reg_params_valid (params_of_go (mk_go_Params 10 1 2 (-1) 100 1000)) = false /\
  go_Params_Validate (mk_go_Params 10 1 2 (-7) 100 1000) = Err 1 /\
  reg_params_valid (params_of_go (mk_go_Params 10 1 2 (-7) 100 1000)) = false.
Proof. vm_compute. repeat split. Qed.
