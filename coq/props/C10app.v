(* C10, application level: the stream escrow account holds exactly the remaining deposits of all
   streams in every state of every well-formed node history, and no user transaction other than
   stream operations, no ante stage and no block hook can move its funds.
   app_inv, msg_wf, no_str, tx_wf, begin_wf, hist_wf : proofs/AppInv.v. *)
From MC Require Import lib.Prelude lib.AMap model.Bank model.Stream model.StreamSpec model.Registry
  model.Enterprise model.EnterpriseSpec model.App model.AppSpec.
From MC Require Import proofs.AppInv proofs.AppSupplyProofs proofs.AppLockedProofs.
Local Open Scope Z_scope.

(* ---- a message containing no stream message at any depth leaves the escrow balance alone ---- *)
Theorem C10_only_stream_ops_move_escrow : forall f a m a',
  msg_wf m -> no_str m = true -> exec_msg f a m = Ok a' ->
  forall d, balance (a_bank a') STREAM_MACC d = balance (a_bank a) STREAM_MACC d.
Proof. exact only_stream_ops_move_escrow. Qed.
Print Assumptions C10_only_stream_ops_move_escrow.

(* whole transactions, whatever their outcome *)
Theorem C10_tx_without_stream_keeps_escrow : forall a t a' r,
  deliver_tx a t = (a', r) -> tx_wf t -> forallb no_str (tx_msgs t) = true ->
  forall d, balance (a_bank a') STREAM_MACC d = balance (a_bank a) STREAM_MACC d.
Proof. exact tx_without_stream_keeps_escrow. Qed.
Print Assumptions C10_tx_without_stream_keeps_escrow.

(* ---- the ante chain (fee unlock, fee deduction) never touches it ---- *)
Theorem C10_ante_keeps_stream_escrow : forall check a t a1,
  ante check a t = Ok a1 -> 0 <= tx_payer t -> (forall g, tx_granter t = Some g -> 0 <= g) ->
  forall d, balance (a_bank a1) STREAM_MACC d = balance (a_bank a) STREAM_MACC d.
Proof. exact ante_keeps_stream_escrow. Qed.
Print Assumptions C10_ante_keeps_stream_escrow.

(* ---- BeginBlock (order completion, fee sweep) and EndBlock (parameter updates) never touch it ---- *)
Theorem C10_begin_block_keeps_stream_escrow : forall a now a',
  app_inv a -> begin_wf a now -> begin_block a now = Some a' ->
  forall d, balance (a_bank a') STREAM_MACC d = balance (a_bank a) STREAM_MACC d.
Proof. exact begin_block_keeps_stream_escrow. Qed.
Print Assumptions C10_begin_block_keeps_stream_escrow.

Theorem C10_end_block_params_keeps_bank : forall props a,
  (forall ms m, In ms props -> In m ms -> is_param_update m = true) -> a_bank (end_block a props) = a_bank a.
Proof. exact end_block_params_keeps_bank. Qed.
Print Assumptions C10_end_block_params_keeps_bank.

(* ---- escrow backing in all three states of the node along every well-formed history ---- *)
Theorem C10_escrow_backed_reachable_app : forall g h n,
  app_inv g -> hist_wf (node_init g) h -> node_run (node_init g) h = Some n ->
  (forall d, balance (a_bank (n_committed n)) STREAM_MACC d = total_deposits (a_str (n_committed n)) d) /\
  (forall d, balance (a_bank (n_check n)) STREAM_MACC d = total_deposits (a_str (n_check n)) d) /\
  match n_deliver n with
  | Some a => forall d, balance (a_bank a) STREAM_MACC d = total_deposits (a_str a) d
  | None => True
  end.
Proof. exact escrow_backed_reachable_app. Qed.
Print Assumptions C10_escrow_backed_reachable_app.

(* ---- examples (scenario: proofs/AppInv.v) ---- *)
Example C10app_ex_hypotheses : app_inv ex_g /\ hist_wf (node_init ex_g) ex_hist.
Proof. exact (conj ex_g_inv ex_hist_wf_ok). Qed.

(* (escrow balance, total deposits) of the committed state after blocks 2, 3 (stream of 6000 created)
   and 4 (10 s at 100/s claimed) *)
Example C10app_ex_escrow :
  map (fun k => option_map (fun n => (balance (a_bank (n_committed n)) STREAM_MACC NUND,
                                      total_deposits (a_str (n_committed n)) NUND))
                           (node_run (node_init ex_g) (firstn k ex_hist))) [8; 14; 18]%nat
  = [Some (0, 0); Some (6000, 6000); Some (5000, 5000)].
Proof. vm_compute. reflexivity. Qed.

(* a direct transfer to or from the stream escrow is refused *)
Example C10app_ex_send_refused :
  exec_msg 2 ex_g (MSend 1 STREAM_MACC [(NUND, 5)]) = Err ERR_UNAUTHORIZED /\
  no_str (MExec 1 [MSend 1 2 [(NUND, 5)]; MExec 1 [MGrant 1 2 15]]) = true /\
  no_str (MExec 1 [MExec 1 [MStr (SClaim 1 2)]]) = false.
Proof. vm_compute. repeat split; reflexivity. Qed.
