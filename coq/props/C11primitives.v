(* C11: the hand-written descriptions of the primitives under the translated code were written against exactly
   these function bodies of /repo (digests re-derived from the source on every run). *)
From Coq Require Import String List.
From MC Require GeneratedStreamKeeper GeneratedWrkchainKeeper GeneratedBeaconKeeper GeneratedEnterpriseKeeper.
From MC Require Import proofs.PrimitiveBodies.
Import ListNotations.
Local Open Scope string_scope.

Theorem C11_stream_primitive_bodies_as_reviewed :
  GeneratedStreamKeeper.stream_primitive_bodies =
  [("DeleteStream", "a26f5f28952d4f78");
   ("GetParams", "e5651d249a1817ba");
   ("GetStream", "e42b50c02f88d2b2");
   ("GetStreamModuleAccount", "1e46ade0d603f10c");
   ("IsStream", "c1bd12c927b786ea");
   ("IterateAllStreams", "ef38f709a1ff4913");
   ("SetParams", "73bc5d17b364b792");
   ("SetStream", "b36316b842b0ebd9")].
Proof. exact stream_primitive_bodies_as_reviewed. Qed.
Print Assumptions C11_stream_primitive_bodies_as_reviewed.
