(* C01, generated application with the WHOLE fee decorators generated: the node whose ante chain runs the generated AnteHandle of x/wrkchain/ante, x/beacon/ante and x/enterprise/ante is the node of the model.

   model/GeneratedApp.v: go_wrk_ante_full / go_bcn_ante_full are the AnteHandle functions of GeneratedWrkchainAnte.v /
   GeneratedBeaconAnte.v (transaction detection, exact-fee check, funds check, max-slots check and their sequencing by
   IsCheckTx / simulate, all generated) on the worlds wrk_aworld / bcn_aworld cut out of the application state, with the
   one panic code that differs between lib/GoSdk.v and model/App.v renamed (as_negcoin_panic: 4 -> 55, every other code
   kept); go_unlock_ante_full is the AnteHandle of GeneratedEnterpriseAnte.v; go_ante_full, go_deliver_tx_full,
   go_check_tx_full, go_node_step_full, go_node_run_full use them, everything else being the application of
   props/C01generatedApp.v.  proofs/GeneratedAnteHandleEq.v proves the two applications equal and composes with
   proofs/GeneratedAppEq.v.  The hypotheses are those of C01_generatedapp_node_run_eq (props/C01generatedApp.v), nothing
   more: what the generated funds check needs (bank_wf, bank_nonneg, a non-negative locked amount, a fee with one coin per
   denomination) is in app_inv and tx_wf.  go_node_trace_full is go_node_run_full with the result of every step kept. *)
From Coq Require Import ZArith Lia List String Bool.
From MC Require Import lib.Prelude lib.AMap lib.GoSdk model.Bank model.Registry model.Enterprise model.App model.AppSpec
  model.GeneratedApp.
From MC Require Import proofs.AppInv proofs.AppCrashProofs proofs.GeneratedAppEq proofs.GeneratedAnteHandleEq.
Import ListNotations.
Local Open Scope Z_scope.

(* ---- the capstone ---- *)
Theorem C01_generatedapp_full_node_run_eq : forall B g h,
  gen_inv B g -> hist_wf (node_init g) h -> ghist_ok h -> B + hist_size h < two63 ->
  go_node_run_full (node_init g) h = node_run (node_init g) h.
Proof. exact gen_node_run_full_eq. Qed.
Print Assumptions C01_generatedapp_full_node_run_eq.

Theorem C01_generatedapp_full_node_run_eq_from : forall B n h,
  gnode_inv B n -> hist_wf n h -> ghist_ok h -> B + hist_size h < two63 ->
  go_node_run_full n h = node_run n h.
Proof. exact gen_node_run_full_eq_from. Qed.
Print Assumptions C01_generatedapp_full_node_run_eq_from.

(* the two generated nodes agree as well *)
Theorem C01_generatedapp_full_node_run_go : forall B g h,
  gen_inv B g -> hist_wf (node_init g) h -> ghist_ok h -> B + hist_size h < two63 ->
  go_node_run_full (node_init g) h = go_node_run (node_init g) h.
Proof. exact gen_node_run_full_go. Qed.
Print Assumptions C01_generatedapp_full_node_run_go.

(* ---- step by step ---- *)
Theorem C01_generatedapp_full_node_step_eq : forall B n o,
  gnode_inv B n -> op_wf n o -> gop_ok o -> B + op_size o < two63 -> go_node_step_full n o = node_step n o.
Proof. exact gen_node_step_full_model. Qed.
Print Assumptions C01_generatedapp_full_node_step_eq.

Theorem C01_generatedapp_full_deliver_tx_eq : forall B a t,
  tx_wf t -> Forall gmsg_ok (tx_msgs t) -> gen_inv B a -> B + leaves_l (tx_msgs t) < two63 ->
  go_deliver_tx_full a t = deliver_tx a t.
Proof. exact gen_deliver_tx_full_model. Qed.
Print Assumptions C01_generatedapp_full_deliver_tx_eq.

Theorem C01_generatedapp_full_check_tx_eq : forall B a t,
  tx_wf t -> Forall gmsg_ok (tx_msgs t) -> gen_inv B a -> go_check_tx_full a t = check_tx a t.
Proof. exact gen_check_tx_full_model. Qed.
Print Assumptions C01_generatedapp_full_check_tx_eq.

Theorem C01_generatedapp_full_ante_eq : forall B check a t,
  gen_inv B a -> tx_wf t -> go_ante_full check a t = ante check a t.
Proof. exact gen_ante_full_model. Qed.
Print Assumptions C01_generatedapp_full_ante_eq.

Theorem C01_generatedapp_full_ante_go : forall B check a t,
  gen_inv B a -> tx_wf t -> go_ante_full check a t = go_ante check a t.
Proof. exact gen_ante_full_eq. Qed.
Print Assumptions C01_generatedapp_full_ante_go.

(* in deliver mode the fee check is not run: the application invariant and a fee with one coin per denomination *)
Theorem C01_generatedapp_full_ante_deliver_eq : forall a t,
  app_inv a -> NoDup (map fst (tx_fee t)) -> go_ante_full false a t = ante false a t.
Proof. exact gen_ante_full_deliver_model. Qed.
Print Assumptions C01_generatedapp_full_ante_deliver_eq.

(* the three decorators *)
Theorem C01_generatedapp_full_wrk_ante_eq : forall B check a t,
  gen_inv B a -> tx_wf t -> go_wrk_ante_full check a t = reg_ante pick_wrk (a_wrk a) check (a_bank a) (a_ent a) t.
Proof. exact gen_wrk_ante_full_model. Qed.
Print Assumptions C01_generatedapp_full_wrk_ante_eq.

Theorem C01_generatedapp_full_bcn_ante_eq : forall B check a t,
  gen_inv B a -> tx_wf t -> go_bcn_ante_full check a t = reg_ante pick_bcn (a_bcn a) check (a_bank a) (a_ent a) t.
Proof. exact gen_bcn_ante_full_model. Qed.
Print Assumptions C01_generatedapp_full_bcn_ante_eq.

Theorem C01_generatedapp_full_unlock_ante_eq : forall a t,
  app_inv a -> coins_valid (tx_fee t) = true -> go_unlock_ante_full a t = unlock_ante a t.
Proof. exact gen_unlock_ante_full_model. Qed.
Print Assumptions C01_generatedapp_full_unlock_ante_eq.

(* ---- the hypotheses are satisfiable: the genesis ex_g (proofs/AppInv.v) and the history gx_hist
   (proofs/GeneratedAppEq.v; props/C01generatedApp.v section 5) ---- *)
Example C01_generatedapp_full_ex_hypotheses :
  gen_inv 1 ex_g /\ hist_wf (node_init ex_g) gx_hist /\ ghist_ok gx_hist /\ 1 + hist_size gx_hist < two63.
Proof. exact (conj ex_g_gen_inv (conj gx_hist_wf_ok (conj gx_hist_ok gx_hist_size))). Qed.
Print Assumptions C01_generatedapp_full_ex_hypotheses.

Example C01_generatedapp_full_ex_node_run_eq :
  go_node_run_full (node_init ex_g) gx_hist = node_run (node_init ex_g) gx_hist.
Proof. exact gen_node_run_full_eq_ex. Qed.
Print Assumptions C01_generatedapp_full_ex_node_run_eq.

(* the same equality, results included, by running the generated decorators themselves (no theorem involved) *)
Example C01_generatedapp_full_ex_node_trace_eq_computed :
  go_node_trace_full (node_init ex_g) gx_hist = node_trace (node_init ex_g) gx_hist.
Proof. exact gen_node_trace_full_eq_ex_computed. Qed.
Print Assumptions C01_generatedapp_full_ex_node_trace_eq_computed.

(* ---- tx_wf's "one coin per denomination" cannot be dropped ---- *)
Example C01_generatedapp_full_dup_denom_refuted :
  gen_inv 1 ex_g /\ Forall msg_wf (tx_msgs dup_tx) /\ coins_valid (tx_fee dup_tx) = true /\ ~ tx_wf dup_tx /\
  go_ante_full true ex_g dup_tx = Err ERR_APP /\ (exists a', ante true ex_g dup_tx = Ok a').
Proof. exact gen_ante_full_dup_denom_refuted. Qed.
Print Assumptions C01_generatedapp_full_dup_denom_refuted.
