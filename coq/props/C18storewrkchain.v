From Coq Require Import ZArith NArith List Bool Sorted.
From MC Require Import lib.Prelude lib.GoSdk model.Keys model.KVStore model.StoreCodecPrims model.Registry.
From MC Require Import GeneratedKeys GeneratedWrkchainTypes GeneratedWrkchainKeeper GeneratedWrkchainStore.
From MC Require Import proofs.GeneratedWrkchainStoreEq.
Import ListNotations.
Open Scope Z_scope.

Theorem C18_store_wrkchain_writers_single_cell : forall s : okv wrkchain_val,
  (forall p, go_st_SetParams s p = do _ <- go_Params_Validate p; Ok (okv_set s (wrk_encode RkParams) (WV_Params p), tt)) /\
  (forall id, go_st_SetHighestWrkChainID s id = Ok (okv_set s (wrk_encode RkHighestId) (WV_bytes (be64 (Z.to_N id))), tt)) /\
  (forall wc, go_st_SetWrkChain s wc =
     Ok (okv_set s (wrk_encode (RkReg (Z.to_N (WrkChain_WrkchainId wc)))) (WV_WrkChain wc), tt)) /\
  (forall id l, go_st_SetWrkChainStorageLimit s id l =
     Ok (okv_set s (wrk_encode (RkLimit (Z.to_N id))) (WV_WrkChainStorageLimit (mk_go_WrkChainStorageLimit id l)), tt)) /\
  (forall id b, go_st_SetWrkChainBlock s id b =
     Ok (okv_set s (wrk_encode (RkRecord (Z.to_N id) (Z.to_N (WrkChainBlock_Height b)))) (WV_WrkChainBlock b), tt)) /\
  (forall id h, go_st_deleteWrkChainHash s id h = Ok (okv_del s (wrk_encode (RkRecord (Z.to_N id) (Z.to_N h))), tt)) /\
  (forall id h, go_st_IsWrkChainBlockRecorded s id h = Ok false -> go_st_deleteWrkChainHash s id h = Ok (s, tt)).
Proof. exact writers_single_cell. Qed.
Print Assumptions C18_store_wrkchain_writers_single_cell.

Theorem C18_store_wrkchain_writers_total : forall s : okv wrkchain_val,
  (forall id, exists s', go_st_SetHighestWrkChainID s id = Ok (s', tt)) /\
  (forall wc, exists s', go_st_SetWrkChain s wc = Ok (s', tt)) /\
  (forall id l, exists s', go_st_SetWrkChainStorageLimit s id l = Ok (s', tt)) /\
  (forall id b, exists s', go_st_SetWrkChainBlock s id b = Ok (s', tt)) /\
  (forall id h, exists s', go_st_deleteWrkChainHash s id h = Ok (s', tt)) /\
  (forall p, go_Params_Validate p = Ok tt -> exists s', go_st_SetParams s p = Ok (s', tt)).
Proof. exact writers_total. Qed.
Print Assumptions C18_store_wrkchain_writers_total.

Theorem C18_store_wrkchain_readers_footprint : forall s1 s2 : okv wrkchain_val,
  (okv_get s1 (wrk_encode RkParams) = okv_get s2 (wrk_encode RkParams) -> go_st_GetParams s1 = go_st_GetParams s2) /\
  (okv_get s1 (wrk_encode RkHighestId) = okv_get s2 (wrk_encode RkHighestId) ->
     go_st_GetHighestWrkChainID s1 = go_st_GetHighestWrkChainID s2) /\
  (forall id, okv_get s1 (wrk_encode (RkReg (Z.to_N id))) = okv_get s2 (wrk_encode (RkReg (Z.to_N id))) ->
     go_st_IsWrkChainRegistered s1 id = go_st_IsWrkChainRegistered s2 id /\ go_st_GetWrkChain s1 id = go_st_GetWrkChain s2 id) /\
  (forall id, okv_get s1 (wrk_encode (RkLimit (Z.to_N id))) = okv_get s2 (wrk_encode (RkLimit (Z.to_N id))) ->
     go_st_HasWrkChainStorageLimit s1 id = go_st_HasWrkChainStorageLimit s2 id /\
     go_st_GetWrkChainStorageLimit s1 id = go_st_GetWrkChainStorageLimit s2 id) /\
  (forall id h, okv_get s1 (wrk_encode (RkRecord (Z.to_N id) (Z.to_N h))) = okv_get s2 (wrk_encode (RkRecord (Z.to_N id) (Z.to_N h))) ->
     go_st_IsWrkChainBlockRecorded s1 id h = go_st_IsWrkChainBlockRecorded s2 id h /\
     go_st_GetWrkChainBlock s1 id h = go_st_GetWrkChainBlock s2 id h) /\
  (okv_prefix s1 wrk_prefix_regs = okv_prefix s2 wrk_prefix_regs ->
     go_st_GetAllWrkChains s1 = go_st_GetAllWrkChains s2 /\
     forall (St : Type) (cb : St -> go_WrkChain -> outcome (St * bool)) (st : St),
       go_st_IterateWrkChains s1 cb st = go_st_IterateWrkChains s2 cb st) /\
  (forall id, okv_prefix s1 (wrk_prefix_records_of (Z.to_N id)) = okv_prefix s2 (wrk_prefix_records_of (Z.to_N id)) ->
     go_st_GetAllWrkChainBlockHashes s1 id = go_st_GetAllWrkChainBlockHashes s2 id /\
     go_st_GetLastWrkChainHeightInState s1 id = go_st_GetLastWrkChainHeightInState s2 id /\
     (forall (St : Type) (cb : St -> go_WrkChainBlock -> outcome (St * bool)) (st : St),
       go_st_IterateWrkChainBlockHashes s1 id cb st = go_st_IterateWrkChainBlockHashes s2 id cb st) /\
     (forall (St : Type) page limit (cb : St -> go_WrkChainBlock -> outcome (St * bool)) (st : St),
       go_st_IterateWrkChainBlockHashesPaginated s1 id page limit cb st = go_st_IterateWrkChainBlockHashesPaginated s2 id page limit cb st) /\
     (forall (St : Type) (cb : St -> go_WrkChainBlock -> outcome (St * bool)) (st : St),
       go_st_IterateWrkChainBlockHashesReverse s1 id cb st = go_st_IterateWrkChainBlockHashesReverse s2 id cb st)).
Proof. exact readers_footprint. Qed.
Print Assumptions C18_store_wrkchain_readers_footprint.

Theorem C18_store_wrkchain_iterations_are_prefix_walks : forall s : okv wrkchain_val,
  (forall (St : Type) (cb : St -> go_WrkChain -> outcome (St * bool)) (st : St),
     go_st_IterateWrkChains s cb st =
     okv_iterate (fun _ v => wrkchain_unmarshal_WrkChain (Some v)) cb (okv_prefix s wrk_prefix_regs) st) /\
  (forall id (St : Type) (cb : St -> go_WrkChainBlock -> outcome (St * bool)) (st : St),
     go_st_IterateWrkChainBlockHashes s id cb st =
     okv_iterate (fun _ v => wrkchain_unmarshal_WrkChainBlock (Some v)) cb (okv_prefix s (wrk_prefix_records_of (Z.to_N id))) st) /\
  (forall id (St : Type) (cb : St -> go_WrkChainBlock -> outcome (St * bool)) (st : St),
     go_st_IterateWrkChainBlockHashesReverse s id cb st =
     okv_iterate (fun _ v => wrkchain_unmarshal_WrkChainBlock (Some v)) cb (rev (okv_prefix s (wrk_prefix_records_of (Z.to_N id)))) st) /\
  (forall id, go_st_GetLastWrkChainHeightInState s id =
     match okv_prefix s (wrk_prefix_records_of (Z.to_N id)) with
     | [] => Ok 0
     | (_, v) :: _ => do b <- wrkchain_unmarshal_WrkChainBlock (Some v); Ok (WrkChainBlock_Height b)
     end).
Proof. exact iterations_are_prefix_walks. Qed.
Print Assumptions C18_store_wrkchain_iterations_are_prefix_walks.

Theorem C18_store_wrkchain_writers_preserve_sorted : forall s s' : okv wrkchain_val, okv_sorted s = true ->
  (exists p, go_st_SetParams s p = Ok (s', tt)) \/
  (exists id, go_st_SetHighestWrkChainID s id = Ok (s', tt)) \/
  (exists wc, go_st_SetWrkChain s wc = Ok (s', tt)) \/
  (exists id l, go_st_SetWrkChainStorageLimit s id l = Ok (s', tt)) \/
  (exists id b, go_st_SetWrkChainBlock s id b = Ok (s', tt)) \/
  (exists id h, go_st_deleteWrkChainHash s id h = Ok (s', tt)) ->
  okv_sorted s' = true.
Proof. exact writers_preserve_sorted. Qed.
Print Assumptions C18_store_wrkchain_writers_preserve_sorted.

Theorem C18_store_wrkchain_writers_preserve_wf : forall s s' : okv wrkchain_val, wrk_store_wf s ->
  (exists p, go_st_SetParams s p = Ok (s', tt)) \/
  (exists id, go_st_SetHighestWrkChainID s id = Ok (s', tt)) \/
  (exists wc, 0 <= WrkChain_WrkchainId wc < 2 ^ 64 /\ go_st_SetWrkChain s wc = Ok (s', tt)) \/
  (exists id l, go_st_SetWrkChainStorageLimit s id l = Ok (s', tt)) \/
  (exists id b, 0 <= id < 2 ^ 64 /\ 0 <= WrkChainBlock_Height b < 2 ^ 64 /\ go_st_SetWrkChainBlock s id b = Ok (s', tt)) \/
  (exists id h, go_st_deleteWrkChainHash s id h = Ok (s', tt)) ->
  wrk_store_wf s'.
Proof. exact writers_preserve_wf. Qed.
Print Assumptions C18_store_wrkchain_writers_preserve_wf.

Theorem C18_store_wrkchain_empty_store_ok : okv_sorted (@nil (list N * wrkchain_val)) = true /\ wrk_store_wf [].
Proof. exact empty_store_ok. Qed.
Print Assumptions C18_store_wrkchain_empty_store_ok.

(* ---- read your write ---- *)
Theorem C18_store_wrkchain_ryw_params : forall (s : okv wrkchain_val) p s',
  go_st_SetParams s p = Ok (s', tt) -> go_st_GetParams s' = Ok p.
Proof. exact ryw_params. Qed.
Print Assumptions C18_store_wrkchain_ryw_params.

Theorem C18_store_wrkchain_ryw_params_fields : forall (s : okv wrkchain_val) p s',
  go_st_SetParams s p = Ok (s', tt) ->
  go_st_GetParamDenom s' = Ok (Params_Denom p) /\
  go_st_GetParamRegistrationFee s' = Ok (Params_FeeRegister p) /\
  go_st_GetParamRecordFee s' = Ok (Params_FeeRecord p) /\
  go_st_GetParamPurchaseStorageFee s' = Ok (Params_FeePurchaseStorage p) /\
  go_st_GetParamDefaultStorageLimit s' = Ok (Params_DefaultStorageLimit p) /\
  go_st_GetParamMaxStorageLimit s' = Ok (Params_MaxStorageLimit p).
Proof. exact ryw_params_fields. Qed.
Print Assumptions C18_store_wrkchain_ryw_params_fields.

Theorem C18_store_wrkchain_ryw_highest : forall (s : okv wrkchain_val) id s', 0 <= id < 2 ^ 64 ->
  go_st_SetHighestWrkChainID s id = Ok (s', tt) -> go_st_GetHighestWrkChainID s' = Ok id.
Proof. exact ryw_highest. Qed.
Print Assumptions C18_store_wrkchain_ryw_highest.

Theorem C18_store_wrkchain_ryw_wrkchain : forall (s : okv wrkchain_val) wc s',
  go_st_SetWrkChain s wc = Ok (s', tt) ->
  go_st_GetWrkChain s' (WrkChain_WrkchainId wc) = Ok (wc, true) /\
  go_st_IsWrkChainRegistered s' (WrkChain_WrkchainId wc) = Ok true.
Proof. exact ryw_wrkchain. Qed.
Print Assumptions C18_store_wrkchain_ryw_wrkchain.

Theorem C18_store_wrkchain_ryw_limit : forall (s : okv wrkchain_val) id l s',
  go_st_SetWrkChainStorageLimit s id l = Ok (s', tt) ->
  go_st_GetWrkChainStorageLimit s' id = Ok (mk_go_WrkChainStorageLimit id l, true) /\
  go_st_HasWrkChainStorageLimit s' id = Ok true.
Proof. exact ryw_limit. Qed.
Print Assumptions C18_store_wrkchain_ryw_limit.

Theorem C18_store_wrkchain_ryw_block : forall (s : okv wrkchain_val) id b s',
  go_st_SetWrkChainBlock s id b = Ok (s', tt) ->
  go_st_GetWrkChainBlock s' id (WrkChainBlock_Height b) = Ok (b, true) /\
  go_st_IsWrkChainBlockRecorded s' id (WrkChainBlock_Height b) = Ok true.
Proof. exact ryw_block. Qed.
Print Assumptions C18_store_wrkchain_ryw_block.

Theorem C18_store_wrkchain_read_after_delete : forall (s : okv wrkchain_val) id h s', okv_sorted s = true ->
  go_st_deleteWrkChainHash s id h = Ok (s', tt) ->
  go_st_IsWrkChainBlockRecorded s' id h = Ok false /\
  go_st_GetWrkChainBlock s' id h = Ok (zero_go_WrkChainBlock, false).
Proof. exact read_after_delete. Qed.
Print Assumptions C18_store_wrkchain_read_after_delete.

Theorem C18_store_wrkchain_defaults : forall s : okv wrkchain_val,
  (okv_get s (wrk_encode RkParams) = None -> go_st_GetParams s = Ok zero_go_Params) /\
  (okv_get s (wrk_encode RkHighestId) = None -> go_st_GetHighestWrkChainID s = Err STORE_ERR) /\
  (forall id, go_st_IsWrkChainRegistered s id = Ok false -> go_st_GetWrkChain s id = Ok (zero_go_WrkChain, false)) /\
  (forall id, go_st_HasWrkChainStorageLimit s id = Ok false ->
     go_st_GetWrkChainStorageLimit s id = Ok (mk_go_WrkChainStorageLimit id store_const_DefaultStorageLimit, false)) /\
  (forall id h, go_st_IsWrkChainBlockRecorded s id h = Ok false -> go_st_GetWrkChainBlock s id h = Ok (zero_go_WrkChainBlock, false)) /\
  (forall id, go_st_GetWrkChainStorageLimit [] id = Ok (mk_go_WrkChainStorageLimit id store_const_DefaultStorageLimit, false)).
Proof. exact defaults. Qed.
Print Assumptions C18_store_wrkchain_defaults.

(* ---- a write at one logical key leaves the reads at the other keys of the same kind alone ---- *)
Theorem C18_store_wrkchain_other_wrkchain : forall (s : okv wrkchain_val) wc s' id,
  0 <= WrkChain_WrkchainId wc < 2 ^ 64 -> 0 <= id < 2 ^ 64 -> id <> WrkChain_WrkchainId wc ->
  go_st_SetWrkChain s wc = Ok (s', tt) ->
  go_st_GetWrkChain s' id = go_st_GetWrkChain s id /\ go_st_IsWrkChainRegistered s' id = go_st_IsWrkChainRegistered s id.
Proof. exact other_wrkchain. Qed.
Print Assumptions C18_store_wrkchain_other_wrkchain.

Theorem C18_store_wrkchain_other_limit : forall (s : okv wrkchain_val) id l s' id',
  0 <= id < 2 ^ 64 -> 0 <= id' < 2 ^ 64 -> id' <> id ->
  go_st_SetWrkChainStorageLimit s id l = Ok (s', tt) ->
  go_st_GetWrkChainStorageLimit s' id' = go_st_GetWrkChainStorageLimit s id' /\
  go_st_HasWrkChainStorageLimit s' id' = go_st_HasWrkChainStorageLimit s id'.
Proof. exact other_limit. Qed.
Print Assumptions C18_store_wrkchain_other_limit.

Theorem C18_store_wrkchain_other_block_set : forall (s : okv wrkchain_val) id b s' id' h',
  0 <= id < 2 ^ 64 -> 0 <= WrkChainBlock_Height b < 2 ^ 64 -> 0 <= id' < 2 ^ 64 -> 0 <= h' < 2 ^ 64 ->
  (id', h') <> (id, WrkChainBlock_Height b) ->
  go_st_SetWrkChainBlock s id b = Ok (s', tt) ->
  go_st_GetWrkChainBlock s' id' h' = go_st_GetWrkChainBlock s id' h' /\
  go_st_IsWrkChainBlockRecorded s' id' h' = go_st_IsWrkChainBlockRecorded s id' h'.
Proof. exact other_block_set. Qed.
Print Assumptions C18_store_wrkchain_other_block_set.

Theorem C18_store_wrkchain_other_block_delete : forall (s : okv wrkchain_val) id h s' id' h',
  0 <= id < 2 ^ 64 -> 0 <= h < 2 ^ 64 -> 0 <= id' < 2 ^ 64 -> 0 <= h' < 2 ^ 64 ->
  (id', h') <> (id, h) ->
  go_st_deleteWrkChainHash s id h = Ok (s', tt) ->
  go_st_GetWrkChainBlock s' id' h' = go_st_GetWrkChainBlock s id' h' /\
  go_st_IsWrkChainBlockRecorded s' id' h' = go_st_IsWrkChainBlockRecorded s id' h'.
Proof. exact other_block_delete. Qed.
Print Assumptions C18_store_wrkchain_other_block_delete.

(* writing / deleting a block of one WRKChain changes no listing, iteration or lowest height of another one *)
Theorem C18_store_wrkchain_other_blocks_listing : forall (s s' : okv wrkchain_val) id id',
  0 <= id < 2 ^ 64 -> 0 <= id' < 2 ^ 64 -> id' <> id ->
  (exists b, go_st_SetWrkChainBlock s id b = Ok (s', tt)) \/ (exists h, go_st_deleteWrkChainHash s id h = Ok (s', tt)) ->
  (forall (St : Type) (cb : St -> go_WrkChainBlock -> outcome (St * bool)) (st : St),
     go_st_IterateWrkChainBlockHashes s' id' cb st = go_st_IterateWrkChainBlockHashes s id' cb st) /\
  (forall (St : Type) page limit (cb : St -> go_WrkChainBlock -> outcome (St * bool)) (st : St),
     go_st_IterateWrkChainBlockHashesPaginated s' id' page limit cb st = go_st_IterateWrkChainBlockHashesPaginated s id' page limit cb st) /\
  (forall (St : Type) (cb : St -> go_WrkChainBlock -> outcome (St * bool)) (st : St),
     go_st_IterateWrkChainBlockHashesReverse s' id' cb st = go_st_IterateWrkChainBlockHashesReverse s id' cb st) /\
  go_st_GetAllWrkChainBlockHashes s' id' = go_st_GetAllWrkChainBlockHashes s id' /\
  go_st_GetLastWrkChainHeightInState s' id' = go_st_GetLastWrkChainHeightInState s id'.
Proof. exact other_blocks_listing. Qed.
Print Assumptions C18_store_wrkchain_other_blocks_listing.

(* ---- isolation across kinds: no hypothesis on the store, on ids or on heights ---- *)
Theorem C18_store_wrkchain_iso_params_reads : forall s s' : okv wrkchain_val,
  (exists id, go_st_SetHighestWrkChainID s id = Ok (s', tt)) \/
  (exists wc, go_st_SetWrkChain s wc = Ok (s', tt)) \/
  (exists id l, go_st_SetWrkChainStorageLimit s id l = Ok (s', tt)) \/
  (exists id b, go_st_SetWrkChainBlock s id b = Ok (s', tt)) \/
  (exists id h, go_st_deleteWrkChainHash s id h = Ok (s', tt)) ->
  go_st_GetParams s' = go_st_GetParams s /\
  go_st_GetParamDenom s' = go_st_GetParamDenom s /\
  go_st_GetParamRegistrationFee s' = go_st_GetParamRegistrationFee s /\
  go_st_GetParamRecordFee s' = go_st_GetParamRecordFee s /\
  go_st_GetParamPurchaseStorageFee s' = go_st_GetParamPurchaseStorageFee s /\
  go_st_GetParamDefaultStorageLimit s' = go_st_GetParamDefaultStorageLimit s /\
  go_st_GetParamMaxStorageLimit s' = go_st_GetParamMaxStorageLimit s.
Proof. exact iso_params_reads. Qed.
Print Assumptions C18_store_wrkchain_iso_params_reads.

Theorem C18_store_wrkchain_iso_highest_reads : forall s s' : okv wrkchain_val,
  (exists p, go_st_SetParams s p = Ok (s', tt)) \/
  (exists wc, go_st_SetWrkChain s wc = Ok (s', tt)) \/
  (exists id l, go_st_SetWrkChainStorageLimit s id l = Ok (s', tt)) \/
  (exists id b, go_st_SetWrkChainBlock s id b = Ok (s', tt)) \/
  (exists id h, go_st_deleteWrkChainHash s id h = Ok (s', tt)) ->
  go_st_GetHighestWrkChainID s' = go_st_GetHighestWrkChainID s.
Proof. exact iso_highest_reads. Qed.
Print Assumptions C18_store_wrkchain_iso_highest_reads.

Theorem C18_store_wrkchain_iso_entity_reads : forall s s' : okv wrkchain_val,
  (exists p, go_st_SetParams s p = Ok (s', tt)) \/
  (exists id, go_st_SetHighestWrkChainID s id = Ok (s', tt)) \/
  (exists id l, go_st_SetWrkChainStorageLimit s id l = Ok (s', tt)) \/
  (exists id b, go_st_SetWrkChainBlock s id b = Ok (s', tt)) \/
  (exists id h, go_st_deleteWrkChainHash s id h = Ok (s', tt)) ->
  (forall id, go_st_IsWrkChainRegistered s' id = go_st_IsWrkChainRegistered s id) /\
  (forall id, go_st_GetWrkChain s' id = go_st_GetWrkChain s id) /\
  (forall (St : Type) (cb : St -> go_WrkChain -> outcome (St * bool)) (st : St),
     go_st_IterateWrkChains s' cb st = go_st_IterateWrkChains s cb st) /\
  go_st_GetAllWrkChains s' = go_st_GetAllWrkChains s.
Proof. exact iso_entity_reads. Qed.
Print Assumptions C18_store_wrkchain_iso_entity_reads.

Theorem C18_store_wrkchain_iso_limit_reads : forall s s' : okv wrkchain_val,
  (exists p, go_st_SetParams s p = Ok (s', tt)) \/
  (exists id, go_st_SetHighestWrkChainID s id = Ok (s', tt)) \/
  (exists wc, go_st_SetWrkChain s wc = Ok (s', tt)) \/
  (exists id b, go_st_SetWrkChainBlock s id b = Ok (s', tt)) \/
  (exists id h, go_st_deleteWrkChainHash s id h = Ok (s', tt)) ->
  (forall id, go_st_HasWrkChainStorageLimit s' id = go_st_HasWrkChainStorageLimit s id) /\
  (forall id, go_st_GetWrkChainStorageLimit s' id = go_st_GetWrkChainStorageLimit s id).
Proof. exact iso_limit_reads. Qed.
Print Assumptions C18_store_wrkchain_iso_limit_reads.

Theorem C18_store_wrkchain_iso_block_reads : forall s s' : okv wrkchain_val,
  (exists p, go_st_SetParams s p = Ok (s', tt)) \/
  (exists id, go_st_SetHighestWrkChainID s id = Ok (s', tt)) \/
  (exists wc, go_st_SetWrkChain s wc = Ok (s', tt)) \/
  (exists id l, go_st_SetWrkChainStorageLimit s id l = Ok (s', tt)) ->
  (forall id h, go_st_IsWrkChainBlockRecorded s' id h = go_st_IsWrkChainBlockRecorded s id h) /\
  (forall id h, go_st_GetWrkChainBlock s' id h = go_st_GetWrkChainBlock s id h) /\
  (forall id,
    (forall (St : Type) (cb : St -> go_WrkChainBlock -> outcome (St * bool)) (st : St),
       go_st_IterateWrkChainBlockHashes s' id cb st = go_st_IterateWrkChainBlockHashes s id cb st) /\
    (forall (St : Type) page limit (cb : St -> go_WrkChainBlock -> outcome (St * bool)) (st : St),
       go_st_IterateWrkChainBlockHashesPaginated s' id page limit cb st = go_st_IterateWrkChainBlockHashesPaginated s id page limit cb st) /\
    (forall (St : Type) (cb : St -> go_WrkChainBlock -> outcome (St * bool)) (st : St),
       go_st_IterateWrkChainBlockHashesReverse s' id cb st = go_st_IterateWrkChainBlockHashesReverse s id cb st) /\
    go_st_GetAllWrkChainBlockHashes s' id = go_st_GetAllWrkChainBlockHashes s id /\
    go_st_GetLastWrkChainHeightInState s' id = go_st_GetLastWrkChainHeightInState s id).
Proof. exact iso_block_reads. Qed.
Print Assumptions C18_store_wrkchain_iso_block_reads.

(* ---- listings ---- *)
Theorem C18_store_wrkchain_wf_point_reads_total : forall s : okv wrkchain_val, wrk_store_wf s ->
  (exists p, go_st_GetParams s = Ok p) /\
  (forall id, exists r, go_st_GetWrkChain s id = Ok r) /\
  (forall id, exists r, go_st_GetWrkChainStorageLimit s id = Ok r) /\
  (forall id h, exists r, go_st_GetWrkChainBlock s id h = Ok r).
Proof. exact wf_point_reads_total. Qed.
Print Assumptions C18_store_wrkchain_wf_point_reads_total.

(* complete, exactly the stored values, consistent with the point query, ascending id, no duplicates *)
Theorem C18_store_wrkchain_all_wrkchains_listing : forall s : okv wrkchain_val, okv_sorted s = true -> wrk_store_wf s ->
  exists l, go_st_GetAllWrkChains s = Ok l /\
    map WV_WrkChain l = map snd (okv_prefix s wrk_prefix_regs) /\
    (forall w, In w l <-> go_st_GetWrkChain s (WrkChain_WrkchainId w) = Ok (w, true)) /\
    StronglySorted (fun a b => WrkChain_WrkchainId a < WrkChain_WrkchainId b) l /\
    NoDup l.
Proof. exact GetAllWrkChains_listing. Qed.
Print Assumptions C18_store_wrkchain_all_wrkchains_listing.

Theorem C18_store_wrkchain_all_blocks_listing : forall (s : okv wrkchain_val) id,
  0 <= id < 2 ^ 64 -> okv_sorted s = true -> wrk_store_wf s ->
  exists l, go_st_GetAllWrkChainBlockHashes s id = Ok l /\
    map WV_WrkChainBlock l = map snd (okv_prefix s (wrk_prefix_records_of (Z.to_N id))) /\
    (forall b, In b l <-> go_st_GetWrkChainBlock s id (WrkChainBlock_Height b) = Ok (b, true)) /\
    StronglySorted (fun a b => WrkChainBlock_Height a < WrkChainBlock_Height b) l /\
    NoDup l.
Proof. exact GetAllWrkChainBlockHashes_listing. Qed.
Print Assumptions C18_store_wrkchain_all_blocks_listing.

Theorem C18_store_wrkchain_reverse_listing : forall (s : okv wrkchain_val) id,
  0 <= id < 2 ^ 64 -> okv_sorted s = true -> wrk_store_wf s ->
  forall l, go_st_GetAllWrkChainBlockHashes s id = Ok l ->
  go_st_IterateWrkChainBlockHashesReverse s id (fun acc b => Ok (acc ++ [b], false)) [] = Ok (rev l).
Proof. exact IterateReverse_append. Qed.
Print Assumptions C18_store_wrkchain_reverse_listing.

(* GetLastWrkChainHeightInState: the LOWEST stored height of that WRKChain; 0 when it has no block *)
Theorem C18_store_wrkchain_last_height_is_lowest : forall (s : okv wrkchain_val) id,
  0 <= id < 2 ^ 64 -> okv_sorted s = true -> wrk_store_wf s ->
  exists h0, go_st_GetLastWrkChainHeightInState s id = Ok h0 /\
    ((h0 = 0 /\ forall h, 0 <= h < 2 ^ 64 -> go_st_IsWrkChainBlockRecorded s id h = Ok false) \/
     (0 <= h0 < 2 ^ 64 /\ go_st_IsWrkChainBlockRecorded s id h0 = Ok true /\
      forall h, 0 <= h < 2 ^ 64 -> go_st_IsWrkChainBlockRecorded s id h = Ok true -> h0 <= h)).
Proof. exact GetLastWrkChainHeightInState_lowest. Qed.
Print Assumptions C18_store_wrkchain_last_height_is_lowest.

Theorem C18_store_wrkchain_last_height_none : forall (s : okv wrkchain_val) id, 0 <= id < 2 ^ 64 ->
  (forall h, 0 <= h < 2 ^ 64 -> go_st_IsWrkChainBlockRecorded s id h = Ok false) -> wrk_store_wf s ->
  go_st_GetLastWrkChainHeightInState s id = Ok 0.
Proof. exact GetLastWrkChainHeightInState_none. Qed.
Print Assumptions C18_store_wrkchain_last_height_none.

Theorem C18_store_wrkchain_last_height_own_blocks_only : forall (s1 s2 : okv wrkchain_val) id, 0 <= id < 2 ^ 64 ->
  okv_sorted s1 = true -> wrk_store_wf s1 -> okv_sorted s2 = true -> wrk_store_wf s2 ->
  (forall h, 0 <= h < 2 ^ 64 -> go_st_GetWrkChainBlock s1 id h = go_st_GetWrkChainBlock s2 id h) ->
  go_st_GetLastWrkChainHeightInState s1 id = go_st_GetLastWrkChainHeightInState s2 id /\
  go_st_GetAllWrkChainBlockHashes s1 id = go_st_GetAllWrkChainBlockHashes s2 id.
Proof. exact GetLastWrkChainHeightInState_own_blocks_only. Qed.
Print Assumptions C18_store_wrkchain_last_height_own_blocks_only.

(* = lowest_key of model/Registry.v (the hand-written primitive reg_LowestKeyInState) over any association list
   holding exactly the recorded heights of that WRKChain *)
Theorem C18_store_wrkchain_last_height_is_lowest_key : forall (s : okv wrkchain_val) id (recs : list ((Z * Z) * record)),
  0 <= id < 2 ^ 64 -> okv_sorted s = true -> wrk_store_wf s ->
  (forall h, (exists rc, In ((id, h), rc) recs) <-> (0 <= h < 2 ^ 64 /\ go_st_IsWrkChainBlockRecorded s id h = Ok true)) ->
  (forall h rc, In ((id, h), rc) recs -> 1 <= h) ->
  go_st_GetLastWrkChainHeightInState s id = Ok (lowest_key id recs).
Proof. exact GetLastWrkChainHeightInState_lowest_key. Qed.
Print Assumptions C18_store_wrkchain_last_height_is_lowest_key.
