(* C06, link to the source for the WHOLE fee decorators: the AnteHandle of x/wrkchain/ante and x/beacon/ante as generated on every run (GeneratedWrkchainAnte.v, GeneratedBeaconAnte.v) accepts a WRKChain / BEACON transaction at CheckTx only with the exact fee, sufficient liquid + locked funds of the fee payer and within the purchasable slots.

   GeneratedWrkchainAnte.v / GeneratedBeaconAnte.v hold the five functions of x/{wrkchain,beacon}/ante/ante.go (CheckIs*Tx,
   check*Fees, checkFeePayerHasFunds, check*MaxSlots - a Go map -, AnteHandle) translated against the primitives of
   model/AnteWorld.v: [AnteWorld.mk_aworld now check b e rs] = block time, IsCheckTx, bank, enterprise state, the module's
   own registry state.  [gotx_of t] (model/{Wrkchain,Beacon}AnteGenSpec.v) is the sdk.Tx a model transaction stands for.
   proofs/Generated{Wrkchain,Beacon}AnteHandleEq.v prove each function equal to the model's (model/App.v, Section RegAnte:
   own_msgs, check_fees, payer_has_funds, check_max_slots, reg_ante) - the statements C06 (props/C06.v) is proved about;
   proofs/GeneratedAnteHandleEq.v discharges their hypotheses from the application invariant and proves the application
   with the generated decorators (model/GeneratedApp.v: go_*_full) equal to model/App.v's.

   Hypotheses:
     fee check (CheckTx only)   the three fee parameters fit an int64 (the getters convert them; C06generatedwrk.v:
                                C06_generated_wrk_fee_param_refuted), the per-slot fee is positive, purchase counts are
                                uint64 values;
     funds check                bank_wf b (one table entry per (account, denomination)), bank_nonneg b, the payer's locked
                                amount is not negative, the fee names each denomination once (a valid sdk.Coins: the
                                generated Coins.IsValid demands it, the model's coins_valid does not look at it -
                                C06_generated_ante_*_dup_denom_refuted);
     max-slots check            none;
     gen_inv B a, tx_wf t       (proofs/GeneratedAppEq.v, proofs/AppInv.v) imply all of the above.
   Panic codes: sdk.NewCoin's "negative coin amount" (a purchase of 2^63 slots or more) is GO_PANIC_NEGCOIN = 4 in
   lib/GoSdk.v and PANIC_NEGFEE = 55 in model/App.v; [as_go_panic] / [as_model_panic] (proofs/GeneratedAnteCommon.v) rename
   that one code and no other (the funds check's nil-coin panic is 22 on both sides).
   (The generated files of the two modules define the same names: every generated name is qualified.) *)
From Coq Require Import ZArith Lia List String Bool.
From MC Require Import lib.Prelude lib.AMap lib.GoSdk model.Bank model.Registry model.Enterprise model.App model.AppSpec
  model.GeneratedApp.
From MC Require model.AnteWorld GeneratedWrkchainAnte GeneratedBeaconAnte model.WrkchainAnteGenSpec model.BeaconAnteGenSpec.
From MC Require Import proofs.BankProofs proofs.EnterpriseProofs proofs.AppFeeProofs proofs.AppInv proofs.GeneratedAnteCommon
  proofs.GeneratedAppEq proofs.GeneratedAnteHandleEq.
From MC Require proofs.GeneratedWrkchainAnteHandleEq proofs.GeneratedBeaconAnteHandleEq.
Import ListNotations.
Local Open Scope Z_scope.

(* ================================================================================================ *)
(* x/wrkchain                                                                                          *)
(* ================================================================================================ *)

(* ---- which transactions the decorator looks at ---- *)
Theorem C06_generated_ante_wrk_is_registry_tx : forall t,
  GeneratedWrkchainAnte.go_CheckIsWrkChainTx (WrkchainAnteGenSpec.gotx_of t) = Ok (has_wrk t).
Proof. exact GeneratedWrkchainAnteHandleEq.gen_wrk_ante_CheckIsTx_eq. Qed.
Print Assumptions C06_generated_ante_wrk_is_registry_tx.

(* ---- the exact-fee check is the model's (no purchase of 2^63 slots or more) ---- *)
Theorem C06_generated_ante_wrk_fee_check_is_model : forall now check b e rs t,
  0 <= rp_fee_register (r_params rs) < two63 /\ 0 <= rp_fee_record (r_params rs) < two63 /\
  0 <= rp_fee_purchase (r_params rs) < two63 ->
  (forall o id n, In (MWrk (RPurchase o id n)) (tx_msgs t) -> 0 <= n < two63) ->
  GeneratedWrkchainAnte.go_checkWrkchainFees (AnteWorld.mk_aworld now check b e rs) (WrkchainAnteGenSpec.gotx_of t) = check_fees pick_wrk rs t.
Proof. exact GeneratedWrkchainAnteHandleEq.gen_wrk_ante_checkFees_eq. Qed.
Print Assumptions C06_generated_ante_wrk_fee_check_is_model.

(* ---- for uint64 purchase counts: the model's, the panic code apart ---- *)
Theorem C06_generated_ante_wrk_fee_check_total : forall now check b e rs t,
  0 <= rp_fee_register (r_params rs) < two63 /\ 0 <= rp_fee_record (r_params rs) < two63 /\
  0 <= rp_fee_purchase (r_params rs) < two63 ->
  0 < rp_fee_purchase (r_params rs) ->
  (forall o id n, In (MWrk (RPurchase o id n)) (tx_msgs t) -> 0 <= n < two64) ->
  GeneratedWrkchainAnte.go_checkWrkchainFees (AnteWorld.mk_aworld now check b e rs) (WrkchainAnteGenSpec.gotx_of t) =
  match check_fees pick_wrk rs t with Panic _ => Panic GO_PANIC_NEGCOIN | o => o end.
Proof. exact GeneratedWrkchainAnteHandleEq.gen_wrk_ante_checkFees_total. Qed.
Print Assumptions C06_generated_ante_wrk_fee_check_total.

(* ---- accepted only with exactly the sum of the fees of the module's top-level messages ---- *)
Theorem C06_generated_ante_wrk_fee_exact : forall now check b e rs t,
  0 <= rp_fee_register (r_params rs) < two63 /\ 0 <= rp_fee_record (r_params rs) < two63 /\
  0 <= rp_fee_purchase (r_params rs) < two63 ->
  0 < rp_fee_purchase (r_params rs) ->
  (forall o id n, In (MWrk (RPurchase o id n)) (tx_msgs t) -> 0 <= n < two64) ->
  GeneratedWrkchainAnte.go_checkWrkchainFees (AnteWorld.mk_aworld now check b e rs) (WrkchainAnteGenSpec.gotx_of t) = Ok tt ->
  fee_amount_of (tx_fee t) (rp_denom (r_params rs)) = expected_fee pick_wrk rs t /\
  existsb (fun c => fst c =? rp_denom (r_params rs)) (tx_fee t) = true /\
  existsb (fun r => match r with RPurchase _ _ n => two63 <=? n | _ => false end) (own_msgs pick_wrk t) = false.
Proof. exact GeneratedWrkchainAnteHandleEq.gen_wrk_ante_checkFees_exact. Qed.
Print Assumptions C06_generated_ante_wrk_fee_exact.

(* ---- the funds check is the model's (props/C05generatedante.v says what it counts) ---- *)
Theorem C06_generated_ante_wrk_funds_check_is_model : forall now check b e rs t,
  bank_wf b -> bank_nonneg b -> 0 <= snd (locked_coin e (tx_payer t)) -> NoDup (map fst (tx_fee t)) ->
  GeneratedWrkchainAnte.go_checkFeePayerHasFunds (AnteWorld.mk_aworld now check b e rs) (WrkchainAnteGenSpec.gotx_of t) = payer_has_funds rs b e t.
Proof. exact GeneratedWrkchainAnteHandleEq.gen_wrk_ante_funds_eq. Qed.
Print Assumptions C06_generated_ante_wrk_funds_check_is_model.

(* ---- the max-slots check (a Go map, uint64 sums) is the model's: no hypothesis ---- *)
Theorem C06_generated_ante_wrk_max_slots_is_model : forall now check b e rs t,
  GeneratedWrkchainAnte.go_checkWrkChainMaxSlots (AnteWorld.mk_aworld now check b e rs) (WrkchainAnteGenSpec.gotx_of t) = check_max_slots pick_wrk rs t.
Proof. exact GeneratedWrkchainAnteHandleEq.gen_wrk_ante_maxSlots_eq. Qed.
Print Assumptions C06_generated_ante_wrk_max_slots_is_model.

(* ---- AnteHandle is the model's decorator, the code of the "negative coin amount" panic apart ---- *)
Theorem C06_generated_ante_wrk_AnteHandle_is_model : forall now check b e rs t,
  (check = true ->
     (0 <= rp_fee_register (r_params rs) < two63 /\ 0 <= rp_fee_record (r_params rs) < two63 /\
      0 <= rp_fee_purchase (r_params rs) < two63) /\
     0 < rp_fee_purchase (r_params rs) /\
     (forall o id n, In (MWrk (RPurchase o id n)) (tx_msgs t) -> 0 <= n < two64)) ->
  bank_wf b /\ bank_nonneg b /\ 0 <= snd (locked_coin e (tx_payer t)) /\ NoDup (map fst (tx_fee t)) ->
  GeneratedWrkchainAnte.go_AnteHandle (AnteWorld.mk_aworld now check b e rs) (WrkchainAnteGenSpec.gotx_of t) false =
  as_go_panic (reg_ante pick_wrk rs check b e t).
Proof. exact GeneratedWrkchainAnteHandleEq.gen_wrk_AnteHandle_eq. Qed.
Print Assumptions C06_generated_ante_wrk_AnteHandle_is_model.

Theorem C06_generated_ante_wrk_AnteHandle_model : forall now check b e rs t,
  (check = true ->
     (0 <= rp_fee_register (r_params rs) < two63 /\ 0 <= rp_fee_record (r_params rs) < two63 /\
      0 <= rp_fee_purchase (r_params rs) < two63) /\
     0 < rp_fee_purchase (r_params rs) /\
     (forall o id n, In (MWrk (RPurchase o id n)) (tx_msgs t) -> 0 <= n < two64)) ->
  bank_wf b /\ bank_nonneg b /\ 0 <= snd (locked_coin e (tx_payer t)) /\ NoDup (map fst (tx_fee t)) ->
  as_model_panic (GeneratedWrkchainAnte.go_AnteHandle (AnteWorld.mk_aworld now check b e rs) (WrkchainAnteGenSpec.gotx_of t) false) =
  reg_ante pick_wrk rs check b e t.
Proof. exact GeneratedWrkchainAnteHandleEq.gen_wrk_AnteHandle_model. Qed.
Print Assumptions C06_generated_ante_wrk_AnteHandle_model.

(* DeliverTx (the fee check does not run): equal as they are *)
Theorem C06_generated_ante_wrk_AnteHandle_deliver : forall now b e rs t,
  bank_wf b /\ bank_nonneg b /\ 0 <= snd (locked_coin e (tx_payer t)) /\ NoDup (map fst (tx_fee t)) ->
  GeneratedWrkchainAnte.go_AnteHandle (AnteWorld.mk_aworld now false b e rs) (WrkchainAnteGenSpec.gotx_of t) false = reg_ante pick_wrk rs false b e t.
Proof. exact GeneratedWrkchainAnteHandleEq.gen_wrk_AnteHandle_deliver_eq. Qed.
Print Assumptions C06_generated_ante_wrk_AnteHandle_deliver.

(* CheckTx without a purchase of 2^63 slots or more: equal as they are *)
Theorem C06_generated_ante_wrk_AnteHandle_check : forall now b e rs t,
  0 <= rp_fee_register (r_params rs) < two63 /\ 0 <= rp_fee_record (r_params rs) < two63 /\
  0 <= rp_fee_purchase (r_params rs) < two63 ->
  (forall o id n, In (MWrk (RPurchase o id n)) (tx_msgs t) -> 0 <= n < two63) ->
  bank_wf b /\ bank_nonneg b /\ 0 <= snd (locked_coin e (tx_payer t)) /\ NoDup (map fst (tx_fee t)) ->
  GeneratedWrkchainAnte.go_AnteHandle (AnteWorld.mk_aworld now true b e rs) (WrkchainAnteGenSpec.gotx_of t) false = reg_ante pick_wrk rs true b e t.
Proof. exact GeneratedWrkchainAnteHandleEq.gen_wrk_AnteHandle_check_eq. Qed.
Print Assumptions C06_generated_ante_wrk_AnteHandle_check.

(* a simulation skips the fee check as DeliverTx does *)
Theorem C06_generated_ante_wrk_AnteHandle_simulate : forall now check b e rs tx,
  GeneratedWrkchainAnte.go_AnteHandle (AnteWorld.mk_aworld now check b e rs) tx true =
  GeneratedWrkchainAnte.go_AnteHandle (AnteWorld.mk_aworld now false b e rs) tx false.
Proof. exact GeneratedWrkchainAnteHandleEq.gen_wrk_AnteHandle_simulate. Qed.
Print Assumptions C06_generated_ante_wrk_AnteHandle_simulate.

(* ---- C06: what the generated AnteHandle accepts at CheckTx ---- *)
Theorem C06_generated_ante_wrk_accepts : forall now b e rs t,
  (0 <= rp_fee_register (r_params rs) < two63 /\ 0 <= rp_fee_record (r_params rs) < two63 /\
   0 <= rp_fee_purchase (r_params rs) < two63) /\
  0 < rp_fee_purchase (r_params rs) /\
  (forall o id n, In (MWrk (RPurchase o id n)) (tx_msgs t) -> 0 <= n < two64) ->
  bank_wf b /\ bank_nonneg b /\ 0 <= snd (locked_coin e (tx_payer t)) /\ NoDup (map fst (tx_fee t)) ->
  own_msgs pick_wrk t <> [] ->
  GeneratedWrkchainAnte.go_AnteHandle (AnteWorld.mk_aworld now true b e rs) (WrkchainAnteGenSpec.gotx_of t) false = Ok tt ->
  fee_amount_of (tx_fee t) (rp_denom (r_params rs)) = expected_fee pick_wrk rs t /\
  (exists fee, fee_find (tx_fee t) (rp_denom (r_params rs)) = Some fee /\
     snd fee <= balance b (tx_payer t) (fst fee) +
                (if fst (locked_coin e (tx_payer t)) =? fst fee then snd (locked_coin e (tx_payer t)) else 0)) /\
  (forall id m want, In (id, (m, want)) (max_slots_table pick_wrk rs t) -> want <= m).
Proof. exact GeneratedWrkchainAnteHandleEq.gen_wrk_AnteHandle_accepts_exact. Qed.
Print Assumptions C06_generated_ante_wrk_accepts.

Theorem C06_generated_ante_wrk_accepts_single_purchase : forall now b e rs t o id n,
  (0 <= rp_fee_register (r_params rs) < two63 /\ 0 <= rp_fee_record (r_params rs) < two63 /\
   0 <= rp_fee_purchase (r_params rs) < two63) /\
  0 < rp_fee_purchase (r_params rs) /\
  (forall o id n, In (MWrk (RPurchase o id n)) (tx_msgs t) -> 0 <= n < two64) ->
  bank_wf b /\ bank_nonneg b /\ 0 <= snd (locked_coin e (tx_payer t)) /\ NoDup (map fst (tx_fee t)) ->
  own_msgs pick_wrk t = [RPurchase o id n] ->
  GeneratedWrkchainAnte.go_AnteHandle (AnteWorld.mk_aworld now true b e rs) (WrkchainAnteGenSpec.gotx_of t) false = Ok tt ->
  n <= max_purchasable rs id.
Proof. exact GeneratedWrkchainAnteHandleEq.gen_wrk_AnteHandle_accepts_single_purchase. Qed.
Print Assumptions C06_generated_ante_wrk_accepts_single_purchase.

(* ---- on a state of the application: the invariant and a well-formed transaction are enough ---- *)
Theorem C06_generated_ante_wrk_AnteHandle_inv : forall B check a t,
  gen_inv B a -> tx_wf t ->
  GeneratedWrkchainAnte.go_AnteHandle (wrk_aworld check a) (WrkchainAnteGenSpec.gotx_of t) false =
  as_go_panic (reg_ante pick_wrk (a_wrk a) check (a_bank a) (a_ent a) t).
Proof. exact gen_wrk_AnteHandle_inv. Qed.
Print Assumptions C06_generated_ante_wrk_AnteHandle_inv.

Theorem C06_generated_ante_wrk_AnteHandle_deliver_inv : forall a t,
  app_inv a -> NoDup (map fst (tx_fee t)) ->
  GeneratedWrkchainAnte.go_AnteHandle (wrk_aworld false a) (WrkchainAnteGenSpec.gotx_of t) false =
  reg_ante pick_wrk (a_wrk a) false (a_bank a) (a_ent a) t.
Proof. exact gen_wrk_AnteHandle_deliver_inv. Qed.
Print Assumptions C06_generated_ante_wrk_AnteHandle_deliver_inv.

Theorem C06_generated_ante_wrk_ante_full_is_model : forall B check a t,
  gen_inv B a -> tx_wf t -> go_wrk_ante_full check a t = reg_ante pick_wrk (a_wrk a) check (a_bank a) (a_ent a) t.
Proof. exact gen_wrk_ante_full_model. Qed.
Print Assumptions C06_generated_ante_wrk_ante_full_is_model.

Theorem C06_generated_ante_wrk_accepts_inv : forall B a t,
  gen_inv B a -> tx_wf t -> has_wrk t = true ->
  GeneratedWrkchainAnte.go_AnteHandle (wrk_aworld true a) (WrkchainAnteGenSpec.gotx_of t) false = Ok tt ->
  fee_amount_of (tx_fee t) (rp_denom (r_params (a_wrk a))) = expected_fee pick_wrk (a_wrk a) t /\
  (exists fee, fee_find (tx_fee t) (rp_denom (r_params (a_wrk a))) = Some fee /\
     snd fee <= balance (a_bank a) (tx_payer t) (fst fee) +
                (if fst (locked_coin (a_ent a) (tx_payer t)) =? fst fee then snd (locked_coin (a_ent a) (tx_payer t)) else 0)) /\
  (forall id m want, In (id, (m, want)) (max_slots_table pick_wrk (a_wrk a) t) -> want <= m).
Proof. exact gen_wrk_AnteHandle_accepts_inv. Qed.
Print Assumptions C06_generated_ante_wrk_accepts_inv.

(* props/C06.v C06_exact_fee_wrk_nodup for the CheckTx of the application with the generated decorators *)
Theorem C06_generatedapp_full_exact_fee_wrk : forall B a t a',
  gen_inv B a -> tx_wf t -> Forall gmsg_ok (tx_msgs t) ->
  go_check_tx_full a t = (a', TxOk) -> has_wrk t = true ->
  exists amt, fee_find (tx_fee t) (rp_denom (r_params (a_wrk a))) = Some (rp_denom (r_params (a_wrk a)), amt) /\
    amt = expected_fee pick_wrk (a_wrk a) t /\
    amt <= balance (a_bank a) (tx_payer t) (rp_denom (r_params (a_wrk a))) +
           (if fst (locked_coin (a_ent a) (tx_payer t)) =? rp_denom (r_params (a_wrk a))
            then snd (locked_coin (a_ent a) (tx_payer t)) else 0).
Proof. exact gen_full_exact_fee_wrk. Qed.
Print Assumptions C06_generatedapp_full_exact_fee_wrk.

(* ---- examples (fees 1000 / 1 / 5 nund; registration 1 has a limit of 100 of at most 1000): the three stages ---- *)
Example C06_generated_ante_wrk_ex :
  let rs := {| r_params := r_params fx_rs; r_next := 2; r_regs := []; r_limits := [(1, 100)]; r_recs := [] |} in
  let w c bal lk := AnteWorld.mk_aworld 0 c (fx_bank bal) (fx_ent lk) rs in
  GeneratedWrkchainAnte.go_AnteHandle (w true 3 7) (WrkchainAnteGenSpec.gotx_of (GeneratedWrkchainAnteHandleEq.hx_tx 2 [(NUND, 10)])) false = Ok tt /\
  GeneratedWrkchainAnte.go_AnteHandle (w true 3 6) (WrkchainAnteGenSpec.gotx_of (GeneratedWrkchainAnteHandleEq.hx_tx 2 [(NUND, 10)])) false = Err ERR_FEE_FUNDS /\
  GeneratedWrkchainAnte.go_AnteHandle (w true 30 0) (WrkchainAnteGenSpec.gotx_of (GeneratedWrkchainAnteHandleEq.hx_tx 2 [(NUND, 11)])) false = Err ERR_FEE_TOO_MUCH /\
  GeneratedWrkchainAnte.go_AnteHandle (w false 30 0) (WrkchainAnteGenSpec.gotx_of (GeneratedWrkchainAnteHandleEq.hx_tx 2 [(NUND, 11)])) false = Ok tt /\
  GeneratedWrkchainAnte.go_AnteHandle (w false 10000 0) (WrkchainAnteGenSpec.gotx_of (GeneratedWrkchainAnteHandleEq.hx_tx 901 [(NUND, 4505)])) false = Err ERR_FEE_MAX_STORAGE /\
  GeneratedWrkchainAnte.go_AnteHandle (w false 10000 0) (WrkchainAnteGenSpec.gotx_of (GeneratedWrkchainAnteHandleEq.hx_tx 900 [(NUND, 4500)])) false = Ok tt /\
  GeneratedWrkchainAnte.go_AnteHandle (w false 10 0) (WrkchainAnteGenSpec.gotx_of (GeneratedWrkchainAnteHandleEq.hx_tx 1 [(7, 5)])) false = Panic PANIC_NILCOIN /\
  reg_ante pick_wrk rs false (fx_bank 10) (fx_ent 0) (GeneratedWrkchainAnteHandleEq.hx_tx 1 [(7, 5)]) = Panic PANIC_NILCOIN /\
  GeneratedWrkchainAnte.go_AnteHandle (w true 0 0) (WrkchainAnteGenSpec.gotx_of (fx_tx [(7, 5)])) false = Ok tt.
Proof. exact GeneratedWrkchainAnteHandleEq.gen_wrk_AnteHandle_ex. Qed.
Print Assumptions C06_generated_ante_wrk_ex.

(* the raw outcomes differ on a purchase of 2^63 slots at CheckTx: the panic code *)
Example C06_generated_ante_wrk_panic_code_refuted :
  GeneratedWrkchainAnte.go_AnteHandle (AnteWorld.mk_aworld 0 true (fx_bank 100) (fx_ent 0) fx_rs) (WrkchainAnteGenSpec.gotx_of (GeneratedWrkchainAnteHandleEq.hx_tx two63 [(NUND, 5)])) false
    = Panic GO_PANIC_NEGCOIN /\
  reg_ante pick_wrk fx_rs true (fx_bank 100) (fx_ent 0) (GeneratedWrkchainAnteHandleEq.hx_tx two63 [(NUND, 5)]) = Panic PANIC_NEGFEE.
Proof. exact GeneratedWrkchainAnteHandleEq.gen_wrk_AnteHandle_panic_code_refuted. Qed.
Print Assumptions C06_generated_ante_wrk_panic_code_refuted.

(* a fee naming one denomination twice (no valid sdk.Coins; excluded by tx_wf): the generated funds check refuses it *)
Example C06_generated_ante_wrk_dup_denom_refuted :
  let t := GeneratedWrkchainAnteHandleEq.hx_tx 1 [(NUND, 5); (NUND, 5)] in
  GeneratedWrkchainAnte.go_AnteHandle (AnteWorld.mk_aworld 0 false (fx_bank 100) (fx_ent 0) fx_rs) (WrkchainAnteGenSpec.gotx_of t) false
    = Err AnteWorld.sdkerrors_ErrInvalidCoins /\
  reg_ante pick_wrk fx_rs false (fx_bank 100) (fx_ent 0) t = Err ERR_FEE_MAX_STORAGE.
Proof. exact GeneratedWrkchainAnteHandleEq.gen_wrk_AnteHandle_dup_denom_refuted. Qed.
Print Assumptions C06_generated_ante_wrk_dup_denom_refuted.

(* ================================================================================================ *)
(* x/beacon                                                                                          *)
(* ================================================================================================ *)

(* ---- which transactions the decorator looks at ---- *)
Theorem C06_generated_ante_bcn_is_registry_tx : forall t,
  GeneratedBeaconAnte.go_CheckIsBeaconTx (BeaconAnteGenSpec.gotx_of t) = Ok (has_bcn t).
Proof. exact GeneratedBeaconAnteHandleEq.gen_bcn_ante_CheckIsTx_eq. Qed.
Print Assumptions C06_generated_ante_bcn_is_registry_tx.

(* ---- the exact-fee check is the model's (no purchase of 2^63 slots or more) ---- *)
Theorem C06_generated_ante_bcn_fee_check_is_model : forall now check b e rs t,
  0 <= rp_fee_register (r_params rs) < two63 /\ 0 <= rp_fee_record (r_params rs) < two63 /\
  0 <= rp_fee_purchase (r_params rs) < two63 ->
  (forall o id n, In (MBcn (RPurchase o id n)) (tx_msgs t) -> 0 <= n < two63) ->
  GeneratedBeaconAnte.go_checkBeaconFees (AnteWorld.mk_aworld now check b e rs) (BeaconAnteGenSpec.gotx_of t) = check_fees pick_bcn rs t.
Proof. exact GeneratedBeaconAnteHandleEq.gen_bcn_ante_checkFees_eq. Qed.
Print Assumptions C06_generated_ante_bcn_fee_check_is_model.

(* ---- for uint64 purchase counts: the model's, the panic code apart ---- *)
Theorem C06_generated_ante_bcn_fee_check_total : forall now check b e rs t,
  0 <= rp_fee_register (r_params rs) < two63 /\ 0 <= rp_fee_record (r_params rs) < two63 /\
  0 <= rp_fee_purchase (r_params rs) < two63 ->
  0 < rp_fee_purchase (r_params rs) ->
  (forall o id n, In (MBcn (RPurchase o id n)) (tx_msgs t) -> 0 <= n < two64) ->
  GeneratedBeaconAnte.go_checkBeaconFees (AnteWorld.mk_aworld now check b e rs) (BeaconAnteGenSpec.gotx_of t) =
  match check_fees pick_bcn rs t with Panic _ => Panic GO_PANIC_NEGCOIN | o => o end.
Proof. exact GeneratedBeaconAnteHandleEq.gen_bcn_ante_checkFees_total. Qed.
Print Assumptions C06_generated_ante_bcn_fee_check_total.

(* ---- accepted only with exactly the sum of the fees of the module's top-level messages ---- *)
Theorem C06_generated_ante_bcn_fee_exact : forall now check b e rs t,
  0 <= rp_fee_register (r_params rs) < two63 /\ 0 <= rp_fee_record (r_params rs) < two63 /\
  0 <= rp_fee_purchase (r_params rs) < two63 ->
  0 < rp_fee_purchase (r_params rs) ->
  (forall o id n, In (MBcn (RPurchase o id n)) (tx_msgs t) -> 0 <= n < two64) ->
  GeneratedBeaconAnte.go_checkBeaconFees (AnteWorld.mk_aworld now check b e rs) (BeaconAnteGenSpec.gotx_of t) = Ok tt ->
  fee_amount_of (tx_fee t) (rp_denom (r_params rs)) = expected_fee pick_bcn rs t /\
  existsb (fun c => fst c =? rp_denom (r_params rs)) (tx_fee t) = true /\
  existsb (fun r => match r with RPurchase _ _ n => two63 <=? n | _ => false end) (own_msgs pick_bcn t) = false.
Proof. exact GeneratedBeaconAnteHandleEq.gen_bcn_ante_checkFees_exact. Qed.
Print Assumptions C06_generated_ante_bcn_fee_exact.

(* ---- the funds check is the model's (props/C05generatedante.v says what it counts) ---- *)
Theorem C06_generated_ante_bcn_funds_check_is_model : forall now check b e rs t,
  bank_wf b -> bank_nonneg b -> 0 <= snd (locked_coin e (tx_payer t)) -> NoDup (map fst (tx_fee t)) ->
  GeneratedBeaconAnte.go_checkFeePayerHasFunds (AnteWorld.mk_aworld now check b e rs) (BeaconAnteGenSpec.gotx_of t) = payer_has_funds rs b e t.
Proof. exact GeneratedBeaconAnteHandleEq.gen_bcn_ante_funds_eq. Qed.
Print Assumptions C06_generated_ante_bcn_funds_check_is_model.

(* ---- the max-slots check (a Go map, uint64 sums) is the model's: no hypothesis ---- *)
Theorem C06_generated_ante_bcn_max_slots_is_model : forall now check b e rs t,
  GeneratedBeaconAnte.go_checkBeaconMaxSlots (AnteWorld.mk_aworld now check b e rs) (BeaconAnteGenSpec.gotx_of t) = check_max_slots pick_bcn rs t.
Proof. exact GeneratedBeaconAnteHandleEq.gen_bcn_ante_maxSlots_eq. Qed.
Print Assumptions C06_generated_ante_bcn_max_slots_is_model.

(* ---- AnteHandle is the model's decorator, the code of the "negative coin amount" panic apart ---- *)
Theorem C06_generated_ante_bcn_AnteHandle_is_model : forall now check b e rs t,
  (check = true ->
     (0 <= rp_fee_register (r_params rs) < two63 /\ 0 <= rp_fee_record (r_params rs) < two63 /\
      0 <= rp_fee_purchase (r_params rs) < two63) /\
     0 < rp_fee_purchase (r_params rs) /\
     (forall o id n, In (MBcn (RPurchase o id n)) (tx_msgs t) -> 0 <= n < two64)) ->
  bank_wf b /\ bank_nonneg b /\ 0 <= snd (locked_coin e (tx_payer t)) /\ NoDup (map fst (tx_fee t)) ->
  GeneratedBeaconAnte.go_AnteHandle (AnteWorld.mk_aworld now check b e rs) (BeaconAnteGenSpec.gotx_of t) false =
  as_go_panic (reg_ante pick_bcn rs check b e t).
Proof. exact GeneratedBeaconAnteHandleEq.gen_bcn_AnteHandle_eq. Qed.
Print Assumptions C06_generated_ante_bcn_AnteHandle_is_model.

Theorem C06_generated_ante_bcn_AnteHandle_model : forall now check b e rs t,
  (check = true ->
     (0 <= rp_fee_register (r_params rs) < two63 /\ 0 <= rp_fee_record (r_params rs) < two63 /\
      0 <= rp_fee_purchase (r_params rs) < two63) /\
     0 < rp_fee_purchase (r_params rs) /\
     (forall o id n, In (MBcn (RPurchase o id n)) (tx_msgs t) -> 0 <= n < two64)) ->
  bank_wf b /\ bank_nonneg b /\ 0 <= snd (locked_coin e (tx_payer t)) /\ NoDup (map fst (tx_fee t)) ->
  as_model_panic (GeneratedBeaconAnte.go_AnteHandle (AnteWorld.mk_aworld now check b e rs) (BeaconAnteGenSpec.gotx_of t) false) =
  reg_ante pick_bcn rs check b e t.
Proof. exact GeneratedBeaconAnteHandleEq.gen_bcn_AnteHandle_model. Qed.
Print Assumptions C06_generated_ante_bcn_AnteHandle_model.

(* DeliverTx (the fee check does not run): equal as they are *)
Theorem C06_generated_ante_bcn_AnteHandle_deliver : forall now b e rs t,
  bank_wf b /\ bank_nonneg b /\ 0 <= snd (locked_coin e (tx_payer t)) /\ NoDup (map fst (tx_fee t)) ->
  GeneratedBeaconAnte.go_AnteHandle (AnteWorld.mk_aworld now false b e rs) (BeaconAnteGenSpec.gotx_of t) false = reg_ante pick_bcn rs false b e t.
Proof. exact GeneratedBeaconAnteHandleEq.gen_bcn_AnteHandle_deliver_eq. Qed.
Print Assumptions C06_generated_ante_bcn_AnteHandle_deliver.

(* CheckTx without a purchase of 2^63 slots or more: equal as they are *)
Theorem C06_generated_ante_bcn_AnteHandle_check : forall now b e rs t,
  0 <= rp_fee_register (r_params rs) < two63 /\ 0 <= rp_fee_record (r_params rs) < two63 /\
  0 <= rp_fee_purchase (r_params rs) < two63 ->
  (forall o id n, In (MBcn (RPurchase o id n)) (tx_msgs t) -> 0 <= n < two63) ->
  bank_wf b /\ bank_nonneg b /\ 0 <= snd (locked_coin e (tx_payer t)) /\ NoDup (map fst (tx_fee t)) ->
  GeneratedBeaconAnte.go_AnteHandle (AnteWorld.mk_aworld now true b e rs) (BeaconAnteGenSpec.gotx_of t) false = reg_ante pick_bcn rs true b e t.
Proof. exact GeneratedBeaconAnteHandleEq.gen_bcn_AnteHandle_check_eq. Qed.
Print Assumptions C06_generated_ante_bcn_AnteHandle_check.

(* a simulation skips the fee check as DeliverTx does *)
Theorem C06_generated_ante_bcn_AnteHandle_simulate : forall now check b e rs tx,
  GeneratedBeaconAnte.go_AnteHandle (AnteWorld.mk_aworld now check b e rs) tx true =
  GeneratedBeaconAnte.go_AnteHandle (AnteWorld.mk_aworld now false b e rs) tx false.
Proof. exact GeneratedBeaconAnteHandleEq.gen_bcn_AnteHandle_simulate. Qed.
Print Assumptions C06_generated_ante_bcn_AnteHandle_simulate.

(* ---- C06: what the generated AnteHandle accepts at CheckTx ---- *)
Theorem C06_generated_ante_bcn_accepts : forall now b e rs t,
  (0 <= rp_fee_register (r_params rs) < two63 /\ 0 <= rp_fee_record (r_params rs) < two63 /\
   0 <= rp_fee_purchase (r_params rs) < two63) /\
  0 < rp_fee_purchase (r_params rs) /\
  (forall o id n, In (MBcn (RPurchase o id n)) (tx_msgs t) -> 0 <= n < two64) ->
  bank_wf b /\ bank_nonneg b /\ 0 <= snd (locked_coin e (tx_payer t)) /\ NoDup (map fst (tx_fee t)) ->
  own_msgs pick_bcn t <> [] ->
  GeneratedBeaconAnte.go_AnteHandle (AnteWorld.mk_aworld now true b e rs) (BeaconAnteGenSpec.gotx_of t) false = Ok tt ->
  fee_amount_of (tx_fee t) (rp_denom (r_params rs)) = expected_fee pick_bcn rs t /\
  (exists fee, fee_find (tx_fee t) (rp_denom (r_params rs)) = Some fee /\
     snd fee <= balance b (tx_payer t) (fst fee) +
                (if fst (locked_coin e (tx_payer t)) =? fst fee then snd (locked_coin e (tx_payer t)) else 0)) /\
  (forall id m want, In (id, (m, want)) (max_slots_table pick_bcn rs t) -> want <= m).
Proof. exact GeneratedBeaconAnteHandleEq.gen_bcn_AnteHandle_accepts_exact. Qed.
Print Assumptions C06_generated_ante_bcn_accepts.

Theorem C06_generated_ante_bcn_accepts_single_purchase : forall now b e rs t o id n,
  (0 <= rp_fee_register (r_params rs) < two63 /\ 0 <= rp_fee_record (r_params rs) < two63 /\
   0 <= rp_fee_purchase (r_params rs) < two63) /\
  0 < rp_fee_purchase (r_params rs) /\
  (forall o id n, In (MBcn (RPurchase o id n)) (tx_msgs t) -> 0 <= n < two64) ->
  bank_wf b /\ bank_nonneg b /\ 0 <= snd (locked_coin e (tx_payer t)) /\ NoDup (map fst (tx_fee t)) ->
  own_msgs pick_bcn t = [RPurchase o id n] ->
  GeneratedBeaconAnte.go_AnteHandle (AnteWorld.mk_aworld now true b e rs) (BeaconAnteGenSpec.gotx_of t) false = Ok tt ->
  n <= max_purchasable rs id.
Proof. exact GeneratedBeaconAnteHandleEq.gen_bcn_AnteHandle_accepts_single_purchase. Qed.
Print Assumptions C06_generated_ante_bcn_accepts_single_purchase.

(* ---- on a state of the application: the invariant and a well-formed transaction are enough ---- *)
Theorem C06_generated_ante_bcn_AnteHandle_inv : forall B check a t,
  gen_inv B a -> tx_wf t ->
  GeneratedBeaconAnte.go_AnteHandle (bcn_aworld check a) (BeaconAnteGenSpec.gotx_of t) false =
  as_go_panic (reg_ante pick_bcn (a_bcn a) check (a_bank a) (a_ent a) t).
Proof. exact gen_bcn_AnteHandle_inv. Qed.
Print Assumptions C06_generated_ante_bcn_AnteHandle_inv.

Theorem C06_generated_ante_bcn_AnteHandle_deliver_inv : forall a t,
  app_inv a -> NoDup (map fst (tx_fee t)) ->
  GeneratedBeaconAnte.go_AnteHandle (bcn_aworld false a) (BeaconAnteGenSpec.gotx_of t) false =
  reg_ante pick_bcn (a_bcn a) false (a_bank a) (a_ent a) t.
Proof. exact gen_bcn_AnteHandle_deliver_inv. Qed.
Print Assumptions C06_generated_ante_bcn_AnteHandle_deliver_inv.

Theorem C06_generated_ante_bcn_ante_full_is_model : forall B check a t,
  gen_inv B a -> tx_wf t -> go_bcn_ante_full check a t = reg_ante pick_bcn (a_bcn a) check (a_bank a) (a_ent a) t.
Proof. exact gen_bcn_ante_full_model. Qed.
Print Assumptions C06_generated_ante_bcn_ante_full_is_model.

Theorem C06_generated_ante_bcn_accepts_inv : forall B a t,
  gen_inv B a -> tx_wf t -> has_bcn t = true ->
  GeneratedBeaconAnte.go_AnteHandle (bcn_aworld true a) (BeaconAnteGenSpec.gotx_of t) false = Ok tt ->
  fee_amount_of (tx_fee t) (rp_denom (r_params (a_bcn a))) = expected_fee pick_bcn (a_bcn a) t /\
  (exists fee, fee_find (tx_fee t) (rp_denom (r_params (a_bcn a))) = Some fee /\
     snd fee <= balance (a_bank a) (tx_payer t) (fst fee) +
                (if fst (locked_coin (a_ent a) (tx_payer t)) =? fst fee then snd (locked_coin (a_ent a) (tx_payer t)) else 0)) /\
  (forall id m want, In (id, (m, want)) (max_slots_table pick_bcn (a_bcn a) t) -> want <= m).
Proof. exact gen_bcn_AnteHandle_accepts_inv. Qed.
Print Assumptions C06_generated_ante_bcn_accepts_inv.

(* props/C06.v C06_exact_fee_bcn_nodup for the CheckTx of the application with the generated decorators *)
Theorem C06_generatedapp_full_exact_fee_bcn : forall B a t a',
  gen_inv B a -> tx_wf t -> Forall gmsg_ok (tx_msgs t) ->
  go_check_tx_full a t = (a', TxOk) -> has_bcn t = true ->
  exists amt, fee_find (tx_fee t) (rp_denom (r_params (a_bcn a))) = Some (rp_denom (r_params (a_bcn a)), amt) /\
    amt = expected_fee pick_bcn (a_bcn a) t /\
    amt <= balance (a_bank a) (tx_payer t) (rp_denom (r_params (a_bcn a))) +
           (if fst (locked_coin (a_ent a) (tx_payer t)) =? rp_denom (r_params (a_bcn a))
            then snd (locked_coin (a_ent a) (tx_payer t)) else 0).
Proof. exact gen_full_exact_fee_bcn. Qed.
Print Assumptions C06_generatedapp_full_exact_fee_bcn.

(* ---- examples (fees 1000 / 1 / 5 nund; registration 1 has a limit of 100 of at most 1000): the three stages ---- *)
Example C06_generated_ante_bcn_ex :
  let rs := {| r_params := r_params fx_rs; r_next := 2; r_regs := []; r_limits := [(1, 100)]; r_recs := [] |} in
  let w c bal lk := AnteWorld.mk_aworld 0 c (fx_bank bal) (fx_ent lk) rs in
  GeneratedBeaconAnte.go_AnteHandle (w true 3 7) (BeaconAnteGenSpec.gotx_of (GeneratedBeaconAnteHandleEq.hx_tx 2 [(NUND, 10)])) false = Ok tt /\
  GeneratedBeaconAnte.go_AnteHandle (w true 3 6) (BeaconAnteGenSpec.gotx_of (GeneratedBeaconAnteHandleEq.hx_tx 2 [(NUND, 10)])) false = Err ERR_FEE_FUNDS /\
  GeneratedBeaconAnte.go_AnteHandle (w true 30 0) (BeaconAnteGenSpec.gotx_of (GeneratedBeaconAnteHandleEq.hx_tx 2 [(NUND, 11)])) false = Err ERR_FEE_TOO_MUCH /\
  GeneratedBeaconAnte.go_AnteHandle (w false 30 0) (BeaconAnteGenSpec.gotx_of (GeneratedBeaconAnteHandleEq.hx_tx 2 [(NUND, 11)])) false = Ok tt /\
  GeneratedBeaconAnte.go_AnteHandle (w false 10000 0) (BeaconAnteGenSpec.gotx_of (GeneratedBeaconAnteHandleEq.hx_tx 901 [(NUND, 4505)])) false = Err ERR_FEE_MAX_STORAGE /\
  GeneratedBeaconAnte.go_AnteHandle (w false 10000 0) (BeaconAnteGenSpec.gotx_of (GeneratedBeaconAnteHandleEq.hx_tx 900 [(NUND, 4500)])) false = Ok tt /\
  GeneratedBeaconAnte.go_AnteHandle (w false 10 0) (BeaconAnteGenSpec.gotx_of (GeneratedBeaconAnteHandleEq.hx_tx 1 [(7, 5)])) false = Panic PANIC_NILCOIN /\
  reg_ante pick_bcn rs false (fx_bank 10) (fx_ent 0) (GeneratedBeaconAnteHandleEq.hx_tx 1 [(7, 5)]) = Panic PANIC_NILCOIN /\
  GeneratedBeaconAnte.go_AnteHandle (w true 0 0) (BeaconAnteGenSpec.gotx_of (fx_tx [(7, 5)])) false = Ok tt.
Proof. exact GeneratedBeaconAnteHandleEq.gen_bcn_AnteHandle_ex. Qed.
Print Assumptions C06_generated_ante_bcn_ex.

(* the raw outcomes differ on a purchase of 2^63 slots at CheckTx: the panic code *)
Example C06_generated_ante_bcn_panic_code_refuted :
  GeneratedBeaconAnte.go_AnteHandle (AnteWorld.mk_aworld 0 true (fx_bank 100) (fx_ent 0) fx_rs) (BeaconAnteGenSpec.gotx_of (GeneratedBeaconAnteHandleEq.hx_tx two63 [(NUND, 5)])) false
    = Panic GO_PANIC_NEGCOIN /\
  reg_ante pick_bcn fx_rs true (fx_bank 100) (fx_ent 0) (GeneratedBeaconAnteHandleEq.hx_tx two63 [(NUND, 5)]) = Panic PANIC_NEGFEE.
Proof. exact GeneratedBeaconAnteHandleEq.gen_bcn_AnteHandle_panic_code_refuted. Qed.
Print Assumptions C06_generated_ante_bcn_panic_code_refuted.

(* a fee naming one denomination twice (no valid sdk.Coins; excluded by tx_wf): the generated funds check refuses it *)
Example C06_generated_ante_bcn_dup_denom_refuted :
  let t := GeneratedBeaconAnteHandleEq.hx_tx 1 [(NUND, 5); (NUND, 5)] in
  GeneratedBeaconAnte.go_AnteHandle (AnteWorld.mk_aworld 0 false (fx_bank 100) (fx_ent 0) fx_rs) (BeaconAnteGenSpec.gotx_of t) false
    = Err AnteWorld.sdkerrors_ErrInvalidCoins /\
  reg_ante pick_bcn fx_rs false (fx_bank 100) (fx_ent 0) t = Err ERR_FEE_MAX_STORAGE.
Proof. exact GeneratedBeaconAnteHandleEq.gen_bcn_AnteHandle_dup_denom_refuted. Qed.
Print Assumptions C06_generated_ante_bcn_dup_denom_refuted.

(* ================================================================================================ *)
(* both modules, in the application                                                                  *)
(* ================================================================================================ *)

(* a purchase of 2^63 slots or more is never accepted by the CheckTx running the generated decorators *)
Theorem C06_generatedapp_full_overflow_slots_rejected : forall B a t o id n,
  gen_inv B a -> tx_wf t -> Forall gmsg_ok (tx_msgs t) ->
  (In (MWrk (RPurchase o id n)) (tx_msgs t) \/ In (MBcn (RPurchase o id n)) (tx_msgs t)) -> two63 <= n ->
  exists r, go_check_tx_full a t = (a, r) /\ r <> TxOk.
Proof. exact gen_full_overflow_slots_rejected. Qed.
Print Assumptions C06_generatedapp_full_overflow_slots_rejected.

(* the ante chain with the three generated decorators is the model's *)
Theorem C06_generatedapp_full_ante_is_model : forall B check a t,
  gen_inv B a -> tx_wf t -> go_ante_full check a t = ante check a t.
Proof. exact gen_ante_full_model. Qed.
Print Assumptions C06_generatedapp_full_ante_is_model.

(* without "one coin per denomination" (tx_wf) it is not: the generated funds check refuses such a fee *)
Example C06_generatedapp_full_dup_denom_refuted :
  gen_inv 1 ex_g /\ Forall msg_wf (tx_msgs dup_tx) /\ coins_valid (tx_fee dup_tx) = true /\ ~ tx_wf dup_tx /\
  go_ante_full true ex_g dup_tx = Err ERR_APP /\ (exists a', ante true ex_g dup_tx = Ok a').
Proof. exact gen_ante_full_dup_denom_refuted. Qed.
Print Assumptions C06_generatedapp_full_dup_denom_refuted.
