(* C15 on BYTES, x/wrkchain: genesis export and import are lossless ON THE BYTE-LEVEL STORE.
   InitGenesis / ExportGenesis of /repo/x/wrkchain/genesis.go as translated on every run TWICE from the same source -
     (1) GeneratedWrkchainKeeper.v         K.go_InitGenesis / K.go_ExportGenesis over the hand-written primitives on the
                                            abstract registry state (world [rworld]); C15_generated_wrk_* prove them to be the
                                            model's export_reg / import_reg and prove the round trips,
     (2) GeneratedWrkchainKeeperOnStore.v  S.go_InitGenesis / S.go_ExportGenesis over the BYTE-LEVEL ordered KV store of
                                            model/KVStore.v through the GENERATED store accessors (GeneratedWrkchainStore.v,
                                            incl. the listing go_st_GetAllWrkChains and the export listing
                                            go_st_GetAllWrkChainBlockHashesForGenesisExport - a reverse iteration that counts,
                                            stops after 20000 entries and prepends) and the adapters of
                                            model/WrkchainStoreWorld.v (world [wsworld]).
   Here: (2) against (1), and the round trip on bytes.

   Rw w ws    = same clocks and Rreg (wsw_store ws) (rw_reg w)   (C09_onstore_wrkchain_relation, C18_store_wrkchain_refines_..).
   Hypotheses, and why:
     regs_ascending st   the abstract registrations are listed in ascending id order (C15_onstore_wrk_ascending_spelled).
                         The byte store lists them in key order = ascending id; the primitive reg_GetAllEntities lists the
                         association list as it stands.  It is a fact about every reachable state
                         (C15_onstore_wrk_ascending_init / _run / _reimported) and it is needed
                         (C15_onstore_wrk_export_order_refuted).
     doc_ok d            the document's counter, ids and heights are uint64 (C15_onstore_wrk_doc_ok_spelled): the byte store
                         keys an id by its low 64 bits (C18_store_wrkchain_refines_*_range_refuted).
     wrk_params_nonneg   the four `== 0`-tested parameter fields are uint64 in Go: Params.Validate then has the same
                         verdict on both sides.  (The error CODE of an invalid set plays no role: InitGenesis drops it.)
     reg_params_valid    for the EMPTY store only: with parameters that do not validate InitGenesis writes no Params cell,
                         and a store without it represents no abstract state (C15_onstore_wrk_import_empty_invalid_refuted).
     reg_inv true st g   the round trip: st is a reachable state of the model (as C15_generated_wrk_roundtrip).
     under_cap st        no registration holds more than 20000 records: only then is the re-imported byte store the
                         exported one (C15_onstore_wrk_roundtrip_over_cap_differs).
   Not needed: a bound on counters; the five-hashes / own-key conditions of C15_generated_wrk_export_is_model (they are
   part of Rreg).
   Proofs: proofs/GeneratedWrkchainGenesisOnStoreEq.v. *)
From MC Require Import lib.Prelude lib.AMap lib.GoSdk GeneratedWrkchainTypes model.Bank model.Registry model.RegistrySpec
  model.Genesis model.Keys model.KeyPrims model.KVStore model.StoreCodecPrims model.WrkchainKeeperPrims model.WrkchainStoreWorld
  model.WrkchainGenSpec model.WrkchainGenesisGenSpec GeneratedKeys GeneratedWrkchainStore.
From MC Require GeneratedWrkchainKeeper GeneratedWrkchainKeeperOnStore.
From MC Require Import proofs.RegistryProofs proofs.GenesisLib proofs.GenesisProofs proofs.GeneratedWrkchainEq
  proofs.GeneratedWrkchainGenesisEq proofs.GeneratedWrkchainParamsEq proofs.KVStoreFacts proofs.GeneratedWrkchainStoreEq
  proofs.GeneratedWrkchainStoreRefines proofs.GeneratedWrkchainOnStoreEq proofs.GeneratedWrkchainGenesisOnStoreEq.
From Coq Require Import NArith ZArith List Bool Sorted Permutation.
Import ListNotations.
Local Open Scope string_scope.
Local Open Scope list_scope.
Local Open Scope Z_scope.

Module K := MC.GeneratedWrkchainKeeper.
Module S := MC.GeneratedWrkchainKeeperOnStore.

(* ------------------------------------------------------------------ *)
(* the side conditions, in full                                         *)
(* ------------------------------------------------------------------ *)

Theorem C15_onstore_wrk_doc_ok_spelled : forall d : go_GenesisState,
  doc_ok d <->
  (0 <= GenesisState_StartingWrkchainId d < 2 ^ 64 /\
   Forall (fun e => 0 <= WrkChain_WrkchainId (WrkChainExport_Wrkchain e) < 2 ^ 64 /\
                    Forall (fun b => 0 <= WrkChainBlockGenesisExport_He b < 2 ^ 64) (WrkChainExport_Blocks e))
          (GenesisState_RegisteredWrkchains d)).
Proof. exact doc_ok_spelled. Qed.
Print Assumptions C15_onstore_wrk_doc_ok_spelled.

Theorem C15_onstore_wrk_ascending_spelled : forall st : reg_state,
  regs_ascending st <-> StronglySorted Z.lt (map fst (r_regs st)).
Proof. exact regs_ascending_spelled. Qed.
Print Assumptions C15_onstore_wrk_ascending_spelled.

Theorem C15_onstore_wrk_under_cap_spelled : forall st : reg_state,
  under_cap st <-> forall id, Z.of_nat (List.length (records_of id (r_recs st))) <= 20000.
Proof. exact under_cap_spelled. Qed.
Print Assumptions C15_onstore_wrk_under_cap_spelled.

Theorem C15_onstore_wrk_sim0_spelled : forall (a : outcome (rworld * unit)) (c : outcome (wsworld * unit)),
  sim0 a c <->
  match a, c with
  | Ok (w, x), Ok (ws, y) => Rw w ws /\ x = y
  | Err e, Err e' => e = e'
  | Panic p, Panic p' => p = p'
  | _, _ => False
  end.
Proof. exact sim0_spelled'. Qed.
Print Assumptions C15_onstore_wrk_sim0_spelled.

(* ------------------------------------------------------------------ *)
(* 1. the two listing adapters of the export                            *)
(* ------------------------------------------------------------------ *)

(* GetAllWrkChainBlockHashesForGenesisExport on a byte store representing [w]: Ok of the newest 20000 blocks of the
   ascending listing of WRKChain [id], ascending, each written out as an exported block *)
Theorem C15_onstore_wrk_export_accessor_listing : forall (s : okv wrkchain_val) (w : rworld) (id : Z),
  Rreg s (rw_reg w) -> u64 id ->
  go_st_GetAllWrkChainBlockHashesForGenesisExport s id =
    Ok (map (fun b => mk_go_WrkChainBlockGenesisExport (WrkChainBlock_Height b) (WrkChainBlock_Blockhash b)
                        (WrkChainBlock_Parenthash b) (WrkChainBlock_Hash1 b) (WrkChainBlock_Hash2 b) (WrkChainBlock_Hash3 b)
                        (WrkChainBlock_SubTime b))
            (newest EXPORT_CAP (map (fun kr => rec_to_go (snd kr)) (sort_by_key (records_of id (r_recs (rw_reg w))))))).
Proof. exact ForGenesisExport_listing. Qed.
Print Assumptions C15_onstore_wrk_export_accessor_listing.

Theorem C15_onstore_wrk_export_accessor_refines : forall (s : okv wrkchain_val) (w : rworld) (id : Z),
  Rreg s (rw_reg w) -> u64 id ->
  go_st_GetAllWrkChainBlockHashesForGenesisExport s id = Ok (reg_GetRecordsForExport w id).
Proof. exact ForGenesisExport_refines. Qed.
Print Assumptions C15_onstore_wrk_export_accessor_refines.

Theorem C15_onstore_wrk_adapter_GetRecordsForExport : forall (w : rworld) (ws : wsworld) (id : Z),
  Rw w ws -> u64 id -> os_reg_GetRecordsForExport ws id = Ok (reg_GetRecordsForExport w id).
Proof. exact prim_GetRecordsForExport. Qed.
Print Assumptions C15_onstore_wrk_adapter_GetRecordsForExport.

Theorem C15_onstore_wrk_adapter_GetAllEntities : forall (w : rworld) (ws : wsworld),
  Rw w ws -> regs_ascending (rw_reg w) -> os_reg_GetAllEntities ws = Ok (reg_GetAllEntities w).
Proof. exact prim_GetAllEntities. Qed.
Print Assumptions C15_onstore_wrk_adapter_GetAllEntities.

(* without the order: the same registrations, in ascending id order *)
Theorem C15_onstore_wrk_adapter_GetAllEntities_perm : forall (w : rworld) (ws : wsworld),
  Rw w ws ->
  exists l, os_reg_GetAllEntities ws = Ok l /\ Permutation l (reg_GetAllEntities w) /\
            StronglySorted (fun a b => WrkChain_WrkchainId a < WrkChain_WrkchainId b) l.
Proof. exact prim_GetAllEntities_perm. Qed.
Print Assumptions C15_onstore_wrk_adapter_GetAllEntities_perm.

(* ------------------------------------------------------------------ *)
(* 2. ExportGenesis: the same document                                  *)
(* ------------------------------------------------------------------ *)

Theorem C15_onstore_wrk_export_same_document : forall (w : rworld) (ws : wsworld),
  Rw w ws -> regs_ascending (rw_reg w) -> S.go_ExportGenesis ws = K.go_ExportGenesis w.
Proof. exact os_ExportGenesis_eq. Qed.
Print Assumptions C15_onstore_wrk_export_same_document.

Theorem C15_onstore_wrk_export_document : forall (w : rworld) (ws : wsworld),
  Rw w ws -> regs_ascending (rw_reg w) ->
  S.go_ExportGenesis ws =
    Ok (mk_go_GenesisState (params_to_go (r_params (rw_reg w))) (r_next (rw_reg w))
          (map (go_export_entry w) (reg_GetAllEntities w))).
Proof. exact os_ExportGenesis_run. Qed.
Print Assumptions C15_onstore_wrk_export_document.

(* ... which is the model's export of the abstract state *)
Theorem C15_onstore_wrk_export_is_model : forall (w : rworld) (ws : wsworld),
  Rw w ws -> regs_ascending (rw_reg w) ->
  exists d, S.go_ExportGenesis ws = Ok d /\ gen_of_go d = export_reg (rw_reg w).
Proof. exact os_ExportGenesis_model. Qed.
Print Assumptions C15_onstore_wrk_export_is_model.

(* the order hypothesis cannot be dropped: related worlds whose documents differ (the same entries in another order) *)
Theorem C15_onstore_wrk_export_order_refuted :
  exists (w : rworld) (ws : wsworld), Rw w ws /\ S.go_ExportGenesis ws <> K.go_ExportGenesis w.
Proof. exact os_ExportGenesis_sorted_refuted. Qed.
Print Assumptions C15_onstore_wrk_export_order_refuted.

(* ------------------------------------------------------------------ *)
(* 3. InitGenesis                                                       *)
(* ------------------------------------------------------------------ *)

(* on EVERY byte store and EVERY document: Ok, and the store it builds, in closed form *)
Theorem C15_onstore_wrk_import_run : forall (ws : wsworld) (d : go_GenesisState),
  S.go_InitGenesis ws d = Ok (with_wstore ws (s_import_onto (validates (GenesisState_Params d)) d (wsw_store ws)), tt).
Proof. exact os_InitGenesis_run. Qed.
Print Assumptions C15_onstore_wrk_import_run.

Theorem C15_onstore_wrk_import_run_spelled :
  (forall valid d s,
     s_import_onto valid d s =
       fold_left (fun s e => s_imp_entry e s) (GenesisState_RegisteredWrkchains d)
         (okv_set (if valid then okv_set s kparams (WV_Params (GenesisState_Params d)) else s) khighest
            (WV_bytes (be64 (Z.to_N (GenesisState_StartingWrkchainId d)))))) /\
  (forall e s,
     s_imp_entry e s =
       fold_left (fun s b => s_imp_rec (WrkChain_WrkchainId (WrkChainExport_Wrkchain e)) b s) (WrkChainExport_Blocks e)
         (okv_set (okv_set s (kReg (WrkChain_WrkchainId (WrkChainExport_Wrkchain e))) (WV_WrkChain (WrkChainExport_Wrkchain e)))
            (kLim (WrkChain_WrkchainId (WrkChainExport_Wrkchain e)))
            (WV_WrkChainStorageLimit (mk_go_WrkChainStorageLimit (WrkChain_WrkchainId (WrkChainExport_Wrkchain e))
                                        (WrkChainExport_InStateLimit e))))) /\
  (forall id b s,
     s_imp_rec id b s =
       okv_set s (kRec id (WrkChainBlockGenesisExport_He b))
         (WV_WrkChainBlock (mk_go_WrkChainBlock (WrkChainBlockGenesisExport_He b) (WrkChainBlockGenesisExport_Bh b)
                              (WrkChainBlockGenesisExport_Ph b) (WrkChainBlockGenesisExport_H1 b) (WrkChainBlockGenesisExport_H2 b)
                              (WrkChainBlockGenesisExport_H3 b) (WrkChainBlockGenesisExport_St b)))) /\
  (forall p, validates p = match K.go_Params_Validate p with Ok _ => true | _ => false end).
Proof. exact s_import_spelled. Qed.
Print Assumptions C15_onstore_wrk_import_run_spelled.

(* both renderings answer Ok on every world and every document (never Err, never Panic), clocks untouched *)
Theorem C15_onstore_wrk_import_total : forall (ws : wsworld) (w : rworld) (d : go_GenesisState),
  (exists s', S.go_InitGenesis ws d = Ok (mk_wsworld (wsw_now ws) (wsw_wall ws) s', tt)) /\
  (exists st', K.go_InitGenesis w d = Ok (mk_rworld (rw_now w) (rw_wall w) st', tt)).
Proof. exact os_InitGenesis_total. Qed.
Print Assumptions C15_onstore_wrk_import_total.

(* simulation from related worlds *)
Theorem C15_onstore_wrk_import_simulates : forall (w : rworld) (ws : wsworld) (d : go_GenesisState),
  Rw w ws -> doc_ok d -> wrk_params_nonneg (GenesisState_Params d) ->
  sim0 (K.go_InitGenesis w d) (S.go_InitGenesis ws d).
Proof. exact os_InitGenesis_sim0. Qed.
Print Assumptions C15_onstore_wrk_import_simulates.

(* ... with the invariant the message-server simulation (C09_onstore_wrkchain_..) starts from *)
Theorem C15_onstore_wrk_import_simulates_inv : forall (w : rworld) (ws : wsworld) (d : go_GenesisState),
  Rwi w ws -> doc_ok d -> wrk_params_nonneg (GenesisState_Params d) ->
  Forall (fun e => u64 (WrkChain_LowestHeight (WrkChainExport_Wrkchain e)) /\
                   Forall (fun b => 1 <= WrkChainBlockGenesisExport_He b) (WrkChainExport_Blocks e))
         (GenesisState_RegisteredWrkchains d) ->
  sim (K.go_InitGenesis w d) (S.go_InitGenesis ws d).
Proof. exact os_InitGenesis_sim. Qed.
Print Assumptions C15_onstore_wrk_import_simulates_inv.

(* the EMPTY byte store against a fresh abstract state: both Ok, the byte store represents the abstract result, which is
   the model's import of the document *)
Theorem C15_onstore_wrk_import_empty : forall (now wall : Z) (p0 : reg_params) (d : go_GenesisState),
  doc_ok d -> wrk_params_nonneg (GenesisState_Params d) ->
  reg_params_valid (params_of_go (GenesisState_Params d)) = true ->
  exists s' st',
    S.go_InitGenesis (mk_wsworld now wall []) d = Ok (mk_wsworld now wall s', tt) /\
    K.go_InitGenesis (fresh_world now wall p0) d = Ok (mk_rworld now wall st', tt) /\
    import_reg (gen_of_go d) = Some st' /\
    Rreg s' st'.
Proof. exact os_InitGenesis_empty. Qed.
Print Assumptions C15_onstore_wrk_import_empty.

Theorem C15_onstore_wrk_import_empty_invalid_refuted :
  let d := mk_go_GenesisState (params_to_go exg_bad_params) 4 [] in
  doc_ok d /\ wrk_params_nonneg (GenesisState_Params d) /\
  reg_params_valid (params_of_go (GenesisState_Params d)) = false /\
  exists s', S.go_InitGenesis (mk_wsworld 0 0 []) d = Ok (mk_wsworld 0 0 s', tt) /\
             okv_get s' kparams = None /\ (forall st, ~ Rreg s' st) /\
             go_st_GetParams s' = Ok zero_go_Params.
Proof. exact os_InitGenesis_empty_invalid_refuted. Qed.
Print Assumptions C15_onstore_wrk_import_empty_invalid_refuted.

(* ------------------------------------------------------------------ *)
(* 4. the byte-level round trip                                         *)
(* ------------------------------------------------------------------ *)

(* the abstract state determines the byte store *)
Theorem C15_onstore_wrk_store_unique : forall (s1 s2 : okv wrkchain_val) (st : reg_state),
  Rreg s1 st -> Rreg s2 st -> s1 = s2.
Proof. exact Rreg_store_unique. Qed.
Print Assumptions C15_onstore_wrk_store_unique.

Theorem C15_onstore_wrk_roundtrip : forall (w : rworld) (ws : wsworld) (g0 : ghost) (now wall : Z),
  Rw w ws -> reg_inv true (rw_reg w) g0 -> regs_ascending (rw_reg w) ->
  exists d s',
    S.go_ExportGenesis ws = Ok d /\
    gen_of_go d = export_reg (rw_reg w) /\
    S.go_InitGenesis (mk_wsworld now wall []) d = Ok (mk_wsworld now wall s', tt) /\
    Rreg s' (reg_reimported (rw_reg w)) /\
    (under_cap (rw_reg w) -> Rreg s' (rw_reg w) /\ s' = wsw_store ws).
Proof. exact os_export_import_roundtrip. Qed.
Print Assumptions C15_onstore_wrk_roundtrip.

(* over the cap the re-imported byte store is another one *)
Theorem C15_onstore_wrk_roundtrip_over_cap_differs :
  forall (w : rworld) (ws : wsworld) (g0 : ghost) (s' : okv wrkchain_val) (id : Z),
  Rw w ws -> reg_inv true (rw_reg w) g0 -> Rreg s' (reg_reimported (rw_reg w)) ->
  EXPORT_CAP < Z.of_nat (List.length (records_of id (r_recs (rw_reg w)))) ->
  s' <> wsw_store ws.
Proof. exact os_roundtrip_over_cap_differs. Qed.
Print Assumptions C15_onstore_wrk_roundtrip_over_cap_differs.


(* ------------------------------------------------------------------ *)
(* 5. export -> import -> export                                        *)
(* ------------------------------------------------------------------ *)

Theorem C15_onstore_wrk_export_import_export : forall (w : rworld) (ws : wsworld) (g0 : ghost) (now wall : Z),
  Rw w ws -> reg_inv true (rw_reg w) g0 -> regs_ascending (rw_reg w) ->
  exists d s',
    S.go_ExportGenesis ws = Ok d /\
    S.go_InitGenesis (mk_wsworld now wall []) d = Ok (mk_wsworld now wall s', tt) /\
    S.go_ExportGenesis (mk_wsworld now wall s') = Ok d.
Proof. exact os_export_import_export. Qed.
Print Assumptions C15_onstore_wrk_export_import_export.

(* ------------------------------------------------------------------ *)
(* 6. the order hypothesis holds of every reachable state               *)
(* ------------------------------------------------------------------ *)

Theorem C15_onstore_wrk_ascending_init : forall (p : reg_params) (start : Z), regs_ascending (reg_init p start).
Proof. exact regs_ascending_init. Qed.
Print Assumptions C15_onstore_wrk_ascending_init.

Theorem C15_onstore_wrk_ascending_run : forall (heighted : bool) (h : list (Z * reg_msg)) (s : reg_state) (g : ghost),
  reg_inv heighted s g -> hist_wf h -> regs_ascending s -> regs_ascending (fst (reg_run heighted (s, g) h)).
Proof. exact regs_ascending_run. Qed.
Print Assumptions C15_onstore_wrk_ascending_run.

Theorem C15_onstore_wrk_ascending_reimported : forall st : reg_state,
  regs_ascending st -> regs_ascending (reg_reimported st).
Proof. exact reimported_regs_ascending. Qed.
Print Assumptions C15_onstore_wrk_ascending_reimported.

(* the round trip along the on-store message server, from a related, reachable, ascending start (e.g. the genesis) *)
Theorem C15_onstore_wrk_run_roundtrip :
  forall (wall : Z) (h : list (Z * reg_msg)) (w : rworld) (ws : wsworld) (g : ghost) (B now' wall' : Z),
  Rw w ws -> reg_inv true (rw_reg w) g -> wrk_bounded B (rw_reg w) -> B + Z.of_nat (List.length h) < two64 ->
  wrk_hist_ok h -> regs_ascending (rw_reg w) ->
  let ws' := snd (s_run wall ws (lift_hist h)) in
  let st' := fst (reg_run true (rw_reg w, g) h) in
  exists d s',
    S.go_ExportGenesis ws' = Ok d /\
    gen_of_go d = export_reg st' /\
    S.go_InitGenesis (mk_wsworld now' wall' []) d = Ok (mk_wsworld now' wall' s', tt) /\
    Rreg s' (reg_reimported st') /\
    S.go_ExportGenesis (mk_wsworld now' wall' s') = Ok d /\
    (under_cap st' -> s' = wsw_store ws').
Proof. exact os_run_roundtrip. Qed.
Print Assumptions C15_onstore_wrk_run_roundtrip.

(* ------------------------------------------------------------------ *)
(* 7. a concrete run                                                    *)
(* ------------------------------------------------------------------ *)

(* the byte store of C09_onstore_wrkchain's example run (two WRKChains, blocks 20 / 30 / 40 left after a pruning, bought
   storage, updated parameters: nine cells) exported, imported into [] under other clocks, compared, exported again *)
Theorem C15_onstore_wrk_example :
  let ws := snd (s_run 0 os_ex_sw0 os_ex_khist) in
  match S.go_ExportGenesis ws with
  | Ok d =>
      GenesisState_Params d = os_ex_params2 /\ GenesisState_StartingWrkchainId d = 3 /\
      map WrkChainExport_Wrkchain (GenesisState_RegisteredWrkchains d) =
        [mk_go_WrkChain 1 "m" "n" "0xabc" "geth" 40 3 20 1700000000 7; mk_go_WrkChain 2 "x" "y" "0xdef" "cosmos" 0 0 0 1700000100 9] /\
      map WrkChainExport_InStateLimit (GenesisState_RegisteredWrkchains d) = [5; 3] /\
      map (fun e => map WrkChainBlockGenesisExport_He (WrkChainExport_Blocks e)) (GenesisState_RegisteredWrkchains d) = [[20; 30; 40]; []] /\
      match S.go_InitGenesis (mk_wsworld 77 78 []) d with
      | Ok (ws', _) =>
          wsw_store ws' = wsw_store ws /\ List.length (wsw_store ws') = 9%nat /\
          wsw_now ws' = 77 /\ wsw_wall ws' = 78 /\
          S.go_ExportGenesis ws' = Ok d
      | _ => False
      end
  | _ => False
  end.
Proof. exact os_genesis_ex. Qed.
Print Assumptions C15_onstore_wrk_example.

Theorem C15_onstore_wrk_example_by_theorem :
  let ws := snd (s_run 0 os_ex_sw0 (lift_hist ex_history)) in
  exists d s',
    S.go_ExportGenesis ws = Ok d /\
    S.go_InitGenesis (mk_wsworld 77 78 []) d = Ok (mk_wsworld 77 78 s', tt) /\
    S.go_ExportGenesis (mk_wsworld 77 78 s') = Ok d /\
    s' = wsw_store ws.
Proof. exact os_genesis_ex_by_theorem. Qed.
Print Assumptions C15_onstore_wrk_example_by_theorem.
