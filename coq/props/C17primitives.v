(* C17: the hand-written descriptions of the primitives under the translated code were written against exactly
   these function bodies of /repo (digests re-derived from the source on every run). *)
From Coq Require Import String List.
From MC Require GeneratedStreamKeeper GeneratedWrkchainKeeper GeneratedBeaconKeeper GeneratedEnterpriseKeeper.
From MC Require Import proofs.PrimitiveBodies.
Import ListNotations.
Local Open Scope string_scope.

Theorem C17_enterprise_primitive_bodies_as_reviewed :
  GeneratedEnterpriseKeeper.enterprise_primitive_bodies =
  [("AccountHasLockedUnd", "64d0e893206994f9");
   ("AccountHasSpentEFUND", "38af83a6aa385f05");
   ("AddAddressToWhitelist", "0f9e2164fe9ad59d");
   ("AddPoToAcceptedQueue", "2e1229e6e3d8f50d");
   ("AddPoToRaisedQueue", "704a28d011ce825f");
   ("AddressIsWhitelisted", "6af5d71b51cf0a57");
   ("GetAllAcceptedPurchaseOrders", "fefd74c0caa3859f");
   ("GetAllLockedUndAccountsIterator", "7bd926dac70f8046");
   ("GetAllLockedUnds", "d7d6767c7fa3c58a");
   ("GetAllPurchaseOrders", "dfa0d41f494fae46");
   ("GetAllRaisedPurchaseOrders", "f103eef29b92e5fc");
   ("GetAllSpentEFUNDAccountsIterator", "545a54cbf5bb1a06");
   ("GetAllSpentEFUNDs", "c1bdd1b507f688ca");
   ("GetAllWhitelistedAddresses", "e23b2032d34c401f");
   ("GetEnterpriseAccount", "16bfc58a83cecb0d");
   ("GetHighestPurchaseOrderID", "263edb520a03d331");
   ("GetLockedUndForAccount", "c6a8831c7dc50c82");
   ("GetParamDenom", "c4773798fc1cc0de");
   ("GetParamEntSigners", "a2b99b5274590c69");
   ("GetParamEntSignersAsAddressArray", "3208da7cb08d6b04");
   ("GetParams", "e5651d249a1817ba");
   ("GetPurchaseOrder", "ef26aefe9ded7121");
   ("GetSpentEFUNDForAccount", "204c02383ae2ad5b");
   ("GetTotalLockedUnd", "b7cbfb95e7b97b20");
   ("GetTotalSpentEFUND", "59a5d0862c8b9828");
   ("IterateAcceptedQueue", "bfc5d72f75cfac5e");
   ("IteratePurchaseOrders", "92b4d9e631e95c2d");
   ("IterateRaisedQueue", "11e1bb71a8ca70b3");
   ("IterateWhitelist", "2608734ac0a624f0");
   ("PurchaseOrderExists", "b4e5f86e7525f80e");
   ("PurchaseOrderIsInAcceptedQueue", "d55180f1f7e0c136");
   ("PurchaseOrderIsInRaisedQueue", "ce00ab1c1c2874c2");
   ("RemoveAddressFromWhitelist", "2edb9fb1fdf51d6c");
   ("RemovePurchaseOrderFromAcceptedQueue", "e072676b98e9c8c0");
   ("RemovePurchaseOrderFromRaisedQueue", "9253b00f5d058afe");
   ("SetHighestPurchaseOrderID", "547ef3f473e6ca96");
   ("SetLockedUndForAccount", "64627c2078570493");
   ("SetParams", "73bc5d17b364b792");
   ("SetPurchaseOrder", "352a324193b03372");
   ("SetSpentEFUNDForAccount", "039082f7f61b8ef9");
   ("SetTotalLockedUnd", "89a79ceecbf56b03");
   ("SetTotalSpentEFUND", "d32ea1571e7da03a")].
Proof. exact enterprise_primitive_bodies_as_reviewed. Qed.
Print Assumptions C17_enterprise_primitive_bodies_as_reviewed.
