(* C04, application level: no user transaction can credit or debit the enterprise escrow account
   other than by fee unlocking (order completion happens in BeginBlock, not in a transaction), and
   the books balance in every state of every well-formed node history.
   app_inv, tx_wf, hist_wf : proofs/AppInv.v. *)
From MC Require Import lib.Prelude lib.AMap model.Bank model.Stream model.StreamSpec model.Registry
  model.Enterprise model.EnterpriseSpec model.App model.AppSpec.
From MC Require Import proofs.AppInv proofs.AppSupplyProofs proofs.AppLockedProofs.
Local Open Scope Z_scope.

(* ---- whatever a transaction contains (any message kind, any nesting, success or failure), the escrow
        balance changes by exactly minus the amount unlocked for its fee payer, in the enterprise
        denomination only; it changes at all only for a WRKChain/BEACON tx that passed the ante chain ---- *)
Theorem C04_user_tx_cannot_move_escrow : forall a t a' r,
  app_inv a -> tx_wf t -> deliver_tx a t = (a', r) ->
  let d := ep_denom (e_params (a_ent a)) in
  let l := snd (locked_coin (a_ent a) (tx_payer t)) in
  let l' := snd (locked_coin (a_ent a') (tx_payer t)) in
  (forall d', balance (a_bank a') ENT_MACC d' = balance (a_bank a) ENT_MACC d' - (if d' =? d then l - l' else 0)) /\
  0 <= l - l' /\
  (forall d', balance (a_bank a') ENT_MACC d' <> balance (a_bank a) ENT_MACC d' ->
     d' = d /\ is_registry_tx t = true /\ (exists a1, ante false a t = Ok a1) /\
     l - l' = Z.min (fee_amount_of (tx_fee t) d) l).
Proof. exact user_tx_cannot_move_escrow. Qed.
Print Assumptions C04_user_tx_cannot_move_escrow.

(* no message executed for a user account, at any depth, is a party to a transfer involving the escrow *)
Theorem C04_user_msgs_never_touch_escrow : forall f a m a',
  msg_wf m -> exec_msg f a m = Ok a' ->
  forall d, balance (a_bank a') ENT_MACC d = balance (a_bank a) ENT_MACC d.
Proof. exact user_msgs_never_touch_escrow. Qed.
Print Assumptions C04_user_msgs_never_touch_escrow.

(* ---- the books balance in all three states of the node along every well-formed history ---- *)
Theorem C04_books_balance_reachable_app : forall g h n,
  app_inv g -> hist_wf (node_init g) h -> node_run (node_init g) h = Some n ->
  let books_ok (a : app) :=
    let s := a_ent a in
    let d := ep_denom (e_params s) in
    balance (a_bank a) ENT_MACC d = snd (total_locked s) /\
    snd (total_locked s) = asum snd (e_locked s) /\
    snd (total_spent s) = asum snd (e_spent s) /\
    (forall x, amount_coin s x (e_locked s) + amount_coin s x (e_spent s) = completed_sum s x) /\
    (forall d', d' <> d -> balance (a_bank a) ENT_MACC d' = 0) /\
    fst (total_locked s) = d /\ fst (total_spent s) = d /\
    0 <= snd (total_locked s) /\ 0 <= snd (total_spent s) /\
    (forall x c, aget x (e_locked s) = Some c -> fst c = d /\ 0 <= snd c) /\
    (forall x c, aget x (e_spent s) = Some c -> fst c = d /\ 0 <= snd c) in
  books_ok (n_committed n) /\ books_ok (n_check n) /\
  match n_deliver n with Some a => books_ok a | None => True end.
Proof. exact books_balance_reachable_app. Qed.
Print Assumptions C04_books_balance_reachable_app.

(* ---- examples (scenario: proofs/AppInv.v) ---- *)
Example C04app_ex_hypotheses : app_inv ex_g /\ hist_wf (node_init ex_g) ex_hist.
Proof. exact (conj ex_g_inv ex_hist_wf_ok). Qed.

(* escrow balance, total locked, total spent of the deliver state: after completion (3000), after the
   registration paid from locked funds (2000 / 1000), unchanged by the stream transaction *)
Definition ex_obs4 (n : node) :=
  option_map (fun a => (balance (a_bank a) ENT_MACC NUND, snd (total_locked (a_ent a)), snd (total_spent (a_ent a))))
             (n_deliver n).

Example C04app_ex_escrow :
  option_map ex_obs4 (node_run (node_init ex_g) (firstn 9 ex_hist)) = Some (Some (3000, 3000, 0)) /\
  option_map ex_obs4 (node_run (node_init ex_g) (firstn 11 ex_hist)) = Some (Some (2000, 2000, 1000)) /\
  option_map ex_obs4 (node_run (node_init ex_g) (firstn 12 ex_hist)) = Some (Some (2000, 2000, 1000)).
Proof. vm_compute. repeat split; reflexivity. Qed.

(* a direct transfer to the escrow account is refused (blocked address) *)
Example C04app_ex_send_refused :
  exec_msg 2 ex_g (MSend 1 ENT_MACC [(NUND, 5)]) = Err ERR_UNAUTHORIZED.
Proof. vm_compute. reflexivity. Qed.
