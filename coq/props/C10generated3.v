(* C10, link to the source (stateless checks): the ValidateBasic methods of /repo/x/stream/types/msgs.go as the translator
   renders them on every run (the head of coq/GeneratedStreamKeeper.v) compute exactly what the model's
   [str_validate_basic] (model/Stream.v) computes: same verdict, same error code.  Hence a history in which every
   message passes the GENERATED ValidateBasic and is then executed by the GENERATED message server is the model's
   history [str_run], about which C10 is proved (props/C10.v).
   Proofs: proofs/GeneratedStreamValidateEq.v.  [go_str_validate_basic] dispatches on the model's message type to the
   five generated functions, on the records [go_msg_exec] (model/StreamGenSpec.v) builds; [go_step_v] / [go_run_v] are
   [go_step] / [go_run] validating with it.  [str_msg_rate_ok]: the flow rate fits the int64 field that carries it. *)
From MC Require Import lib.Prelude lib.AMap lib.GoSdk GeneratedFns GeneratedStreamTypes model.Bank model.Stream
  model.StreamSpec model.StreamKeeperPrims GeneratedStreamKeeper model.StreamGenSpec.
From MC Require Import proofs.StreamArith proofs.BankProofs proofs.StreamProofs proofs.GeneratedStreamEq
  proofs.GeneratedStreamValidateEq.
Local Open Scope Z_scope.

Theorem C10_generated_validate_basic_is_model : forall m, str_msg_rate_ok m ->
  go_str_validate_basic m = str_validate_basic m.
Proof. exact gen_str_validate_basic_eq. Qed.
Print Assumptions C10_generated_validate_basic_is_model.

Theorem C10_generated_run_with_validate_is_model : forall now0 b0 s0 h, str_inv now0 b0 s0 -> times_sorted now0 h ->
  go_run_v (b0, s0) h = str_run (b0, s0) h.
Proof. exact gen_run_v_eq. Qed.
Print Assumptions C10_generated_run_with_validate_is_model.

(* ---- examples: the generated checks run ---- *)

(* accepted: 100000 at 100/s lasts 1000 s *)
Example C10_generated_validate_accepts_ex :
  go_MsgCreateStream_ValidateBasic (mk_go_MsgCreateStream 2 1 (0, 100000) 100) = Ok tt /\
  go_str_validate_basic (SCreate 1 2 0 100000 100) = Ok tt /\ str_validate_basic (SCreate 1 2 0 100000 100) = Ok tt.
Proof. vm_compute. auto. Qed.

(* rejected: a stream shorter than a minute (5900 at 100/s lasts 59 s); a stream to oneself *)
Example C10_generated_validate_rejects_short_ex :
  go_str_validate_basic (SCreate 1 2 0 5900 100) = Err ERR_INVALID_DATA /\
  str_validate_basic (SCreate 1 2 0 5900 100) = Err ERR_INVALID_DATA.
Proof. vm_compute. auto. Qed.

Example C10_generated_validate_rejects_self_ex :
  go_str_validate_basic (SCreate 1 1 0 100000 100) = Err ERR_INVALID_DATA /\
  str_validate_basic (SCreate 1 1 0 100000 100) = Err ERR_INVALID_DATA /\
  go_str_validate_basic (STopUp 1 2 0 0) = Err ERR_INVALID_DATA /\
  go_str_validate_basic (SUpdateFlow 1 2 0) = Err ERR_INVALID_DATA.
Proof. vm_compute. auto. Qed.

(* the five-message history of proofs/StreamProofs.v, validated and executed by generated code only *)
Example C10_generated_history_with_validate_ex :
  go_run_v (ex_bank, ex_state0) ex_history = str_run (ex_bank, ex_state0) ex_history /\
  s_streams (snd (go_run_v (ex_bank, ex_state0) ex_history)) = [] /\
  balance (fst (go_run_v (ex_bank, ex_state0) ex_history)) STREAM_MACC 0 = 0.
Proof. vm_compute. auto. Qed.
