(* C18, store layer of x/stream: the store accessors of /repo/x/stream/keeper/{stream.go,params.go} as generated on every
   run (GeneratedStreamStore.v: GetParams, SetParams, SetStream, IsStream, GetStream, DeleteStream, IterateAllStreams),
   run against the ordered byte-keyed store of model/KVStore.v with the generated key builders of GeneratedKeys.v,
   implement a finite map (receiver, sender) -> Stream plus one Params cell:
     what each accessor does to the store (one set / delete at the key of the byte model; a function of the entry under
     that key; the prefix listing), read-your-write, Is/Get after Delete, non-interference between different pairs,
     isolation between params and streams, preservation of the store invariant and of well-formedness, and the listing:
     exactly the stored streams, each once, ascending in key order, found iff the point query finds it, each reported to
     the callback with the (receiver, sender) pair it was created with.
   Addresses: up to 255 bytes for a builder to succeed (a Go panic above), non-empty wherever two pairs are told apart
   (the empty address has no length byte).  Proofs and the *_refuted examples showing the hypotheses necessary:
   proofs/GeneratedStreamStoreEq.v (generic store facts: proofs/KVStoreFacts.v, proofs/KVStoreFacts2Stream.v). *)
From MC Require Import lib.Prelude lib.GoSdk model.Keys model.KeyPrims model.KVStore model.StoreCodecPrims
  GeneratedKeys GeneratedStreamTypes GeneratedStreamKeeper GeneratedStreamStore
  proofs.KVStoreFacts proofs.KVStoreFacts2Stream proofs.GeneratedStreamStoreEq.
From Coq Require Import NArith ZArith List Bool.
Import ListNotations.

(* addr_ok a            := 1 <= length a <= 255
   stream_store_wf st   := every value under ParamsKey is a Params, every entry under StreamKeyPrefix has a key
                           str_encode (SkStream r s) with addr_ok r, addr_ok s and holds a Stream
   list_iterate cb L st := the Go loop `for _, a := range L { if cb(a) { break } }` over a decoded list *)

(* ------------------------------------------------------------------ *)
(* keys                                                                 *)
(* ------------------------------------------------------------------ *)

Theorem C18_store_stream_keys r s : (length r <= 255)%nat -> (length s <= 255)%nat ->
  go_stream_GetStreamKey r s = Ok (str_encode (SkStream r s)) /\ str_encode (SkStream r s) <> [].
Proof. exact (stream_key_ok r s). Qed.
Print Assumptions C18_store_stream_keys.

Theorem C18_store_stream_key_sections r s :
  stream_ParamsKey = str_encode SkParams /\ stream_ParamsKey <> [] /\
  is_prefix stream_StreamKeyPrefix (str_encode (SkStream r s)) = true /\
  is_prefix stream_StreamKeyPrefix stream_ParamsKey = false /\
  str_encode (SkStream r s) <> stream_ParamsKey.
Proof.
  exact (conj params_key_eq (conj params_key_nonempty (conj (skey_prefix r s) (conj params_not_prefix (skey_not_params r s))))).
Qed.
Print Assumptions C18_store_stream_key_sections.

Theorem C18_store_stream_key_injective r1 s1 r2 s2 : r1 <> [] -> s1 <> [] -> r2 <> [] -> s2 <> [] ->
  str_encode (SkStream r1 s1) = str_encode (SkStream r2 s2) -> r1 = r2 /\ s1 = s2.
Proof. exact (skey_inj r1 s1 r2 s2). Qed.
Print Assumptions C18_store_stream_key_injective.

(* ------------------------------------------------------------------ *)
(* what each accessor does to the store (on every input)                *)
(* ------------------------------------------------------------------ *)

Theorem C18_store_stream_writers_spec (st : okv stream_val) r s x p :
  go_st_SetParams st p = (do _ <- go_Params_Validate p; Ok (okv_set st stream_ParamsKey (SV_Params p), tt)) /\
  go_st_SetStream st r s x =
    (do k <- go_stream_GetStreamKey r s; do _ <- marshal_check_Stream x; Ok (okv_set st k (SV_Stream x), tt)) /\
  go_st_DeleteStream st r s = (do k <- go_stream_GetStreamKey r s; Ok (okv_del st k, tt)).
Proof. exact (conj (SetParams_spec st p) (conj (SetStream_spec st r s x) (DeleteStream_spec st r s))). Qed.
Print Assumptions C18_store_stream_writers_spec.

Theorem C18_store_stream_readers_spec (st : okv stream_val) r s :
  go_st_GetParams st = stream_unmarshal_Params (okv_get st stream_ParamsKey) /\
  go_st_IsStream st r s =
    (do k <- go_stream_GetStreamKey r s; Ok (match okv_get st k with Some _ => true | None => false end)) /\
  go_st_GetStream st r s =
    (do k <- go_stream_GetStreamKey r s;
     match okv_get st k with
     | None => Ok (zero_go_Stream, false)
     | Some (SV_Stream x) => Ok (x, true)
     | Some _ => Panic OKV_PANIC_UNMARSHAL
     end).
Proof. exact (conj (GetParams_spec st) (conj (IsStream_spec st r s) (GetStream_spec st r s))). Qed.
Print Assumptions C18_store_stream_readers_spec.

Theorem C18_store_stream_iterate_spec {St} (st : okv stream_val)
    (cb : St -> list N * list N * go_Stream -> outcome (St * bool)) st0 :
  go_st_IterateAllStreams st cb st0 =
  okv_iterate (fun k v => do rs <- go_stream_AddressesFromStreamKey k;
                          do x <- stream_unmarshal_Stream (Some v);
                          Ok (fst rs, snd rs, x))
              cb (okv_prefix st stream_StreamKeyPrefix) st0.
Proof. exact (IterateAllStreams_spec st cb st0). Qed.
Print Assumptions C18_store_stream_iterate_spec.

Theorem C18_store_stream_set_succeeds (st : okv stream_val) r s x :
  (exists st', go_st_SetStream st r s x = Ok (st', tt)) <->
  (length r <= 255)%nat /\ (length s <= 255)%nat /\ marshal_check_Stream x = Ok tt.
Proof. exact (stream_set_succeeds st r s x). Qed.
Print Assumptions C18_store_stream_set_succeeds.

Theorem C18_store_stream_delete_succeeds (st : okv stream_val) r s :
  (exists st', go_st_DeleteStream st r s = Ok (st', tt)) <-> (length r <= 255)%nat /\ (length s <= 255)%nat.
Proof. exact (stream_delete_succeeds st r s). Qed.
Print Assumptions C18_store_stream_delete_succeeds.

(* ------------------------------------------------------------------ *)
(* map laws                                                             *)
(* ------------------------------------------------------------------ *)

Theorem C18_store_stream_get_after_set (st st' : okv stream_val) r s x u :
  go_st_SetStream st r s x = Ok (st', u) -> go_st_GetStream st' r s = Ok (x, true).
Proof. exact (stream_get_after_set st st' r s x u). Qed.
Print Assumptions C18_store_stream_get_after_set.

Theorem C18_store_stream_is_after_set (st st' : okv stream_val) r s x u :
  go_st_SetStream st r s x = Ok (st', u) -> go_st_IsStream st' r s = Ok true.
Proof. exact (stream_is_after_set st st' r s x u). Qed.
Print Assumptions C18_store_stream_is_after_set.

Theorem C18_store_stream_params_get_after_set (st st' : okv stream_val) p u :
  go_st_SetParams st p = Ok (st', u) -> go_st_GetParams st' = Ok p.
Proof. exact (params_get_after_set st st' p u). Qed.
Print Assumptions C18_store_stream_params_get_after_set.

Theorem C18_store_stream_params_get_unset (st : okv stream_val) :
  okv_get st stream_ParamsKey = None -> go_st_GetParams st = Ok zero_go_Params.
Proof. exact (params_get_unset st). Qed.
Print Assumptions C18_store_stream_params_get_unset.

Theorem C18_store_stream_after_delete (st st' : okv stream_val) r s u : okv_sorted st = true ->
  go_st_DeleteStream st r s = Ok (st', u) ->
  go_st_IsStream st' r s = Ok false /\ go_st_GetStream st' r s = Ok (zero_go_Stream, false).
Proof. exact (stream_after_delete st st' r s u). Qed.
Print Assumptions C18_store_stream_after_delete.

Theorem C18_store_stream_get_is (st : okv stream_val) r s x b :
  go_st_GetStream st r s = Ok (x, b) -> go_st_IsStream st r s = Ok b.
Proof. exact (stream_get_is st r s x b). Qed.
Print Assumptions C18_store_stream_get_is.

Theorem C18_store_stream_set_other (st st' : okv stream_val) r s x u r' s' :
  r <> [] -> s <> [] -> r' <> [] -> s' <> [] -> (r', s') <> (r, s) ->
  go_st_SetStream st r s x = Ok (st', u) ->
  go_st_GetStream st' r' s' = go_st_GetStream st r' s' /\ go_st_IsStream st' r' s' = go_st_IsStream st r' s'.
Proof. exact (stream_set_other st st' r s x u r' s'). Qed.
Print Assumptions C18_store_stream_set_other.

Theorem C18_store_stream_delete_other (st st' : okv stream_val) r s u r' s' :
  r <> [] -> s <> [] -> r' <> [] -> s' <> [] -> (r', s') <> (r, s) ->
  go_st_DeleteStream st r s = Ok (st', u) ->
  go_st_GetStream st' r' s' = go_st_GetStream st r' s' /\ go_st_IsStream st' r' s' = go_st_IsStream st r' s'.
Proof. exact (stream_delete_other st st' r s u r' s'). Qed.
Print Assumptions C18_store_stream_delete_other.

Theorem C18_store_stream_set_overwrites (st st1 st2 : okv stream_val) r s x1 x2 u1 u2 : okv_sorted st = true ->
  go_st_SetStream st r s x1 = Ok (st1, u1) -> go_st_SetStream st1 r s x2 = Ok (st2, u2) ->
  go_st_SetStream st r s x2 = Ok (st2, tt).
Proof. exact (stream_set_overwrites st st1 st2 r s x1 x2 u1 u2). Qed.
Print Assumptions C18_store_stream_set_overwrites.

Theorem C18_store_stream_set_commutes (st sa sab sb sba : okv stream_val) r1 s1 x1 r2 s2 x2 u1 u2 u3 u4 :
  okv_sorted st = true ->
  r1 <> [] -> s1 <> [] -> r2 <> [] -> s2 <> [] -> (r1, s1) <> (r2, s2) ->
  go_st_SetStream st r1 s1 x1 = Ok (sa, u1) -> go_st_SetStream sa r2 s2 x2 = Ok (sab, u2) ->
  go_st_SetStream st r2 s2 x2 = Ok (sb, u3) -> go_st_SetStream sb r1 s1 x1 = Ok (sba, u4) ->
  sab = sba.
Proof. exact (stream_set_commutes st sa sab sb sba r1 s1 x1 r2 s2 x2 u1 u2 u3 u4). Qed.
Print Assumptions C18_store_stream_set_commutes.

Theorem C18_store_stream_set_then_delete (st st1 : okv stream_val) r s x u : okv_sorted st = true ->
  go_st_IsStream st r s = Ok false -> go_st_SetStream st r s x = Ok (st1, u) ->
  go_st_DeleteStream st1 r s = Ok (st, tt).
Proof. exact (stream_set_then_delete st st1 r s x u). Qed.
Print Assumptions C18_store_stream_set_then_delete.

(* ------------------------------------------------------------------ *)
(* isolation across kinds                                               *)
(* ------------------------------------------------------------------ *)

(* generic: a reader that looks at the store through one key / one prefix listing only does not see a set or a
   delete at another key / at a key outside the prefix *)
Theorem C18_store_stream_isolation_generic {A} (f : okv stream_val -> A) (st st' : okv stream_val) k :
  ((exists v, st' = okv_set st k v) \/ st' = okv_del st k) ->
  (forall k', (forall s1 s2, okv_get s1 k' = okv_get s2 k' -> f s1 = f s2) -> k' <> k -> f st' = f st) /\
  (forall p, (forall s1 s2, okv_prefix s1 p = okv_prefix s2 p -> f s1 = f s2) -> is_prefix p k = false -> f st' = f st).
Proof.
  exact (fun H => conj (fun k' Hf Hne => point_reader_isolated f k' st st' k H Hf Hne)
                       (fun p Hf Hp => prefix_reader_isolated f p st st' k H Hf Hp)).
Qed.
Print Assumptions C18_store_stream_isolation_generic.

(* every reader is of one of the two classes, every writer one set / delete *)
Theorem C18_store_stream_readers_classified r s :
  (forall s1 s2 : okv stream_val, okv_get s1 stream_ParamsKey = okv_get s2 stream_ParamsKey ->
     go_st_GetParams s1 = go_st_GetParams s2) /\
  (forall s1 s2 : okv stream_val, okv_get s1 (str_encode (SkStream r s)) = okv_get s2 (str_encode (SkStream r s)) ->
     go_st_GetStream s1 r s = go_st_GetStream s2 r s) /\
  (forall s1 s2 : okv stream_val, okv_get s1 (str_encode (SkStream r s)) = okv_get s2 (str_encode (SkStream r s)) ->
     go_st_IsStream s1 r s = go_st_IsStream s2 r s) /\
  (forall St (cb : St -> list N * list N * go_Stream -> outcome (St * bool)) st0 (s1 s2 : okv stream_val),
     okv_prefix s1 stream_StreamKeyPrefix = okv_prefix s2 stream_StreamKeyPrefix ->
     go_st_IterateAllStreams s1 cb st0 = go_st_IterateAllStreams s2 cb st0).
Proof.
  exact (conj GetParams_reader (conj (GetStream_reader r s) (conj (IsStream_reader r s)
          (fun St cb st0 => IterateAllStreams_reader cb st0)))).
Qed.
Print Assumptions C18_store_stream_readers_classified.

Theorem C18_store_stream_writers_classified (st st' : okv stream_val) r s x p u :
  (go_st_SetParams st p = Ok (st', u) -> (exists v, st' = okv_set st stream_ParamsKey v) \/ st' = okv_del st stream_ParamsKey) /\
  (go_st_SetStream st r s x = Ok (st', u) ->
     (exists v, st' = okv_set st (str_encode (SkStream r s)) v) \/ st' = okv_del st (str_encode (SkStream r s))) /\
  (go_st_DeleteStream st r s = Ok (st', u) ->
     (exists v, st' = okv_set st (str_encode (SkStream r s)) v) \/ st' = okv_del st (str_encode (SkStream r s))).
Proof.
  exact (conj (SetParams_writes st st' p u) (conj (SetStream_writes st st' r s x u) (DeleteStream_writes st st' r s u))).
Qed.
Print Assumptions C18_store_stream_writers_classified.

Theorem C18_store_stream_params_write_isolated (st st' : okv stream_val) p u : go_st_SetParams st p = Ok (st', u) ->
  (forall r s, go_st_GetStream st' r s = go_st_GetStream st r s) /\
  (forall r s, go_st_IsStream st' r s = go_st_IsStream st r s) /\
  (forall St (cb : St -> list N * list N * go_Stream -> outcome (St * bool)) st0,
     go_st_IterateAllStreams st' cb st0 = go_st_IterateAllStreams st cb st0).
Proof. exact (params_write_isolated st st' p u). Qed.
Print Assumptions C18_store_stream_params_write_isolated.

Theorem C18_store_stream_stream_write_isolated (st st' : okv stream_val) r s x u :
  (go_st_SetStream st r s x = Ok (st', u) -> go_st_GetParams st' = go_st_GetParams st) /\
  (go_st_DeleteStream st r s = Ok (st', u) -> go_st_GetParams st' = go_st_GetParams st).
Proof. exact (conj (stream_set_isolated st st' r s x u) (stream_delete_isolated st st' r s u)). Qed.
Print Assumptions C18_store_stream_stream_write_isolated.

(* ------------------------------------------------------------------ *)
(* invariants                                                           *)
(* ------------------------------------------------------------------ *)

Theorem C18_store_stream_writers_preserve_sorted (st st' : okv stream_val) r s x p u : okv_sorted st = true ->
  (go_st_SetParams st p = Ok (st', u) -> okv_sorted st' = true) /\
  (go_st_SetStream st r s x = Ok (st', u) -> okv_sorted st' = true) /\
  (go_st_DeleteStream st r s = Ok (st', u) -> okv_sorted st' = true).
Proof.
  exact (fun H => conj (SetParams_sorted st st' p u H) (conj (SetStream_sorted st st' r s x u H) (DeleteStream_sorted st st' r s u H))).
Qed.
Print Assumptions C18_store_stream_writers_preserve_sorted.

Theorem C18_store_stream_writers_preserve_wf (st st' : okv stream_val) r s x p u : stream_store_wf st ->
  (go_st_SetParams st p = Ok (st', u) -> stream_store_wf st') /\
  (r <> [] -> s <> [] -> go_st_SetStream st r s x = Ok (st', u) -> stream_store_wf st') /\
  (go_st_DeleteStream st r s = Ok (st', u) -> stream_store_wf st').
Proof.
  exact (fun W => conj (SetParams_wf st st' p u W)
                  (conj (fun Nr Ns => SetStream_wf st st' r s x u Nr Ns W) (DeleteStream_wf st st' r s u W))).
Qed.
Print Assumptions C18_store_stream_writers_preserve_wf.

Theorem C18_store_stream_empty_store : stream_store_wf [] /\ okv_sorted (@nil (list N * stream_val)) = true.
Proof. exact (conj wf_empty sorted_nil). Qed.
Print Assumptions C18_store_stream_empty_store.

Theorem C18_store_stream_readers_total (st : okv stream_val) r s : stream_store_wf st ->
  (exists p, go_st_GetParams st = Ok p) /\
  ((length r <= 255)%nat -> (length s <= 255)%nat -> exists x b, go_st_GetStream st r s = Ok (x, b)) /\
  (exists L, go_st_IterateAllStreams st (fun acc a => Ok (acc ++ [a], false)) [] = Ok L).
Proof.
  exact (fun W => conj (GetParams_total st W) (conj (GetStream_total st r s W) (list_total st W))).
Qed.
Print Assumptions C18_store_stream_readers_total.

(* ------------------------------------------------------------------ *)
(* the listing                                                          *)
(* ------------------------------------------------------------------ *)

(* exactly the entries stored under StreamKeyPrefix: same entries, same (ascending) order, same multiplicity, each
   with the (receiver, sender) its key encodes; the addresses handed to the callback have 1..255 bytes *)
Theorem C18_store_stream_list_entries (st : okv stream_val) L : stream_store_wf st ->
  go_st_IterateAllStreams st (fun acc a => Ok (acc ++ [a], false)) [] = Ok L ->
  map (fun a => (str_encode (SkStream (fst (fst a)) (snd (fst a))), SV_Stream (snd a))) L =
    okv_prefix st stream_StreamKeyPrefix /\
  Forall (fun a => addr_ok (fst (fst a)) /\ addr_ok (snd (fst a))) L.
Proof. exact (list_entries st L). Qed.
Print Assumptions C18_store_stream_list_entries.

(* every callback (also one that stops early) is run over that list *)
Theorem C18_store_stream_list_callback (st : okv stream_val) L : stream_store_wf st ->
  go_st_IterateAllStreams st (fun acc a => Ok (acc ++ [a], false)) [] = Ok L ->
  forall St (cb : St -> list N * list N * go_Stream -> outcome (St * bool)) st0,
    go_st_IterateAllStreams st cb st0 = list_iterate cb L st0.
Proof. exact (list_callback st L). Qed.
Print Assumptions C18_store_stream_list_callback.

Theorem C18_store_stream_list_point (st : okv stream_val) L : stream_store_wf st -> okv_sorted st = true ->
  go_st_IterateAllStreams st (fun acc a => Ok (acc ++ [a], false)) [] = Ok L ->
  forall r s x, In (r, s, x) L <-> addr_ok r /\ addr_ok s /\ go_st_GetStream st r s = Ok (x, true).
Proof. exact (list_point st L). Qed.
Print Assumptions C18_store_stream_list_point.

Theorem C18_store_stream_list_nodup (st : okv stream_val) L : stream_store_wf st -> okv_sorted st = true ->
  go_st_IterateAllStreams st (fun acc a => Ok (acc ++ [a], false)) [] = Ok L -> NoDup (map fst L).
Proof. exact (list_nodup st L). Qed.
Print Assumptions C18_store_stream_list_nodup.

Theorem C18_store_stream_list_order (st : okv stream_val) L : stream_store_wf st -> okv_sorted st = true ->
  go_st_IterateAllStreams st (fun acc a => Ok (acc ++ [a], false)) [] = Ok L ->
  ForallOrdPairs (fun a b => lex_lt (str_encode (SkStream (fst (fst a)) (snd (fst a))))
                                    (str_encode (SkStream (fst (fst b)) (snd (fst b)))) = true) L.
Proof. exact (list_order st L). Qed.
Print Assumptions C18_store_stream_list_order.

Theorem C18_store_stream_list_after_set (st st' : okv stream_val) r s x u L L' :
  stream_store_wf st -> okv_sorted st = true -> r <> [] -> s <> [] ->
  go_st_SetStream st r s x = Ok (st', u) ->
  go_st_IterateAllStreams st (fun acc a => Ok (acc ++ [a], false)) [] = Ok L ->
  go_st_IterateAllStreams st' (fun acc a => Ok (acc ++ [a], false)) [] = Ok L' ->
  forall a, In a L' <-> a = (r, s, x) \/ (In a L /\ fst a <> (r, s)).
Proof. exact (list_after_set st st' r s x u L L'). Qed.
Print Assumptions C18_store_stream_list_after_set.

Theorem C18_store_stream_list_after_delete (st st' : okv stream_val) r s u L L' :
  stream_store_wf st -> okv_sorted st = true -> r <> [] -> s <> [] ->
  go_st_DeleteStream st r s = Ok (st', u) ->
  go_st_IterateAllStreams st (fun acc a => Ok (acc ++ [a], false)) [] = Ok L ->
  go_st_IterateAllStreams st' (fun acc a => Ok (acc ++ [a], false)) [] = Ok L' ->
  forall a, In a L' <-> In a L /\ fst a <> (r, s).
Proof. exact (list_after_delete st st' r s u L L'). Qed.
Print Assumptions C18_store_stream_list_after_delete.

(* the (receiver, sender) reported for a stream is the pair it was created with *)
Theorem C18_store_stream_list_reports_created_pair (st st' : okv stream_val) r s x u L' :
  stream_store_wf st -> okv_sorted st = true -> r <> [] -> s <> [] ->
  go_st_SetStream st r s x = Ok (st', u) ->
  go_st_IterateAllStreams st' (fun acc a => Ok (acc ++ [a], false)) [] = Ok L' ->
  In (r, s, x) L' /\ (forall x', In (r, s, x') L' -> x' = x).
Proof. exact (list_reports_created_pair st st' r s x u L'). Qed.
Print Assumptions C18_store_stream_list_reports_created_pair.

(* ------------------------------------------------------------------ *)
(* non-vacuity: a run of the generated writers from the empty store     *)
(* ------------------------------------------------------------------ *)

Theorem C18_store_stream_example_run : exists S : okv stream_val,
  (do r1 <- go_st_SetParams [] (mk_go_Params 5);
   do r2 <- go_st_SetStream (fst r1) [2; 2]%N [1]%N (ex_x 1);
   do r3 <- go_st_SetStream (fst r2) [9]%N [3]%N (ex_x 2);
   do r4 <- go_st_SetStream (fst r3) [9]%N [1]%N (ex_x 3);
   Ok (fst r4)) = Ok S /\
  okv_sorted S = true /\
  go_st_GetParams S = Ok (mk_go_Params 5) /\
  go_st_GetStream S [9]%N [3]%N = Ok (ex_x 2, true) /\
  go_st_GetStream S [9]%N [2]%N = Ok (zero_go_Stream, false) /\
  go_st_IterateAllStreams S (fun acc a => Ok (acc ++ [a], false)) [] =
    Ok [ ([9]%N, [1]%N, ex_x 3); ([9]%N, [3]%N, ex_x 2); ([2; 2]%N, [1]%N, ex_x 1) ].
Proof.
  exact (ex_intro _ ex_store (conj (proj1 ex_run_result) (conj (proj2 ex_run_result) (conj (proj1 ex_read_back)
          (conj (proj1 (proj2 ex_read_back)) (conj (proj1 (proj2 (proj2 (proj2 ex_read_back)))) ex_listing)))))).
Qed.
Print Assumptions C18_store_stream_example_run.
