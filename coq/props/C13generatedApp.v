(* C13, generated application: the transaction-level C13 theorems (no user transaction changes any module's parameters;
   no grant is ever held on behalf of a module account; a transaction whose signatures do not verify changes nothing and
   is not accepted) hold of the DeliverTx / CheckTx of the application that runs the GENERATED code.
   The application assembled from the code generated from /repo (model/GeneratedApp.v: go_deliver_tx, go_check_tx,
   go_begin_block, go_end_block, go_ante, go_node_step, go_node_run) is the hand-written application of model/App.v under
   the hypotheses below (proofs/GeneratedAppEq.v; props/C01generatedApp.v); each theorem here is that equality followed by
   the theorem about the model (proofs/GeneratedAppTransport.v).
   Hypotheses (proofs/GeneratedAppEq.v; app_inv, tx_wf, op_wf, hist_wf, begin_wf, end_wf: proofs/AppInv.v):
     gen_inv B a     app_inv a and the registries' invariants and the machine-integer bounds the generated code relies on
                     (counters and numbers of decisions at most B, registry fees below 2^63, len(signers) an int);
     gnode_inv B n   gen_inv B of the committed, check and (if any) deliver state of the node n;
     gmsg_ok m       a WRKChain record carries five hashes, a BEACON record one; the fields of a parameter update are in
                     range (for governance: fees below 2^63, maximum limit below 2^64); at every authz depth;
     gop_ok o, ghist_ok h   gmsg_ok of every message of the operation o / of every operation of the history h;
     B + hist_size h < two63 (one transaction: B + leaves_l (tx_msgs t) < two63; BeginBlock: B < two63)
                     hist_size h = number of leaf messages of the delivered transactions of h: no counter reaches 2^63. *)
From Coq Require Import ZArith Lia List String Bool.
From MC Require Import lib.Prelude lib.AMap lib.GoSdk model.Bank model.Stream model.StreamSpec model.Registry
  model.RegistrySpec model.Enterprise model.EnterpriseSpec model.App model.AppSpec model.GeneratedApp.
From MC Require Import proofs.BankProofs proofs.AppFrame proofs.AppParamsProofs proofs.AppAuthProofs proofs.AppFeeProofs
  proofs.AppInv proofs.AppLockedProofs proofs.AppSupplyProofs proofs.AppCrashProofs.
From MC Require Import proofs.GeneratedAppEq proofs.GeneratedAppTransport.
Import ListNotations.
Local Open Scope Z_scope.

(* ---- whatever a user transaction contains (MsgUpdateParams included, nested or not), the parameters stay ---- *)
Theorem C13_generatedapp_user_tx_cannot_update_params : forall B a t a' r,
  gen_inv B a -> tx_wf t -> Forall gmsg_ok (tx_msgs t) -> B + leaves_l (tx_msgs t) < two63 ->
  go_deliver_tx a t = (a', r) ->
  e_params (a_ent a') = e_params (a_ent a) /\ r_params (a_wrk a') = r_params (a_wrk a) /\
  r_params (a_bcn a') = r_params (a_bcn a) /\ s_valfee (a_str a') = s_valfee (a_str a).
Proof. exact gen_user_tx_cannot_update_params. Qed.
Print Assumptions C13_generatedapp_user_tx_cannot_update_params.

(* ---- no authz grant whose granter is a module account exists after the transaction ---- *)
Theorem C13_generatedapp_no_module_grants_invariant : forall B a t a' r,
  gen_inv B a -> tx_wf t -> Forall gmsg_ok (tx_msgs t) -> B + leaves_l (tx_msgs t) < two63 ->
  go_deliver_tx a t = (a', r) ->
  forall g, In g (a_grants a') -> 0 <= fst (fst g).
Proof. exact gen_no_module_grants_invariant. Qed.
Print Assumptions C13_generatedapp_no_module_grants_invariant.

(* ---- a transaction whose signatures do not verify ---- *)
Theorem C13_generatedapp_signature_required : forall B a t a' r,
  gen_inv B a -> tx_wf t -> Forall gmsg_ok (tx_msgs t) -> B + leaves_l (tx_msgs t) < two63 ->
  go_deliver_tx a t = (a', r) ->
  tx_sig_ok t = false -> a' = a /\ r <> TxOk.
Proof. exact gen_signature_required. Qed.
Print Assumptions C13_generatedapp_signature_required.

Theorem C13_generatedapp_signature_required_check : forall B a t a' r,
  gen_inv B a -> tx_wf t -> Forall gmsg_ok (tx_msgs t) ->
  go_check_tx a t = (a', r) ->
  tx_sig_ok t = false -> a' = a /\ r <> TxOk.
Proof. exact gen_signature_required_check. Qed.
Print Assumptions C13_generatedapp_signature_required_check.
