(* C14, generated application: the C14 theorems (a failed transaction is atomic; CheckTx never executes messages; the
   application invariant holds in every state reachable by a well-formed history; block begin, block end and commit
   complete without panicking; a well-formed history in block order never halts the node) hold of the application that
   runs the GENERATED code.
   The application assembled from the code generated from /repo (model/GeneratedApp.v: go_deliver_tx, go_check_tx,
   go_begin_block, go_end_block, go_ante, go_node_step, go_node_run) is the hand-written application of model/App.v under
   the hypotheses below (proofs/GeneratedAppEq.v; props/C01generatedApp.v); each theorem here is that equality followed by
   the theorem about the model (proofs/GeneratedAppTransport.v).
   Hypotheses (proofs/GeneratedAppEq.v; app_inv, tx_wf, op_wf, hist_wf, begin_wf, end_wf: proofs/AppInv.v):
     gen_inv B a     app_inv a and the registries' invariants and the machine-integer bounds the generated code relies on
                     (counters and numbers of decisions at most B, registry fees below 2^63, len(signers) an int);
     gnode_inv B n   gen_inv B of the committed, check and (if any) deliver state of the node n;
     gmsg_ok m       a WRKChain record carries five hashes, a BEACON record one; the fields of a parameter update are in
                     range (for governance: fees below 2^63, maximum limit below 2^64); at every authz depth;
     gop_ok o, ghist_ok h   gmsg_ok of every message of the operation o / of every operation of the history h;
     B + hist_size h < two63 (one transaction: B + leaves_l (tx_msgs t) < two63; BeginBlock: B < two63)
                     hist_size h = number of leaf messages of the delivered transactions of h: no counter reaches 2^63.
   phased b h (proofs/AppSupplyProofs.v): the operations of h come in block order (Begin, Deliver*, End, Commit; CheckTx and
   crashes anywhere), b saying whether a block is open at the start. *)
From Coq Require Import ZArith Lia List String Bool.
From MC Require Import lib.Prelude lib.AMap lib.GoSdk model.Bank model.Stream model.StreamSpec model.Registry
  model.RegistrySpec model.Enterprise model.EnterpriseSpec model.App model.AppSpec model.GeneratedApp.
From MC Require Import proofs.BankProofs proofs.AppFrame proofs.AppParamsProofs proofs.AppAuthProofs proofs.AppFeeProofs
  proofs.AppInv proofs.AppLockedProofs proofs.AppSupplyProofs proofs.AppCrashProofs.
From MC Require Import proofs.GeneratedAppEq proofs.GeneratedAppTransport.
Import ListNotations.
Local Open Scope Z_scope.

(* ---- a transaction that does not succeed: nothing changes if it is rejected before the ante chain ends; otherwise only
        what the generated ante chain did remains ---- *)
Theorem C14_generatedapp_failed_tx_atomic : forall B a t a' r,
  gen_inv B a -> tx_wf t -> Forall gmsg_ok (tx_msgs t) -> B + leaves_l (tx_msgs t) < two63 ->
  go_deliver_tx a t = (a', r) ->
  match r with
  | TxOk => True
  | TxRejected _ => a' = a
  | TxPanicked 0 _ => a' = a
  | TxPanicked 1 _ => a' = a
  | TxFailed _ => go_ante false a t = Ok a'
  | TxPanicked _ _ => go_ante false a t = Ok a'
  end.
Proof. exact gen_failed_tx_atomic. Qed.
Print Assumptions C14_generatedapp_failed_tx_atomic.

Theorem C14_generatedapp_failed_tx_module_state : forall B a t a' r,
  gen_inv B a -> tx_wf t -> Forall gmsg_ok (tx_msgs t) -> B + leaves_l (tx_msgs t) < two63 ->
  go_deliver_tx a t = (a', r) ->
  r <> TxOk ->
  a_wrk a' = a_wrk a /\ a_bcn a' = a_bcn a /\ a_str a' = a_str a /\
  a_grants a' = a_grants a /\ a_allow a' = a_allow a /\ a_now a' = a_now a /\
  ent_core (a_ent a') = ent_core (a_ent a) /\
  (is_registry_tx t = false -> module_state a' = module_state a).
Proof. exact gen_failed_tx_module_state. Qed.
Print Assumptions C14_generatedapp_failed_tx_module_state.

(* ---- CheckTx runs the generated ante chain only ---- *)
Theorem C14_generatedapp_check_tx_never_executes : forall B a t a' r,
  gen_inv B a -> tx_wf t -> Forall gmsg_ok (tx_msgs t) ->
  go_check_tx a t = (a', r) ->
  (r = TxOk -> go_ante true a t = Ok a') /\ (r <> TxOk -> a' = a).
Proof. exact gen_check_tx_never_executes. Qed.
Print Assumptions C14_generatedapp_check_tx_never_executes.

(* ---- the invariant every reachable state satisfies ---- *)
Theorem C14_generatedapp_app_inv_reachable : forall B g h n,
  gen_inv B g -> hist_wf (node_init g) h -> ghist_ok h -> B + hist_size h < two63 ->
  go_node_run (node_init g) h = Some n ->
  app_inv (n_committed n) /\ app_inv (n_check n) /\
  match n_deliver n with Some a => app_inv a | None => True end.
Proof. exact gen_app_inv_node_run. Qed.
Print Assumptions C14_generatedapp_app_inv_reachable.

Theorem C14_generatedapp_app_inv_deliver : forall B a t a' r,
  gen_inv B a -> tx_wf t -> Forall gmsg_ok (tx_msgs t) -> B + leaves_l (tx_msgs t) < two63 ->
  go_deliver_tx a t = (a', r) -> app_inv a'.
Proof. exact gen_app_inv_deliver. Qed.
Print Assumptions C14_generatedapp_app_inv_deliver.

Theorem C14_generatedapp_app_inv_check : forall B a t a' r,
  gen_inv B a -> tx_wf t -> Forall gmsg_ok (tx_msgs t) -> go_check_tx a t = (a', r) -> app_inv a'.
Proof. exact gen_app_inv_check. Qed.
Print Assumptions C14_generatedapp_app_inv_check.

Theorem C14_generatedapp_app_inv_begin : forall B a now a',
  gen_inv B a -> B < two63 ->
  a_now a <= now /\ time_storable now = true /\ 0 <= now /\ unix now < two63 ->
  go_begin_block a now = Some a' -> app_inv a'.
Proof. exact gen_app_inv_begin. Qed.
Print Assumptions C14_generatedapp_app_inv_begin.

Theorem C14_generatedapp_app_inv_end : forall a props,
  (forall ms m, In ms props -> In m ms ->
     exists u, m = MUpdParams GOV_MACC u /\
               match u with UEnt p => ep_denom p = ep_denom (e_params (a_ent a)) | _ => True end) ->
  app_inv a -> app_inv (go_end_block a props).
Proof. exact gen_app_inv_end. Qed.
Print Assumptions C14_generatedapp_app_inv_end.

(* ---- the block hooks of the generated node never panic ---- *)
Theorem C14_generatedapp_blockers_never_panic : forall B g h n,
  gen_inv B g -> hist_wf (node_init g) h -> ghist_ok h -> B + hist_size h < two63 ->
  go_node_run (node_init g) h = Some n ->
  forall o, op_wf n o -> gop_ok o -> B + hist_size h + op_size o < two63 ->
  match o with
  | OpBegin _ => n_deliver n = None
  | OpEnd _ | OpCommit => n_deliver n <> None
  | _ => False
  end ->
  go_node_step n o <> None.
Proof. exact gen_blockers_never_panic. Qed.
Print Assumptions C14_generatedapp_blockers_never_panic.

(* BeginBlock needs no phase condition: it reads the committed state only *)
Theorem C14_generatedapp_begin_never_panics : forall B g h n,
  gen_inv B g -> hist_wf (node_init g) h -> ghist_ok h -> B + hist_size h < two63 ->
  go_node_run (node_init g) h = Some n ->
  forall now, op_wf n (OpBegin now) -> go_node_step n (OpBegin now) <> None.
Proof. exact gen_begin_never_panics. Qed.
Print Assumptions C14_generatedapp_begin_never_panics.

(* the generated BeginBlock alone: for any state satisfying the invariant *)
Theorem C14_generatedapp_begin_block_total : forall B a now,
  gen_inv B a -> B < two63 ->
  a_now a <= now /\ time_storable now = true /\ 0 <= now /\ unix now < two63 ->
  go_begin_block a now <> None.
Proof. exact gen_begin_block_total. Qed.
Print Assumptions C14_generatedapp_begin_block_total.

(* a well-formed history whose operations come in block order never halts the generated node *)
Theorem C14_generatedapp_chain_never_halts : forall B n h,
  gnode_inv B n -> hist_wf n h -> ghist_ok h -> B + hist_size h < two63 ->
  phased (match n_deliver n with Some _ => true | None => false end) h ->
  go_node_run n h <> None.
Proof. exact gen_chain_never_halts. Qed.
Print Assumptions C14_generatedapp_chain_never_halts.
