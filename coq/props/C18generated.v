(* C18, link to the source: the store-key builders and parsers of /repo/x/{enterprise,wrkchain,beacon,stream}/types/keys.go
   and the prefix stores / callbacks of the stream list queries (/repo/x/stream/keeper/query_streams.go) as generated on
   every run (coq/GeneratedKeys.v, against the primitives of model/KeyPrims.v) are the byte-level model (model/Keys.v)
   about which C18 is proved (props/C18.v): constants, builders (on every id; on every address up to 255 bytes, a panic
   above), parsers (outcome for outcome, on every key, with the exact panic code).  Then C18 for the generated code:
   [go_ent_encode] / [go_wrk_encode] / [go_bcn_encode] / [go_str_encode] (proofs/GeneratedKeysEq.v) send each logical key
   to the Go function that builds its store key; [.. = Ok b] reads "the Go function returns the bytes b".
     injectivity and isolation, sections prefix-free, listing order = numeric order, queue-key and stream-key round
     trips, and for the three list queries "a stream listed by the chain is reported with exactly the sender and
     receiver it was created with".
   The lists of translated key functions, of the untranslated ones and of the list queries are pinned.
   FirstAddressFromStreamStoreKey: the generated (current) code is the model's fixed variant, not the [_legacy] one.
   Proofs: proofs/GeneratedKeysEq.v (hypotheses shown necessary there: gen_*_refuted). *)
From Coq Require Import NArith List Bool.
From MC Require Import lib.Prelude model.Keys model.KeyPrims GeneratedKeys proofs.KeysProofs proofs.GeneratedKeysEq.
Import ListNotations.
Local Open Scope N_scope.

(* ------------------------------------------------------------------ *)
(* the generated code is the model                                      *)
(* ------------------------------------------------------------------ *)

Theorem C18_generated_ent_constants :
  enterprise_HighestPurchaseOrderIDKey = ent_encode EkHighestPO /\
  enterprise_PurchaseOrderIDKeyPrefix = ent_prefix_po /\
  enterprise_LockedUndAddressKeyPrefix = ent_prefix_locked /\
  enterprise_WhitelistKeyPrefix = ent_prefix_whitelist /\
  enterprise_RaisedPoPrefix = ent_prefix_raised /\
  enterprise_AcceptedPoPrefix = ent_prefix_accepted /\
  enterprise_SpentEFUNDAddressKeyPrefix = ent_prefix_spent /\
  enterprise_ParamsKey = ent_encode EkParams /\
  enterprise_TotalSpentEFUNDKey = ent_encode EkTotalSpent /\
  enterprise_TotalLockedUndKey = ent_encode EkTotalLocked.
Proof. exact gen_ent_constants. Qed.
Print Assumptions C18_generated_ent_constants.

Theorem C18_generated_wrk_constants :
  wrkchain_HighestWrkChainIDKey = wrk_encode RkHighestId /\
  wrkchain_RegisteredWrkChainPrefix = wrk_prefix_regs /\
  wrkchain_RecordedWrkChainBlockHashPrefix = wrk_prefix_records_all /\
  wrkchain_WrkChainStorageLimitPrefix = wrk_prefix_limits /\
  wrkchain_ParamsKey = wrk_encode RkParams.
Proof. exact gen_wrk_constants. Qed.
Print Assumptions C18_generated_wrk_constants.

Theorem C18_generated_bcn_constants :
  beacon_HighestBeaconIDKey = bcn_encode RkHighestId /\
  beacon_RegisteredBeaconPrefix = bcn_prefix_regs /\
  beacon_RecordedBeaconTimestampPrefix = bcn_prefix_records_all /\
  beacon_BeaconStorageLimitPrefix = bcn_prefix_limits /\
  beacon_ParamsKey = bcn_encode RkParams.
Proof. exact gen_bcn_constants. Qed.
Print Assumptions C18_generated_bcn_constants.

Theorem C18_generated_str_constants :
  stream_ParamsKey = str_encode SkParams /\
  stream_StreamKeyPrefix = str_prefix_all.
Proof. exact gen_str_constants. Qed.
Print Assumptions C18_generated_str_constants.

(* every builder, on every input *)
Theorem C18_generated_ent_builders_are_model : forall k, go_ent_encode k = Ok (ent_encode k).
Proof. exact go_ent_encode_eq. Qed.
Print Assumptions C18_generated_ent_builders_are_model.

Theorem C18_generated_wrk_builders_are_model : forall k, go_wrk_encode k = Ok (wrk_encode k).
Proof. exact go_wrk_encode_eq. Qed.
Print Assumptions C18_generated_wrk_builders_are_model.

Theorem C18_generated_bcn_builders_are_model : forall k, go_bcn_encode k = Ok (bcn_encode k).
Proof. exact go_bcn_encode_eq. Qed.
Print Assumptions C18_generated_bcn_builders_are_model.

Theorem C18_generated_wrk_all_blocks_key_is_model : forall id,
  go_wrkchain_WrkChainAllBlocksKey id = Ok (wrk_prefix_records_of id).
Proof. exact gen_wrk_WrkChainAllBlocksKey_eq. Qed.
Print Assumptions C18_generated_wrk_all_blocks_key_is_model.

Theorem C18_generated_bcn_all_timestamps_key_is_model : forall id,
  go_beacon_BeaconAllTimestampsKey id = Ok (bcn_prefix_records_of id).
Proof. exact gen_bcn_BeaconAllTimestampsKey_eq. Qed.
Print Assumptions C18_generated_bcn_all_timestamps_key_is_model.

(* stream: MustLengthPrefix panics for an address above 255 bytes, on either side *)
Theorem C18_generated_str_builders_are_model : forall k,
  go_str_encode k =
  match k with
  | SkStream r s =>
      if ((255 <? List.length r) || (255 <? List.length s))%nat then Panic GO_PANIC_LENPREFIX else Ok (str_encode k)
  | SkParams => Ok (str_encode k)
  end.
Proof. exact go_str_encode_eq. Qed.
Print Assumptions C18_generated_str_builders_are_model.

Theorem C18_generated_str_builders_are_model_wf : forall k,
  wf_str_key k = true -> go_str_encode k = Ok (str_encode k).
Proof. exact go_str_encode_wf. Qed.
Print Assumptions C18_generated_str_builders_are_model_wf.

Theorem C18_generated_str_receiver_key_is_model : forall r,
  go_stream_GetStreamsByReceiverKey r =
  if (255 <? List.length r)%nat then Panic GO_PANIC_LENPREFIX else Ok (str_prefix_receiver r).
Proof. exact gen_str_GetStreamsByReceiverKey_eq. Qed.
Print Assumptions C18_generated_str_receiver_key_is_model.

(* every parser, on every key: Some v of the model is Ok v, None is the Go panic named *)
Theorem C18_generated_split_raised_is_model : forall key,
  go_enterprise_SplitRaisedQueueKey key = lift_split key.
Proof. exact gen_ent_SplitRaisedQueueKey_eq. Qed.
Print Assumptions C18_generated_split_raised_is_model.

Theorem C18_generated_split_accepted_is_model : forall key,
  go_enterprise_SplitAcceptedQueueKey key = lift_split key.
Proof. exact gen_ent_SplitAcceptedQueueKey_eq. Qed.
Print Assumptions C18_generated_split_accepted_is_model.

Theorem C18_generated_addresses_from_stream_key_is_model : forall key,
  go_stream_AddressesFromStreamKey key = lift_opt GO_PANIC_KEYLEN (addresses_from_stream_key key).
Proof. exact gen_str_AddressesFromStreamKey_eq. Qed.
Print Assumptions C18_generated_addresses_from_stream_key_is_model.

(* the current code, not the code before the fix (first_address_from_stream_store_key_legacy) *)
Theorem C18_generated_first_address_is_model : forall key,
  go_stream_FirstAddressFromStreamStoreKey key =
  lift_opt GO_PANIC_INDEX (first_address_from_stream_store_key key).
Proof. exact gen_str_FirstAddressFromStreamStoreKey_eq. Qed.
Print Assumptions C18_generated_first_address_is_model.

Theorem C18_generated_first_address_is_not_legacy :
  let key := 255 :: repeat 7 255 in
  go_stream_FirstAddressFromStreamStoreKey key = Ok (repeat 7 255) /\
  first_address_from_stream_store_key key = Some (repeat 7 255) /\
  first_address_from_stream_store_key_legacy key = None.
Proof. exact gen_FirstAddress_is_not_legacy. Qed.
Print Assumptions C18_generated_first_address_is_not_legacy.

(* ------------------------------------------------------------------ *)
(* injectivity: two logical keys built to the same bytes are equal      *)
(* ------------------------------------------------------------------ *)

Theorem C18_generated_ent_injective : forall k1 k2 b,
  wf_ent_key k1 = true -> wf_ent_key k2 = true ->
  go_ent_encode k1 = Ok b -> go_ent_encode k2 = Ok b -> k1 = k2.
Proof. exact gen_ent_injective. Qed.
Print Assumptions C18_generated_ent_injective.

Theorem C18_generated_wrk_injective : forall k1 k2 b,
  wf_reg_key k1 = true -> wf_reg_key k2 = true ->
  go_wrk_encode k1 = Ok b -> go_wrk_encode k2 = Ok b -> k1 = k2.
Proof. exact gen_wrk_injective. Qed.
Print Assumptions C18_generated_wrk_injective.

Theorem C18_generated_bcn_injective : forall k1 k2 b,
  wf_reg_key k1 = true -> wf_reg_key k2 = true ->
  go_bcn_encode k1 = Ok b -> go_bcn_encode k2 = Ok b -> k1 = k2.
Proof. exact gen_bcn_injective. Qed.
Print Assumptions C18_generated_bcn_injective.

Theorem C18_generated_str_injective : forall k1 k2 b,
  wf_str_key k1 = true -> wf_str_key k2 = true ->
  go_str_encode k1 = Ok b -> go_str_encode k2 = Ok b -> k1 = k2.
Proof. exact gen_str_injective. Qed.
Print Assumptions C18_generated_str_injective.

(* a write or delete never changes what is read for another entity *)
Theorem C18_generated_ent_isolated : forall (V : Type) (st : kv V) k1 k2 b1 b2 v,
  wf_ent_key k1 = true -> wf_ent_key k2 = true -> k1 <> k2 ->
  go_ent_encode k1 = Ok b1 -> go_ent_encode k2 = Ok b2 ->
  kv_get (kv_set st b1 v) b2 = kv_get st b2 /\ kv_get (kv_del st b1) b2 = kv_get st b2.
Proof. exact gen_ent_isolated. Qed.
Print Assumptions C18_generated_ent_isolated.

Theorem C18_generated_wrk_isolated : forall (V : Type) (st : kv V) k1 k2 b1 b2 v,
  wf_reg_key k1 = true -> wf_reg_key k2 = true -> k1 <> k2 ->
  go_wrk_encode k1 = Ok b1 -> go_wrk_encode k2 = Ok b2 ->
  kv_get (kv_set st b1 v) b2 = kv_get st b2 /\ kv_get (kv_del st b1) b2 = kv_get st b2.
Proof. exact gen_wrk_isolated. Qed.
Print Assumptions C18_generated_wrk_isolated.

Theorem C18_generated_bcn_isolated : forall (V : Type) (st : kv V) k1 k2 b1 b2 v,
  wf_reg_key k1 = true -> wf_reg_key k2 = true -> k1 <> k2 ->
  go_bcn_encode k1 = Ok b1 -> go_bcn_encode k2 = Ok b2 ->
  kv_get (kv_set st b1 v) b2 = kv_get st b2 /\ kv_get (kv_del st b1) b2 = kv_get st b2.
Proof. exact gen_bcn_isolated. Qed.
Print Assumptions C18_generated_bcn_isolated.

Theorem C18_generated_str_isolated : forall (V : Type) (st : kv V) k1 k2 b1 b2 v,
  wf_str_key k1 = true -> wf_str_key k2 = true -> k1 <> k2 ->
  go_str_encode k1 = Ok b1 -> go_str_encode k2 = Ok b2 ->
  kv_get (kv_set st b1 v) b2 = kv_get st b2 /\ kv_get (kv_del st b1) b2 = kv_get st b2.
Proof. exact gen_str_isolated. Qed.
Print Assumptions C18_generated_str_isolated.

(* ------------------------------------------------------------------ *)
(* iteration ranges are exact (sections are prefix-free)                *)
(* ------------------------------------------------------------------ *)

Theorem C18_generated_ent_range_po : forall k b, go_ent_encode k = Ok b ->
  (is_prefix enterprise_PurchaseOrderIDKeyPrefix b = true <-> exists id, k = EkPO id).
Proof. exact gen_ent_range_po. Qed.
Print Assumptions C18_generated_ent_range_po.

Theorem C18_generated_ent_range_locked : forall k b, go_ent_encode k = Ok b ->
  (is_prefix enterprise_LockedUndAddressKeyPrefix b = true <-> exists a, k = EkLocked a).
Proof. exact gen_ent_range_locked. Qed.
Print Assumptions C18_generated_ent_range_locked.

Theorem C18_generated_ent_range_whitelist : forall k b, go_ent_encode k = Ok b ->
  (is_prefix enterprise_WhitelistKeyPrefix b = true <-> exists a, k = EkWhitelist a).
Proof. exact gen_ent_range_whitelist. Qed.
Print Assumptions C18_generated_ent_range_whitelist.

Theorem C18_generated_ent_range_raised : forall k b, go_ent_encode k = Ok b ->
  (is_prefix enterprise_RaisedPoPrefix b = true <-> exists id, k = EkRaised id).
Proof. exact gen_ent_range_raised. Qed.
Print Assumptions C18_generated_ent_range_raised.

Theorem C18_generated_ent_range_accepted : forall k b, go_ent_encode k = Ok b ->
  (is_prefix enterprise_AcceptedPoPrefix b = true <-> exists id, k = EkAccepted id).
Proof. exact gen_ent_range_accepted. Qed.
Print Assumptions C18_generated_ent_range_accepted.

Theorem C18_generated_ent_range_spent : forall k b, go_ent_encode k = Ok b ->
  (is_prefix enterprise_SpentEFUNDAddressKeyPrefix b = true <-> exists a, k = EkSpent a).
Proof. exact gen_ent_range_spent. Qed.
Print Assumptions C18_generated_ent_range_spent.

Theorem C18_generated_ent_singletons_in_no_range : forall k P b,
  In k [EkHighestPO; EkParams; EkTotalSpent; EkTotalLocked] ->
  In P [enterprise_PurchaseOrderIDKeyPrefix; enterprise_LockedUndAddressKeyPrefix; enterprise_WhitelistKeyPrefix;
        enterprise_RaisedPoPrefix; enterprise_AcceptedPoPrefix; enterprise_SpentEFUNDAddressKeyPrefix] ->
  go_ent_encode k = Ok b -> is_prefix P b = false.
Proof. exact gen_ent_singletons_in_no_range. Qed.
Print Assumptions C18_generated_ent_singletons_in_no_range.

Theorem C18_generated_wrk_range_regs : forall k b, go_wrk_encode k = Ok b ->
  (is_prefix wrkchain_RegisteredWrkChainPrefix b = true <-> exists id, k = RkReg id).
Proof. exact gen_wrk_range_regs. Qed.
Print Assumptions C18_generated_wrk_range_regs.

Theorem C18_generated_wrk_range_records_all : forall k b, go_wrk_encode k = Ok b ->
  (is_prefix wrkchain_RecordedWrkChainBlockHashPrefix b = true <-> exists id h, k = RkRecord id h).
Proof. exact gen_wrk_range_records_all. Qed.
Print Assumptions C18_generated_wrk_range_records_all.

(* the blocks of one wrkchain: the prefix WrkChainAllBlocksKey(id) selects exactly the records of id *)
Theorem C18_generated_wrk_range_records_of : forall id k p b, wf_id id = true -> wf_reg_key k = true ->
  go_wrkchain_WrkChainAllBlocksKey id = Ok p -> go_wrk_encode k = Ok b ->
  (is_prefix p b = true <-> exists h, k = RkRecord id h).
Proof. exact gen_wrk_range_records_of. Qed.
Print Assumptions C18_generated_wrk_range_records_of.

Theorem C18_generated_wrk_range_limits : forall k b, go_wrk_encode k = Ok b ->
  (is_prefix wrkchain_WrkChainStorageLimitPrefix b = true <-> exists id, k = RkLimit id).
Proof. exact gen_wrk_range_limits. Qed.
Print Assumptions C18_generated_wrk_range_limits.

Theorem C18_generated_wrk_singletons_in_no_range : forall k id P p b,
  In k [RkHighestId; RkParams] ->
  go_wrkchain_WrkChainAllBlocksKey id = Ok p ->
  In P [wrkchain_RegisteredWrkChainPrefix; wrkchain_RecordedWrkChainBlockHashPrefix; p;
        wrkchain_WrkChainStorageLimitPrefix] ->
  go_wrk_encode k = Ok b -> is_prefix P b = false.
Proof. exact gen_wrk_singletons_in_no_range. Qed.
Print Assumptions C18_generated_wrk_singletons_in_no_range.

Theorem C18_generated_bcn_range_regs : forall k b, go_bcn_encode k = Ok b ->
  (is_prefix beacon_RegisteredBeaconPrefix b = true <-> exists id, k = RkReg id).
Proof. exact gen_bcn_range_regs. Qed.
Print Assumptions C18_generated_bcn_range_regs.

Theorem C18_generated_bcn_range_records_all : forall k b, go_bcn_encode k = Ok b ->
  (is_prefix beacon_RecordedBeaconTimestampPrefix b = true <-> exists id h, k = RkRecord id h).
Proof. exact gen_bcn_range_records_all. Qed.
Print Assumptions C18_generated_bcn_range_records_all.

Theorem C18_generated_bcn_range_records_of : forall id k p b, wf_id id = true -> wf_reg_key k = true ->
  go_beacon_BeaconAllTimestampsKey id = Ok p -> go_bcn_encode k = Ok b ->
  (is_prefix p b = true <-> exists h, k = RkRecord id h).
Proof. exact gen_bcn_range_records_of. Qed.
Print Assumptions C18_generated_bcn_range_records_of.

Theorem C18_generated_bcn_range_limits : forall k b, go_bcn_encode k = Ok b ->
  (is_prefix beacon_BeaconStorageLimitPrefix b = true <-> exists id, k = RkLimit id).
Proof. exact gen_bcn_range_limits. Qed.
Print Assumptions C18_generated_bcn_range_limits.

Theorem C18_generated_bcn_singletons_in_no_range : forall k id P p b,
  In k [RkHighestId; RkParams] ->
  go_beacon_BeaconAllTimestampsKey id = Ok p ->
  In P [beacon_RegisteredBeaconPrefix; beacon_RecordedBeaconTimestampPrefix; p;
        beacon_BeaconStorageLimitPrefix] ->
  go_bcn_encode k = Ok b -> is_prefix P b = false.
Proof. exact gen_bcn_singletons_in_no_range. Qed.
Print Assumptions C18_generated_bcn_singletons_in_no_range.

Theorem C18_generated_str_range_all : forall k b, go_str_encode k = Ok b ->
  (is_prefix stream_StreamKeyPrefix b = true <-> exists r s, k = SkStream r s).
Proof. exact gen_str_range_all. Qed.
Print Assumptions C18_generated_str_range_all.

(* the streams of one receiver: the prefix GetStreamsByReceiverKey(r) selects exactly r's streams *)
Theorem C18_generated_str_range_receiver : forall r k p b, wf_addr r = true -> wf_str_key k = true ->
  go_stream_GetStreamsByReceiverKey r = Ok p -> go_str_encode k = Ok b ->
  (is_prefix p b = true <-> exists s, k = SkStream r s).
Proof. exact gen_str_range_receiver. Qed.
Print Assumptions C18_generated_str_range_receiver.

Theorem C18_generated_str_params_in_no_range : forall r p, go_stream_GetStreamsByReceiverKey r = Ok p ->
  is_prefix stream_StreamKeyPrefix stream_ParamsKey = false /\ is_prefix p stream_ParamsKey = false.
Proof. exact gen_str_params_in_no_range. Qed.
Print Assumptions C18_generated_str_params_in_no_range.

(* ------------------------------------------------------------------ *)
(* listing order = ascending numeric order                              *)
(* ------------------------------------------------------------------ *)

Theorem C18_generated_ent_order_po : forall a b ka kb, wf_id a = true -> wf_id b = true ->
  go_enterprise_PurchaseOrderKey a = Ok ka -> go_enterprise_PurchaseOrderKey b = Ok kb ->
  (lex_lt ka kb = true <-> a < b).
Proof. exact gen_ent_order_po. Qed.
Print Assumptions C18_generated_ent_order_po.

Theorem C18_generated_ent_order_raised : forall a b ka kb, wf_id a = true -> wf_id b = true ->
  go_enterprise_RaisedQueueStoreKey a = Ok ka -> go_enterprise_RaisedQueueStoreKey b = Ok kb ->
  (lex_lt ka kb = true <-> a < b).
Proof. exact gen_ent_order_raised. Qed.
Print Assumptions C18_generated_ent_order_raised.

Theorem C18_generated_ent_order_accepted : forall a b ka kb, wf_id a = true -> wf_id b = true ->
  go_enterprise_AcceptedQueueStoreKey a = Ok ka -> go_enterprise_AcceptedQueueStoreKey b = Ok kb ->
  (lex_lt ka kb = true <-> a < b).
Proof. exact gen_ent_order_accepted. Qed.
Print Assumptions C18_generated_ent_order_accepted.

Theorem C18_generated_wrk_order_reg : forall a b ka kb, wf_id a = true -> wf_id b = true ->
  go_wrkchain_WrkChainKey a = Ok ka -> go_wrkchain_WrkChainKey b = Ok kb ->
  (lex_lt ka kb = true <-> a < b).
Proof. exact gen_wrk_order_reg. Qed.
Print Assumptions C18_generated_wrk_order_reg.

Theorem C18_generated_wrk_order_limit : forall a b ka kb, wf_id a = true -> wf_id b = true ->
  go_wrkchain_WrkChainStorageLimitKey a = Ok ka -> go_wrkchain_WrkChainStorageLimitKey b = Ok kb ->
  (lex_lt ka kb = true <-> a < b).
Proof. exact gen_wrk_order_limit. Qed.
Print Assumptions C18_generated_wrk_order_limit.

Theorem C18_generated_wrk_order_record : forall i1 h1 i2 h2 k1 k2,
  wf_id i1 = true -> wf_id h1 = true -> wf_id i2 = true -> wf_id h2 = true ->
  go_wrkchain_WrkChainBlockKey i1 h1 = Ok k1 -> go_wrkchain_WrkChainBlockKey i2 h2 = Ok k2 ->
  (lex_lt k1 k2 = true <-> i1 < i2 \/ (i1 = i2 /\ h1 < h2)).
Proof. exact gen_wrk_order_record. Qed.
Print Assumptions C18_generated_wrk_order_record.

Theorem C18_generated_wrk_order_record_same_id : forall i h1 h2 k1 k2,
  wf_id i = true -> wf_id h1 = true -> wf_id h2 = true ->
  go_wrkchain_WrkChainBlockKey i h1 = Ok k1 -> go_wrkchain_WrkChainBlockKey i h2 = Ok k2 ->
  (lex_lt k1 k2 = true <-> h1 < h2).
Proof. exact gen_wrk_order_record_same_id. Qed.
Print Assumptions C18_generated_wrk_order_record_same_id.

Theorem C18_generated_bcn_order_reg : forall a b ka kb, wf_id a = true -> wf_id b = true ->
  go_beacon_BeaconKey a = Ok ka -> go_beacon_BeaconKey b = Ok kb ->
  (lex_lt ka kb = true <-> a < b).
Proof. exact gen_bcn_order_reg. Qed.
Print Assumptions C18_generated_bcn_order_reg.

Theorem C18_generated_bcn_order_limit : forall a b ka kb, wf_id a = true -> wf_id b = true ->
  go_beacon_BeaconStorageLimitKey a = Ok ka -> go_beacon_BeaconStorageLimitKey b = Ok kb ->
  (lex_lt ka kb = true <-> a < b).
Proof. exact gen_bcn_order_limit. Qed.
Print Assumptions C18_generated_bcn_order_limit.

Theorem C18_generated_bcn_order_record : forall i1 t1 i2 t2 k1 k2,
  wf_id i1 = true -> wf_id t1 = true -> wf_id i2 = true -> wf_id t2 = true ->
  go_beacon_BeaconTimestampKey i1 t1 = Ok k1 -> go_beacon_BeaconTimestampKey i2 t2 = Ok k2 ->
  (lex_lt k1 k2 = true <-> i1 < i2 \/ (i1 = i2 /\ t1 < t2)).
Proof. exact gen_bcn_order_record. Qed.
Print Assumptions C18_generated_bcn_order_record.

Theorem C18_generated_bcn_order_record_same_id : forall i t1 t2 k1 k2,
  wf_id i = true -> wf_id t1 = true -> wf_id t2 = true ->
  go_beacon_BeaconTimestampKey i t1 = Ok k1 -> go_beacon_BeaconTimestampKey i t2 = Ok k2 ->
  (lex_lt k1 k2 = true <-> t1 < t2).
Proof. exact gen_bcn_order_record_same_id. Qed.
Print Assumptions C18_generated_bcn_order_record_same_id.

(* ------------------------------------------------------------------ *)
(* round trips of the generated functions                               *)
(* ------------------------------------------------------------------ *)

(* the ABCI blocker recovers the purchase-order id from a queue key *)
Theorem C18_generated_ent_split_raised : forall id k, wf_id id = true ->
  go_enterprise_RaisedQueueStoreKey id = Ok k -> go_enterprise_SplitRaisedQueueKey k = Ok id.
Proof. exact gen_ent_split_raised. Qed.
Print Assumptions C18_generated_ent_split_raised.

Theorem C18_generated_ent_split_accepted : forall id k, wf_id id = true ->
  go_enterprise_AcceptedQueueStoreKey id = Ok k -> go_enterprise_SplitAcceptedQueueKey k = Ok id.
Proof. exact gen_ent_split_accepted. Qed.
Print Assumptions C18_generated_ent_split_accepted.

Theorem C18_generated_ent_id_roundtrip : forall id, id < 2 ^ 64 ->
  (do b <- go_enterprise_GetPurchaseOrderIDBytes id; go_enterprise_GetPurchaseOrderIDFromBytes b) = Ok id.
Proof. exact gen_ent_id_roundtrip. Qed.
Print Assumptions C18_generated_ent_id_roundtrip.

Theorem C18_generated_wrk_id_roundtrip : forall id, id < 2 ^ 64 ->
  (do b <- go_wrkchain_GetWrkChainIDBytes id; go_wrkchain_GetWrkChainIDFromBytes b) = Ok id.
Proof. exact gen_wrk_id_roundtrip. Qed.
Print Assumptions C18_generated_wrk_id_roundtrip.

Theorem C18_generated_bcn_id_roundtrip : forall id, id < 2 ^ 64 ->
  (do b <- go_beacon_GetBeaconIDBytes id; go_beacon_GetBeaconIDFromBytes b) = Ok id.
Proof. exact gen_bcn_id_roundtrip. Qed.
Print Assumptions C18_generated_bcn_id_roundtrip.

Theorem C18_generated_bcn_timestamp_id_roundtrip : forall id, id < 2 ^ 64 ->
  (do b <- go_beacon_GetTimestampIDBytes id; go_beacon_GetTimestampIDFromBytes b) = Ok id.
Proof. exact gen_bcn_timestamp_id_roundtrip. Qed.
Print Assumptions C18_generated_bcn_timestamp_id_roundtrip.

(* IterateAllStreams (export, invariants): AddressesFromStreamKey(GetStreamKey(r, s)) = (r, s) *)
Theorem C18_generated_str_roundtrip : forall r s, wf_addr r = true -> wf_addr s = true ->
  exists k, go_stream_GetStreamKey r s = Ok k /\ go_stream_AddressesFromStreamKey k = Ok (r, s).
Proof. exact gen_str_roundtrip_wf. Qed.
Print Assumptions C18_generated_str_roundtrip.

(* ... for every non-empty address up to 255 bytes, whatever its entries *)
Theorem C18_generated_str_roundtrip_lengths : forall r s,
  (1 <= List.length r <= 255)%nat -> (1 <= List.length s <= 255)%nat ->
  (do k <- go_stream_GetStreamKey r s; go_stream_AddressesFromStreamKey k) = Ok (r, s).
Proof. exact gen_str_roundtrip. Qed.
Print Assumptions C18_generated_str_roundtrip_lengths.

(* ------------------------------------------------------------------ *)
(* the list queries: a stream listed by the chain is reported with      *)
(* exactly the sender and receiver it was created with                  *)
(* ------------------------------------------------------------------ *)

(* the callbacks are the model's readers of a store key (model/Keys.v), on every store key k *)
Theorem C18_generated_streams_callback_is_model : forall k,
  go_stream_Streams_callback (strip_prefix str_prefix_all k) =
  lift_hit GO_PANIC_KEYLEN (streams_query_addresses k).
Proof. exact gen_str_Streams_callback_eq. Qed.
Print Assumptions C18_generated_streams_callback_is_model.

Theorem C18_generated_sender_callback_is_model : forall sender k,
  go_stream_AllStreamsForSender_callback sender (strip_prefix str_prefix_all k) =
  sender_filter sender (streams_query_addresses k).
Proof. exact gen_str_AllStreamsForSender_callback_eq. Qed.
Print Assumptions C18_generated_sender_callback_is_model.

Theorem C18_generated_receiver_callback_is_model : forall r k,
  go_stream_AllStreamsForReceiver_callback r (strip_prefix (str_prefix_receiver r) k) =
  match receiver_query_sender r k with Some s => Ok (Some (r, s)) | None => Panic GO_PANIC_INDEX end.
Proof. exact gen_str_AllStreamsForReceiver_callback_eq. Qed.
Print Assumptions C18_generated_receiver_callback_is_model.

Theorem C18_generated_list_query_prefixes_are_model :
  go_stream_Streams_prefix = Ok str_prefix_all /\
  go_stream_AllStreamsForSender_prefix = Ok str_prefix_all /\
  forall r, go_stream_AllStreamsForReceiver_prefix r =
            if (255 <? List.length r)%nat then Panic GO_PANIC_LENPREFIX else Ok (str_prefix_receiver r).
Proof. exact gen_str_list_query_prefixes. Qed.
Print Assumptions C18_generated_list_query_prefixes_are_model.

(* Streams: the key of the stream (r, s) lies in the query's prefix store and is reported as (r, s) *)
Theorem C18_generated_streams_query_reports : forall r s, wf_addr r = true -> wf_addr s = true ->
  exists k p, go_stream_GetStreamKey r s = Ok k /\ go_stream_Streams_prefix = Ok p /\
    is_prefix p k = true /\
    go_stream_Streams_callback (strip_prefix p k) = Ok (Some (r, s)).
Proof. exact gen_str_Streams_reports. Qed.
Print Assumptions C18_generated_streams_query_reports.

(* AllStreamsForSender: reported as (r, s) to who asks for sender s, not reported to who asks for another sender *)
Theorem C18_generated_sender_query_reports : forall r s, wf_addr r = true -> wf_addr s = true ->
  exists k p, go_stream_GetStreamKey r s = Ok k /\ go_stream_AllStreamsForSender_prefix = Ok p /\
    is_prefix p k = true /\
    go_stream_AllStreamsForSender_callback s (strip_prefix p k) = Ok (Some (r, s)) /\
    (forall s', s' <> s -> go_stream_AllStreamsForSender_callback s' (strip_prefix p k) = Ok None).
Proof. exact gen_str_AllStreamsForSender_reports. Qed.
Print Assumptions C18_generated_sender_query_reports.

(* AllStreamsForReceiver: in the prefix store of r, reported as (r, s) -- every legal sender, 1..255 bytes *)
Theorem C18_generated_receiver_query_reports : forall r s, wf_addr r = true -> wf_addr s = true ->
  exists k p, go_stream_GetStreamKey r s = Ok k /\ go_stream_AllStreamsForReceiver_prefix r = Ok p /\
    is_prefix p k = true /\
    go_stream_AllStreamsForReceiver_callback r (strip_prefix p k) = Ok (Some (r, s)).
Proof. exact gen_str_AllStreamsForReceiver_reports. Qed.
Print Assumptions C18_generated_receiver_query_reports.

(* ... and the prefix store of r holds no stream of another receiver *)
Theorem C18_generated_receiver_query_only_own : forall r r' s p k,
  wf_addr r = true -> wf_addr r' = true -> wf_addr s = true -> r' <> r ->
  go_stream_AllStreamsForReceiver_prefix r = Ok p -> go_stream_GetStreamKey r' s = Ok k ->
  is_prefix p k = false.
Proof. exact gen_str_AllStreamsForReceiver_only_own. Qed.
Print Assumptions C18_generated_receiver_query_only_own.

(* ------------------------------------------------------------------ *)
(* what was translated: a new key function or list query, or one the    *)
(* translator cannot translate any more, breaks this                    *)
(* ------------------------------------------------------------------ *)

Theorem C18_generated_key_functions_pinned :
  enterprise_key_functions =
    ["AcceptedQueueStoreKey"; "GetPurchaseOrderIDBytes"; "GetPurchaseOrderIDFromBytes"; "LockedUndAddressStoreKey";
     "PurchaseOrderKey"; "RaisedQueueStoreKey"; "SpentEFUNDAddressStoreKey"; "SplitAcceptedQueueKey";
     "SplitRaisedQueueKey"; "WhitelistAddressStoreKey"]%string /\
  wrkchain_key_functions =
    ["GetWrkChainIDBytes"; "GetWrkChainIDFromBytes"; "WrkChainAllBlocksKey"; "WrkChainBlockKey"; "WrkChainKey";
     "WrkChainStorageLimitKey"]%string /\
  beacon_key_functions =
    ["BeaconAllTimestampsKey"; "BeaconKey"; "BeaconStorageLimitKey"; "BeaconTimestampKey"; "GetBeaconIDBytes";
     "GetBeaconIDFromBytes"; "GetTimestampIDBytes"; "GetTimestampIDFromBytes"]%string /\
  stream_key_functions =
    ["AddressesFromStreamKey"; "FirstAddressFromStreamStoreKey"; "GetStreamKey"; "GetStreamsByReceiverKey"]%string /\
  key_functions_not_translated = ["stream.KeyPrefix"]%string /\
  stream_list_queries = ["Streams"; "AllStreamsForSender"; "AllStreamsForReceiver"]%string.
Proof. exact gen_key_functions_pinned. Qed.
Print Assumptions C18_generated_key_functions_pinned.

(* ------------------------------------------------------------------ *)
(* the generated functions on boundary values: id 0 and 2^64-1, a      *)
(* 32-byte and a 255-byte address                                       *)
(* ------------------------------------------------------------------ *)

Example ex_generated_keys_bounds :
  go_enterprise_PurchaseOrderKey 0 = Ok [1; 0; 0; 0; 0; 0; 0; 0; 0] /\
  go_enterprise_PurchaseOrderKey (2 ^ 64 - 1) = Ok [1; 255; 255; 255; 255; 255; 255; 255; 255] /\
  go_enterprise_RaisedQueueStoreKey 0x0102030405060708 = Ok [4; 1; 2; 3; 4; 5; 6; 7; 8] /\
  (do k <- go_enterprise_RaisedQueueStoreKey (2 ^ 64 - 1); go_enterprise_SplitRaisedQueueKey k) = Ok (2 ^ 64 - 1) /\
  (do k <- go_enterprise_AcceptedQueueStoreKey 0; go_enterprise_SplitAcceptedQueueKey k) = Ok 0 /\
  go_enterprise_SplitRaisedQueueKey [] = Panic GO_PANIC_INDEX /\
  go_enterprise_SplitRaisedQueueKey [4; 0; 0; 0; 0; 0; 0; 1] = Panic GO_PANIC_EXPLICIT /\
  go_enterprise_LockedUndAddressStoreKey (repeat 0xAB 32) = Ok (2 :: repeat 0xAB 32) /\
  go_wrkchain_WrkChainBlockKey 0 (2 ^ 64 - 1) = Ok [2; 0; 0; 0; 0; 0; 0; 0; 0; 255; 255; 255; 255; 255; 255; 255; 255] /\
  go_wrkchain_WrkChainBlockKey (2 ^ 64 - 1) 0 = Ok [2; 255; 255; 255; 255; 255; 255; 255; 255; 0; 0; 0; 0; 0; 0; 0; 0] /\
  go_beacon_BeaconTimestampKey 1 256 = Ok [2; 0; 0; 0; 0; 0; 0; 0; 1; 0; 0; 0; 0; 0; 0; 1; 0] /\
  go_wrkchain_WrkChainStorageLimitKey 255 = Ok [3; 0; 0; 0; 0; 0; 0; 0; 255] /\
  go_stream_GetStreamKey (repeat 0x11 32) (repeat 0x22 20) = Ok (17 :: 32 :: repeat 0x11 32 ++ 20 :: repeat 0x22 20) /\
  (do k <- go_stream_GetStreamKey (repeat 0x11 32) (repeat 0xFF 255); go_stream_AddressesFromStreamKey k)
    = Ok (repeat 0x11 32, repeat 0xFF 255) /\
  (do k <- go_stream_GetStreamKey (repeat 0x11 32) (repeat 0xFF 255);
   go_stream_AllStreamsForReceiver_callback (repeat 0x11 32) (strip_prefix (str_prefix_receiver (repeat 0x11 32)) k))
    = Ok (Some (repeat 0x11 32, repeat 0xFF 255)) /\
  (do k <- go_stream_GetStreamKey (repeat 0x11 32) (repeat 0x22 32);
   go_stream_AllStreamsForSender_callback (repeat 0x22 32) (strip_prefix str_prefix_all k))
    = Ok (Some (repeat 0x11 32, repeat 0x22 32)) /\
  (do k <- go_stream_GetStreamKey (repeat 0x11 32) (repeat 0x22 32);
   go_stream_AllStreamsForSender_callback (repeat 0x23 32) (strip_prefix str_prefix_all k)) = Ok None /\
  go_stream_GetStreamKey (repeat 0x11 256) (repeat 0x22 32) = Panic GO_PANIC_LENPREFIX /\
  go_stream_AddressesFromStreamKey [17; 2; 7] = Panic GO_PANIC_KEYLEN.
Proof. vm_compute. repeat split. Qed.
