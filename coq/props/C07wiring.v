(* Source-derived obligations of C07wiring: facts read from /repo by the translator on every run (coq/Generated.v), re-checked here. *)
From Coq Require Import List String ZArith.
From MC Require Import lib.Reach Generated proofs.Wiring.
Import ListNotations.
Open Scope string_scope.

Theorem C07_size_limits : ltac:(let T := type of wiring_size_limits in exact T).
Proof. exact wiring_size_limits. Qed.
Print Assumptions C07_size_limits.
