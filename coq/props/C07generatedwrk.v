(* C07, link to the source: the WRKChain record path of /repo/x/wrkchain/keeper/{record,msg_server}.go as generated on every
   run (coq/GeneratedWrkchainKeeper.v) is the registry model (model/Registry.v, heighted = true) about which C07 is
   proved (props/C07.v): same stored records, same pruning, same height check, same errors.
   Proofs: proofs/GeneratedWrkchainEq.v.  [wrk_msg_exec] (model/WrkchainGenSpec.v) is the generated message server
   driven by the model's message type; [wrk_step] / [wrk_run] (proofs/GeneratedWrkchainEq.v) are [reg_step true] /
   [reg_run true] executing it; [reg_counters_small] / [wrk_bounded B] say that the uint64 counters have room. *)
From MC Require Import lib.Prelude lib.AMap lib.GoSdk GeneratedWrkchainTypes model.Bank model.Registry model.RegistrySpec
  model.WrkchainKeeperPrims GeneratedWrkchainKeeper model.WrkchainGenSpec.
From MC Require Import proofs.RegistryProofs proofs.GeneratedWrkchainEq.
Local Open Scope string_scope.
Local Open Scope Z_scope.

Theorem C07_generated_wrk_record_is_model : forall w id rg height h0 h1 h2 h3 h4,
  aget id (r_regs (rw_reg w)) = Some rg -> rg_id rg = id ->
  0 <= Time_Unix (rw_now w) < two64 -> 0 <= rg_num rg < two64 - 1 ->
  go_RecordNewWrkchainHashes w id height h0 h1 h2 h3 h4 =
    let '(s', _, pruned) := record_new true (Time_Unix (rw_now w)) (rw_reg w) rg height [h0; h1; h2; h3; h4] in
    Ok (with_reg w s', pruned).
Proof. exact gen_wrk_RecordNewWrkchainHashes_eq. Qed.
Print Assumptions C07_generated_wrk_record_is_model.

Theorem C07_generated_wrk_height_check : forall w id height,
  go_QuickCheckHeightIsNew w id height =
    Ok (match aget id (r_regs (rw_reg w)) with Some rg => rg_last rg <? height | None => 0 <? height end).
Proof. exact gen_wrk_QuickCheckHeightIsNew_eq. Qed.
Print Assumptions C07_generated_wrk_height_check.

Theorem C07_generated_wrk_exec_is_model : forall now wall s g m,
  reg_inv true s g -> reg_counters_small s -> reg_msg_wf m ->
  (forall o id key hashes, m = RRecord o id key hashes -> List.length hashes = 5%nat) ->
  0 <= now / NSEC < two63 ->
  wrk_msg_exec (mk_rworld now wall s) m = rlift (mk_rworld now wall s) (reg_exec true (now / NSEC) s m).
Proof. exact gen_wrk_msg_exec_eq. Qed.
Print Assumptions C07_generated_wrk_exec_is_model.

Theorem C07_generated_wrk_run_is_model : forall wall h s g B,
  reg_inv true s g -> wrk_bounded B s -> B + Z.of_nat (List.length h) < two64 -> wrk_hist_ok h ->
  wrk_run wall (s, g) h = reg_run true (s, g) h.
Proof. exact gen_wrk_run_eq. Qed.
Print Assumptions C07_generated_wrk_run_is_model.

(* examples: genesis with first id 1, default limit 2, maximum 10; [ex_history] registers a WRKChain (owner 7) and
   records heights 10, 20, 30: the third record prunes height 10 *)
Example C07_generated_wrk_run_ex :
  wrk_run 0 (reg_init ex_params 1, ghost_init) ex_history = reg_run true (reg_init ex_params 1, ghost_init) ex_history /\
  keys_of 1 (r_recs (fst (wrk_run 0 (reg_init ex_params 1, ghost_init) ex_history))) = [20; 30] /\
  map fst (log_of (snd (wrk_run 0 (reg_init ex_params 1, ghost_init) ex_history)) 1) = [10; 20; 30].
Proof. vm_compute. auto. Qed.

(* the keeper function itself: recording height 30 when heights 10 and 20 fill the limit of 2 returns the pruned height *)
Example C07_generated_wrk_record_prunes_ex :
  exists w w',
    w = mk_rworld (1700000030 * NSEC) 0 (fst (wrk_run 0 (reg_init ex_params 1, ghost_init) (firstn 3 ex_history))) /\
    go_RecordNewWrkchainHashes w 1 30 "c" "p" "1" "2" "3" = Ok (w', 10) /\
    keys_of 1 (r_recs (rw_reg w')) = [20; 30].
Proof. eexists. eexists. split; [reflexivity|]. split; vm_compute; reflexivity. Qed.

(* a height that is not above the last one is refused; so is anyone but the owner; so is an unknown WRKChain *)
Example C07_generated_wrk_rejected_ex :
  let w := mk_rworld (1700000040 * NSEC) 0 (fst (wrk_run 0 (reg_init ex_params 1, ghost_init) ex_history)) in
  wrk_msg_exec w (RRecord 7 1 30 (ex_hashes "d")) = Err ERR_REG_HEIGHT /\
  wrk_msg_exec w (RRecord 8 1 40 (ex_hashes "d")) = Err ERR_REG_NOT_OWNER /\
  wrk_msg_exec w (RRecord 7 2 40 (ex_hashes "d")) = Err ERR_REG_UNKNOWN.
Proof. vm_compute. auto. Qed.
