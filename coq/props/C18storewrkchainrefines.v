(* C18, store layer of x/wrkchain, REFINEMENT: the store accessors GENERATED from /repo/x/wrkchain/keeper/{register.go,
   record.go,params.go} (GeneratedWrkchainStore.v, go_st_*, over the ordered byte-keyed store of model/KVStore.v)
   implement the HAND-WRITTEN primitives (model/RegistryWorld.v, model/WrkchainKeeperPrims.v: reg_*, over the abstract
   registry state of model/Registry.v) that the keeper-level translation and every higher theorem are written against.
   [Rreg s st] (proofs/GeneratedWrkchainStoreRefines.v) is the representation relation between a byte store and an
   abstract state: store sorted; params / counter entries present and equal to the abstract ones (counter in uint64);
   for every in-range id (height) the entity / limit / record entry is the conversion of the map entry; every store key
   is one of those; the association maps have distinct in-range keys, entries keyed by their own id / height, record
   hash lists of exactly five hashes (what the WrkChainBlock conversion is a bijection on; the WrkChain conversion
   drops nothing).
   [u64 x] is 0 <= x < 2^64; [zsort] insertion sort by key (= model/Genesis.v's sort_by_key); [sim_res]/[sim_end]
   compare outcomes: Ok/Ok with related states, Err/Err and Panic/Panic with equal codes; [visit] the in-order visit of
   a list by a Go iteration callback.  Hypotheses shown necessary by the *_refuted results at the end.
   Proofs: proofs/GeneratedWrkchainStoreRefines.v. *)
From Coq Require Import ZArith NArith List Bool Sorted Permutation.
From MC Require Import lib.Prelude lib.AMap lib.GoSdk model.Keys model.KeyPrims model.KVStore model.StoreCodecPrims.
From MC Require Import model.Bank model.Registry model.Genesis model.WrkchainKeeperPrims.
From MC Require Import GeneratedKeys GeneratedWrkchainTypes GeneratedWrkchainKeeper GeneratedWrkchainStore.
From MC Require Import proofs.KVStoreFacts2Wrkchain proofs.GeneratedWrkchainStoreEq proofs.GeneratedWrkchainParamsEq proofs.GeneratedWrkchainStoreRefines.
Import ListNotations.
Open Scope Z_scope.

(* ---- readers agree ---- *)
Theorem C18_store_wrkchain_refines_readers :
  forall (s : okv wrkchain_val) (w : rworld), Rreg s (rw_reg w) ->
  go_st_GetParams s = Ok (reg_GetParams w) /\
  go_st_GetParamDenom s = Ok (reg_GetParamDenom w) /\
  go_st_GetParamDefaultStorageLimit s = Ok (reg_GetParamDefaultStorageLimit w) /\
  go_st_GetParamMaxStorageLimit s = Ok (reg_GetParamMaxStorageLimit w) /\
  go_st_GetParamRegistrationFee s = Ok (rp_fee_register (r_params (rw_reg w))) /\
  go_st_GetParamRecordFee s = Ok (rp_fee_record (r_params (rw_reg w))) /\
  go_st_GetParamPurchaseStorageFee s = Ok (rp_fee_purchase (r_params (rw_reg w))) /\
  go_st_GetHighestWrkChainID s = reg_GetHighestID w /\
  (forall id, u64 id -> go_st_IsWrkChainRegistered s id = Ok (reg_IsRegistered w id)) /\
  (forall id, u64 id -> go_st_GetWrkChain s id = Ok (reg_GetEntity w id)) /\
  (forall id, u64 id -> go_st_HasWrkChainStorageLimit s id = Ok (ahas id (r_limits (rw_reg w)))) /\
  (forall id, u64 id -> go_st_GetWrkChainStorageLimit s id = Ok (reg_GetStorageLimit w id)) /\
  (forall id t, u64 id -> u64 t -> go_st_IsWrkChainBlockRecorded s id t = Ok (ahas (id, t) (r_recs (rw_reg w)))) /\
  (forall id t, u64 id -> u64 t -> go_st_GetWrkChainBlock s id t = Ok (reg_GetRecord w id t)) /\
  go_st_GetAllWrkChains s = Ok (map (fun kv => to_go_entity (snd kv)) (zsort (r_regs (rw_reg w)))) /\
  (forall id, u64 id -> go_st_GetAllWrkChainBlockHashes s id =
                        Ok (map (fun kr => rec_to_go (snd kr)) (sort_by_key (records_of id (r_recs (rw_reg w)))))) /\
  (forall id, u64 id -> go_st_GetLastWrkChainHeightInState s id =
                        Ok (hd 0 (map fst (sort_by_key (records_of id (r_recs (rw_reg w))))))) /\
  (forall id, u64 id -> (forall h rc, In ((id, h), rc) (r_recs (rw_reg w)) -> 1 <= h) ->
                        go_st_GetLastWrkChainHeightInState s id = Ok (reg_LowestKeyInState w id)).
Proof. exact readers_refine. Qed.
Print Assumptions C18_store_wrkchain_refines_readers.

(* ---- GetLastWrkChainHeightInState = reg_LowestKeyInState (lowest_key of model/Registry.v), heights >= 1 ---- *)
Theorem C18_store_wrkchain_refines_LowestKeyInState :
  forall (s : okv wrkchain_val) (w : rworld) (id : Z), Rreg s (rw_reg w) -> u64 id ->
  (forall h rc, In ((id, h), rc) (r_recs (rw_reg w)) -> 1 <= h) ->
  go_st_GetLastWrkChainHeightInState s id = Ok (reg_LowestKeyInState w id).
Proof. exact LowestKeyInState_refines. Qed.
Print Assumptions C18_store_wrkchain_refines_LowestKeyInState.

(* ... and without that hypothesis: the least stored height of that WRKChain, 0 when there is none *)
Theorem C18_store_wrkchain_refines_LowestKeyInState_min :
  forall (s : okv wrkchain_val) (w : rworld) (id : Z), Rreg s (rw_reg w) -> u64 id ->
  go_st_GetLastWrkChainHeightInState s id = Ok (hd 0 (map fst (sort_by_key (records_of id (r_recs (rw_reg w)))))).
Proof. exact LowestKeyInState_refines_min. Qed.
Print Assumptions C18_store_wrkchain_refines_LowestKeyInState_min.

(* ---- writers simulate ---- *)
Theorem C18_store_wrkchain_refines_writers :
  forall (s : okv wrkchain_val) (w : rworld), Rreg s (rw_reg w) ->
  (forall v, u64 v ->
     exists s' w', go_st_SetHighestWrkChainID s v = Ok (s', tt) /\ reg_SetHighestID w v = Ok (w', tt) /\ Rreg s' (rw_reg w')) /\
  (forall g, u64 (WrkChain_WrkchainId g) ->
     exists s' w', go_st_SetWrkChain s g = Ok (s', tt) /\ reg_SetEntity w g = Ok (w', tt) /\ Rreg s' (rw_reg w')) /\
  (forall id l, u64 id ->
     exists s' w', go_st_SetWrkChainStorageLimit s id l = Ok (s', tt) /\ reg_SetStorageLimit w id l = Ok (w', tt) /\ Rreg s' (rw_reg w')) /\
  (forall id b, u64 id -> u64 (WrkChainBlock_Height b) ->
     exists s' w', go_st_SetWrkChainBlock s id b = Ok (s', tt) /\ reg_SetRecord w id b = Ok (w', tt) /\ Rreg s' (rw_reg w')) /\
  (forall id t, u64 id -> u64 t ->
     exists s' w', go_st_deleteWrkChainHash s id t = Ok (s', tt) /\ reg_DeleteRecord w id t = Ok (w', tt) /\ Rreg s' (rw_reg w')).
Proof. exact writers_refine. Qed.
Print Assumptions C18_store_wrkchain_refines_writers.

Theorem C18_store_wrkchain_refines_SetParams :
  forall (s : okv wrkchain_val) (w : rworld) (p : go_Params), Rreg s (rw_reg w) -> wrk_params_nonneg p ->
  match reg_SetParams w p, go_st_SetParams s p with
  | Ok (w', _), Ok (s', _) => reg_params_valid (params_of_go p) = true /\ Rreg s' (rw_reg w')
  | Err a, Err c => reg_params_valid (params_of_go p) = false /\ a = wrkchain_ErrInvalidParams /\ c = wrk_params_err p
  | _, _ => False
  end.
Proof. exact SetParams_refines. Qed.
Print Assumptions C18_store_wrkchain_refines_SetParams.

Theorem C18_store_wrkchain_refines_SetParams_same_code :
  forall (s : okv wrkchain_val) (w : rworld) (p : go_Params), Rreg s (rw_reg w) -> wrk_params_nonneg p ->
  (0 <= Params_Denom p \/ Params_Denom p = go_zero_denom) ->
  sim_res (reg_SetParams w p) (go_st_SetParams s p).
Proof. exact SetParams_sim. Qed.
Print Assumptions C18_store_wrkchain_refines_SetParams_same_code.

(* ---- listings ---- *)
Theorem C18_store_wrkchain_refines_GetAllWrkChains :
  forall (s : okv wrkchain_val) (w : rworld), Rreg s (rw_reg w) ->
  let l := map (fun kv => to_go_entity (snd kv)) (zsort (r_regs (rw_reg w))) in
  go_st_GetAllWrkChains s = Ok l /\
  (forall (St : Type) (cb : St -> go_WrkChain -> outcome (St * bool)) st, go_st_IterateWrkChains s cb st = visit cb l st) /\
  Permutation l (reg_GetAllEntities w) /\
  StronglySorted (fun a b => WrkChain_WrkchainId a < WrkChain_WrkchainId b) l.
Proof. exact GetAllEntities_refines. Qed.
Print Assumptions C18_store_wrkchain_refines_GetAllWrkChains.

Theorem C18_store_wrkchain_refines_GetAllWrkChains_sorted :
  forall (s : okv wrkchain_val) (w : rworld), Rreg s (rw_reg w) -> StronglySorted Z.lt (akeys (r_regs (rw_reg w))) ->
  go_st_GetAllWrkChains s = Ok (reg_GetAllEntities w) /\
  (forall (St : Type) (cb : St -> go_WrkChain -> outcome (St * bool)) st,
     go_st_IterateWrkChains s cb st = visit cb (reg_GetAllEntities w) st).
Proof. exact GetAllEntities_refines_sorted. Qed.
Print Assumptions C18_store_wrkchain_refines_GetAllWrkChains_sorted.

Theorem C18_store_wrkchain_refines_GetAllWrkChains_perm :
  forall (s : okv wrkchain_val) (w : rworld), Rreg s (rw_reg w) ->
  exists l, go_st_GetAllWrkChains s = Ok l /\ Permutation l (reg_GetAllEntities w).
Proof. exact GetAllEntities_refines_perm. Qed.
Print Assumptions C18_store_wrkchain_refines_GetAllWrkChains_perm.

Theorem C18_store_wrkchain_refines_GetAllWrkChainBlockHashes :
  forall (s : okv wrkchain_val) (w : rworld) (id : Z), Rreg s (rw_reg w) -> u64 id ->
  let l := map (fun kr => rec_to_go (snd kr)) (sort_by_key (records_of id (r_recs (rw_reg w)))) in
  go_st_GetAllWrkChainBlockHashes s id = Ok l /\
  (forall (St : Type) (cb : St -> go_WrkChainBlock -> outcome (St * bool)) st,
     go_st_IterateWrkChainBlockHashes s id cb st = visit cb l st) /\
  (forall (St : Type) (cb : St -> go_WrkChainBlock -> outcome (St * bool)) st,
     go_st_IterateWrkChainBlockHashesReverse s id cb st = visit cb (rev l) st) /\
  (forall (St : Type) page limit (cb : St -> go_WrkChainBlock -> outcome (St * bool)) st, 1 <= page ->
     go_st_IterateWrkChainBlockHashesPaginated s id page limit cb st =
     visit cb (firstn (Z.to_nat limit) (skipn (Z.to_nat ((page - 1) * Z.max 0 limit)) l)) st) /\
  (forall (St : Type) page limit (cb : St -> go_WrkChainBlock -> outcome (St * bool)) st, page <= 0 ->
     go_st_IterateWrkChainBlockHashesPaginated s id page limit cb st = Panic OKV_PANIC_PAGE) /\
  StronglySorted (fun a b => WrkChainBlock_Height a < WrkChainBlock_Height b) l /\
  (forall b, In b l <-> exists rc, aget (id, WrkChainBlock_Height b) (r_recs (rw_reg w)) = Some rc /\ b = rec_to_go rc).
Proof. exact GetAllRecords_refines. Qed.
Print Assumptions C18_store_wrkchain_refines_GetAllWrkChainBlockHashes.

Theorem C18_store_wrkchain_refines_GetRecordsForExport :
  forall (s : okv wrkchain_val) (w : rworld) (id : Z) (l : list go_WrkChainBlock),
  Rreg s (rw_reg w) -> u64 id -> go_st_GetAllWrkChainBlockHashes s id = Ok l ->
  map (fun b => mk_go_WrkChainBlockGenesisExport (WrkChainBlock_Height b) (WrkChainBlock_Blockhash b) (WrkChainBlock_Parenthash b)
                  (WrkChainBlock_Hash1 b) (WrkChainBlock_Hash2 b) (WrkChainBlock_Hash3 b) (WrkChainBlock_SubTime b))
      (newest EXPORT_CAP l) = reg_GetRecordsForExport w id.
Proof. exact GetRecordsForExport_refines. Qed.
Print Assumptions C18_store_wrkchain_refines_GetRecordsForExport.

(* a related store satisfies the well-formedness of proofs/GeneratedWrkchainStoreEq.v: its listing theorems apply *)
Theorem C18_store_wrkchain_refines_store_wf :
  forall (s : okv wrkchain_val) (st : reg_state), Rreg s st -> okv_sorted s = true /\ wrk_store_wf s.
Proof. exact Rreg_sorted_wf. Qed.
Print Assumptions C18_store_wrkchain_refines_store_wf.

(* ---- the initial store ---- *)
Theorem C18_store_wrkchain_refines_init :
  forall (p : go_Params) (v : Z) (s1 s2 : okv wrkchain_val),
  go_st_SetParams [] p = Ok (s1, tt) -> go_st_SetHighestWrkChainID s1 v = Ok (s2, tt) -> u64 v ->
  Rreg s2 {| r_params := params_of_go p; r_next := v; r_regs := []; r_limits := []; r_recs := [] |}.
Proof. exact init_refines. Qed.
Print Assumptions C18_store_wrkchain_refines_init.

Theorem C18_store_wrkchain_refines_init_sim :
  forall (p : go_Params) (v : Z) (w : rworld), wrk_params_nonneg p -> u64 v ->
  r_regs (rw_reg w) = [] -> r_limits (rw_reg w) = [] -> r_recs (rw_reg w) = [] ->
  match (do x <- reg_SetParams w p; reg_SetHighestID (fst x) v), (do x <- go_st_SetParams [] p; go_st_SetHighestWrkChainID (fst x) v) with
  | Ok (w2, _), Ok (s2, _) =>
      rw_reg w2 = {| r_params := params_of_go p; r_next := v; r_regs := []; r_limits := []; r_recs := [] |} /\ Rreg s2 (rw_reg w2)
  | Err a, Err c => a = wrkchain_ErrInvalidParams /\ c = wrk_params_err p
  | _, _ => False
  end.
Proof. exact init_sim. Qed.
Print Assumptions C18_store_wrkchain_refines_init_sim.

(* ---- composition over histories ---- *)
Theorem C18_store_wrkchain_refines_step :
  forall (s : okv wrkchain_val) (w : rworld) (o : sop), Rreg s (rw_reg w) -> op_ok o -> sim_res (astep w o) (cstep s o).
Proof. exact step_sim. Qed.
Print Assumptions C18_store_wrkchain_refines_step.

Theorem C18_store_wrkchain_refines_run :
  forall (ops : list sop) (s : okv wrkchain_val) (w : rworld), Rreg s (rw_reg w) -> Forall op_ok ops ->
  sim_end (arun w ops) (crun s ops).
Proof. exact run_sim. Qed.
Print Assumptions C18_store_wrkchain_refines_run.

Theorem C18_store_wrkchain_refines_run_verdict :
  forall (ops : list sop) (s : okv wrkchain_val) (w : rworld), Rreg s (rw_reg w) -> Forall op_ok ops ->
  (forall w', arun w ops = Ok w' -> exists s', crun s ops = Ok s' /\ Rreg s' (rw_reg w')) /\
  (forall s', crun s ops = Ok s' -> exists w', arun w ops = Ok w' /\ Rreg s' (rw_reg w')) /\
  (forall c, arun w ops = Err c <-> crun s ops = Err c).
Proof. exact run_same_verdict. Qed.
Print Assumptions C18_store_wrkchain_refines_run_verdict.

Theorem C18_store_wrkchain_refines_run_no_panic :
  forall (ops : list sop) (s : okv wrkchain_val) (w : rworld), Rreg s (rw_reg w) -> Forall op_ok ops ->
  (forall c, arun w ops <> Panic c) /\ (forall c, crun s ops <> Panic c).
Proof. exact run_no_panic. Qed.
Print Assumptions C18_store_wrkchain_refines_run_no_panic.

Theorem C18_store_wrkchain_refines_run_readers :
  forall (ops : list sop) (s : okv wrkchain_val) (w : rworld) (s' : okv wrkchain_val) (w' : rworld),
  Rreg s (rw_reg w) -> Forall op_ok ops -> crun s ops = Ok s' -> arun w ops = Ok w' -> readers_agree s' w'.
Proof. exact run_readers. Qed.
Print Assumptions C18_store_wrkchain_refines_run_readers.

(* ---- the store determines the abstract state ---- *)
Theorem C18_store_wrkchain_refines_functional :
  forall (s : okv wrkchain_val) (st1 st2 : reg_state), Rreg s st1 -> Rreg s st2 ->
  r_params st1 = r_params st2 /\ r_next st1 = r_next st2 /\
  (forall id, aget id (r_regs st1) = aget id (r_regs st2)) /\
  (forall id, aget id (r_limits st1) = aget id (r_limits st2)) /\
  (forall k, aget k (r_recs st1) = aget k (r_recs st2)).
Proof. exact Rreg_functional. Qed.
Print Assumptions C18_store_wrkchain_refines_functional.

(* ---- non-vacuity ---- *)
Theorem C18_store_wrkchain_refines_nonvacuous :
  exists s w, crun demo_s0 demo_ops = Ok s /\ arun demo_w0 demo_ops = Ok w /\ Rreg s (rw_reg w) /\
    List.length s = 8%nat /\
    akeys (r_regs (rw_reg w)) = [2; 1] /\
    go_st_GetAllWrkChains s = Ok [ex_wc 1 7; ex_wc 2 8] /\
    reg_GetAllEntities w = [ex_wc 2 8; ex_wc 1 7] /\
    go_st_GetAllWrkChainBlockHashes s 1 = Ok [ex_block 5; ex_block 300] /\
    go_st_IterateWrkChainBlockHashesPaginated s 1 2 1 (fun acc b => Ok (acc ++ [b], false)) [] = Ok [ex_block 300] /\
    reg_GetRecord w 1 300 = (ex_block 300, true) /\ reg_GetRecord w 1 20 = (zero_go_WrkChainBlock, false) /\
    go_st_GetLastWrkChainHeightInState s 1 = Ok 5 /\ reg_LowestKeyInState w 1 = 5 /\
    go_st_GetLastWrkChainHeightInState s 3 = Ok 0 /\ reg_LowestKeyInState w 3 = 0 /\
    go_st_GetHighestWrkChainID s = Ok 4 /\ reg_GetHighestID w = Ok 4 /\
    go_st_GetParams s = Ok (mk_go_Params 2 2 2 1 10 30) /\ reg_GetParams w = mk_go_Params 2 2 2 1 10 30.
Proof. exact demo_related. Qed.
Print Assumptions C18_store_wrkchain_refines_nonvacuous.

Theorem C18_store_wrkchain_refines_nonvacuous_initial : Rreg demo_s0 (rw_reg demo_w0).
Proof. exact demo_R0. Qed.
Print Assumptions C18_store_wrkchain_refines_nonvacuous_initial.

(* ---- what the hypotheses exclude ---- *)
Theorem C18_store_wrkchain_refines_sorted_needed_refuted :
  exists s w, Rreg s (rw_reg w) /\ go_st_GetAllWrkChains s <> Ok (reg_GetAllEntities w).
Proof. exact GetAllEntities_sorted_refuted. Qed.
Print Assumptions C18_store_wrkchain_refines_sorted_needed_refuted.

Theorem C18_store_wrkchain_refines_zero_height_refuted :
  crun demo_s0 zh_ops = Ok zh_s /\ arun demo_w0 zh_ops = Ok zh_w /\ Rreg zh_s (rw_reg zh_w) /\
  go_st_GetLastWrkChainHeightInState zh_s 1 = Ok 0 /\ reg_LowestKeyInState zh_w 1 = 5 /\
  go_st_GetAllWrkChainBlockHashes zh_s 1 = Ok [ex_block 0; ex_block 5].
Proof. exact LowestKeyInState_zero_height_refuted. Qed.
Print Assumptions C18_store_wrkchain_refines_zero_height_refuted.

Theorem C18_store_wrkchain_refines_reader_range_refuted :
  crun demo_s0 rr_ops = Ok rr_s /\ arun demo_w0 rr_ops = Ok rr_w /\ Rreg rr_s (rw_reg rr_w) /\
  go_st_GetWrkChain rr_s (2 ^ 64) = Ok (ex_wc 0 7, true) /\ reg_GetEntity rr_w (2 ^ 64) = (zero_go_WrkChain, false).
Proof. exact reader_range_refuted. Qed.
Print Assumptions C18_store_wrkchain_refines_reader_range_refuted.

Theorem C18_store_wrkchain_refines_writer_range_refuted :
  exists s w, go_st_SetWrkChain demo_s0 (ex_wc (2 ^ 64) 7) = Ok (s, tt) /\ reg_SetEntity demo_w0 (ex_wc (2 ^ 64) 7) = Ok (w, tt) /\
    go_st_GetWrkChain s 0 = Ok (ex_wc (2 ^ 64) 7, true) /\ reg_GetEntity w 0 = (zero_go_WrkChain, false) /\
    ~ Rreg s (rw_reg w).
Proof. exact SetEntity_range_refuted. Qed.
Print Assumptions C18_store_wrkchain_refines_writer_range_refuted.

Theorem C18_store_wrkchain_refines_counter_range_refuted :
  exists s w, go_st_SetHighestWrkChainID demo_s0 (2 ^ 64) = Ok (s, tt) /\ reg_SetHighestID demo_w0 (2 ^ 64) = Ok (w, tt) /\
    go_st_GetHighestWrkChainID s = Ok 0 /\ reg_GetHighestID w = Ok (2 ^ 64).
Proof. exact SetHighestID_range_refuted. Qed.
Print Assumptions C18_store_wrkchain_refines_counter_range_refuted.

Theorem C18_store_wrkchain_refines_listing_range_refuted :
  exists s w, Rreg s (rw_reg w) /\
    go_st_GetAllWrkChainBlockHashes s (2 ^ 64 + 1) = Ok [ex_block 5; ex_block 300] /\
    records_of (2 ^ 64 + 1) (r_recs (rw_reg w)) = [] /\
    go_st_GetLastWrkChainHeightInState s (2 ^ 64 + 1) = Ok 5 /\ reg_LowestKeyInState w (2 ^ 64 + 1) = 0.
Proof. exact GetAllRecords_range_refuted. Qed.
Print Assumptions C18_store_wrkchain_refines_listing_range_refuted.

Theorem C18_store_wrkchain_refines_counter_absent_refuted :
  go_st_GetHighestWrkChainID [] = Err STORE_ERR /\ forall w, reg_GetHighestID w = Ok (r_next (rw_reg w)).
Proof. exact GetHighestID_absent_refuted. Qed.
Print Assumptions C18_store_wrkchain_refines_counter_absent_refuted.

Theorem C18_store_wrkchain_refines_SetParams_code_refuted :
  let p := mk_go_Params 1 1 1 (-7) 2 10 in
  wrk_params_nonneg p /\ go_st_SetParams demo_s0 p = Err 1 /\ reg_SetParams demo_w0 p = Err 40.
Proof. exact SetParams_code_refuted. Qed.
Print Assumptions C18_store_wrkchain_refines_SetParams_code_refuted.

Theorem C18_store_wrkchain_refines_SetParams_nonneg_refuted :
  let p := mk_go_Params (-1) 1 1 0 2 10 in
  (exists s', go_st_SetParams demo_s0 p = Ok (s', tt)) /\ reg_SetParams demo_w0 p = Err 40.
Proof. exact SetParams_nonneg_refuted. Qed.
Print Assumptions C18_store_wrkchain_refines_SetParams_nonneg_refuted.

Theorem C18_store_wrkchain_refines_page0_refuted :
  go_st_IterateWrkChainBlockHashesPaginated demo_s1 1 0 1 (fun acc b => Ok (acc ++ [b], false)) [] = Panic OKV_PANIC_PAGE.
Proof. exact Paginated_page0_refuted. Qed.
Print Assumptions C18_store_wrkchain_refines_page0_refuted.

Theorem C18_store_wrkchain_refines_conversion_refuted :
  let rc := {| rc_key := 1; rc_hashes := ["h"%string]; rc_time := 0 |} in rec_of_go (rec_to_go rc) <> rc.
Proof. exact rec_of_to_go_refuted. Qed.
Print Assumptions C18_store_wrkchain_refines_conversion_refuted.
