(* C20 ON THE BYTES: "list queries are complete, duplicate-free, consistent with point queries" for the three
   FilteredPaginate list queries (x/wrkchain WrkChainsFiltered, x/beacon BeaconsFiltered, x/enterprise
   EnterpriseUndPurchaseOrders), stated on the ordered byte-keyed store [s] of model/KVStore.v and the GENERATED store
   accessors (Generated{Wrkchain,Beacon,Enterprise}Store.v: the point reader go_st_Get<Entity>, the listing
   go_st_GetAll<Entities>, the writer go_st_Set<Entity>) and the GENERATED FilteredPaginate callbacks.  Statements only; the
   proofs are in proofs/C20OnStore.v.

   props/C20generated.v quantifies over an abstract [items : list (N * V)] "the store's listing in key order".  Here that
   listing is [<M>.store_items s]: the entries of [okv_prefix s <entity prefix>] (what the prefix iterator yields), the
   key decoded to the numeric id (strip the one prefix byte, de64), the value decoded (the typed constructor) - see the
   *_store_items_def theorems.  [all_pages_by_{key,offset}[_rev]_cb fuel items cb limit] (model/PaginateCallback.v) is the
   concatenation of the handler's slices over the client's walk; [list_query_cb items cb preq] is one page.

   Hypotheses: [okv_sorted s = true] (representation invariant of the store, preserved by every writer) and the module's
   well-formedness predicate of proofs/Generated<M>StoreEq.v (preserved by every writer with in-range ids); for x/beacon in
   addition [Bcn.beacon_ids_u64 s] (every stored beacon's id field is a uint64: [beacon_store_wf] does not say so).
   The numeric side conditions are those of props/C20generated.v, on [length (<M>.store_items s)] (<= length s).
   The last part does the same for the three x/stream list queries (GenericFilteredPaginate), over the hand-written
   pagination model with the generated key callbacks as filters. *)
From Coq Require Import ZArith NArith List Bool Sorted.
From MC Require Import lib.Prelude lib.GoSdk model.Keys model.KVStore model.Paginate model.PaginateCallback model.QueryFilterSpec.
From MC Require Import proofs.PaginateCallbackEq.
From MC Require GeneratedKeys.
From MC Require GeneratedWrkchainKeeper GeneratedWrkchainStore proofs.GeneratedWrkchainStoreEq.
From MC Require GeneratedBeaconKeeper GeneratedBeaconStore proofs.GeneratedBeaconStoreEq.
From MC Require GeneratedEnterpriseKeeper GeneratedEnterpriseStore proofs.GeneratedEnterpriseStoreEq.
From MC Require GeneratedStreamTypes GeneratedStreamStore proofs.GeneratedStreamStoreEq.
From MC Require Import proofs.C20OnStore.
Import ListNotations.
Open Scope Z_scope.
Local Notation length := List.length.
Module WS := MC.GeneratedWrkchainStore.
Module BS := MC.GeneratedBeaconStore.
Module ES := MC.GeneratedEnterpriseStore.
Module WE := MC.proofs.GeneratedWrkchainStoreEq.
Module BE := MC.proofs.GeneratedBeaconStoreEq.
Module EE := MC.proofs.GeneratedEnterpriseStoreEq.
Module SS := MC.GeneratedStreamStore.
Module SE := MC.proofs.GeneratedStreamStoreEq.
Local Notation wrk_cb := MC.GeneratedWrkchainKeeper.go_WrkChainsFiltered_callback.
Local Notation bcn_cb := MC.GeneratedBeaconKeeper.go_BeaconsFiltered_callback.
Local Notation ent_cb := MC.GeneratedEnterpriseKeeper.go_EnterpriseUndPurchaseOrders_callback.

(* ====================================================================================================== *)
(* x/wrkchain                                                                                                   *)
(* ====================================================================================================== *)

(* the listing the query walks: the entries under the WRKChain prefix, key decoded to the numeric id, value decoded *)
Theorem C20_onstore_wrkchain_store_items_def : forall s : okv WS.wrkchain_val,
  Wrk.store_items s =
  map (fun kv => (de64 (strip_prefix GeneratedKeys.wrkchain_RegisteredWrkChainPrefix (fst kv)), match snd kv with WS.WV_WrkChain x => x | _ => WT.zero_go_WrkChain end))
      (okv_prefix s GeneratedKeys.wrkchain_RegisteredWrkChainPrefix).
Proof. exact Wrk.store_items_def. Qed.
Print Assumptions C20_onstore_wrkchain_store_items_def.

(* keys strictly ascending, distinct; an item's key is the id in its value; an item is listed iff the generated point reader
   finds it under its key; the values are the generated listing *)
Theorem C20_onstore_wrkchain_store_items : forall (s : okv WS.wrkchain_val), okv_sorted s = true -> WE.wrk_store_wf s ->
  Sorted N.lt (map fst (Wrk.store_items s)) /\
  NoDup (map fst (Wrk.store_items s)) /\
  (forall n x, In (n, x) (Wrk.store_items s) -> 0 <= WT.WrkChain_WrkchainId x < 2 ^ 64 /\ Z.of_N n = WT.WrkChain_WrkchainId x) /\
  (forall n x, (n < 2 ^ 64)%N -> (In (n, x) (Wrk.store_items s) <-> WS.go_st_GetWrkChain s (Z.of_N n) = Ok (x, true))) /\
  (exists l, WS.go_st_GetAllWrkChains s = Ok l /\ Wrk.store_items s = map (fun x => (Z.to_N (WT.WrkChain_WrkchainId x), x)) l).
Proof. exact Wrk.items_facts. Qed.
Print Assumptions C20_onstore_wrkchain_store_items.

(* following NextKey, forward: the stored entities matching the filter, ascending id, each once, nothing else *)
Theorem C20_onstore_wrkchain_key_walk : forall (s : okv WS.wrkchain_val) req (limit : N) (fuel : nat),
  okv_sorted s = true -> WE.wrk_store_wf s ->
  (1 <= limit)%N -> (limit + 1 < two64N)%N -> (N.of_nat (length (Wrk.store_items s)) < two64N)%N ->
  (length (Wrk.store_items s) + 1 <= fuel)%nat ->
  let w := all_pages_by_key_cb fuel (Wrk.store_items s) (wrk_cb req) limit in
  (exists l, WS.go_st_GetAllWrkChains s = Ok l /\ w = filter (wrk_list_flt req) l) /\
  StronglySorted (fun a b => WT.WrkChain_WrkchainId a < WT.WrkChain_WrkchainId b) w /\
  NoDup w /\
  (forall x, In x w <-> WS.go_st_GetWrkChain s (WT.WrkChain_WrkchainId x) = Ok (x, true) /\ wrk_list_flt req x = true).
Proof. exact Wrk.key_walk. Qed.
Print Assumptions C20_onstore_wrkchain_key_walk.

(* stepping the offset, forward *)
Theorem C20_onstore_wrkchain_offset_walk : forall (s : okv WS.wrkchain_val) req (limit : N) (fuel : nat),
  okv_sorted s = true -> WE.wrk_store_wf s ->
  (1 <= limit)%N -> (N.of_nat (length (Wrk.store_items s)) + limit + 1 < two64N)%N ->
  (length (Wrk.store_items s) + 1 <= fuel)%nat ->
  let w := all_pages_by_offset_cb fuel (Wrk.store_items s) (wrk_cb req) limit in
  (exists l, WS.go_st_GetAllWrkChains s = Ok l /\ w = filter (wrk_list_flt req) l) /\
  StronglySorted (fun a b => WT.WrkChain_WrkchainId a < WT.WrkChain_WrkchainId b) w /\
  NoDup w /\
  (forall x, In x w <-> WS.go_st_GetWrkChain s (WT.WrkChain_WrkchainId x) = Ok (x, true) /\ wrk_list_flt req x = true).
Proof. exact Wrk.offset_walk. Qed.
Print Assumptions C20_onstore_wrkchain_offset_walk.

(* following NextKey, reverse: the same entities, descending id *)
Theorem C20_onstore_wrkchain_key_walk_reverse : forall (s : okv WS.wrkchain_val) req (limit : N) (fuel : nat),
  okv_sorted s = true -> WE.wrk_store_wf s ->
  (1 <= limit)%N -> (limit + 1 < two64N)%N -> (N.of_nat (length (Wrk.store_items s)) < two64N)%N ->
  (length (Wrk.store_items s) + 1 <= fuel)%nat ->
  let w := all_pages_by_key_rev_cb fuel (Wrk.store_items s) (wrk_cb req) limit in
  (exists l, WS.go_st_GetAllWrkChains s = Ok l /\ w = rev (filter (wrk_list_flt req) l)) /\
  StronglySorted (fun a b => WT.WrkChain_WrkchainId b < WT.WrkChain_WrkchainId a) w /\
  NoDup w /\
  (forall x, In x w <-> WS.go_st_GetWrkChain s (WT.WrkChain_WrkchainId x) = Ok (x, true) /\ wrk_list_flt req x = true).
Proof. exact Wrk.key_walk_rev. Qed.
Print Assumptions C20_onstore_wrkchain_key_walk_reverse.

Theorem C20_onstore_wrkchain_offset_walk_reverse : forall (s : okv WS.wrkchain_val) req (limit : N) (fuel : nat),
  okv_sorted s = true -> WE.wrk_store_wf s ->
  (1 <= limit)%N -> (N.of_nat (length (Wrk.store_items s)) + limit + 1 < two64N)%N ->
  (length (Wrk.store_items s) + 1 <= fuel)%nat ->
  let w := all_pages_by_offset_rev_cb fuel (Wrk.store_items s) (wrk_cb req) limit in
  (exists l, WS.go_st_GetAllWrkChains s = Ok l /\ w = rev (filter (wrk_list_flt req) l)) /\
  StronglySorted (fun a b => WT.WrkChain_WrkchainId b < WT.WrkChain_WrkchainId a) w /\
  NoDup w /\
  (forall x, In x w <-> WS.go_st_GetWrkChain s (WT.WrkChain_WrkchainId x) = Ok (x, true) /\ wrk_list_flt req x = true).
Proof. exact Wrk.offset_walk_rev. Qed.
Print Assumptions C20_onstore_wrkchain_offset_walk_reverse.

(* one page, ANY page request (key / offset / reverse / count_total, any limit): every item is what the generated point
   reader answers for the item's id and matches the filter; no duplicates; within the effective limit *)
Theorem C20_onstore_wrkchain_single_page_sound : forall (s : okv WS.wrkchain_val) req (preq : page_req) r,
  okv_sorted s = true -> WE.wrk_store_wf s ->
  list_query_cb (Wrk.store_items s) (wrk_cb req) preq = Ok r ->
  (forall x, In x (cres_state r) -> WS.go_st_GetWrkChain s (WT.WrkChain_WrkchainId x) = Ok (x, true) /\ wrk_list_flt req x = true) /\
  NoDup (cres_state r) /\
  ((pr_offset preq < two64N)%N -> (pr_limit preq < two64N)%N -> (N.of_nat (length (Wrk.store_items s)) < two64N)%N ->
   (length (cres_state r) <= N.to_nat (eff_limit preq))%nat).
Proof. exact Wrk.single_page. Qed.
Print Assumptions C20_onstore_wrkchain_single_page_sound.

(* count_total (offset mode; also when limit = 0) = the number of entities of the generated listing that match *)
Theorem C20_onstore_wrkchain_total_count : forall (s : okv WS.wrkchain_val) req (preq : page_req) r,
  WE.wrk_store_wf s ->
  (match pr_key preq with KeyAt _ => False | _ => True end) ->
  (pr_count_total preq = true \/ pr_limit preq = 0%N) ->
  (N.of_nat (length (Wrk.store_items s)) < two64N)%N ->
  list_query_cb (Wrk.store_items s) (wrk_cb req) preq = Ok r ->
  exists l, WS.go_st_GetAllWrkChains s = Ok l /\ cres_total r = N.of_nat (length (filter (wrk_list_flt req) l)).
Proof. exact Wrk.total_count. Qed.
Print Assumptions C20_onstore_wrkchain_total_count.

(* consistent with point queries, complete: for each of the four walks *)
Theorem C20_onstore_wrkchain_point_consistent_complete : forall (s : okv WS.wrkchain_val) req (limit : N) (fuel : nat),
  okv_sorted s = true -> WE.wrk_store_wf s ->
  (1 <= limit)%N -> (N.of_nat (length (Wrk.store_items s)) + limit + 1 < two64N)%N ->
  (length (Wrk.store_items s) + 1 <= fuel)%nat ->
  forall w, In w [ all_pages_by_key_cb fuel (Wrk.store_items s) (wrk_cb req) limit;
                   all_pages_by_offset_cb fuel (Wrk.store_items s) (wrk_cb req) limit;
                   all_pages_by_key_rev_cb fuel (Wrk.store_items s) (wrk_cb req) limit;
                   all_pages_by_offset_rev_cb fuel (Wrk.store_items s) (wrk_cb req) limit ] ->
    (forall x, In x w -> WS.go_st_GetWrkChain s (WT.WrkChain_WrkchainId x) = Ok (x, true) /\ wrk_list_flt req x = true) /\
    (forall id x, WS.go_st_GetWrkChain s id = Ok (x, true) -> wrk_list_flt req x = true -> In x w) /\
    NoDup w.
Proof. exact Wrk.walks_point_consistent. Qed.
Print Assumptions C20_onstore_wrkchain_point_consistent_complete.

(* writes show up: after the generated writer, each walk over the new store lists x iff it matches and, for every other
   id, exactly what the point reader found on the OLD store *)
Theorem C20_onstore_wrkchain_write_shows_up : forall (s : okv WS.wrkchain_val) x s' req (limit : N) (fuel : nat),
  okv_sorted s = true -> WE.wrk_store_wf s ->
  0 <= WT.WrkChain_WrkchainId x < 2 ^ 64 -> WS.go_st_SetWrkChain s x = Ok (s', tt) ->
  (1 <= limit)%N -> (N.of_nat (length (Wrk.store_items s')) + limit + 1 < two64N)%N ->
  (length (Wrk.store_items s') + 1 <= fuel)%nat ->
  okv_sorted s' = true /\ WE.wrk_store_wf s' /\
  forall w, In w [ all_pages_by_key_cb fuel (Wrk.store_items s') (wrk_cb req) limit;
                   all_pages_by_offset_cb fuel (Wrk.store_items s') (wrk_cb req) limit;
                   all_pages_by_key_rev_cb fuel (Wrk.store_items s') (wrk_cb req) limit;
                   all_pages_by_offset_rev_cb fuel (Wrk.store_items s') (wrk_cb req) limit ] ->
    (wrk_list_flt req x = true -> In x w) /\
    (forall y, In y w <-> (y = x /\ wrk_list_flt req x = true) \/
                          (WT.WrkChain_WrkchainId y <> WT.WrkChain_WrkchainId x /\ WS.go_st_GetWrkChain s (WT.WrkChain_WrkchainId y) = Ok (y, true) /\ wrk_list_flt req y = true)).
Proof. exact Wrk.write_shows_up. Qed.
Print Assumptions C20_onstore_wrkchain_write_shows_up.

(* the listing is a sub-listing of the store; one write adds at most one item (to discharge the length premises) *)
Theorem C20_onstore_wrkchain_store_items_length : forall (s : okv WS.wrkchain_val),
  (length (Wrk.store_items s) <= length s)%nat /\
  (forall x s', WS.go_st_SetWrkChain s x = Ok (s', tt) -> (length (Wrk.store_items s') <= S (length (Wrk.store_items s)))%nat).
Proof. exact (fun s => conj (Wrk.items_length_le s) (fun x s' => Wrk.items_length_after_write s x s')). Qed.
Print Assumptions C20_onstore_wrkchain_store_items_length.

(* ====================================================================================================== *)
(* x/beacon                                                                                                   *)
(* ====================================================================================================== *)

(* the listing the query walks: the entries under the beacon prefix, key decoded to the numeric id, value decoded *)
Theorem C20_onstore_beacon_store_items_def : forall s : okv BS.beacon_val,
  Bcn.store_items s =
  map (fun kv => (de64 (strip_prefix GeneratedKeys.beacon_RegisteredBeaconPrefix (fst kv)), match snd kv with BS.BV_Beacon x => x | _ => BT.zero_go_Beacon end))
      (okv_prefix s GeneratedKeys.beacon_RegisteredBeaconPrefix).
Proof. exact Bcn.store_items_def. Qed.
Print Assumptions C20_onstore_beacon_store_items_def.

(* keys strictly ascending, distinct; an item's key is the id in its value; an item is listed iff the generated point reader
   finds it under its key; the values are the generated listing *)
Theorem C20_onstore_beacon_store_items : forall (s : okv BS.beacon_val), okv_sorted s = true -> BE.beacon_store_wf s -> Bcn.beacon_ids_u64 s ->
  Sorted N.lt (map fst (Bcn.store_items s)) /\
  NoDup (map fst (Bcn.store_items s)) /\
  (forall n x, In (n, x) (Bcn.store_items s) -> 0 <= BT.Beacon_BeaconId x < 2 ^ 64 /\ Z.of_N n = BT.Beacon_BeaconId x) /\
  (forall n x, (n < 2 ^ 64)%N -> (In (n, x) (Bcn.store_items s) <-> BS.go_st_GetBeacon s (Z.of_N n) = Ok (x, true))) /\
  (exists l, BS.go_st_GetAllBeacons s = Ok l /\ Bcn.store_items s = map (fun x => (Z.to_N (BT.Beacon_BeaconId x), x)) l).
Proof. exact Bcn.items_facts. Qed.
Print Assumptions C20_onstore_beacon_store_items.

(* following NextKey, forward: the stored entities matching the filter, ascending id, each once, nothing else *)
Theorem C20_onstore_beacon_key_walk : forall (s : okv BS.beacon_val) req (limit : N) (fuel : nat),
  okv_sorted s = true -> BE.beacon_store_wf s -> Bcn.beacon_ids_u64 s ->
  (1 <= limit)%N -> (limit + 1 < two64N)%N -> (N.of_nat (length (Bcn.store_items s)) < two64N)%N ->
  (length (Bcn.store_items s) + 1 <= fuel)%nat ->
  let w := all_pages_by_key_cb fuel (Bcn.store_items s) (bcn_cb req) limit in
  (exists l, BS.go_st_GetAllBeacons s = Ok l /\ w = filter (bcn_list_flt req) l) /\
  StronglySorted (fun a b => BT.Beacon_BeaconId a < BT.Beacon_BeaconId b) w /\
  NoDup w /\
  (forall x, In x w <-> BS.go_st_GetBeacon s (BT.Beacon_BeaconId x) = Ok (x, true) /\ bcn_list_flt req x = true).
Proof. exact Bcn.key_walk. Qed.
Print Assumptions C20_onstore_beacon_key_walk.

(* stepping the offset, forward *)
Theorem C20_onstore_beacon_offset_walk : forall (s : okv BS.beacon_val) req (limit : N) (fuel : nat),
  okv_sorted s = true -> BE.beacon_store_wf s -> Bcn.beacon_ids_u64 s ->
  (1 <= limit)%N -> (N.of_nat (length (Bcn.store_items s)) + limit + 1 < two64N)%N ->
  (length (Bcn.store_items s) + 1 <= fuel)%nat ->
  let w := all_pages_by_offset_cb fuel (Bcn.store_items s) (bcn_cb req) limit in
  (exists l, BS.go_st_GetAllBeacons s = Ok l /\ w = filter (bcn_list_flt req) l) /\
  StronglySorted (fun a b => BT.Beacon_BeaconId a < BT.Beacon_BeaconId b) w /\
  NoDup w /\
  (forall x, In x w <-> BS.go_st_GetBeacon s (BT.Beacon_BeaconId x) = Ok (x, true) /\ bcn_list_flt req x = true).
Proof. exact Bcn.offset_walk. Qed.
Print Assumptions C20_onstore_beacon_offset_walk.

(* following NextKey, reverse: the same entities, descending id *)
Theorem C20_onstore_beacon_key_walk_reverse : forall (s : okv BS.beacon_val) req (limit : N) (fuel : nat),
  okv_sorted s = true -> BE.beacon_store_wf s -> Bcn.beacon_ids_u64 s ->
  (1 <= limit)%N -> (limit + 1 < two64N)%N -> (N.of_nat (length (Bcn.store_items s)) < two64N)%N ->
  (length (Bcn.store_items s) + 1 <= fuel)%nat ->
  let w := all_pages_by_key_rev_cb fuel (Bcn.store_items s) (bcn_cb req) limit in
  (exists l, BS.go_st_GetAllBeacons s = Ok l /\ w = rev (filter (bcn_list_flt req) l)) /\
  StronglySorted (fun a b => BT.Beacon_BeaconId b < BT.Beacon_BeaconId a) w /\
  NoDup w /\
  (forall x, In x w <-> BS.go_st_GetBeacon s (BT.Beacon_BeaconId x) = Ok (x, true) /\ bcn_list_flt req x = true).
Proof. exact Bcn.key_walk_rev. Qed.
Print Assumptions C20_onstore_beacon_key_walk_reverse.

Theorem C20_onstore_beacon_offset_walk_reverse : forall (s : okv BS.beacon_val) req (limit : N) (fuel : nat),
  okv_sorted s = true -> BE.beacon_store_wf s -> Bcn.beacon_ids_u64 s ->
  (1 <= limit)%N -> (N.of_nat (length (Bcn.store_items s)) + limit + 1 < two64N)%N ->
  (length (Bcn.store_items s) + 1 <= fuel)%nat ->
  let w := all_pages_by_offset_rev_cb fuel (Bcn.store_items s) (bcn_cb req) limit in
  (exists l, BS.go_st_GetAllBeacons s = Ok l /\ w = rev (filter (bcn_list_flt req) l)) /\
  StronglySorted (fun a b => BT.Beacon_BeaconId b < BT.Beacon_BeaconId a) w /\
  NoDup w /\
  (forall x, In x w <-> BS.go_st_GetBeacon s (BT.Beacon_BeaconId x) = Ok (x, true) /\ bcn_list_flt req x = true).
Proof. exact Bcn.offset_walk_rev. Qed.
Print Assumptions C20_onstore_beacon_offset_walk_reverse.

(* one page, ANY page request (key / offset / reverse / count_total, any limit): every item is what the generated point
   reader answers for the item's id and matches the filter; no duplicates; within the effective limit *)
Theorem C20_onstore_beacon_single_page_sound : forall (s : okv BS.beacon_val) req (preq : page_req) r,
  okv_sorted s = true -> BE.beacon_store_wf s -> Bcn.beacon_ids_u64 s ->
  list_query_cb (Bcn.store_items s) (bcn_cb req) preq = Ok r ->
  (forall x, In x (cres_state r) -> BS.go_st_GetBeacon s (BT.Beacon_BeaconId x) = Ok (x, true) /\ bcn_list_flt req x = true) /\
  NoDup (cres_state r) /\
  ((pr_offset preq < two64N)%N -> (pr_limit preq < two64N)%N -> (N.of_nat (length (Bcn.store_items s)) < two64N)%N ->
   (length (cres_state r) <= N.to_nat (eff_limit preq))%nat).
Proof. exact Bcn.single_page. Qed.
Print Assumptions C20_onstore_beacon_single_page_sound.

(* count_total (offset mode; also when limit = 0) = the number of entities of the generated listing that match *)
Theorem C20_onstore_beacon_total_count : forall (s : okv BS.beacon_val) req (preq : page_req) r,
  BE.beacon_store_wf s -> Bcn.beacon_ids_u64 s ->
  (match pr_key preq with KeyAt _ => False | _ => True end) ->
  (pr_count_total preq = true \/ pr_limit preq = 0%N) ->
  (N.of_nat (length (Bcn.store_items s)) < two64N)%N ->
  list_query_cb (Bcn.store_items s) (bcn_cb req) preq = Ok r ->
  exists l, BS.go_st_GetAllBeacons s = Ok l /\ cres_total r = N.of_nat (length (filter (bcn_list_flt req) l)).
Proof. exact Bcn.total_count. Qed.
Print Assumptions C20_onstore_beacon_total_count.

(* consistent with point queries, complete: for each of the four walks *)
Theorem C20_onstore_beacon_point_consistent_complete : forall (s : okv BS.beacon_val) req (limit : N) (fuel : nat),
  okv_sorted s = true -> BE.beacon_store_wf s -> Bcn.beacon_ids_u64 s ->
  (1 <= limit)%N -> (N.of_nat (length (Bcn.store_items s)) + limit + 1 < two64N)%N ->
  (length (Bcn.store_items s) + 1 <= fuel)%nat ->
  forall w, In w [ all_pages_by_key_cb fuel (Bcn.store_items s) (bcn_cb req) limit;
                   all_pages_by_offset_cb fuel (Bcn.store_items s) (bcn_cb req) limit;
                   all_pages_by_key_rev_cb fuel (Bcn.store_items s) (bcn_cb req) limit;
                   all_pages_by_offset_rev_cb fuel (Bcn.store_items s) (bcn_cb req) limit ] ->
    (forall x, In x w -> BS.go_st_GetBeacon s (BT.Beacon_BeaconId x) = Ok (x, true) /\ bcn_list_flt req x = true) /\
    (forall id x, BS.go_st_GetBeacon s id = Ok (x, true) -> bcn_list_flt req x = true -> In x w) /\
    NoDup w.
Proof. exact Bcn.walks_point_consistent. Qed.
Print Assumptions C20_onstore_beacon_point_consistent_complete.

(* writes show up: after the generated writer, each walk over the new store lists x iff it matches and, for every other
   id, exactly what the point reader found on the OLD store *)
Theorem C20_onstore_beacon_write_shows_up : forall (s : okv BS.beacon_val) x s' req (limit : N) (fuel : nat),
  okv_sorted s = true -> BE.beacon_store_wf s -> Bcn.beacon_ids_u64 s ->
  0 <= BT.Beacon_BeaconId x < 2 ^ 64 -> BS.go_st_SetBeacon s x = Ok (s', tt) ->
  (1 <= limit)%N -> (N.of_nat (length (Bcn.store_items s')) + limit + 1 < two64N)%N ->
  (length (Bcn.store_items s') + 1 <= fuel)%nat ->
  okv_sorted s' = true /\ (BE.beacon_store_wf s' /\ Bcn.beacon_ids_u64 s') /\
  forall w, In w [ all_pages_by_key_cb fuel (Bcn.store_items s') (bcn_cb req) limit;
                   all_pages_by_offset_cb fuel (Bcn.store_items s') (bcn_cb req) limit;
                   all_pages_by_key_rev_cb fuel (Bcn.store_items s') (bcn_cb req) limit;
                   all_pages_by_offset_rev_cb fuel (Bcn.store_items s') (bcn_cb req) limit ] ->
    (bcn_list_flt req x = true -> In x w) /\
    (forall y, In y w <-> (y = x /\ bcn_list_flt req x = true) \/
                          (BT.Beacon_BeaconId y <> BT.Beacon_BeaconId x /\ BS.go_st_GetBeacon s (BT.Beacon_BeaconId y) = Ok (y, true) /\ bcn_list_flt req y = true)).
Proof. exact Bcn.write_shows_up. Qed.
Print Assumptions C20_onstore_beacon_write_shows_up.

(* the listing is a sub-listing of the store; one write adds at most one item (to discharge the length premises) *)
Theorem C20_onstore_beacon_store_items_length : forall (s : okv BS.beacon_val),
  (length (Bcn.store_items s) <= length s)%nat /\
  (forall x s', BS.go_st_SetBeacon s x = Ok (s', tt) -> (length (Bcn.store_items s') <= S (length (Bcn.store_items s)))%nat).
Proof. exact (fun s => conj (Bcn.items_length_le s) (fun x s' => Bcn.items_length_after_write s x s')). Qed.
Print Assumptions C20_onstore_beacon_store_items_length.

(* [beacon_ids_u64] is an invariant of the module's writers: SetBeacon of a beacon with a uint64 id keeps it (with
   [beacon_store_wf]), the other writers do not touch a beacon cell; it holds of the empty store *)
Theorem C20_onstore_beacon_ids_u64_preserved : forall (s s' : okv BS.beacon_val),
  (Bcn.beacon_ids_u64 []) /\
  (forall x, BE.beacon_store_wf s -> Bcn.beacon_ids_u64 s -> 0 <= BT.Beacon_BeaconId x < 2 ^ 64 ->
     BS.go_st_SetBeacon s x = Ok (s', tt) -> BE.beacon_store_wf s' /\ Bcn.beacon_ids_u64 s') /\
  (Bcn.beacon_ids_u64 s ->
     (exists p, BS.go_st_SetParams s p = Ok (s', tt)) \/
     (exists id, BS.go_st_SetHighestBeaconID s id = Ok (s', tt)) \/
     (exists id l, BS.go_st_SetBeaconStorageLimit s id l = Ok (s', tt)) \/
     (exists id ts, BS.go_st_SetBeaconTimestamp s id ts = Ok (s', tt)) \/
     (exists id t, BS.go_st_deleteBeaconTimestamp s id t = Ok (s', tt)) ->
     Bcn.beacon_ids_u64 s').
Proof. exact Bcn.ids_u64_preserved. Qed.
Print Assumptions C20_onstore_beacon_ids_u64_preserved.

(* ====================================================================================================== *)
(* x/enterprise                                                                                                   *)
(* ====================================================================================================== *)

(* the listing the query walks: the entries under the purchase order prefix, key decoded to the numeric id, value decoded *)
Theorem C20_onstore_enterprise_store_items_def : forall s : okv ES.enterprise_val,
  Ent.store_items s =
  map (fun kv => (de64 (strip_prefix GeneratedKeys.enterprise_PurchaseOrderIDKeyPrefix (fst kv)), match snd kv with ES.EV_EnterpriseUndPurchaseOrder x => x | _ => ET.zero_go_EnterpriseUndPurchaseOrder end))
      (okv_prefix s GeneratedKeys.enterprise_PurchaseOrderIDKeyPrefix).
Proof. exact Ent.store_items_def. Qed.
Print Assumptions C20_onstore_enterprise_store_items_def.

(* keys strictly ascending, distinct; an item's key is the id in its value; an item is listed iff the generated point reader
   finds it under its key; the values are the generated listing *)
Theorem C20_onstore_enterprise_store_items : forall (bech32 : go_addr -> outcome (list N)) (s : okv ES.enterprise_val), okv_sorted s = true -> EE.ent_wf bech32 s ->
  Sorted N.lt (map fst (Ent.store_items s)) /\
  NoDup (map fst (Ent.store_items s)) /\
  (forall n x, In (n, x) (Ent.store_items s) -> 0 <= ET.EnterpriseUndPurchaseOrder_Id x < 2 ^ 64 /\ Z.of_N n = ET.EnterpriseUndPurchaseOrder_Id x) /\
  (forall n x, (n < 2 ^ 64)%N -> (In (n, x) (Ent.store_items s) <-> ES.go_st_GetPurchaseOrder s (Z.of_N n) = Ok (x, true))) /\
  (exists l, ES.go_st_GetAllPurchaseOrders s = Ok l /\ Ent.store_items s = map (fun x => (Z.to_N (ET.EnterpriseUndPurchaseOrder_Id x), x)) l).
Proof. exact Ent.items_facts. Qed.
Print Assumptions C20_onstore_enterprise_store_items.

(* following NextKey, forward: the stored entities matching the filter, ascending id, each once, nothing else *)
Theorem C20_onstore_enterprise_key_walk : forall (bech32 : go_addr -> outcome (list N)) (s : okv ES.enterprise_val) req (limit : N) (fuel : nat),
  okv_sorted s = true -> EE.ent_wf bech32 s ->
  (1 <= limit)%N -> (limit + 1 < two64N)%N -> (N.of_nat (length (Ent.store_items s)) < two64N)%N ->
  (length (Ent.store_items s) + 1 <= fuel)%nat ->
  let w := all_pages_by_key_cb fuel (Ent.store_items s) (ent_cb req) limit in
  (exists l, ES.go_st_GetAllPurchaseOrders s = Ok l /\ w = filter (ent_po_flt req) l) /\
  StronglySorted (fun a b => ET.EnterpriseUndPurchaseOrder_Id a < ET.EnterpriseUndPurchaseOrder_Id b) w /\
  NoDup w /\
  (forall x, In x w <-> ES.go_st_GetPurchaseOrder s (ET.EnterpriseUndPurchaseOrder_Id x) = Ok (x, true) /\ ent_po_flt req x = true).
Proof. exact Ent.key_walk. Qed.
Print Assumptions C20_onstore_enterprise_key_walk.

(* stepping the offset, forward *)
Theorem C20_onstore_enterprise_offset_walk : forall (bech32 : go_addr -> outcome (list N)) (s : okv ES.enterprise_val) req (limit : N) (fuel : nat),
  okv_sorted s = true -> EE.ent_wf bech32 s ->
  (1 <= limit)%N -> (N.of_nat (length (Ent.store_items s)) + limit + 1 < two64N)%N ->
  (length (Ent.store_items s) + 1 <= fuel)%nat ->
  let w := all_pages_by_offset_cb fuel (Ent.store_items s) (ent_cb req) limit in
  (exists l, ES.go_st_GetAllPurchaseOrders s = Ok l /\ w = filter (ent_po_flt req) l) /\
  StronglySorted (fun a b => ET.EnterpriseUndPurchaseOrder_Id a < ET.EnterpriseUndPurchaseOrder_Id b) w /\
  NoDup w /\
  (forall x, In x w <-> ES.go_st_GetPurchaseOrder s (ET.EnterpriseUndPurchaseOrder_Id x) = Ok (x, true) /\ ent_po_flt req x = true).
Proof. exact Ent.offset_walk. Qed.
Print Assumptions C20_onstore_enterprise_offset_walk.

(* following NextKey, reverse: the same entities, descending id *)
Theorem C20_onstore_enterprise_key_walk_reverse : forall (bech32 : go_addr -> outcome (list N)) (s : okv ES.enterprise_val) req (limit : N) (fuel : nat),
  okv_sorted s = true -> EE.ent_wf bech32 s ->
  (1 <= limit)%N -> (limit + 1 < two64N)%N -> (N.of_nat (length (Ent.store_items s)) < two64N)%N ->
  (length (Ent.store_items s) + 1 <= fuel)%nat ->
  let w := all_pages_by_key_rev_cb fuel (Ent.store_items s) (ent_cb req) limit in
  (exists l, ES.go_st_GetAllPurchaseOrders s = Ok l /\ w = rev (filter (ent_po_flt req) l)) /\
  StronglySorted (fun a b => ET.EnterpriseUndPurchaseOrder_Id b < ET.EnterpriseUndPurchaseOrder_Id a) w /\
  NoDup w /\
  (forall x, In x w <-> ES.go_st_GetPurchaseOrder s (ET.EnterpriseUndPurchaseOrder_Id x) = Ok (x, true) /\ ent_po_flt req x = true).
Proof. exact Ent.key_walk_rev. Qed.
Print Assumptions C20_onstore_enterprise_key_walk_reverse.

Theorem C20_onstore_enterprise_offset_walk_reverse : forall (bech32 : go_addr -> outcome (list N)) (s : okv ES.enterprise_val) req (limit : N) (fuel : nat),
  okv_sorted s = true -> EE.ent_wf bech32 s ->
  (1 <= limit)%N -> (N.of_nat (length (Ent.store_items s)) + limit + 1 < two64N)%N ->
  (length (Ent.store_items s) + 1 <= fuel)%nat ->
  let w := all_pages_by_offset_rev_cb fuel (Ent.store_items s) (ent_cb req) limit in
  (exists l, ES.go_st_GetAllPurchaseOrders s = Ok l /\ w = rev (filter (ent_po_flt req) l)) /\
  StronglySorted (fun a b => ET.EnterpriseUndPurchaseOrder_Id b < ET.EnterpriseUndPurchaseOrder_Id a) w /\
  NoDup w /\
  (forall x, In x w <-> ES.go_st_GetPurchaseOrder s (ET.EnterpriseUndPurchaseOrder_Id x) = Ok (x, true) /\ ent_po_flt req x = true).
Proof. exact Ent.offset_walk_rev. Qed.
Print Assumptions C20_onstore_enterprise_offset_walk_reverse.

(* one page, ANY page request (key / offset / reverse / count_total, any limit): every item is what the generated point
   reader answers for the item's id and matches the filter; no duplicates; within the effective limit *)
Theorem C20_onstore_enterprise_single_page_sound : forall (bech32 : go_addr -> outcome (list N)) (s : okv ES.enterprise_val) req (preq : page_req) r,
  okv_sorted s = true -> EE.ent_wf bech32 s ->
  list_query_cb (Ent.store_items s) (ent_cb req) preq = Ok r ->
  (forall x, In x (cres_state r) -> ES.go_st_GetPurchaseOrder s (ET.EnterpriseUndPurchaseOrder_Id x) = Ok (x, true) /\ ent_po_flt req x = true) /\
  NoDup (cres_state r) /\
  ((pr_offset preq < two64N)%N -> (pr_limit preq < two64N)%N -> (N.of_nat (length (Ent.store_items s)) < two64N)%N ->
   (length (cres_state r) <= N.to_nat (eff_limit preq))%nat).
Proof. exact Ent.single_page. Qed.
Print Assumptions C20_onstore_enterprise_single_page_sound.

(* count_total (offset mode; also when limit = 0) = the number of entities of the generated listing that match *)
Theorem C20_onstore_enterprise_total_count : forall (bech32 : go_addr -> outcome (list N)) (s : okv ES.enterprise_val) req (preq : page_req) r,
  EE.ent_wf bech32 s ->
  (match pr_key preq with KeyAt _ => False | _ => True end) ->
  (pr_count_total preq = true \/ pr_limit preq = 0%N) ->
  (N.of_nat (length (Ent.store_items s)) < two64N)%N ->
  list_query_cb (Ent.store_items s) (ent_cb req) preq = Ok r ->
  exists l, ES.go_st_GetAllPurchaseOrders s = Ok l /\ cres_total r = N.of_nat (length (filter (ent_po_flt req) l)).
Proof. exact Ent.total_count. Qed.
Print Assumptions C20_onstore_enterprise_total_count.

(* consistent with point queries, complete: for each of the four walks *)
Theorem C20_onstore_enterprise_point_consistent_complete : forall (bech32 : go_addr -> outcome (list N)) (s : okv ES.enterprise_val) req (limit : N) (fuel : nat),
  okv_sorted s = true -> EE.ent_wf bech32 s ->
  (1 <= limit)%N -> (N.of_nat (length (Ent.store_items s)) + limit + 1 < two64N)%N ->
  (length (Ent.store_items s) + 1 <= fuel)%nat ->
  forall w, In w [ all_pages_by_key_cb fuel (Ent.store_items s) (ent_cb req) limit;
                   all_pages_by_offset_cb fuel (Ent.store_items s) (ent_cb req) limit;
                   all_pages_by_key_rev_cb fuel (Ent.store_items s) (ent_cb req) limit;
                   all_pages_by_offset_rev_cb fuel (Ent.store_items s) (ent_cb req) limit ] ->
    (forall x, In x w -> ES.go_st_GetPurchaseOrder s (ET.EnterpriseUndPurchaseOrder_Id x) = Ok (x, true) /\ ent_po_flt req x = true) /\
    (forall id x, ES.go_st_GetPurchaseOrder s id = Ok (x, true) -> ent_po_flt req x = true -> In x w) /\
    NoDup w.
Proof. exact Ent.walks_point_consistent. Qed.
Print Assumptions C20_onstore_enterprise_point_consistent_complete.

(* writes show up: after the generated writer, each walk over the new store lists x iff it matches and, for every other
   id, exactly what the point reader found on the OLD store *)
Theorem C20_onstore_enterprise_write_shows_up : forall (bech32 : go_addr -> outcome (list N)) (s : okv ES.enterprise_val) x s' req (limit : N) (fuel : nat),
  okv_sorted s = true -> EE.ent_wf bech32 s ->
  0 <= ET.EnterpriseUndPurchaseOrder_Id x < 2 ^ 64 -> ES.go_st_SetPurchaseOrder s x = Ok (s', tt) ->
  (1 <= limit)%N -> (N.of_nat (length (Ent.store_items s')) + limit + 1 < two64N)%N ->
  (length (Ent.store_items s') + 1 <= fuel)%nat ->
  okv_sorted s' = true /\ EE.ent_wf bech32 s' /\
  forall w, In w [ all_pages_by_key_cb fuel (Ent.store_items s') (ent_cb req) limit;
                   all_pages_by_offset_cb fuel (Ent.store_items s') (ent_cb req) limit;
                   all_pages_by_key_rev_cb fuel (Ent.store_items s') (ent_cb req) limit;
                   all_pages_by_offset_rev_cb fuel (Ent.store_items s') (ent_cb req) limit ] ->
    (ent_po_flt req x = true -> In x w) /\
    (forall y, In y w <-> (y = x /\ ent_po_flt req x = true) \/
                          (ET.EnterpriseUndPurchaseOrder_Id y <> ET.EnterpriseUndPurchaseOrder_Id x /\ ES.go_st_GetPurchaseOrder s (ET.EnterpriseUndPurchaseOrder_Id y) = Ok (y, true) /\ ent_po_flt req y = true)).
Proof. exact Ent.write_shows_up. Qed.
Print Assumptions C20_onstore_enterprise_write_shows_up.

(* the listing is a sub-listing of the store; one write adds at most one item (to discharge the length premises) *)
Theorem C20_onstore_enterprise_store_items_length : forall (s : okv ES.enterprise_val),
  (length (Ent.store_items s) <= length s)%nat /\
  (forall x s', ES.go_st_SetPurchaseOrder s x = Ok (s', tt) -> (length (Ent.store_items s') <= S (length (Ent.store_items s)))%nat).
Proof. exact (fun s => conj (Ent.items_length_le s) (fun x s' => Ent.items_length_after_write s x s')). Qed.
Print Assumptions C20_onstore_enterprise_store_items_length.

(* ====================================================================================================== *)
(* x/stream (GenericFilteredPaginate; key-parsing callbacks)                                               *)
(* ====================================================================================================== *)
(* The store keys are byte strings; the numeric keys of the pagination model are the RANKS 2*i+1 of the entries of the
   prefix listing (order-isomorphic to the byte keys, as model/Paginate.v asks for); an item's value is the raw store
   entry (byte key, value), the filter is the GENERATED key callback run on the key with the prefix stripped
   ([Str.hitv cb P]: the callback answers Ok (Some _)), and a page's results are the callback's (receiver, sender)
   with the decoded stream ([Str.results cb P]).  NextKey is therefore a rank, not a byte key. *)
Theorem C20_onstore_stream_definitions :
  (forall P (st : okv SS.stream_val), Str.store_items P st = rank_from 0 (okv_prefix st P)) /\
  (forall cb P (e : list N * SS.stream_val),
     Str.hitv cb P e = match cb (strip_prefix P (fst e)) with Ok (Some _) => true | _ => false end) /\
  (forall cb P (e : list N * SS.stream_val),
     Str.cb_result cb P e = match cb (strip_prefix P (fst e)), snd e with
                            | Ok (Some (r, s)), SS.SV_Stream x => (r, s, x)
                            | _, _ => ([], [], GeneratedStreamTypes.zero_go_Stream) end) /\
  (forall cb P its, Str.results cb P its = map (fun it => Str.cb_result cb P (snd it)) its) /\
  (forall cb P st preq, Str.page cb P st preq =
     omap (fun r => (Str.results cb P (res_items r), res_next_key r, res_total r))
          (generic_filtered_paginate (Str.store_items P st) (vflt (Str.hitv cb P)) preq)) /\
  (forall a, Str.sel_all a = true) /\
  (forall sender r s x, Str.sel_sender sender (r, s, x) = key_eqb s sender) /\
  (forall rcv r s x, Str.sel_receiver rcv (r, s, x) = key_eqb r rcv).
Proof. repeat split. Qed.
Print Assumptions C20_onstore_stream_definitions.

(* the prefix stores the three handlers open (generated from query_streams.go) *)
Theorem C20_onstore_stream_prefixes :
  GeneratedKeys.go_stream_Streams_prefix = Ok str_prefix_all /\
  GeneratedKeys.go_stream_AllStreamsForSender_prefix = Ok str_prefix_all /\
  (forall rcv, SE.addr_ok rcv -> GeneratedKeys.go_stream_AllStreamsForReceiver_prefix rcv = Ok (str_prefix_receiver rcv)).
Proof. exact Str.prefixes. Qed.
Print Assumptions C20_onstore_stream_prefixes.

Theorem C20_onstore_stream_store_items_length : forall P (st : okv SS.stream_val),
  (length (Str.store_items P st) <= length st)%nat /\
  (forall r s x st' u, SS.go_st_SetStream st r s x = Ok (st', u) ->
     (length (Str.store_items P st') <= S (length (Str.store_items P st)))%nat).
Proof. exact (fun P st => conj (Str.store_items_length_le P st) (fun r s x st' u => Str.store_items_length_after_write P st r s x st' u)). Qed.
Print Assumptions C20_onstore_stream_store_items_length.

(* ---- Streams (every stream) ---- *)
Theorem C20_onstore_stream_streams_key_walk : forall (st : okv SS.stream_val) (limit : N) (fuel : nat),
  SE.stream_store_wf st -> okv_sorted st = true ->
  (1 <= limit)%N -> (limit + 1 < two64N)%N -> (N.of_nat (length (Str.store_items str_prefix_all st)) < two64N)%N ->
  (length (Str.store_items str_prefix_all st) + 1 <= fuel)%nat ->
  let w := Str.results GeneratedKeys.go_stream_Streams_callback str_prefix_all (all_pages_by_key fuel (Str.store_items str_prefix_all st) (vflt (Str.hitv GeneratedKeys.go_stream_Streams_callback str_prefix_all)) limit) in
  (exists L, SS.go_st_IterateAllStreams st (fun acc a => Ok (acc ++ [a], false)) [] = Ok L /\ w = filter Str.sel_all L) /\
  NoDup (map fst w) /\
  (forall r s x, In (r, s, x) w <->
     SE.addr_ok r /\ SE.addr_ok s /\ SS.go_st_GetStream st r s = Ok (x, true) /\ Str.sel_all (r, s, x) = true).
Proof. exact (Str.key_walk _ _ _ Str.spec_streams). Qed.
Print Assumptions C20_onstore_stream_streams_key_walk.

Theorem C20_onstore_stream_streams_offset_walk : forall (st : okv SS.stream_val) (limit : N) (fuel : nat),
  SE.stream_store_wf st -> okv_sorted st = true ->
  (1 <= limit)%N -> (N.of_nat (length (Str.store_items str_prefix_all st)) + limit + 1 < two64N)%N ->
  (length (Str.store_items str_prefix_all st) + 1 <= fuel)%nat ->
  let w := Str.results GeneratedKeys.go_stream_Streams_callback str_prefix_all (all_pages_by_offset fuel (Str.store_items str_prefix_all st) (vflt (Str.hitv GeneratedKeys.go_stream_Streams_callback str_prefix_all)) limit) in
  (exists L, SS.go_st_IterateAllStreams st (fun acc a => Ok (acc ++ [a], false)) [] = Ok L /\ w = filter Str.sel_all L) /\
  NoDup (map fst w) /\
  (forall r s x, In (r, s, x) w <->
     SE.addr_ok r /\ SE.addr_ok s /\ SS.go_st_GetStream st r s = Ok (x, true) /\ Str.sel_all (r, s, x) = true).
Proof. exact (Str.offset_walk _ _ _ Str.spec_streams). Qed.
Print Assumptions C20_onstore_stream_streams_offset_walk.

Theorem C20_onstore_stream_streams_key_walk_reverse : forall (st : okv SS.stream_val) (limit : N) (fuel : nat),
  SE.stream_store_wf st -> okv_sorted st = true ->
  (1 <= limit)%N -> (limit + 1 < two64N)%N -> (N.of_nat (length (Str.store_items str_prefix_all st)) < two64N)%N ->
  (length (Str.store_items str_prefix_all st) + 1 <= fuel)%nat ->
  let w := Str.results GeneratedKeys.go_stream_Streams_callback str_prefix_all (all_pages_by_key_rev fuel (Str.store_items str_prefix_all st) (vflt (Str.hitv GeneratedKeys.go_stream_Streams_callback str_prefix_all)) limit) in
  (exists L, SS.go_st_IterateAllStreams st (fun acc a => Ok (acc ++ [a], false)) [] = Ok L /\ w = rev (filter Str.sel_all L)) /\
  NoDup (map fst w) /\
  (forall r s x, In (r, s, x) w <->
     SE.addr_ok r /\ SE.addr_ok s /\ SS.go_st_GetStream st r s = Ok (x, true) /\ Str.sel_all (r, s, x) = true).
Proof. exact (Str.key_walk_rev _ _ _ Str.spec_streams). Qed.
Print Assumptions C20_onstore_stream_streams_key_walk_reverse.

Theorem C20_onstore_stream_streams_offset_walk_reverse : forall (st : okv SS.stream_val) (limit : N) (fuel : nat),
  SE.stream_store_wf st -> okv_sorted st = true ->
  (1 <= limit)%N -> (N.of_nat (length (Str.store_items str_prefix_all st)) + limit + 1 < two64N)%N ->
  (length (Str.store_items str_prefix_all st) + 1 <= fuel)%nat ->
  let w := Str.results GeneratedKeys.go_stream_Streams_callback str_prefix_all (all_pages_by_offset_rev fuel (Str.store_items str_prefix_all st) (vflt (Str.hitv GeneratedKeys.go_stream_Streams_callback str_prefix_all)) limit) in
  (exists L, SS.go_st_IterateAllStreams st (fun acc a => Ok (acc ++ [a], false)) [] = Ok L /\ w = rev (filter Str.sel_all L)) /\
  NoDup (map fst w) /\
  (forall r s x, In (r, s, x) w <->
     SE.addr_ok r /\ SE.addr_ok s /\ SS.go_st_GetStream st r s = Ok (x, true) /\ Str.sel_all (r, s, x) = true).
Proof. exact (Str.offset_walk_rev _ _ _ Str.spec_streams). Qed.
Print Assumptions C20_onstore_stream_streams_offset_walk_reverse.

(* no call of the key callback panics on a well-formed store (the pagination model's filter cannot fail: nothing is lost) *)
Theorem C20_onstore_stream_streams_callbacks_total : forall (st : okv SS.stream_val),
  SE.stream_store_wf st ->
  forall k v, In (k, v) (okv_prefix st str_prefix_all) -> exists o, GeneratedKeys.go_stream_Streams_callback (strip_prefix str_prefix_all k) = Ok o.
Proof. exact (Str.callbacks_total _ _ _ Str.spec_streams). Qed.
Print Assumptions C20_onstore_stream_streams_callbacks_total.

Theorem C20_onstore_stream_streams_single_page_sound : forall (st : okv SS.stream_val) (preq : page_req) res nk tot,
  SE.stream_store_wf st -> okv_sorted st = true ->
  Str.page GeneratedKeys.go_stream_Streams_callback str_prefix_all st preq = Ok (res, nk, tot) ->
  (forall r s x, In (r, s, x) res ->
     SE.addr_ok r /\ SE.addr_ok s /\ SS.go_st_GetStream st r s = Ok (x, true) /\ Str.sel_all (r, s, x) = true) /\
  ((pr_offset preq < two64N)%N -> (pr_limit preq < two64N)%N -> (N.of_nat (length (Str.store_items str_prefix_all st)) < two64N)%N ->
   (length res <= N.to_nat (eff_limit preq))%nat).
Proof. exact (Str.single_page _ _ _ Str.spec_streams). Qed.
Print Assumptions C20_onstore_stream_streams_single_page_sound.

Theorem C20_onstore_stream_streams_total_count : forall (st : okv SS.stream_val) (preq : page_req) res nk tot,
  SE.stream_store_wf st ->
  (match pr_key preq with KeyAt _ => False | _ => True end) ->
  (pr_count_total preq = true \/ pr_limit preq = 0%N) ->
  (N.of_nat (length (Str.store_items str_prefix_all st)) < two64N)%N ->
  Str.page GeneratedKeys.go_stream_Streams_callback str_prefix_all st preq = Ok (res, nk, tot) ->
  exists L, SS.go_st_IterateAllStreams st (fun acc a => Ok (acc ++ [a], false)) [] = Ok L /\
            tot = N.of_nat (length (filter Str.sel_all L)).
Proof. exact (Str.total_count _ _ _ Str.spec_streams). Qed.
Print Assumptions C20_onstore_stream_streams_total_count.

Theorem C20_onstore_stream_streams_point_consistent_complete : forall (st : okv SS.stream_val) (limit : N) (fuel : nat),
  SE.stream_store_wf st -> okv_sorted st = true ->
  (1 <= limit)%N -> (N.of_nat (length (Str.store_items str_prefix_all st)) + limit + 1 < two64N)%N ->
  (length (Str.store_items str_prefix_all st) + 1 <= fuel)%nat ->
  forall w, In w [ Str.results GeneratedKeys.go_stream_Streams_callback str_prefix_all (all_pages_by_key fuel (Str.store_items str_prefix_all st) (vflt (Str.hitv GeneratedKeys.go_stream_Streams_callback str_prefix_all)) limit);
                   Str.results GeneratedKeys.go_stream_Streams_callback str_prefix_all (all_pages_by_offset fuel (Str.store_items str_prefix_all st) (vflt (Str.hitv GeneratedKeys.go_stream_Streams_callback str_prefix_all)) limit);
                   Str.results GeneratedKeys.go_stream_Streams_callback str_prefix_all (all_pages_by_key_rev fuel (Str.store_items str_prefix_all st) (vflt (Str.hitv GeneratedKeys.go_stream_Streams_callback str_prefix_all)) limit);
                   Str.results GeneratedKeys.go_stream_Streams_callback str_prefix_all (all_pages_by_offset_rev fuel (Str.store_items str_prefix_all st) (vflt (Str.hitv GeneratedKeys.go_stream_Streams_callback str_prefix_all)) limit) ] ->
    (forall r s x, In (r, s, x) w <->
       SE.addr_ok r /\ SE.addr_ok s /\ SS.go_st_GetStream st r s = Ok (x, true) /\ Str.sel_all (r, s, x) = true) /\
    NoDup (map fst w).
Proof. exact (Str.walks_point_consistent _ _ _ Str.spec_streams). Qed.
Print Assumptions C20_onstore_stream_streams_point_consistent_complete.

Theorem C20_onstore_stream_streams_write_shows_up : forall (st : okv SS.stream_val) r s x st' u (limit : N) (fuel : nat),
  SE.stream_store_wf st -> okv_sorted st = true ->
  SE.addr_ok r -> SE.addr_ok s -> SS.go_st_SetStream st r s x = Ok (st', u) ->
  (1 <= limit)%N -> (N.of_nat (length (Str.store_items str_prefix_all st')) + limit + 1 < two64N)%N ->
  (length (Str.store_items str_prefix_all st') + 1 <= fuel)%nat ->
  SE.stream_store_wf st' /\ okv_sorted st' = true /\
  forall w, In w [ Str.results GeneratedKeys.go_stream_Streams_callback str_prefix_all (all_pages_by_key fuel (Str.store_items str_prefix_all st') (vflt (Str.hitv GeneratedKeys.go_stream_Streams_callback str_prefix_all)) limit);
                   Str.results GeneratedKeys.go_stream_Streams_callback str_prefix_all (all_pages_by_offset fuel (Str.store_items str_prefix_all st') (vflt (Str.hitv GeneratedKeys.go_stream_Streams_callback str_prefix_all)) limit);
                   Str.results GeneratedKeys.go_stream_Streams_callback str_prefix_all (all_pages_by_key_rev fuel (Str.store_items str_prefix_all st') (vflt (Str.hitv GeneratedKeys.go_stream_Streams_callback str_prefix_all)) limit);
                   Str.results GeneratedKeys.go_stream_Streams_callback str_prefix_all (all_pages_by_offset_rev fuel (Str.store_items str_prefix_all st') (vflt (Str.hitv GeneratedKeys.go_stream_Streams_callback str_prefix_all)) limit) ] ->
    (Str.sel_all (r, s, x) = true -> In (r, s, x) w) /\
    (forall r' s' x', In (r', s', x') w <->
       ((r', s', x') = (r, s, x) /\ Str.sel_all (r, s, x) = true) \/
       ((r', s') <> (r, s) /\ SE.addr_ok r' /\ SE.addr_ok s' /\ SS.go_st_GetStream st r' s' = Ok (x', true) /\
        Str.sel_all (r', s', x') = true)).
Proof. exact (Str.write_shows_up _ _ _ Str.spec_streams). Qed.
Print Assumptions C20_onstore_stream_streams_write_shows_up.

(* ---- AllStreamsForSender (the streams whose sender is the given address) ---- *)
Theorem C20_onstore_stream_by_sender_key_walk : forall (sender : list N), forall (st : okv SS.stream_val) (limit : N) (fuel : nat),
  SE.stream_store_wf st -> okv_sorted st = true ->
  (1 <= limit)%N -> (limit + 1 < two64N)%N -> (N.of_nat (length (Str.store_items str_prefix_all st)) < two64N)%N ->
  (length (Str.store_items str_prefix_all st) + 1 <= fuel)%nat ->
  let w := Str.results (GeneratedKeys.go_stream_AllStreamsForSender_callback sender) str_prefix_all (all_pages_by_key fuel (Str.store_items str_prefix_all st) (vflt (Str.hitv (GeneratedKeys.go_stream_AllStreamsForSender_callback sender) str_prefix_all)) limit) in
  (exists L, SS.go_st_IterateAllStreams st (fun acc a => Ok (acc ++ [a], false)) [] = Ok L /\ w = filter (Str.sel_sender sender) L) /\
  NoDup (map fst w) /\
  (forall r s x, In (r, s, x) w <->
     SE.addr_ok r /\ SE.addr_ok s /\ SS.go_st_GetStream st r s = Ok (x, true) /\ (Str.sel_sender sender) (r, s, x) = true).
Proof. exact (fun sender => Str.key_walk _ _ _ (Str.spec_sender sender)). Qed.
Print Assumptions C20_onstore_stream_by_sender_key_walk.

Theorem C20_onstore_stream_by_sender_offset_walk : forall (sender : list N), forall (st : okv SS.stream_val) (limit : N) (fuel : nat),
  SE.stream_store_wf st -> okv_sorted st = true ->
  (1 <= limit)%N -> (N.of_nat (length (Str.store_items str_prefix_all st)) + limit + 1 < two64N)%N ->
  (length (Str.store_items str_prefix_all st) + 1 <= fuel)%nat ->
  let w := Str.results (GeneratedKeys.go_stream_AllStreamsForSender_callback sender) str_prefix_all (all_pages_by_offset fuel (Str.store_items str_prefix_all st) (vflt (Str.hitv (GeneratedKeys.go_stream_AllStreamsForSender_callback sender) str_prefix_all)) limit) in
  (exists L, SS.go_st_IterateAllStreams st (fun acc a => Ok (acc ++ [a], false)) [] = Ok L /\ w = filter (Str.sel_sender sender) L) /\
  NoDup (map fst w) /\
  (forall r s x, In (r, s, x) w <->
     SE.addr_ok r /\ SE.addr_ok s /\ SS.go_st_GetStream st r s = Ok (x, true) /\ (Str.sel_sender sender) (r, s, x) = true).
Proof. exact (fun sender => Str.offset_walk _ _ _ (Str.spec_sender sender)). Qed.
Print Assumptions C20_onstore_stream_by_sender_offset_walk.

Theorem C20_onstore_stream_by_sender_key_walk_reverse : forall (sender : list N), forall (st : okv SS.stream_val) (limit : N) (fuel : nat),
  SE.stream_store_wf st -> okv_sorted st = true ->
  (1 <= limit)%N -> (limit + 1 < two64N)%N -> (N.of_nat (length (Str.store_items str_prefix_all st)) < two64N)%N ->
  (length (Str.store_items str_prefix_all st) + 1 <= fuel)%nat ->
  let w := Str.results (GeneratedKeys.go_stream_AllStreamsForSender_callback sender) str_prefix_all (all_pages_by_key_rev fuel (Str.store_items str_prefix_all st) (vflt (Str.hitv (GeneratedKeys.go_stream_AllStreamsForSender_callback sender) str_prefix_all)) limit) in
  (exists L, SS.go_st_IterateAllStreams st (fun acc a => Ok (acc ++ [a], false)) [] = Ok L /\ w = rev (filter (Str.sel_sender sender) L)) /\
  NoDup (map fst w) /\
  (forall r s x, In (r, s, x) w <->
     SE.addr_ok r /\ SE.addr_ok s /\ SS.go_st_GetStream st r s = Ok (x, true) /\ (Str.sel_sender sender) (r, s, x) = true).
Proof. exact (fun sender => Str.key_walk_rev _ _ _ (Str.spec_sender sender)). Qed.
Print Assumptions C20_onstore_stream_by_sender_key_walk_reverse.

Theorem C20_onstore_stream_by_sender_offset_walk_reverse : forall (sender : list N), forall (st : okv SS.stream_val) (limit : N) (fuel : nat),
  SE.stream_store_wf st -> okv_sorted st = true ->
  (1 <= limit)%N -> (N.of_nat (length (Str.store_items str_prefix_all st)) + limit + 1 < two64N)%N ->
  (length (Str.store_items str_prefix_all st) + 1 <= fuel)%nat ->
  let w := Str.results (GeneratedKeys.go_stream_AllStreamsForSender_callback sender) str_prefix_all (all_pages_by_offset_rev fuel (Str.store_items str_prefix_all st) (vflt (Str.hitv (GeneratedKeys.go_stream_AllStreamsForSender_callback sender) str_prefix_all)) limit) in
  (exists L, SS.go_st_IterateAllStreams st (fun acc a => Ok (acc ++ [a], false)) [] = Ok L /\ w = rev (filter (Str.sel_sender sender) L)) /\
  NoDup (map fst w) /\
  (forall r s x, In (r, s, x) w <->
     SE.addr_ok r /\ SE.addr_ok s /\ SS.go_st_GetStream st r s = Ok (x, true) /\ (Str.sel_sender sender) (r, s, x) = true).
Proof. exact (fun sender => Str.offset_walk_rev _ _ _ (Str.spec_sender sender)). Qed.
Print Assumptions C20_onstore_stream_by_sender_offset_walk_reverse.

(* no call of the key callback panics on a well-formed store (the pagination model's filter cannot fail: nothing is lost) *)
Theorem C20_onstore_stream_by_sender_callbacks_total : forall (sender : list N), forall (st : okv SS.stream_val),
  SE.stream_store_wf st ->
  forall k v, In (k, v) (okv_prefix st str_prefix_all) -> exists o, (GeneratedKeys.go_stream_AllStreamsForSender_callback sender) (strip_prefix str_prefix_all k) = Ok o.
Proof. exact (fun sender => Str.callbacks_total _ _ _ (Str.spec_sender sender)). Qed.
Print Assumptions C20_onstore_stream_by_sender_callbacks_total.

Theorem C20_onstore_stream_by_sender_single_page_sound : forall (sender : list N), forall (st : okv SS.stream_val) (preq : page_req) res nk tot,
  SE.stream_store_wf st -> okv_sorted st = true ->
  Str.page (GeneratedKeys.go_stream_AllStreamsForSender_callback sender) str_prefix_all st preq = Ok (res, nk, tot) ->
  (forall r s x, In (r, s, x) res ->
     SE.addr_ok r /\ SE.addr_ok s /\ SS.go_st_GetStream st r s = Ok (x, true) /\ (Str.sel_sender sender) (r, s, x) = true) /\
  ((pr_offset preq < two64N)%N -> (pr_limit preq < two64N)%N -> (N.of_nat (length (Str.store_items str_prefix_all st)) < two64N)%N ->
   (length res <= N.to_nat (eff_limit preq))%nat).
Proof. exact (fun sender => Str.single_page _ _ _ (Str.spec_sender sender)). Qed.
Print Assumptions C20_onstore_stream_by_sender_single_page_sound.

Theorem C20_onstore_stream_by_sender_total_count : forall (sender : list N), forall (st : okv SS.stream_val) (preq : page_req) res nk tot,
  SE.stream_store_wf st ->
  (match pr_key preq with KeyAt _ => False | _ => True end) ->
  (pr_count_total preq = true \/ pr_limit preq = 0%N) ->
  (N.of_nat (length (Str.store_items str_prefix_all st)) < two64N)%N ->
  Str.page (GeneratedKeys.go_stream_AllStreamsForSender_callback sender) str_prefix_all st preq = Ok (res, nk, tot) ->
  exists L, SS.go_st_IterateAllStreams st (fun acc a => Ok (acc ++ [a], false)) [] = Ok L /\
            tot = N.of_nat (length (filter (Str.sel_sender sender) L)).
Proof. exact (fun sender => Str.total_count _ _ _ (Str.spec_sender sender)). Qed.
Print Assumptions C20_onstore_stream_by_sender_total_count.

Theorem C20_onstore_stream_by_sender_point_consistent_complete : forall (sender : list N), forall (st : okv SS.stream_val) (limit : N) (fuel : nat),
  SE.stream_store_wf st -> okv_sorted st = true ->
  (1 <= limit)%N -> (N.of_nat (length (Str.store_items str_prefix_all st)) + limit + 1 < two64N)%N ->
  (length (Str.store_items str_prefix_all st) + 1 <= fuel)%nat ->
  forall w, In w [ Str.results (GeneratedKeys.go_stream_AllStreamsForSender_callback sender) str_prefix_all (all_pages_by_key fuel (Str.store_items str_prefix_all st) (vflt (Str.hitv (GeneratedKeys.go_stream_AllStreamsForSender_callback sender) str_prefix_all)) limit);
                   Str.results (GeneratedKeys.go_stream_AllStreamsForSender_callback sender) str_prefix_all (all_pages_by_offset fuel (Str.store_items str_prefix_all st) (vflt (Str.hitv (GeneratedKeys.go_stream_AllStreamsForSender_callback sender) str_prefix_all)) limit);
                   Str.results (GeneratedKeys.go_stream_AllStreamsForSender_callback sender) str_prefix_all (all_pages_by_key_rev fuel (Str.store_items str_prefix_all st) (vflt (Str.hitv (GeneratedKeys.go_stream_AllStreamsForSender_callback sender) str_prefix_all)) limit);
                   Str.results (GeneratedKeys.go_stream_AllStreamsForSender_callback sender) str_prefix_all (all_pages_by_offset_rev fuel (Str.store_items str_prefix_all st) (vflt (Str.hitv (GeneratedKeys.go_stream_AllStreamsForSender_callback sender) str_prefix_all)) limit) ] ->
    (forall r s x, In (r, s, x) w <->
       SE.addr_ok r /\ SE.addr_ok s /\ SS.go_st_GetStream st r s = Ok (x, true) /\ (Str.sel_sender sender) (r, s, x) = true) /\
    NoDup (map fst w).
Proof. exact (fun sender => Str.walks_point_consistent _ _ _ (Str.spec_sender sender)). Qed.
Print Assumptions C20_onstore_stream_by_sender_point_consistent_complete.

Theorem C20_onstore_stream_by_sender_write_shows_up : forall (sender : list N), forall (st : okv SS.stream_val) r s x st' u (limit : N) (fuel : nat),
  SE.stream_store_wf st -> okv_sorted st = true ->
  SE.addr_ok r -> SE.addr_ok s -> SS.go_st_SetStream st r s x = Ok (st', u) ->
  (1 <= limit)%N -> (N.of_nat (length (Str.store_items str_prefix_all st')) + limit + 1 < two64N)%N ->
  (length (Str.store_items str_prefix_all st') + 1 <= fuel)%nat ->
  SE.stream_store_wf st' /\ okv_sorted st' = true /\
  forall w, In w [ Str.results (GeneratedKeys.go_stream_AllStreamsForSender_callback sender) str_prefix_all (all_pages_by_key fuel (Str.store_items str_prefix_all st') (vflt (Str.hitv (GeneratedKeys.go_stream_AllStreamsForSender_callback sender) str_prefix_all)) limit);
                   Str.results (GeneratedKeys.go_stream_AllStreamsForSender_callback sender) str_prefix_all (all_pages_by_offset fuel (Str.store_items str_prefix_all st') (vflt (Str.hitv (GeneratedKeys.go_stream_AllStreamsForSender_callback sender) str_prefix_all)) limit);
                   Str.results (GeneratedKeys.go_stream_AllStreamsForSender_callback sender) str_prefix_all (all_pages_by_key_rev fuel (Str.store_items str_prefix_all st') (vflt (Str.hitv (GeneratedKeys.go_stream_AllStreamsForSender_callback sender) str_prefix_all)) limit);
                   Str.results (GeneratedKeys.go_stream_AllStreamsForSender_callback sender) str_prefix_all (all_pages_by_offset_rev fuel (Str.store_items str_prefix_all st') (vflt (Str.hitv (GeneratedKeys.go_stream_AllStreamsForSender_callback sender) str_prefix_all)) limit) ] ->
    ((Str.sel_sender sender) (r, s, x) = true -> In (r, s, x) w) /\
    (forall r' s' x', In (r', s', x') w <->
       ((r', s', x') = (r, s, x) /\ (Str.sel_sender sender) (r, s, x) = true) \/
       ((r', s') <> (r, s) /\ SE.addr_ok r' /\ SE.addr_ok s' /\ SS.go_st_GetStream st r' s' = Ok (x', true) /\
        (Str.sel_sender sender) (r', s', x') = true)).
Proof. exact (fun sender => Str.write_shows_up _ _ _ (Str.spec_sender sender)). Qed.
Print Assumptions C20_onstore_stream_by_sender_write_shows_up.

(* ---- AllStreamsForReceiver (the streams whose receiver is the given non-empty address; its own prefix store) ---- *)
Theorem C20_onstore_stream_by_receiver_key_walk : forall (rcv : list N) (Hrcv : rcv <> []), forall (st : okv SS.stream_val) (limit : N) (fuel : nat),
  SE.stream_store_wf st -> okv_sorted st = true ->
  (1 <= limit)%N -> (limit + 1 < two64N)%N -> (N.of_nat (length (Str.store_items (str_prefix_receiver rcv) st)) < two64N)%N ->
  (length (Str.store_items (str_prefix_receiver rcv) st) + 1 <= fuel)%nat ->
  let w := Str.results (GeneratedKeys.go_stream_AllStreamsForReceiver_callback rcv) (str_prefix_receiver rcv) (all_pages_by_key fuel (Str.store_items (str_prefix_receiver rcv) st) (vflt (Str.hitv (GeneratedKeys.go_stream_AllStreamsForReceiver_callback rcv) (str_prefix_receiver rcv))) limit) in
  (exists L, SS.go_st_IterateAllStreams st (fun acc a => Ok (acc ++ [a], false)) [] = Ok L /\ w = filter (Str.sel_receiver rcv) L) /\
  NoDup (map fst w) /\
  (forall r s x, In (r, s, x) w <->
     SE.addr_ok r /\ SE.addr_ok s /\ SS.go_st_GetStream st r s = Ok (x, true) /\ (Str.sel_receiver rcv) (r, s, x) = true).
Proof. exact (fun rcv Hrcv => Str.key_walk _ _ _ (Str.spec_receiver rcv Hrcv)). Qed.
Print Assumptions C20_onstore_stream_by_receiver_key_walk.

Theorem C20_onstore_stream_by_receiver_offset_walk : forall (rcv : list N) (Hrcv : rcv <> []), forall (st : okv SS.stream_val) (limit : N) (fuel : nat),
  SE.stream_store_wf st -> okv_sorted st = true ->
  (1 <= limit)%N -> (N.of_nat (length (Str.store_items (str_prefix_receiver rcv) st)) + limit + 1 < two64N)%N ->
  (length (Str.store_items (str_prefix_receiver rcv) st) + 1 <= fuel)%nat ->
  let w := Str.results (GeneratedKeys.go_stream_AllStreamsForReceiver_callback rcv) (str_prefix_receiver rcv) (all_pages_by_offset fuel (Str.store_items (str_prefix_receiver rcv) st) (vflt (Str.hitv (GeneratedKeys.go_stream_AllStreamsForReceiver_callback rcv) (str_prefix_receiver rcv))) limit) in
  (exists L, SS.go_st_IterateAllStreams st (fun acc a => Ok (acc ++ [a], false)) [] = Ok L /\ w = filter (Str.sel_receiver rcv) L) /\
  NoDup (map fst w) /\
  (forall r s x, In (r, s, x) w <->
     SE.addr_ok r /\ SE.addr_ok s /\ SS.go_st_GetStream st r s = Ok (x, true) /\ (Str.sel_receiver rcv) (r, s, x) = true).
Proof. exact (fun rcv Hrcv => Str.offset_walk _ _ _ (Str.spec_receiver rcv Hrcv)). Qed.
Print Assumptions C20_onstore_stream_by_receiver_offset_walk.

Theorem C20_onstore_stream_by_receiver_key_walk_reverse : forall (rcv : list N) (Hrcv : rcv <> []), forall (st : okv SS.stream_val) (limit : N) (fuel : nat),
  SE.stream_store_wf st -> okv_sorted st = true ->
  (1 <= limit)%N -> (limit + 1 < two64N)%N -> (N.of_nat (length (Str.store_items (str_prefix_receiver rcv) st)) < two64N)%N ->
  (length (Str.store_items (str_prefix_receiver rcv) st) + 1 <= fuel)%nat ->
  let w := Str.results (GeneratedKeys.go_stream_AllStreamsForReceiver_callback rcv) (str_prefix_receiver rcv) (all_pages_by_key_rev fuel (Str.store_items (str_prefix_receiver rcv) st) (vflt (Str.hitv (GeneratedKeys.go_stream_AllStreamsForReceiver_callback rcv) (str_prefix_receiver rcv))) limit) in
  (exists L, SS.go_st_IterateAllStreams st (fun acc a => Ok (acc ++ [a], false)) [] = Ok L /\ w = rev (filter (Str.sel_receiver rcv) L)) /\
  NoDup (map fst w) /\
  (forall r s x, In (r, s, x) w <->
     SE.addr_ok r /\ SE.addr_ok s /\ SS.go_st_GetStream st r s = Ok (x, true) /\ (Str.sel_receiver rcv) (r, s, x) = true).
Proof. exact (fun rcv Hrcv => Str.key_walk_rev _ _ _ (Str.spec_receiver rcv Hrcv)). Qed.
Print Assumptions C20_onstore_stream_by_receiver_key_walk_reverse.

Theorem C20_onstore_stream_by_receiver_offset_walk_reverse : forall (rcv : list N) (Hrcv : rcv <> []), forall (st : okv SS.stream_val) (limit : N) (fuel : nat),
  SE.stream_store_wf st -> okv_sorted st = true ->
  (1 <= limit)%N -> (N.of_nat (length (Str.store_items (str_prefix_receiver rcv) st)) + limit + 1 < two64N)%N ->
  (length (Str.store_items (str_prefix_receiver rcv) st) + 1 <= fuel)%nat ->
  let w := Str.results (GeneratedKeys.go_stream_AllStreamsForReceiver_callback rcv) (str_prefix_receiver rcv) (all_pages_by_offset_rev fuel (Str.store_items (str_prefix_receiver rcv) st) (vflt (Str.hitv (GeneratedKeys.go_stream_AllStreamsForReceiver_callback rcv) (str_prefix_receiver rcv))) limit) in
  (exists L, SS.go_st_IterateAllStreams st (fun acc a => Ok (acc ++ [a], false)) [] = Ok L /\ w = rev (filter (Str.sel_receiver rcv) L)) /\
  NoDup (map fst w) /\
  (forall r s x, In (r, s, x) w <->
     SE.addr_ok r /\ SE.addr_ok s /\ SS.go_st_GetStream st r s = Ok (x, true) /\ (Str.sel_receiver rcv) (r, s, x) = true).
Proof. exact (fun rcv Hrcv => Str.offset_walk_rev _ _ _ (Str.spec_receiver rcv Hrcv)). Qed.
Print Assumptions C20_onstore_stream_by_receiver_offset_walk_reverse.

(* no call of the key callback panics on a well-formed store (the pagination model's filter cannot fail: nothing is lost) *)
Theorem C20_onstore_stream_by_receiver_callbacks_total : forall (rcv : list N) (Hrcv : rcv <> []), forall (st : okv SS.stream_val),
  SE.stream_store_wf st ->
  forall k v, In (k, v) (okv_prefix st (str_prefix_receiver rcv)) -> exists o, (GeneratedKeys.go_stream_AllStreamsForReceiver_callback rcv) (strip_prefix (str_prefix_receiver rcv) k) = Ok o.
Proof. exact (fun rcv Hrcv => Str.callbacks_total _ _ _ (Str.spec_receiver rcv Hrcv)). Qed.
Print Assumptions C20_onstore_stream_by_receiver_callbacks_total.

Theorem C20_onstore_stream_by_receiver_single_page_sound : forall (rcv : list N) (Hrcv : rcv <> []), forall (st : okv SS.stream_val) (preq : page_req) res nk tot,
  SE.stream_store_wf st -> okv_sorted st = true ->
  Str.page (GeneratedKeys.go_stream_AllStreamsForReceiver_callback rcv) (str_prefix_receiver rcv) st preq = Ok (res, nk, tot) ->
  (forall r s x, In (r, s, x) res ->
     SE.addr_ok r /\ SE.addr_ok s /\ SS.go_st_GetStream st r s = Ok (x, true) /\ (Str.sel_receiver rcv) (r, s, x) = true) /\
  ((pr_offset preq < two64N)%N -> (pr_limit preq < two64N)%N -> (N.of_nat (length (Str.store_items (str_prefix_receiver rcv) st)) < two64N)%N ->
   (length res <= N.to_nat (eff_limit preq))%nat).
Proof. exact (fun rcv Hrcv => Str.single_page _ _ _ (Str.spec_receiver rcv Hrcv)). Qed.
Print Assumptions C20_onstore_stream_by_receiver_single_page_sound.

Theorem C20_onstore_stream_by_receiver_total_count : forall (rcv : list N) (Hrcv : rcv <> []), forall (st : okv SS.stream_val) (preq : page_req) res nk tot,
  SE.stream_store_wf st ->
  (match pr_key preq with KeyAt _ => False | _ => True end) ->
  (pr_count_total preq = true \/ pr_limit preq = 0%N) ->
  (N.of_nat (length (Str.store_items (str_prefix_receiver rcv) st)) < two64N)%N ->
  Str.page (GeneratedKeys.go_stream_AllStreamsForReceiver_callback rcv) (str_prefix_receiver rcv) st preq = Ok (res, nk, tot) ->
  exists L, SS.go_st_IterateAllStreams st (fun acc a => Ok (acc ++ [a], false)) [] = Ok L /\
            tot = N.of_nat (length (filter (Str.sel_receiver rcv) L)).
Proof. exact (fun rcv Hrcv => Str.total_count _ _ _ (Str.spec_receiver rcv Hrcv)). Qed.
Print Assumptions C20_onstore_stream_by_receiver_total_count.

Theorem C20_onstore_stream_by_receiver_point_consistent_complete : forall (rcv : list N) (Hrcv : rcv <> []), forall (st : okv SS.stream_val) (limit : N) (fuel : nat),
  SE.stream_store_wf st -> okv_sorted st = true ->
  (1 <= limit)%N -> (N.of_nat (length (Str.store_items (str_prefix_receiver rcv) st)) + limit + 1 < two64N)%N ->
  (length (Str.store_items (str_prefix_receiver rcv) st) + 1 <= fuel)%nat ->
  forall w, In w [ Str.results (GeneratedKeys.go_stream_AllStreamsForReceiver_callback rcv) (str_prefix_receiver rcv) (all_pages_by_key fuel (Str.store_items (str_prefix_receiver rcv) st) (vflt (Str.hitv (GeneratedKeys.go_stream_AllStreamsForReceiver_callback rcv) (str_prefix_receiver rcv))) limit);
                   Str.results (GeneratedKeys.go_stream_AllStreamsForReceiver_callback rcv) (str_prefix_receiver rcv) (all_pages_by_offset fuel (Str.store_items (str_prefix_receiver rcv) st) (vflt (Str.hitv (GeneratedKeys.go_stream_AllStreamsForReceiver_callback rcv) (str_prefix_receiver rcv))) limit);
                   Str.results (GeneratedKeys.go_stream_AllStreamsForReceiver_callback rcv) (str_prefix_receiver rcv) (all_pages_by_key_rev fuel (Str.store_items (str_prefix_receiver rcv) st) (vflt (Str.hitv (GeneratedKeys.go_stream_AllStreamsForReceiver_callback rcv) (str_prefix_receiver rcv))) limit);
                   Str.results (GeneratedKeys.go_stream_AllStreamsForReceiver_callback rcv) (str_prefix_receiver rcv) (all_pages_by_offset_rev fuel (Str.store_items (str_prefix_receiver rcv) st) (vflt (Str.hitv (GeneratedKeys.go_stream_AllStreamsForReceiver_callback rcv) (str_prefix_receiver rcv))) limit) ] ->
    (forall r s x, In (r, s, x) w <->
       SE.addr_ok r /\ SE.addr_ok s /\ SS.go_st_GetStream st r s = Ok (x, true) /\ (Str.sel_receiver rcv) (r, s, x) = true) /\
    NoDup (map fst w).
Proof. exact (fun rcv Hrcv => Str.walks_point_consistent _ _ _ (Str.spec_receiver rcv Hrcv)). Qed.
Print Assumptions C20_onstore_stream_by_receiver_point_consistent_complete.

Theorem C20_onstore_stream_by_receiver_write_shows_up : forall (rcv : list N) (Hrcv : rcv <> []), forall (st : okv SS.stream_val) r s x st' u (limit : N) (fuel : nat),
  SE.stream_store_wf st -> okv_sorted st = true ->
  SE.addr_ok r -> SE.addr_ok s -> SS.go_st_SetStream st r s x = Ok (st', u) ->
  (1 <= limit)%N -> (N.of_nat (length (Str.store_items (str_prefix_receiver rcv) st')) + limit + 1 < two64N)%N ->
  (length (Str.store_items (str_prefix_receiver rcv) st') + 1 <= fuel)%nat ->
  SE.stream_store_wf st' /\ okv_sorted st' = true /\
  forall w, In w [ Str.results (GeneratedKeys.go_stream_AllStreamsForReceiver_callback rcv) (str_prefix_receiver rcv) (all_pages_by_key fuel (Str.store_items (str_prefix_receiver rcv) st') (vflt (Str.hitv (GeneratedKeys.go_stream_AllStreamsForReceiver_callback rcv) (str_prefix_receiver rcv))) limit);
                   Str.results (GeneratedKeys.go_stream_AllStreamsForReceiver_callback rcv) (str_prefix_receiver rcv) (all_pages_by_offset fuel (Str.store_items (str_prefix_receiver rcv) st') (vflt (Str.hitv (GeneratedKeys.go_stream_AllStreamsForReceiver_callback rcv) (str_prefix_receiver rcv))) limit);
                   Str.results (GeneratedKeys.go_stream_AllStreamsForReceiver_callback rcv) (str_prefix_receiver rcv) (all_pages_by_key_rev fuel (Str.store_items (str_prefix_receiver rcv) st') (vflt (Str.hitv (GeneratedKeys.go_stream_AllStreamsForReceiver_callback rcv) (str_prefix_receiver rcv))) limit);
                   Str.results (GeneratedKeys.go_stream_AllStreamsForReceiver_callback rcv) (str_prefix_receiver rcv) (all_pages_by_offset_rev fuel (Str.store_items (str_prefix_receiver rcv) st') (vflt (Str.hitv (GeneratedKeys.go_stream_AllStreamsForReceiver_callback rcv) (str_prefix_receiver rcv))) limit) ] ->
    ((Str.sel_receiver rcv) (r, s, x) = true -> In (r, s, x) w) /\
    (forall r' s' x', In (r', s', x') w <->
       ((r', s', x') = (r, s, x) /\ (Str.sel_receiver rcv) (r, s, x) = true) \/
       ((r', s') <> (r, s) /\ SE.addr_ok r' /\ SE.addr_ok s' /\ SS.go_st_GetStream st r' s' = Ok (x', true) /\
        (Str.sel_receiver rcv) (r', s', x') = true)).
Proof. exact (fun rcv Hrcv => Str.write_shows_up _ _ _ (Str.spec_receiver rcv Hrcv)). Qed.
Print Assumptions C20_onstore_stream_by_receiver_write_shows_up.
