(* C10, link to the source (keeper level): the state-passing Gallina rendering of /repo/x/stream/keeper/{stream,
   msg_server}.go that the translator produces on every run (coq/GeneratedStreamKeeper.v, over the primitives of
   model/StreamKeeperPrims.v) computes, on every state satisfying the invariant, exactly what the model's
   message execution str_exec computes: same bank, same stream store, same response, same error / panic code.
   Hence whole histories agree, and the escrow-backing theorem of C10 holds of the generated code. *)
From MC Require Import lib.Prelude lib.AMap lib.GoSdk GeneratedFns GeneratedStreamTypes model.Bank model.Stream
  model.StreamSpec model.StreamKeeperPrims GeneratedStreamKeeper model.StreamGenSpec.
From MC Require Import proofs.StreamArith proofs.BankProofs proofs.StreamProofs proofs.GeneratedStreamEq.
Local Open Scope Z_scope.

Theorem C10_generated_keeper_is_model : forall now b s m, str_inv now b s -> str_msg_wf m ->
  go_msg_exec (world now b s) m = lift now (fun x => x) (str_exec now b s m).
Proof. exact gen_msg_exec_eq. Qed.
Print Assumptions C10_generated_keeper_is_model.

Theorem C10_generated_run_is_model : forall now0 b0 s0 h, str_inv now0 b0 s0 -> times_sorted now0 h ->
  go_run (b0, s0) h = str_run (b0, s0) h.
Proof. exact gen_run_eq. Qed.
Print Assumptions C10_generated_run_is_model.

Theorem C10_generated_escrow_backed_reachable : forall now0 b0 s0 h,
  str_inv now0 b0 s0 -> times_sorted now0 h ->
  escrow_backed (fst (go_run (b0, s0) h)) (snd (go_run (b0, s0) h)).
Proof. exact gen_escrow_backed_reachable. Qed.
Print Assumptions C10_generated_escrow_backed_reachable.

(* ---- examples: the generated code runs (account 1 holds 10^22 of denom 0; validator fee 1 %) ---- *)

(* create 100000 at 100/s, then claim after 10 s: 1000 released = 990 to the receiver + 10 to the validators *)
Example C10_generated_create_then_claim_ex :
  exists w1 r1 w2,
    go_msg_exec (world ex_now ex_bank ex_state0) (SCreate 1 2 0 100000 100) = Ok (w1, r1) /\
    go_msg_exec (world (ex_t 10) (kw_bank w1) (kw_str w1)) (SClaim 1 2)
      = Ok (w2, RClaim {| cr_receiver := 990; cr_fee := 10; cr_total := 1000; cr_remaining := 99000 |}) /\
    balance (kw_bank w2) STREAM_MACC 0 = 99000 /\ balance (kw_bank w2) 2 0 = 990 /\
    balance (kw_bank w2) FEE_COLLECTOR 0 = 10.
Proof. do 3 eexists. split; [vm_compute; reflexivity|]. split; [vm_compute; reflexivity|]. vm_compute. auto. Qed.

(* the five-message history of proofs/StreamProofs.v: generated code and model end in the same state *)
Example C10_generated_history_ex :
  go_run (ex_bank, ex_state0) ex_history = str_run (ex_bank, ex_state0) ex_history /\
  s_streams (snd (go_run (ex_bank, ex_state0) ex_history)) = [] /\
  balance (fst (go_run (ex_bank, ex_state0) ex_history)) STREAM_MACC 0 = 0.
Proof. vm_compute. auto. Qed.

(* errors agree too: a second create on the same pair is refused with the same code *)
Example C10_generated_duplicate_create_ex :
  go_msg_exec (world ex_now (fst ex_bs1) (snd ex_bs1)) (SCreate 1 2 0 100000 100) = Err ERR_INVALID_DATA /\
  str_exec ex_now (fst ex_bs1) (snd ex_bs1) (SCreate 1 2 0 100000 100) = Err ERR_INVALID_DATA.
Proof. vm_compute. auto. Qed.
