(* C04 (with C02, C03), store layer of x/enterprise, CAPSTONE: the eFUND book-keeping, the begin blocker, the purchase order /
   whitelist functions and the message server of /repo/x/enterprise/keeper/{locked,blocker,purchase,whitelist,msg_server}.go
   as translated on every run TWICE from the same source -
     (1) GeneratedEnterpriseKeeper.v         over the hand-written primitives of model/EnterpriseKeeperPrims.v (world [eworld]:
                                              block time, bank, the abstract state [ent_state] of model/Enterprise.v),
     (2) GeneratedEnterpriseKeeperOnStore.v  over the BYTE-LEVEL ordered KV store of model/KVStore.v, accessed through the
                                              GENERATED store accessors (GeneratedEnterpriseStore.v) and the GENERATED key
                                              builders (GeneratedKeys.v); world [esworld] of model/EnterpriseStoreWorld.v:
                                              the embedding of abstract addresses into address bytes and its inverse, block
                                              time, bank, byte store -
   are in SIMULATION: from related worlds every function of (2) ends Ok / Err e / Panic c exactly when the function of (1)
   does, with the same returned value, related worlds again, the same panic code and the same error code - except in two
   places, where the primitive answers ERR_ENT = 30 and the generated accessor STORE_ERR = 10 (SetPurchaseOrder of an
   invalid status, SetLockedUndForAccount of a negative amount): the functions through which such an error can surface
   (incrementLockedUnd, MintCoinsAndLock, ProcessPurchaseOrderDecision on its own) are related by [simE], all others - the
   begin blocker and the four handlers included - by [sim] (equal codes).  Hence whole histories (BeginBlock, delivered
   messages, MsgUpdateParams, the fee unlock of the ante decorator) give the same result step by step and end in related
   worlds, and what is proved of (1) - C04 the books balance, C03 the tally rule, C02 BeginBlock mints exactly the accepted
   amounts - holds of (2), i.e. of the code running on bytes.

   Given (explicit in every statement that needs them): dom / emb / unemb with [emb_hyps dom emb unemb]
   (C04_onstore_enterprise_embedding: the four hypotheses of props/C18storeenterpriserefines.v).
   Rw dom emb unemb w ws: C04_onstore_enterprise_relation (Rent: props/C18storeenterpriserefines.v).
   Rwi = Rw and two facts about the abstract state (C04_onstore_enterprise_relation_with_invariant): every raised id is
   below the id counter (needed: C04_onstore_enterprise_counter_bound_needed_refuted), the purchaser of every stored order
   is in dom if it parses (it is stored opaquely and later used as the key of the locked entry).
   sim / simE / sim0 / sim0E: C04_onstore_enterprise_sim.
   Side conditions on arguments: ids are uint64; account addresses used as keys are in dom (addresses taken from messages:
   in dom if they parse - a string that does not parse is refused before the store is touched); the id counter is not the
   last uint64 when an order is raised; the parameters of an update are in range (C18 SetParams); the tally is run on a state
   whose accepted ids are below its raised ids - in particular right after ProcessAcceptedPurchaseOrders, as the begin
   blocker does (needed: C04_onstore_enterprise_tally_order_needed_refuted).
   Proofs: proofs/GeneratedEnterpriseOnStoreEq.v. *)
From MC Require Import lib.Prelude lib.AMap lib.GoSdk GeneratedEnterpriseTypes model.Bank model.Enterprise model.EnterpriseSpec
  model.Keys model.KeyPrims model.KVStore model.StoreCodecPrims model.EnterpriseKeeperPrims model.EnterpriseStoreWorld
  model.EnterpriseGenSpec GeneratedKeys GeneratedEnterpriseStore.
From MC Require GeneratedEnterpriseKeeper GeneratedEnterpriseKeeperOnStore.
From MC Require Import proofs.BankProofs proofs.EnterpriseProofs proofs.GeneratedEnterpriseEq proofs.GeneratedEnterpriseBlockEq
  proofs.GeneratedEnterpriseMsgEq proofs.GeneratedEnterpriseParamsEq proofs.GeneratedEnterpriseStoreEq
  proofs.GeneratedEnterpriseStoreRefines proofs.GeneratedEnterpriseOnStoreEq.
From Coq Require Import NArith ZArith List Bool.
Import ListNotations.
Local Open Scope list_scope.
Local Open Scope Z_scope.

(* ------------------------------------------------------------------ *)
(* the hypotheses on the embedding, the relations, in full              *)
(* ------------------------------------------------------------------ *)

Theorem C04_onstore_enterprise_embedding :
  forall (dom : addr -> Prop) (emb : addr -> list N) (unemb : list N -> addr),
  emb_hyps dom emb unemb <->
  ((forall a b, dom a -> dom b -> emb a = emb b -> a = b) /\
   (forall a, dom a -> unemb (emb a) = a) /\
   (forall a, dom a -> emb a <> []) /\
   (forall a, dom a -> addr_parses a = true)).
Proof. exact emb_hyps_spelled. Qed.
Print Assumptions C04_onstore_enterprise_embedding.

Theorem C04_onstore_enterprise_relation :
  forall (dom : addr -> Prop) (emb : addr -> list N) (unemb : list N -> addr) (w : eworld) (ws : esworld),
  Rw dom emb unemb w ws <->
  (esw_emb ws = emb /\ esw_unemb ws = unemb /\ ew_now w = esw_now ws /\ ew_bank w = esw_bank ws /\
   Rent dom emb (esw_store ws) (ew_ent w)).
Proof. exact Rw_spelled. Qed.
Print Assumptions C04_onstore_enterprise_relation.

Theorem C04_onstore_enterprise_relation_with_invariant :
  forall (dom : addr -> Prop) (emb : addr -> list N) (unemb : list N -> addr) (w : eworld) (ws : esworld),
  Rwi dom emb unemb w ws <->
  (Rw dom emb unemb w ws /\
   (forall id, In id (e_raisedq (ew_ent w)) -> id < e_next (ew_ent w)) /\
   (forall id o, In (id, o) (e_pos (ew_ent w)) -> addr_parses (po_purchaser o) = true -> dom (po_purchaser o))).
Proof. exact Rwi_spelled. Qed.
Print Assumptions C04_onstore_enterprise_relation_with_invariant.

(* two results agree: Ok/Ok with related worlds and equal values, Panic/Panic with equal codes, Err/Err with equal codes
   (sim, sim0) or with equal codes / ERR_ENT against STORE_ERR (simE, sim0E), nothing else *)
Theorem C04_onstore_enterprise_sim :
  forall (dom : addr -> Prop) (emb : addr -> list N) (unemb : list N -> addr)
         (R : Type) (a : outcome (eworld * R)) (c : outcome (esworld * R)),
  (sim dom emb unemb a c <->
   match a, c with
   | Ok (w, x), Ok (ws, y) => Rwi dom emb unemb w ws /\ x = y
   | Err e, Err e' => e = e'
   | Panic p, Panic p' => p = p'
   | _, _ => False
   end) /\
  (simE dom emb unemb a c <->
   match a, c with
   | Ok (w, x), Ok (ws, y) => Rwi dom emb unemb w ws /\ x = y
   | Err e, Err e' => e = e' \/ (e = ERR_ENT /\ e' = STORE_ERR)
   | Panic p, Panic p' => p = p'
   | _, _ => False
   end) /\
  (sim0 dom emb unemb a c <->
   match a, c with
   | Ok (w, x), Ok (ws, y) => Rw dom emb unemb w ws /\ x = y
   | Err e, Err e' => e = e'
   | Panic p, Panic p' => p = p'
   | _, _ => False
   end) /\
  (sim0E dom emb unemb a c <->
   match a, c with
   | Ok (w, x), Ok (ws, y) => Rw dom emb unemb w ws /\ x = y
   | Err e, Err e' => e = e' \/ (e = ERR_ENT /\ e' = STORE_ERR)
   | Panic p, Panic p' => p = p'
   | _, _ => False
   end).
Proof. exact sims_spelled. Qed.
Print Assumptions C04_onstore_enterprise_sim.

Theorem C04_onstore_enterprise_sim_implies_simE :
  forall (dom : addr -> Prop) (emb : addr -> list N) (unemb : list N -> addr)
         (R : Type) (a : outcome (eworld * R)) (c : outcome (esworld * R)),
  sim dom emb unemb a c -> simE dom emb unemb a c.
Proof. exact sim_implies_simE. Qed.
Print Assumptions C04_onstore_enterprise_sim_implies_simE.

(* ------------------------------------------------------------------ *)
(* the adapter primitives of model/EnterpriseStoreWorld.v               *)
(* ------------------------------------------------------------------ *)

Theorem C04_onstore_enterprise_primitives :
  forall (dom : addr -> Prop) (emb : addr -> list N) (unemb : list N -> addr), emb_hyps dom emb unemb ->
  forall (w : eworld) (ws : esworld), Rw dom emb unemb w ws ->
  os_ew_now ws = ew_now w /\
  os_ent_GetParamDenom ws = Ok (ent_GetParamDenom w) /\
  os_ent_GetParams ws = Ok (ent_GetParams w) /\
  os_ent_GetParamEntSignersAsAddressArray ws = Ok (ent_GetParamEntSignersAsAddressArray w) /\
  os_ent_GetTotalLockedUnd ws = Ok (ent_GetTotalLockedUnd w) /\
  os_ent_GetTotalSpentEFUND ws = Ok (ent_GetTotalSpentEFUND w) /\
  os_ent_GetAllRaisedPurchaseOrders ws = Ok (ent_GetAllRaisedPurchaseOrders w) /\
  os_ent_GetAllAcceptedPurchaseOrders ws = Ok (ent_GetAllAcceptedPurchaseOrders w) /\
  os_ent_GetHighestPurchaseOrderID ws = ent_GetHighestPurchaseOrderID w /\
  (forall id, 0 <= id < 2 ^ 64 -> os_ent_GetPurchaseOrder ws id = Ok (ent_GetPurchaseOrder w id)) /\
  (forall id, 0 <= id < 2 ^ 64 -> os_ent_PurchaseOrderExists ws id = Ok (ent_PurchaseOrderExists w id)) /\
  (forall a, dom a -> os_ent_GetLockedUndForAccount ws a = Ok (ent_GetLockedUndForAccount w a)) /\
  (forall a, dom a -> os_ent_GetSpentEFUNDForAccount ws a = Ok (ent_GetSpentEFUNDForAccount w a)) /\
  (forall a, dom a -> os_ent_AddressIsWhitelisted ws a = Ok (ent_AddressIsWhitelisted w a)) /\
  (forall a, os_bank_SpendableCoins ws a = Ok (bank_SpendableCoins w a)) /\
  (forall c, sim0 dom emb unemb (ent_SetTotalLockedUnd w c) (os_ent_SetTotalLockedUnd ws c)) /\
  (forall c, sim0 dom emb unemb (ent_SetTotalSpentEFUND w c) (os_ent_SetTotalSpentEFUND ws c)) /\
  (forall x, dom (LockedUnd_Owner x) ->
     sim0E dom emb unemb (ent_SetLockedUndForAccount w x) (os_ent_SetLockedUndForAccount ws x)) /\
  (forall x, dom (LockedUnd_Owner x) -> 0 <= snd (LockedUnd_Amount x) ->
     sim0 dom emb unemb (ent_SetLockedUndForAccount w x) (os_ent_SetLockedUndForAccount ws x)) /\
  (forall x, dom (SpentEFUND_Owner x) ->
     sim0 dom emb unemb (ent_SetSpentEFUNDForAccount w x) (os_ent_SetSpentEFUNDForAccount ws x)) /\
  (forall g, 0 <= EnterpriseUndPurchaseOrder_Id g < 2 ^ 64 ->
     sim0E dom emb unemb (ent_SetPurchaseOrder w g) (os_ent_SetPurchaseOrder ws g)) /\
  (forall g, 0 <= EnterpriseUndPurchaseOrder_Id g < 2 ^ 64 -> 1 <= EnterpriseUndPurchaseOrder_Status g <= 4 ->
     sim0 dom emb unemb (ent_SetPurchaseOrder w g) (os_ent_SetPurchaseOrder ws g)) /\
  (forall id, 0 <= id < 2 ^ 64 ->
     sim0 dom emb unemb (ent_RemovePurchaseOrderFromRaisedQueue w id) (os_ent_RemovePurchaseOrderFromRaisedQueue ws id)) /\
  (forall id, 0 <= id < 2 ^ 64 ->
     sim0 dom emb unemb (ent_RemovePurchaseOrderFromAcceptedQueue w id) (os_ent_RemovePurchaseOrderFromAcceptedQueue ws id)) /\
  (forall id, 0 <= id < 2 ^ 64 -> (forall y, In y (e_raisedq (ew_ent w)) -> y < id) ->
     sim0 dom emb unemb (ent_AddPoToRaisedQueue w id) (os_ent_AddPoToRaisedQueue ws id)) /\
  (forall id, 0 <= id < 2 ^ 64 -> (forall y, In y (e_acceptedq (ew_ent w)) -> y < id) ->
     sim0 dom emb unemb (ent_AddPoToAcceptedQueue w id) (os_ent_AddPoToAcceptedQueue ws id)) /\
  (forall n, 0 <= n < 2 ^ 64 ->
     sim0 dom emb unemb (ent_SetHighestPurchaseOrderID w n) (os_ent_SetHighestPurchaseOrderID ws n)) /\
  (forall a, dom a -> ent_AddressIsWhitelisted w a = false ->
     sim0 dom emb unemb (ent_AddAddressToWhitelist w a) (os_ent_AddAddressToWhitelist ws a)) /\
  (forall a, dom a -> sim0 dom emb unemb (ent_RemoveAddressFromWhitelist w a) (os_ent_RemoveAddressFromWhitelist ws a)) /\
  (forall p, ent_params_range p -> denom_ok p -> sim0 dom emb unemb (ent_SetParams w p) (os_ent_SetParams ws p)) /\
  (forall m cs, sim0 dom emb unemb (bank_MintCoins w m cs) (os_bank_MintCoins ws m cs)) /\
  (forall m a cs,
     sim0 dom emb unemb (bank_SendCoinsFromModuleToAccount w m a cs) (os_bank_SendCoinsFromModuleToAccount ws m a cs)) /\
  (forall a m cs,
     sim0 dom emb unemb (bank_DelegateCoinsFromAccountToModule w a m cs) (os_bank_DelegateCoinsFromAccountToModule ws a m cs)) /\
  (forall m a cs,
     sim0 dom emb unemb (bank_UndelegateCoinsFromModuleToAccount w m a cs) (os_bank_UndelegateCoinsFromModuleToAccount ws m a cs)).
Proof. exact sim_primitives. Qed.
Print Assumptions C04_onstore_enterprise_primitives.

(* the adapter that is not a bare accessor, on its own: the entries of the signer list that decode to a non-empty address *)
Theorem C04_onstore_enterprise_GetParamEntSignersAsAddressArray :
  forall (dom : addr -> Prop) (emb : addr -> list N) (unemb : list N -> addr) (w : eworld) (ws : esworld),
  Rw dom emb unemb w ws ->
  os_ent_GetParamEntSignersAsAddressArray ws = Ok (ent_GetParamEntSignersAsAddressArray w).
Proof. exact prim_GetParamEntSignersAsAddressArray. Qed.
Print Assumptions C04_onstore_enterprise_GetParamEntSignersAsAddressArray.

(* with the invariant carried along: what the relation says of a stored order, the writers keep Rwi *)
Theorem C04_onstore_enterprise_primitives_invariant :
  forall (dom : addr -> Prop) (emb : addr -> list N) (unemb : list N -> addr), emb_hyps dom emb unemb ->
  forall (w : eworld) (ws : esworld), Rwi dom emb unemb w ws ->
  (forall id po found, ent_GetPurchaseOrder w id = (po, found) ->
     0 <= EnterpriseUndPurchaseOrder_Id po < 2 ^ 64 /\
     (addr_parses (EnterpriseUndPurchaseOrder_Purchaser po) = true -> dom (EnterpriseUndPurchaseOrder_Purchaser po))) /\
  (forall c, sim dom emb unemb (ent_SetTotalLockedUnd w c) (os_ent_SetTotalLockedUnd ws c)) /\
  (forall c, sim dom emb unemb (ent_SetTotalSpentEFUND w c) (os_ent_SetTotalSpentEFUND ws c)) /\
  (forall x, dom (LockedUnd_Owner x) ->
     simE dom emb unemb (ent_SetLockedUndForAccount w x) (os_ent_SetLockedUndForAccount ws x)) /\
  (forall x, dom (LockedUnd_Owner x) -> 0 <= snd (LockedUnd_Amount x) ->
     sim dom emb unemb (ent_SetLockedUndForAccount w x) (os_ent_SetLockedUndForAccount ws x)) /\
  (forall x, dom (SpentEFUND_Owner x) ->
     sim dom emb unemb (ent_SetSpentEFUNDForAccount w x) (os_ent_SetSpentEFUNDForAccount ws x)) /\
  (forall g, 0 <= EnterpriseUndPurchaseOrder_Id g < 2 ^ 64 -> pdom dom (EnterpriseUndPurchaseOrder_Purchaser g) ->
     simE dom emb unemb (ent_SetPurchaseOrder w g) (os_ent_SetPurchaseOrder ws g)) /\
  (forall g, 0 <= EnterpriseUndPurchaseOrder_Id g < 2 ^ 64 -> pdom dom (EnterpriseUndPurchaseOrder_Purchaser g) ->
     1 <= EnterpriseUndPurchaseOrder_Status g <= 4 ->
     sim dom emb unemb (ent_SetPurchaseOrder w g) (os_ent_SetPurchaseOrder ws g)) /\
  (forall id, 0 <= id < 2 ^ 64 ->
     sim dom emb unemb (ent_RemovePurchaseOrderFromRaisedQueue w id) (os_ent_RemovePurchaseOrderFromRaisedQueue ws id)) /\
  (forall id, 0 <= id < 2 ^ 64 ->
     sim dom emb unemb (ent_RemovePurchaseOrderFromAcceptedQueue w id) (os_ent_RemovePurchaseOrderFromAcceptedQueue ws id)) /\
  (forall id, 0 <= id < 2 ^ 64 -> (forall y, In y (e_raisedq (ew_ent w)) -> y < id) -> id < e_next (ew_ent w) ->
     sim dom emb unemb (ent_AddPoToRaisedQueue w id) (os_ent_AddPoToRaisedQueue ws id)) /\
  (forall id, 0 <= id < 2 ^ 64 -> (forall y, In y (e_acceptedq (ew_ent w)) -> y < id) ->
     sim dom emb unemb (ent_AddPoToAcceptedQueue w id) (os_ent_AddPoToAcceptedQueue ws id)) /\
  (forall n, 0 <= n < 2 ^ 64 -> (forall y, In y (e_raisedq (ew_ent w)) -> y < n) ->
     sim dom emb unemb (ent_SetHighestPurchaseOrderID w n) (os_ent_SetHighestPurchaseOrderID ws n)) /\
  (forall a, dom a -> ent_AddressIsWhitelisted w a = false ->
     sim dom emb unemb (ent_AddAddressToWhitelist w a) (os_ent_AddAddressToWhitelist ws a)) /\
  (forall a, dom a -> sim dom emb unemb (ent_RemoveAddressFromWhitelist w a) (os_ent_RemoveAddressFromWhitelist ws a)) /\
  (forall p, ent_params_range p -> denom_ok p -> sim dom emb unemb (ent_SetParams w p) (os_ent_SetParams ws p)) /\
  (forall m cs, sim dom emb unemb (bank_MintCoins w m cs) (os_bank_MintCoins ws m cs)) /\
  (forall m a cs,
     sim dom emb unemb (bank_SendCoinsFromModuleToAccount w m a cs) (os_bank_SendCoinsFromModuleToAccount ws m a cs)) /\
  (forall a m cs,
     sim dom emb unemb (bank_DelegateCoinsFromAccountToModule w a m cs) (os_bank_DelegateCoinsFromAccountToModule ws a m cs)) /\
  (forall m a cs,
     sim dom emb unemb (bank_UndelegateCoinsFromModuleToAccount w m a cs) (os_bank_UndelegateCoinsFromModuleToAccount ws m a cs)).
Proof. exact sim_primitives_inv. Qed.
Print Assumptions C04_onstore_enterprise_primitives_invariant.

Theorem C04_onstore_enterprise_pdom :
  forall (dom : addr -> Prop) (a : addr), pdom dom a <-> (addr_parses a = true -> dom a).
Proof. exact pdom_spelled. Qed.
Print Assumptions C04_onstore_enterprise_pdom.

(* ------------------------------------------------------------------ *)
(* every translated function                                            *)
(* ------------------------------------------------------------------ *)

(* keeper/locked.go.  simE: the new locked amount may be negative, and then the two sides refuse with different codes *)
Theorem C04_onstore_enterprise_locked :
  forall (dom : addr -> Prop) (emb : addr -> list N) (unemb : list N -> addr), emb_hyps dom emb unemb ->
  forall (w : eworld) (ws : esworld), Rwi dom emb unemb w ws ->
  (forall a cs, sim dom emb unemb (K.go_sendCoinsFromModuleToAccount w a cs) (S.go_sendCoinsFromModuleToAccount ws a cs)) /\
  (forall a c, dom a -> sim dom emb unemb (K.go_incrementSpentEFUND w a c) (S.go_incrementSpentEFUND ws a c)) /\
  (forall a c, dom a -> simE dom emb unemb (K.go_incrementLockedUnd w a c) (S.go_incrementLockedUnd ws a c)) /\
  (forall a c, dom a -> sim dom emb unemb (K.go_decrementLockedUnd w a c) (S.go_decrementLockedUnd ws a c)) /\
  (forall a c, dom a -> simE dom emb unemb (K.go_MintCoinsAndLock w a c) (S.go_MintCoinsAndLock ws a c)) /\
  (forall a fees, dom a -> sim dom emb unemb (K.go_UnlockCoinsForFees w a fees) (S.go_UnlockCoinsForFees ws a fees)).
Proof. exact sim_locked. Qed.
Print Assumptions C04_onstore_enterprise_locked.

(* keeper/blocker.go and the begin blocker (ProcessAcceptedPurchaseOrders, then TallyPurchaseOrderDecisions): no side
   condition for the begin blocker - ProcessAcceptedPurchaseOrders leaves the accepted queue empty *)
Theorem C04_onstore_enterprise_blocker :
  forall (dom : addr -> Prop) (emb : addr -> list N) (unemb : list N -> addr), emb_hyps dom emb unemb ->
  forall (w : eworld) (ws : esworld), Rwi dom emb unemb w ws ->
  sim dom emb unemb (K.go_ProcessAcceptedPurchaseOrders w) (S.go_ProcessAcceptedPurchaseOrders ws) /\
  ((forall a r, In a (e_acceptedq (ew_ent w)) -> In r (e_raisedq (ew_ent w)) -> a < r) ->
   sim dom emb unemb (K.go_TallyPurchaseOrderDecisions w) (S.go_TallyPurchaseOrderDecisions ws)) /\
  (forall w' u, K.go_ProcessAcceptedPurchaseOrders w = Ok (w', u) -> e_acceptedq (ew_ent w') = []) /\
  sim dom emb unemb (go_ent_begin_block w) (os_ent_begin_block ws).
Proof. exact sim_blocker. Qed.
Print Assumptions C04_onstore_enterprise_blocker.

(* keeper/purchase.go, keeper/whitelist.go *)
Theorem C04_onstore_enterprise_purchase_whitelist :
  forall (dom : addr -> Prop) (emb : addr -> list N) (unemb : list N -> addr), emb_hyps dom emb unemb ->
  forall (w : eworld) (ws : esworld), Rwi dom emb unemb w ws ->
  (forall po, pdom dom (EnterpriseUndPurchaseOrder_Purchaser po) -> e_next (ew_ent w) < 2 ^ 64 - 1 ->
     sim dom emb unemb (K.go_RaiseNewPurchaseOrder w po) (S.go_RaiseNewPurchaseOrder ws po)) /\
  (forall a, S.go_IsAuthorisedToDecide ws a = K.go_IsAuthorisedToDecide w a) /\
  (forall id dec signer, 0 <= id < 2 ^ 64 ->
     simE dom emb unemb (K.go_ProcessPurchaseOrderDecision w id dec signer) (S.go_ProcessPurchaseOrderDecision ws id dec signer)) /\
  (forall id dec signer po found, 0 <= id < 2 ^ 64 -> ent_GetPurchaseOrder w id = (po, found) ->
     1 <= EnterpriseUndPurchaseOrder_Status po <= 4 ->
     sim dom emb unemb (K.go_ProcessPurchaseOrderDecision w id dec signer) (S.go_ProcessPurchaseOrderDecision ws id dec signer)) /\
  (forall a action signer, dom a ->
     sim dom emb unemb (K.go_ProcessWhitelistAction w a action signer) (S.go_ProcessWhitelistAction ws a action signer)).
Proof. exact sim_purchase_whitelist. Qed.
Print Assumptions C04_onstore_enterprise_purchase_whitelist.

(* keeper/msg_server.go: nothing is asked of the signers *)
Theorem C04_onstore_enterprise_msg_server :
  forall (dom : addr -> Prop) (emb : addr -> list N) (unemb : list N -> addr), emb_hyps dom emb unemb ->
  forall (w : eworld) (ws : esworld), Rwi dom emb unemb w ws ->
  (forall msg, pdom dom (MsgUndPurchaseOrder_Purchaser msg) -> e_next (ew_ent w) < 2 ^ 64 - 1 ->
     sim dom emb unemb (K.go_UndPurchaseOrder w msg) (S.go_UndPurchaseOrder ws msg)) /\
  (forall msg, 0 <= MsgProcessUndPurchaseOrder_PurchaseOrderId msg < 2 ^ 64 ->
     sim dom emb unemb (K.go_ProcessUndPurchaseOrder w msg) (S.go_ProcessUndPurchaseOrder ws msg)) /\
  (forall msg, pdom dom (MsgWhitelistAddress_Address msg) ->
     sim dom emb unemb (K.go_WhitelistAddress w msg) (S.go_WhitelistAddress ws msg)) /\
  (forall req, ent_params_range (MsgUpdateParams_Params req) -> denom_ok (MsgUpdateParams_Params req) ->
     sim dom emb unemb (K.go_UpdateParams w req) (S.go_UpdateParams ws req)).
Proof. exact sim_msg_server. Qed.
Print Assumptions C04_onstore_enterprise_msg_server.

(* the functions that touch no store are the same functions in the two files *)
Theorem C04_onstore_enterprise_pure_functions :
  (forall s, S.go_ValidPurchaseOrderStatus s = K.go_ValidPurchaseOrderStatus s) /\
  (forall s, S.go_ValidPurchaseOrderAcceptRejectStatus s = K.go_ValidPurchaseOrderAcceptRejectStatus s) /\
  (forall a, S.go_ValidWhitelistAction a = K.go_ValidWhitelistAction a) /\
  (forall p, S.go_Params_Validate p = K.go_Params_Validate p) /\
  (forall m, S.go_MsgUndPurchaseOrder_ValidateBasic m = K.go_MsgUndPurchaseOrder_ValidateBasic m) /\
  (forall m, S.go_MsgProcessUndPurchaseOrder_ValidateBasic m = K.go_MsgProcessUndPurchaseOrder_ValidateBasic m) /\
  (forall m, S.go_MsgWhitelistAddress_ValidateBasic m = K.go_MsgWhitelistAddress_ValidateBasic m) /\
  (forall m, os_ent_go_validate_basic m = ent_go_validate_basic m).
Proof. exact pure_functions_agree. Qed.
Print Assumptions C04_onstore_enterprise_pure_functions.

(* ------------------------------------------------------------------ *)
(* histories                                                            *)
(* ------------------------------------------------------------------ *)

(* the two runs: a step is BeginBlock at a block time (unix seconds), a delivered message (ValidateBasic, then the handler),
   MsgUpdateParams, or the fee unlock; an Err / a Panic leaves the state untouched, except that a begin blocker that does
   not return ends the run *)
Theorem C04_onstore_enterprise_run_definitions :
  (forall w t, kw_at t w = mk_eworld (t * NSEC) (ew_bank w) (ew_ent w)) /\
  (forall ws t, sw_at t ws = mk_esworld (esw_emb ws) (esw_unemb ws) (t * NSEC) (esw_bank ws) (esw_store ws)) /\
  (forall ws, os_ent_begin_block ws = do (w1, _) <- S.go_ProcessAcceptedPurchaseOrders ws; S.go_TallyPurchaseOrderDecisions w1) /\
  (forall w o, k_deliver w o =
     match o with
     | HBegin t => do (w', _) <- go_ent_begin_block (kw_at t w); Ok (w', RBegin)
     | HMsg m => do _ <- ent_go_validate_basic m; do (w', r) <- ent_msg_exec w m; Ok (w', RMsg r)
     | HUpdateParams req => do (w', _) <- K.go_UpdateParams w req; Ok (w', RParams)
     | HUnlock payer fee => do (w', _) <- K.go_UnlockCoinsForFees w payer fee; Ok (w', RUnlock)
     end) /\
  (forall ws o, s_deliver ws o =
     match o with
     | HBegin t => do (w', _) <- os_ent_begin_block (sw_at t ws); Ok (w', RBegin)
     | HMsg m => do _ <- os_ent_go_validate_basic m; do (w', r) <- os_ent_msg_exec ws m; Ok (w', RMsg r)
     | HUpdateParams req => do (w', _) <- S.go_UpdateParams ws req; Ok (w', RParams)
     | HUnlock payer fee => do (w', _) <- S.go_UnlockCoinsForFees ws payer fee; Ok (w', RUnlock)
     end) /\
  (forall (W : Type) (deliver : W -> hop -> outcome (W * hresp)) w,
     hrun deliver w [] = ([], w) /\
     forall o h, hrun deliver w (o :: h) =
       match deliver w o with
       | Ok (w', r) => (Ok r :: fst (hrun deliver w' h), snd (hrun deliver w' h))
       | Err e => if is_begin o then ([Err e], w) else (Err e :: fst (hrun deliver w h), snd (hrun deliver w h))
       | Panic c => if is_begin o then ([Panic c], w) else (Panic c :: fst (hrun deliver w h), snd (hrun deliver w h))
       end) /\
  (forall w h, k_run w h = hrun k_deliver w h) /\ (forall ws h, s_run ws h = hrun s_deliver ws h).
Proof. exact run_spelled. Qed.
Print Assumptions C04_onstore_enterprise_run_definitions.

(* one step, from related worlds: the same result, related worlds *)
Theorem C04_onstore_enterprise_deliver :
  forall (dom : addr -> Prop) (emb : addr -> list N) (unemb : list N -> addr), emb_hyps dom emb unemb ->
  forall (w : eworld) (ws : esworld) (o : hop), Rwi dom emb unemb w ws ->
  match o with
  | HBegin _ => True
  | HMsg (ERaise p _ _) => (addr_parses p = true -> dom p) /\ e_next (ew_ent w) < 2 ^ 64 - 1
  | HMsg (EDecide _ poid _) => 0 <= poid < 2 ^ 64
  | HMsg (EWhitelist _ t _) => addr_parses t = true -> dom t
  | HUpdateParams req => ent_params_range (MsgUpdateParams_Params req) /\ denom_ok (MsgUpdateParams_Params req)
  | HUnlock payer _ => dom payer
  end ->
  sim dom emb unemb (k_deliver w o) (s_deliver ws o).
Proof. exact sim_deliver_spelled. Qed.
Print Assumptions C04_onstore_enterprise_deliver.

(* the side conditions along the run of rendering (1) *)
Theorem C04_onstore_enterprise_history_side_conditions :
  forall (dom : addr -> Prop) (w : eworld),
  (hist_side dom w [] <-> True) /\
  forall o h, hist_side dom w (o :: h) <->
    (match o with
     | HBegin _ => True
     | HMsg (ERaise p _ _) => (addr_parses p = true -> dom p) /\ e_next (ew_ent w) < 2 ^ 64 - 1
     | HMsg (EDecide _ poid _) => 0 <= poid < 2 ^ 64
     | HMsg (EWhitelist _ t _) => addr_parses t = true -> dom t
     | HUpdateParams req => ent_params_range (MsgUpdateParams_Params req) /\ denom_ok (MsgUpdateParams_Params req)
     | HUnlock payer _ => dom payer
     end /\
     match k_deliver w o with
     | Ok (w', _) => hist_side dom w' h
     | _ => if is_begin o then True else hist_side dom w h
     end).
Proof. exact hist_side_spelled. Qed.
Print Assumptions C04_onstore_enterprise_history_side_conditions.

(* any history, from related worlds: the same result for every step, related final worlds *)
Theorem C04_onstore_enterprise_history :
  forall (dom : addr -> Prop) (emb : addr -> list N) (unemb : list N -> addr), emb_hyps dom emb unemb ->
  forall (h : list hop) (w : eworld) (ws : esworld), Rwi dom emb unemb w ws -> hist_side dom w h ->
  fst (k_run w h) = fst (s_run ws h) /\ Rwi dom emb unemb (snd (k_run w h)) (snd (s_run ws h)).
Proof. exact sim_run. Qed.
Print Assumptions C04_onstore_enterprise_history.

(* ------------------------------------------------------------------ *)
(* rendering (1) and the model's invariant                              *)
(* ------------------------------------------------------------------ *)

(* on a world of the invariant [ent_inv] (proofs/EnterpriseProofs.v, the invariant of C03 / C04) a successful step of
   rendering (1) is the model's step [ent_step] (model/EnterpriseSpec.v) *)
Theorem C04_onstore_enterprise_step_is_model :
  forall (mw : ent_world) (o : hop) (w' : eworld) (r : hresp),
  ent_inv mw ->
  (ent_op_wf mw (match o with
                 | HBegin t => OBegin t
                 | HMsg m => OMsg m
                 | HUpdateParams req => OSetParams (params_of_go (MsgUpdateParams_Params req))
                 | HUnlock payer fee => OUnlock payer fee
                 end) /\
   match o with
   | HBegin _ => decisions_fit (w_ent mw) /\ Z.of_nat (List.length (ep_signers (e_params (w_ent mw)))) < two63
   | HMsg _ => e_next (w_ent mw) < two64 - 1
   | HUpdateParams _ => True
   | HUnlock payer _ => bank_wf (w_bank mw) /\ 0 < snd (locked_coin (w_ent mw) payer)
   end) ->
  k_deliver (eworld_of_ent mw) o = Ok (w', r) ->
  exists mw', w' = eworld_of_ent mw' /\
    ent_step mw (match o with
                 | HBegin t => OBegin t
                 | HMsg m => OMsg m
                 | HUpdateParams req => OSetParams (params_of_go (MsgUpdateParams_Params req))
                 | HUnlock payer fee => OUnlock payer fee
                 end) = Some mw'.
Proof. exact k_deliver_model_spelled. Qed.
Print Assumptions C04_onstore_enterprise_step_is_model.

Theorem C04_onstore_enterprise_model_side_conditions :
  forall (w : eworld),
  (mhist_side w [] <-> True) /\
  forall o h, mhist_side w (o :: h) <->
    (let mw := {| w_bank := ew_bank w; w_ent := ew_ent w; w_now := ew_now w / NSEC |} in
     (ent_op_wf mw (match o with
                    | HBegin t => OBegin t
                    | HMsg m => OMsg m
                    | HUpdateParams req => OSetParams (params_of_go (MsgUpdateParams_Params req))
                    | HUnlock payer fee => OUnlock payer fee
                    end) /\
      match o with
      | HBegin _ => decisions_fit (w_ent mw) /\ Z.of_nat (List.length (ep_signers (e_params (w_ent mw)))) < two63
      | HMsg _ => e_next (w_ent mw) < two64 - 1
      | HUpdateParams _ => True
      | HUnlock payer _ => bank_wf (w_bank mw) /\ 0 < snd (locked_coin (w_ent mw) payer)
      end) /\
     match k_deliver w o with
     | Ok (w', _) => mhist_side w' h
     | _ => if is_begin o then True else mhist_side w h
     end).
Proof. exact mhist_side_spelled. Qed.
Print Assumptions C04_onstore_enterprise_model_side_conditions.

(* along a run of rendering (1) the worlds stay worlds of the invariant *)
Theorem C04_onstore_enterprise_run_keeps_invariant :
  forall (h : list hop) (w : eworld),
  (exists mw, w = eworld_of_ent mw /\ ent_inv mw) -> mhist_side w h ->
  exists mw', snd (k_run w h) = eworld_of_ent mw' /\ ent_inv mw'.
Proof. exact k_run_kinv. Qed.
Print Assumptions C04_onstore_enterprise_run_keeps_invariant.

(* ------------------------------------------------------------------ *)
(* C04 on the bytes                                                     *)
(* ------------------------------------------------------------------ *)

(* "the books balance", of a byte-level world: every quantity is what a generated accessor reads from the store *)
Theorem C04_onstore_enterprise_books_definition :
  forall (ws : esworld),
  os_books ws <->
  exists d tl ts L LS,
    os_ent_GetParamDenom ws = Ok d /\
    os_ent_GetTotalLockedUnd ws = Ok tl /\ os_ent_GetTotalSpentEFUND ws = Ok ts /\
    go_st_GetAllLockedUnds (esw_store ws) = Ok L /\ go_st_GetAllSpentEFUNDs (esw_store ws) = Ok LS /\
    (* escrow balance = reported total locked = sum of the per-account locked entries *)
    balance (esw_bank ws) ENT_MACC d = snd tl /\
    snd tl = sumZ (map (fun l => snd (LockedUnd_Amount l)) L) /\
    (* reported total spent = sum of the per-account spent entries *)
    snd ts = sumZ (map (fun l => snd (SpentEFUND_Amount l)) LS) /\
    (* the escrow holds nothing else; every booked coin carries the enterprise denomination and is not negative *)
    (forall d', d' <> d -> balance (esw_bank ws) ENT_MACC d' = 0) /\
    fst tl = d /\ fst ts = d /\ 0 <= snd tl /\ 0 <= snd ts /\
    Forall (fun l => fst (LockedUnd_Amount l) = d /\ 0 <= snd (LockedUnd_Amount l)) L /\
    Forall (fun l => fst (SpentEFUND_Amount l) = d /\ 0 <= snd (SpentEFUND_Amount l)) LS.
Proof. exact os_books_spelled. Qed.
Print Assumptions C04_onstore_enterprise_books_definition.

(* a byte-level world that represents a world of the invariant: its books balance *)
Theorem C04_onstore_enterprise_books_balance :
  forall (dom : addr -> Prop) (emb : addr -> list N) (unemb : list N -> addr), emb_hyps dom emb unemb ->
  forall (mw : ent_world) (ws : esworld), ent_inv mw -> Rw dom emb unemb (eworld_of_ent mw) ws -> os_books ws.
Proof. exact os_books_balance. Qed.
Print Assumptions C04_onstore_enterprise_books_balance.

(* ... in every state the on-store rendering reaches *)
Theorem C04_onstore_enterprise_books_balance_reachable :
  forall (dom : addr -> Prop) (emb : addr -> list N) (unemb : list N -> addr), emb_hyps dom emb unemb ->
  forall (mw : ent_world) (ws : esworld) (h : list hop),
  ent_inv mw -> Rwi dom emb unemb (eworld_of_ent mw) ws ->
  hist_side dom (eworld_of_ent mw) h -> mhist_side (eworld_of_ent mw) h ->
  os_books (snd (s_run ws h)) /\ fst (s_run ws h) = fst (k_run (eworld_of_ent mw) h).
Proof. exact os_run_books_balance. Qed.
Print Assumptions C04_onstore_enterprise_books_balance_reachable.

(* ------------------------------------------------------------------ *)
(* C03 on the bytes: the tally rule                                     *)
(* ------------------------------------------------------------------ *)

(* what the generated accessors read before and after the on-store tally: a raised order gets the status the rule of C03
   gives it (its decisions untouched, each by a different signer); it is accepted only with MinAccepts accept decisions *)
Theorem C04_onstore_enterprise_tally_rule :
  forall (dom : addr -> Prop) (emb : addr -> list N) (unemb : list N -> addr)
         (mw : ent_world) (ws ws' : esworld) (u : unit) (id : Z) (g : go_EnterpriseUndPurchaseOrder),
  ent_inv mw -> Rwi dom emb unemb (eworld_of_ent mw) ws ->
  decisions_fit (w_ent mw) -> Z.of_nat (List.length (ep_signers (e_params (w_ent mw)))) < two63 ->
  (forall a r, In a (e_acceptedq (w_ent mw)) -> In r (e_raisedq (w_ent mw)) -> a < r) ->
  S.go_TallyPurchaseOrderDecisions ws = Ok (ws', u) -> 0 <= id < 2 ^ 64 ->
  os_ent_GetPurchaseOrder ws id = Ok (g, true) -> EnterpriseUndPurchaseOrder_Status g = enterprise_StatusRaised ->
  exists p g',
    os_ent_GetParams ws = Ok p /\ os_ent_GetPurchaseOrder ws' id = Ok (g', true) /\
    let ds := map of_go_decision (EnterpriseUndPurchaseOrder_Decisions g) in
    let acc := count_decisions ds ST_ACCEPTED in
    let rej := count_decisions ds ST_REJECTED in
    let n := Z.of_nat (List.length (Params_EntSigners p)) in
    let now := Time_Unix (esw_now ws) in
    EnterpriseUndPurchaseOrder_Status g' =
      (if (Params_DecisionTimeLimit p <=? now - EnterpriseUndPurchaseOrder_RaiseTime g) && (acc <? Params_MinAccepts p)
       then enterprise_StatusRejected
       else if n - Params_MinAccepts p <? rej then enterprise_StatusRejected
       else if Params_MinAccepts p <=? acc then enterprise_StatusAccepted
       else enterprise_StatusRaised) /\
    EnterpriseUndPurchaseOrder_Decisions g' = EnterpriseUndPurchaseOrder_Decisions g /\
    NoDup (map PurchaseOrderDecision_Signer (EnterpriseUndPurchaseOrder_Decisions g)) /\
    (EnterpriseUndPurchaseOrder_Status g' = enterprise_StatusAccepted -> Params_MinAccepts p <= acc).
Proof. exact os_tally_rule. Qed.
Print Assumptions C04_onstore_enterprise_tally_rule.

(* ------------------------------------------------------------------ *)
(* C02 on the bytes: BeginBlock mints exactly the accepted amounts      *)
(* ------------------------------------------------------------------ *)

Theorem C04_onstore_enterprise_begin_block_mints :
  forall (dom : addr -> Prop) (emb : addr -> list N) (unemb : list N -> addr), emb_hyps dom emb unemb ->
  forall (mw : ent_world) (ws : esworld) (t : Z) (ws' : esworld) (r : hresp),
  ent_inv mw -> Rwi dom emb unemb (eworld_of_ent mw) ws ->
  (w_now mw <= t < two63 /\
   decisions_fit (w_ent mw) /\ Z.of_nat (List.length (ep_signers (e_params (w_ent mw)))) < two63) ->
  s_deliver ws (HBegin t) = Ok (ws', r) ->
  exists d L,
    os_ent_GetParamDenom ws = Ok d /\ go_st_GetAllPurchaseOrders (esw_store ws) = Ok L /\
    (* the supply rises by the amounts of the accepted orders the byte store holds, in the enterprise denomination *)
    (forall d', supply_of (esw_bank ws') d' - supply_of (esw_bank ws) d' =
                if d' =? d
                then sumZ (map (fun g => if EnterpriseUndPurchaseOrder_Status g =? enterprise_StatusAccepted
                                         then snd (EnterpriseUndPurchaseOrder_Amount g) else 0) L)
                else 0) /\
    (* no balance but the escrow's moves *)
    (forall a d', a <> ENT_MACC -> balance (esw_bank ws') a d' = balance (esw_bank ws) a d') /\
    (* the accepted orders are completed *)
    (forall g, In g L -> EnterpriseUndPurchaseOrder_Status g = enterprise_StatusAccepted ->
       os_ent_GetPurchaseOrder ws' (EnterpriseUndPurchaseOrder_Id g) =
         Ok (set_EnterpriseUndPurchaseOrder_Status g enterprise_StatusCompleted, true)).
Proof. exact os_begin_block_mints. Qed.
Print Assumptions C04_onstore_enterprise_begin_block_mints.

(* ------------------------------------------------------------------ *)
(* non-vacuity: a concrete run on 20-byte addresses                     *)
(* ------------------------------------------------------------------ *)

(* account numbers 0..254 as 20-byte addresses (nineteen zero bytes, then the number + 1): the hypotheses hold *)
Theorem C04_onstore_enterprise_example_embedding :
  (forall a, os_ex_dom a <-> 0 <= a < 255) /\
  (forall a, os_ex_emb a = repeat 0%N 19 ++ [(Z.to_N a + 1)%N]) /\
  (forall b, os_ex_unemb b = Z.of_N (last b 1%N) - 1) /\
  emb_hyps os_ex_dom os_ex_emb os_ex_unemb.
Proof. exact os_ex_embedding. Qed.
Print Assumptions C04_onstore_enterprise_example_embedding.

(* genesis: signers 5 and 6, two accepts needed, 100 s to decide, first id 1, account 7 holds 100 nund; the byte store is
   the one the two genesis writes build; the two initial worlds are related; the abstract one is a world of the invariant *)
Theorem C04_onstore_enterprise_example_initial :
  os_ex_params = mk_go_Params [5; 6] NUND 2 100 /\
  os_ex_bank = {| bal := [((7, NUND), 100)]; supply := [(NUND, 100)] |} /\
  (do x <- go_st_SetParams [] os_ex_params; go_st_SetHighestPurchaseOrderID (fst x) 1) = Ok (os_ex_store0, tt) /\
  os_ex_sw0 = mk_esworld os_ex_emb os_ex_unemb 0 os_ex_bank os_ex_store0 /\
  os_ex_mw0 = {| w_bank := os_ex_bank; w_ent := ent_genesis (params_of_go os_ex_params) 1 []; w_now := 0 |} /\
  os_ex_kw0 = eworld_of_ent os_ex_mw0 /\
  Rwi os_ex_dom os_ex_emb os_ex_unemb os_ex_kw0 os_ex_sw0 /\
  ent_inv os_ex_mw0.
Proof. exact os_ex_initial. Qed.
Print Assumptions C04_onstore_enterprise_example_initial.

(* block 1: signer 5 whitelists account 7; account 7 raises an order of 500 nund (id 1), account 8 is refused (not
   whitelisted); signer 5 accepts, tries again (refused), signer 6 accepts; account 7 is not the authority for the
   parameters.  Block 2: the tally accepts order 1.  Block 3: 500 nund are minted and locked for account 7; a fee of 30 nund
   unlocks 30.  Executed by the on-store rendering: the eleven results; what the generated accessors read back from the
   final byte store (one 9-byte order key, three 21-byte address keys, four 1-byte keys) *)
Theorem C04_onstore_enterprise_example_run :
  os_ex_hist =
    [ HBegin 1700000000;
      HMsg (EWhitelist 5 7 1); HMsg (ERaise 7 NUND 500); HMsg (ERaise 8 NUND 10);
      HMsg (EDecide 5 1 ST_ACCEPTED); HMsg (EDecide 5 1 ST_ACCEPTED); HMsg (EDecide 6 1 ST_ACCEPTED);
      HUpdateParams (mk_go_MsgUpdateParams 7 os_ex_params);
      HBegin 1700000010;
      HBegin 1700000020;
      HUnlock 7 [(NUND, 30)] ] /\
  let ws := snd (s_run os_ex_sw0 os_ex_hist) in
  fst (s_run os_ex_sw0 os_ex_hist) =
    [ Ok RBegin; Ok (RMsg 0); Ok (RMsg 1); Err ERR_ENT_NOT_WL; Ok (RMsg 0); Err ERR_ENT_ALREADY; Ok (RMsg 0); Err 42;
      Ok RBegin; Ok RBegin; Ok RUnlock ] /\
  map (fun kv => List.length (fst kv)) (esw_store ws) = [9; 21; 21; 21; 1; 1; 1; 1]%nat /\
  os_ent_GetPurchaseOrder ws 1 =
    Ok (mk_go_EnterpriseUndPurchaseOrder 1 7 (NUND, 500) enterprise_StatusCompleted 1700000000 1700000010
          [mk_go_PurchaseOrderDecision 5 ST_ACCEPTED 1700000000; mk_go_PurchaseOrderDecision 6 ST_ACCEPTED 1700000000], true) /\
  os_ent_GetAllRaisedPurchaseOrders ws = Ok [] /\ os_ent_GetAllAcceptedPurchaseOrders ws = Ok [] /\
  os_ent_GetHighestPurchaseOrderID ws = Ok 2 /\
  os_ent_AddressIsWhitelisted ws 7 = Ok true /\ os_ent_AddressIsWhitelisted ws 8 = Ok false /\
  os_ent_GetLockedUndForAccount ws 7 = Ok (mk_go_LockedUnd 7 (NUND, 470)) /\
  os_ent_GetSpentEFUNDForAccount ws 7 = Ok (mk_go_SpentEFUND 7 (NUND, 30)) /\
  os_ent_GetTotalLockedUnd ws = Ok (NUND, 470) /\ os_ent_GetTotalSpentEFUND ws = Ok (NUND, 30) /\
  balance (esw_bank ws) ENT_MACC NUND = 470 /\ balance (esw_bank ws) 7 NUND = 130 /\ supply_of (esw_bank ws) NUND = 600.
Proof. exact os_ex_onstore_run_spelled. Qed.
Print Assumptions C04_onstore_enterprise_example_run.

(* the side conditions hold along the run; it is related to the run of rendering (1) - by the theorem -, and by the
   transported C04 the books read from the final bytes balance *)
Theorem C04_onstore_enterprise_example_related :
  hist_side os_ex_dom os_ex_kw0 os_ex_hist /\ mhist_side os_ex_kw0 os_ex_hist /\
  fst (k_run os_ex_kw0 os_ex_hist) = fst (s_run os_ex_sw0 os_ex_hist) /\
  Rwi os_ex_dom os_ex_emb os_ex_unemb (snd (k_run os_ex_kw0 os_ex_hist)) (snd (s_run os_ex_sw0 os_ex_hist)) /\
  os_books (snd (s_run os_ex_sw0 os_ex_hist)).
Proof. exact os_ex_onstore_related_all. Qed.
Print Assumptions C04_onstore_enterprise_example_related.

(* ------------------------------------------------------------------ *)
(* the side conditions are needed                                       *)
(* ------------------------------------------------------------------ *)

(* the tally on a state where an accepted id (2) is above a raised id (1) that it accepts: the primitive appends to the
   accepted queue ([2; 1]), the byte store lists it in id order ([1; 2]); both answer Ok from related worlds, the worlds
   they leave are not related.  The begin blocker never does this: it runs the tally right after
   ProcessAcceptedPurchaseOrders has emptied the accepted queue. *)
Theorem C04_onstore_enterprise_tally_order_needed_refuted :
  tp_hist =
    [ HBegin 1700000000; HMsg (EWhitelist 5 7 1); HMsg (ERaise 7 NUND 500); HMsg (ERaise 7 NUND 300);
      HMsg (EDecide 5 2 ST_ACCEPTED); HMsg (EDecide 6 2 ST_ACCEPTED);
      HBegin 1700000010;
      HMsg (EDecide 5 1 ST_ACCEPTED); HMsg (EDecide 6 1 ST_ACCEPTED) ] /\
  tp_w = snd (k_run os_ex_kw0 tp_hist) /\ tp_ws = snd (s_run os_ex_sw0 tp_hist) /\
  Rwi os_ex_dom os_ex_emb os_ex_unemb tp_w tp_ws /\
  ent_GetAllAcceptedPurchaseOrders tp_w = [2] /\ ent_GetAllRaisedPurchaseOrders tp_w = [1] /\
  exists w' ws',
    K.go_TallyPurchaseOrderDecisions tp_w = Ok (w', tt) /\
    S.go_TallyPurchaseOrderDecisions tp_ws = Ok (ws', tt) /\
    ent_GetAllAcceptedPurchaseOrders w' = [2; 1] /\
    os_ent_GetAllAcceptedPurchaseOrders ws' = Ok [1; 2] /\
    ~ Rw os_ex_dom os_ex_emb os_ex_unemb w' ws'.
Proof. exact tally_pre_needed_refuted_spelled. Qed.
Print Assumptions C04_onstore_enterprise_tally_order_needed_refuted.

(* the id counter at the last uint64: the first raise queues 2^64 - 1 and wraps the counter to 0 in both renderings; the
   second queues id 0: appended by the primitive, listed first by the byte store *)
Theorem C04_onstore_enterprise_counter_bound_needed_refuted :
  let w := snd (k_run cb_kw0 cb_hist) in
  let ws := snd (s_run cb_sw0 cb_hist) in
  let two_raises := [HMsg (ERaise 7 NUND 500); HMsg (ERaise 7 NUND 300)] in
  Rwi os_ex_dom os_ex_emb os_ex_unemb w ws /\ e_next (ew_ent w) = 2 ^ 64 - 1 /\
  fst (k_run w two_raises) = [Ok (RMsg cb_last); Ok (RMsg 0)] /\
  fst (s_run ws two_raises) = [Ok (RMsg cb_last); Ok (RMsg 0)] /\
  ent_GetAllRaisedPurchaseOrders (snd (k_run w two_raises)) = [cb_last; 0] /\
  os_ent_GetAllRaisedPurchaseOrders (snd (s_run ws two_raises)) = Ok [0; cb_last] /\
  ~ Rw os_ex_dom os_ex_emb os_ex_unemb (snd (k_run w two_raises)) (snd (s_run ws two_raises)).
Proof. exact counter_bound_needed_refuted. Qed.
Print Assumptions C04_onstore_enterprise_counter_bound_needed_refuted.
