(* C16: the stored parameters of the four modules always satisfy their validity rules
   (well-formed denomination, positive fees and limits with default <= maximum, at least as many
   well-formed signers as minimum accepts, validator fee within [0,1]); an update with any invalid
   field is rejected as a whole.  After a successful update every fee check, limit check, quorum
   tally and fee split uses the new values and only the new values. *)
From MC Require Import lib.Prelude lib.AMap model.Bank model.Stream model.Registry model.Enterprise
  model.App model.AppSpec.
From MC Require Import proofs.AppFrame proofs.AppParamsProofs.
Local Open Scope Z_scope.

(* ---- 16: the validators decide exactly the validity rules ---- *)
Theorem C16_validate_spec :
  (forall p, ent_params_valid p = true <-> ent_params_ok p) /\
  (forall p, reg_params_valid p = true <-> reg_params_ok p) /\
  (forall v, str_params_valid v = true <-> str_params_ok v).
Proof. exact validate_spec. Qed.
Print Assumptions C16_validate_spec.

(* ---- 17: an update with an invalid field is rejected as a whole (an Err leaves the state as it was) ---- *)
Theorem C16_update_atomic : forall f a authority u,
  upd_valid u = false ->
  (exists c, exec_msg (S f) a (MUpdParams authority u) = Err c) /\
  validate_basic (S f) (MUpdParams authority u) = Err ERR_APP.
Proof. exact update_atomic. Qed.
Print Assumptions C16_update_atomic.

(* ---- 18: validity is an invariant of every transition ---- *)
Theorem C16_params_valid_invariant : forall f a m a',
  exec_msg f a m = Ok a' -> params_ok a -> params_ok a'.
Proof. exact exec_msg_params_ok. Qed.
Print Assumptions C16_params_valid_invariant.

Theorem C16_params_valid_deliver_tx : forall a t a' r,
  deliver_tx a t = (a', r) -> params_ok a -> params_ok a'.
Proof. exact deliver_tx_params_ok. Qed.
Print Assumptions C16_params_valid_deliver_tx.

Theorem C16_params_valid_check_tx : forall a t a' r,
  check_tx a t = (a', r) -> params_ok a -> params_ok a'.
Proof. exact check_tx_params_ok. Qed.
Print Assumptions C16_params_valid_check_tx.

Theorem C16_params_valid_end_block : forall ps a, params_ok a -> params_ok (end_block a ps).
Proof. exact end_block_params_ok. Qed.
Print Assumptions C16_params_valid_end_block.

Theorem C16_begin_block_changes_no_params : forall a now a',
  begin_block a now = Some a' ->
  e_params (a_ent a') = e_params (a_ent a) /\ r_params (a_wrk a') = r_params (a_wrk a) /\
  r_params (a_bcn a') = r_params (a_bcn a) /\ s_valfee (a_str a') = s_valfee (a_str a).
Proof. exact begin_block_changes_no_params. Qed.
Print Assumptions C16_begin_block_changes_no_params.

Theorem C16_params_valid_begin_block : forall a now a',
  begin_block a now = Some a' -> params_ok a -> params_ok a'.
Proof. exact begin_block_params_ok. Qed.
Print Assumptions C16_params_valid_begin_block.

(* only a parameter update changes parameters *)
Theorem C16_only_updates_change_params : forall f a m a',
  exec_msg f a m = Ok a' -> (forall g l, m <> MExec g l) -> is_param_update m = false ->
  e_params (a_ent a') = e_params (a_ent a) /\ r_params (a_wrk a') = r_params (a_wrk a) /\
  r_params (a_bcn a') = r_params (a_bcn a) /\ s_valfee (a_str a') = s_valfee (a_str a).
Proof. exact only_updates_change_params. Qed.
Print Assumptions C16_only_updates_change_params.

(* all three states of a node, along every history from a valid genesis *)
Theorem C16_params_valid_reachable : forall g h n,
  params_ok g -> node_run (node_init g) h = Some n ->
  params_ok (n_committed n) /\ params_ok (n_check n) /\
  match n_deliver n with Some a => params_ok a | None => True end.
Proof. exact params_valid_reachable. Qed.
Print Assumptions C16_params_valid_reachable.

(* ---- 19: effective immediately, and only the new values ---- *)
Theorem C16_effective_immediately_wrk : forall f a p a',
  exec_msg f a (MUpdParams GOV_MACC (UWrk p)) = Ok a' ->
  a' = with_wrk a (reg_with_params (a_wrk a) p) /\
  r_params (a_wrk a') = p /\ r_next (a_wrk a') = r_next (a_wrk a) /\ r_regs (a_wrk a') = r_regs (a_wrk a) /\
  r_limits (a_wrk a') = r_limits (a_wrk a) /\ r_recs (a_wrk a') = r_recs (a_wrk a) /\
  a_bank a' = a_bank a /\ a_ent a' = a_ent a /\ a_bcn a' = a_bcn a /\ a_str a' = a_str a /\
  a_grants a' = a_grants a /\ a_allow a' = a_allow a /\ a_now a' = a_now a.
Proof. exact upd_wrk_effective. Qed.
Print Assumptions C16_effective_immediately_wrk.

Theorem C16_effective_immediately_bcn : forall f a p a',
  exec_msg f a (MUpdParams GOV_MACC (UBcn p)) = Ok a' ->
  a' = with_bcn a (reg_with_params (a_bcn a) p) /\
  r_params (a_bcn a') = p /\ r_next (a_bcn a') = r_next (a_bcn a) /\ r_regs (a_bcn a') = r_regs (a_bcn a) /\
  r_limits (a_bcn a') = r_limits (a_bcn a) /\ r_recs (a_bcn a') = r_recs (a_bcn a) /\
  a_bank a' = a_bank a /\ a_ent a' = a_ent a /\ a_wrk a' = a_wrk a /\ a_str a' = a_str a /\
  a_grants a' = a_grants a /\ a_allow a' = a_allow a /\ a_now a' = a_now a.
Proof. exact upd_bcn_effective. Qed.
Print Assumptions C16_effective_immediately_bcn.

Theorem C16_effective_immediately_ent : forall f a p a',
  exec_msg f a (MUpdParams GOV_MACC (UEnt p)) = Ok a' ->
  e_params (a_ent a') = p /\ e_next (a_ent a') = e_next (a_ent a) /\ e_pos (a_ent a') = e_pos (a_ent a) /\
  e_raisedq (a_ent a') = e_raisedq (a_ent a) /\ e_acceptedq (a_ent a') = e_acceptedq (a_ent a) /\
  e_wl (a_ent a') = e_wl (a_ent a) /\ e_locked (a_ent a') = e_locked (a_ent a) /\
  e_spent (a_ent a') = e_spent (a_ent a) /\ e_totlocked (a_ent a') = e_totlocked (a_ent a) /\
  e_totspent (a_ent a') = e_totspent (a_ent a) /\
  a_bank a' = a_bank a /\ a_wrk a' = a_wrk a /\ a_bcn a' = a_bcn a /\ a_str a' = a_str a /\
  a_grants a' = a_grants a /\ a_allow a' = a_allow a /\ a_now a' = a_now a.
Proof. exact upd_ent_effective. Qed.
Print Assumptions C16_effective_immediately_ent.

Theorem C16_effective_immediately_str : forall f a v a',
  exec_msg f a (MUpdParams GOV_MACC (UStr v)) = Ok a' ->
  s_valfee (a_str a') = v /\ s_streams (a_str a') = s_streams (a_str a) /\
  a_bank a' = a_bank a /\ a_ent a' = a_ent a /\ a_wrk a' = a_wrk a /\ a_bcn a' = a_bcn a /\
  a_grants a' = a_grants a /\ a_allow a' = a_allow a /\ a_now a' = a_now a.
Proof. exact upd_str_effective. Qed.
Print Assumptions C16_effective_immediately_str.

(* the readers see the state only through its current parameters *)
Theorem C16_check_fees_reads_params_only : forall pick rs rs' t,
  r_params rs = r_params rs' -> check_fees pick rs t = check_fees pick rs' t.
Proof. exact check_fees_params_only. Qed.
Print Assumptions C16_check_fees_reads_params_only.

Theorem C16_reg_ante_reads_params_and_limits_only : forall pick rs rs' check b e t,
  r_params rs = r_params rs' -> r_limits rs = r_limits rs' ->
  reg_ante pick rs check b e t = reg_ante pick rs' check b e t.
Proof. exact reg_ante_params_only. Qed.
Print Assumptions C16_reg_ante_reads_params_and_limits_only.

Theorem C16_purchase_limit_reads_current_max : forall h now s s' o id n,
  r_params s = r_params s' -> r_regs s = r_regs s' -> r_limits s = r_limits s' ->
  is_ok (reg_exec h now s (RPurchase o id n)) = is_ok (reg_exec h now s' (RPurchase o id n)).
Proof. exact reg_exec_purchase_limit_params_only. Qed.
Print Assumptions C16_purchase_limit_reads_current_max.

Theorem C16_tally_reads_current_params : forall id rest now s o,
  aget id (e_pos s) = Some o -> po_status o = ST_RAISED ->
  tally (id :: rest) now s =
  match tally_one (e_params s) now o with
  | None => tally rest now s
  | Some st =>
      tally rest now (with_pos s (aset id (set_po_status o st now true) (e_pos s)) (remove_z id (e_raisedq s))
                        (if st =? ST_ACCEPTED then e_acceptedq s ++ [id] else e_acceptedq s))
  end.
Proof. exact tally_reads_current_params. Qed.
Print Assumptions C16_tally_reads_current_params.

Theorem C16_claim_uses_current_valfee : forall now b s r sn b' s' c,
  claim_from_stream now b s r sn = Ok (b', s', c) ->
  (cr_receiver c, cr_fee c) = calculate_validator_fee (s_valfee s) (cr_total c).
Proof. exact claim_uses_current_valfee. Qed.
Print Assumptions C16_claim_uses_current_valfee.

(* ---- the hypotheses are satisfiable ---- *)
Example ex_rp : reg_params :=
  {| rp_fee_register := 1000; rp_fee_record := 1; rp_fee_purchase := 5; rp_denom := NUND;
     rp_default_limit := 100; rp_max_limit := 1000 |}.
Example ex_rp2 : reg_params :=
  {| rp_fee_register := 2000; rp_fee_record := 1; rp_fee_purchase := 5; rp_denom := NUND;
     rp_default_limit := 100; rp_max_limit := 1000 |}.
Example ex_reg : reg_state :=
  {| r_params := ex_rp; r_next := 1; r_regs := []; r_limits := []; r_recs := [] |}.
Example ex_app : app :=
  {| a_bank := {| bal := [((1, NUND), 10000); ((2, NUND), 50)]; supply := [(NUND, 10050)] |};
     a_ent := {| e_params := {| ep_denom := NUND; ep_min_accepts := 1; ep_time_limit := 100; ep_signers := [7] |};
                 e_next := 1; e_pos := []; e_raisedq := []; e_acceptedq := []; e_wl := [1];
                 e_locked := []; e_spent := []; e_totlocked := None; e_totspent := None |};
     a_wrk := ex_reg; a_bcn := ex_reg;
     a_str := {| s_valfee := 10000000000000000; s_streams := [] |};
     a_grants := []; a_allow := []; a_now := 1700000000 * NS |}.

Example ex_params_valid :
  ent_params_valid (e_params (a_ent ex_app)) = true /\ reg_params_valid (r_params (a_wrk ex_app)) = true /\
  reg_params_valid (r_params (a_bcn ex_app)) = true /\ str_params_valid (s_valfee (a_str ex_app)) = true.
Proof. vm_compute. repeat split; reflexivity. Qed.

Example ex_tx_register (fee : Z) : tx :=
  {| tx_msgs := [MWrk (RRegister 1 "m" "n" "g" "t")]; tx_fee := [(NUND, fee)];
     tx_granter := None; tx_sig_ok := true |}.

(* governance doubles the registration fee: the very next CheckTx demands the new fee and only it *)
Example ex_update_effective :
  let a' := end_block ex_app [[MUpdParams GOV_MACC (UWrk ex_rp2)]] in
  r_params (a_wrk a') = ex_rp2 /\
  snd (check_tx ex_app (ex_tx_register 1000)) = TxOk /\
  snd (check_tx a' (ex_tx_register 1000)) = TxRejected ERR_FEE_INSUFFICIENT /\
  snd (check_tx a' (ex_tx_register 2000)) = TxOk.
Proof. vm_compute. repeat split; reflexivity. Qed.

(* one invalid field (default limit above the maximum) rejects the whole update, also as a proposal *)
Example ex_invalid_update_rejected :
  let bad := {| rp_fee_register := 2000; rp_fee_record := 1; rp_fee_purchase := 5; rp_denom := NUND;
                rp_default_limit := 2000; rp_max_limit := 1000 |} in
  upd_valid (UWrk bad) = false /\
  exec_msg 3 ex_app (MUpdParams GOV_MACC (UWrk bad)) = Err ERR_APP /\
  end_block ex_app [[MUpdParams GOV_MACC (UWrk bad)]] = ex_app /\
  (* a user cannot update even with valid values *)
  exec_msg 3 ex_app (MUpdParams 1 (UWrk ex_rp2)) = Err ERR_GOV_AUTH.
Proof. vm_compute. repeat split; reflexivity. Qed.
