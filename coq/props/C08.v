(* C08 - In-state retention keeps exactly the newest records within the bought limit.

   Model: model/Registry.v ([heighted = true] wrkchain, [false] beacon).  Vocabulary:
   model/RegistrySpec.v.  Proofs: proofs/RegistryProofs.v.  [reg_inv heighted s g] is the inductive
   invariant of reachable (state, ghost log) pairs (established by genesis and kept by every message
   and parameter change: C07_reg_inv_init / _step / _set_params / _run in props/C07.v).
   [recs_of id (r_recs s)] are the records held in state for [id] in store order, [log_of g id] all
   records ever accepted for it (oldest first), [lastn n l] the last n elements of l,
   [limit_of s id] the in-state limit of [id]. *)
From MC Require Import lib.Prelude lib.AMap model.Bank model.Registry model.RegistrySpec.
From MC Require Import proofs.RegistryProofs.
Local Open Scope Z_scope.

(* 6. The records in state are exactly the newest [rg_num] accepted ones, at most the limit. *)
Theorem C08_retained_is_newest_suffix :
  forall heighted s g id rg,
    reg_inv heighted s g -> aget id (r_regs s) = Some rg ->
    recs_of id (r_recs s) = lastn (Z.to_nat (rg_num rg)) (log_of g id) /\
    0 <= rg_num rg /\ rg_num rg <= limit_of s id /\
    rg_num rg <= Z.of_nat (List.length (log_of g id)).
Proof. exact C08_newest_suffix. Qed.
Print Assumptions C08_retained_is_newest_suffix.

(* 7. An accepted record takes the count n to min(n+1, limit); the new record goes to the end and,
   iff the limit was already reached, the single oldest retained record is pruned.  Every other
   registration, its records and all limits are untouched.  Registration and purchase touch no
   record at all. *)
Theorem C08_count_evolution :
  forall heighted s g t o id key hashes s' r rg,
    reg_inv heighted s g -> u64 key ->
    reg_exec heighted t s (RRecord o id key hashes) = Ok (s', r) ->
    q_registration s id = Some rg ->
    exists rg' k rc,
      r = RespRecorded id k /\ q_registration s' id = Some rg' /\
      rg_num rg' = Z.min (rg_num rg + 1) (limit_of s id) /\
      recs_of id (r_recs s')
        = (if limit_of s id <? rg_num rg + 1 then tl (recs_of id (r_recs s)) else recs_of id (r_recs s))
          ++ [(k, rc)] /\
      (forall id', id' <> id ->
         recs_of id' (r_recs s') = recs_of id' (r_recs s) /\
         q_registration s' id' = q_registration s id') /\
      (forall id', limit_of s' id' = limit_of s id').
Proof. exact C08_count_evolution_stmt. Qed.
Print Assumptions C08_count_evolution.

Theorem C08_other_messages_touch_no_record :
  forall heighted t s m s' r,
    reg_exec heighted t s m = Ok (s', r) ->
    match m with RRecord _ _ _ _ => True | _ => r_recs s' = r_recs s end.
Proof. exact C08_records_untouched. Qed.
Print Assumptions C08_other_messages_touch_no_record.

(* 8. From genesis, as long as nothing is purchased for [id], the limit stays the default in force
   at its registration and the number in state is min(total recorded, limit). *)
Theorem C08_retained_count_closed_form :
  forall heighted p start h id,
    reg_params_valid p = true -> 1 <= start ->
    Forall (fun tm => reg_msg_wf (snd tm) /\ 0 <= fst tm) h ->
    Forall (fun tm => forall o n, snd tm <> RPurchase o id n) h ->
    let '(s, g) := reg_run heighted (reg_init p start, ghost_init) h in
    forall rg, q_registration s id = Some rg ->
      limit_of s id = rp_default_limit p /\
      rg_num rg = Z.min (Z.of_nat (List.length (log_of g id))) (rp_default_limit p).
Proof. exact C08_closed_form_stmt. Qed.
Print Assumptions C08_retained_count_closed_form.

(* 9. The counters of a registration match what can be queried. *)
Theorem C08_counters_match_store :
  forall heighted s g id rg,
    reg_inv heighted s g -> aget id (r_regs s) = Some rg ->
    rg_num rg = Z.of_nat (List.length (recs_of id (r_recs s))) /\
    rg_lowest rg = hd 0 (keys_of id (r_recs s)) /\
    rg_last rg = last (map fst (log_of g id)) 0 /\
    (rg_num rg > 0 ->
       (exists rc, q_record s id (rg_last rg) = Some rc) /\
       (exists rc, q_record s id (rg_lowest rg) = Some rc)).
Proof. exact C08_counters. Qed.
Print Assumptions C08_counters_match_store.

(* 10a. The limit starts at the default in force at registration. *)
Theorem C08_limit_at_registration :
  forall heighted t s o moniker name genesis type s' r,
    reg_exec heighted t s (RRegister o moniker name genesis type) = Ok (s', r) ->
    r = RespRegistered (r_next s) /\ limit_of s' (r_next s) = rp_default_limit (r_params s).
Proof. exact C08_limit_register. Qed.
Print Assumptions C08_limit_at_registration.

(* 10b + 11b. A successful purchase raises the limit by exactly the purchased number (integer sum,
   no wrap), never above the maximum in force, is made by the owner, and reports the remaining
   capacity max(0, maximum - new limit). *)
Theorem C08_limit_after_purchase :
  forall heighted t s o id n s' r,
    reg_exec heighted t s (RPurchase o id n) = Ok (s', r) ->
    limit_of s' id = limit_of s id + n /\ limit_of s' id <= rp_max_limit (r_params s) /\
    r_params s' = r_params s /\
    r = RespPurchased id n (Z.max 0 (rp_max_limit (r_params s') - limit_of s' id)) /\
    exists rg, aget id (r_regs s) = Some rg /\ o = rg_owner rg.
Proof. exact C08_limit_purchase. Qed.
Print Assumptions C08_limit_after_purchase.

(* 10c. Nothing else changes the limit of an existing registration: no other message (successful or
   not, by anyone), and no parameter change. *)
Theorem C08_limit_unchanged_otherwise :
  forall heighted s g t m id rg,
    reg_inv heighted s g -> reg_msg_wf m -> q_registration s id = Some rg ->
    (forall o n, m <> RPurchase o id n) ->
    limit_of (fst (reg_step heighted (s, g) (t, m))) id = limit_of s id.
Proof. exact C08_limit_unchanged_stmt. Qed.
Print Assumptions C08_limit_unchanged_otherwise.

Theorem C08_limit_unchanged_by_params :
  forall s p id, limit_of (reg_set_params s p) id = limit_of s id.
Proof. exact C08_limit_set_params. Qed.
Print Assumptions C08_limit_unchanged_by_params.

(* 10d. Along any history a registration stays registered and its limit never decreases. *)
Theorem C08_limit_never_decreases :
  forall heighted s g h id rg,
    reg_inv heighted s g ->
    Forall (fun tm => reg_msg_wf (snd tm) /\ 0 <= fst tm) h ->
    q_registration s id = Some rg ->
    let '(s', g') := reg_run heighted (s, g) h in
    (exists rg', q_registration s' id = Some rg') /\ limit_of s id <= limit_of s' id.
Proof. exact C08_limit_monotone_stmt. Qed.
Print Assumptions C08_limit_never_decreases.

(* 11a. The storage query reports limit, maximum and remaining capacity max(0, maximum - limit). *)
Theorem C08_capacity_reported :
  forall heighted s g id si,
    reg_inv heighted s g -> q_storage s id = Some si ->
    si_limit si = limit_of s id /\ si_max si = rp_max_limit (r_params s) /\
    si_max_purchasable si = Z.max 0 (rp_max_limit (r_params s) - si_limit si) /\
    exists rg, aget id (r_regs s) = Some rg /\ si_owner si = rg_owner rg /\ si_used si = rg_num rg.
Proof. exact C08_capacity. Qed.
Print Assumptions C08_capacity_reported.

(* ---- a concrete run: default limit 2, maximum 5 ---- *)

Example c08_ex_params : reg_params :=
  {| rp_fee_register := 1; rp_fee_record := 1; rp_fee_purchase := 1; rp_denom := 0;
     rp_default_limit := 2; rp_max_limit := 5 |}.

Example c08_ex_hist (key1 key2 key3 key4 : Z) : list (Z * reg_msg) :=
  [ (100, RRegister 7 "mon" "name" "0xgen" "geth");
    (101, RRecord 7 1 key1 ["h1"%string]);
    (102, RRecord 7 1 key2 ["h2"%string]);
    (103, RRecord 7 1 key3 ["h3"%string]);
    (104, RPurchase 7 1 1);
    (105, RRecord 7 1 key4 ["h4"%string]);
    (106, RPurchase 7 1 3) ].

Example c08_ex_params_valid : reg_params_valid c08_ex_params = true.
Proof. reflexivity. Qed.

Example c08_ex_hist_wf :
  Forall (fun tm => reg_msg_wf (snd tm) /\ 0 <= fst tm) (c08_ex_hist 10 20 30 40).
Proof. repeat constructor; cbn; unfold two64; lia. Qed.

(* what the registration, its limit and its stored keys look like after the first n messages *)
Example c08_ex_view (heighted : bool) (keys : Z * Z * Z * Z) (n : nat) :=
  let '(k1, k2, k3, k4) := keys in
  let s := fst (reg_run heighted (reg_init c08_ex_params 1, ghost_init) (firstn n (c08_ex_hist k1 k2 k3 k4))) in
  (match q_registration s 1 with Some rg => (rg_num rg, rg_lowest rg, rg_last rg) | None => (-1, -1, -1) end,
   limit_of s 1, keys_of 1 (r_recs s)).

Example c08_ex_wrkchain :
  c08_ex_view true (10, 20, 30, 40) 1 = ((0, 0, 0), 2, []) /\
  c08_ex_view true (10, 20, 30, 40) 3 = ((2, 10, 20), 2, [10; 20]) /\
  c08_ex_view true (10, 20, 30, 40) 4 = ((2, 20, 30), 2, [20; 30]) /\    (* 10 pruned *)
  c08_ex_view true (10, 20, 30, 40) 5 = ((2, 20, 30), 3, [20; 30]) /\    (* bought 1 *)
  c08_ex_view true (10, 20, 30, 40) 6 = ((3, 20, 40), 3, [20; 30; 40]) /\ (* nothing pruned, 10 stays gone *)
  c08_ex_view true (10, 20, 30, 40) 7 = ((3, 20, 40), 3, [20; 30; 40]).   (* 3 + 3 > 5: rejected *)
Proof. vm_compute. repeat split. Qed.

Example c08_ex_beacon :
  c08_ex_view false (1001, 1002, 1003, 1004) 1 = ((0, 0, 0), 2, []) /\
  c08_ex_view false (1001, 1002, 1003, 1004) 3 = ((2, 1, 2), 2, [1; 2]) /\
  c08_ex_view false (1001, 1002, 1003, 1004) 4 = ((2, 2, 3), 2, [2; 3]) /\
  c08_ex_view false (1001, 1002, 1003, 1004) 5 = ((2, 2, 3), 3, [2; 3]) /\
  c08_ex_view false (1001, 1002, 1003, 1004) 6 = ((3, 2, 4), 3, [2; 3; 4]) /\
  c08_ex_view false (1001, 1002, 1003, 1004) 7 = ((3, 2, 4), 3, [2; 3; 4]).
Proof. vm_compute. repeat split. Qed.

(* the count is NOT min(total recorded, limit) once storage is bought after a pruning: records that
   were pruned do not come back (3 recorded, limit 3, but 2 in state) - hence the evolution law
   C08_count_evolution and the closed form only without purchases *)
Example c08_ex_pruned_do_not_return :
  let '(s, g) := reg_run true (reg_init c08_ex_params 1, ghost_init) (firstn 5 (c08_ex_hist 10 20 30 40)) in
  List.length (log_of g 1) = 3%nat /\ limit_of s 1 = 3 /\ option_map rg_num (q_registration s 1) = Some 2.
Proof. vm_compute. repeat split. Qed.

Example c08_ex_purchase_responses :
  let run n := fst (reg_run true (reg_init c08_ex_params 1, ghost_init) (firstn n (c08_ex_hist 10 20 30 40))) in
  (exists s', reg_exec true 104 (run 4%nat) (RPurchase 7 1 1) = Ok (s', RespPurchased 1 1 2)) /\
  reg_exec true 106 (run 6%nat) (RPurchase 7 1 3) = Err ERR_REG_MAX /\
  (exists s', reg_exec true 106 (run 6%nat) (RPurchase 7 1 2) = Ok (s', RespPurchased 1 2 0)) /\
  option_map si_max_purchasable (q_storage (run 6%nat) 1) = Some 2.
Proof. vm_compute. repeat split; eexists; reflexivity. Qed.
