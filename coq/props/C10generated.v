(* C10, link to the source: the Gallina function generated on every run from CalculateValidatorFee in
   /repo/x/stream/types/utils.go (coq/GeneratedFns.v, over the cosmos-sdk semantics of lib/GoSdk.v,
   LegacyDec.Mul with banker's rounding, TruncateInt, Coin.Sub) computes exactly the model's
   calculate_validator_fee: fee = floor(claim x rate), receiver = claim - fee. *)
From MC Require Import lib.Prelude lib.GoSdk GeneratedFns lib.AMap model.Bank model.Stream.
From MC Require Import proofs.GeneratedFnsEq.
Local Open Scope Z_scope.

Theorem C10_generated_fee_is_model : forall (d : go_denom) (vf claim : Z),
  0 <= vf <= DEC_ONE -> 0 <= claim ->
  go_CalculateValidatorFee vf (d, claim) =
    Ok ((d, fst (calculate_validator_fee vf claim)),
        (d, snd (calculate_validator_fee vf claim))).
Proof. exact gen_CalculateValidatorFee_eq. Qed.
Print Assumptions C10_generated_fee_is_model.

(* 1 % of 1000 : receiver 990, validators 10 *)
Example C10_generated_fee_ex :
  go_CalculateValidatorFee 10000000000000000 (0, 1000)
    = Ok ((0, 990), (0, 10)).
Proof. vm_compute. reflexivity. Qed.

(* the fee is floored: 1 % of 199 is 1 *)
Example C10_generated_fee_floor_ex :
  go_CalculateValidatorFee 10000000000000000 (0, 199)
    = Ok ((0, 198), (0, 1)).
Proof. vm_compute. reflexivity. Qed.

(* zero rate: nothing to the validators *)
Example C10_generated_fee_zero_ex :
  go_CalculateValidatorFee 0 (0, 1000)
    = Ok ((0, 1000), (0, 0)).
Proof. vm_compute. reflexivity. Qed.
