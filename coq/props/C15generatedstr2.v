(* C15, link to the source: ExportGenesis of /repo/x/stream/keeper/genesis.go as generated on every run
   (coq/GeneratedStreamKeeper.v: go_ExportGenesis, go_NewGenesisState) against the model of genesis export
   (model/Genesis.v: export_str), and the pair ExportGenesis / InitGenesis against the model's round trip.  The generated
   document is read as the model's by [gen_str_of_go], a fresh store is [fresh_kworld] (model/StreamGenesisGenSpec.v).
   Proofs: proofs/GeneratedStreamExportEq.v (InitGenesis: proofs/GeneratedStreamGenesisEq.v, props/C15generatedstr.v).

   What the Go code does: reads the parameters, walks every stored stream with k.IterateAllStreams (the callback appends
   {receiver, sender, stream} and never stops the walk), and builds the document with NewGenesisState.  The translator
   renders the walk as a loop over the primitive [str_AllStreams] (model/StreamKeeperPrims.v: every stored stream with
   the (receiver, sender) pair parsed from its key, in store order).

   Export (C15_generated_str_export_is_model, _document, _never_fails, _entries, _reads_store_only): NO hypothesis, every
   world - reachable or not, duplicate keys or not, storable times or not.

   Round trip (C15_generated_str_export_roundtrip, _export_again), hypotheses:
     str_inv now0 (kw_bank w) (kw_str w)   the invariant of reachable states (model/StreamSpec.v), at any block time now0.
                              Used: one entry per key (InitGenesis adds up the deposits of the DOCUMENT, see
                              props/C15generatedstr.v), the escrow holds exactly the deposits per denomination
                              (InitGenesis panics otherwise), deposits are not negative (GetAllBalances lists positive
                              rows only), the stored times can be marshalled (SetStream panics otherwise), the fee is
                              valid (InitGenesis drops the error of SetParams).
     bank_wf (kw_bank w)      one row per (account, denomination).
   The import runs over the bank of the exporting world (x/bank exports and imports the balances itself), on a fresh
   stream store with any clock and any previous fee.  That backing and distinct keys cannot be dropped:
   C15_generated_str_export_roundtrip_needs_backing, _needs_nodup.

   The other direction (C15_generated_str_export_after_import): a document InitGenesis accepts is exported again as the
   same document, read as the model's. *)
From MC Require Import lib.Prelude lib.AMap lib.GoSdk GeneratedFns GeneratedStreamTypes model.Bank model.Stream model.StreamSpec
  model.Genesis model.StreamKeeperPrims GeneratedStreamKeeper model.StreamGenesisGenSpec.
From MC Require Import proofs.BankProofs proofs.GeneratedStreamGenesisEq proofs.GeneratedStreamExportEq.
Local Open Scope Z_scope.

(* ---------- export ---------- *)
(* the generated ExportGenesis is the model's export, on every world *)
Theorem C15_generated_str_export_is_model : forall w,
  exists g, go_ExportGenesis w = Ok g /\ gen_str_of_go g = export_str (kw_str w).
Proof. exact gen_str_ExportGenesis_eq. Qed.
Print Assumptions C15_generated_str_export_is_model.

(* the document itself *)
Theorem C15_generated_str_export_document : forall w,
  go_ExportGenesis w =
    Ok (mk_go_GenesisState (mk_go_Params (s_valfee (kw_str w)))
          (map (fun kv => mk_go_StreamExport (fst (fst kv)) (snd (fst kv)) (to_go_stream (snd kv))) (s_streams (kw_str w)))).
Proof. exact gen_str_ExportGenesis_run. Qed.
Print Assumptions C15_generated_str_export_document.

(* never an error, never a panic *)
Theorem C15_generated_str_export_never_fails : forall w,
  (exists g, go_ExportGenesis w = Ok g) /\ (forall e, go_ExportGenesis w <> Err e) /\ (forall c, go_ExportGenesis w <> Panic c).
Proof. exact gen_str_ExportGenesis_total. Qed.
Print Assumptions C15_generated_str_export_never_fails.

(* the stored fee; one entry per stored stream, in the model's order, carrying exactly the stored (receiver, sender) pair
   and the stored stream *)
Theorem C15_generated_str_export_entries : forall w g,
  go_ExportGenesis w = Ok g ->
  Params_ValidatorFee (GenesisState_Params g) = s_valfee (kw_str w) /\
  List.length (GenesisState_Streams g) = List.length (s_streams (kw_str w)) /\
  (forall i r sn st, nth_error (s_streams (kw_str w)) i = Some ((r, sn), st) ->
                     nth_error (GenesisState_Streams g) i = Some (mk_go_StreamExport r sn (to_go_stream st))) /\
  map (fun e => ((StreamExport_Receiver e, StreamExport_Sender e), of_go_stream (StreamExport_Stream e)))
      (GenesisState_Streams g) = s_streams (kw_str w).
Proof. exact gen_str_ExportGenesis_entries. Qed.
Print Assumptions C15_generated_str_export_entries.

(* the protobuf struct written for a stored stream reads back as that stream *)
Theorem C15_generated_str_export_stream_repr : forall st, of_go_stream (to_go_stream st) = st.
Proof. exact of_to_go_stream. Qed.
Print Assumptions C15_generated_str_export_stream_repr.

(* neither the clock nor the bank is read *)
Theorem C15_generated_str_export_reads_store_only : forall w w',
  kw_str w = kw_str w' -> go_ExportGenesis w = go_ExportGenesis w'.
Proof. exact gen_str_ExportGenesis_store_only. Qed.
Print Assumptions C15_generated_str_export_reads_store_only.

(* ---------- export, then import into a fresh store ---------- *)
Theorem C15_generated_str_export_roundtrip : forall w now0 now' vf0,
  str_inv now0 (kw_bank w) (kw_str w) -> bank_wf (kw_bank w) ->
  exists d, go_ExportGenesis w = Ok d /\
            gen_str_of_go d = export_str (kw_str w) /\
            import_str (kw_bank w) (gen_str_of_go d) = Some (kw_str w) /\
            go_InitGenesis (fresh_kworld now' (kw_bank w) vf0) d =
              Ok (with_str (fresh_kworld now' (kw_bank w) vf0) (kw_str w), tt).
Proof. exact gen_str_export_import_roundtrip. Qed.
Print Assumptions C15_generated_str_export_roundtrip.

(* export -> import -> export is the identity on the document *)
Theorem C15_generated_str_export_again : forall w now0 now' vf0 d,
  str_inv now0 (kw_bank w) (kw_str w) -> bank_wf (kw_bank w) ->
  go_ExportGenesis w = Ok d ->
  exists w', go_InitGenesis (fresh_kworld now' (kw_bank w) vf0) d = Ok (w', tt) /\
             kw_str w' = kw_str w /\ kw_bank w' = kw_bank w /\ kw_now w' = now' /\
             go_ExportGenesis w' = Ok d.
Proof. exact gen_str_export_again. Qed.
Print Assumptions C15_generated_str_export_again.

(* import -> export: an accepted document comes out again, read as the model's *)
Theorem C15_generated_str_export_after_import : forall now b vf0 g w',
  str_params_valid (Params_ValidatorFee (GenesisState_Params g)) = true ->
  bank_wf b -> macc_nonneg b -> NoDup (str_doc_keys g) ->
  go_InitGenesis (fresh_kworld now b vf0) g = Ok (w', tt) ->
  exists g', go_ExportGenesis w' = Ok g' /\ gen_str_of_go g' = gen_str_of_go g.
Proof. exact gen_str_import_export. Qed.
Print Assumptions C15_generated_str_export_after_import.

(* ---------- examples ---------- *)
(* a world with two streams (receiver 10 / sender 11: 500 of denomination 0; receiver 12 / sender 11: 70 of denomination
   1), the module account holding 500 and 70: export gives the two-entry document [exx_doc]; importing it into a fresh
   store (clock 99, previous fee 7) over the same bank gives the same store; exporting again gives the identical document *)
Example C15_generated_str_export_ex :
  go_ExportGenesis exx_world = Ok exx_doc /\
  gen_str_of_go exx_doc = export_str (kw_str exx_world) /\
  match go_InitGenesis (fresh_kworld 99 (kw_bank exx_world) 7) exx_doc with
  | Ok (w', _) =>
      import_str (kw_bank exx_world) (gen_str_of_go exx_doc) = Some (kw_str w') /\
      kw_str w' = kw_str exx_world /\ kw_bank w' = kw_bank exx_world /\ kw_now w' = 99 /\
      go_ExportGenesis w' = Ok exx_doc
  | _ => False
  end.
Proof. vm_compute. repeat split; reflexivity. Qed.
Print Assumptions C15_generated_str_export_ex.

(* the exported entries, spelled out *)
Example C15_generated_str_export_ex_entries :
  match go_ExportGenesis exx_world with
  | Ok d =>
      Params_ValidatorFee (GenesisState_Params d) = 10000000000000000 /\
      map (fun e => (StreamExport_Receiver e, StreamExport_Sender e)) (GenesisState_Streams d) = [(10, 11); (12, 11)] /\
      map (fun e => Stream_Deposit (StreamExport_Stream e)) (GenesisState_Streams d) = [(0, 500); (1, 70)]
  | _ => False
  end.
Proof. vm_compute. repeat split; reflexivity. Qed.
Print Assumptions C15_generated_str_export_ex_entries.

(* the concrete world satisfies the hypotheses of the round-trip theorems *)
Example C15_generated_str_export_ex_hyps_ok :
  str_inv (kw_now exx_world) (kw_bank exx_world) (kw_str exx_world) /\ bank_wf (kw_bank exx_world).
Proof. exact exx_world_inv. Qed.
Print Assumptions C15_generated_str_export_ex_hyps_ok.

(* an emptied stream (deposit 0, as a complete claim leaves it) is exported like any other, and comes back on import *)
Example C15_generated_str_export_zero_deposit_ex :
  let s := {| s_valfee := 10000000000000000; s_streams := [((10, 11), exx_stream 0 500 1050); ((12, 11), exx_stream 1 0 1000)] |} in
  let w := mk_kworld (1005 * NSEC) (exx_bank 500 0) s in
  match go_ExportGenesis w with
  | Ok d => List.length (GenesisState_Streams d) = 2%nat /\ gen_str_of_go d = export_str s /\
            go_InitGenesis (fresh_kworld 99 (kw_bank w) 7) d = Ok (with_str (fresh_kworld 99 (kw_bank w) 7) s, tt)
  | _ => False
  end.
Proof. vm_compute. repeat split; reflexivity. Qed.
Print Assumptions C15_generated_str_export_zero_deposit_ex.

(* the hypotheses of the round trip cannot be dropped: an escrow one unit short; two stored entries under one key *)
Example C15_generated_str_export_roundtrip_needs_backing :
  let w := mk_kworld (1005 * NSEC) (exx_bank 499 70) exx_state in
  go_ExportGenesis w = Ok exx_doc /\
  go_InitGenesis (fresh_kworld 99 (kw_bank w) 7) exx_doc = Panic stream_PANIC /\
  import_str (kw_bank w) (gen_str_of_go exx_doc) = None.
Proof. exact gen_str_roundtrip_needs_backing. Qed.
Print Assumptions C15_generated_str_export_roundtrip_needs_backing.
Example C15_generated_str_export_roundtrip_needs_nodup :
  let s := {| s_valfee := 10000000000000000; s_streams := [((10, 11), exx_stream 0 500 1050); ((10, 11), exx_stream 0 30 1003)] |} in
  let w := mk_kworld (1005 * NSEC) (exx_bank 500 0) s in
  match go_ExportGenesis w with
  | Ok d => List.length (GenesisState_Streams d) = 2%nat /\ gen_str_of_go d = export_str s /\
            go_InitGenesis (fresh_kworld 99 (kw_bank w) 7) d = Panic stream_PANIC /\
            import_str (kw_bank w) (gen_str_of_go d) = None
  | _ => False
  end.
Proof. exact gen_str_roundtrip_needs_nodup. Qed.
Print Assumptions C15_generated_str_export_roundtrip_needs_nodup.
