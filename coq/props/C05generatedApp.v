(* C05, generated application: the C05 theorems (locked eFUND can be spent only as WRKChain / BEACON transaction fees;
   completing a purchase order never changes an ordinary account's spendable balance) hold of the application that runs
   the GENERATED code.
   The application assembled from the code generated from /repo (model/GeneratedApp.v: go_deliver_tx, go_check_tx,
   go_begin_block, go_end_block, go_ante, go_node_step, go_node_run) is the hand-written application of model/App.v under
   the hypotheses below (proofs/GeneratedAppEq.v; props/C01generatedApp.v); each theorem here is that equality followed by
   the theorem about the model (proofs/GeneratedAppTransport.v).
   Hypotheses (proofs/GeneratedAppEq.v; app_inv, tx_wf, op_wf, hist_wf, begin_wf, end_wf: proofs/AppInv.v):
     gen_inv B a     app_inv a and the registries' invariants and the machine-integer bounds the generated code relies on
                     (counters and numbers of decisions at most B, registry fees below 2^63, len(signers) an int);
     gnode_inv B n   gen_inv B of the committed, check and (if any) deliver state of the node n;
     gmsg_ok m       a WRKChain record carries five hashes, a BEACON record one; the fields of a parameter update are in
                     range (for governance: fees below 2^63, maximum limit below 2^64); at every authz depth;
     gop_ok o, ghist_ok h   gmsg_ok of every message of the operation o / of every operation of the history h;
     B + hist_size h < two63 (one transaction: B + leaves_l (tx_msgs t) < two63; BeginBlock: B < two63)
                     hist_size h = number of leaf messages of the delivered transactions of h: no counter reaches 2^63.
   In C05_generatedapp_unlock_rule and C05_generatedapp_check_tx_same_rule, [ante] is the model's ante chain; under the
   same hypotheses it is the generated one (C01_generatedapp_ante_eq, C01_generatedapp_ante_deliver_eq); the other
   theorems speak of go_ante directly. *)
From Coq Require Import ZArith Lia List String Bool.
From MC Require Import lib.Prelude lib.AMap lib.GoSdk model.Bank model.Stream model.StreamSpec model.Registry
  model.RegistrySpec model.Enterprise model.EnterpriseSpec model.App model.AppSpec model.GeneratedApp.
From MC Require Import proofs.BankProofs proofs.AppFrame proofs.AppParamsProofs proofs.AppAuthProofs proofs.AppFeeProofs
  proofs.AppInv proofs.AppLockedProofs proofs.AppSupplyProofs proofs.AppCrashProofs.
From MC Require Import proofs.GeneratedAppEq proofs.GeneratedAppTransport.
Import ListNotations.
Local Open Scope Z_scope.

(* ---- the unlock rule, for every account x ---- *)
Theorem C05_generatedapp_unlock_rule : forall B a t a' r,
  gen_inv B a -> tx_wf t -> Forall gmsg_ok (tx_msgs t) -> B + leaves_l (tx_msgs t) < two63 ->
  go_deliver_tx a t = (a', r) ->
  forall x,
    let l := snd (locked_coin (a_ent a) x) in
    let l' := snd (locked_coin (a_ent a') x) in
    l' <= l /\
    (l' < l ->
       x = tx_payer t /\ is_registry_tx t = true /\ (exists a1, ante false a t = Ok a1) /\
       l - l' = Z.min (fee_amount_of (tx_fee t) (ep_denom (e_params (a_ent a)))) l /\
       snd (spent_coin (a_ent a') x) - snd (spent_coin (a_ent a) x) = l - l').
Proof. exact gen_unlock_rule. Qed.
Print Assumptions C05_generatedapp_unlock_rule.

(* the same rule on the check state *)
Theorem C05_generatedapp_check_tx_same_rule : forall B a t a' r,
  gen_inv B a -> tx_wf t -> Forall gmsg_ok (tx_msgs t) ->
  go_check_tx a t = (a', r) ->
  forall x,
    let l := snd (locked_coin (a_ent a) x) in
    let l' := snd (locked_coin (a_ent a') x) in
    l' <= l /\
    (l' < l ->
       x = tx_payer t /\ is_registry_tx t = true /\ (exists a1, ante true a t = Ok a1) /\
       l - l' = Z.min (fee_amount_of (tx_fee t) (ep_denom (e_params (a_ent a)))) l /\
       snd (spent_coin (a_ent a') x) - snd (spent_coin (a_ent a) x) = l - l').
Proof. exact gen_check_tx_same_rule. Qed.
Print Assumptions C05_generatedapp_check_tx_same_rule.

(* the whole effect of a transaction delivered by the generated application on the books and the escrow is one number u,
   not zero only if the generated ante chain accepted the transaction *)
Theorem C05_generatedapp_deliver_unlocks_one_amount : forall B a t a' r,
  gen_inv B a -> tx_wf t -> Forall gmsg_ok (tx_msgs t) -> B + leaves_l (tx_msgs t) < two63 ->
  go_deliver_tx a t = (a', r) ->
  exists u,
    (0 <= u <= snd (locked_coin (a_ent a) (tx_payer t)) /\
     (u <> 0 -> is_registry_tx t = true /\
                u = Z.min (fee_amount_of (tx_fee t) (ep_denom (e_params (a_ent a))))
                          (snd (locked_coin (a_ent a) (tx_payer t)))) /\
     (forall x, snd (locked_coin (a_ent a') x) = snd (locked_coin (a_ent a) x) - (if x =? tx_payer t then u else 0)) /\
     (forall x, snd (spent_coin (a_ent a') x) = snd (spent_coin (a_ent a) x) + (if x =? tx_payer t then u else 0)) /\
     (forall d', balance (a_bank a') ENT_MACC d' =
                 balance (a_bank a) ENT_MACC d' - (if d' =? ep_denom (e_params (a_ent a)) then u else 0)) /\
     snd (total_locked (a_ent a')) = snd (total_locked (a_ent a)) - u /\
     snd (total_spent (a_ent a')) = snd (total_spent (a_ent a)) + u) /\
    (u <> 0 -> exists a1, go_ante false a t = Ok a1).
Proof. exact gen_deliver_rule. Qed.
Print Assumptions C05_generatedapp_deliver_unlocks_one_amount.

(* the same for CheckTx: not zero only if the transaction is accepted, the new check state being the generated ante
   chain's *)
Theorem C05_generatedapp_check_unlocks_one_amount : forall B a t a' r,
  gen_inv B a -> tx_wf t -> Forall gmsg_ok (tx_msgs t) ->
  go_check_tx a t = (a', r) ->
  exists u,
    (0 <= u <= snd (locked_coin (a_ent a) (tx_payer t)) /\
     (u <> 0 -> is_registry_tx t = true /\
                u = Z.min (fee_amount_of (tx_fee t) (ep_denom (e_params (a_ent a))))
                          (snd (locked_coin (a_ent a) (tx_payer t)))) /\
     (forall x, snd (locked_coin (a_ent a') x) = snd (locked_coin (a_ent a) x) - (if x =? tx_payer t then u else 0)) /\
     (forall x, snd (spent_coin (a_ent a') x) = snd (spent_coin (a_ent a) x) + (if x =? tx_payer t then u else 0)) /\
     (forall d', balance (a_bank a') ENT_MACC d' =
                 balance (a_bank a) ENT_MACC d' - (if d' =? ep_denom (e_params (a_ent a)) then u else 0)) /\
     snd (total_locked (a_ent a')) = snd (total_locked (a_ent a)) - u /\
     snd (total_spent (a_ent a')) = snd (total_spent (a_ent a)) + u) /\
    (u <> 0 -> r = TxOk /\ go_ante true a t = Ok a').
Proof. exact gen_check_rule. Qed.
Print Assumptions C05_generatedapp_check_unlocks_one_amount.

(* ---- a transaction rejected before execution changes nothing ---- *)
Theorem C05_generatedapp_rejected_tx_changes_nothing : forall B a t a' r,
  gen_inv B a -> tx_wf t -> Forall gmsg_ok (tx_msgs t) -> B + leaves_l (tx_msgs t) < two63 ->
  go_deliver_tx a t = (a', r) ->
  (exists c, r = TxRejected c \/ r = TxPanicked 0 c \/ r = TxPanicked 1 c) -> a' = a.
Proof. exact gen_rejected_tx_changes_nothing. Qed.
Print Assumptions C05_generatedapp_rejected_tx_changes_nothing.

(* ---- completing purchase orders (the generated BeginBlock) leaves every ordinary account's spendable balance alone ---- *)
Theorem C05_generatedapp_completion_keeps_spendable : forall B a now a',
  gen_inv B a -> B < two63 -> begin_wf a now -> go_begin_block a now = Some a' ->
  forall x d, 0 <= x -> balance (a_bank a') x d = balance (a_bank a) x d.
Proof. exact gen_completion_keeps_spendable. Qed.
Print Assumptions C05_generatedapp_completion_keeps_spendable.

(* what it does instead: the purchaser's locked balance rises by the accepted amounts *)
Theorem C05_generatedapp_completion_locks : forall B a now a',
  gen_inv B a -> B < two63 -> begin_wf a now -> go_begin_block a now = Some a' ->
  forall x, snd (locked_coin (a_ent a') x) - snd (locked_coin (a_ent a) x) =
            asum (fun o => if (po_status o =? ST_ACCEPTED) && (po_purchaser o =? x) then po_amount o else 0)
                 (e_pos (a_ent a)).
Proof. exact gen_completion_locks. Qed.
Print Assumptions C05_generatedapp_completion_locks.
