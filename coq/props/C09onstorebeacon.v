(* C09 (with C07, C08), store layer of x/beacon, CAPSTONE: the keeper and message server of
   /repo/x/beacon/keeper/{register,record,msg_server}.go as translated on every run TWICE from the same source -
     (1) GeneratedBeaconKeeper.v         over the hand-written primitives of model/RegistryWorld.v + model/BeaconKeeperPrims.v
                                          (world [rworld]: block time, wall clock, the abstract registry state [reg_state]),
     (2) GeneratedBeaconKeeperOnStore.v  over the BYTE-LEVEL ordered KV store of model/KVStore.v, accessed through the
                                          GENERATED store accessors (GeneratedBeaconStore.v) and the GENERATED key builders
                                          (GeneratedKeys.v); world [bsworld] of model/BeaconStoreWorld.v: block time, wall
                                          clock, byte store -
   are in SIMULATION: from related worlds every function of (2) ends Ok / Err e / Panic c exactly when the function of (1)
   does, with the same code, the same returned value, and related worlds again.  Hence whole histories of the four message
   kinds (ValidateBasic, then the handler) give the same result message by message and end in related worlds, and what is
   proved of (1) - C07 append-only timestamps, C08 retention of the newest within the limit, C09 sequential ids and the
   owner check - holds of (2), i.e. of the code running on bytes.

   Rw w ws: C09_onstore_beacon_relation.  sim: C09_onstore_beacon_sim.  Rreg: props/C18storebeaconrefines.v.
   Side conditions, explicit in every statement:
     - u64 id (0 <= id < 2^64) for the BEACON id of a message / argument (true of anything decoded from a protobuf uint64);
     - params_ok for the parameters of MsgUpdateParams (four uint64 fields non-negative; denomination well-formed or blank:
       otherwise the two SetParams refuse with different CODES, C18_store_beacon_refines_SetParams_code_refuted);
     - lowest_ok on the abstract state: every stored FirstIdInState is a uint64.  Rreg does not say it, every function
       preserves it, and it cannot be dropped: C09_onstore_beacon_lowest_ok_needed.
   No bound on the counters is needed for the simulation (u64_add wraps alike on both sides); the transported theorems need
   the bounds under which rendering (1) is the model.
   Proofs: proofs/GeneratedBeaconOnStoreEq.v. *)
From MC Require Import lib.Prelude lib.AMap lib.GoSdk GeneratedBeaconTypes model.Bank model.Registry model.RegistrySpec
  model.Genesis model.Keys model.KVStore model.StoreCodecPrims model.BeaconKeeperPrims model.BeaconStoreWorld
  model.BeaconGenSpec GeneratedKeys GeneratedBeaconStore.
From MC Require GeneratedBeaconKeeper GeneratedBeaconKeeperOnStore.
From MC Require Import proofs.RegistryProofs proofs.GeneratedBeaconEq proofs.GeneratedBeaconValidateEq
  proofs.GeneratedBeaconParamsEq proofs.GeneratedBeaconStoreRefines proofs.GeneratedBeaconOnStoreEq.
From Coq Require Import NArith ZArith List Bool String.
Import ListNotations.
Local Open Scope Z_scope.

(* ------------------------------------------------------------------ *)
(* the relations, in full                                               *)
(* ------------------------------------------------------------------ *)

Theorem C09_onstore_beacon_u64 : forall x, u64 x <-> 0 <= x < 2 ^ 64.
Proof. exact (fun x => iff_refl (u64 x)). Qed.
Print Assumptions C09_onstore_beacon_u64.

(* the byte-level world represents the abstract world *)
Theorem C09_onstore_beacon_relation :
  forall (w : rworld) (ws : bsworld),
  Rw w ws <-> ( rw_now w = bsw_now ws /\ rw_wall w = bsw_wall ws /\ Rreg (bsw_store ws) (rw_reg w) ).
Proof. exact (fun w ws => iff_refl (Rw w ws)). Qed.
Print Assumptions C09_onstore_beacon_relation.

Theorem C09_onstore_beacon_relation_with_invariant :
  forall (w : rworld) (ws : bsworld), Rwi w ws <-> ( Rw w ws /\ lowest_ok (rw_reg w) ).
Proof. exact (fun w ws => iff_refl (Rwi w ws)). Qed.
Print Assumptions C09_onstore_beacon_relation_with_invariant.

(* two results agree: Ok/Ok with related worlds (inside lowest_ok) and equal values, Err/Err and Panic/Panic with equal
   codes, nothing else *)
Theorem C09_onstore_beacon_sim :
  forall (R : Type) (a : outcome (rworld * R)) (c : outcome (bsworld * R)),
  sim a c <->
  match a, c with
  | Ok (w, x), Ok (ws, y) => (Rw w ws /\ lowest_ok (rw_reg w)) /\ x = y
  | Err e, Err e' => e = e'
  | Panic p, Panic p' => p = p'
  | _, _ => False
  end.
Proof. exact (@sim_spelled). Qed.
Print Assumptions C09_onstore_beacon_sim.

(* the side conditions *)
Theorem C09_onstore_beacon_side_conditions :
  forall (m : reg_msg) (km : kmsg) (p : go_Params),
  (msg_ok m <-> match m with RRegister _ _ _ _ _ => True | RRecord _ id _ _ | RPurchase _ id _ => 0 <= id < 2 ^ 64 end) /\
  (kmsg_ok km <-> match km with KReg m => msg_ok m | KUpdateParams req => params_ok (MsgUpdateParams_Params req) end) /\
  (params_ok p <->
   (0 <= Params_FeeRegister p /\ 0 <= Params_FeeRecord p /\ 0 <= Params_FeePurchaseStorage p /\
    0 <= Params_DefaultStorageLimit p) /\ (0 <= Params_Denom p \/ Params_Denom p = go_zero_denom)) /\
  (forall st, lowest_ok st <-> forall id rg, aget id (r_regs st) = Some rg -> 0 <= rg_lowest rg < 2 ^ 64).
Proof. exact ok_spelled. Qed.
Print Assumptions C09_onstore_beacon_side_conditions.

(* ------------------------------------------------------------------ *)
(* the adapter primitives of model/BeaconStoreWorld.v                   *)
(* ------------------------------------------------------------------ *)

(* os_reg_IsAuthorisedToRecord is the one adapter written out by hand (over go_st_GetBeacon): it agrees with the primitive
   because the Beacon stored under an id is the conversion of the abstract registration (entity entry of Rreg) *)
Theorem C09_onstore_beacon_primitives :
  forall (w : rworld) (ws : bsworld), Rwi w ws ->
  os_rw_now ws = rw_now w /\ os_rw_wall ws = rw_wall w /\
  os_reg_GetHighestID ws = reg_GetHighestID w /\
  os_reg_GetParams ws = Ok (reg_GetParams w) /\
  os_reg_GetParamMaxStorageLimit ws = Ok (reg_GetParamMaxStorageLimit w) /\
  os_reg_GetParamDefaultStorageLimit ws = Ok (reg_GetParamDefaultStorageLimit w) /\
  (forall id, u64 id -> os_reg_GetEntity ws id = Ok (reg_GetEntity w id)) /\
  (forall id, u64 id -> os_reg_IsRegistered ws id = Ok (reg_IsRegistered w id)) /\
  (forall id a, u64 id -> os_reg_IsAuthorisedToRecord ws id a = Ok (reg_IsAuthorisedToRecord w id a)) /\
  (forall id, u64 id -> os_reg_GetStorageLimit ws id = Ok (reg_GetStorageLimit w id)) /\
  (forall id t, u64 id -> u64 t -> os_reg_GetRecord ws id t = Ok (reg_GetRecord w id t)) /\
  (forall g, u64 (Beacon_BeaconId g) -> u64 (Beacon_FirstIdInState g) -> sim (reg_SetEntity w g) (os_reg_SetEntity ws g)) /\
  (forall v, u64 v -> sim (reg_SetHighestID w v) (os_reg_SetHighestID ws v)) /\
  (forall id l, u64 id -> sim (reg_SetStorageLimit w id l) (os_reg_SetStorageLimit ws id l)) /\
  (forall id b, u64 id -> u64 (BeaconTimestamp_TimestampId b) -> sim (reg_SetRecord w id b) (os_reg_SetRecord ws id b)) /\
  (forall id t, u64 id -> u64 t -> sim (reg_DeleteRecord w id t) (os_reg_DeleteRecord ws id t)) /\
  (forall p, params_ok p -> sim (reg_SetParams w p) (os_reg_SetParams ws p)).
Proof. exact sim_primitives. Qed.
Print Assumptions C09_onstore_beacon_primitives.

(* ------------------------------------------------------------------ *)
(* every translated function                                            *)
(* ------------------------------------------------------------------ *)

Theorem C09_onstore_beacon_keeper :
  forall (w : rworld) (ws : bsworld), Rwi w ws ->
  (forall id, u64 id ->
     GeneratedBeaconKeeperOnStore.go_GetMaxPurchasableSlots ws id = GeneratedBeaconKeeper.go_GetMaxPurchasableSlots w id) /\
  (forall id amount, u64 id ->
     sim (GeneratedBeaconKeeper.go_IncreaseInStateStorage w id amount)
         (GeneratedBeaconKeeperOnStore.go_IncreaseInStateStorage ws id amount)) /\
  (forall beacon,
     sim (GeneratedBeaconKeeper.go_RegisterNewBeacon w beacon) (GeneratedBeaconKeeperOnStore.go_RegisterNewBeacon ws beacon)) /\
  (forall id hash submitTime, u64 id ->
     sim (GeneratedBeaconKeeper.go_RecordNewBeaconTimestamp w id hash submitTime)
         (GeneratedBeaconKeeperOnStore.go_RecordNewBeaconTimestamp ws id hash submitTime)).
Proof. exact sim_keeper. Qed.
Print Assumptions C09_onstore_beacon_keeper.

Theorem C09_onstore_beacon_msg_server :
  forall (w : rworld) (ws : bsworld), Rwi w ws ->
  (forall msg, sim (GeneratedBeaconKeeper.go_RegisterBeacon w msg) (GeneratedBeaconKeeperOnStore.go_RegisterBeacon ws msg)) /\
  (forall msg, u64 (MsgRecordBeaconTimestamp_BeaconId msg) ->
     sim (GeneratedBeaconKeeper.go_RecordBeaconTimestamp w msg) (GeneratedBeaconKeeperOnStore.go_RecordBeaconTimestamp ws msg)) /\
  (forall msg, u64 (MsgPurchaseBeaconStateStorage_BeaconId msg) ->
     sim (GeneratedBeaconKeeper.go_PurchaseBeaconStateStorage w msg)
         (GeneratedBeaconKeeperOnStore.go_PurchaseBeaconStateStorage ws msg)) /\
  (forall req, params_ok (MsgUpdateParams_Params req) ->
     sim (GeneratedBeaconKeeper.go_UpdateParams w req) (GeneratedBeaconKeeperOnStore.go_UpdateParams ws req)).
Proof. exact sim_msg_server. Qed.
Print Assumptions C09_onstore_beacon_msg_server.

(* the functions that touch no store are the same functions *)
Theorem C09_onstore_beacon_pure_functions :
  (forall i, GeneratedBeaconKeeperOnStore.go_validateFeeDenom i = GeneratedBeaconKeeper.go_validateFeeDenom i) /\
  (forall i, GeneratedBeaconKeeperOnStore.go_validateFeeRegister i = GeneratedBeaconKeeper.go_validateFeeRegister i) /\
  (forall i, GeneratedBeaconKeeperOnStore.go_validateFeeRecord i = GeneratedBeaconKeeper.go_validateFeeRecord i) /\
  (forall i, GeneratedBeaconKeeperOnStore.go_validateFeePurchaseStorage i = GeneratedBeaconKeeper.go_validateFeePurchaseStorage i) /\
  (forall i, GeneratedBeaconKeeperOnStore.go_validateDefaultStorageLimit i = GeneratedBeaconKeeper.go_validateDefaultStorageLimit i) /\
  (forall i, GeneratedBeaconKeeperOnStore.go_validateMaxStorageLimit i = GeneratedBeaconKeeper.go_validateMaxStorageLimit i) /\
  (forall p, GeneratedBeaconKeeperOnStore.go_Params_Validate p = GeneratedBeaconKeeper.go_Params_Validate p) /\
  (forall m, GeneratedBeaconKeeperOnStore.go_MsgRegisterBeacon_ValidateBasic m = GeneratedBeaconKeeper.go_MsgRegisterBeacon_ValidateBasic m) /\
  (forall m, GeneratedBeaconKeeperOnStore.go_MsgRecordBeaconTimestamp_ValidateBasic m
             = GeneratedBeaconKeeper.go_MsgRecordBeaconTimestamp_ValidateBasic m) /\
  (forall m, GeneratedBeaconKeeperOnStore.go_MsgPurchaseBeaconStateStorage_ValidateBasic m
             = GeneratedBeaconKeeper.go_MsgPurchaseBeaconStateStorage_ValidateBasic m).
Proof. exact pure_functions_agree. Qed.
Print Assumptions C09_onstore_beacon_pure_functions.

(* ------------------------------------------------------------------ *)
(* messages and histories                                               *)
(* ------------------------------------------------------------------ *)

(* the message server driven by the model's message type ([bcn_msg_exec] of model/BeaconGenSpec.v for (1), [os_msg_exec]
   for (2)) *)
Theorem C09_onstore_beacon_msg_exec :
  forall (w : rworld) (ws : bsworld) (m : reg_msg), Rwi w ws -> msg_ok m -> sim (bcn_msg_exec w m) (os_msg_exec ws m).
Proof. exact sim_msg_exec. Qed.
Print Assumptions C09_onstore_beacon_msg_exec.

(* DeliverTx of one of the four kinds: ValidateBasic, then the handler *)
Theorem C09_onstore_beacon_deliver_defs :
  forall (w : rworld) (ws : bsworld) (m : reg_msg) (req : go_MsgUpdateParams) (wall : Z) (h : list (Z * reg_msg)),
  k_deliver w (KReg m) = (do _ <- bcn_validate_basic m; do (w', r) <- bcn_msg_exec w m; Ok (w', KRReg r)) /\
  k_deliver w (KUpdateParams req) = (do (w', _) <- GeneratedBeaconKeeper.go_UpdateParams w req; Ok (w', KRParams)) /\
  s_deliver ws (KReg m) = (do _ <- os_validate_basic m; do (w', r) <- os_msg_exec ws m; Ok (w', KRReg r)) /\
  s_deliver ws (KUpdateParams req) = (do (w', _) <- GeneratedBeaconKeeperOnStore.go_UpdateParams ws req; Ok (w', KRParams)) /\
  os_validate_basic m = bcn_validate_basic m /\
  lift_hist wall h = map (fun tm => ((fst tm, wall), KReg (snd tm))) h.
Proof. exact delivers_spelled. Qed.
Print Assumptions C09_onstore_beacon_deliver_defs.

Theorem C09_onstore_beacon_deliver :
  forall (w : rworld) (ws : bsworld) (m : kmsg), Rwi w ws -> kmsg_ok m -> sim (k_deliver w m) (s_deliver ws m).
Proof. exact sim_deliver. Qed.
Print Assumptions C09_onstore_beacon_deliver.

(* a history: ((block time in seconds, wall clock), message); a failing or panicking message leaves the state untouched *)
Theorem C09_onstore_beacon_run_defs :
  forall (w : rworld) (ws : bsworld) (t : Z * Z) (m : kmsg) (h : list ((Z * Z) * kmsg)),
  k_run w [] = ([], w) /\ s_run ws [] = ([], ws) /\
  k_run w ((t, m) :: h) =
    match k_deliver (rw_at t w) m with
    | Ok (w', r) => (Ok r :: fst (k_run w' h), snd (k_run w' h))
    | Err e => (Err e :: fst (k_run (rw_at t w) h), snd (k_run (rw_at t w) h))
    | Panic c => (Panic c :: fst (k_run (rw_at t w) h), snd (k_run (rw_at t w) h))
    end /\
  s_run ws ((t, m) :: h) =
    match s_deliver (bs_at t ws) m with
    | Ok (ws', r) => (Ok r :: fst (s_run ws' h), snd (s_run ws' h))
    | Err e => (Err e :: fst (s_run (bs_at t ws) h), snd (s_run (bs_at t ws) h))
    | Panic c => (Panic c :: fst (s_run (bs_at t ws) h), snd (s_run (bs_at t ws) h))
    end /\
  rw_at t w = mk_rworld (fst t * NSEC) (snd t) (rw_reg w) /\
  bs_at t ws = mk_bsworld (fst t * NSEC) (snd t) (bsw_store ws).
Proof. exact runs_spelled. Qed.
Print Assumptions C09_onstore_beacon_run_defs.

(* any history of the four message kinds, from related worlds: the same result for every message, related final worlds *)
Theorem C09_onstore_beacon_run :
  forall (h : list ((Z * Z) * kmsg)) (w : rworld) (ws : bsworld),
  Rwi w ws -> Forall (fun tm => kmsg_ok (snd tm)) h ->
  fst (k_run w h) = fst (s_run ws h) /\ Rwi (snd (k_run w h)) (snd (s_run ws h)).
Proof. exact sim_run. Qed.
Print Assumptions C09_onstore_beacon_run.

Theorem C09_onstore_beacon_run_spelled :
  forall (h : list ((Z * Z) * kmsg)) (w : rworld) (ws : bsworld),
  Rw w ws -> lowest_ok (rw_reg w) ->
  Forall (fun tm => match snd tm with
                    | KReg (RRegister _ _ _ _ _) => True
                    | KReg (RRecord _ id _ _) | KReg (RPurchase _ id _) => 0 <= id < 2 ^ 64
                    | KUpdateParams req =>
                        let p := MsgUpdateParams_Params req in
                        (0 <= Params_FeeRegister p /\ 0 <= Params_FeeRecord p /\ 0 <= Params_FeePurchaseStorage p /\
                         0 <= Params_DefaultStorageLimit p) /\
                        (0 <= Params_Denom p \/ Params_Denom p = go_zero_denom)
                    end) h ->
  fst (k_run w h) = fst (s_run ws h) /\
  Rw (snd (k_run w h)) (snd (s_run ws h)) /\ lowest_ok (rw_reg (snd (k_run w h))).
Proof. exact sim_run_spelled. Qed.
Print Assumptions C09_onstore_beacon_run_spelled.

(* a history of the model's three kinds, run as a history of the four, is [bcn_run_v] (ValidateBasic + message server of
   rendering (1), proofs/GeneratedBeaconValidateEq.v) on the registry state *)
Theorem C09_onstore_beacon_run_lift :
  forall (wall : Z) (h : list (Z * reg_msg)) (w : rworld) (g : ghost),
  rw_reg (snd (k_run w (lift_hist wall h))) = fst (bcn_run_v wall (rw_reg w, g) h).
Proof. exact k_run_lift. Qed.
Print Assumptions C09_onstore_beacon_run_lift.

(* ------------------------------------------------------------------ *)
(* C07 on the on-store rendering                                        *)
(* ------------------------------------------------------------------ *)

(* props/C07generatedbcn.v, C07_generated_bcn_record_is_model (= C08_generated_bcn_record_prunes): recording on the byte
   store is the model's [record_new] - the id given, the id pruned, the new state *)
Theorem C09_onstore_beacon_C07_record_is_model :
  forall (w : rworld) (ws : bsworld) (id : Z) (rg : registration) (hash : string) (submitTime : Z),
  Rwi w ws -> aget id (r_regs (rw_reg w)) = Some rg ->
  0 <= rg_last rg < two64 - 1 -> 0 <= rg_num rg < two64 - 1 -> 0 <= rg_lowest rg < two64 - 1 ->
  (rg_lowest rg = 0 -> rg_num rg < limit_of (rw_reg w) id) ->
  let '(s', k, pruned) := record_new false (Time_Unix (rw_now w)) (rw_reg w) rg submitTime [hash] in
  exists ws', GeneratedBeaconKeeperOnStore.go_RecordNewBeaconTimestamp ws id hash submitTime = Ok (ws', (k, pruned)) /\
              Rwi (with_reg w s') ws'.
Proof. exact os_record_is_model. Qed.
Print Assumptions C09_onstore_beacon_C07_record_is_model.

(* C07_generated_bcn_exec_is_model: the on-store message server is the model's [reg_exec false] *)
Theorem C09_onstore_beacon_C07_exec_is_model :
  forall (now wall : Z) (s : reg_state) (g : ghost) (m : reg_msg) (ws : bsworld),
  Rw (mk_rworld now wall s) ws ->
  reg_inv false s g -> reg_counters_small s -> reg_msg_wf m ->
  (forall o id key hashes, m = RRecord o id key hashes -> List.length hashes = 1%nat /\ key <> 0) ->
  0 <= now / NSEC < two63 ->
  sim (rlift (mk_rworld now wall s) (reg_exec false (now / NSEC) s m)) (os_msg_exec ws m).
Proof. exact os_exec_is_model. Qed.
Print Assumptions C09_onstore_beacon_C07_exec_is_model.

(* C07_generated_bcn_run_with_validate_is_model: whole histories on the byte store end in a store representing the state of
   the MODEL's run, inside the model's invariant, having answered every message as rendering (1) did *)
Theorem C09_onstore_beacon_C07_run_is_model :
  forall (wall : Z) (h : list (Z * reg_msg)) (w : rworld) (ws : bsworld) (g : ghost) (B : Z),
  Rw w ws -> reg_inv false (rw_reg w) g -> bcn_bounded B (rw_reg w) -> B + Z.of_nat (List.length h) < two64 ->
  bcn_hist_ok h ->
  exists w', Rwi w' (snd (s_run ws (lift_hist wall h))) /\
             rw_reg w' = fst (reg_run false (rw_reg w, g) h) /\
             reg_inv false (rw_reg w') (snd (reg_run false (rw_reg w, g) h)) /\
             fst (s_run ws (lift_hist wall h)) = fst (k_run w (lift_hist wall h)).
Proof. exact os_run_is_model. Qed.
Print Assumptions C09_onstore_beacon_C07_run_is_model.

(* C07_accepted_record_immutable, on the bytes: after any history every timestamp ever accepted is either read back
   bit-for-bit from the byte store by the generated GetBeaconTimestampByID or pruned by the retention limit; and what the
   accessor returns was accepted exactly so *)
Theorem C09_onstore_beacon_C07_accepted_record_immutable :
  forall (wall : Z) (h : list (Z * reg_msg)) (w : rworld) (ws : bsworld) (g : ghost) (B id : Z),
  Rw w ws -> reg_inv false (rw_reg w) g -> bcn_bounded B (rw_reg w) -> B + Z.of_nat (List.length h) < two64 ->
  bcn_hist_ok h -> u64 id ->
  let ws' := snd (s_run ws (lift_hist wall h)) in
  let g' := snd (reg_run false (rw_reg w, g) h) in
  (forall k rc, In (k, rc) (log_of g id) -> In (k, rc) (log_of g' id)) /\
  (forall k rc, In (k, rc) (log_of g' id) -> u64 k ->
     os_reg_GetRecord ws' id k = Ok (rec_to_go rc, true) \/
     (os_reg_GetRecord ws' id k = Ok (zero_go_BeaconTimestamp, false) /\
      exists b, os_reg_GetEntity ws' id = Ok (b, true) /\ 1 <= Beacon_NumInState b /\ k < Beacon_FirstIdInState b)) /\
  (forall k b, u64 k -> os_reg_GetRecord ws' id k = Ok (b, true) ->
     exists rc, In (k, rc) (log_of g' id) /\ b = rec_to_go rc).
Proof. exact os_accepted_record_immutable. Qed.
Print Assumptions C09_onstore_beacon_C07_accepted_record_immutable.

(* ------------------------------------------------------------------ *)
(* C08 on the on-store rendering                                        *)
(* ------------------------------------------------------------------ *)

(* C08_generated_bcn_capacity *)
Theorem C09_onstore_beacon_C08_capacity :
  forall (w : rworld) (ws : bsworld) (id : Z),
  Rwi w ws -> u64 id -> rp_max_limit (r_params (rw_reg w)) < two64 ->
  (forall l, aget id (r_limits (rw_reg w)) = Some l -> 0 <= l) ->
  GeneratedBeaconKeeperOnStore.go_GetMaxPurchasableSlots ws id = Ok (max_purchasable (rw_reg w) id).
Proof. exact os_capacity. Qed.
Print Assumptions C09_onstore_beacon_C08_capacity.

(* C08_generated_bcn_purchase *)
Theorem C09_onstore_beacon_C08_purchase_is_model :
  forall (now wall : Z) (s : reg_state) (o : addr) (id n : Z) (ws : bsworld),
  Rw (mk_rworld now wall s) ws -> reg_counters_small s -> 0 <= n -> u64 id ->
  sim (rlift (mk_rworld now wall s) (reg_exec false (now / NSEC) s (RPurchase o id n))) (os_msg_exec ws (RPurchase o id n)).
Proof. exact os_purchase_is_model. Qed.
Print Assumptions C09_onstore_beacon_C08_purchase_is_model.

(* C08_retained_is_newest_suffix, on the bytes: the timestamps the generated GetAllBeaconTimestamps lists from the byte
   store are the newest rg_num accepted ones, at most limit-many *)
Theorem C09_onstore_beacon_C08_retained_is_newest_suffix :
  forall (w : rworld) (ws : bsworld) (g : ghost) (id : Z) (rg : registration),
  Rw w ws -> reg_inv false (rw_reg w) g -> aget id (r_regs (rw_reg w)) = Some rg ->
  exists L, go_st_GetAllBeaconTimestamps (bsw_store ws) id = Ok L /\
    Permutation.Permutation L (map (fun kr => rec_to_go (snd kr)) (lastn (Z.to_nat (rg_num rg)) (log_of g id))) /\
    Z.of_nat (List.length L) = rg_num rg /\ rg_num rg <= limit_of (rw_reg w) id.
Proof. exact os_retained_is_newest_suffix. Qed.
Print Assumptions C09_onstore_beacon_C08_retained_is_newest_suffix.

(* ------------------------------------------------------------------ *)
(* C09 on the on-store rendering                                        *)
(* ------------------------------------------------------------------ *)

(* C09_generated_bcn_register: a new BEACON gets the id HighestBeaconID, which then advances by one in the byte store *)
Theorem C09_onstore_beacon_C09_register_is_model :
  forall (w : rworld) (ws : bsworld) (b : go_Beacon),
  Rwi w ws -> 0 <= Time_Unix (rw_now w) < two64 -> r_next (rw_reg w) < two64 - 1 ->
  let s := rw_reg w in
  exists ws', GeneratedBeaconKeeperOnStore.go_RegisterNewBeacon ws b = Ok (ws', r_next s) /\
    Rwi (with_reg w {| r_params := r_params s; r_next := r_next s + 1;
                       r_regs := aset (r_next s)
                                   {| rg_id := r_next s; rg_owner := Beacon_Owner b; rg_moniker := Beacon_Moniker b;
                                      rg_name := Beacon_Name b; rg_genesis := EmptyString; rg_type := EmptyString;
                                      rg_last := 0; rg_num := 0; rg_lowest := 0;
                                      rg_regtime := Time_Unix (rw_now w) |} (r_regs s);
                       r_limits := aset (r_next s) (rp_default_limit (r_params s)) (r_limits s);
                       r_recs := r_recs s |}) ws' /\
    os_reg_GetHighestID ws' = Ok (r_next s + 1).
Proof. exact os_register_is_model. Qed.
Print Assumptions C09_onstore_beacon_C09_register_is_model.

(* C09_generated_bcn_owner_only: anyone but the owner the BYTE STORE holds is refused *)
Theorem C09_onstore_beacon_C09_owner_only :
  forall (now wall : Z) (s : reg_state) (g : ghost) (ws : bsworld) (o : addr) (id : Z) (b : go_Beacon),
  Rw (mk_rworld now wall s) ws -> reg_inv false s g -> reg_counters_small s -> 0 <= now / NSEC < two63 ->
  u64 id -> os_reg_GetEntity ws id = Ok (b, true) -> o <> Beacon_Owner b ->
  (forall key hashes, List.length hashes = 1%nat -> key <> 0 ->
     exists c, os_msg_exec ws (RRecord o id key hashes) = Err c /\
       (reg_validate_basic false (RRecord o id key hashes) = Ok tt -> c = ERR_REG_NOT_OWNER)) /\
  (forall n, 0 <= n ->
     exists c, os_msg_exec ws (RPurchase o id n) = Err c /\
       (reg_validate_basic false (RPurchase o id n) = Ok tt -> c = ERR_REG_NOT_OWNER)).
Proof. exact os_owner_only. Qed.
Print Assumptions C09_onstore_beacon_C09_owner_only.

(* C09_ids_sequential, on the bytes: the HighestBeaconID cell holds start + the number of accepted registrations; the ids
   handed out were start, start + 1, ... without repetition *)
Theorem C09_onstore_beacon_C09_ids_sequential :
  forall (wall : Z) (h : list (Z * reg_msg)) (p : reg_params) (start : Z) (w : rworld) (ws : bsworld),
  Rw w ws -> rw_reg w = reg_init p start ->
  reg_params_valid p = true -> 1 <= start -> rp_max_limit p < two64 ->
  start + Z.of_nat (List.length h) < two64 -> bcn_hist_ok h ->
  let g' := snd (reg_run false (reg_init p start, ghost_init) h) in
  os_reg_GetHighestID (snd (s_run ws (lift_hist wall h))) = Ok (start + Z.of_nat (List.length (g_reg g'))) /\
  map (fun x => fst (fst x)) (g_reg g') = map (fun i => start + Z.of_nat i) (seq 0 (List.length (g_reg g'))) /\
  NoDup (map (fun x => fst (fst x)) (g_reg g')).
Proof. exact os_ids_sequential. Qed.
Print Assumptions C09_onstore_beacon_C09_ids_sequential.

(* ------------------------------------------------------------------ *)
(* non-vacuity: a concrete run on bytes                                 *)
(* ------------------------------------------------------------------ *)

Local Open Scope string_scope.

(* the initial store is what SetParams + SetHighestBeaconID write into the empty store, and it represents the genesis *)
Theorem C09_onstore_beacon_example_initial :
  (do x <- go_st_SetParams [] ex_gp; go_st_SetHighestBeaconID (fst x) 1) = Ok (ex_store0, tt) /\
  ex_bs0 = mk_bsworld 0 0 ex_store0 /\ ex_rw0 = mk_rworld 0 0 (reg_init ex_params 1) /\
  Rw ex_rw0 ex_bs0.
Proof. exact (conj ex_store0_init (conj eq_refl (conj eq_refl ex_Rw0))). Qed.
Print Assumptions C09_onstore_beacon_example_initial.

Theorem C09_onstore_beacon_example_history :
  ex_khist =
  [ ((1700000000, 11), KReg (RRegister 7 "m" "n" "" ""));
    ((1700000010, 12), KReg (RRecord 7 1 1700000005 ["a"]));
    ((1700000020, 13), KReg (RRecord 7 1 1700000015 ["b"]));
    ((1700000030, 14), KReg (RRecord 7 1 1700000025 ["c"]));
    ((1700000035, 15), KReg (RRecord 8 1 1700000031 ["x"]));
    ((1700000040, 16), KReg (RPurchase 7 1 3));
    ((1700000045, 17), KUpdateParams (mk_go_MsgUpdateParams 7 (mk_go_Params 5 6 7 0 3 20)));
    ((1700000050, 18), KUpdateParams (mk_go_MsgUpdateParams GOV_MACC (mk_go_Params 5 6 7 0 3 20))) ].
Proof. exact eq_refl. Qed.
Print Assumptions C09_onstore_beacon_example_history.

(* the on-store rendering runs (vm_compute): the results of the eight messages; the final byte store has six cells - the
   Beacon (9-byte key), the two timestamps left after pruning (17-byte keys), the storage limit, the parameters, the counter *)
Theorem C09_onstore_beacon_example_run :
  fst (s_run ex_bs0 ex_khist) =
    [ Ok (KRReg (RespRegistered 1)); Ok (KRReg (RespRecorded 1 1)); Ok (KRReg (RespRecorded 1 2));
      Ok (KRReg (RespRecorded 1 3)); Err ERR_REG_NOT_OWNER; Ok (KRReg (RespPurchased 1 3 5)); Err 42; Ok KRParams ] /\
  map (fun kv => List.length (fst kv)) (bsw_store (snd (s_run ex_bs0 ex_khist))) = [9; 17; 17; 9; 1; 1]%nat /\
  os_reg_GetEntity (snd (s_run ex_bs0 ex_khist)) 1 = Ok (mk_go_Beacon 1 "m" "n" 3 2 2 1700000000 7, true) /\
  go_st_GetAllBeaconTimestamps (bsw_store (snd (s_run ex_bs0 ex_khist))) 1 =
    Ok [mk_go_BeaconTimestamp 2 1700000015 "b"; mk_go_BeaconTimestamp 3 1700000025 "c"] /\
  os_reg_GetStorageLimit (snd (s_run ex_bs0 ex_khist)) 1 = Ok (mk_go_BeaconStorageLimit 1 5, true) /\
  os_reg_GetHighestID (snd (s_run ex_bs0 ex_khist)) = Ok 2 /\
  os_reg_GetParams (snd (s_run ex_bs0 ex_khist)) = Ok ex_gp2.
Proof. exact ex_onstore_run. Qed.
Print Assumptions C09_onstore_beacon_example_run.

(* ... and it is related to the run of rendering (1) *)
Theorem C09_onstore_beacon_example_related :
  fst (k_run ex_rw0 ex_khist) = fst (s_run ex_bs0 ex_khist) /\
  Rw (snd (k_run ex_rw0 ex_khist)) (snd (s_run ex_bs0 ex_khist)) /\
  lowest_ok (rw_reg (snd (k_run ex_rw0 ex_khist))).
Proof. exact ex_onstore_related. Qed.
Print Assumptions C09_onstore_beacon_example_related.

(* the history of proofs/GeneratedBeaconEq.v on the byte store: the store represents the MODEL's final state *)
Theorem C09_onstore_beacon_example_is_model :
  exists w', Rwi w' (snd (s_run ex_bs0 (lift_hist 0 ex_history))) /\
             rw_reg w' = fst (reg_run false (reg_init ex_params 1, ghost_init) ex_history) /\
             keys_of 1 (r_recs (rw_reg w')) = [2; 3].
Proof. exact ex_onstore_is_model. Qed.
Print Assumptions C09_onstore_beacon_example_is_model.

(* ------------------------------------------------------------------ *)
(* the invariant lowest_ok cannot be dropped                            *)
(* ------------------------------------------------------------------ *)

(* Rw-related worlds in which the stored FirstIdInState of BEACON 1 is 2^64 + 1 (written by SetBeacon on both sides after
   register / "a" / "b"): the next timestamp prunes "FirstIdInState"; the primitive deletes nothing, the generated
   deleteBeaconTimestamp builds its key from the low 8 bytes and deletes timestamp 1.  Same answers, worlds unrelated. *)
Theorem C09_onstore_beacon_lowest_ok_needed :
  Rw ex_rw_bad ex_bs_bad /\ ~ lowest_ok (rw_reg ex_rw_bad) /\
  exists w' ws',
    GeneratedBeaconKeeper.go_RecordNewBeaconTimestamp ex_rw_bad 1 "c" 1700000025 = Ok (w', (3, 2 ^ 64 + 1)) /\
    GeneratedBeaconKeeperOnStore.go_RecordNewBeaconTimestamp ex_bs_bad 1 "c" 1700000025 = Ok (ws', (3, 2 ^ 64 + 1)) /\
    reg_GetRecord w' 1 1 = (mk_go_BeaconTimestamp 1 1700000005 "a", true) /\
    os_reg_GetRecord ws' 1 1 = Ok (zero_go_BeaconTimestamp, false) /\
    ~ Rw w' ws'.
Proof. exact ex_lowest_ok_needed. Qed.
Print Assumptions C09_onstore_beacon_lowest_ok_needed.

Theorem C09_onstore_beacon_lowest_ok_needed_defs :
  ex_bad_beacon = mk_go_Beacon 1 "m" "n" 2 (2 ^ 64 + 1) 2 1700000000 7 /\
  ex_rw_mid = snd (k_run ex_rw0 (firstn 3 ex_khist)) /\ ex_bs_mid = snd (s_run ex_bs0 (firstn 3 ex_khist)) /\
  reg_SetEntity ex_rw_mid ex_bad_beacon = Ok (ex_rw_bad, tt) /\
  os_reg_SetEntity ex_bs_mid ex_bad_beacon = Ok (ex_bs_bad, tt).
Proof. exact ex_bad_defs. Qed.
Print Assumptions C09_onstore_beacon_lowest_ok_needed_defs.
