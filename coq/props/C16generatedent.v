(* C16, link to the source: UpdateParams of /repo/x/enterprise/keeper/msg_server.go as generated on every run
   (coq/GeneratedEnterpriseKeeper.v): only the gov module account is obeyed (x/gov ErrInvalidSigner = 42 otherwise), the new
   parameters are validated as a whole (SetParams: Params.Validate = the model's ent_params_valid, inside the model's
   ent_set_params) and only the parameters change.  No hypothesis.
   Proofs: proofs/GeneratedEnterpriseMsgEq.v. *)
From MC Require Import lib.Prelude lib.AMap lib.GoSdk GeneratedEnterpriseTypes model.Bank model.Enterprise
  model.EnterpriseSpec model.EnterpriseKeeperPrims GeneratedEnterpriseKeeper model.EnterpriseGenSpec.
From MC Require Import proofs.GeneratedEnterpriseEq proofs.GeneratedEnterpriseBlockEq proofs.GeneratedEnterpriseMsgEq.
Local Open Scope Z_scope.

Theorem C16_generated_ent_update_params : forall w auth p,
  go_UpdateParams w (mk_go_MsgUpdateParams auth p) =
    if negb (auth =? GOV_MACC) then Err 42
    else match ent_set_params (ew_ent w) (params_of_go p) with
         | Ok s => Ok (with_ent w s, mk_go_MsgUpdateParamsResponse)
         | Err c => Err c
         | Panic c => Panic c
         end.
Proof. exact gen_ent_UpdateParams_eq. Qed.
Print Assumptions C16_generated_ent_update_params.

(* ---- examples (world xb_w0: proofs/GeneratedEnterpriseBlockEq.v, part 6; its parameters: denomination nund, one accept
   needed, 100 s to decide, signers [9]) ---- *)

(* the governance account replaces the parameters; nothing else moves *)
Example C16_generated_ent_ex_update :
  let p := mk_go_Params [9; 11; 12] NUND 2 3600 in
  exists w', go_UpdateParams xb_w0 (mk_go_MsgUpdateParams GOV_MACC p) = Ok (w', mk_go_MsgUpdateParamsResponse) /\
             e_params (ew_ent w') = {| ep_denom := NUND; ep_min_accepts := 2; ep_time_limit := 3600; ep_signers := [9; 11; 12] |} /\
             e_pos (ew_ent w') = e_pos (ew_ent xb_w0) /\ e_raisedq (ew_ent w') = e_raisedq (ew_ent xb_w0) /\
             e_next (ew_ent w') = e_next (ew_ent xb_w0) /\ ew_bank w' = ew_bank xb_w0.
Proof. cbv zeta. eexists. split; [vm_compute; reflexivity|]. repeat split. Qed.

(* anybody else, a signer included, is refused with x/gov's ErrInvalidSigner *)
Example C16_generated_ent_ex_not_gov :
  go_UpdateParams xb_w0 (mk_go_MsgUpdateParams 9 (mk_go_Params [9; 11; 12] NUND 2 3600)) = Err 42.
Proof. vm_compute. reflexivity. Qed.

(* an update with one invalid field is rejected as a whole: more accepts required than there are signers; a signer string
   that is not an address; no time limit; a malformed denomination *)
Example C16_generated_ent_ex_invalid :
  go_UpdateParams xb_w0 (mk_go_MsgUpdateParams GOV_MACC (mk_go_Params [9; 11] NUND 3 3600)) = Err ERR_ENT /\
  go_UpdateParams xb_w0 (mk_go_MsgUpdateParams GOV_MACC (mk_go_Params [9; BAD_ADDR] NUND 1 3600)) = Err ERR_ENT /\
  go_UpdateParams xb_w0 (mk_go_MsgUpdateParams GOV_MACC (mk_go_Params [9; 11] NUND 1 0)) = Err ERR_ENT /\
  go_UpdateParams xb_w0 (mk_go_MsgUpdateParams GOV_MACC (mk_go_Params [9; 11] go_zero_denom 1 3600)) = Err ERR_ENT.
Proof. repeat split; vm_compute; reflexivity. Qed.
