(* C20, second half, link to the source: "each returned item [of a list query] equals what the corresponding point query
   returns.  Queries never modify state." - for the gRPC POINT query handlers as generated from the Go source on every run
   (coq/Generated{Wrkchain,Beacon,Enterprise,Stream}Keeper.v: go_WrkChain_handler, go_WrkChainBlock_handler,
   go_WrkChainStorage; go_Beacon_handler, go_BeaconTimestamp_handler, go_BeaconStorage;
   go_EnterpriseUndPurchaseOrder_handler, go_LockedUndByAddress, go_TotalSpentEFUND, go_SpentEFUNDByAddress, go_Whitelist,
   go_Whitelisted, go_EnterpriseAccount; go_StreamByReceiverSender, go_StreamReceiverSenderCurrentFlow).

   (1) Every handler's exact behaviour on EVERY request and world: a complete case split with the exact error class
       (gRPC InvalidArgument / NotFound; the bech32 error; x/stream's ErrInvalidData for a missing stream; the Coin.Add
       panic of EnterpriseAccount).  No hypothesis.  The *Storage handlers' "how many more can be bought" is the model's
       [max_purchasable] under the two range hypotheses of gen_{wrk,bcn}_GetMaxPurchasableSlots_eq (refuted without).
   (2) List <-> point.  The listing handed to the list query of props/C20generated.v is taken to be the module's store, in
       store order, every entry under the number of its store key, as the protobuf record:
         [wrk_store_listing s] = map (fun kv => (Z.to_N (fst kv), to_go_entity (snd kv))) (r_regs s)   (same for beacon),
         [ent_store_listing s] = map (fun kv => (Z.to_N (fst kv), to_go_po (snd kv))) (e_pos s).
       If (k, v) is in it then the point query for v's id answers exactly v (and k is that id) - provided the store keys are
       distinct, stored items are keyed by their own id ([regs_keyed] / [pos_keyed]) and no item is stored under id 0; all
       three follow from the module invariants ([reg_inv] / [sinv]).  Hence every item of every page the GENERATED
       list-query callback produces over that listing is the point query's answer ([.._page_item_is_point]; the listing
       sorted by key, as in C20generated).  Conversely an Ok answer of the point query is in the listing.  Streams: an
       entry of [str_AllStreams w] is what go_StreamByReceiverSender answers for its (receiver, sender) when the stream
       keys are distinct ([si_keys] of [str_inv]).  The hypotheses cannot be dropped ([.._refuted]).
   (3) Queries never modify state: BY TYPE.  All fifteen handlers (and the two getters go_GetLockedUndAmountForAccount /
       go_GetSpentEFUNDAmountForAccount, and go_GetMaxPurchasableSlots) were rendered by the translator as readers,
       [world -> request -> outcome response]: no world is returned, so there is nothing to prove equal; none was rendered
       state-passing.  [.._reads_state_only] adds what each answer depends on.
   C11/C12 context: StreamReceiverSenderCurrentFlow reports the configured rate, and as current flow 0 exactly when the
   deposit-zero time is strictly before the block time or the deposit is not positive ([current_flow]).
   Proofs: proofs/Generated{Wrkchain,Beacon,Enterprise,Stream}PointQueryEq.v (index: proofs/GeneratedPointQueriesEq.v). *)
From MC Require Import lib.Prelude lib.AMap lib.GoSdk model.Bank model.Registry model.RegistrySpec model.Enterprise
  model.Stream model.StreamSpec model.RegistryWorld model.Paginate model.PaginateCallback model.QueryFilterSpec.
From MC Require GeneratedWrkchainKeeper GeneratedBeaconKeeper GeneratedEnterpriseKeeper GeneratedStreamKeeper
  model.WrkchainKeeperPrims model.BeaconKeeperPrims model.EnterpriseKeeperPrims model.StreamKeeperPrims.
From MC Require Import proofs.RegistryProofs proofs.EnterpriseProofs proofs.GeneratedPointQueriesEq.
From MC Require proofs.GeneratedWrkchainEq proofs.GeneratedEnterpriseBlockEq.
From Coq Require Import NArith Sorted.
Local Open Scope Z_scope.
Local Notation regs_keyed := MC.proofs.GeneratedWrkchainEq.regs_keyed.
Local Notation pos_keyed := MC.proofs.GeneratedEnterpriseBlockEq.pos_keyed.
Local Notation wrk_entity := MC.model.WrkchainKeeperPrims.to_go_entity.
Local Notation bcn_entity := MC.model.BeaconKeeperPrims.to_go_entity.
Local Notation to_go_po := MC.model.EnterpriseKeeperPrims.to_go_po.
Local Notation to_go_stream := MC.model.StreamKeeperPrims.to_go_stream.
Local Notation eworld := MC.model.EnterpriseKeeperPrims.eworld.
Local Notation ew_ent := MC.model.EnterpriseKeeperPrims.ew_ent.
Local Notation ew_bank := MC.model.EnterpriseKeeperPrims.ew_bank.
Local Notation kworld := MC.model.StreamKeeperPrims.kworld.
Local Notation kw_now := MC.model.StreamKeeperPrims.kw_now.
Local Notation kw_str := MC.model.StreamKeeperPrims.kw_str.
Local Notation str_AllStreams := MC.model.StreamKeeperPrims.str_AllStreams.
Local Notation str_bech32 := MC.model.StreamKeeperPrims.sdk_AccAddressFromBech32.
Local Notation stream_ErrInvalidData := MC.model.StreamKeeperPrims.stream_ErrInvalidData.
Local Notation wrk_WrkChain := MC.GeneratedWrkchainKeeper.go_WrkChain_handler.
Local Notation wrk_WrkChainBlock := MC.GeneratedWrkchainKeeper.go_WrkChainBlock_handler.
Local Notation wrk_WrkChainStorage := MC.GeneratedWrkchainKeeper.go_WrkChainStorage.
Local Notation wrk_cb := MC.GeneratedWrkchainKeeper.go_WrkChainsFiltered_callback.
Local Notation bcn_Beacon := MC.GeneratedBeaconKeeper.go_Beacon_handler.
Local Notation bcn_BeaconTimestamp := MC.GeneratedBeaconKeeper.go_BeaconTimestamp_handler.
Local Notation bcn_BeaconStorage := MC.GeneratedBeaconKeeper.go_BeaconStorage.
Local Notation bcn_cb := MC.GeneratedBeaconKeeper.go_BeaconsFiltered_callback.
Local Notation ent_PurchaseOrder := MC.GeneratedEnterpriseKeeper.go_EnterpriseUndPurchaseOrder_handler.
Local Notation ent_LockedUndByAddress := MC.GeneratedEnterpriseKeeper.go_LockedUndByAddress.
Local Notation ent_TotalSpentEFUND := MC.GeneratedEnterpriseKeeper.go_TotalSpentEFUND.
Local Notation ent_SpentEFUNDByAddress := MC.GeneratedEnterpriseKeeper.go_SpentEFUNDByAddress.
Local Notation ent_Whitelist := MC.GeneratedEnterpriseKeeper.go_Whitelist.
Local Notation ent_Whitelisted := MC.GeneratedEnterpriseKeeper.go_Whitelisted.
Local Notation ent_EnterpriseAccount := MC.GeneratedEnterpriseKeeper.go_EnterpriseAccount.
Local Notation ent_GetLocked := MC.GeneratedEnterpriseKeeper.go_GetLockedUndAmountForAccount.
Local Notation ent_GetSpent := MC.GeneratedEnterpriseKeeper.go_GetSpentEFUNDAmountForAccount.
Local Notation ent_cb := MC.GeneratedEnterpriseKeeper.go_EnterpriseUndPurchaseOrders_callback.
Local Notation str_StreamByReceiverSender := MC.GeneratedStreamKeeper.go_StreamByReceiverSender.
Local Notation str_CurrentFlow := MC.GeneratedStreamKeeper.go_StreamReceiverSenderCurrentFlow.

(* ================================================================================================ *)
(* x/wrkchain                                                                                       *)
(* ================================================================================================ *)

Theorem C20_generated_point_wrkchain_WrkChain : forall w req,
  wrk_WrkChain w req =
    let id := WT.QueryWrkChainRequest_WrkchainId req in
    if id =? 0 then Err grpc_codes_InvalidArgument else
    match aget id (r_regs (rw_reg w)) with
    | Some rg => Ok (WT.mk_go_QueryWrkChainResponse (wrk_entity rg))
    | None => Err grpc_codes_NotFound
    end.
Proof. exact WPQ.wrk_point_WrkChain_cases. Qed.
Print Assumptions C20_generated_point_wrkchain_WrkChain.

Theorem C20_generated_point_wrkchain_WrkChainBlock : forall w req,
  wrk_WrkChainBlock w req =
    let id := WT.QueryWrkChainBlockRequest_WrkchainId req in
    let h := WT.QueryWrkChainBlockRequest_Height req in
    if id =? 0 then Err grpc_codes_InvalidArgument else
    if h =? 0 then Err grpc_codes_InvalidArgument else
    match aget id (r_regs (rw_reg w)) with
    | None => Err grpc_codes_NotFound
    | Some rg =>
        match aget (id, h) (r_recs (rw_reg w)) with
        | None => Err grpc_codes_NotFound
        | Some rc => Ok (WT.mk_go_QueryWrkChainBlockResponse (WPQ.to_go_block rc) (rg_id rg) (rg_owner rg))
        end
    end.
Proof. exact WPQ.wrk_point_WrkChainBlock_cases. Qed.
Print Assumptions C20_generated_point_wrkchain_WrkChainBlock.

Theorem C20_generated_point_wrkchain_WrkChainBlock_under_invariant : forall h w g req resp,
  reg_inv h (rw_reg w) g ->
  wrk_WrkChainBlock w req = Ok resp ->
  WT.QueryWrkChainBlockResponse_WrkchainId resp = WT.QueryWrkChainBlockRequest_WrkchainId req /\
  WT.WrkChainBlock_Height (WT.QueryWrkChainBlockResponse_Block resp) = WT.QueryWrkChainBlockRequest_Height req /\
  q_record (rw_reg w) (WT.QueryWrkChainBlockRequest_WrkchainId req) (WT.QueryWrkChainBlockRequest_Height req) <> None.
Proof. exact WPQ.wrk_point_WrkChainBlock_inv. Qed.
Print Assumptions C20_generated_point_wrkchain_WrkChainBlock_under_invariant.

Theorem C20_generated_point_wrkchain_WrkChainStorage : forall w req,
  wrk_WrkChainStorage w req =
    let id := WT.QueryWrkChainStorageRequest_WrkchainId req in
    let s := rw_reg w in
    if id =? 0 then Err grpc_codes_InvalidArgument else
    match aget id (r_regs s) with
    | None => Err grpc_codes_NotFound
    | Some rg =>
        Ok (WT.mk_go_QueryWrkChainStorageResponse (rg_id rg) (rg_owner rg) (limit_of s id) (rg_num rg)
              (rp_max_limit (r_params s)) (WPQ.max_purchasable_u64 s id))
    end.
Proof. exact WPQ.wrk_point_WrkChainStorage_cases. Qed.
Print Assumptions C20_generated_point_wrkchain_WrkChainStorage.

Theorem C20_generated_point_wrkchain_WrkChainStorage_model : forall w req,
  rp_max_limit (r_params (rw_reg w)) < two64 ->
  (forall l, aget (WT.QueryWrkChainStorageRequest_WrkchainId req) (r_limits (rw_reg w)) = Some l -> 0 <= l) ->
  wrk_WrkChainStorage w req =
    let id := WT.QueryWrkChainStorageRequest_WrkchainId req in
    let s := rw_reg w in
    if id =? 0 then Err grpc_codes_InvalidArgument else
    match aget id (r_regs s) with
    | None => Err grpc_codes_NotFound
    | Some rg =>
        Ok (WT.mk_go_QueryWrkChainStorageResponse (rg_id rg) (rg_owner rg) (limit_of s id) (rg_num rg)
              (rp_max_limit (r_params s)) (max_purchasable s id))
    end.
Proof. exact WPQ.wrk_point_WrkChainStorage_model. Qed.
Print Assumptions C20_generated_point_wrkchain_WrkChainStorage_model.

Theorem C20_generated_point_wrkchain_WrkChainStorage_is_q_storage : forall w req,
  rp_max_limit (r_params (rw_reg w)) < two64 ->
  (forall l, aget (WT.QueryWrkChainStorageRequest_WrkchainId req) (r_limits (rw_reg w)) = Some l -> 0 <= l) ->
  WT.QueryWrkChainStorageRequest_WrkchainId req <> 0 ->
  wrk_WrkChainStorage w req =
    match aget (WT.QueryWrkChainStorageRequest_WrkchainId req) (r_regs (rw_reg w)),
          q_storage (rw_reg w) (WT.QueryWrkChainStorageRequest_WrkchainId req) with
    | Some rg, Some si => Ok (WPQ.storage_resp rg si)
    | _, _ => Err grpc_codes_NotFound
    end.
Proof. exact WPQ.wrk_point_WrkChainStorage_q_storage. Qed.
Print Assumptions C20_generated_point_wrkchain_WrkChainStorage_is_q_storage.

Theorem C20_generated_point_wrkchain_WrkChainStorage_model_without_range_refuted :
  rp_max_limit (r_params (rw_reg WPQ.refute_world)) < two64 /\
  WT.QueryWrkChainStorageResponse_MaxPurchasable
    (match wrk_WrkChainStorage WPQ.refute_world (WT.mk_go_QueryWrkChainStorageRequest 1) with
     | Ok r => r | _ => WT.zero_go_QueryWrkChainStorageResponse end) = 0 /\
  max_purchasable (rw_reg WPQ.refute_world) 1 = two64.
Proof. exact WPQ.wrk_point_WrkChainStorage_model_without_range_refuted. Qed.
Print Assumptions C20_generated_point_wrkchain_WrkChainStorage_model_without_range_refuted.

Theorem C20_generated_point_wrkchain_listed_is_point : forall w k v,
  NoDup (akeys (r_regs (rw_reg w))) -> regs_keyed (rw_reg w) -> WPQ.ids_nonzero (rw_reg w) ->
  In (k, v) (WPQ.wrk_store_listing (rw_reg w)) ->
  k = Z.to_N (WT.WrkChain_WrkchainId v) /\
  wrk_WrkChain w (WT.mk_go_QueryWrkChainRequest (WT.WrkChain_WrkchainId v)) = Ok (WT.mk_go_QueryWrkChainResponse v).
Proof. exact WPQ.wrk_listed_is_point. Qed.
Print Assumptions C20_generated_point_wrkchain_listed_is_point.

Theorem C20_generated_point_wrkchain_listed_is_point_under_invariant : forall h w g k v,
  reg_inv h (rw_reg w) g ->
  In (k, v) (WPQ.wrk_store_listing (rw_reg w)) ->
  k = Z.to_N (WT.WrkChain_WrkchainId v) /\
  wrk_WrkChain w (WT.mk_go_QueryWrkChainRequest (WT.WrkChain_WrkchainId v)) = Ok (WT.mk_go_QueryWrkChainResponse v).
Proof. exact WPQ.wrk_listed_is_point_inv. Qed.
Print Assumptions C20_generated_point_wrkchain_listed_is_point_under_invariant.

Theorem C20_generated_point_wrkchain_point_is_listed : forall w req resp,
  wrk_WrkChain w req = Ok resp ->
  In (Z.to_N (WT.QueryWrkChainRequest_WrkchainId req), WT.QueryWrkChainResponse_Wrkchain resp)
     (WPQ.wrk_store_listing (rw_reg w)).
Proof. exact WPQ.wrk_point_is_listed. Qed.
Print Assumptions C20_generated_point_wrkchain_point_is_listed.

Theorem C20_generated_point_wrkchain_page_item_is_point : forall w req preq r v,
  Sorted N.lt (map fst (WPQ.wrk_store_listing (rw_reg w))) -> regs_keyed (rw_reg w) -> WPQ.ids_nonzero (rw_reg w) ->
  list_query_cb (WPQ.wrk_store_listing (rw_reg w)) (wrk_cb req) preq = Ok r ->
  In v (cres_state r) ->
  wrk_WrkChain w (WT.mk_go_QueryWrkChainRequest (WT.WrkChain_WrkchainId v)) = Ok (WT.mk_go_QueryWrkChainResponse v).
Proof. exact WPQ.wrk_page_item_is_point. Qed.
Print Assumptions C20_generated_point_wrkchain_page_item_is_point.

Theorem C20_generated_point_wrkchain_page_item_is_point_under_invariant : forall h w g req preq r v,
  reg_inv h (rw_reg w) g ->
  Sorted N.lt (map fst (WPQ.wrk_store_listing (rw_reg w))) ->
  list_query_cb (WPQ.wrk_store_listing (rw_reg w)) (wrk_cb req) preq = Ok r ->
  In v (cres_state r) ->
  wrk_WrkChain w (WT.mk_go_QueryWrkChainRequest (WT.WrkChain_WrkchainId v)) = Ok (WT.mk_go_QueryWrkChainResponse v).
Proof. exact WPQ.wrk_page_item_is_point_inv. Qed.
Print Assumptions C20_generated_point_wrkchain_page_item_is_point_under_invariant.

Theorem C20_generated_point_wrkchain_listed_is_point_without_keyed_refuted :
  In (2%N, wrk_entity WPQ.refute_rg) (WPQ.wrk_store_listing (rw_reg WPQ.unkeyed_world)) /\
  wrk_WrkChain WPQ.unkeyed_world (WT.mk_go_QueryWrkChainRequest (WT.WrkChain_WrkchainId (wrk_entity WPQ.refute_rg)))
    = Err grpc_codes_NotFound.
Proof. exact WPQ.wrk_listed_is_point_without_keyed_refuted. Qed.
Print Assumptions C20_generated_point_wrkchain_listed_is_point_without_keyed_refuted.

Theorem C20_generated_point_wrkchain_reads_state_only : forall w w',
  rw_reg w = rw_reg w' ->
  (forall req, wrk_WrkChain w req = wrk_WrkChain w' req) /\
  (forall req, wrk_WrkChainBlock w req = wrk_WrkChainBlock w' req) /\
  (forall req, wrk_WrkChainStorage w req = wrk_WrkChainStorage w' req).
Proof. exact WPQ.wrk_point_state_only. Qed.
Print Assumptions C20_generated_point_wrkchain_reads_state_only.

(* ================================================================================================ *)
(* x/beacon                                                                                         *)
(* ================================================================================================ *)

Theorem C20_generated_point_beacon_Beacon : forall w req,
  bcn_Beacon w req =
    let id := BT.QueryBeaconRequest_BeaconId req in
    if id =? 0 then Err grpc_codes_InvalidArgument else
    match aget id (r_regs (rw_reg w)) with
    | Some rg => Ok (BT.mk_go_QueryBeaconResponse (bcn_entity rg))
    | None => Err grpc_codes_NotFound
    end.
Proof. exact BPQ.bcn_point_Beacon_cases. Qed.
Print Assumptions C20_generated_point_beacon_Beacon.

Theorem C20_generated_point_beacon_BeaconTimestamp : forall w req,
  bcn_BeaconTimestamp w req =
    let id := BT.QueryBeaconTimestampRequest_BeaconId req in
    let h := BT.QueryBeaconTimestampRequest_TimestampId req in
    if id =? 0 then Err grpc_codes_InvalidArgument else
    if h =? 0 then Err grpc_codes_InvalidArgument else
    match aget id (r_regs (rw_reg w)) with
    | None => Err grpc_codes_NotFound
    | Some rg =>
        match aget (id, h) (r_recs (rw_reg w)) with
        | None => Err grpc_codes_NotFound
        | Some rc => Ok (BT.mk_go_QueryBeaconTimestampResponse (BPQ.to_go_timestamp rc) (rg_id rg) (rg_owner rg))
        end
    end.
Proof. exact BPQ.bcn_point_BeaconTimestamp_cases. Qed.
Print Assumptions C20_generated_point_beacon_BeaconTimestamp.

Theorem C20_generated_point_beacon_BeaconTimestamp_under_invariant : forall h w g req resp,
  reg_inv h (rw_reg w) g ->
  bcn_BeaconTimestamp w req = Ok resp ->
  BT.QueryBeaconTimestampResponse_BeaconId resp = BT.QueryBeaconTimestampRequest_BeaconId req /\
  BT.BeaconTimestamp_TimestampId (BT.QueryBeaconTimestampResponse_Timestamp resp)
    = BT.QueryBeaconTimestampRequest_TimestampId req /\
  q_record (rw_reg w) (BT.QueryBeaconTimestampRequest_BeaconId req) (BT.QueryBeaconTimestampRequest_TimestampId req)
    <> None.
Proof. exact BPQ.bcn_point_BeaconTimestamp_inv. Qed.
Print Assumptions C20_generated_point_beacon_BeaconTimestamp_under_invariant.

Theorem C20_generated_point_beacon_BeaconStorage : forall w req,
  bcn_BeaconStorage w req =
    let id := BT.QueryBeaconStorageRequest_BeaconId req in
    let s := rw_reg w in
    if id =? 0 then Err grpc_codes_InvalidArgument else
    match aget id (r_regs s) with
    | None => Err grpc_codes_NotFound
    | Some rg =>
        Ok (BT.mk_go_QueryBeaconStorageResponse (rg_id rg) (rg_owner rg) (limit_of s id) (rg_num rg)
              (rp_max_limit (r_params s)) (BPQ.max_purchasable_u64 s id))
    end.
Proof. exact BPQ.bcn_point_BeaconStorage_cases. Qed.
Print Assumptions C20_generated_point_beacon_BeaconStorage.

Theorem C20_generated_point_beacon_BeaconStorage_model : forall w req,
  rp_max_limit (r_params (rw_reg w)) < two64 ->
  (forall l, aget (BT.QueryBeaconStorageRequest_BeaconId req) (r_limits (rw_reg w)) = Some l -> 0 <= l) ->
  bcn_BeaconStorage w req =
    let id := BT.QueryBeaconStorageRequest_BeaconId req in
    let s := rw_reg w in
    if id =? 0 then Err grpc_codes_InvalidArgument else
    match aget id (r_regs s) with
    | None => Err grpc_codes_NotFound
    | Some rg =>
        Ok (BT.mk_go_QueryBeaconStorageResponse (rg_id rg) (rg_owner rg) (limit_of s id) (rg_num rg)
              (rp_max_limit (r_params s)) (max_purchasable s id))
    end.
Proof. exact BPQ.bcn_point_BeaconStorage_model. Qed.
Print Assumptions C20_generated_point_beacon_BeaconStorage_model.

Theorem C20_generated_point_beacon_BeaconStorage_is_q_storage : forall w req,
  rp_max_limit (r_params (rw_reg w)) < two64 ->
  (forall l, aget (BT.QueryBeaconStorageRequest_BeaconId req) (r_limits (rw_reg w)) = Some l -> 0 <= l) ->
  BT.QueryBeaconStorageRequest_BeaconId req <> 0 ->
  bcn_BeaconStorage w req =
    match aget (BT.QueryBeaconStorageRequest_BeaconId req) (r_regs (rw_reg w)),
          q_storage (rw_reg w) (BT.QueryBeaconStorageRequest_BeaconId req) with
    | Some rg, Some si => Ok (BPQ.storage_resp rg si)
    | _, _ => Err grpc_codes_NotFound
    end.
Proof. exact BPQ.bcn_point_BeaconStorage_q_storage. Qed.
Print Assumptions C20_generated_point_beacon_BeaconStorage_is_q_storage.

Theorem C20_generated_point_beacon_BeaconStorage_model_without_range_refuted :
  rp_max_limit (r_params (rw_reg BPQ.refute_world)) < two64 /\
  BT.QueryBeaconStorageResponse_MaxPurchasable
    (match bcn_BeaconStorage BPQ.refute_world (BT.mk_go_QueryBeaconStorageRequest 1) with
     | Ok r => r | _ => BT.zero_go_QueryBeaconStorageResponse end) = 0 /\
  max_purchasable (rw_reg BPQ.refute_world) 1 = two64.
Proof. exact BPQ.bcn_point_BeaconStorage_model_without_range_refuted. Qed.
Print Assumptions C20_generated_point_beacon_BeaconStorage_model_without_range_refuted.

Theorem C20_generated_point_beacon_listed_is_point : forall w k v,
  NoDup (akeys (r_regs (rw_reg w))) -> regs_keyed (rw_reg w) -> BPQ.ids_nonzero (rw_reg w) ->
  In (k, v) (BPQ.bcn_store_listing (rw_reg w)) ->
  k = Z.to_N (BT.Beacon_BeaconId v) /\
  bcn_Beacon w (BT.mk_go_QueryBeaconRequest (BT.Beacon_BeaconId v)) = Ok (BT.mk_go_QueryBeaconResponse v).
Proof. exact BPQ.bcn_listed_is_point. Qed.
Print Assumptions C20_generated_point_beacon_listed_is_point.

Theorem C20_generated_point_beacon_listed_is_point_under_invariant : forall h w g k v,
  reg_inv h (rw_reg w) g ->
  In (k, v) (BPQ.bcn_store_listing (rw_reg w)) ->
  k = Z.to_N (BT.Beacon_BeaconId v) /\
  bcn_Beacon w (BT.mk_go_QueryBeaconRequest (BT.Beacon_BeaconId v)) = Ok (BT.mk_go_QueryBeaconResponse v).
Proof. exact BPQ.bcn_listed_is_point_inv. Qed.
Print Assumptions C20_generated_point_beacon_listed_is_point_under_invariant.

Theorem C20_generated_point_beacon_point_is_listed : forall w req resp,
  bcn_Beacon w req = Ok resp ->
  In (Z.to_N (BT.QueryBeaconRequest_BeaconId req), BT.QueryBeaconResponse_Beacon resp) (BPQ.bcn_store_listing (rw_reg w)).
Proof. exact BPQ.bcn_point_is_listed. Qed.
Print Assumptions C20_generated_point_beacon_point_is_listed.

Theorem C20_generated_point_beacon_page_item_is_point : forall w req preq r v,
  Sorted N.lt (map fst (BPQ.bcn_store_listing (rw_reg w))) -> regs_keyed (rw_reg w) -> BPQ.ids_nonzero (rw_reg w) ->
  list_query_cb (BPQ.bcn_store_listing (rw_reg w)) (bcn_cb req) preq = Ok r ->
  In v (cres_state r) ->
  bcn_Beacon w (BT.mk_go_QueryBeaconRequest (BT.Beacon_BeaconId v)) = Ok (BT.mk_go_QueryBeaconResponse v).
Proof. exact BPQ.bcn_page_item_is_point. Qed.
Print Assumptions C20_generated_point_beacon_page_item_is_point.

Theorem C20_generated_point_beacon_page_item_is_point_under_invariant : forall h w g req preq r v,
  reg_inv h (rw_reg w) g ->
  Sorted N.lt (map fst (BPQ.bcn_store_listing (rw_reg w))) ->
  list_query_cb (BPQ.bcn_store_listing (rw_reg w)) (bcn_cb req) preq = Ok r ->
  In v (cres_state r) ->
  bcn_Beacon w (BT.mk_go_QueryBeaconRequest (BT.Beacon_BeaconId v)) = Ok (BT.mk_go_QueryBeaconResponse v).
Proof. exact BPQ.bcn_page_item_is_point_inv. Qed.
Print Assumptions C20_generated_point_beacon_page_item_is_point_under_invariant.

Theorem C20_generated_point_beacon_listed_is_point_without_keyed_refuted :
  In (2%N, bcn_entity BPQ.refute_rg) (BPQ.bcn_store_listing (rw_reg BPQ.unkeyed_world)) /\
  bcn_Beacon BPQ.unkeyed_world (BT.mk_go_QueryBeaconRequest (BT.Beacon_BeaconId (bcn_entity BPQ.refute_rg)))
    = Err grpc_codes_NotFound.
Proof. exact BPQ.bcn_listed_is_point_without_keyed_refuted. Qed.
Print Assumptions C20_generated_point_beacon_listed_is_point_without_keyed_refuted.

Theorem C20_generated_point_beacon_reads_state_only : forall w w',
  rw_reg w = rw_reg w' ->
  (forall req, bcn_Beacon w req = bcn_Beacon w' req) /\
  (forall req, bcn_BeaconTimestamp w req = bcn_BeaconTimestamp w' req) /\
  (forall req, bcn_BeaconStorage w req = bcn_BeaconStorage w' req).
Proof. exact BPQ.bcn_point_state_only. Qed.
Print Assumptions C20_generated_point_beacon_reads_state_only.

(* ================================================================================================ *)
(* x/enterprise                                                                                     *)
(* ================================================================================================ *)

Theorem C20_generated_point_enterprise_GetLockedUndAmountForAccount : forall w a,
  ent_GetLocked w a = Ok (locked_coin (ew_ent w) a).
Proof. exact EPQ.ent_point_GetLockedUndAmountForAccount_eq. Qed.
Print Assumptions C20_generated_point_enterprise_GetLockedUndAmountForAccount.

Theorem C20_generated_point_enterprise_GetSpentEFUNDAmountForAccount : forall w a,
  ent_GetSpent w a = Ok (spent_coin (ew_ent w) a).
Proof. exact EPQ.ent_point_GetSpentEFUNDAmountForAccount_eq. Qed.
Print Assumptions C20_generated_point_enterprise_GetSpentEFUNDAmountForAccount.

Theorem C20_generated_point_enterprise_PurchaseOrder : forall w req,
  ent_PurchaseOrder w req =
    let id := ET.QueryEnterpriseUndPurchaseOrderRequest_PurchaseOrderId req in
    if id =? 0 then Err grpc_codes_InvalidArgument else
    match aget id (e_pos (ew_ent w)) with
    | Some o => Ok (ET.mk_go_QueryEnterpriseUndPurchaseOrderResponse (to_go_po o))
    | None => Err grpc_codes_NotFound
    end.
Proof. exact EPQ.ent_point_PurchaseOrder_cases. Qed.
Print Assumptions C20_generated_point_enterprise_PurchaseOrder.

Theorem C20_generated_point_enterprise_LockedUndByAddress : forall w req,
  ent_LockedUndByAddress w req =
    let a := ET.QueryLockedUndByAddressRequest_Owner req in
    if a =? go_zero_addr then Err grpc_codes_InvalidArgument else
    if a =? BAD_ADDR then Err ERR_ENT else
    Ok (ET.mk_go_QueryLockedUndByAddressResponse (locked_coin (ew_ent w) a)).
Proof. exact EPQ.ent_point_LockedUndByAddress_cases. Qed.
Print Assumptions C20_generated_point_enterprise_LockedUndByAddress.

Theorem C20_generated_point_enterprise_TotalSpentEFUND : forall w req,
  ent_TotalSpentEFUND w req = Ok (ET.mk_go_QueryTotalSpentEFUNDResponse (total_spent (ew_ent w))).
Proof. exact EPQ.ent_point_TotalSpentEFUND_eq. Qed.
Print Assumptions C20_generated_point_enterprise_TotalSpentEFUND.

Theorem C20_generated_point_enterprise_SpentEFUNDByAddress : forall w req,
  ent_SpentEFUNDByAddress w req =
    let a := ET.QuerySpentEFUNDByAddressRequest_Address req in
    if a =? go_zero_addr then Err grpc_codes_InvalidArgument else
    if a =? BAD_ADDR then Err ERR_ENT else
    Ok (ET.mk_go_QuerySpentEFUNDByAddressResponse (spent_coin (ew_ent w) a)).
Proof. exact EPQ.ent_point_SpentEFUNDByAddress_cases. Qed.
Print Assumptions C20_generated_point_enterprise_SpentEFUNDByAddress.

Theorem C20_generated_point_enterprise_Whitelist : forall w req,
  ent_Whitelist w req = Ok (ET.mk_go_QueryWhitelistResponse (e_wl (ew_ent w))).
Proof. exact EPQ.ent_point_Whitelist_eq. Qed.
Print Assumptions C20_generated_point_enterprise_Whitelist.

Theorem C20_generated_point_enterprise_Whitelisted : forall w req,
  ent_Whitelisted w req =
    let a := ET.QueryWhitelistedRequest_Address req in
    if a =? go_zero_addr then Err grpc_codes_InvalidArgument else
    if a =? BAD_ADDR then Err ERR_ENT else
    Ok (ET.mk_go_QueryWhitelistedResponse a (mem_addr a (e_wl (ew_ent w)))).
Proof. exact EPQ.ent_point_Whitelisted_cases. Qed.
Print Assumptions C20_generated_point_enterprise_Whitelisted.

Theorem C20_generated_point_enterprise_whitelist_listed_iff_whitelisted : forall w lreq a,
  a <> go_zero_addr -> a <> BAD_ADDR ->
  exists l b,
    ent_Whitelist w lreq = Ok (ET.mk_go_QueryWhitelistResponse l) /\
    ent_Whitelisted w (ET.mk_go_QueryWhitelistedRequest a) = Ok (ET.mk_go_QueryWhitelistedResponse a b) /\
    (b = true <-> In a l).
Proof. exact EPQ.ent_whitelist_listed_iff_point. Qed.
Print Assumptions C20_generated_point_enterprise_whitelist_listed_iff_whitelisted.

Theorem C20_generated_point_enterprise_EnterpriseAccount : forall w req,
  ent_EnterpriseAccount w req =
    let a := ET.QueryEnterpriseAccountRequest_Address req in
    if a =? go_zero_addr then Err grpc_codes_InvalidArgument else
    if a =? BAD_ADDR then Err ERR_ENT else
    if ep_denom (e_params (ew_ent w)) =? fst (locked_coin (ew_ent w) a)
    then Ok (ET.mk_go_QueryEnterpriseAccountResponse (EPQ.account_view w a))
    else Panic GO_PANIC_DENOM.
Proof. exact EPQ.ent_point_EnterpriseAccount_cases. Qed.
Print Assumptions C20_generated_point_enterprise_EnterpriseAccount.

(* the account view: owner, locked eFUND, bank balance of the current denomination, spent eFUND, balance + locked *)
Theorem C20_generated_point_enterprise_account_view : forall (w : eworld) a,
  EPQ.account_view w a =
    let d := ep_denom (e_params (ew_ent w)) in
    ET.mk_go_EnterpriseUserAccount a (locked_coin (ew_ent w) a) (d, balance (ew_bank w) a d) (spent_coin (ew_ent w) a)
      (d, balance (ew_bank w) a d + snd (locked_coin (ew_ent w) a)).
Proof. exact EPQ.account_view_def. Qed.
Print Assumptions C20_generated_point_enterprise_account_view.

Theorem C20_generated_point_enterprise_EnterpriseAccount_panic_iff : forall w req c,
  ent_EnterpriseAccount w req = Panic c <->
  c = GO_PANIC_DENOM /\
  ET.QueryEnterpriseAccountRequest_Address req <> go_zero_addr /\ ET.QueryEnterpriseAccountRequest_Address req <> BAD_ADDR /\
  exists l, aget (ET.QueryEnterpriseAccountRequest_Address req) (e_locked (ew_ent w)) = Some l /\
            fst l <> ep_denom (e_params (ew_ent w)).
Proof. exact EPQ.ent_point_EnterpriseAccount_panic_iff. Qed.
Print Assumptions C20_generated_point_enterprise_EnterpriseAccount_panic_iff.

Theorem C20_generated_point_enterprise_EnterpriseAccount_under_invariant : forall now w req,
  sinv now (ew_ent w) ->
  ent_EnterpriseAccount w req =
    let a := ET.QueryEnterpriseAccountRequest_Address req in
    if a =? go_zero_addr then Err grpc_codes_InvalidArgument else
    if a =? BAD_ADDR then Err ERR_ENT else
    Ok (ET.mk_go_QueryEnterpriseAccountResponse (EPQ.account_view w a)).
Proof. exact EPQ.ent_point_EnterpriseAccount_inv. Qed.
Print Assumptions C20_generated_point_enterprise_EnterpriseAccount_under_invariant.

Theorem C20_generated_point_enterprise_EnterpriseAccount_panics_example :
  ent_EnterpriseAccount EPQ.panic_world (ET.mk_go_QueryEnterpriseAccountRequest 7) = Panic GO_PANIC_DENOM.
Proof. exact EPQ.ent_point_EnterpriseAccount_panics_ex. Qed.
Print Assumptions C20_generated_point_enterprise_EnterpriseAccount_panics_example.

Theorem C20_generated_point_enterprise_listed_is_point : forall w k v,
  NoDup (akeys (e_pos (ew_ent w))) -> pos_keyed (ew_ent w) -> EPQ.po_ids_nonzero (ew_ent w) ->
  In (k, v) (EPQ.ent_store_listing (ew_ent w)) ->
  k = Z.to_N (ET.EnterpriseUndPurchaseOrder_Id v) /\
  ent_PurchaseOrder w (ET.mk_go_QueryEnterpriseUndPurchaseOrderRequest (ET.EnterpriseUndPurchaseOrder_Id v))
    = Ok (ET.mk_go_QueryEnterpriseUndPurchaseOrderResponse v).
Proof. exact EPQ.ent_listed_is_point. Qed.
Print Assumptions C20_generated_point_enterprise_listed_is_point.

Theorem C20_generated_point_enterprise_listed_is_point_under_invariant : forall now w k v,
  sinv now (ew_ent w) ->
  In (k, v) (EPQ.ent_store_listing (ew_ent w)) ->
  k = Z.to_N (ET.EnterpriseUndPurchaseOrder_Id v) /\
  ent_PurchaseOrder w (ET.mk_go_QueryEnterpriseUndPurchaseOrderRequest (ET.EnterpriseUndPurchaseOrder_Id v))
    = Ok (ET.mk_go_QueryEnterpriseUndPurchaseOrderResponse v).
Proof. exact EPQ.ent_listed_is_point_inv. Qed.
Print Assumptions C20_generated_point_enterprise_listed_is_point_under_invariant.

Theorem C20_generated_point_enterprise_point_is_listed : forall w req resp,
  ent_PurchaseOrder w req = Ok resp ->
  In (Z.to_N (ET.QueryEnterpriseUndPurchaseOrderRequest_PurchaseOrderId req),
      ET.QueryEnterpriseUndPurchaseOrderResponse_PurchaseOrder resp) (EPQ.ent_store_listing (ew_ent w)).
Proof. exact EPQ.ent_point_is_listed. Qed.
Print Assumptions C20_generated_point_enterprise_point_is_listed.

Theorem C20_generated_point_enterprise_page_item_is_point : forall w req preq r v,
  Sorted N.lt (map fst (EPQ.ent_store_listing (ew_ent w))) -> pos_keyed (ew_ent w) -> EPQ.po_ids_nonzero (ew_ent w) ->
  list_query_cb (EPQ.ent_store_listing (ew_ent w)) (ent_cb req) preq = Ok r ->
  In v (cres_state r) ->
  ent_PurchaseOrder w (ET.mk_go_QueryEnterpriseUndPurchaseOrderRequest (ET.EnterpriseUndPurchaseOrder_Id v))
    = Ok (ET.mk_go_QueryEnterpriseUndPurchaseOrderResponse v).
Proof. exact EPQ.ent_page_item_is_point. Qed.
Print Assumptions C20_generated_point_enterprise_page_item_is_point.

Theorem C20_generated_point_enterprise_page_item_is_point_under_invariant : forall now w req preq r v,
  sinv now (ew_ent w) ->
  Sorted N.lt (map fst (EPQ.ent_store_listing (ew_ent w))) ->
  list_query_cb (EPQ.ent_store_listing (ew_ent w)) (ent_cb req) preq = Ok r ->
  In v (cres_state r) ->
  ent_PurchaseOrder w (ET.mk_go_QueryEnterpriseUndPurchaseOrderRequest (ET.EnterpriseUndPurchaseOrder_Id v))
    = Ok (ET.mk_go_QueryEnterpriseUndPurchaseOrderResponse v).
Proof. exact EPQ.ent_page_item_is_point_inv. Qed.
Print Assumptions C20_generated_point_enterprise_page_item_is_point_under_invariant.

Theorem C20_generated_point_enterprise_reads_state_only : forall w w',
  ew_ent w = ew_ent w' ->
  (forall req, ent_PurchaseOrder w req = ent_PurchaseOrder w' req) /\
  (forall req, ent_LockedUndByAddress w req = ent_LockedUndByAddress w' req) /\
  (forall req, ent_TotalSpentEFUND w req = ent_TotalSpentEFUND w' req) /\
  (forall req, ent_SpentEFUNDByAddress w req = ent_SpentEFUNDByAddress w' req) /\
  (forall req, ent_Whitelist w req = ent_Whitelist w' req) /\
  (forall req, ent_Whitelisted w req = ent_Whitelisted w' req) /\
  (ew_bank w = ew_bank w' -> forall req, ent_EnterpriseAccount w req = ent_EnterpriseAccount w' req).
Proof. exact EPQ.ent_point_state_only. Qed.
Print Assumptions C20_generated_point_enterprise_reads_state_only.

(* ================================================================================================ *)
(* x/stream                                                                                         *)
(* ================================================================================================ *)

(* whatever the module's bech32 primitive answers *)
Theorem C20_generated_point_stream_StreamByReceiverSender_bech32 : forall w req,
  str_StreamByReceiverSender w req =
    do r <- str_bech32 (SQT.QueryStreamByReceiverSenderRequest_ReceiverAddr req);
    do sn <- str_bech32 (SQT.QueryStreamByReceiverSenderRequest_SenderAddr req);
    match aget (r, sn) (s_streams (kw_str w)) with
    | Some st =>
        Ok (SQT.mk_go_QueryStreamByReceiverSenderResponse
              (SQT.mk_go_StreamResult (SQT.QueryStreamByReceiverSenderRequest_ReceiverAddr req)
                 (SQT.QueryStreamByReceiverSenderRequest_SenderAddr req) (to_go_stream st)))
    | None => Err stream_ErrInvalidData
    end.
Proof. exact SPQ.str_point_StreamByReceiverSender_bech32. Qed.
Print Assumptions C20_generated_point_stream_StreamByReceiverSender_bech32.

Theorem C20_generated_point_stream_StreamByReceiverSender : forall w req,
  str_StreamByReceiverSender w req =
    let r := SQT.QueryStreamByReceiverSenderRequest_ReceiverAddr req in
    let sn := SQT.QueryStreamByReceiverSenderRequest_SenderAddr req in
    match aget (r, sn) (s_streams (kw_str w)) with
    | Some st => Ok (SQT.mk_go_QueryStreamByReceiverSenderResponse (SQT.mk_go_StreamResult r sn (to_go_stream st)))
    | None => Err stream_ErrInvalidData
    end.
Proof. exact SPQ.str_point_StreamByReceiverSender_cases. Qed.
Print Assumptions C20_generated_point_stream_StreamByReceiverSender.

Theorem C20_generated_point_stream_CurrentFlow_bech32 : forall w req,
  str_CurrentFlow w req =
    do r <- str_bech32 (SQT.QueryStreamReceiverSenderCurrentFlowRequest_ReceiverAddr req);
    do sn <- str_bech32 (SQT.QueryStreamReceiverSenderCurrentFlowRequest_SenderAddr req);
    match aget (r, sn) (s_streams (kw_str w)) with
    | Some st =>
        Ok (SQT.mk_go_QueryStreamReceiverSenderCurrentFlowResponse (st_rate st) (SPQ.current_flow (kw_now w) st))
    | None => Err stream_ErrInvalidData
    end.
Proof. exact SPQ.str_point_CurrentFlow_bech32. Qed.
Print Assumptions C20_generated_point_stream_CurrentFlow_bech32.

Theorem C20_generated_point_stream_CurrentFlow : forall w req,
  str_CurrentFlow w req =
    let r := SQT.QueryStreamReceiverSenderCurrentFlowRequest_ReceiverAddr req in
    let sn := SQT.QueryStreamReceiverSenderCurrentFlowRequest_SenderAddr req in
    match aget (r, sn) (s_streams (kw_str w)) with
    | Some st =>
        Ok (SQT.mk_go_QueryStreamReceiverSenderCurrentFlowResponse (st_rate st) (SPQ.current_flow (kw_now w) st))
    | None => Err stream_ErrInvalidData
    end.
Proof. exact SPQ.str_point_CurrentFlow_cases. Qed.
Print Assumptions C20_generated_point_stream_CurrentFlow.

Theorem C20_generated_point_stream_current_flow_def : forall now st,
  SPQ.current_flow now st = if (st_dzt st <? now) || (st_deposit st <=? 0) then 0 else st_rate st.
Proof. exact SPQ.current_flow_def. Qed.
Print Assumptions C20_generated_point_stream_current_flow_def.

Theorem C20_generated_point_stream_current_flow_zero_iff : forall now st,
  0 < st_rate st ->
  (SPQ.current_flow now st = 0 <-> st_dzt st < now \/ st_deposit st <= 0) /\
  (SPQ.current_flow now st <> 0 -> SPQ.current_flow now st = st_rate st).
Proof. exact SPQ.current_flow_zero_iff. Qed.
Print Assumptions C20_generated_point_stream_current_flow_zero_iff.

Theorem C20_generated_point_stream_CurrentFlow_under_invariant : forall b w req resp,
  str_inv (kw_now w) b (kw_str w) ->
  str_CurrentFlow w req = Ok resp ->
  exists st,
    aget (SQT.QueryStreamReceiverSenderCurrentFlowRequest_ReceiverAddr req,
          SQT.QueryStreamReceiverSenderCurrentFlowRequest_SenderAddr req) (s_streams (kw_str w)) = Some st /\
    SQT.QueryStreamReceiverSenderCurrentFlowResponse_ConfiguredFlowRate resp = st_rate st /\
    (SQT.QueryStreamReceiverSenderCurrentFlowResponse_CurrentFlowRate resp = 0 <->
       st_dzt st < kw_now w \/ st_deposit st = 0) /\
    (SQT.QueryStreamReceiverSenderCurrentFlowResponse_CurrentFlowRate resp <> 0 ->
       SQT.QueryStreamReceiverSenderCurrentFlowResponse_CurrentFlowRate resp = st_rate st).
Proof. exact SPQ.str_point_CurrentFlow_inv. Qed.
Print Assumptions C20_generated_point_stream_CurrentFlow_under_invariant.

Theorem C20_generated_point_stream_listed_is_point : forall w e,
  NoDup (akeys (s_streams (kw_str w))) ->
  In e (str_AllStreams w) ->
  str_StreamByReceiverSender w
    (SQT.mk_go_QueryStreamByReceiverSenderRequest (SQT.StreamExport_Receiver e) (SQT.StreamExport_Sender e)) =
  Ok (SQT.mk_go_QueryStreamByReceiverSenderResponse
        (SQT.mk_go_StreamResult (SQT.StreamExport_Receiver e) (SQT.StreamExport_Sender e) (SQT.StreamExport_Stream e))).
Proof. exact SPQ.str_listed_is_point. Qed.
Print Assumptions C20_generated_point_stream_listed_is_point.

Theorem C20_generated_point_stream_listed_is_point_under_invariant : forall b w e,
  str_inv (kw_now w) b (kw_str w) ->
  In e (str_AllStreams w) ->
  str_StreamByReceiverSender w
    (SQT.mk_go_QueryStreamByReceiverSenderRequest (SQT.StreamExport_Receiver e) (SQT.StreamExport_Sender e)) =
  Ok (SQT.mk_go_QueryStreamByReceiverSenderResponse
        (SQT.mk_go_StreamResult (SQT.StreamExport_Receiver e) (SQT.StreamExport_Sender e) (SQT.StreamExport_Stream e))).
Proof. exact SPQ.str_listed_is_point_inv. Qed.
Print Assumptions C20_generated_point_stream_listed_is_point_under_invariant.

Theorem C20_generated_point_stream_point_is_listed : forall w req resp,
  str_StreamByReceiverSender w req = Ok resp ->
  In (SQT.mk_go_StreamExport (SQT.StreamResult_Receiver (SQT.QueryStreamByReceiverSenderResponse_Stream resp))
        (SQT.StreamResult_Sender (SQT.QueryStreamByReceiverSenderResponse_Stream resp))
        (SQT.StreamResult_Stream (SQT.QueryStreamByReceiverSenderResponse_Stream resp))) (str_AllStreams w) /\
  SQT.StreamResult_Receiver (SQT.QueryStreamByReceiverSenderResponse_Stream resp)
    = SQT.QueryStreamByReceiverSenderRequest_ReceiverAddr req /\
  SQT.StreamResult_Sender (SQT.QueryStreamByReceiverSenderResponse_Stream resp)
    = SQT.QueryStreamByReceiverSenderRequest_SenderAddr req.
Proof. exact SPQ.str_point_is_listed. Qed.
Print Assumptions C20_generated_point_stream_point_is_listed.

Theorem C20_generated_point_stream_listed_current_flow : forall w e,
  NoDup (akeys (s_streams (kw_str w))) ->
  In e (str_AllStreams w) ->
  exists cur,
    str_CurrentFlow w
      (SQT.mk_go_QueryStreamReceiverSenderCurrentFlowRequest (SQT.StreamExport_Receiver e) (SQT.StreamExport_Sender e)) =
    Ok (SQT.mk_go_QueryStreamReceiverSenderCurrentFlowResponse (SQT.Stream_FlowRate (SQT.StreamExport_Stream e)) cur) /\
    cur = (if Time_Before (SQT.Stream_DepositZeroTime (SQT.StreamExport_Stream e)) (kw_now w)
              || (Coin_Amount (SQT.Stream_Deposit (SQT.StreamExport_Stream e)) <=? 0)
           then 0 else SQT.Stream_FlowRate (SQT.StreamExport_Stream e)).
Proof. exact SPQ.str_listed_current_flow. Qed.
Print Assumptions C20_generated_point_stream_listed_current_flow.

Theorem C20_generated_point_stream_listed_is_point_without_nodup_refuted :
  In (SQT.mk_go_StreamExport 7 8 (to_go_stream (SPQ.dup_st 200))) (str_AllStreams SPQ.dup_world) /\
  str_StreamByReceiverSender SPQ.dup_world (SQT.mk_go_QueryStreamByReceiverSenderRequest 7 8) =
    Ok (SQT.mk_go_QueryStreamByReceiverSenderResponse (SQT.mk_go_StreamResult 7 8 (to_go_stream (SPQ.dup_st 100)))).
Proof. exact SPQ.str_listed_is_point_without_nodup_refuted. Qed.
Print Assumptions C20_generated_point_stream_listed_is_point_without_nodup_refuted.

Theorem C20_generated_point_stream_reads_state_only : forall w w',
  kw_str w = kw_str w' ->
  (forall req, str_StreamByReceiverSender w req = str_StreamByReceiverSender w' req) /\
  (kw_now w = kw_now w' -> forall req, str_CurrentFlow w req = str_CurrentFlow w' req).
Proof. exact SPQ.str_point_state_only. Qed.
Print Assumptions C20_generated_point_stream_reads_state_only.

(* ================================================================================================ *)
(* examples: one small concrete world per module                                                    *)
(* ================================================================================================ *)
Local Open Scope string_scope.

(* ---- x/wrkchain: chains 1 (owner 7, one block at height 5, limit 10) and 2 (owner 8, no limit stored); max 100 ---- *)
Definition ex_params : reg_params :=
  {| rp_fee_register := 1; rp_fee_record := 1; rp_fee_purchase := 1; rp_denom := 0; rp_default_limit := 10;
     rp_max_limit := 100 |}.
Definition ex_rg (id owner : Z) (moniker : string) (last num lowest : Z) : registration :=
  {| rg_id := id; rg_owner := owner; rg_moniker := moniker; rg_name := "n"; rg_genesis := "g"; rg_type := "t";
     rg_last := last; rg_num := num; rg_lowest := lowest; rg_regtime := 1000 |}.
Definition ex_rc : record := {| rc_key := 5; rc_hashes := ["b"; "p"; "h1"; "h2"; "h3"]; rc_time := 1234 |}.
Definition ex_reg_state : reg_state :=
  {| r_params := ex_params; r_next := 3;
     r_regs := [(1, ex_rg 1 7 "a" 5 1 5); (2, ex_rg 2 8 "b" 0 0 0)];
     r_limits := [(1, 10)]; r_recs := [((1, 5), ex_rc)] |}.
Definition ex_rworld : rworld := mk_rworld 2000000000000 0 ex_reg_state.

Example ex_wrk_WrkChain_1 : wrk_WrkChain ex_rworld (WT.mk_go_QueryWrkChainRequest 1)
  = Ok (WT.mk_go_QueryWrkChainResponse (WT.mk_go_WrkChain 1 "a" "n" "g" "t" 5 1 5 1000 7)).
Proof. vm_compute. reflexivity. Qed.
Example ex_wrk_WrkChain_0 : wrk_WrkChain ex_rworld (WT.mk_go_QueryWrkChainRequest 0) = Err grpc_codes_InvalidArgument.
Proof. vm_compute. reflexivity. Qed.
Example ex_wrk_WrkChain_3 : wrk_WrkChain ex_rworld (WT.mk_go_QueryWrkChainRequest 3) = Err grpc_codes_NotFound.
Proof. vm_compute. reflexivity. Qed.
Example ex_wrk_Block_1_5 : wrk_WrkChainBlock ex_rworld (WT.mk_go_QueryWrkChainBlockRequest 1 5)
  = Ok (WT.mk_go_QueryWrkChainBlockResponse (WT.mk_go_WrkChainBlock 5 "b" "p" "h1" "h2" "h3" 1234) 1 7).
Proof. vm_compute. reflexivity. Qed.
Example ex_wrk_Block_1_6 : wrk_WrkChainBlock ex_rworld (WT.mk_go_QueryWrkChainBlockRequest 1 6) = Err grpc_codes_NotFound.
Proof. vm_compute. reflexivity. Qed.
Example ex_wrk_Block_1_0 : wrk_WrkChainBlock ex_rworld (WT.mk_go_QueryWrkChainBlockRequest 1 0) = Err grpc_codes_InvalidArgument.
Proof. vm_compute. reflexivity. Qed.
Example ex_wrk_Block_9_5 : wrk_WrkChainBlock ex_rworld (WT.mk_go_QueryWrkChainBlockRequest 9 5) = Err grpc_codes_NotFound.
Proof. vm_compute. reflexivity. Qed.
(* limit 10, 1 used, max 100, 90 more can be bought *)
Example ex_wrk_Storage_1 : wrk_WrkChainStorage ex_rworld (WT.mk_go_QueryWrkChainStorageRequest 1)
  = Ok (WT.mk_go_QueryWrkChainStorageResponse 1 7 10 1 100 90).
Proof. vm_compute. reflexivity. Qed.
(* no limit stored: the module default 50000 is reported as the current limit and 0 as purchasable *)
Example ex_wrk_Storage_2 : wrk_WrkChainStorage ex_rworld (WT.mk_go_QueryWrkChainStorageRequest 2)
  = Ok (WT.mk_go_QueryWrkChainStorageResponse 2 8 50000 0 100 0).
Proof. vm_compute. reflexivity. Qed.
(* the list query with the generated callback (owner 7) and the point query for the listed item *)
Example ex_wrk_list_then_point :
  list_query_cb (WPQ.wrk_store_listing ex_reg_state)
    (wrk_cb (WT.mk_go_QueryWrkChainsFilteredRequest "" 7 go_zero_PageRequest))
    {| pr_key := KeyNil; pr_offset := 0; pr_limit := 10; pr_count_total := true; pr_reverse := false |}
  = Ok {| cres_state := [WT.mk_go_WrkChain 1 "a" "n" "g" "t" 5 1 5 1000 7]; cres_next_key := None; cres_total := 1 |}.
Proof. vm_compute. reflexivity. Qed.

(* ---- x/beacon: the same registry state read as beacons ---- *)
Example ex_bcn_Beacon_2 : bcn_Beacon ex_rworld (BT.mk_go_QueryBeaconRequest 2)
  = Ok (BT.mk_go_QueryBeaconResponse (BT.mk_go_Beacon 2 "b" "n" 0 0 0 1000 8)).
Proof. vm_compute. reflexivity. Qed.
Example ex_bcn_Beacon_0 : bcn_Beacon ex_rworld (BT.mk_go_QueryBeaconRequest 0) = Err grpc_codes_InvalidArgument.
Proof. vm_compute. reflexivity. Qed.
Example ex_bcn_Timestamp_1_5 : bcn_BeaconTimestamp ex_rworld (BT.mk_go_QueryBeaconTimestampRequest 1 5)
  = Ok (BT.mk_go_QueryBeaconTimestampResponse (BT.mk_go_BeaconTimestamp 5 1234 "b") 1 7).
Proof. vm_compute. reflexivity. Qed.
Example ex_bcn_Timestamp_2_1 : bcn_BeaconTimestamp ex_rworld (BT.mk_go_QueryBeaconTimestampRequest 2 1) = Err grpc_codes_NotFound.
Proof. vm_compute. reflexivity. Qed.
Example ex_bcn_Storage_1 : bcn_BeaconStorage ex_rworld (BT.mk_go_QueryBeaconStorageRequest 1)
  = Ok (BT.mk_go_QueryBeaconStorageResponse 1 7 10 1 100 90).
Proof. vm_compute. reflexivity. Qed.
Example ex_bcn_Storage_7 : bcn_BeaconStorage ex_rworld (BT.mk_go_QueryBeaconStorageRequest 7) = Err grpc_codes_NotFound.
Proof. vm_compute. reflexivity. Qed.

(* ---- x/enterprise: denomination 1; order 1 (purchaser 7, 500, raised); 7 and 9 whitelisted; 7 has 300 locked and 200
        spent, a bank balance of 40 ---- *)
Definition ex_po : po :=
  {| po_id := 1; po_purchaser := 7; po_denom := 1; po_amount := 500; po_status := ST_RAISED; po_raise_time := 100;
     po_completion_time := 0; po_decisions := [{| d_signer := 9; d_decision := ST_ACCEPTED; d_time := 110 |}] |}.
Definition ex_ent_state : ent_state :=
  {| e_params := {| ep_denom := 1; ep_min_accepts := 1; ep_time_limit := 100; ep_signers := [9] |};
     e_next := 2; e_pos := [(1, ex_po)]; e_raisedq := [1]; e_acceptedq := []; e_wl := [7; 9];
     e_locked := [(7, (1, 300))]; e_spent := [(7, (1, 200))]; e_totlocked := Some (1, 300); e_totspent := Some (1, 200) |}.
Definition ex_eworld : eworld :=
  MC.model.EnterpriseKeeperPrims.mk_eworld 2000000000000 {| bal := [((7, 1), 40)]; supply := [(1, 340)] |} ex_ent_state.

Example ex_ent_PurchaseOrder_1 : ent_PurchaseOrder ex_eworld (ET.mk_go_QueryEnterpriseUndPurchaseOrderRequest 1)
  = Ok (ET.mk_go_QueryEnterpriseUndPurchaseOrderResponse
          (ET.mk_go_EnterpriseUndPurchaseOrder 1 7 (1, 500) 1 100 0 [ET.mk_go_PurchaseOrderDecision 9 2 110])).
Proof. vm_compute. reflexivity. Qed.
Example ex_ent_PurchaseOrder_0 : ent_PurchaseOrder ex_eworld (ET.mk_go_QueryEnterpriseUndPurchaseOrderRequest 0)
  = Err grpc_codes_InvalidArgument.
Proof. vm_compute. reflexivity. Qed.
Example ex_ent_PurchaseOrder_2 : ent_PurchaseOrder ex_eworld (ET.mk_go_QueryEnterpriseUndPurchaseOrderRequest 2)
  = Err grpc_codes_NotFound.
Proof. vm_compute. reflexivity. Qed.
Example ex_ent_Locked_7 : ent_LockedUndByAddress ex_eworld (ET.mk_go_QueryLockedUndByAddressRequest 7)
  = Ok (ET.mk_go_QueryLockedUndByAddressResponse (1, 300)).
Proof. vm_compute. reflexivity. Qed.
Example ex_ent_Locked_8 : ent_LockedUndByAddress ex_eworld (ET.mk_go_QueryLockedUndByAddressRequest 8)
  = Ok (ET.mk_go_QueryLockedUndByAddressResponse (1, 0)).
Proof. vm_compute. reflexivity. Qed.
Example ex_ent_Locked_empty : ent_LockedUndByAddress ex_eworld (ET.mk_go_QueryLockedUndByAddressRequest go_zero_addr)
  = Err grpc_codes_InvalidArgument.
Proof. vm_compute. reflexivity. Qed.
Example ex_ent_Locked_bad : ent_LockedUndByAddress ex_eworld (ET.mk_go_QueryLockedUndByAddressRequest BAD_ADDR) = Err ERR_ENT.
Proof. vm_compute. reflexivity. Qed.
Example ex_ent_TotalSpent : ent_TotalSpentEFUND ex_eworld ET.mk_go_QueryTotalSpentEFUNDRequest
  = Ok (ET.mk_go_QueryTotalSpentEFUNDResponse (1, 200)).
Proof. vm_compute. reflexivity. Qed.
Example ex_ent_Spent_7 : ent_SpentEFUNDByAddress ex_eworld (ET.mk_go_QuerySpentEFUNDByAddressRequest 7)
  = Ok (ET.mk_go_QuerySpentEFUNDByAddressResponse (1, 200)).
Proof. vm_compute. reflexivity. Qed.
Example ex_ent_Whitelist : ent_Whitelist ex_eworld ET.mk_go_QueryWhitelistRequest = Ok (ET.mk_go_QueryWhitelistResponse [7; 9]).
Proof. vm_compute. reflexivity. Qed.
Example ex_ent_Whitelisted_9 : ent_Whitelisted ex_eworld (ET.mk_go_QueryWhitelistedRequest 9)
  = Ok (ET.mk_go_QueryWhitelistedResponse 9 true).
Proof. vm_compute. reflexivity. Qed.
Example ex_ent_Whitelisted_8 : ent_Whitelisted ex_eworld (ET.mk_go_QueryWhitelistedRequest 8)
  = Ok (ET.mk_go_QueryWhitelistedResponse 8 false).
Proof. vm_compute. reflexivity. Qed.
(* locked 300, balance 40, spent 200, spendable 340 *)
Example ex_ent_Account_7 : ent_EnterpriseAccount ex_eworld (ET.mk_go_QueryEnterpriseAccountRequest 7)
  = Ok (ET.mk_go_QueryEnterpriseAccountResponse (ET.mk_go_EnterpriseUserAccount 7 (1, 300) (1, 40) (1, 200) (1, 340))).
Proof. vm_compute. reflexivity. Qed.

(* ---- x/stream: block time 1000; (7 <- 8) running until 5000; (7 <- 9) expired at 900 with deposit left; (6 <- 8)
        running but emptied ---- *)
Definition ex_st (dep rate dzt : Z) : stream :=
  {| st_denom := 1; st_deposit := dep; st_rate := rate; st_lot := 500; st_dzt := dzt; st_cancellable := true |}.
Definition ex_kworld : kworld :=
  MC.model.StreamKeeperPrims.mk_kworld 1000 {| bal := []; supply := [] |}
    {| s_valfee := 0; s_streams := [((7, 8), ex_st 400 3 5000); ((7, 9), ex_st 50 4 900); ((6, 8), ex_st 0 5 5000)] |}.

Example ex_str_Stream_7_8 : str_StreamByReceiverSender ex_kworld (SQT.mk_go_QueryStreamByReceiverSenderRequest 7 8)
  = Ok (SQT.mk_go_QueryStreamByReceiverSenderResponse (SQT.mk_go_StreamResult 7 8 (SQT.mk_go_Stream (1, 400) 3 500 5000 true))).
Proof. vm_compute. reflexivity. Qed.
Example ex_str_Stream_8_7 : str_StreamByReceiverSender ex_kworld (SQT.mk_go_QueryStreamByReceiverSenderRequest 8 7)
  = Err stream_ErrInvalidData.
Proof. vm_compute. reflexivity. Qed.
Example ex_str_Flow_running : str_CurrentFlow ex_kworld (SQT.mk_go_QueryStreamReceiverSenderCurrentFlowRequest 7 8)
  = Ok (SQT.mk_go_QueryStreamReceiverSenderCurrentFlowResponse 3 3).
Proof. vm_compute. reflexivity. Qed.
Example ex_str_Flow_expired : str_CurrentFlow ex_kworld (SQT.mk_go_QueryStreamReceiverSenderCurrentFlowRequest 7 9)
  = Ok (SQT.mk_go_QueryStreamReceiverSenderCurrentFlowResponse 4 0).
Proof. vm_compute. reflexivity. Qed.
Example ex_str_Flow_empty : str_CurrentFlow ex_kworld (SQT.mk_go_QueryStreamReceiverSenderCurrentFlowRequest 6 8)
  = Ok (SQT.mk_go_QueryStreamReceiverSenderCurrentFlowResponse 5 0).
Proof. vm_compute. reflexivity. Qed.
Example ex_str_Flow_missing : str_CurrentFlow ex_kworld (SQT.mk_go_QueryStreamReceiverSenderCurrentFlowRequest 6 9)
  = Err stream_ErrInvalidData.
Proof. vm_compute. reflexivity. Qed.
(* every listed stream through the point query *)
Example ex_str_all_listed :
  map (fun e => str_StreamByReceiverSender ex_kworld
                  (SQT.mk_go_QueryStreamByReceiverSenderRequest (SQT.StreamExport_Receiver e) (SQT.StreamExport_Sender e)))
      (str_AllStreams ex_kworld)
  = map (fun e => Ok (SQT.mk_go_QueryStreamByReceiverSenderResponse
                        (SQT.mk_go_StreamResult (SQT.StreamExport_Receiver e) (SQT.StreamExport_Sender e)
                           (SQT.StreamExport_Stream e))))
      (str_AllStreams ex_kworld).
Proof. vm_compute. reflexivity. Qed.
