(* C12: stream funds are never stranded.
   For every stream with a positive deposit a claim by the receiver succeeds, a cancel by the
   sender succeeds and returns the unreleased remainder, an affordable top-up succeeds; no claim
   or cancel aborts with an arithmetic panic.  Known, listed limitation: a top-up whose new
   deposit-zero time is beyond year 9999 (or whose extension is not an int64) panics. *)
From MC Require Import lib.Prelude lib.AMap model.Bank model.Stream model.StreamSpec.
From MC Require Import proofs.StreamArith proofs.BankProofs proofs.StreamProofs.
Local Open Scope Z_scope.

(* ---- 16 ---- *)
Theorem C12_claim_succeeds : forall now b s sn r st,
  str_inv now b s -> aget (r, sn) (s_streams s) = Some st -> 0 < st_deposit st ->
  exists b' s' c, str_exec now b s (SClaim sn r) = Ok (b', s', RClaim c).
Proof. exact claim_succeeds. Qed.
Print Assumptions C12_claim_succeeds.

(* ---- 17 ---- *)
Theorem C12_cancel_succeeds : forall now b s sn r st,
  str_inv now b s -> aget (r, sn) (s_streams s) = Some st ->
  st_cancellable st = true -> blocked sn = false ->
  exists b' s', str_exec now b s (SCancel sn r) = Ok (b', s', RNone).
Proof. exact cancel_succeeds. Qed.
Print Assumptions C12_cancel_succeeds.

(* "every stream is cancellable" is an invariant of the runs ... *)
Theorem C12_all_cancellable_step : forall now b s m b' s' resp,
  str_inv now b s -> all_cancellable s ->
  str_exec now b s m = Ok (b', s', resp) -> all_cancellable s'.
Proof. exact all_cancellable_exec. Qed.
Print Assumptions C12_all_cancellable_step.

(* ... so in every state reachable from an empty module state the hypothesis can be dropped *)
Theorem C12_cancel_succeeds_reachable : forall now0 b0 vf h sn r st,
  (forall d, balance b0 STREAM_MACC d = 0) -> 0 <= vf <= DEC_ONE ->
  time_storable now0 = true -> 0 <= now0 -> times_sorted now0 h ->
  let bs := str_run (b0, {| s_valfee := vf; s_streams := [] |}) h in
  aget (r, sn) (s_streams (snd bs)) = Some st -> blocked sn = false ->
  exists b' s', str_exec (last_time now0 h) (fst bs) (snd bs) (SCancel sn r) = Ok (b', s', RNone).
Proof. exact cancel_succeeds_reachable. Qed.
Print Assumptions C12_cancel_succeeds_reachable.

(* what the successful cancel returns to the sender: see C11_cancel_refund *)

(* ---- 18 ---- *)
Theorem C12_topup_succeeds : forall now b s sn r st amt,
  str_inv now b s -> aget (r, sn) (s_streams s) = Some st -> 0 < amt ->
  sn <> r -> sn <> STREAM_MACC -> sn <> FEE_COLLECTOR ->
  amt <= balance b sn (st_denom st) -> amt / st_rate st < two63 ->
  time_storable (add_seconds (if st_dzt st <=? now then now else st_dzt st) (amt / st_rate st)) = true ->
  exists b' s' resp, str_exec now b s (STopUp sn r (st_denom st) amt) = Ok (b', s', resp).
Proof. exact topup_succeeds. Qed.
Print Assumptions C12_topup_succeeds.

(* the storability hypothesis in plain arithmetic: new zero time not beyond 9999-12-31T23:59:59 *)
Theorem C12_topup_storable_iff : forall now st amt,
  stream_ok now st -> time_storable now = true -> 0 <= amt -> amt / st_rate st < two63 ->
  let base := if st_dzt st <=? now then now else st_dzt st in
  time_storable (add_seconds base (amt / st_rate st)) = true <-> unix base + amt / st_rate st <= TS_MAX.
Proof. exact topup_storable_iff. Qed.
Print Assumptions C12_topup_storable_iff.

(* ---- 19 ---- *)
Theorem C12_no_arith_panic_claim_cancel : forall now b s sn r,
  str_inv now b s ->
  (forall c, str_exec now b s (SClaim sn r) <> Panic c) /\
  (forall c, str_exec now b s (SCancel sn r) <> Panic c).
Proof. exact no_arith_panic_claim_cancel. Qed.
Print Assumptions C12_no_arith_panic_claim_cancel.

(* ---- 20: the listed limitation, on a reachable state ---- *)
Theorem C12_topup_unrepresentable_refuted :
  exists now b s sn r st amt,
    str_inv now b s /\ aget (r, sn) (s_streams s) = Some st /\ 0 < st_deposit st /\
    0 < amt /\ amt <= balance b sn (st_denom st) /\
    sn <> r /\ sn <> STREAM_MACC /\ sn <> FEE_COLLECTOR /\ amt / st_rate st < two63 /\
    str_exec now b s (STopUp sn r (st_denom st) amt) = Panic PANIC_MARSHAL.
Proof. exact topup_unrepresentable_refuted. Qed.
Print Assumptions C12_topup_unrepresentable_refuted.

Theorem C12_topup_int64_refuted :
  exists now b s sn r st amt,
    str_inv now b s /\ aget (r, sn) (s_streams s) = Some st /\ 0 < st_deposit st /\
    0 < amt /\ amt <= balance b sn (st_denom st) /\
    sn <> r /\ sn <> STREAM_MACC /\ sn <> FEE_COLLECTOR /\
    str_exec now b s (STopUp sn r (st_denom st) amt) = Panic PANIC_INT64.
Proof. exact topup_int64_refuted. Qed.
Print Assumptions C12_topup_int64_refuted.

(* ---- examples ---- *)
Example C12_ex_reachable_state : str_inv ex_now (fst ex_bs1) (snd ex_bs1).
Proof. exact ex_inv1. Qed.

Example C12_ex_state :
  ex_bs1 = str_run (ex_bank, ex_state0) [(ex_now, SCreate 1 2 0 100000 100)] /\
  aget (2, 1) (s_streams (snd ex_bs1))
  = Some {| st_denom := 0; st_deposit := 100000; st_rate := 100; st_lot := ex_now;
            st_dzt := ex_t 1000; st_cancellable := true |}.
Proof. split; vm_compute; reflexivity. Qed.

(* claim by the receiver long after the zero time pays everything *)
Example C12_ex_late_claim :
  exists b' s',
  str_exec (ex_t 5000) (fst ex_bs1) (snd ex_bs1) (SClaim 1 2)
  = Ok (b', s', RClaim {| cr_receiver := 99000; cr_fee := 1000; cr_total := 100000; cr_remaining := 0 |}).
Proof. do 2 eexists. vm_compute. reflexivity. Qed.

(* cancel by the sender after 10 s returns 99000 *)
Example C12_ex_cancel :
  exists b' s',
  str_exec (ex_t 10) (fst ex_bs1) (snd ex_bs1) (SCancel 1 2) = Ok (b', s', RNone) /\
  balance b' 1 0 - balance (fst ex_bs1) 1 0 = 99000 /\ s_streams s' = [].
Proof. do 2 eexists. split; [vm_compute; reflexivity|]. split; vm_compute; reflexivity. Qed.

(* an ordinary top-up succeeds; the 3*10^13 one of theorem 20 panics *)
Example C12_ex_topup_ok :
  exists b' s',
  str_exec (ex_t 10) (fst ex_bs1) (snd ex_bs1) (STopUp 1 2 0 50000)
  = Ok (b', s', RTopUp 150000 (ex_t 1500)).
Proof. do 2 eexists. vm_compute. reflexivity. Qed.

Example C12_ex_topup_panics :
  str_exec ex_now (fst ex_bs1) (snd ex_bs1) (STopUp 1 2 0 30000000000000) = Panic PANIC_MARSHAL.
Proof. vm_compute. reflexivity. Qed.
