(* C06: a transaction that would execute any WRKChain or BEACON registration, record or storage
   purchase is accepted by CheckTx only if the amount it offers in the module's fee denomination
   equals exactly the sum over those operations of the current registration, record and per-slot
   storage fees, and its fee payer can cover that amount from liquid plus locked funds.  This holds
   whatever other fee denominations accompany it, in whatever order and combination the messages
   appear, and however they are wrapped.
   The code checks the TOP-LEVEL messages of each module separately: proved below for them; the two
   listed gaps (mixed WRKChain+BEACON transactions, registry messages nested in MsgExec) are
   exhibited as [C06_refuted_mixed] and [C06_refuted_nested]. *)
From MC Require Import lib.Prelude lib.AMap model.Bank model.Stream model.Registry model.Enterprise
  model.App model.AppSpec.
From MC Require Import proofs.AppFrame proofs.AppFeeProofs.
From Coq Require Import Permutation.
Local Open Scope Z_scope.

(* ---- 11: an accepted transaction with top-level registry messages paid exactly their sum ---- *)
Theorem C06_exact_fee_wrk : forall a t a',
  check_tx a t = (a', TxOk) -> has_wrk t = true ->
  fee_amount_of (tx_fee t) (rp_denom (r_params (a_wrk a))) = expected_fee pick_wrk (a_wrk a) t /\
  exists fee, fee_find (tx_fee t) (rp_denom (r_params (a_wrk a))) = Some fee /\
    snd fee <= balance (a_bank a) (tx_payer t) (fst fee) +
               (if fst (locked_coin (a_ent a) (tx_payer t)) =? fst fee
                then snd (locked_coin (a_ent a) (tx_payer t)) else 0).
Proof. exact exact_fee_wrk. Qed.
Print Assumptions C06_exact_fee_wrk.

Theorem C06_exact_fee_bcn : forall a t a',
  check_tx a t = (a', TxOk) -> has_bcn t = true ->
  fee_amount_of (tx_fee t) (rp_denom (r_params (a_bcn a))) = expected_fee pick_bcn (a_bcn a) t /\
  exists fee, fee_find (tx_fee t) (rp_denom (r_params (a_bcn a))) = Some fee /\
    snd fee <= balance (a_bank a) (tx_payer t) (fst fee) +
               (if fst (locked_coin (a_ent a) (tx_payer t)) =? fst fee
                then snd (locked_coin (a_ent a) (tx_payer t)) else 0).
Proof. exact exact_fee_bcn. Qed.
Print Assumptions C06_exact_fee_bcn.

(* with pairwise distinct fee denominations (sdk.Coins.IsValid) the one coin of the module's
   denomination is exactly the expected fee and is covered by liquid + locked funds *)
Theorem C06_exact_fee_wrk_nodup : forall a t a',
  check_tx a t = (a', TxOk) -> has_wrk t = true -> NoDup (map fst (tx_fee t)) ->
  exists amt, fee_find (tx_fee t) (rp_denom (r_params (a_wrk a))) = Some (rp_denom (r_params (a_wrk a)), amt) /\
    amt = expected_fee pick_wrk (a_wrk a) t /\
    amt <= balance (a_bank a) (tx_payer t) (rp_denom (r_params (a_wrk a))) +
           (if fst (locked_coin (a_ent a) (tx_payer t)) =? rp_denom (r_params (a_wrk a))
            then snd (locked_coin (a_ent a) (tx_payer t)) else 0).
Proof. exact exact_fee_wrk_nodup. Qed.
Print Assumptions C06_exact_fee_wrk_nodup.

Theorem C06_exact_fee_bcn_nodup : forall a t a',
  check_tx a t = (a', TxOk) -> has_bcn t = true -> NoDup (map fst (tx_fee t)) ->
  exists amt, fee_find (tx_fee t) (rp_denom (r_params (a_bcn a))) = Some (rp_denom (r_params (a_bcn a)), amt) /\
    amt = expected_fee pick_bcn (a_bcn a) t /\
    amt <= balance (a_bank a) (tx_payer t) (rp_denom (r_params (a_bcn a))) +
           (if fst (locked_coin (a_ent a) (tx_payer t)) =? rp_denom (r_params (a_bcn a))
            then snd (locked_coin (a_ent a) (tx_payer t)) else 0).
Proof. exact exact_fee_bcn_nodup. Qed.
Print Assumptions C06_exact_fee_bcn_nodup.

(* ---- 12: the expected fee is the sum of the per-operation fees, in any order and combination ---- *)
Theorem C06_expected_fee_is_sum : forall pick rs t,
  expected_fee pick rs t = fee_sum pick (r_params rs) (tx_msgs t).
Proof. exact expected_fee_is_sum. Qed.
Print Assumptions C06_expected_fee_is_sum.

Theorem C06_expected_fee_closed_form : forall pick p ms,
  fee_sum pick p ms =
  rp_fee_register p * count_reg pick ms + rp_fee_record p * count_rec pick ms +
  rp_fee_purchase p * total_slots pick ms.
Proof. exact fee_sum_closed. Qed.
Print Assumptions C06_expected_fee_closed_form.

Theorem C06_expected_fee_permutation : forall pick rs t t',
  Permutation (tx_msgs t) (tx_msgs t') -> expected_fee pick rs t = expected_fee pick rs t'.
Proof. exact expected_fee_perm. Qed.
Print Assumptions C06_expected_fee_permutation.

Theorem C06_expected_fee_additive : forall pick rs t l1 l2,
  tx_msgs t = l1 ++ l2 ->
  expected_fee pick rs t = fee_sum pick (r_params rs) l1 + fee_sum pick (r_params rs) l2.
Proof. exact expected_fee_additive. Qed.
Print Assumptions C06_expected_fee_additive.

Theorem C06_check_fees_order_independent : forall pick rs t t',
  Permutation (tx_msgs t) (tx_msgs t') -> Permutation (tx_fee t) (tx_fee t') ->
  check_fees pick rs t = check_fees pick rs t'.
Proof. exact check_fees_perm. Qed.
Print Assumptions C06_check_fees_order_independent.

(* ---- 13: coins of other denominations, wherever they stand in the fee, change nothing ---- *)
Theorem C06_fee_decorator_ignores_other_denoms : forall pick rs check b e t l1 l2 d x,
  tx_fee t = l1 ++ l2 -> d <> rp_denom (r_params rs) -> 0 <= d -> 0 < x ->
  reg_ante pick rs check b e (tx_with_fee t (l1 ++ (d, x) :: l2)) = reg_ante pick rs check b e t.
Proof. exact fee_decorator_ignores_other_denoms. Qed.
Print Assumptions C06_fee_decorator_ignores_other_denoms.

(* ---- 15: 2^63 or more slots: the fee computation panics, the transaction is not accepted ---- *)
Theorem C06_overflow_slots_panics : forall pick rs t o id n,
  In (RPurchase o id n) (own_msgs pick t) -> two63 <= n ->
  existsb (fun c => fst c =? rp_denom (r_params rs)) (tx_fee t) = true ->
  check_fees pick rs t = Panic PANIC_NEGFEE.
Proof. exact overflow_slots_panics. Qed.
Print Assumptions C06_overflow_slots_panics.

Theorem C06_overflow_slots_rejected : forall a t o id n,
  (In (MWrk (RPurchase o id n)) (tx_msgs t) \/ In (MBcn (RPurchase o id n)) (tx_msgs t)) -> two63 <= n ->
  exists r, check_tx a t = (a, r) /\ r <> TxOk.
Proof. exact overflow_slots_rejected. Qed.
Print Assumptions C06_overflow_slots_rejected.

(* ---- a concrete application state ---- *)
Example ex_rp : reg_params :=
  {| rp_fee_register := 1000; rp_fee_record := 1; rp_fee_purchase := 5; rp_denom := NUND;
     rp_default_limit := 100; rp_max_limit := 1000 |}.
Example ex_reg : reg_state :=
  {| r_params := ex_rp; r_next := 1; r_regs := []; r_limits := []; r_recs := [] |}.
Example ex_app : app :=
  {| a_bank := {| bal := [((1, NUND), 10000); ((1, 7), 10)]; supply := [(NUND, 10000); (7, 10)] |};
     a_ent := {| e_params := {| ep_denom := NUND; ep_min_accepts := 1; ep_time_limit := 100; ep_signers := [7] |};
                 e_next := 1; e_pos := []; e_raisedq := []; e_acceptedq := []; e_wl := [1];
                 e_locked := []; e_spent := []; e_totlocked := None; e_totspent := None |};
     a_wrk := ex_reg; a_bcn := ex_reg;
     a_str := {| s_valfee := 10000000000000000; s_streams := [] |};
     a_grants := []; a_allow := []; a_now := 1700000000 * NS |}.

Example ex_app_valid :
  ent_params_valid (e_params (a_ent ex_app)) = true /\ reg_params_valid (r_params (a_wrk ex_app)) = true /\
  reg_params_valid (r_params (a_bcn ex_app)) = true /\ str_params_valid (s_valfee (a_str ex_app)) = true.
Proof. vm_compute. repeat split; reflexivity. Qed.

Example ex_tx (ms : list msg) (fee : list coin) : tx :=
  {| tx_msgs := ms; tx_fee := fee; tx_granter := None; tx_sig_ok := true |}.

(* the hypotheses of 11 are satisfiable; a wrong amount is refused both ways; another denomination
   alongside changes nothing *)
Example ex_exact_fee :
  let ms := [MWrk (RRegister 1 "m" "n" "g" "t"); MSend 1 2 [(NUND, 5)]; MWrk (RRegister 1 "m2" "n" "g" "t")] in
  has_wrk (ex_tx ms [(NUND, 2000)]) = true /\
  snd (check_tx ex_app (ex_tx ms [(NUND, 2000)])) = TxOk /\
  snd (check_tx ex_app (ex_tx ms [(NUND, 1999)])) = TxRejected ERR_FEE_INSUFFICIENT /\
  snd (check_tx ex_app (ex_tx ms [(NUND, 2001)])) = TxRejected ERR_FEE_TOO_MUCH /\
  snd (check_tx ex_app (ex_tx ms [(NUND, 2000); (7, 1)])) = TxOk /\
  snd (check_tx ex_app (ex_tx ms [(NUND, 1); (7, 1)])) = TxRejected ERR_FEE_INSUFFICIENT /\
  snd (check_tx ex_app (ex_tx ms [(7, 1)])) = TxRejected ERR_FEE_DENOM /\
  snd (check_tx ex_app (ex_tx [MWrk (RRegister 1 "m" "n" "g" "t")] [(NUND, 2000)])) = TxRejected ERR_FEE_TOO_MUCH.
Proof. vm_compute. repeat split; reflexivity. Qed.

(* ---- 14: the two listed gaps ---- *)

(* one WRKChain and one BEACON registration, both modules charging in the same denomination: each
   decorator compares the whole fee with ITS OWN sum, so paying one module's sum passes both *)
Theorem C06_refuted_mixed : exists a t,
  has_wrk t = true /\ has_bcn t = true /\
  rp_denom (r_params (a_wrk a)) = rp_denom (r_params (a_bcn a)) /\
  snd (check_tx a t) = TxOk /\ snd (deliver_tx a t) = TxOk /\
  fee_amount_of (tx_fee t) (rp_denom (r_params (a_wrk a))) <
    expected_fee pick_wrk (a_wrk a) t + expected_fee pick_bcn (a_bcn a) t /\
  (* whereas the right sum is refused *)
  snd (check_tx a {| tx_msgs := tx_msgs t;
                     tx_fee := [(NUND, expected_fee pick_wrk (a_wrk a) t + expected_fee pick_bcn (a_bcn a) t)];
                     tx_granter := None; tx_sig_ok := true |}) = TxRejected ERR_FEE_TOO_MUCH.
Proof.
  exists ex_app.
  exists (ex_tx [MWrk (RRegister 1 "m" "n" "g" "t"); MBcn (RRegister 1 "m" "n" "" "")] [(NUND, 1000)]).
  vm_compute. repeat split; reflexivity.
Qed.
Print Assumptions C06_refuted_mixed.

(* a registration wrapped in MsgExec by its own signer: no fee at all is demanded, and it executes *)
Theorem C06_refuted_nested : exists a t,
  nested_registry t = true /\ has_wrk t = false /\ has_bcn t = false /\ tx_fee t = [] /\
  snd (check_tx a t) = TxOk /\ snd (deliver_tx a t) = TxOk /\
  ahas (r_next (a_wrk a)) (r_regs (a_wrk a)) = false /\
  ahas (r_next (a_wrk a)) (r_regs (a_wrk (fst (deliver_tx a t)))) = true /\
  a_wrk (fst (deliver_tx a t)) <> a_wrk a.
Proof.
  exists ex_app.
  exists (ex_tx [MExec 1 [MWrk (RRegister 1 "m" "n" "g" "t")]] []).
  vm_compute. repeat split; try reflexivity. discriminate.
Qed.
Print Assumptions C06_refuted_nested.

Example ex_overflow :
  snd (check_tx ex_app (ex_tx [MWrk (RPurchase 1 1 two63)] [(NUND, 5)])) = TxPanicked 1 PANIC_NEGFEE.
Proof. vm_compute. reflexivity. Qed.
