(* C18: the three stream list-query handlers hand the SDK the prefix store and callback that C18generated.v is about, and report its result untouched - read from these handler bodies (digests with the callback bodies blanked; proofs/QuerySkeletons.v). *)
From Coq Require Import String List.
From MC Require GeneratedWrkchainKeeper GeneratedBeaconKeeper GeneratedEnterpriseKeeper GeneratedKeys.
From MC Require Import proofs.QuerySkeletons.
Import ListNotations.
Local Open Scope string_scope.




Theorem C18_stream_list_query_skeletons_as_reviewed :
  GeneratedKeys.stream_list_query_skeletons =
  [("Streams", "83f6d4dd5d157a95"); ("AllStreamsForSender", "6c41cb68584971c3"); ("AllStreamsForReceiver", "0712da4977f8b8f6")].
Proof. exact stream_list_query_skeletons_as_reviewed. Qed.
Print Assumptions C18_stream_list_query_skeletons_as_reviewed.
