(* C09, link to the source: registration and the owner check of /repo/x/beacon/keeper/{register,msg_server}.go as
   generated on every run (coq/GeneratedBeaconKeeper.v) are the registry model's (model/Registry.v, heighted = false),
   about which C09 is proved (props/C09.v): a new BEACON gets the id HighestBeaconID, which then advances by one;
   it stores what the message said; only its owner records to it or purchases storage for it.
   Proofs: proofs/GeneratedBeaconEq.v. *)
From MC Require Import lib.Prelude lib.AMap lib.GoSdk GeneratedBeaconTypes model.Bank model.Registry model.RegistrySpec
  model.BeaconKeeperPrims GeneratedBeaconKeeper model.BeaconGenSpec.
From MC Require Import proofs.RegistryProofs proofs.GeneratedBeaconEq.
Local Open Scope string_scope.
Local Open Scope Z_scope.

(* RegisterNewBeacon overwrites the id, the counters and the registration time of the Beacon the handler builds from
   the message (moniker, name, owner) *)
Theorem C09_generated_bcn_register : forall w (b : go_Beacon),
  0 <= Time_Unix (rw_now w) < two64 -> 0 <= r_next (rw_reg w) < two64 - 1 ->
  go_RegisterNewBeacon w b =
    let s := rw_reg w in
    Ok (with_reg w {| r_params := r_params s; r_next := r_next s + 1;
                      r_regs := aset (r_next s)
                                  {| rg_id := r_next s; rg_owner := Beacon_Owner b; rg_moniker := Beacon_Moniker b;
                                     rg_name := Beacon_Name b; rg_genesis := EmptyString; rg_type := EmptyString;
                                     rg_last := 0; rg_num := 0; rg_lowest := 0;
                                     rg_regtime := Time_Unix (rw_now w) |} (r_regs s);
                      r_limits := aset (r_next s) (rp_default_limit (r_params s)) (r_limits s);
                      r_recs := r_recs s |}, r_next s).
Proof. exact gen_bcn_RegisterNewBeacon_eq. Qed.
Print Assumptions C09_generated_bcn_register.

(* by the equality with the model: a timestamp or a purchase by anyone but the owner of a registered BEACON fails (no
   state is returned), with the owner-check error whenever ValidateBasic accepts the message *)
Theorem C09_generated_bcn_owner_only : forall now wall s g (o : addr) id rg,
  reg_inv false s g -> bcn_no_genesis s -> reg_counters_small s -> 0 <= now / NSEC < two63 ->
  aget id (r_regs s) = Some rg -> o <> rg_owner rg ->
  (forall key hashes, List.length hashes = 1%nat -> key <> 0 ->
     exists c, bcn_msg_exec (mk_rworld now wall s) (RRecord o id key hashes) = Err c /\
       (reg_validate_basic false (RRecord o id key hashes) = Ok tt -> c = ERR_REG_NOT_OWNER)) /\
  (forall n, 0 <= n ->
     exists c, bcn_msg_exec (mk_rworld now wall s) (RPurchase o id n) = Err c /\
       (reg_validate_basic false (RPurchase o id n) = Ok tt -> c = ERR_REG_NOT_OWNER)).
Proof. exact gen_bcn_non_owner_rejected. Qed.
Print Assumptions C09_generated_bcn_owner_only.

(* examples: one BEACON (id 1, owner 7), HighestBeaconID = 2 *)
(* account 9 registers: it gets id 2, the counter becomes 3, the default limit 2 is stored, the first beacon is untouched;
   the genesis / type strings of the model's message do not exist for a BEACON *)
Example C09_generated_bcn_register_ex :
  exists w', bcn_msg_exec (mk_rworld ex_now 0 (ex_state "")) (RRegister 9 "x" "y" "ignored" "ignored") = Ok (w', RespRegistered 2) /\
    r_next (rw_reg w') = 3 /\ limit_of (rw_reg w') 2 = 2 /\
    aget 2 (r_regs (rw_reg w')) =
      Some {| rg_id := 2; rg_owner := 9; rg_moniker := "x"; rg_name := "y"; rg_genesis := ""; rg_type := "";
              rg_last := 0; rg_num := 0; rg_lowest := 0; rg_regtime := 1700000000 |} /\
    aget 1 (r_regs (rw_reg w')) = Some (ex_rg "").
Proof. eexists. split; [vm_compute; reflexivity|]. vm_compute. auto. Qed.

(* an empty moniker is refused *)
Example C09_generated_bcn_register_rejected_ex :
  bcn_msg_exec (mk_rworld ex_now 0 (ex_state "")) (RRegister 9 "" "y" "" "") = Err ERR_REG.
Proof. vm_compute. reflexivity. Qed.

(* account 8 is not the owner of BEACON 1 *)
Example C09_generated_bcn_owner_only_ex :
  bcn_msg_exec (mk_rworld ex_now 0 (ex_state "")) (RRecord 8 1 1650000000 ["h"]) = Err ERR_REG_NOT_OWNER /\
  bcn_msg_exec (mk_rworld ex_now 0 (ex_state "")) (RPurchase 8 1 3) = Err ERR_REG_NOT_OWNER /\
  (exists w', bcn_msg_exec (mk_rworld ex_now 0 (ex_state "")) (RRecord 7 1 1650000000 ["h"]) = Ok (w', RespRecorded 1 1)).
Proof. split; [vm_compute; reflexivity|]. split; [vm_compute; reflexivity|]. eexists. vm_compute. reflexivity. Qed.
