(* C12, link to the source (keeper level): CancelStreamBySenderReceiver as generated on every run from
   /repo/x/stream/keeper/stream.go computes exactly the model's cancel_stream; and the progress theorems of C12
   (a claim / cancel / affordable top-up succeeds; claim and cancel never panic) hold of the generated message
   server (coq/GeneratedStreamKeeper.v), transported along the equality with the model. *)
From MC Require Import lib.Prelude lib.AMap lib.GoSdk GeneratedFns GeneratedStreamTypes model.Bank model.Stream
  model.StreamSpec model.StreamKeeperPrims GeneratedStreamKeeper model.StreamGenSpec.
From MC Require Import proofs.StreamArith proofs.BankProofs proofs.StreamProofs proofs.GeneratedStreamEq.
Local Open Scope Z_scope.

Theorem C12_generated_cancel_is_model : forall now b s (r sn : addr), str_inv now b s ->
  go_CancelStreamBySenderReceiver (world now b s) r sn = lift0 now tt (cancel_stream now b s r sn).
Proof. exact gen_CancelStream_keeper_eq. Qed.
Print Assumptions C12_generated_cancel_is_model.

Theorem C12_generated_claim_succeeds : forall now b s (sn r : addr) st,
  str_inv now b s -> aget (r, sn) (s_streams s) = Some st -> 0 < st_deposit st ->
  exists b' s' c, go_msg_exec (world now b s) (SClaim sn r) = Ok (world now b' s', RClaim c).
Proof. exact gen_claim_succeeds. Qed.
Print Assumptions C12_generated_claim_succeeds.

Theorem C12_generated_cancel_succeeds : forall now b s (sn r : addr) st,
  str_inv now b s -> aget (r, sn) (s_streams s) = Some st ->
  st_cancellable st = true -> blocked sn = false ->
  exists b' s', go_msg_exec (world now b s) (SCancel sn r) = Ok (world now b' s', RNone).
Proof. exact gen_cancel_succeeds. Qed.
Print Assumptions C12_generated_cancel_succeeds.

Theorem C12_generated_topup_succeeds : forall now b s (sn r : addr) st amt,
  str_inv now b s -> aget (r, sn) (s_streams s) = Some st -> 0 < amt ->
  sn <> r -> sn <> STREAM_MACC -> sn <> FEE_COLLECTOR ->
  amt <= balance b sn (st_denom st) -> amt / st_rate st < two63 ->
  time_storable (add_seconds (if st_dzt st <=? now then now else st_dzt st) (amt / st_rate st)) = true ->
  exists b' s' resp, go_msg_exec (world now b s) (STopUp sn r (st_denom st) amt) = Ok (world now b' s', resp).
Proof. exact gen_topup_succeeds. Qed.
Print Assumptions C12_generated_topup_succeeds.

Theorem C12_generated_no_arith_panic_claim_cancel : forall now b s (sn r : addr),
  str_inv now b s ->
  (forall c, go_msg_exec (world now b s) (SClaim sn r) <> Panic c) /\
  (forall c, go_msg_exec (world now b s) (SCancel sn r) <> Panic c).
Proof. exact gen_no_arith_panic_claim_cancel. Qed.
Print Assumptions C12_generated_no_arith_panic_claim_cancel.

(* ---- examples on the state after "create 100000 at 100/s" ---- *)

(* cancel by the sender after 10 s: 1000 settled (990 + 10), 99000 back to the sender, stream gone *)
Example C12_generated_cancel_ex :
  exists w, go_msg_exec (world (ex_t 10) (fst ex_bs1) (snd ex_bs1)) (SCancel 1 2) = Ok (w, RNone) /\
            balance (kw_bank w) 1 0 - balance (fst ex_bs1) 1 0 = 99000 /\ s_streams (kw_str w) = [] /\
            balance (kw_bank w) STREAM_MACC 0 = 0.
Proof. eexists. split; [vm_compute; reflexivity|]. vm_compute. auto. Qed.

(* a claim long after the zero time pays everything *)
Example C12_generated_late_claim_ex :
  exists w, go_msg_exec (world (ex_t 5000) (fst ex_bs1) (snd ex_bs1)) (SClaim 1 2)
            = Ok (w, RClaim {| cr_receiver := 99000; cr_fee := 1000; cr_total := 100000; cr_remaining := 0 |}).
Proof. eexists. vm_compute. reflexivity. Qed.

(* the listed limitation is the generated code's too: the 3 * 10^13 top-up aborts with the marshal panic *)
Example C12_generated_topup_unrepresentable_ex :
  go_msg_exec (world ex_now (fst ex_bs1) (snd ex_bs1)) (STopUp 1 2 0 30000000000000) = Panic PANIC_MARSHAL.
Proof. vm_compute. reflexivity. Qed.
