(* C09 (with C07, C08), store layer of x/wrkchain, CAPSTONE: the keeper and message server of
   /repo/x/wrkchain/keeper/{register,record,msg_server}.go as translated on every run TWICE from the same source -
     (1) GeneratedWrkchainKeeper.v         over the hand-written primitives of model/RegistryWorld.v +
                                            model/WrkchainKeeperPrims.v (world [rworld]: block time, wall clock, the abstract
                                            registry state [reg_state] of model/Registry.v),
     (2) GeneratedWrkchainKeeperOnStore.v  over the BYTE-LEVEL ordered KV store of model/KVStore.v, accessed through the
                                            GENERATED store accessors (GeneratedWrkchainStore.v) and the GENERATED key builders
                                            (GeneratedKeys.v); world [wsworld] of model/WrkchainStoreWorld.v: block time, wall
                                            clock, byte store -
   are in SIMULATION: from related worlds every function of (2) ends Ok / Err e / Panic c exactly when the function of (1)
   does, with the same code, the same returned value, and related worlds again.  Hence whole histories of the four message
   kinds (ValidateBasic, then the handler) give the same result message by message and end in related worlds, and what is
   proved of (1) - C07 append-only records, C08 retention of the newest records within the limit, C09 sequential ids and
   the immutable sole-writer owner - holds of (2), i.e. of the code running on bytes.

   Rw w ws: C09_onstore_wrkchain_relation (Rreg: props/C18storewrkchainrefines.v).
   Rwi w ws = Rw w ws and two facts about the abstract state that every reachable state has
   (C09_onstore_wrkchain_invariant_of_reachable) and that are needed (C18_store_wrkchain_refines_zero_height_refuted,
   C09_onstore_wrkchain_lowest_needed_refuted): recorded heights are >= 1, stored LowestHeights are uint64.
   sim / sim0: C09_onstore_wrkchain_sim (results related by Rwi / by Rw).
   Side conditions on arguments: ids / heights are uint64 ([u64 x] is 0 <= x < 2 ^ 64 - anything decoded from a protobuf
   uint64); the parameters of an update satisfy what C18_store_wrkchain_refines_SetParams_same_code needs.  No "counter
   small" hypothesis is needed for the simulation itself: both renderings wrap alike.
   Proofs: proofs/GeneratedWrkchainOnStoreEq.v. *)
From MC Require Import lib.Prelude lib.AMap lib.GoSdk GeneratedWrkchainTypes model.Bank model.Registry model.RegistrySpec
  model.Genesis model.Keys model.KeyPrims model.KVStore model.StoreCodecPrims model.WrkchainKeeperPrims model.WrkchainStoreWorld
  model.WrkchainGenSpec GeneratedKeys GeneratedWrkchainStore.
From MC Require GeneratedWrkchainKeeper GeneratedWrkchainKeeperOnStore.
From MC Require Import proofs.RegistryProofs proofs.GeneratedWrkchainEq proofs.GeneratedWrkchainValidateEq
  proofs.GeneratedWrkchainParamsEq proofs.GeneratedWrkchainStoreEq proofs.GeneratedWrkchainStoreRefines
  proofs.GeneratedWrkchainOnStoreEq.
From Coq Require Import NArith ZArith List Bool.
Import ListNotations.
Local Open Scope string_scope.
Local Open Scope list_scope.
Local Open Scope Z_scope.

(* ------------------------------------------------------------------ *)
(* the relations, in full                                               *)
(* ------------------------------------------------------------------ *)

Theorem C09_onstore_wrkchain_relation :
  forall (w : rworld) (ws : wsworld),
  Rw w ws <-> (rw_now w = wsw_now ws /\ rw_wall w = wsw_wall ws /\ Rreg (wsw_store ws) (rw_reg w)).
Proof. exact Rw_spelled. Qed.
Print Assumptions C09_onstore_wrkchain_relation.

Theorem C09_onstore_wrkchain_relation_with_invariant :
  forall (w : rworld) (ws : wsworld),
  Rwi w ws <->
  (Rw w ws /\
   (forall id h rc, In ((id, h), rc) (r_recs (rw_reg w)) -> 1 <= h) /\
   (forall id rg, In (id, rg) (r_regs (rw_reg w)) -> 0 <= rg_lowest rg < 2 ^ 64)).
Proof. exact Rwi_spelled. Qed.
Print Assumptions C09_onstore_wrkchain_relation_with_invariant.

(* two results agree: Ok/Ok with related worlds and equal values, Err/Err and Panic/Panic with equal codes, nothing else *)
Theorem C09_onstore_wrkchain_sim :
  forall (R : Type) (a : outcome (rworld * R)) (c : outcome (wsworld * R)),
  (sim a c <->
   match a, c with
   | Ok (w, x), Ok (ws, y) => Rwi w ws /\ x = y
   | Err e, Err e' => e = e'
   | Panic p, Panic p' => p = p'
   | _, _ => False
   end) /\
  (sim0 a c <->
   match a, c with
   | Ok (w, x), Ok (ws, y) => Rw w ws /\ x = y
   | Err e, Err e' => e = e'
   | Panic p, Panic p' => p = p'
   | _, _ => False
   end).
Proof. exact sims_spelled. Qed.
Print Assumptions C09_onstore_wrkchain_sim.

(* every state the module reaches (reg_inv of proofs/RegistryProofs.v, C07_reg_inv_init / _step / _run) has the two facts *)
Theorem C09_onstore_wrkchain_invariant_of_reachable :
  forall (s : reg_state) (g : ghost), reg_inv true s g ->
  (forall id h rc, In ((id, h), rc) (r_recs s) -> 1 <= h) /\
  (forall id rg, In (id, rg) (r_regs s) -> 0 <= rg_lowest rg < 2 ^ 64).
Proof. exact reg_inv_winv. Qed.
Print Assumptions C09_onstore_wrkchain_invariant_of_reachable.

(* ------------------------------------------------------------------ *)
(* the adapter primitives of model/WrkchainStoreWorld.v                 *)
(* ------------------------------------------------------------------ *)

Theorem C09_onstore_wrkchain_primitives :
  forall (w : rworld) (ws : wsworld), Rw w ws ->
  os_rw_now ws = rw_now w /\ os_rw_wall ws = rw_wall w /\
  os_reg_GetHighestID ws = reg_GetHighestID w /\
  os_reg_GetParamMaxStorageLimit ws = Ok (reg_GetParamMaxStorageLimit w) /\
  os_reg_GetParamDefaultStorageLimit ws = Ok (reg_GetParamDefaultStorageLimit w) /\
  os_reg_GetParams ws = Ok (reg_GetParams w) /\
  (forall id, u64 id -> os_reg_GetEntity ws id = Ok (reg_GetEntity w id)) /\
  (forall id, u64 id -> os_reg_IsRegistered ws id = Ok (reg_IsRegistered w id)) /\
  (forall id a, u64 id -> os_reg_IsAuthorisedToRecord ws id a = Ok (reg_IsAuthorisedToRecord w id a)) /\
  (forall id, u64 id -> os_reg_GetStorageLimit ws id = Ok (reg_GetStorageLimit w id)) /\
  (forall id h, u64 id -> u64 h -> os_reg_GetRecord ws id h = Ok (reg_GetRecord w id h)) /\
  (forall id, u64 id -> (forall h rc, In ((id, h), rc) (r_recs (rw_reg w)) -> 1 <= h) ->
     os_reg_LowestKeyInState ws id = Ok (reg_LowestKeyInState w id)) /\
  (forall v, u64 v -> sim0 (reg_SetHighestID w v) (os_reg_SetHighestID ws v)) /\
  (forall g, u64 (WrkChain_WrkchainId g) -> sim0 (reg_SetEntity w g) (os_reg_SetEntity ws g)) /\
  (forall id l, u64 id -> sim0 (reg_SetStorageLimit w id l) (os_reg_SetStorageLimit ws id l)) /\
  (forall id b, u64 id -> u64 (WrkChainBlock_Height b) -> sim0 (reg_SetRecord w id b) (os_reg_SetRecord ws id b)) /\
  (forall id t, u64 id -> u64 t -> sim0 (reg_DeleteRecord w id t) (os_reg_DeleteRecord ws id t)) /\
  (forall p, wrk_params_nonneg p -> denom_ok p -> sim0 (reg_SetParams w p) (os_reg_SetParams ws p)).
Proof. exact sim_primitives. Qed.
Print Assumptions C09_onstore_wrkchain_primitives.

(* the adapter that is not a bare accessor, on its own *)
Theorem C09_onstore_wrkchain_IsAuthorisedToRecord :
  forall (w : rworld) (ws : wsworld) (id : Z) (a : addr), Rw w ws -> u64 id ->
  os_reg_IsAuthorisedToRecord ws id a = Ok (reg_IsAuthorisedToRecord w id a).
Proof. exact prim_IsAuthorisedToRecord. Qed.
Print Assumptions C09_onstore_wrkchain_IsAuthorisedToRecord.

(* with the invariant carried along: what the readers return is in range, the writers keep Rwi *)
Theorem C09_onstore_wrkchain_primitives_invariant :
  forall (w : rworld) (ws : wsworld), Rwi w ws ->
  (forall id, u64 id -> os_reg_LowestKeyInState ws id = Ok (reg_LowestKeyInState w id)) /\
  (forall id, u64 (reg_LowestKeyInState w id)) /\
  (forall id, u64 (WrkChain_WrkchainId (fst (reg_GetEntity w id))) /\ u64 (WrkChain_LowestHeight (fst (reg_GetEntity w id)))) /\
  (forall v, u64 v -> sim (reg_SetHighestID w v) (os_reg_SetHighestID ws v)) /\
  (forall g, u64 (WrkChain_WrkchainId g) -> u64 (WrkChain_LowestHeight g) -> sim (reg_SetEntity w g) (os_reg_SetEntity ws g)) /\
  (forall id l, u64 id -> sim (reg_SetStorageLimit w id l) (os_reg_SetStorageLimit ws id l)) /\
  (forall id b, u64 id -> u64 (WrkChainBlock_Height b) -> 1 <= WrkChainBlock_Height b ->
     sim (reg_SetRecord w id b) (os_reg_SetRecord ws id b)) /\
  (forall id t, u64 id -> u64 t -> sim (reg_DeleteRecord w id t) (os_reg_DeleteRecord ws id t)) /\
  (forall p, wrk_params_nonneg p -> denom_ok p -> sim (reg_SetParams w p) (os_reg_SetParams ws p)).
Proof. exact sim_primitives_inv. Qed.
Print Assumptions C09_onstore_wrkchain_primitives_invariant.

(* ------------------------------------------------------------------ *)
(* every translated function                                            *)
(* ------------------------------------------------------------------ *)

(* the five keeper functions: the two that return no world answer alike; the three that write simulate *)
Theorem C09_onstore_wrkchain_keeper :
  forall (w : rworld) (ws : wsworld), Rwi w ws ->
  (forall id height, u64 id ->
     GeneratedWrkchainKeeperOnStore.go_QuickCheckHeightIsNew ws id height = GeneratedWrkchainKeeper.go_QuickCheckHeightIsNew w id height) /\
  (forall id, u64 id ->
     GeneratedWrkchainKeeperOnStore.go_GetMaxPurchasableSlots ws id = GeneratedWrkchainKeeper.go_GetMaxPurchasableSlots w id) /\
  (forall id amount, u64 id ->
     sim (GeneratedWrkchainKeeper.go_IncreaseInStateStorage w id amount)
         (GeneratedWrkchainKeeperOnStore.go_IncreaseInStateStorage ws id amount)) /\
  (forall moniker name genesis type owner,
     sim (GeneratedWrkchainKeeper.go_RegisterNewWrkChain w moniker name genesis type owner)
         (GeneratedWrkchainKeeperOnStore.go_RegisterNewWrkChain ws moniker name genesis type owner)) /\
  (forall id height h0 h1 h2 h3 h4, u64 id -> u64 height -> 1 <= height ->
     sim (GeneratedWrkchainKeeper.go_RecordNewWrkchainHashes w id height h0 h1 h2 h3 h4)
         (GeneratedWrkchainKeeperOnStore.go_RecordNewWrkchainHashes ws id height h0 h1 h2 h3 h4)).
Proof. exact sim_keeper. Qed.
Print Assumptions C09_onstore_wrkchain_keeper.

(* the four handlers of the message server *)
Theorem C09_onstore_wrkchain_msg_server :
  forall (w : rworld) (ws : wsworld), Rwi w ws ->
  (forall msg, sim (GeneratedWrkchainKeeper.go_RegisterWrkChain w msg) (GeneratedWrkchainKeeperOnStore.go_RegisterWrkChain ws msg)) /\
  (forall msg, u64 (MsgRecordWrkChainBlock_WrkchainId msg) -> u64 (MsgRecordWrkChainBlock_Height msg) ->
     sim (GeneratedWrkchainKeeper.go_RecordWrkChainBlock w msg) (GeneratedWrkchainKeeperOnStore.go_RecordWrkChainBlock ws msg)) /\
  (forall msg, u64 (MsgPurchaseWrkChainStateStorage_WrkchainId msg) ->
     sim (GeneratedWrkchainKeeper.go_PurchaseWrkChainStateStorage w msg)
         (GeneratedWrkchainKeeperOnStore.go_PurchaseWrkChainStateStorage ws msg)) /\
  (forall req, wrk_params_nonneg (MsgUpdateParams_Params req) -> denom_ok (MsgUpdateParams_Params req) ->
     sim (GeneratedWrkchainKeeper.go_UpdateParams w req) (GeneratedWrkchainKeeperOnStore.go_UpdateParams ws req)).
Proof. exact sim_msg_server. Qed.
Print Assumptions C09_onstore_wrkchain_msg_server.

(* the functions that touch no store are the same functions in the two files *)
Theorem C09_onstore_wrkchain_pure_functions :
  (forall i, GeneratedWrkchainKeeperOnStore.go_validateFeeDenom i = GeneratedWrkchainKeeper.go_validateFeeDenom i) /\
  (forall i, GeneratedWrkchainKeeperOnStore.go_validateFeeRegister i = GeneratedWrkchainKeeper.go_validateFeeRegister i) /\
  (forall i, GeneratedWrkchainKeeperOnStore.go_validateFeeRecord i = GeneratedWrkchainKeeper.go_validateFeeRecord i) /\
  (forall i, GeneratedWrkchainKeeperOnStore.go_validateFeePurchaseStorage i = GeneratedWrkchainKeeper.go_validateFeePurchaseStorage i) /\
  (forall i, GeneratedWrkchainKeeperOnStore.go_validateDefaultStorageLimit i = GeneratedWrkchainKeeper.go_validateDefaultStorageLimit i) /\
  (forall i, GeneratedWrkchainKeeperOnStore.go_validateMaxStorageLimit i = GeneratedWrkchainKeeper.go_validateMaxStorageLimit i) /\
  (forall p, GeneratedWrkchainKeeperOnStore.go_Params_Validate p = GeneratedWrkchainKeeper.go_Params_Validate p) /\
  (forall m, GeneratedWrkchainKeeperOnStore.go_MsgRegisterWrkChain_ValidateBasic m = GeneratedWrkchainKeeper.go_MsgRegisterWrkChain_ValidateBasic m) /\
  (forall m, GeneratedWrkchainKeeperOnStore.go_MsgRecordWrkChainBlock_ValidateBasic m = GeneratedWrkchainKeeper.go_MsgRecordWrkChainBlock_ValidateBasic m) /\
  (forall m, GeneratedWrkchainKeeperOnStore.go_MsgPurchaseWrkChainStateStorage_ValidateBasic m =
             GeneratedWrkchainKeeper.go_MsgPurchaseWrkChainStateStorage_ValidateBasic m) /\
  (forall m, os_wrk_validate_basic m = wrk_validate_basic m).
Proof. exact pure_functions_agree. Qed.
Print Assumptions C09_onstore_wrkchain_pure_functions.

(* ------------------------------------------------------------------ *)
(* messages and histories                                               *)
(* ------------------------------------------------------------------ *)

(* the message server driven by the model's message type ([wrk_msg_exec] for (1), [os_wrk_msg_exec] for (2)) *)
Theorem C09_onstore_wrkchain_msg_exec :
  forall (w : rworld) (ws : wsworld) (m : reg_msg), Rwi w ws ->
  match m with
  | RRegister _ _ _ _ _ => True
  | RRecord _ id key _ => u64 id /\ u64 key
  | RPurchase _ id _ => u64 id
  end ->
  sim (wrk_msg_exec w m) (os_wrk_msg_exec ws m).
Proof. exact sim_msg_exec. Qed.
Print Assumptions C09_onstore_wrkchain_msg_exec.

(* DeliverTx of one of the four message kinds: ValidateBasic, then the handler *)
Theorem C09_onstore_wrkchain_deliver :
  forall (w : rworld) (ws : wsworld) (m : kmsg), Rwi w ws ->
  match m with
  | KReg (RRegister _ _ _ _ _) => True
  | KReg (RRecord _ id key _) => u64 id /\ u64 key
  | KReg (RPurchase _ id _) => u64 id
  | KUpdateParams req => wrk_params_nonneg (MsgUpdateParams_Params req) /\ denom_ok (MsgUpdateParams_Params req)
  end ->
  sim (k_deliver w m) (s_deliver ws m).
Proof. exact sim_deliver_spelled. Qed.
Print Assumptions C09_onstore_wrkchain_deliver.

(* any history of the four kinds ((unix time, message) pairs; each message is delivered at its block time under the wall
   clock [wall]; a failing or panicking message leaves the state untouched), from related worlds: the same result for
   every message, related final worlds *)
Theorem C09_onstore_wrkchain_histories :
  forall (wall : Z) (h : list (Z * kmsg)) (w : rworld) (ws : wsworld), Rwi w ws ->
  Forall (fun tm => match snd tm with
                    | KReg (RRegister _ _ _ _ _) => True
                    | KReg (RRecord _ id key _) => 0 <= id < 2 ^ 64 /\ 0 <= key < 2 ^ 64
                    | KReg (RPurchase _ id _) => 0 <= id < 2 ^ 64
                    | KUpdateParams req =>
                        wrk_params_nonneg (MsgUpdateParams_Params req) /\
                        (0 <= Params_Denom (MsgUpdateParams_Params req) \/ Params_Denom (MsgUpdateParams_Params req) = go_zero_denom)
                    end) h ->
  fst (k_run wall w h) = fst (s_run wall ws h) /\ Rwi (snd (k_run wall w h)) (snd (s_run wall ws h)).
Proof. exact sim_run_spelled. Qed.
Print Assumptions C09_onstore_wrkchain_histories.

(* a history of the model's three kinds run as a history of the four by rendering (1) is [wrk_run_v]
   (proofs/GeneratedWrkchainValidateEq.v), whatever the ghost *)
Theorem C09_onstore_wrkchain_run_is_run_v :
  forall (wall : Z) (h : list (Z * reg_msg)) (w : rworld) (g : ghost),
  rw_reg (snd (k_run wall w (lift_hist h))) = fst (wrk_run_v wall (rw_reg w, g) h).
Proof. exact k_run_lift. Qed.
Print Assumptions C09_onstore_wrkchain_run_is_run_v.

(* histories of the model's three kinds, from a byte store representing a state inside the model's invariant: the
   on-store run answers every message as rendering (1) does and ends in a world representing the MODEL's run *)
Theorem C09_onstore_wrkchain_run_is_model :
  forall (wall : Z) (h : list (Z * reg_msg)) (w : rworld) (ws : wsworld) (g : ghost) (B : Z),
  Rw w ws -> reg_inv true (rw_reg w) g -> wrk_bounded B (rw_reg w) -> B + Z.of_nat (List.length h) < two64 ->
  wrk_hist_ok h ->
  fst (s_run wall ws (lift_hist h)) = fst (k_run wall w (lift_hist h)) /\
  exists w', Rwi w' (snd (s_run wall ws (lift_hist h))) /\
             rw_reg w' = fst (reg_run true (rw_reg w, g) h) /\
             reg_inv true (fst (reg_run true (rw_reg w, g) h)) (snd (reg_run true (rw_reg w, g) h)).
Proof. exact os_run_is_model. Qed.
Print Assumptions C09_onstore_wrkchain_run_is_model.

(* ------------------------------------------------------------------ *)
(* C07 on the on-store rendering                                        *)
(* ------------------------------------------------------------------ *)

(* on one state: every accepted record is either returned bit for bit by the generated GetWrkChainBlock reading the byte
   store, or pruned (nothing under its key, its height below the LowestHeight the store holds); and everything the
   accessor returns was accepted exactly so *)
Theorem C09_onstore_wrkchain_C07_accepted_record_queryable :
  forall (w : rworld) (ws : wsworld) (g : ghost) (id : Z),
  Rw w ws -> reg_inv true (rw_reg w) g -> u64 id ->
  (forall k rc, In (k, rc) (log_of g id) ->
     os_reg_GetRecord ws id k = Ok (rec_to_go rc, true) \/
     (os_reg_GetRecord ws id k = Ok (zero_go_WrkChainBlock, false) /\
      exists e, os_reg_GetEntity ws id = Ok (e, true) /\ 1 <= WrkChain_NumBlocks e /\ k < WrkChain_LowestHeight e)) /\
  (forall k b, u64 k -> os_reg_GetRecord ws id k = Ok (b, true) -> exists rc, In (k, rc) (log_of g id) /\ b = rec_to_go rc).
Proof. exact os_accepted_record_queryable. Qed.
Print Assumptions C09_onstore_wrkchain_C07_accepted_record_queryable.

(* along the on-store run of any later history: the log of accepted records only grows, and the above holds of the
   final byte store *)
Theorem C09_onstore_wrkchain_C07_accepted_record_immutable :
  forall (wall : Z) (h : list (Z * reg_msg)) (w : rworld) (ws : wsworld) (g : ghost) (B id : Z),
  Rw w ws -> reg_inv true (rw_reg w) g -> wrk_bounded B (rw_reg w) -> B + Z.of_nat (List.length h) < two64 ->
  wrk_hist_ok h -> u64 id ->
  let g' := snd (reg_run true (rw_reg w, g) h) in
  let ws' := snd (s_run wall ws (lift_hist h)) in
  (exists l, log_of g' id = log_of g id ++ l) /\
  (forall k rc, In (k, rc) (log_of g' id) ->
     os_reg_GetRecord ws' id k = Ok (rec_to_go rc, true) \/
     (os_reg_GetRecord ws' id k = Ok (zero_go_WrkChainBlock, false) /\
      exists e, os_reg_GetEntity ws' id = Ok (e, true) /\ 1 <= WrkChain_NumBlocks e /\ k < WrkChain_LowestHeight e)) /\
  (forall k b, u64 k -> os_reg_GetRecord ws' id k = Ok (b, true) -> exists rc, In (k, rc) (log_of g' id) /\ b = rec_to_go rc).
Proof. exact os_accepted_record_immutable. Qed.
Print Assumptions C09_onstore_wrkchain_C07_accepted_record_immutable.

(* ------------------------------------------------------------------ *)
(* C08 on the on-store rendering                                        *)
(* ------------------------------------------------------------------ *)

(* the generated listing of the byte store returns exactly the newest [NumBlocks] accepted records, oldest first; the
   count is at most the limit the store holds *)
Theorem C09_onstore_wrkchain_C08_retained_is_newest_suffix :
  forall (w : rworld) (ws : wsworld) (g : ghost) (id : Z) (e : go_WrkChain),
  Rw w ws -> reg_inv true (rw_reg w) g -> u64 id -> os_reg_GetEntity ws id = Ok (e, true) ->
  go_st_GetAllWrkChainBlockHashes (wsw_store ws) id =
    Ok (map (fun kr => rec_to_go (snd kr)) (lastn (Z.to_nat (WrkChain_NumBlocks e)) (log_of g id))) /\
  (exists lim, os_reg_GetStorageLimit ws id = Ok (mk_go_WrkChainStorageLimit id lim, true) /\
               0 <= WrkChain_NumBlocks e <= lim /\ 1 <= lim) /\
  WrkChain_NumBlocks e <= Z.of_nat (List.length (log_of g id)).
Proof. exact os_retained_is_newest_suffix. Qed.
Print Assumptions C09_onstore_wrkchain_C08_retained_is_newest_suffix.

Theorem C09_onstore_wrkchain_C08_retained_is_newest_suffix_run :
  forall (wall : Z) (h : list (Z * reg_msg)) (w : rworld) (ws : wsworld) (g : ghost) (B id : Z) (e : go_WrkChain),
  Rw w ws -> reg_inv true (rw_reg w) g -> wrk_bounded B (rw_reg w) -> B + Z.of_nat (List.length h) < two64 ->
  wrk_hist_ok h -> u64 id ->
  let g' := snd (reg_run true (rw_reg w, g) h) in
  let ws' := snd (s_run wall ws (lift_hist h)) in
  os_reg_GetEntity ws' id = Ok (e, true) ->
  go_st_GetAllWrkChainBlockHashes (wsw_store ws') id =
    Ok (map (fun kr => rec_to_go (snd kr)) (lastn (Z.to_nat (WrkChain_NumBlocks e)) (log_of g' id))) /\
  (exists lim, os_reg_GetStorageLimit ws' id = Ok (mk_go_WrkChainStorageLimit id lim, true) /\
               0 <= WrkChain_NumBlocks e <= lim /\ 1 <= lim) /\
  WrkChain_NumBlocks e <= Z.of_nat (List.length (log_of g' id)).
Proof. exact os_retained_is_newest_suffix_run. Qed.
Print Assumptions C09_onstore_wrkchain_C08_retained_is_newest_suffix_run.

(* the capacity the on-store GetMaxPurchasableSlots reports is the model's [max_purchasable] *)
Theorem C09_onstore_wrkchain_C08_capacity :
  forall (w : rworld) (ws : wsworld) (id : Z), Rwi w ws -> u64 id ->
  rp_max_limit (r_params (rw_reg w)) < two64 -> (forall l, aget id (r_limits (rw_reg w)) = Some l -> 0 <= l) ->
  GeneratedWrkchainKeeperOnStore.go_GetMaxPurchasableSlots ws id = Ok (max_purchasable (rw_reg w) id).
Proof. exact os_capacity. Qed.
Print Assumptions C09_onstore_wrkchain_C08_capacity.

(* ------------------------------------------------------------------ *)
(* C09 on the on-store rendering                                        *)
(* ------------------------------------------------------------------ *)

(* a registration gets the id the byte store's counter holds; the counter then holds that id + 1; the store holds exactly
   what was submitted under that id, and the default limit; every other WRKChain entry reads as before *)
Theorem C09_onstore_wrkchain_register_assigns_next_id :
  forall (w : rworld) (ws : wsworld) (n : Z) (moniker name genesis type : string) (owner : addr),
  Rwi w ws -> os_reg_GetHighestID ws = Ok n -> n < two64 - 1 -> 0 <= Time_Unix (wsw_now ws) < two64 ->
  exists ws',
    GeneratedWrkchainKeeperOnStore.go_RegisterNewWrkChain ws moniker name genesis type owner = Ok (ws', n) /\
    os_reg_GetHighestID ws' = Ok (n + 1) /\
    os_reg_GetEntity ws' n = Ok (mk_go_WrkChain n moniker name genesis type 0 0 0 (Time_Unix (wsw_now ws)) owner, true) /\
    (exists d, os_reg_GetParamDefaultStorageLimit ws = Ok d /\
               os_reg_GetStorageLimit ws' n = Ok (mk_go_WrkChainStorageLimit n d, true)) /\
    (forall id, u64 id -> id <> n -> os_reg_GetEntity ws' id = os_reg_GetEntity ws id) /\
    wsw_now ws' = wsw_now ws /\
    exists w', Rwi w' ws'.
Proof. exact os_register_assigns_next_id. Qed.
Print Assumptions C09_onstore_wrkchain_register_assigns_next_id.

(* only the owner the byte store holds for a WRKChain records to it or purchases storage for it *)
Theorem C09_onstore_wrkchain_owner_only :
  forall (w : rworld) (ws : wsworld) (g : ghost) (o : addr) (id : Z) (e : go_WrkChain),
  Rw w ws -> reg_inv true (rw_reg w) g -> reg_counters_small (rw_reg w) -> 0 <= wsw_now ws / NSEC < two63 ->
  u64 id -> os_reg_GetEntity ws id = Ok (e, true) -> o <> WrkChain_Owner e ->
  (forall key hashes, u64 key -> List.length hashes = 5%nat ->
     exists c, os_wrk_msg_exec ws (RRecord o id key hashes) = Err c /\
       (os_wrk_validate_basic (RRecord o id key hashes) = Ok tt -> o <> go_zero_addr -> c = ERR_REG_NOT_OWNER)) /\
  (forall n, 0 <= n ->
     exists c, os_wrk_msg_exec ws (RPurchase o id n) = Err c /\
       (os_wrk_validate_basic (RPurchase o id n) = Ok tt -> c = ERR_REG_NOT_OWNER)).
Proof. exact os_owner_only. Qed.
Print Assumptions C09_onstore_wrkchain_owner_only.

(* what was accepted at registration is what the generated GetWrkChain reads from the byte store after every later
   history run through the on-store rendering *)
Theorem C09_onstore_wrkchain_metadata_immutable :
  forall (wall : Z) (h : list (Z * reg_msg)) (w : rworld) (ws : wsworld) (g : ghost) (B id : Z) (o : addr)
         (moniker name genesis type : string) (t : Z),
  Rw w ws -> reg_inv true (rw_reg w) g -> wrk_bounded B (rw_reg w) -> B + Z.of_nat (List.length h) < two64 ->
  wrk_hist_ok h ->
  In (id, RRegister o moniker name genesis type, t) (g_reg g) ->
  exists e, os_reg_GetEntity (snd (s_run wall ws (lift_hist h))) id = Ok (e, true) /\
    WrkChain_WrkchainId e = id /\ WrkChain_Owner e = o /\ WrkChain_Moniker e = moniker /\ WrkChain_Name e = name /\
    WrkChain_RegTime e = t /\ WrkChain_Genesis e = genesis /\ WrkChain_Type e = type.
Proof. exact os_metadata_immutable. Qed.
Print Assumptions C09_onstore_wrkchain_metadata_immutable.

(* ------------------------------------------------------------------ *)
(* non-vacuity                                                          *)
(* ------------------------------------------------------------------ *)

(* the genesis store (SetParams, then SetHighestWrkChainID 1) is related to the model's genesis *)
Theorem C09_onstore_wrkchain_example_initial :
  (do x <- go_st_SetParams [] os_ex_params; go_st_SetHighestWrkChainID (fst x) 1) = Ok (os_ex_store0, tt) /\
  os_ex_sw0 = mk_wsworld 0 0 os_ex_store0 /\ os_ex_kw0 = mk_rworld 0 0 (reg_init GeneratedWrkchainEq.ex_params 1) /\
  Rwi os_ex_kw0 os_ex_sw0.
Proof. exact os_ex_initial. Qed.
Print Assumptions C09_onstore_wrkchain_example_initial.

(* twelve messages through the on-store rendering: register, three records (the third prunes), a stranger's record and a
   stale height refused, a purchase, a purchase above the maximum refused, UpdateParams by a non-authority refused and by
   the authority stored, a second registration under the new default limit, a fourth record *)
Theorem C09_onstore_wrkchain_example_run :
  let ws := snd (s_run 0 os_ex_sw0 os_ex_khist) in
  fst (s_run 0 os_ex_sw0 os_ex_khist) =
    [ Ok (KRReg (RespRegistered 1)); Ok (KRReg (RespRecorded 1 10)); Ok (KRReg (RespRecorded 1 20));
      Ok (KRReg (RespRecorded 1 30)); Err ERR_REG_NOT_OWNER; Err ERR_REG_HEIGHT; Ok (KRReg (RespPurchased 1 3 5));
      Err ERR_REG_MAX; Err 42; Ok KRParams; Ok (KRReg (RespRegistered 2)); Ok (KRReg (RespRecorded 1 40)) ] /\
  map (fun kv => List.length (fst kv)) (wsw_store ws) = [9; 9; 17; 17; 17; 9; 9; 1; 1]%nat /\
  os_reg_GetEntity ws 1 = Ok (mk_go_WrkChain 1 "m" "n" "0xabc" "geth" 40 3 20 1700000000 7, true) /\
  os_reg_GetEntity ws 2 = Ok (mk_go_WrkChain 2 "x" "y" "0xdef" "cosmos" 0 0 0 1700000100 9, true) /\
  go_st_GetAllWrkChainBlockHashes (wsw_store ws) 1 =
    Ok [os_ex_block 20 "b" 1700000020; os_ex_block 30 "c" 1700000030; os_ex_block 40 "f" 1700000110] /\
  os_reg_GetRecord ws 1 10 = Ok (zero_go_WrkChainBlock, false) /\
  os_reg_GetStorageLimit ws 1 = Ok (mk_go_WrkChainStorageLimit 1 5, true) /\
  os_reg_GetStorageLimit ws 2 = Ok (mk_go_WrkChainStorageLimit 2 3, true) /\
  os_reg_GetHighestID ws = Ok 3 /\ os_reg_GetParams ws = Ok os_ex_params2 /\
  GeneratedWrkchainKeeperOnStore.go_GetMaxPurchasableSlots ws 1 = Ok 15.
Proof. exact os_ex_onstore_run. Qed.
Print Assumptions C09_onstore_wrkchain_example_run.

(* ... related to the run of rendering (1): same trace, related final worlds *)
Theorem C09_onstore_wrkchain_example_related :
  fst (k_run 0 os_ex_kw0 os_ex_khist) = fst (s_run 0 os_ex_sw0 os_ex_khist) /\
  Rwi (snd (k_run 0 os_ex_kw0 os_ex_khist)) (snd (s_run 0 os_ex_sw0 os_ex_khist)).
Proof. exact os_ex_onstore_related. Qed.
Print Assumptions C09_onstore_wrkchain_example_related.

(* the transported C07 / C08 at work on the history of proofs/GeneratedWrkchainEq.v (register; record 10, 20, 30) *)
Theorem C09_onstore_wrkchain_example_model :
  let ws := snd (s_run 0 os_ex_sw0 (lift_hist ex_history)) in
  let g := snd (reg_run true (reg_init GeneratedWrkchainEq.ex_params 1, ghost_init) ex_history) in
  map fst (log_of g 1) = [10; 20; 30] /\
  (forall k rc, In (k, rc) (log_of g 1) ->
     os_reg_GetRecord ws 1 k = Ok (rec_to_go rc, true) \/
     (os_reg_GetRecord ws 1 k = Ok (zero_go_WrkChainBlock, false) /\
      exists e, os_reg_GetEntity ws 1 = Ok (e, true) /\ 1 <= WrkChain_NumBlocks e /\ k < WrkChain_LowestHeight e)) /\
  (forall e, os_reg_GetEntity ws 1 = Ok (e, true) ->
     go_st_GetAllWrkChainBlockHashes (wsw_store ws) 1 =
       Ok (map (fun kr => rec_to_go (snd kr)) (lastn (Z.to_nat (WrkChain_NumBlocks e)) (log_of g 1)))) /\
  go_st_GetAllWrkChainBlockHashes (wsw_store ws) 1 = Ok [os_ex_block 20 "b" 1700000020; os_ex_block 30 "c" 1700000030].
Proof. exact os_ex_onstore_model. Qed.
Print Assumptions C09_onstore_wrkchain_example_model.

(* ------------------------------------------------------------------ *)
(* what the invariant excludes                                          *)
(* ------------------------------------------------------------------ *)

(* a related pair (all heights >= 1) whose WRKChain 1 carries LowestHeight 2^64 + 5: recording past the limit, rendering
   (1) deletes nothing while the byte store deletes the record at height 5 - the results are no longer related *)
Theorem C09_onstore_wrkchain_lowest_needed_refuted :
  let ws := mk_wsworld 0 0 lw_s in
  Rw lw_w ws /\ (forall id h rc, In ((id, h), rc) (r_recs (rw_reg lw_w)) -> 1 <= h) /\
  reg_GetEntity lw_w 1 = (lw_wc, true) /\
  exists w' ws',
    GeneratedWrkchainKeeper.go_RecordNewWrkchainHashes lw_w 1 9 "b" "p" "1" "2" "3" = Ok (w', 2 ^ 64 + 5) /\
    GeneratedWrkchainKeeperOnStore.go_RecordNewWrkchainHashes ws 1 9 "b" "p" "1" "2" "3" = Ok (ws', 2 ^ 64 + 5) /\
    reg_GetRecord w' 1 5 = (ex_block 5, true) /\
    os_reg_GetRecord ws' 1 5 = Ok (zero_go_WrkChainBlock, false) /\
    WrkChain_LowestHeight (fst (reg_GetEntity w' 1)) = 5 /\
    (exists e, os_reg_GetEntity ws' 1 = Ok (e, true) /\ WrkChain_LowestHeight e = 9) /\
    ~ Rw w' ws'.
Proof. exact winv_lowest_needed_refuted. Qed.
Print Assumptions C09_onstore_wrkchain_lowest_needed_refuted.
