(* C06, link to the source: the exact-fee check of the BEACON ante decorator as generated on every run from
   /repo/x/beacon/exported/exported.go (go_CheckIsBeaconTx) and /repo/x/beacon/ante/ante.go (go_checkBeaconFees,
   both in coq/GeneratedBeaconKeeper.v), run on the sdk.Tx [gotx_of t] a model transaction t stands for
   (model/BeaconAnteGenSpec.v), is the model's [has_bcn] / [check_fees pick_bcn] (model/App.v) that C06 is proved about.
   Premises: the three fee parameters fit an int64 (otherwise the fee getters panic: [C06_generated_bcn_fee_param_refuted],
   a finding - Params.Validate only asks for positive fees), purchase counts are uint64 values.  A purchase of 2^63 slots
   or more panics on both sides, with different codes (Go: 4, "negative coin amount"; model: PANIC_NEGFEE = 55).
   (The x/wrkchain and x/beacon keepers define the same names: one file per module.) *)
From MC Require Import lib.Prelude lib.GoSdk GeneratedBeaconTypes model.Bank model.Registry model.Enterprise model.App
  model.AppSpec model.BeaconKeeperPrims GeneratedBeaconKeeper model.BeaconAnteGenSpec.
From MC Require Import proofs.AppFeeProofs proofs.GeneratedBeaconAnteEq.
Local Open Scope Z_scope.

(* ---- which transactions the decorator looks at: those with a top-level BEACON message ---- *)
Theorem C06_generated_bcn_is_registry_tx : forall t,
  go_CheckIsBeaconTx (gotx_of t) = Ok (has_bcn t).
Proof. exact gen_bcn_CheckIsBeaconTx_has_bcn. Qed.
Print Assumptions C06_generated_bcn_is_registry_tx.

Theorem C06_generated_bcn_is_registry_tx_In : forall t,
  go_CheckIsBeaconTx (gotx_of t) = Ok true <-> exists r, In (MBcn r) (tx_msgs t).
Proof. exact gen_bcn_CheckIsBeaconTx_In. Qed.
Print Assumptions C06_generated_bcn_is_registry_tx_In.

(* ---- the fee check is the model's, for transactions without a purchase of 2^63 slots or more ---- *)
Theorem C06_generated_bcn_fee_check_is_model : forall now wall rs t,
  0 <= rp_fee_register (r_params rs) < two63 /\ 0 <= rp_fee_record (r_params rs) < two63 /\
  0 <= rp_fee_purchase (r_params rs) < two63 ->
  (forall o id n, In (MBcn (RPurchase o id n)) (tx_msgs t) -> 0 <= n < two63) ->
  go_checkBeaconFees (mk_rworld now wall rs) (gotx_of t) = check_fees pick_bcn rs t.
Proof. exact gen_bcn_checkFees_eq. Qed.
Print Assumptions C06_generated_bcn_fee_check_is_model.

(* ---- a purchase of 2^63 <= n < 2^64 slots, whatever else the transaction contains: both panic ---- *)
Theorem C06_generated_bcn_huge_purchase : forall now wall rs t o id n,
  0 <= rp_fee_register (r_params rs) < two63 /\ 0 <= rp_fee_record (r_params rs) < two63 /\
  0 <= rp_fee_purchase (r_params rs) < two63 ->
  0 < rp_fee_purchase (r_params rs) ->
  In (MBcn (RPurchase o id n)) (tx_msgs t) -> two63 <= n < two64 ->
  existsb (fun c => fst c =? rp_denom (r_params rs)) (tx_fee t) = true ->
  go_checkBeaconFees (mk_rworld now wall rs) (gotx_of t) = Panic GO_PANIC_NEGCOIN /\
  check_fees pick_bcn rs t = Panic PANIC_NEGFEE.
Proof. exact gen_bcn_checkFees_huge_purchase. Qed.
Print Assumptions C06_generated_bcn_huge_purchase.

(* ---- without the module's denomination in the fee: the same refusal, without any premise ---- *)
Theorem C06_generated_bcn_no_denom : forall now wall rs t,
  existsb (fun c => fst c =? rp_denom (r_params rs)) (tx_fee t) = false ->
  go_checkBeaconFees (mk_rworld now wall rs) (gotx_of t) = Err ERR_FEE_DENOM /\
  check_fees pick_bcn rs t = Err ERR_FEE_DENOM.
Proof. exact gen_bcn_checkFees_no_denom. Qed.
Print Assumptions C06_generated_bcn_no_denom.

(* ---- together: for uint64 purchase counts the generated check is the model's, the panic code apart ---- *)
Theorem C06_generated_bcn_fee_check_total : forall now wall rs t,
  0 <= rp_fee_register (r_params rs) < two63 /\ 0 <= rp_fee_record (r_params rs) < two63 /\
  0 <= rp_fee_purchase (r_params rs) < two63 ->
  0 < rp_fee_purchase (r_params rs) ->
  (forall o id n, In (MBcn (RPurchase o id n)) (tx_msgs t) -> 0 <= n < two64) ->
  go_checkBeaconFees (mk_rworld now wall rs) (gotx_of t) =
  match check_fees pick_bcn rs t with Panic _ => Panic GO_PANIC_NEGCOIN | o => o end.
Proof. exact gen_bcn_checkFees_total. Qed.
Print Assumptions C06_generated_bcn_fee_check_total.

(* ---- C06 for the generated check: accepted only with exactly the sum of the fees of the own messages ---- *)
Theorem C06_generated_bcn_fee_exact : forall now wall rs t,
  0 <= rp_fee_register (r_params rs) < two63 /\ 0 <= rp_fee_record (r_params rs) < two63 /\
  0 <= rp_fee_purchase (r_params rs) < two63 ->
  0 < rp_fee_purchase (r_params rs) ->
  (forall o id n, In (MBcn (RPurchase o id n)) (tx_msgs t) -> 0 <= n < two64) ->
  go_checkBeaconFees (mk_rworld now wall rs) (gotx_of t) = Ok tt ->
  fee_amount_of (tx_fee t) (rp_denom (r_params rs)) = expected_fee pick_bcn rs t /\
  existsb (fun c => fst c =? rp_denom (r_params rs)) (tx_fee t) = true /\
  existsb (fun r => match r with RPurchase _ _ n => two63 <=? n | _ => false end) (own_msgs pick_bcn t) = false.
Proof. exact gen_bcn_checkFees_exact. Qed.
Print Assumptions C06_generated_bcn_fee_exact.

Theorem C06_generated_bcn_fee_exact_closed_form : forall now wall rs t,
  0 <= rp_fee_register (r_params rs) < two63 /\ 0 <= rp_fee_record (r_params rs) < two63 /\
  0 <= rp_fee_purchase (r_params rs) < two63 ->
  0 < rp_fee_purchase (r_params rs) ->
  (forall o id n, In (MBcn (RPurchase o id n)) (tx_msgs t) -> 0 <= n < two64) ->
  go_checkBeaconFees (mk_rworld now wall rs) (gotx_of t) = Ok tt ->
  fee_amount_of (tx_fee t) (rp_denom (r_params rs)) =
    rp_fee_register (r_params rs) * count_reg pick_bcn (tx_msgs t) +
    rp_fee_record (r_params rs) * count_rec pick_bcn (tx_msgs t) +
    rp_fee_purchase (r_params rs) * total_slots pick_bcn (tx_msgs t).
Proof. exact gen_bcn_checkFees_exact_closed. Qed.
Print Assumptions C06_generated_bcn_fee_exact_closed_form.

(* ---- examples: fees 1000 / 1 / 5 nund (register / record / per slot) ---- *)

(* a registration and two records cost 1002: accepted with exactly that, one less 51, one more 52, no nund 50; a coin
   of another denomination alongside changes nothing; each time the model says the same *)
Example C06_generated_bcn_exact_fee_ex :
  let rs := x_state (x_params 1000 1 5) in
  let w := mk_rworld 0 0 rs in
  let ms := [MBcn (RRegister 1 "m" "n" "" ""); MBcn (RRecord 1 1 1 ["h"%string]); MBcn (RRecord 1 1 2 ["h"%string])] in
  go_CheckIsBeaconTx (gotx_of (x_tx ms [(NUND, 1002)])) = Ok true /\
  go_checkBeaconFees w (gotx_of (x_tx ms [(NUND, 1002)])) = Ok tt /\
  check_fees pick_bcn rs (x_tx ms [(NUND, 1002)]) = Ok tt /\
  go_checkBeaconFees w (gotx_of (x_tx ms [(NUND, 1001)])) = Err 51 /\
  check_fees pick_bcn rs (x_tx ms [(NUND, 1001)]) = Err 51 /\
  go_checkBeaconFees w (gotx_of (x_tx ms [(NUND, 1003)])) = Err 52 /\
  check_fees pick_bcn rs (x_tx ms [(NUND, 1003)]) = Err 52 /\
  go_checkBeaconFees w (gotx_of (x_tx ms [(7, 1002)])) = Err 50 /\
  check_fees pick_bcn rs (x_tx ms [(7, 1002)]) = Err 50 /\
  go_checkBeaconFees w (gotx_of (x_tx ms [(7, 1); (NUND, 1002)])) = Ok tt /\
  check_fees pick_bcn rs (x_tx ms [(7, 1); (NUND, 1002)]) = Ok tt /\
  go_checkBeaconFees w (gotx_of (x_tx ms [(NUND, 1001); (7, 1)])) = Err 51 /\
  check_fees pick_bcn rs (x_tx ms [(NUND, 1001); (7, 1)]) = Err 51.
Proof. vm_compute. repeat split. Qed.

(* a bank send and a WRKChain registration in between cost nothing here; a purchase of 3 slots costs 15 *)
Example C06_generated_bcn_mixed_ex :
  let rs := x_state (x_params 1000 1 5) in
  let w := mk_rworld 0 0 rs in
  let ms := [MSend 1 2 [(NUND, 5)]; MBcn (RRegister 1 "m" "n" "" ""); MWrk (RRegister 1 "m" "n" "g" "t");
             MBcn (RPurchase 1 1 3); MSend 1 2 [(NUND, 7)]] in
  go_CheckIsBeaconTx (gotx_of (x_tx ms [(NUND, 1015)])) = Ok true /\
  has_bcn (x_tx ms [(NUND, 1015)]) = true /\
  go_checkBeaconFees w (gotx_of (x_tx ms [(NUND, 1015)])) = Ok tt /\
  check_fees pick_bcn rs (x_tx ms [(NUND, 1015)]) = Ok tt /\
  go_checkBeaconFees w (gotx_of (x_tx ms [(NUND, 1014)])) = Err 51 /\
  check_fees pick_bcn rs (x_tx ms [(NUND, 1014)]) = Err 51 /\
  go_checkBeaconFees w (gotx_of (x_tx ms [(NUND, 1016)])) = Err 52 /\
  check_fees pick_bcn rs (x_tx ms [(NUND, 1016)]) = Err 52.
Proof. vm_compute. repeat split. Qed.

(* a transaction without a BEACON message is not looked at (a nested one is not seen either: C06_refuted_nested) *)
Example C06_generated_bcn_not_registry_ex :
  go_CheckIsBeaconTx (gotx_of (x_tx [MSend 1 2 [(NUND, 5)]; MWrk (RRegister 1 "m" "n" "g" "t")] [(NUND, 1)])) = Ok false /\
  go_CheckIsBeaconTx (gotx_of (x_tx [MExec 1 [MBcn (RRegister 1 "m" "n" "" "")]] [])) = Ok false /\
  go_CheckIsBeaconTx (gotx_of (x_tx [] [])) = Ok false.
Proof. vm_compute. repeat split. Qed.

(* 2^63 slots: both panic, with their own codes; 2^63 - 1 slots are computed *)
Example C06_generated_bcn_huge_purchase_ex :
  let rs := x_state (x_params 1000 1 5) in
  let w := mk_rworld 0 0 rs in
  go_checkBeaconFees w (gotx_of (x_tx [MBcn (RPurchase 1 1 two63)] [(NUND, 5)])) = Panic 4 /\
  check_fees pick_bcn rs (x_tx [MBcn (RPurchase 1 1 two63)] [(NUND, 5)]) = Panic 55 /\
  go_checkBeaconFees w (gotx_of (x_tx [MBcn (RRegister 1 "m" "n" "" ""); MBcn (RPurchase 1 1 (two64 - 1))] [(NUND, 5)])) = Panic 4 /\
  check_fees pick_bcn rs (x_tx [MBcn (RRegister 1 "m" "n" "" ""); MBcn (RPurchase 1 1 (two64 - 1))] [(NUND, 5)]) = Panic 55 /\
  go_checkBeaconFees w (gotx_of (x_tx [MBcn (RPurchase 1 1 (two63 - 1))] [(NUND, 5 * (two63 - 1))])) = Ok tt /\
  check_fees pick_bcn rs (x_tx [MBcn (RPurchase 1 1 (two63 - 1))] [(NUND, 5 * (two63 - 1))]) = Ok tt.
Proof. vm_compute. repeat split. Qed.

(* FINDING: a registration fee of 2^63 passes Params.Validate (reg_params_valid), but int64(fee) is negative and the fee
   getter panics: the generated check panics on every registration, while the model accepts the one that pays 2^63 *)
Example C06_generated_bcn_fee_param_refuted :
  let p := x_params two63 1 5 in
  let t := x_tx [MBcn (RRegister 1 "m" "n" "" "")] [(NUND, two63)] in
  reg_params_valid p = true /\
  go_checkBeaconFees (mk_rworld 0 0 (x_state p)) (gotx_of t) = Panic GO_PANIC_NEGCOIN /\
  check_fees pick_bcn (x_state p) t = Ok tt.
Proof. exact gen_bcn_checkFees_fee_param_refuted. Qed.
Print Assumptions C06_generated_bcn_fee_param_refuted.

(* the premise 0 < per-slot fee of the 2^63 statement: with a zero fee (refused by Params.Validate) Go does not panic *)
Example C06_generated_bcn_huge_zero_fee_refuted :
  let p := x_params 1000 1 0 in
  let t := x_tx [MBcn (RPurchase 1 1 two63)] [(NUND, 0)] in
  reg_params_valid p = false /\
  go_checkBeaconFees (mk_rworld 0 0 (x_state p)) (gotx_of t) = Ok tt /\
  check_fees pick_bcn (x_state p) t = Panic PANIC_NEGFEE.
Proof. exact gen_bcn_checkFees_huge_zero_fee_refuted. Qed.
Print Assumptions C06_generated_bcn_huge_zero_fee_refuted.
