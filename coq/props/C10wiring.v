(* Source-derived obligations of C10wiring: facts read from /repo by the translator on every run (coq/Generated.v), re-checked here. *)
From Coq Require Import List String ZArith.
From MC Require Import lib.Reach Generated proofs.Wiring.
Import ListNotations.
Open Scope string_scope.

Theorem C10_blocked_module_accounts : ltac:(let T := type of wiring_blocked in exact T).
Proof. exact wiring_blocked. Qed.
Print Assumptions C10_blocked_module_accounts.

Theorem C10_stream_has_no_perms : ltac:(let T := type of wiring_stream_has_no_perms in exact T).
Proof. exact wiring_stream_has_no_perms. Qed.
Print Assumptions C10_stream_has_no_perms.
