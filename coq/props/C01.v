(* C01 (crash / replay and determinism part): a node that stops at any point inside or between
   blocks and restarts from its database resumes at the last committed state and, replaying the
   interrupted block, reaches the same state (and the same per-transaction results) as a node that
   never stopped.  The committed state after a block is a function of the committed state before it
   and of the block.  The only effects reachable from the consensus entry points that could make
   two nodes differ (map iteration, wall clock) are audited: the map iterations compute an
   order-independent result, the wall-clock reads never reach the state.
   block_ops, block_body, node_trace : proofs/AppCrashProofs.v. *)
From MC Require Import lib.Prelude lib.AMap model.Bank model.Stream model.StreamSpec model.Registry
  model.Enterprise model.EnterpriseSpec model.App model.AppSpec.
From MC Require Import proofs.AppInv proofs.AppCrashProofs.
From MC Require lib.Reach Generated proofs.Wiring.
From Coq Require Import Permutation.
Local Open Scope Z_scope.

(* a block: BeginBlock, the transactions, EndBlock, Commit *)
Example C01_block_shape : forall now txs props,
  block_ops now txs props = OpBegin now :: map OpDeliver txs ++ [OpEnd props; OpCommit] /\
  block_body now txs props = OpBegin now :: map OpDeliver txs ++ [OpEnd props].
Proof. intros; split; reflexivity. Qed.

(* ---- crash anywhere before the Commit of a block, restart, replay the block ---- *)
Theorem C01_crash_replay : forall n now txs props pre suf n1,
  n_deliver n = None ->
  pre ++ suf = block_body now txs props ->
  node_run n pre = Some n1 ->
  exists n2,
    node_step n1 OpCrash = Some (n2, None) /\
    n_committed n2 = n_committed n /\ n_deliver n2 = None /\ n_check n2 = n_committed n /\
    option_map n_committed (node_run n2 (block_ops now txs props)) =
    option_map n_committed (node_run n (block_ops now txs props)) /\
    option_map n_deliver (node_run n2 (block_ops now txs props)) =
    option_map n_deliver (node_run n (block_ops now txs props)) /\
    option_map snd (node_trace n2 (block_ops now txs props)) =
    option_map snd (node_trace n (block_ops now txs props)).
Proof. exact crash_replay. Qed.
Print Assumptions C01_crash_replay.

Theorem C01_crash_replay_history : forall n now txs props pre suf,
  n_deliver n = None -> pre ++ suf = block_body now txs props ->
  node_run n pre <> None ->
  option_map n_committed (node_run n (pre ++ OpCrash :: block_ops now txs props)) =
  option_map n_committed (node_run n (block_ops now txs props)).
Proof. exact crash_replay_history. Qed.
Print Assumptions C01_crash_replay_history.

(* ---- crashing right after Commit loses nothing ---- *)
Theorem C01_crash_after_commit : forall n n1 n2,
  node_step n OpCommit = Some (n1, None) -> node_step n1 OpCrash = Some (n2, None) ->
  n_committed n2 = n_committed n1 /\ n_deliver n2 = None /\ n_check n2 = n_committed n1 /\
  n2 = n1 /\ n_deliver n = Some (n_committed n1).
Proof. exact crash_after_commit. Qed.
Print Assumptions C01_crash_after_commit.

Theorem C01_crash_between_blocks : forall n n2,
  n_deliver n = None -> node_step n OpCrash = Some (n2, None) ->
  n_committed n2 = n_committed n /\ n_deliver n2 = n_deliver n.
Proof. exact crash_between_blocks. Qed.
Print Assumptions C01_crash_between_blocks.

(* ---- the committed state and every result after a block depend only on (committed state, block) ---- *)
Theorem C01_results_function_of_inputs : forall n n' now txs props,
  n_committed n = n_committed n' -> n_deliver n = None -> n_deliver n' = None ->
  option_map n_committed (node_run n (block_ops now txs props)) =
  option_map n_committed (node_run n' (block_ops now txs props)) /\
  option_map n_deliver (node_run n (block_ops now txs props)) =
  option_map n_deliver (node_run n' (block_ops now txs props)) /\
  option_map snd (node_trace n (block_ops now txs props)) =
  option_map snd (node_trace n' (block_ops now txs props)).
Proof. exact results_function_of_inputs. Qed.
Print Assumptions C01_results_function_of_inputs.

(* node_trace is node_run with the step results kept *)
Theorem C01_trace_is_run : forall h n, option_map fst (node_trace n h) = node_run n h.
Proof. exact node_trace_run. Qed.
Print Assumptions C01_trace_is_run.

(* ---- source-derived: the nondeterministic effects reachable from the consensus entry points ---- *)
Theorem C01_no_nondeterminism_reachable_audited :
  Wiring.effectful_reachable =
  [("x/beacon/ante:.checkBeaconMaxSlots", ["MapRange"]);
   ("x/beacon/keeper:msgServer.RecordBeaconTimestamp", ["WallClock"]);
   ("x/enterprise:.BeginBlocker", ["WallClock"]);
   ("x/wrkchain/ante:.checkWrkChainMaxSlots", ["MapRange"])]%string.
Proof. exact Wiring.wiring_effects_audited. Qed.
Print Assumptions C01_no_nondeterminism_reachable_audited.

(* ---- source-derived: no state outside the committed store ---- *)
Theorem C01_no_process_local_state :
  filter Wiring.holds_process_state Generated.process_state = [] /\ Nat.leb 40 (List.length Generated.process_state) = true.
Proof. exact Wiring.wiring_no_process_state. Qed.
Print Assumptions C01_no_process_local_state.

Theorem C01_no_nondeterminism_reachable_others :
  forall n es, In (n, es) Generated.effects -> existsb Wiring.bad_effect es = true ->
    Reach.mem n (map fst Wiring.effectful_reachable) = false ->
    forall r, In r Generated.roots_consensus -> ~ Reach.path Generated.callgraph r n.
Proof. exact Wiring.wiring_other_effects_unreachable. Qed.
Print Assumptions C01_no_nondeterminism_reachable_others.

Theorem C01_no_nondeterminism_reachable_wallclock :
  (Wiring.assoc "x/enterprise:.BeginBlocker" Generated.wallclock_flows_to = Some ["telemetry.ModuleMeasureSince"]
   /\ Wiring.assoc "x/beacon/keeper:msgServer.RecordBeaconTimestamp" Generated.wallclock_flows_to = Some ["assigned:subtime"]
   /\ Generated.validate_basic_rejects_zero_submit_time = ["x/beacon/types"])%string.
Proof. exact Wiring.wiring_wallclock_flows. Qed.
Print Assumptions C01_no_nondeterminism_reachable_wallclock.

(* ---- audited site 1 and 4: the max-slots checks range over a Go map; the outcome is the same for
        every iteration order of the table ---- *)
Theorem C01_maxslots_perm_invariant : forall tbl tbl' : list (Z * (Z * Z)),
  Permutation tbl tbl' ->
  existsb (fun kv => fst (snd kv) <? snd (snd kv)) tbl = existsb (fun kv => fst (snd kv) <? snd (snd kv)) tbl'.
Proof. exact maxslots_perm_invariant. Qed.
Print Assumptions C01_maxslots_perm_invariant.

Theorem C01_check_max_slots_is_that_test : forall pick rs t,
  check_max_slots pick rs t =
  if existsb (fun kv => fst (snd kv) <? snd (snd kv)) (max_slots_table pick rs t)
  then Err ERR_FEE_MAX_STORAGE else Ok tt.
Proof. exact check_max_slots_is_existsb. Qed.
Print Assumptions C01_check_max_slots_is_that_test.

(* ---- audited site 2: the wall-clock default for SubmitTime = 0 is unreachable: ValidateBasic rejects a
        zero submit time, at any nesting depth (authz.MsgExec validates its inner messages) ---- *)
Theorem C01_beacon_wallclock_unreachable : forall f m owner id key hashes,
  validate_basic f m = Ok tt -> submsg (MBcn (RRecord owner id key hashes)) m -> key <> 0.
Proof. exact beacon_wallclock_unreachable. Qed.
Print Assumptions C01_beacon_wallclock_unreachable.

Theorem C01_beacon_wallclock_unreachable_tx : forall t m owner id key hashes,
  validate_all t = Ok tt -> In m (tx_msgs t) -> submsg (MBcn (RRecord owner id key hashes)) m -> key <> 0.
Proof. exact beacon_wallclock_unreachable_tx. Qed.
Print Assumptions C01_beacon_wallclock_unreachable_tx.

(* ---- examples (scenario: proofs/AppInv.v) ---- *)
(* block 3 of ex_hist (ops 8..13 without the CheckTx): crash after the first transaction, replay *)
Definition ex_block3 := block_ops (ex_t 15) [ex_tx_register; ex_tx_stream] [[MUpdParams GOV_MACC (UStr 20000000000000000)]].

Example C01_ex_crash_mid_block :
  exists n, node_run (node_init ex_g) (firstn 8 ex_hist) = Some n /\ n_deliver n = None /\
    option_map n_committed (node_run n ([OpBegin (ex_t 15); OpDeliver ex_tx_register] ++ OpCrash :: ex_block3)) =
    option_map n_committed (node_run n ex_block3) /\
    node_run n ex_block3 <> None /\
    option_map snd (node_trace n ex_block3) = Some [None; Some TxOk; Some TxOk; None; None].
Proof.
  eexists. split; [vm_compute; reflexivity|]. vm_compute. repeat split; try reflexivity. discriminate.
Qed.

(* a nested beacon record with submit time 0 is rejected by ValidateBasic *)
Example C01_ex_zero_submit_time_rejected :
  validate_basic 3 (MExec 1 [MBcn (RRecord 1 1 0 ["h"%string])]) = Err ERR_REG /\
  validate_basic 3 (MExec 1 [MBcn (RRecord 1 1 1700000000 ["h"%string])]) = Ok tt /\
  submsg (MBcn (RRecord 1 1 0 ["h"%string])) (MExec 1 [MBcn (RRecord 1 1 0 ["h"%string])]).
Proof.
  split; [reflexivity|]. split; [reflexivity|].
  eapply sub_exec; [left; reflexivity | apply sub_here].
Qed.

Example C01_ex_maxslots_order :
  existsb (fun kv : Z * (Z * Z) => fst (snd kv) <? snd (snd kv)) [(1, (10, 5)); (2, (3, 4))] =
  existsb (fun kv : Z * (Z * Z) => fst (snd kv) <? snd (snd kv)) [(2, (3, 4)); (1, (10, 5))].
Proof. reflexivity. Qed.
