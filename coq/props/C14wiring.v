(* Source-derived obligations of C14wiring: facts read from /repo by the translator on every run (coq/Generated.v), re-checked here. *)
From Coq Require Import List String ZArith.
From MC Require Import lib.Reach Generated proofs.Wiring.
Import ListNotations.
Open Scope string_scope.

Theorem C14_ante_order : ltac:(let T := type of wiring_ante_order in exact T).
Proof. exact wiring_ante_order. Qed.
Print Assumptions C14_ante_order.
