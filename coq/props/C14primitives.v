(* C14: the hand-written descriptions of the primitives under the translated code were written against exactly
   these function bodies of /repo (digests re-derived from the source on every run). *)
From Coq Require Import String List.
From MC Require GeneratedStreamKeeper GeneratedWrkchainKeeper GeneratedBeaconKeeper GeneratedEnterpriseKeeper.
From MC Require Import proofs.PrimitiveBodies.
Import ListNotations.
Local Open Scope string_scope.

Theorem C14_enterprise_primitive_bodies_as_reviewed :
  GeneratedEnterpriseKeeper.enterprise_primitive_bodies =
  [("AccountHasLockedUnd", "64d0e893206994f9");
   ("AccountHasSpentEFUND", "38af83a6aa385f05");
   ("AddAddressToWhitelist", "0f9e2164fe9ad59d");
   ("AddPoToAcceptedQueue", "2e1229e6e3d8f50d");
   ("AddPoToRaisedQueue", "704a28d011ce825f");
   ("AddressIsWhitelisted", "6af5d71b51cf0a57");
   ("GetAllAcceptedPurchaseOrders", "fefd74c0caa3859f");
   ("GetAllLockedUndAccountsIterator", "7bd926dac70f8046");
   ("GetAllLockedUnds", "d7d6767c7fa3c58a");
   ("GetAllPurchaseOrders", "dfa0d41f494fae46");
   ("GetAllRaisedPurchaseOrders", "f103eef29b92e5fc");
   ("GetAllSpentEFUNDAccountsIterator", "545a54cbf5bb1a06");
   ("GetAllSpentEFUNDs", "c1bdd1b507f688ca");
   ("GetAllWhitelistedAddresses", "e23b2032d34c401f");
   ("GetEnterpriseAccount", "16bfc58a83cecb0d");
   ("GetHighestPurchaseOrderID", "263edb520a03d331");
   ("GetLockedUndForAccount", "c6a8831c7dc50c82");
   ("GetParamDenom", "c4773798fc1cc0de");
   ("GetParamEntSigners", "a2b99b5274590c69");
   ("GetParamEntSignersAsAddressArray", "3208da7cb08d6b04");
   ("GetParams", "e5651d249a1817ba");
   ("GetPurchaseOrder", "ef26aefe9ded7121");
   ("GetSpentEFUNDForAccount", "204c02383ae2ad5b");
   ("GetTotalLockedUnd", "b7cbfb95e7b97b20");
   ("GetTotalSpentEFUND", "59a5d0862c8b9828");
   ("IterateAcceptedQueue", "bfc5d72f75cfac5e");
   ("IteratePurchaseOrders", "92b4d9e631e95c2d");
   ("IterateRaisedQueue", "11e1bb71a8ca70b3");
   ("IterateWhitelist", "2608734ac0a624f0");
   ("PurchaseOrderExists", "b4e5f86e7525f80e");
   ("PurchaseOrderIsInAcceptedQueue", "d55180f1f7e0c136");
   ("PurchaseOrderIsInRaisedQueue", "ce00ab1c1c2874c2");
   ("RemoveAddressFromWhitelist", "2edb9fb1fdf51d6c");
   ("RemovePurchaseOrderFromAcceptedQueue", "e072676b98e9c8c0");
   ("RemovePurchaseOrderFromRaisedQueue", "9253b00f5d058afe");
   ("SetHighestPurchaseOrderID", "547ef3f473e6ca96");
   ("SetLockedUndForAccount", "64627c2078570493");
   ("SetParams", "73bc5d17b364b792");
   ("SetPurchaseOrder", "352a324193b03372");
   ("SetSpentEFUNDForAccount", "039082f7f61b8ef9");
   ("SetTotalLockedUnd", "89a79ceecbf56b03");
   ("SetTotalSpentEFUND", "d32ea1571e7da03a")].
Proof. exact enterprise_primitive_bodies_as_reviewed. Qed.
Print Assumptions C14_enterprise_primitive_bodies_as_reviewed.

Theorem C14_wrkchain_primitive_bodies_as_reviewed :
  GeneratedWrkchainKeeper.wrkchain_primitive_bodies =
  [("GetAllWrkChainBlockHashesForGenesisExport", "6cfba5ffedc45709");
   ("GetAllWrkChains", "f9a2908714127224");
   ("GetHighestWrkChainID", "a9fe330044e47ebc");
   ("GetLastWrkChainHeightInState", "6655857512cc6447");
   ("GetParamDefaultStorageLimit", "40d21abf76583945");
   ("GetParamDenom", "c4773798fc1cc0de");
   ("GetParamMaxStorageLimit", "da6fbdd300103325");
   ("GetParamPurchaseStorageFee", "cbdc5c47a588db40");
   ("GetParamRecordFee", "43ac96b86ee8610f");
   ("GetParamRegistrationFee", "0b5061c24b8c25b5");
   ("GetParams", "e5651d249a1817ba");
   ("GetPurchaseStorageFeeAsCoin", "4c3fbdc71a568311");
   ("GetRecordFeeAsCoin", "12381be07e186e84");
   ("GetRegistrationFeeAsCoin", "077a30b7bd90d777");
   ("GetWrkChain", "7f5a4824f26f81b9");
   ("GetWrkChainBlock", "7b2bfc951eb25e87");
   ("GetWrkChainOwner", "9b7eae50aad15f7f");
   ("GetWrkChainStorageLimit", "22a7132a7e1bf2d6");
   ("GetZeroFeeAsCoin", "490a8edf1c700cf0");
   ("HasWrkChainStorageLimit", "39ace42df9e9424d");
   ("IsAuthorisedToRecord", "06eec4e3bf3d493d");
   ("IsWrkChainBlockRecorded", "a2a491560cc11770");
   ("IsWrkChainRegistered", "54488308a32989ee");
   ("IterateWrkChainBlockHashesPaginated", "5807a39cd1168429");
   ("IterateWrkChainBlockHashesReverse", "ac9afe43f512ef83");
   ("IterateWrkChains", "16fd2351c8022345");
   ("SetHighestWrkChainID", "78a91d12f47997c9");
   ("SetParams", "73bc5d17b364b792");
   ("SetWrkChain", "88262d6a48523e66");
   ("SetWrkChainBlock", "c16def8ea40aaa1c");
   ("SetWrkChainStorageLimit", "7d2f76c138f299c5");
   ("deleteWrkChainHash", "12527d58405e0b82")].
Proof. exact wrkchain_primitive_bodies_as_reviewed. Qed.
Print Assumptions C14_wrkchain_primitive_bodies_as_reviewed.

Theorem C14_beacon_primitive_bodies_as_reviewed :
  GeneratedBeaconKeeper.beacon_primitive_bodies =
  [("GetAllBeaconTimestampsForExport", "297493c808f6f283");
   ("GetAllBeacons", "017c5698a1c02ec9");
   ("GetBeacon", "ffc24cb9b2c2eb6f");
   ("GetBeaconOwner", "ad9f6a16014219f9");
   ("GetBeaconStorageLimit", "ac78ecddd75c9fd7");
   ("GetBeaconTimestampByID", "929f1fe7d9fc7cb2");
   ("GetHighestBeaconID", "5e0b9a7111190145");
   ("GetParamDefaultStorageLimit", "40d21abf76583945");
   ("GetParamDenom", "c4773798fc1cc0de");
   ("GetParamMaxStorageLimit", "da6fbdd300103325");
   ("GetParamPurchaseStorageFee", "cbdc5c47a588db40");
   ("GetParamRecordFee", "43ac96b86ee8610f");
   ("GetParamRegistrationFee", "0b5061c24b8c25b5");
   ("GetParams", "e5651d249a1817ba");
   ("GetPurchaseStorageFeeAsCoin", "4c3fbdc71a568311");
   ("GetRecordFeeAsCoin", "12381be07e186e84");
   ("GetRegistrationFeeAsCoin", "077a30b7bd90d777");
   ("GetZeroFeeAsCoin", "490a8edf1c700cf0");
   ("HasBeaconStorageLimit", "a5d7bc6a8f1a79d7");
   ("IsAuthorisedToRecord", "102ddfd584d6e4de");
   ("IsBeaconRegistered", "db23b52aa0a27acd");
   ("IsBeaconTimestampRecordedByID", "30ce84005b5ec802");
   ("IterateBeaconTimestampsReverse", "82f5dc7e9390a3bb");
   ("IterateBeacons", "313fa38d4af6f8a3");
   ("SetBeacon", "a1ac82aa6dc27698");
   ("SetBeaconStorageLimit", "88c64e4daa881e9d");
   ("SetBeaconTimestamp", "9ac91eb3ad64e31d");
   ("SetHighestBeaconID", "969c508ae2461d5e");
   ("SetParams", "73bc5d17b364b792");
   ("deleteBeaconTimestamp", "21ea434937146020")].
Proof. exact beacon_primitive_bodies_as_reviewed. Qed.
Print Assumptions C14_beacon_primitive_bodies_as_reviewed.

Theorem C14_stream_primitive_bodies_as_reviewed :
  GeneratedStreamKeeper.stream_primitive_bodies =
  [("DeleteStream", "a26f5f28952d4f78");
   ("GetParams", "e5651d249a1817ba");
   ("GetStream", "e42b50c02f88d2b2");
   ("GetStreamModuleAccount", "1e46ade0d603f10c");
   ("IsStream", "c1bd12c927b786ea");
   ("IterateAllStreams", "ef38f709a1ff4913");
   ("SetParams", "73bc5d17b364b792");
   ("SetStream", "b36316b842b0ebd9")].
Proof. exact stream_primitive_bodies_as_reviewed. Qed.
Print Assumptions C14_stream_primitive_bodies_as_reviewed.
