(* C06: aliasing obligations (proofs/Aliasing.v; DESIGN 0.5 "value semantics of the translation").
   the fee decorators see the messages of the transaction as they are: no append onto a sub-slice of the message list, no assignment to a message field *)
From Coq Require Import String List Bool.
From MC Require Import Generated proofs.Aliasing.
Import ListNotations.
Local Open Scope string_scope.

Theorem C06_no_append_onto_subslice :
  sites_of ": append-onto-subslice " = [].
Proof. exact no_append_onto_subslice. Qed.
Print Assumptions C06_no_append_onto_subslice.

Theorem C06_ante_field_writes_only_own_tally :
  sites_of ": field-write " =
  ["x/beacon/ante/ante.go: checkBeaconMaxSlots: field-write pd.want";
   "x/wrkchain/ante/ante.go: checkWrkChainMaxSlots: field-write pd.want"].
Proof. exact ante_field_writes_only_own_tally. Qed.
Print Assumptions C06_ante_field_writes_only_own_tally.

