(* C10, link to the source (genesis): a successful run of the GENERATED InitGenesis of x/stream
   (coq/GeneratedStreamKeeper.v: go_InitGenesis, from /repo/x/stream/keeper/genesis.go) on a fresh store yields a state
   whose escrow is backed: the module account holds exactly the sum of the stored deposits, in every denomination
   ([escrow_backed] of model/StreamSpec.v, the property C10 is about) - the chain starts inside the invariant.
   Derived from [gen_str_InitGenesis_ok] (a successful generated import is the model's import, same store, same bank) and
   the two tests in the definition of [import_str] (model/Genesis.v).  Proofs: proofs/GeneratedStreamGenesisEq.v.
   Hypotheses: valid parameters, one bank row per (account, denomination), no negative row of the module account, no two
   document entries under one (receiver, sender) key.  The last one is necessary
   (C10_generated_str_import_dup_keys_unbacked): on a document with a repeated key the Go code compares the balance with
   the sum over the document although SetStream has overwritten the earlier entry. *)
From MC Require Import lib.Prelude lib.AMap lib.GoSdk GeneratedFns GeneratedStreamTypes model.Bank model.Stream model.StreamSpec
  model.Genesis model.StreamKeeperPrims GeneratedStreamKeeper model.StreamGenesisGenSpec.
From MC Require Import proofs.BankProofs proofs.GeneratedStreamGenesisEq.
Local Open Scope Z_scope.

Theorem C10_generated_str_import_escrow_backed : forall now b vf0 g w',
  str_params_valid (Params_ValidatorFee (GenesisState_Params g)) = true ->
  bank_wf b -> macc_nonneg b -> NoDup (str_doc_keys g) ->
  go_InitGenesis (fresh_kworld now b vf0) g = Ok (w', tt) ->
  escrow_backed (kw_bank w') (kw_str w').
Proof. exact gen_str_InitGenesis_escrow_backed. Qed.
Print Assumptions C10_generated_str_import_escrow_backed.

(* the model's import alone: an accepted document leaves the escrow backed *)
Theorem C10_import_str_escrow_backed : forall b g s,
  NoDup (str_doc_keys g) -> import_str b (gen_str_of_go g) = Some s -> escrow_backed b s.
Proof. exact import_str_escrow_backed. Qed.
Print Assumptions C10_import_str_escrow_backed.

(* ---- examples ---- *)
(* three streams in two denominations over a module account holding exactly the deposits *)
Example C10_generated_str_import_escrow_backed_ex :
  match go_InitGenesis (fresh_kworld 99 (exs_bank 530 70) 7) exs_doc with
  | Ok (w', _) =>
      balance (kw_bank w') STREAM_MACC 0 = 530 /\ total_deposits (kw_str w') 0 = 530 /\
      balance (kw_bank w') STREAM_MACC 1 = 70 /\ total_deposits (kw_str w') 1 = 70 /\
      balance (kw_bank w') STREAM_MACC 2 = 0 /\ total_deposits (kw_str w') 2 = 0
  | _ => False
  end.
Proof. vm_compute. repeat split; reflexivity. Qed.

(* a repeated key: the generated InitGenesis succeeds with an escrow of 8 over a single stored deposit of 3 *)
Example C10_generated_str_import_dup_keys_unbacked :
  let g := mk_go_GenesisState exs_params [exs_entry 10 11 0 5; exs_entry 10 11 0 3] in
  let b := {| bal := [((STREAM_MACC, 0), 8)]; supply := [(0, 8)] |} in
  str_params_valid (Params_ValidatorFee (GenesisState_Params g)) = true /\
  NoDup (akeys (bal b)) /\ macc_nonneg b /\ Forall stream_storable (GenesisState_Streams g) /\
  import_str b (gen_str_of_go g) = None /\
  match go_InitGenesis (fresh_kworld 0 b 7) g with
  | Ok (w', _) => akeys (s_streams (kw_str w')) = [(10, 11)] /\ total_deposits (kw_str w') 0 = 3 /\
                  balance (kw_bank w') STREAM_MACC 0 = 8 /\ ~ escrow_backed (kw_bank w') (kw_str w')
  | _ => False
  end.
Proof. exact gen_str_InitGenesis_dup_keys_refuted. Qed.
