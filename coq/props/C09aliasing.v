(* C09: aliasing obligations (proofs/Aliasing.v; DESIGN 0.5 "value semantics of the translation").
   what is stored is what was signed: no ValidateBasic / GetSigners / GetSignBytes / Validate method of a message or parameter type assigns to a field *)
From Coq Require Import String List Bool.
From MC Require Import Generated proofs.Aliasing.
Import ListNotations.
Local Open Scope string_scope.

Theorem C09_msg_methods_write_no_field :
  filter (str_has "/types/") (sites_of ": field-write ") = [].
Proof. exact msg_methods_write_no_field. Qed.
Print Assumptions C09_msg_methods_write_no_field.

