(* Source-derived obligations of C20wiring: facts read from /repo by the translator on every run (coq/Generated.v), re-checked here. *)
From Coq Require Import List String ZArith.
From MC Require Import lib.Reach Generated proofs.Wiring.
Import ListNotations.
Open Scope string_scope.

Theorem C20_queries_never_write : ltac:(let T := type of wiring_queries_never_write in exact T).
Proof. exact wiring_queries_never_write. Qed.
Print Assumptions C20_queries_never_write.

Theorem C20_query_reach_closed : ltac:(let T := type of wiring_reach_query_closed in exact T).
Proof. exact wiring_reach_query_closed. Qed.
Print Assumptions C20_query_reach_closed.

Theorem C20_query_roots_nonempty : ltac:(let T := type of wiring_query_roots_nonempty in exact T).
Proof. exact wiring_query_roots_nonempty. Qed.
Print Assumptions C20_query_roots_nonempty.
