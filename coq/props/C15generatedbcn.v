(* C15, link to the source: InitGenesis / ExportGenesis of /repo/x/beacon/genesis.go as generated on every run
   (coq/GeneratedBeaconKeeper.v: go_InitGenesis, go_ExportGenesis) against the model of genesis export / import
   (model/Genesis.v: export_reg, import_reg).  The generated document is read as the model's by [gen_of_go]
   (model/BeaconGenesisGenSpec.v).  (The x/wrkchain and x/beacon keepers define the same names: one file per module.)
   Proofs: proofs/GeneratedBeaconGenesisEq.v.

   Hypotheses:
     bcn_exportable s        every stored registration has an empty genesis hash and type (a BEACON has none: the Go
                             record cannot carry them; [bcn_no_genesis] of proofs/GeneratedBeaconEq.v, kept by every
                             message), and every stored record of it has rc_key = the key it is stored under and
                             carries exactly one hash string (the Go export writes the store key and one hash field);
                             [reg_inv] gives the key half, RecordBeaconTimestamp always stores one hash (bcn_one_hash).
                             All three are needed: C15_generated_bcn_export_needs_*.
     reg_params_valid ..     InitGenesis drops the error of SetParams; with invalid parameters the Go code keeps the
                             old parameters and goes on, the model refuses (C15_generated_bcn_invalid_params_ex).
   Not needed: registrations keyed by their id, duplicate-free ids in the document (the interleaved writes of the Go
   loop and the three separate folds of the model build the same three association lists on every document), a bound
   on the record counts (at most EXPORT_CAP = 20000 records are exported, far below 2^64). *)
From MC Require Import lib.Prelude lib.AMap lib.GoSdk GeneratedBeaconTypes model.Bank model.Registry model.RegistrySpec
  model.Genesis model.BeaconKeeperPrims GeneratedBeaconKeeper model.BeaconGenesisGenSpec.
From MC Require Import proofs.RegistryProofs proofs.GenesisLib proofs.GenesisProofs proofs.GeneratedBeaconGenesisEq.
From MC Require proofs.GeneratedBeaconEq.
Local Open Scope string_scope.
Local Open Scope Z_scope.

(* ---------- export ---------- *)
Theorem C15_generated_bcn_export_is_model : forall w,
  bcn_exportable (rw_reg w) ->
  exists g, go_ExportGenesis w = Ok g /\ gen_of_go g = export_reg (rw_reg w).
Proof. exact gen_bcn_ExportGenesis_eq. Qed.
Print Assumptions C15_generated_bcn_export_is_model.

Theorem C15_generated_bcn_export_is_model_reachable : forall w g0,
  reg_inv false (rw_reg w) g0 -> GeneratedBeaconEq.bcn_no_genesis (rw_reg w) -> bcn_one_hash (rw_reg w) ->
  exists g, go_ExportGenesis w = Ok g /\ gen_of_go g = export_reg (rw_reg w).
Proof. exact gen_bcn_ExportGenesis_eq_inv. Qed.
Print Assumptions C15_generated_bcn_export_is_model_reachable.

(* the document itself, on every world (never an error, never a panic) *)
Theorem C15_generated_bcn_export_document : forall w,
  go_ExportGenesis w =
    Ok (mk_go_GenesisState (params_to_go (r_params (rw_reg w))) (r_next (rw_reg w))
          (map (go_export_entry w) (reg_GetAllEntities w))).
Proof. exact gen_bcn_ExportGenesis_run. Qed.
Print Assumptions C15_generated_bcn_export_document.

(* ---------- import ---------- *)
Theorem C15_generated_bcn_import_is_model : forall now wall p0 g,
  reg_params_valid (params_of_go (GenesisState_Params g)) = true ->
  exists s', import_reg (gen_of_go g) = Some s' /\
             go_InitGenesis (fresh_world now wall p0) g = Ok (with_reg (fresh_world now wall p0) s', tt).
Proof. exact gen_bcn_InitGenesis_eq. Qed.
Print Assumptions C15_generated_bcn_import_is_model.

(* on every world and every document, valid or not: never an error, never a panic *)
Theorem C15_generated_bcn_import_run : forall w g,
  go_InitGenesis w g = Ok (with_reg w (import_onto (gen_of_go g) (rw_reg w)), tt).
Proof. exact gen_bcn_InitGenesis_run. Qed.
Print Assumptions C15_generated_bcn_import_run.

(* ---------- export, then import into a fresh store ---------- *)
Theorem C15_generated_bcn_roundtrip : forall w g0 now wall p0,
  reg_inv false (rw_reg w) g0 -> GeneratedBeaconEq.bcn_no_genesis (rw_reg w) -> bcn_one_hash (rw_reg w) ->
  exists d, go_ExportGenesis w = Ok d /\
            gen_of_go d = export_reg (rw_reg w) /\
            import_reg (gen_of_go d) = Some (reg_reimported (rw_reg w)) /\
            go_InitGenesis (fresh_world now wall p0) d =
              Ok (with_reg (fresh_world now wall p0) (reg_reimported (rw_reg w)), tt).
Proof. exact gen_bcn_export_import_roundtrip. Qed.
Print Assumptions C15_generated_bcn_roundtrip.

(* exporting the re-imported store gives the identical generated document *)
Theorem C15_generated_bcn_export_again : forall h s g now wall now' wall',
  reg_inv h s g ->
  go_ExportGenesis (mk_rworld now' wall' (reg_reimported s)) = go_ExportGenesis (mk_rworld now wall s).
Proof. exact gen_bcn_export_reimported. Qed.
Print Assumptions C15_generated_bcn_export_again.

(* ---------- examples ---------- *)
(* two registrations, the first with three records (timestamp ids 1, 2, 3) and a bought limit of 7, the second without
   records: export; import the document into a fresh store (other parameters, other clock); the store is the exported
   one; export again: the identical document; the document is the model's, the imported store the model's *)
Example C15_generated_bcn_roundtrip_ex :
  bcn_exportable (rw_reg exg_world) /\
  match go_ExportGenesis exg_world with
  | Ok d =>
      gen_of_go d = export_reg (rw_reg exg_world) /\
      List.length (GenesisState_RegisteredBeacons d) = 2%nat /\
      map (fun e => List.length (BeaconExport_Timestamps e)) (GenesisState_RegisteredBeacons d) = [3%nat; 0%nat] /\
      map BeaconExport_InStateLimit (GenesisState_RegisteredBeacons d) = [7; 5] /\
      match go_InitGenesis (fresh_world 99 98 exg_p0) d with
      | Ok (w', _) =>
          import_reg (gen_of_go d) = Some (rw_reg w') /\
          rw_reg w' = rw_reg exg_world /\ rw_now w' = 99 /\ rw_wall w' = 98 /\
          go_ExportGenesis w' = Ok d
      | _ => False
      end
  | _ => False
  end.
Proof. split; [exact exg_state_exportable|]. vm_compute. repeat split; reflexivity. Qed.

(* invalid parameters (a blank denomination): the generated InitGenesis keeps the old parameters and goes on, the model
   refuses the document *)
Example C15_generated_bcn_invalid_params_ex :
  let g := mk_go_GenesisState (params_to_go exg_bad_params) 4 [] in
  reg_params_valid (params_of_go (GenesisState_Params g)) = false /\
  import_reg (gen_of_go g) = None /\
  go_InitGenesis (fresh_world 0 0 exg_p0) g =
    Ok (with_reg (fresh_world 0 0 exg_p0)
          {| r_params := exg_p0; r_next := 4; r_regs := []; r_limits := []; r_recs := [] |}, tt).
Proof. exact gen_bcn_InitGenesis_invalid_params_differ. Qed.

(* the hypotheses of the export theorem cannot be dropped: a record with two hashes, a record whose key field differs
   from its store key, a registration with a genesis hash *)
Example C15_generated_bcn_export_needs_one_hash :
  exists g, go_ExportGenesis (mk_rworld 0 0 exg_state_2) = Ok g /\ gen_of_go g <> export_reg exg_state_2.
Proof. exact gen_bcn_ExportGenesis_needs_one_hash. Qed.
Example C15_generated_bcn_export_needs_rc_key :
  exists g, go_ExportGenesis (mk_rworld 0 0 exg_state_k) = Ok g /\ gen_of_go g <> export_reg exg_state_k.
Proof. exact gen_bcn_ExportGenesis_needs_rc_key. Qed.
Example C15_generated_bcn_export_needs_no_genesis :
  exists g, go_ExportGenesis (mk_rworld 0 0 exg_state_g) = Ok g /\ gen_of_go g <> export_reg exg_state_g.
Proof. exact gen_bcn_ExportGenesis_needs_no_genesis. Qed.
