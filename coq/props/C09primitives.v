(* C09: the hand-written descriptions of the primitives under the translated code were written against exactly
   these function bodies of /repo (digests re-derived from the source on every run). *)
From Coq Require Import String List.
From MC Require GeneratedStreamKeeper GeneratedWrkchainKeeper GeneratedBeaconKeeper GeneratedEnterpriseKeeper.
From MC Require Import proofs.PrimitiveBodies.
Import ListNotations.
Local Open Scope string_scope.

Theorem C09_wrkchain_primitive_bodies_as_reviewed :
  GeneratedWrkchainKeeper.wrkchain_primitive_bodies =
  [("GetAllWrkChainBlockHashesForGenesisExport", "6cfba5ffedc45709");
   ("GetAllWrkChains", "f9a2908714127224");
   ("GetHighestWrkChainID", "a9fe330044e47ebc");
   ("GetLastWrkChainHeightInState", "6655857512cc6447");
   ("GetParamDefaultStorageLimit", "40d21abf76583945");
   ("GetParamDenom", "c4773798fc1cc0de");
   ("GetParamMaxStorageLimit", "da6fbdd300103325");
   ("GetParamPurchaseStorageFee", "cbdc5c47a588db40");
   ("GetParamRecordFee", "43ac96b86ee8610f");
   ("GetParamRegistrationFee", "0b5061c24b8c25b5");
   ("GetParams", "e5651d249a1817ba");
   ("GetPurchaseStorageFeeAsCoin", "4c3fbdc71a568311");
   ("GetRecordFeeAsCoin", "12381be07e186e84");
   ("GetRegistrationFeeAsCoin", "077a30b7bd90d777");
   ("GetWrkChain", "7f5a4824f26f81b9");
   ("GetWrkChainBlock", "7b2bfc951eb25e87");
   ("GetWrkChainOwner", "9b7eae50aad15f7f");
   ("GetWrkChainStorageLimit", "22a7132a7e1bf2d6");
   ("GetZeroFeeAsCoin", "490a8edf1c700cf0");
   ("HasWrkChainStorageLimit", "39ace42df9e9424d");
   ("IsAuthorisedToRecord", "06eec4e3bf3d493d");
   ("IsWrkChainBlockRecorded", "a2a491560cc11770");
   ("IsWrkChainRegistered", "54488308a32989ee");
   ("IterateWrkChainBlockHashesPaginated", "5807a39cd1168429");
   ("IterateWrkChainBlockHashesReverse", "ac9afe43f512ef83");
   ("IterateWrkChains", "16fd2351c8022345");
   ("SetHighestWrkChainID", "78a91d12f47997c9");
   ("SetParams", "73bc5d17b364b792");
   ("SetWrkChain", "88262d6a48523e66");
   ("SetWrkChainBlock", "c16def8ea40aaa1c");
   ("SetWrkChainStorageLimit", "7d2f76c138f299c5");
   ("deleteWrkChainHash", "12527d58405e0b82")].
Proof. exact wrkchain_primitive_bodies_as_reviewed. Qed.
Print Assumptions C09_wrkchain_primitive_bodies_as_reviewed.

Theorem C09_beacon_primitive_bodies_as_reviewed :
  GeneratedBeaconKeeper.beacon_primitive_bodies =
  [("GetAllBeaconTimestampsForExport", "297493c808f6f283");
   ("GetAllBeacons", "017c5698a1c02ec9");
   ("GetBeacon", "ffc24cb9b2c2eb6f");
   ("GetBeaconOwner", "ad9f6a16014219f9");
   ("GetBeaconStorageLimit", "ac78ecddd75c9fd7");
   ("GetBeaconTimestampByID", "929f1fe7d9fc7cb2");
   ("GetHighestBeaconID", "5e0b9a7111190145");
   ("GetParamDefaultStorageLimit", "40d21abf76583945");
   ("GetParamDenom", "c4773798fc1cc0de");
   ("GetParamMaxStorageLimit", "da6fbdd300103325");
   ("GetParamPurchaseStorageFee", "cbdc5c47a588db40");
   ("GetParamRecordFee", "43ac96b86ee8610f");
   ("GetParamRegistrationFee", "0b5061c24b8c25b5");
   ("GetParams", "e5651d249a1817ba");
   ("GetPurchaseStorageFeeAsCoin", "4c3fbdc71a568311");
   ("GetRecordFeeAsCoin", "12381be07e186e84");
   ("GetRegistrationFeeAsCoin", "077a30b7bd90d777");
   ("GetZeroFeeAsCoin", "490a8edf1c700cf0");
   ("HasBeaconStorageLimit", "a5d7bc6a8f1a79d7");
   ("IsAuthorisedToRecord", "102ddfd584d6e4de");
   ("IsBeaconRegistered", "db23b52aa0a27acd");
   ("IsBeaconTimestampRecordedByID", "30ce84005b5ec802");
   ("IterateBeaconTimestampsReverse", "82f5dc7e9390a3bb");
   ("IterateBeacons", "313fa38d4af6f8a3");
   ("SetBeacon", "a1ac82aa6dc27698");
   ("SetBeaconStorageLimit", "88c64e4daa881e9d");
   ("SetBeaconTimestamp", "9ac91eb3ad64e31d");
   ("SetHighestBeaconID", "969c508ae2461d5e");
   ("SetParams", "73bc5d17b364b792");
   ("deleteBeaconTimestamp", "21ea434937146020")].
Proof. exact beacon_primitive_bodies_as_reviewed. Qed.
Print Assumptions C09_beacon_primitive_bodies_as_reviewed.
