(* C15 on BYTES, x/beacon: genesis export and import are lossless ON THE BYTE-LEVEL STORE.
   InitGenesis / ExportGenesis of /repo/x/beacon/genesis.go as translated on every run TWICE from the same source -
     (1) GeneratedBeaconKeeper.v         K.go_InitGenesis / K.go_ExportGenesis over the hand-written primitives on the
                                            abstract registry state (world [rworld]); C15_generated_bcn_* prove them to be the
                                            model's export_reg / import_reg and prove the round trips,
     (2) GeneratedBeaconKeeperOnStore.v  S.go_InitGenesis / S.go_ExportGenesis over the BYTE-LEVEL ordered KV store of
                                            model/KVStore.v through the GENERATED store accessors (GeneratedBeaconStore.v,
                                            incl. the listing go_st_GetAllBeacons and the export listing
                                            go_st_GetAllBeaconTimestampsForExport - a reverse iteration that counts,
                                            stops after 20000 entries and prepends) and the adapters of
                                            model/BeaconStoreWorld.v (world [bsworld]).
   Here: (2) against (1), and the round trip on bytes.

   Rw w ws    = same clocks and Rreg (bsw_store ws) (rw_reg w)   (C09_onstore_beacon_relation, C18_store_beacon_refines_..).
   Hypotheses, and why:
     regs_ascending st   the abstract registrations are listed in ascending id order (C15_onstore_bcn_ascending_spelled).
                         The byte store lists them in key order = ascending id; the primitive reg_GetAllEntities lists the
                         association list as it stands.  It is a fact about every reachable state
                         (C15_onstore_bcn_ascending_init / _run / _reimported) and it is needed
                         (C15_onstore_bcn_export_order_refuted).
     doc_ok d            the document's counter, BEACON ids and timestamp ids are uint64 (C15_onstore_bcn_doc_ok_spelled): the byte store
                         keys an id by its low 64 bits (C18_store_beacon_refines_*_range_refuted).
     bcn_params_nonneg   the four `== 0`-tested parameter fields are uint64 in Go: Params.Validate then has the same
                         verdict on both sides.  (The error CODE of an invalid set plays no role: InitGenesis drops it.)
     reg_params_valid    for the EMPTY store only: with parameters that do not validate InitGenesis writes no Params cell,
                         and a store without it represents no abstract state (C15_onstore_bcn_import_empty_invalid_refuted).
     reg_inv false st g   the round trip: st is a reachable state of the model (as C15_generated_bcn_roundtrip).
     under_cap st        no registration holds more than 20000 records: only then is the re-imported byte store the
                         exported one (C15_onstore_bcn_roundtrip_over_cap_differs).
   Not needed: a bound on counters; the one-hash / own-key / no-genesis-hash conditions of C15_generated_bcn_export_is_model (they are
   part of Rreg).
   Proofs: proofs/GeneratedBeaconGenesisOnStoreEq.v. *)
From MC Require Import lib.Prelude lib.AMap lib.GoSdk GeneratedBeaconTypes model.Bank model.Registry model.RegistrySpec
  model.Genesis model.Keys model.KeyPrims model.KVStore model.StoreCodecPrims model.BeaconKeeperPrims model.BeaconStoreWorld
  model.BeaconGenSpec model.BeaconGenesisGenSpec GeneratedKeys GeneratedBeaconStore.
From MC Require GeneratedBeaconKeeper GeneratedBeaconKeeperOnStore.
From MC Require Import proofs.RegistryProofs proofs.GenesisLib proofs.GenesisProofs proofs.GeneratedBeaconEq
  proofs.GeneratedBeaconGenesisEq proofs.GeneratedBeaconParamsEq proofs.KVStoreFacts proofs.GeneratedBeaconStoreEq
  proofs.GeneratedBeaconStoreRefines proofs.GeneratedBeaconOnStoreEq proofs.GeneratedBeaconGenesisOnStoreEq.
From Coq Require Import NArith ZArith List Bool Sorted Permutation.
Import ListNotations.
Local Open Scope string_scope.
Local Open Scope list_scope.
Local Open Scope Z_scope.

Module K := MC.GeneratedBeaconKeeper.
Module S := MC.GeneratedBeaconKeeperOnStore.

(* ------------------------------------------------------------------ *)
(* the side conditions, in full                                         *)
(* ------------------------------------------------------------------ *)

Theorem C15_onstore_bcn_doc_ok_spelled : forall d : go_GenesisState,
  doc_ok d <->
  (0 <= GenesisState_StartingBeaconId d < 2 ^ 64 /\
   Forall (fun e => 0 <= Beacon_BeaconId (BeaconExport_Beacon e) < 2 ^ 64 /\
                    Forall (fun b => 0 <= BeaconTimestampGenesisExport_Id b < 2 ^ 64) (BeaconExport_Timestamps e))
          (GenesisState_RegisteredBeacons d)).
Proof. exact doc_ok_spelled. Qed.
Print Assumptions C15_onstore_bcn_doc_ok_spelled.

Theorem C15_onstore_bcn_ascending_spelled : forall st : reg_state,
  regs_ascending st <-> StronglySorted Z.lt (map fst (r_regs st)).
Proof. exact regs_ascending_spelled. Qed.
Print Assumptions C15_onstore_bcn_ascending_spelled.

Theorem C15_onstore_bcn_under_cap_spelled : forall st : reg_state,
  under_cap st <-> forall id, Z.of_nat (List.length (records_of id (r_recs st))) <= 20000.
Proof. exact under_cap_spelled. Qed.
Print Assumptions C15_onstore_bcn_under_cap_spelled.

Theorem C15_onstore_bcn_sim0_spelled : forall (a : outcome (rworld * unit)) (c : outcome (bsworld * unit)),
  sim0 a c <->
  match a, c with
  | Ok (w, x), Ok (ws, y) => Rw w ws /\ x = y
  | Err e, Err e' => e = e'
  | Panic p, Panic p' => p = p'
  | _, _ => False
  end.
Proof. exact sim0_spelled'. Qed.
Print Assumptions C15_onstore_bcn_sim0_spelled.

(* ------------------------------------------------------------------ *)
(* 1. the two listing adapters of the export                            *)
(* ------------------------------------------------------------------ *)

(* GetAllBeaconTimestampsForExport on a byte store representing [w]: Ok of the newest 20000 timestamps of the
   ascending listing of BEACON [id], ascending, each written out as an exported timestamp *)
Theorem C15_onstore_bcn_export_accessor_listing : forall (s : okv beacon_val) (w : rworld) (id : Z),
  Rreg s (rw_reg w) -> u64 id ->
  go_st_GetAllBeaconTimestampsForExport s id =
    Ok (map (fun b => mk_go_BeaconTimestampGenesisExport (BeaconTimestamp_TimestampId b) (BeaconTimestamp_SubmitTime b)
                        (BeaconTimestamp_Hash b))
            (newest EXPORT_CAP (map (fun kr => rec_to_go (snd kr)) (sort_by_key (records_of id (r_recs (rw_reg w))))))).
Proof. exact ForGenesisExport_listing. Qed.
Print Assumptions C15_onstore_bcn_export_accessor_listing.

Theorem C15_onstore_bcn_export_accessor_refines : forall (s : okv beacon_val) (w : rworld) (id : Z),
  Rreg s (rw_reg w) -> u64 id ->
  go_st_GetAllBeaconTimestampsForExport s id = Ok (reg_GetRecordsForExport w id).
Proof. exact ForGenesisExport_refines. Qed.
Print Assumptions C15_onstore_bcn_export_accessor_refines.

Theorem C15_onstore_bcn_adapter_GetRecordsForExport : forall (w : rworld) (ws : bsworld) (id : Z),
  Rw w ws -> u64 id -> os_reg_GetRecordsForExport ws id = Ok (reg_GetRecordsForExport w id).
Proof. exact prim_GetRecordsForExport. Qed.
Print Assumptions C15_onstore_bcn_adapter_GetRecordsForExport.

Theorem C15_onstore_bcn_adapter_GetAllEntities : forall (w : rworld) (ws : bsworld),
  Rw w ws -> regs_ascending (rw_reg w) -> os_reg_GetAllEntities ws = Ok (reg_GetAllEntities w).
Proof. exact prim_GetAllEntities. Qed.
Print Assumptions C15_onstore_bcn_adapter_GetAllEntities.

(* without the order: the same registrations, in ascending id order *)
Theorem C15_onstore_bcn_adapter_GetAllEntities_perm : forall (w : rworld) (ws : bsworld),
  Rw w ws ->
  exists l, os_reg_GetAllEntities ws = Ok l /\ Permutation l (reg_GetAllEntities w) /\
            StronglySorted (fun a b => Beacon_BeaconId a < Beacon_BeaconId b) l.
Proof. exact prim_GetAllEntities_perm. Qed.
Print Assumptions C15_onstore_bcn_adapter_GetAllEntities_perm.

(* ------------------------------------------------------------------ *)
(* 2. ExportGenesis: the same document                                  *)
(* ------------------------------------------------------------------ *)

Theorem C15_onstore_bcn_export_same_document : forall (w : rworld) (ws : bsworld),
  Rw w ws -> regs_ascending (rw_reg w) -> S.go_ExportGenesis ws = K.go_ExportGenesis w.
Proof. exact os_ExportGenesis_eq. Qed.
Print Assumptions C15_onstore_bcn_export_same_document.

Theorem C15_onstore_bcn_export_document : forall (w : rworld) (ws : bsworld),
  Rw w ws -> regs_ascending (rw_reg w) ->
  S.go_ExportGenesis ws =
    Ok (mk_go_GenesisState (params_to_go (r_params (rw_reg w))) (r_next (rw_reg w))
          (map (go_export_entry w) (reg_GetAllEntities w))).
Proof. exact os_ExportGenesis_run. Qed.
Print Assumptions C15_onstore_bcn_export_document.

(* ... which is the model's export of the abstract state *)
Theorem C15_onstore_bcn_export_is_model : forall (w : rworld) (ws : bsworld),
  Rw w ws -> regs_ascending (rw_reg w) ->
  exists d, S.go_ExportGenesis ws = Ok d /\ gen_of_go d = export_reg (rw_reg w).
Proof. exact os_ExportGenesis_model. Qed.
Print Assumptions C15_onstore_bcn_export_is_model.

(* the order hypothesis cannot be dropped: related worlds whose documents differ (the same entries in another order) *)
Theorem C15_onstore_bcn_export_order_refuted :
  exists (w : rworld) (ws : bsworld), Rw w ws /\ S.go_ExportGenesis ws <> K.go_ExportGenesis w.
Proof. exact os_ExportGenesis_sorted_refuted. Qed.
Print Assumptions C15_onstore_bcn_export_order_refuted.

(* ------------------------------------------------------------------ *)
(* 3. InitGenesis                                                       *)
(* ------------------------------------------------------------------ *)

(* on EVERY byte store and EVERY document: Ok, and the store it builds, in closed form *)
Theorem C15_onstore_bcn_import_run : forall (ws : bsworld) (d : go_GenesisState),
  S.go_InitGenesis ws d = Ok (with_bstore ws (s_import_onto (validates (GenesisState_Params d)) d (bsw_store ws)), tt).
Proof. exact os_InitGenesis_run. Qed.
Print Assumptions C15_onstore_bcn_import_run.

Theorem C15_onstore_bcn_import_run_spelled :
  (forall valid d s,
     s_import_onto valid d s =
       fold_left (fun s e => s_imp_entry e s) (GenesisState_RegisteredBeacons d)
         (okv_set (if valid then okv_set s beacon_ParamsKey (BV_Params (GenesisState_Params d)) else s) beacon_HighestBeaconIDKey
            (BV_bytes (be64 (Z.to_N (GenesisState_StartingBeaconId d)))))) /\
  (forall e s,
     s_imp_entry e s =
       fold_left (fun s b => s_imp_rec (Beacon_BeaconId (BeaconExport_Beacon e)) b s) (BeaconExport_Timestamps e)
         (okv_set (okv_set s (kReg (Beacon_BeaconId (BeaconExport_Beacon e))) (BV_Beacon (BeaconExport_Beacon e)))
            (kLim (Beacon_BeaconId (BeaconExport_Beacon e)))
            (BV_BeaconStorageLimit (mk_go_BeaconStorageLimit (Beacon_BeaconId (BeaconExport_Beacon e))
                                        (BeaconExport_InStateLimit e))))) /\
  (forall id b s,
     s_imp_rec id b s =
       okv_set s (kRec id (BeaconTimestampGenesisExport_Id b))
         (BV_BeaconTimestamp (mk_go_BeaconTimestamp (BeaconTimestampGenesisExport_Id b) (BeaconTimestampGenesisExport_T b)
                                (BeaconTimestampGenesisExport_H b)))) /\
  (forall p, validates p = match K.go_Params_Validate p with Ok _ => true | _ => false end).
Proof. exact s_import_spelled. Qed.
Print Assumptions C15_onstore_bcn_import_run_spelled.

(* both renderings answer Ok on every world and every document (never Err, never Panic), clocks untouched *)
Theorem C15_onstore_bcn_import_total : forall (ws : bsworld) (w : rworld) (d : go_GenesisState),
  (exists s', S.go_InitGenesis ws d = Ok (mk_bsworld (bsw_now ws) (bsw_wall ws) s', tt)) /\
  (exists st', K.go_InitGenesis w d = Ok (mk_rworld (rw_now w) (rw_wall w) st', tt)).
Proof. exact os_InitGenesis_total. Qed.
Print Assumptions C15_onstore_bcn_import_total.

(* simulation from related worlds *)
Theorem C15_onstore_bcn_import_simulates : forall (w : rworld) (ws : bsworld) (d : go_GenesisState),
  Rw w ws -> doc_ok d -> bcn_params_nonneg (GenesisState_Params d) ->
  sim0 (K.go_InitGenesis w d) (S.go_InitGenesis ws d).
Proof. exact os_InitGenesis_sim0. Qed.
Print Assumptions C15_onstore_bcn_import_simulates.

(* ... with the invariant the message-server simulation (C09_onstore_beacon_..) starts from *)
Theorem C15_onstore_bcn_import_simulates_inv : forall (w : rworld) (ws : bsworld) (d : go_GenesisState),
  Rwi w ws -> doc_ok d -> bcn_params_nonneg (GenesisState_Params d) ->
  Forall (fun e => u64 (Beacon_FirstIdInState (BeaconExport_Beacon e))) (GenesisState_RegisteredBeacons d) ->
  sim (K.go_InitGenesis w d) (S.go_InitGenesis ws d).
Proof. exact os_InitGenesis_sim. Qed.
Print Assumptions C15_onstore_bcn_import_simulates_inv.

(* the EMPTY byte store against a fresh abstract state: both Ok, the byte store represents the abstract result, which is
   the model's import of the document *)
Theorem C15_onstore_bcn_import_empty : forall (now wall : Z) (p0 : reg_params) (d : go_GenesisState),
  doc_ok d -> bcn_params_nonneg (GenesisState_Params d) ->
  reg_params_valid (params_of_go (GenesisState_Params d)) = true ->
  exists s' st',
    S.go_InitGenesis (mk_bsworld now wall []) d = Ok (mk_bsworld now wall s', tt) /\
    K.go_InitGenesis (fresh_world now wall p0) d = Ok (mk_rworld now wall st', tt) /\
    import_reg (gen_of_go d) = Some st' /\
    Rreg s' st'.
Proof. exact os_InitGenesis_empty. Qed.
Print Assumptions C15_onstore_bcn_import_empty.

Theorem C15_onstore_bcn_import_empty_invalid_refuted :
  let d := mk_go_GenesisState (params_to_go exg_bad_params) 4 [] in
  doc_ok d /\ bcn_params_nonneg (GenesisState_Params d) /\
  reg_params_valid (params_of_go (GenesisState_Params d)) = false /\
  exists s', S.go_InitGenesis (mk_bsworld 0 0 []) d = Ok (mk_bsworld 0 0 s', tt) /\
             okv_get s' beacon_ParamsKey = None /\ (forall st, ~ Rreg s' st) /\
             go_st_GetParams s' = Ok zero_go_Params.
Proof. exact os_InitGenesis_empty_invalid_refuted. Qed.
Print Assumptions C15_onstore_bcn_import_empty_invalid_refuted.

(* ------------------------------------------------------------------ *)
(* 4. the byte-level round trip                                         *)
(* ------------------------------------------------------------------ *)

(* the abstract state determines the byte store *)
Theorem C15_onstore_bcn_store_unique : forall (s1 s2 : okv beacon_val) (st : reg_state),
  Rreg s1 st -> Rreg s2 st -> s1 = s2.
Proof. exact Rreg_store_unique. Qed.
Print Assumptions C15_onstore_bcn_store_unique.

Theorem C15_onstore_bcn_roundtrip : forall (w : rworld) (ws : bsworld) (g0 : ghost) (now wall : Z),
  Rw w ws -> reg_inv false (rw_reg w) g0 -> regs_ascending (rw_reg w) ->
  exists d s',
    S.go_ExportGenesis ws = Ok d /\
    gen_of_go d = export_reg (rw_reg w) /\
    S.go_InitGenesis (mk_bsworld now wall []) d = Ok (mk_bsworld now wall s', tt) /\
    Rreg s' (reg_reimported (rw_reg w)) /\
    (under_cap (rw_reg w) -> Rreg s' (rw_reg w) /\ s' = bsw_store ws).
Proof. exact os_export_import_roundtrip. Qed.
Print Assumptions C15_onstore_bcn_roundtrip.

(* over the cap the re-imported byte store is another one *)
Theorem C15_onstore_bcn_roundtrip_over_cap_differs :
  forall (w : rworld) (ws : bsworld) (g0 : ghost) (s' : okv beacon_val) (id : Z),
  Rw w ws -> reg_inv false (rw_reg w) g0 -> Rreg s' (reg_reimported (rw_reg w)) ->
  EXPORT_CAP < Z.of_nat (List.length (records_of id (r_recs (rw_reg w)))) ->
  s' <> bsw_store ws.
Proof. exact os_roundtrip_over_cap_differs. Qed.
Print Assumptions C15_onstore_bcn_roundtrip_over_cap_differs.


(* ------------------------------------------------------------------ *)
(* 5. export -> import -> export                                        *)
(* ------------------------------------------------------------------ *)

Theorem C15_onstore_bcn_export_import_export : forall (w : rworld) (ws : bsworld) (g0 : ghost) (now wall : Z),
  Rw w ws -> reg_inv false (rw_reg w) g0 -> regs_ascending (rw_reg w) ->
  exists d s',
    S.go_ExportGenesis ws = Ok d /\
    S.go_InitGenesis (mk_bsworld now wall []) d = Ok (mk_bsworld now wall s', tt) /\
    S.go_ExportGenesis (mk_bsworld now wall s') = Ok d.
Proof. exact os_export_import_export. Qed.
Print Assumptions C15_onstore_bcn_export_import_export.

(* ------------------------------------------------------------------ *)
(* 6. the order hypothesis holds of every reachable state               *)
(* ------------------------------------------------------------------ *)

Theorem C15_onstore_bcn_ascending_init : forall (p : reg_params) (start : Z), regs_ascending (reg_init p start).
Proof. exact regs_ascending_init. Qed.
Print Assumptions C15_onstore_bcn_ascending_init.

Theorem C15_onstore_bcn_ascending_run : forall (heighted : bool) (h : list (Z * reg_msg)) (s : reg_state) (g : ghost),
  reg_inv heighted s g -> hist_wf h -> regs_ascending s -> regs_ascending (fst (reg_run heighted (s, g) h)).
Proof. exact regs_ascending_run. Qed.
Print Assumptions C15_onstore_bcn_ascending_run.

Theorem C15_onstore_bcn_ascending_reimported : forall st : reg_state,
  regs_ascending st -> regs_ascending (reg_reimported st).
Proof. exact reimported_regs_ascending. Qed.
Print Assumptions C15_onstore_bcn_ascending_reimported.

(* the round trip along the on-store message server, from a related, reachable, ascending start (e.g. the genesis) *)
Theorem C15_onstore_bcn_run_roundtrip :
  forall (wall : Z) (h : list (Z * reg_msg)) (w : rworld) (ws : bsworld) (g : ghost) (B now' wall' : Z),
  Rw w ws -> reg_inv false (rw_reg w) g -> bcn_bounded B (rw_reg w) -> B + Z.of_nat (List.length h) < two64 ->
  bcn_hist_ok h -> regs_ascending (rw_reg w) ->
  let ws' := snd (s_run ws (lift_hist wall h)) in
  let st' := fst (reg_run false (rw_reg w, g) h) in
  exists d s',
    S.go_ExportGenesis ws' = Ok d /\
    gen_of_go d = export_reg st' /\
    S.go_InitGenesis (mk_bsworld now' wall' []) d = Ok (mk_bsworld now' wall' s', tt) /\
    Rreg s' (reg_reimported st') /\
    S.go_ExportGenesis (mk_bsworld now' wall' s') = Ok d /\
    (under_cap st' -> s' = bsw_store ws').
Proof. exact os_run_roundtrip. Qed.
Print Assumptions C15_onstore_bcn_run_roundtrip.

(* ------------------------------------------------------------------ *)
(* 7. a concrete run                                                    *)
(* ------------------------------------------------------------------ *)

(* the byte store of C09_onstore_beacon's example run (one BEACON, timestamps 2 / 3 left after a pruning, bought storage,
   updated parameters: six cells) exported, imported into [] under other clocks, compared, exported again *)
Theorem C15_onstore_bcn_example :
  let ws := snd (s_run ex_bs0 ex_khist) in
  match S.go_ExportGenesis ws with
  | Ok d =>
      GenesisState_Params d = ex_gp2 /\ GenesisState_StartingBeaconId d = 2 /\
      map BeaconExport_Beacon (GenesisState_RegisteredBeacons d) = [mk_go_Beacon 1 "m" "n" 3 2 2 1700000000 7] /\
      map BeaconExport_InStateLimit (GenesisState_RegisteredBeacons d) = [5] /\
      map BeaconExport_Timestamps (GenesisState_RegisteredBeacons d) =
        [[mk_go_BeaconTimestampGenesisExport 2 1700000015 "b"; mk_go_BeaconTimestampGenesisExport 3 1700000025 "c"]] /\
      match S.go_InitGenesis (mk_bsworld 77 78 []) d with
      | Ok (ws', _) =>
          bsw_store ws' = bsw_store ws /\ List.length (bsw_store ws') = 6%nat /\
          bsw_now ws' = 77 /\ bsw_wall ws' = 78 /\
          S.go_ExportGenesis ws' = Ok d
      | _ => False
      end
  | _ => False
  end.
Proof. exact os_genesis_ex. Qed.
Print Assumptions C15_onstore_bcn_example.

Theorem C15_onstore_bcn_example_by_theorem :
  let ws := snd (s_run ex_bs0 (lift_hist 0 ex_history)) in
  exists d s',
    S.go_ExportGenesis ws = Ok d /\
    S.go_InitGenesis (mk_bsworld 77 78 []) d = Ok (mk_bsworld 77 78 s', tt) /\
    S.go_ExportGenesis (mk_bsworld 77 78 s') = Ok d /\
    s' = bsw_store ws.
Proof. exact os_genesis_ex_by_theorem. Qed.
Print Assumptions C15_onstore_bcn_example_by_theorem.
