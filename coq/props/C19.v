(* C19: converting an amount between FUND and nund yields the mathematically exact
   result (nund = FUND * 10^9; FUND = nund / 10^9 printed with nine decimals) for every
   decimal input with at most nine fractional digits, and converting there and back
   returns the original amount. *)
From MC Require Import lib.Prelude model.Denom proofs.DenomProofs.
Open Scope string_scope.
Open Scope N_scope.

(* exact value, all inputs with <= 9 fractional digits *)
Theorem C19_to_nund_exact : forall a : amount, (frac_len a <= 9)%nat ->
  to_nund a = (N.of_uint (am_int a) * 1000000000 + N.of_uint (am_frac a) * pow10 (9 - frac_len a))%N.
Proof. exact to_nund_exact. Qed.
Print Assumptions C19_to_nund_exact.

(* more fractional digits: truncation toward zero, never more than the exact value *)
Theorem C19_to_nund_floor : forall a : amount,
  (to_nund a * rat_den a <= rat_num a * 1000000000 < (to_nund a + 1) * rat_den a)%N.
Proof. exact to_nund_floor. Qed.
Print Assumptions C19_to_nund_floor.

(* integer nund -> fund: integer part and the nine printed decimals *)
Theorem C19_to_fund_exact : forall a : amount, am_frac a = Decimal.Nil ->
  to_fund a = (N.of_uint (am_int a) / 1000000000, N.of_uint (am_int a) mod 1000000000)%N.
Proof. exact to_fund_exact. Qed.
Print Assumptions C19_to_fund_exact.

(* the nine-decimal field is always < 10^9 and pad9 gives exactly nine characters *)
Theorem C19_frac_field_width : forall a : amount,
  (snd (to_fund a) < 1000000000)%N /\ String.length (pad9 (snd (to_fund a))) = 9%nat.
Proof. exact frac_field_width. Qed.
Print Assumptions C19_frac_field_width.

(* value-level round trip fund -> nund -> fund *)
Theorem C19_roundtrip_fund : forall a : amount, (frac_len a <= 9)%nat ->
  to_fund {| am_int := N.to_uint (to_nund a); am_frac := Decimal.Nil |}
  = (N.of_uint (am_int a), N.of_uint (am_frac a) * pow10 (9 - frac_len a))%N.
Proof. exact roundtrip_fund. Qed.
Print Assumptions C19_roundtrip_fund.

(* string-level round trip nund -> fund -> nund through the real printer and parser *)
Theorem C19_roundtrip_nund_string : forall n : N,
  exists s, convert_num (print_N n) Nund = Some s /\ convert_num s Fund = Some (print_N n).
Proof. exact roundtrip_nund_string. Qed.
Print Assumptions C19_roundtrip_nund_string.

(* string-level: integer-nund conversion prints floor(n/10^9) "." (n mod 10^9 padded to nine digits) *)
Theorem C19_nund_to_fund_string : forall n : N,
  convert_num (print_N n) Nund = Some (print_N (n / 1000000000) ++ "." ++ pad9 (n mod 1000000000))%string.
Proof. exact nund_to_fund_string. Qed.
Print Assumptions C19_nund_to_fund_string.

(* additional: string-level, FUND printed with nine decimals -> nund is q*10^9 + r exactly *)
Theorem C19_fund_string_to_nund : forall q r : N, (r < 1000000000)%N ->
  convert_num (print_N q ++ "." ++ pad9 r) Fund = Some (print_N (q * 1000000000 + r)).
Proof. exact fund_string_to_nund. Qed.
Print Assumptions C19_fund_string_to_nund.

(* additional: string-level round trip fund -> nund -> fund *)
Theorem C19_roundtrip_fund_string : forall q r : N, (r < 1000000000)%N ->
  exists s, convert_num (print_N q ++ "." ++ pad9 r) Fund = Some s
            /\ convert_num s Nund = Some (print_N q ++ "." ++ pad9 r)%string.
Proof. exact roundtrip_fund_string. Qed.
Print Assumptions C19_roundtrip_fund_string.

(* additional: a numeral with k digits denotes a number < 10^k (so the fractional part is < 1) *)
Theorem C19_frac_lt_one : forall a : amount, (N.of_uint (am_frac a) < rat_den a)%N.
Proof. exact (fun a => of_uint_lt (am_frac a)). Qed.
Print Assumptions C19_frac_lt_one.

(* ---- non-vacuity: concrete runs of the executable model ---- *)

Example C19_ex_fund_to_nund :
  convert "123456789.123456789" Fund = Some "123456789123456789nund".
Proof. vm_compute. reflexivity. Qed.

Example C19_ex_nund_to_fund :
  convert "999999999999999999" Nund = Some "999999999.999999999fund".
Proof. vm_compute. reflexivity. Qed.

Example C19_ex_small_nund : convert "1" Nund = Some "0.000000001fund".
Proof. vm_compute. reflexivity. Qed.

Example C19_ex_zero_nund : convert "0" Nund = Some "0.000000000fund".
Proof. vm_compute. reflexivity. Qed.

Example C19_ex_short_frac : convert "1.5" Fund = Some "1500000000nund".
Proof. vm_compute. reflexivity. Qed.

Example C19_ex_leading_dot : convert ".000000001" Fund = Some "1nund".
Proof. vm_compute. reflexivity. Qed.

(* more than nine fractional digits: truncated toward zero (covered by C19_to_nund_floor only) *)
Example C19_ex_truncate : convert "0.0000000019" Fund = Some "1nund".
Proof. vm_compute. reflexivity. Qed.

(* outside the modelled domain *)
Example C19_ex_reject : convert "1.2.3" Fund = None /\ convert "" Fund = None /\ convert "." Fund = None /\ convert "12a" Nund = None.
Proof. vm_compute. repeat split. Qed.

(* an amount with exactly nine fractional digits satisfies the hypothesis of the exactness theorems *)
Example C19_ex_hyp_frac9 :
  exists a, parse_amount "123456789.123456789" = Some a /\ frac_len a = 9%nat
            /\ to_nund a = 123456789123456789
            /\ to_fund {| am_int := N.to_uint (to_nund a); am_frac := Decimal.Nil |} = (123456789, 123456789).
Proof. eexists. split; [vm_compute; reflexivity|]. vm_compute. repeat split. Qed.

(* the hypothesis of C19_to_fund_exact is met by every parsed integer string *)
Example C19_ex_hyp_int :
  exists a, parse_amount "1000000001" = Some a /\ am_frac a = Decimal.Nil /\ to_fund a = (1, 1).
Proof. eexists. split; [vm_compute; reflexivity|]. vm_compute. repeat split. Qed.

(* string round trip on a concrete value *)
Example C19_ex_roundtrip :
  convert_num "1234567890" Nund = Some "1.234567890" /\ convert_num "1.234567890" Fund = Some "1234567890".
Proof. vm_compute. repeat split. Qed.
