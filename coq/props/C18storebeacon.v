(* C18, store layer of x/beacon: the store accessors of the keeper as GENERATED from /repo/x/beacon/keeper/{register.go,
   record.go,params.go} (GeneratedBeaconStore.v), run against the ordered byte-keyed store of model/KVStore.v with the
   generated key builders (GeneratedKeys.v), implement maps: what each writer does to the store, read-your-write,
   non-interference between different ids of one kind, isolation between the five kinds (params, highest-id counter,
   beacons, storage limits, timestamps), preservation of the representation invariant and of well-formedness, and the
   listings: complete, duplicate-free, ascending in the numeric id, consistent with the point queries; the timestamp
   listings are confined to one beacon, ascending (IterateBeaconTimestamps) / descending (..Reverse).
   Ids are the Z of the translation; [0 <= x < 2 ^ 64] (what a Go uint64 holds) is assumed only where two different
   ids must have different keys or byte order must be numeric order (shown necessary: *_refuted in the proofs file).
   [beacon_store_typed] / [beacon_store_wf] (the well-formedness predicates) and [visit] (in-order visit of a list by a
   Go iteration callback) are the small named definitions of proofs/GeneratedBeaconStoreEq.v, proofs/KVStoreFacts2Beacon.v.
   Proofs: proofs/GeneratedBeaconStoreEq.v. *)
From Coq Require Import ZArith NArith List Bool Sorted.
From MC Require Import lib.Prelude lib.GoSdk model.Keys model.KeyPrims model.KVStore model.StoreCodecPrims GeneratedKeys GeneratedBeaconTypes GeneratedBeaconKeeper GeneratedBeaconStore proofs.KVStoreFacts2Beacon proofs.GeneratedBeaconStoreEq.
Import ListNotations.
Open Scope Z_scope.

Theorem C18_store_beacon_writers_are_set_delete :
  forall s : okv beacon_val,
  (forall p, go_st_SetParams s p = do _ <- go_Params_Validate p; Ok (okv_set s beacon_ParamsKey (BV_Params p), tt)) /\
  (forall id, go_st_SetHighestBeaconID s id = Ok (okv_set s beacon_HighestBeaconIDKey (BV_bytes (be64 (Z.to_N id))), tt)) /\
  (forall b, go_st_SetBeacon s b = Ok (okv_set s (bcn_encode (RkReg (Z.to_N (Beacon_BeaconId b)))) (BV_Beacon b), tt)) /\
  (forall id l, go_st_SetBeaconStorageLimit s id l =
     Ok (okv_set s (bcn_encode (RkLimit (Z.to_N id))) (BV_BeaconStorageLimit (mk_go_BeaconStorageLimit id l)), tt)) /\
  (forall id ts, go_st_SetBeaconTimestamp s id ts =
     Ok (okv_set s (bcn_encode (RkRecord (Z.to_N id) (Z.to_N (BeaconTimestamp_TimestampId ts)))) (BV_BeaconTimestamp ts), tt)) /\
  (forall id t, go_st_deleteBeaconTimestamp s id t = Ok (okv_del s (bcn_encode (RkRecord (Z.to_N id) (Z.to_N t))), tt)).
Proof. exact writers_spec. Qed.
Print Assumptions C18_store_beacon_writers_are_set_delete.

Theorem C18_store_beacon_writers_preserve_sorted :
  forall s s' : okv beacon_val, okv_sorted s = true ->
  (forall p, go_st_SetParams s p = Ok (s', tt) -> okv_sorted s' = true) /\
  (forall id, go_st_SetHighestBeaconID s id = Ok (s', tt) -> okv_sorted s' = true) /\
  (forall b, go_st_SetBeacon s b = Ok (s', tt) -> okv_sorted s' = true) /\
  (forall id l, go_st_SetBeaconStorageLimit s id l = Ok (s', tt) -> okv_sorted s' = true) /\
  (forall id ts, go_st_SetBeaconTimestamp s id ts = Ok (s', tt) -> okv_sorted s' = true) /\
  (forall id t, go_st_deleteBeaconTimestamp s id t = Ok (s', tt) -> okv_sorted s' = true).
Proof. exact writers_sorted. Qed.
Print Assumptions C18_store_beacon_writers_preserve_sorted.

Theorem C18_store_beacon_writers_preserve_wf :
  forall s s' : okv beacon_val, beacon_store_wf s ->
  (forall p, go_st_SetParams s p = Ok (s', tt) -> beacon_store_wf s') /\
  (forall id, go_st_SetHighestBeaconID s id = Ok (s', tt) -> beacon_store_wf s') /\
  (forall b, go_st_SetBeacon s b = Ok (s', tt) -> beacon_store_wf s') /\
  (forall id l, go_st_SetBeaconStorageLimit s id l = Ok (s', tt) -> beacon_store_wf s') /\
  (forall id ts, go_st_SetBeaconTimestamp s id ts = Ok (s', tt) -> beacon_store_wf s') /\
  (forall id t, go_st_deleteBeaconTimestamp s id t = Ok (s', tt) -> beacon_store_wf s').
Proof. exact writers_wf. Qed.
Print Assumptions C18_store_beacon_writers_preserve_wf.

Theorem C18_store_beacon_empty_store_wf :
  beacon_store_wf [] /\ beacon_store_typed [] /\ okv_sorted ([] : okv beacon_val) = true.
Proof. exact empty_wf. Qed.
Print Assumptions C18_store_beacon_empty_store_wf.

Theorem C18_store_beacon_params_read_your_write :
  forall (s s' : okv beacon_val) p, go_st_SetParams s p = Ok (s', tt) -> go_st_GetParams s' = Ok p.
Proof. exact SetParams_GetParams. Qed.
Print Assumptions C18_store_beacon_params_read_your_write.

Theorem C18_store_beacon_highest_id_laws :
  forall s : okv beacon_val,
  (forall s' id, 0 <= id < 2 ^ 64 -> go_st_SetHighestBeaconID s id = Ok (s', tt) -> go_st_GetHighestBeaconID s' = Ok id) /\
  (okv_get s beacon_HighestBeaconIDKey = None -> go_st_GetHighestBeaconID s = Err STORE_ERR) /\
  go_st_GetHighestBeaconID [] = Err STORE_ERR.
Proof. exact highest_laws. Qed.
Print Assumptions C18_store_beacon_highest_id_laws.

Theorem C18_store_beacon_beacon_read_your_write :
  forall (s s' : okv beacon_val) b, go_st_SetBeacon s b = Ok (s', tt) ->
  go_st_GetBeacon s' (Beacon_BeaconId b) = Ok (b, true) /\ go_st_IsBeaconRegistered s' (Beacon_BeaconId b) = Ok true.
Proof. exact SetBeacon_GetBeacon. Qed.
Print Assumptions C18_store_beacon_beacon_read_your_write.

Theorem C18_store_beacon_beacon_other_id :
  forall (s s' : okv beacon_val) b id, go_st_SetBeacon s b = Ok (s', tt) ->
  0 <= Beacon_BeaconId b < 2 ^ 64 -> 0 <= id < 2 ^ 64 -> id <> Beacon_BeaconId b ->
  go_st_GetBeacon s' id = go_st_GetBeacon s id /\ go_st_IsBeaconRegistered s' id = go_st_IsBeaconRegistered s id.
Proof. exact SetBeacon_other. Qed.
Print Assumptions C18_store_beacon_beacon_other_id.

Theorem C18_store_beacon_beacon_unregistered :
  forall (s : okv beacon_val) id,
  go_st_IsBeaconRegistered s id = Ok false -> go_st_GetBeacon s id = Ok (zero_go_Beacon, false).
Proof. exact GetBeacon_unregistered. Qed.
Print Assumptions C18_store_beacon_beacon_unregistered.

Theorem C18_store_beacon_limit_read_your_write :
  forall (s s' : okv beacon_val) id l, go_st_SetBeaconStorageLimit s id l = Ok (s', tt) ->
  go_st_GetBeaconStorageLimit s' id = Ok (mk_go_BeaconStorageLimit id l, true) /\ go_st_HasBeaconStorageLimit s' id = Ok true.
Proof. exact SetBeaconStorageLimit_Get. Qed.
Print Assumptions C18_store_beacon_limit_read_your_write.

Theorem C18_store_beacon_limit_other_id :
  forall (s s' : okv beacon_val) id l id', go_st_SetBeaconStorageLimit s id l = Ok (s', tt) ->
  0 <= id < 2 ^ 64 -> 0 <= id' < 2 ^ 64 -> id' <> id ->
  go_st_GetBeaconStorageLimit s' id' = go_st_GetBeaconStorageLimit s id' /\
  go_st_HasBeaconStorageLimit s' id' = go_st_HasBeaconStorageLimit s id'.
Proof. exact SetBeaconStorageLimit_other. Qed.
Print Assumptions C18_store_beacon_limit_other_id.

Theorem C18_store_beacon_limit_default :
  forall (s : okv beacon_val) id,
  (go_st_HasBeaconStorageLimit s id = Ok false ->
   go_st_GetBeaconStorageLimit s id = Ok (mk_go_BeaconStorageLimit id store_const_DefaultStorageLimit, false)) /\
  go_st_GetBeaconStorageLimit [] id = Ok (mk_go_BeaconStorageLimit id store_const_DefaultStorageLimit, false) /\
  store_const_DefaultStorageLimit = 50000.
Proof. exact limit_default. Qed.
Print Assumptions C18_store_beacon_limit_default.

Theorem C18_store_beacon_timestamp_read_your_write :
  forall (s s' : okv beacon_val) id ts, go_st_SetBeaconTimestamp s id ts = Ok (s', tt) ->
  go_st_GetBeaconTimestampByID s' id (BeaconTimestamp_TimestampId ts) = Ok (ts, true) /\
  go_st_IsBeaconTimestampRecordedByID s' id (BeaconTimestamp_TimestampId ts) = Ok true.
Proof. exact SetBeaconTimestamp_Get. Qed.
Print Assumptions C18_store_beacon_timestamp_read_your_write.

Theorem C18_store_beacon_timestamp_delete :
  forall (s s' : okv beacon_val) id t, okv_sorted s = true ->
  go_st_deleteBeaconTimestamp s id t = Ok (s', tt) ->
  go_st_GetBeaconTimestampByID s' id t = Ok (zero_go_BeaconTimestamp, false) /\
  go_st_IsBeaconTimestampRecordedByID s' id t = Ok false.
Proof. exact deleteBeaconTimestamp_Get. Qed.
Print Assumptions C18_store_beacon_timestamp_delete.

Theorem C18_store_beacon_timestamp_other_key :
  forall (s s' : okv beacon_val) id t id' t',
  0 <= id < 2 ^ 64 -> 0 <= t < 2 ^ 64 -> 0 <= id' < 2 ^ 64 -> 0 <= t' < 2 ^ 64 -> (id', t') <> (id, t) ->
  (forall ts, BeaconTimestamp_TimestampId ts = t -> go_st_SetBeaconTimestamp s id ts = Ok (s', tt) ->
     go_st_GetBeaconTimestampByID s' id' t' = go_st_GetBeaconTimestampByID s id' t' /\
     go_st_IsBeaconTimestampRecordedByID s' id' t' = go_st_IsBeaconTimestampRecordedByID s id' t') /\
  (go_st_deleteBeaconTimestamp s id t = Ok (s', tt) ->
     go_st_GetBeaconTimestampByID s' id' t' = go_st_GetBeaconTimestampByID s id' t' /\
     go_st_IsBeaconTimestampRecordedByID s' id' t' = go_st_IsBeaconTimestampRecordedByID s id' t').
Proof. exact timestamp_write_other_key. Qed.
Print Assumptions C18_store_beacon_timestamp_other_key.

Theorem C18_store_beacon_timestamp_other_beacon :
  forall (s s' : okv beacon_val) id id',
  0 <= id < 2 ^ 64 -> 0 <= id' < 2 ^ 64 -> id' <> id ->
  (forall ts, go_st_SetBeaconTimestamp s id ts = Ok (s', tt) ->
   ((forall t, go_st_IsBeaconTimestampRecordedByID s' id' t = go_st_IsBeaconTimestampRecordedByID s id' t) /\
   (forall t, go_st_GetBeaconTimestampByID s' id' t = go_st_GetBeaconTimestampByID s id' t) /\
   (forall (St : Type) (cb : St -> go_BeaconTimestamp -> outcome (St * bool)) st,
      go_st_IterateBeaconTimestamps s' id' cb st = go_st_IterateBeaconTimestamps s id' cb st) /\
   (forall (St : Type) (cb : St -> go_BeaconTimestamp -> outcome (St * bool)) st,
      go_st_IterateBeaconTimestampsReverse s' id' cb st = go_st_IterateBeaconTimestampsReverse s id' cb st) /\
   go_st_GetAllBeaconTimestamps s' id' = go_st_GetAllBeaconTimestamps s id')) /\
  (forall t, go_st_deleteBeaconTimestamp s id t = Ok (s', tt) ->
   ((forall t, go_st_IsBeaconTimestampRecordedByID s' id' t = go_st_IsBeaconTimestampRecordedByID s id' t) /\
   (forall t, go_st_GetBeaconTimestampByID s' id' t = go_st_GetBeaconTimestampByID s id' t) /\
   (forall (St : Type) (cb : St -> go_BeaconTimestamp -> outcome (St * bool)) st,
      go_st_IterateBeaconTimestamps s' id' cb st = go_st_IterateBeaconTimestamps s id' cb st) /\
   (forall (St : Type) (cb : St -> go_BeaconTimestamp -> outcome (St * bool)) st,
      go_st_IterateBeaconTimestampsReverse s' id' cb st = go_st_IterateBeaconTimestampsReverse s id' cb st) /\
   go_st_GetAllBeaconTimestamps s' id' = go_st_GetAllBeaconTimestamps s id')).
Proof. exact timestamp_write_other_beacon. Qed.
Print Assumptions C18_store_beacon_timestamp_other_beacon.

Theorem C18_store_beacon_SetParams_isolated :
  forall (s s' : okv beacon_val) p, go_st_SetParams s p = Ok (s', tt) ->
  (go_st_GetHighestBeaconID s' = go_st_GetHighestBeaconID s) /\
  ((forall id, go_st_IsBeaconRegistered s' id = go_st_IsBeaconRegistered s id) /\
   (forall id, go_st_GetBeacon s' id = go_st_GetBeacon s id) /\
   (forall (St : Type) (cb : St -> go_Beacon -> outcome (St * bool)) st,
      go_st_IterateBeacons s' cb st = go_st_IterateBeacons s cb st) /\
   go_st_GetAllBeacons s' = go_st_GetAllBeacons s) /\
  ((forall id, go_st_HasBeaconStorageLimit s' id = go_st_HasBeaconStorageLimit s id) /\
   (forall id, go_st_GetBeaconStorageLimit s' id = go_st_GetBeaconStorageLimit s id)) /\
  (forall id0,
   ((forall t, go_st_IsBeaconTimestampRecordedByID s' id0 t = go_st_IsBeaconTimestampRecordedByID s id0 t) /\
   (forall t, go_st_GetBeaconTimestampByID s' id0 t = go_st_GetBeaconTimestampByID s id0 t) /\
   (forall (St : Type) (cb : St -> go_BeaconTimestamp -> outcome (St * bool)) st,
      go_st_IterateBeaconTimestamps s' id0 cb st = go_st_IterateBeaconTimestamps s id0 cb st) /\
   (forall (St : Type) (cb : St -> go_BeaconTimestamp -> outcome (St * bool)) st,
      go_st_IterateBeaconTimestampsReverse s' id0 cb st = go_st_IterateBeaconTimestampsReverse s id0 cb st) /\
   go_st_GetAllBeaconTimestamps s' id0 = go_st_GetAllBeaconTimestamps s id0)).
Proof. exact SetParams_isolated. Qed.
Print Assumptions C18_store_beacon_SetParams_isolated.

Theorem C18_store_beacon_SetHighestBeaconID_isolated :
  forall (s s' : okv beacon_val) id, go_st_SetHighestBeaconID s id = Ok (s', tt) ->
  (go_st_GetParams s' = go_st_GetParams s /\
   go_st_GetParamDenom s' = go_st_GetParamDenom s /\
   go_st_GetParamRegistrationFee s' = go_st_GetParamRegistrationFee s /\
   go_st_GetParamRecordFee s' = go_st_GetParamRecordFee s /\
   go_st_GetParamPurchaseStorageFee s' = go_st_GetParamPurchaseStorageFee s /\
   go_st_GetParamDefaultStorageLimit s' = go_st_GetParamDefaultStorageLimit s /\
   go_st_GetParamMaxStorageLimit s' = go_st_GetParamMaxStorageLimit s) /\
  ((forall id, go_st_IsBeaconRegistered s' id = go_st_IsBeaconRegistered s id) /\
   (forall id, go_st_GetBeacon s' id = go_st_GetBeacon s id) /\
   (forall (St : Type) (cb : St -> go_Beacon -> outcome (St * bool)) st,
      go_st_IterateBeacons s' cb st = go_st_IterateBeacons s cb st) /\
   go_st_GetAllBeacons s' = go_st_GetAllBeacons s) /\
  ((forall id, go_st_HasBeaconStorageLimit s' id = go_st_HasBeaconStorageLimit s id) /\
   (forall id, go_st_GetBeaconStorageLimit s' id = go_st_GetBeaconStorageLimit s id)) /\
  (forall id0,
   ((forall t, go_st_IsBeaconTimestampRecordedByID s' id0 t = go_st_IsBeaconTimestampRecordedByID s id0 t) /\
   (forall t, go_st_GetBeaconTimestampByID s' id0 t = go_st_GetBeaconTimestampByID s id0 t) /\
   (forall (St : Type) (cb : St -> go_BeaconTimestamp -> outcome (St * bool)) st,
      go_st_IterateBeaconTimestamps s' id0 cb st = go_st_IterateBeaconTimestamps s id0 cb st) /\
   (forall (St : Type) (cb : St -> go_BeaconTimestamp -> outcome (St * bool)) st,
      go_st_IterateBeaconTimestampsReverse s' id0 cb st = go_st_IterateBeaconTimestampsReverse s id0 cb st) /\
   go_st_GetAllBeaconTimestamps s' id0 = go_st_GetAllBeaconTimestamps s id0)).
Proof. exact SetHighestBeaconID_isolated. Qed.
Print Assumptions C18_store_beacon_SetHighestBeaconID_isolated.

Theorem C18_store_beacon_SetBeacon_isolated :
  forall (s s' : okv beacon_val) b, go_st_SetBeacon s b = Ok (s', tt) ->
  (go_st_GetParams s' = go_st_GetParams s /\
   go_st_GetParamDenom s' = go_st_GetParamDenom s /\
   go_st_GetParamRegistrationFee s' = go_st_GetParamRegistrationFee s /\
   go_st_GetParamRecordFee s' = go_st_GetParamRecordFee s /\
   go_st_GetParamPurchaseStorageFee s' = go_st_GetParamPurchaseStorageFee s /\
   go_st_GetParamDefaultStorageLimit s' = go_st_GetParamDefaultStorageLimit s /\
   go_st_GetParamMaxStorageLimit s' = go_st_GetParamMaxStorageLimit s) /\
  (go_st_GetHighestBeaconID s' = go_st_GetHighestBeaconID s) /\
  ((forall id, go_st_HasBeaconStorageLimit s' id = go_st_HasBeaconStorageLimit s id) /\
   (forall id, go_st_GetBeaconStorageLimit s' id = go_st_GetBeaconStorageLimit s id)) /\
  (forall id0,
   ((forall t, go_st_IsBeaconTimestampRecordedByID s' id0 t = go_st_IsBeaconTimestampRecordedByID s id0 t) /\
   (forall t, go_st_GetBeaconTimestampByID s' id0 t = go_st_GetBeaconTimestampByID s id0 t) /\
   (forall (St : Type) (cb : St -> go_BeaconTimestamp -> outcome (St * bool)) st,
      go_st_IterateBeaconTimestamps s' id0 cb st = go_st_IterateBeaconTimestamps s id0 cb st) /\
   (forall (St : Type) (cb : St -> go_BeaconTimestamp -> outcome (St * bool)) st,
      go_st_IterateBeaconTimestampsReverse s' id0 cb st = go_st_IterateBeaconTimestampsReverse s id0 cb st) /\
   go_st_GetAllBeaconTimestamps s' id0 = go_st_GetAllBeaconTimestamps s id0)).
Proof. exact SetBeacon_isolated. Qed.
Print Assumptions C18_store_beacon_SetBeacon_isolated.

Theorem C18_store_beacon_SetBeaconStorageLimit_isolated :
  forall (s s' : okv beacon_val) id l, go_st_SetBeaconStorageLimit s id l = Ok (s', tt) ->
  (go_st_GetParams s' = go_st_GetParams s /\
   go_st_GetParamDenom s' = go_st_GetParamDenom s /\
   go_st_GetParamRegistrationFee s' = go_st_GetParamRegistrationFee s /\
   go_st_GetParamRecordFee s' = go_st_GetParamRecordFee s /\
   go_st_GetParamPurchaseStorageFee s' = go_st_GetParamPurchaseStorageFee s /\
   go_st_GetParamDefaultStorageLimit s' = go_st_GetParamDefaultStorageLimit s /\
   go_st_GetParamMaxStorageLimit s' = go_st_GetParamMaxStorageLimit s) /\
  (go_st_GetHighestBeaconID s' = go_st_GetHighestBeaconID s) /\
  ((forall id, go_st_IsBeaconRegistered s' id = go_st_IsBeaconRegistered s id) /\
   (forall id, go_st_GetBeacon s' id = go_st_GetBeacon s id) /\
   (forall (St : Type) (cb : St -> go_Beacon -> outcome (St * bool)) st,
      go_st_IterateBeacons s' cb st = go_st_IterateBeacons s cb st) /\
   go_st_GetAllBeacons s' = go_st_GetAllBeacons s) /\
  (forall id0,
   ((forall t, go_st_IsBeaconTimestampRecordedByID s' id0 t = go_st_IsBeaconTimestampRecordedByID s id0 t) /\
   (forall t, go_st_GetBeaconTimestampByID s' id0 t = go_st_GetBeaconTimestampByID s id0 t) /\
   (forall (St : Type) (cb : St -> go_BeaconTimestamp -> outcome (St * bool)) st,
      go_st_IterateBeaconTimestamps s' id0 cb st = go_st_IterateBeaconTimestamps s id0 cb st) /\
   (forall (St : Type) (cb : St -> go_BeaconTimestamp -> outcome (St * bool)) st,
      go_st_IterateBeaconTimestampsReverse s' id0 cb st = go_st_IterateBeaconTimestampsReverse s id0 cb st) /\
   go_st_GetAllBeaconTimestamps s' id0 = go_st_GetAllBeaconTimestamps s id0)).
Proof. exact SetBeaconStorageLimit_isolated. Qed.
Print Assumptions C18_store_beacon_SetBeaconStorageLimit_isolated.

Theorem C18_store_beacon_SetBeaconTimestamp_isolated :
  forall (s s' : okv beacon_val) id ts, go_st_SetBeaconTimestamp s id ts = Ok (s', tt) ->
  (go_st_GetParams s' = go_st_GetParams s /\
   go_st_GetParamDenom s' = go_st_GetParamDenom s /\
   go_st_GetParamRegistrationFee s' = go_st_GetParamRegistrationFee s /\
   go_st_GetParamRecordFee s' = go_st_GetParamRecordFee s /\
   go_st_GetParamPurchaseStorageFee s' = go_st_GetParamPurchaseStorageFee s /\
   go_st_GetParamDefaultStorageLimit s' = go_st_GetParamDefaultStorageLimit s /\
   go_st_GetParamMaxStorageLimit s' = go_st_GetParamMaxStorageLimit s) /\
  (go_st_GetHighestBeaconID s' = go_st_GetHighestBeaconID s) /\
  ((forall id, go_st_IsBeaconRegistered s' id = go_st_IsBeaconRegistered s id) /\
   (forall id, go_st_GetBeacon s' id = go_st_GetBeacon s id) /\
   (forall (St : Type) (cb : St -> go_Beacon -> outcome (St * bool)) st,
      go_st_IterateBeacons s' cb st = go_st_IterateBeacons s cb st) /\
   go_st_GetAllBeacons s' = go_st_GetAllBeacons s) /\
  ((forall id, go_st_HasBeaconStorageLimit s' id = go_st_HasBeaconStorageLimit s id) /\
   (forall id, go_st_GetBeaconStorageLimit s' id = go_st_GetBeaconStorageLimit s id)).
Proof. exact SetBeaconTimestamp_isolated. Qed.
Print Assumptions C18_store_beacon_SetBeaconTimestamp_isolated.

Theorem C18_store_beacon_deleteBeaconTimestamp_isolated :
  forall (s s' : okv beacon_val) id t, go_st_deleteBeaconTimestamp s id t = Ok (s', tt) ->
  (go_st_GetParams s' = go_st_GetParams s /\
   go_st_GetParamDenom s' = go_st_GetParamDenom s /\
   go_st_GetParamRegistrationFee s' = go_st_GetParamRegistrationFee s /\
   go_st_GetParamRecordFee s' = go_st_GetParamRecordFee s /\
   go_st_GetParamPurchaseStorageFee s' = go_st_GetParamPurchaseStorageFee s /\
   go_st_GetParamDefaultStorageLimit s' = go_st_GetParamDefaultStorageLimit s /\
   go_st_GetParamMaxStorageLimit s' = go_st_GetParamMaxStorageLimit s) /\
  (go_st_GetHighestBeaconID s' = go_st_GetHighestBeaconID s) /\
  ((forall id, go_st_IsBeaconRegistered s' id = go_st_IsBeaconRegistered s id) /\
   (forall id, go_st_GetBeacon s' id = go_st_GetBeacon s id) /\
   (forall (St : Type) (cb : St -> go_Beacon -> outcome (St * bool)) st,
      go_st_IterateBeacons s' cb st = go_st_IterateBeacons s cb st) /\
   go_st_GetAllBeacons s' = go_st_GetAllBeacons s) /\
  ((forall id, go_st_HasBeaconStorageLimit s' id = go_st_HasBeaconStorageLimit s id) /\
   (forall id, go_st_GetBeaconStorageLimit s' id = go_st_GetBeaconStorageLimit s id)).
Proof. exact deleteBeaconTimestamp_isolated. Qed.
Print Assumptions C18_store_beacon_deleteBeaconTimestamp_isolated.

Theorem C18_store_beacon_beacons_listing_values :
  forall s : okv beacon_val, beacon_store_typed s ->
  exists l, go_st_GetAllBeacons s = Ok l /\
            map BV_Beacon l = map snd (okv_prefix s beacon_RegisteredBeaconPrefix) /\
            (forall (St : Type) (cb : St -> go_Beacon -> outcome (St * bool)) st, go_st_IterateBeacons s cb st = visit cb l st).
Proof. exact GetAllBeacons_typed. Qed.
Print Assumptions C18_store_beacon_beacons_listing_values.

Theorem C18_store_beacon_beacons_listing :
  forall s : okv beacon_val, okv_sorted s = true -> beacon_store_wf s ->
  exists l, go_st_GetAllBeacons s = Ok l /\
    (forall b, In b l <-> go_st_GetBeacon s (Beacon_BeaconId b) = Ok (b, true)) /\
    (forall id b, go_st_GetBeacon s id = Ok (b, true) -> In b l) /\
    NoDup l /\
    ((forall b, In b l -> 0 <= Beacon_BeaconId b < 2 ^ 64) ->
     StronglySorted (fun a b => Beacon_BeaconId a < Beacon_BeaconId b) l).
Proof. exact GetAllBeacons_listing. Qed.
Print Assumptions C18_store_beacon_beacons_listing.

Theorem C18_store_beacon_timestamps_listing_values :
  forall (s : okv beacon_val) id, beacon_store_typed s ->
  exists l, go_st_GetAllBeaconTimestamps s id = Ok l /\
            map BV_BeaconTimestamp l = map snd (okv_prefix s (bcn_prefix_records_of (Z.to_N id))) /\
            (forall (St : Type) (cb : St -> go_BeaconTimestamp -> outcome (St * bool)) st,
               go_st_IterateBeaconTimestamps s id cb st = visit cb l st) /\
            (forall (St : Type) (cb : St -> go_BeaconTimestamp -> outcome (St * bool)) st,
               go_st_IterateBeaconTimestampsReverse s id cb st = visit cb (rev l) st).
Proof. exact GetAllBeaconTimestamps_typed. Qed.
Print Assumptions C18_store_beacon_timestamps_listing_values.

Theorem C18_store_beacon_timestamps_listing :
  forall (s : okv beacon_val) id, okv_sorted s = true -> beacon_store_wf s ->
  exists l, go_st_GetAllBeaconTimestamps s id = Ok l /\
    (forall t, In t l <-> go_st_GetBeaconTimestampByID s id (BeaconTimestamp_TimestampId t) = Ok (t, true)) /\
    (forall tid t, go_st_GetBeaconTimestampByID s id tid = Ok (t, true) -> In t l) /\
    NoDup l /\
    ((forall t, In t l -> 0 <= BeaconTimestamp_TimestampId t < 2 ^ 64) ->
     StronglySorted (fun a b => BeaconTimestamp_TimestampId a < BeaconTimestamp_TimestampId b) l) /\
    (forall (St : Type) (cb : St -> go_BeaconTimestamp -> outcome (St * bool)) st,
       go_st_IterateBeaconTimestamps s id cb st = visit cb l st) /\
    (forall (St : Type) (cb : St -> go_BeaconTimestamp -> outcome (St * bool)) st,
       go_st_IterateBeaconTimestampsReverse s id cb st = visit cb (rev l) st).
Proof. exact GetAllBeaconTimestamps_listing. Qed.
Print Assumptions C18_store_beacon_timestamps_listing.

Theorem C18_store_beacon_timestamps_reverse_descending :
  forall (s : okv beacon_val) id l, okv_sorted s = true -> beacon_store_wf s ->
  go_st_GetAllBeaconTimestamps s id = Ok l ->
  go_st_IterateBeaconTimestampsReverse s id (fun acc t => Ok (acc ++ [t], false)) [] = Ok (rev l) /\
  ((forall t, In t l -> 0 <= BeaconTimestamp_TimestampId t < 2 ^ 64) ->
   StronglySorted (fun a b => BeaconTimestamp_TimestampId b < BeaconTimestamp_TimestampId a) (rev l)).
Proof. exact IterateBeaconTimestampsReverse_descending. Qed.
Print Assumptions C18_store_beacon_timestamps_reverse_descending.

Theorem C18_store_beacon_listing_after_write :
  forall s s' : okv beacon_val, okv_sorted s = true -> beacon_store_wf s ->
  (forall b, go_st_SetBeacon s b = Ok (s', tt) -> exists l, go_st_GetAllBeacons s' = Ok l /\ In b l) /\
  (forall id ts, go_st_SetBeaconTimestamp s id ts = Ok (s', tt) ->
     exists l, go_st_GetAllBeaconTimestamps s' id = Ok l /\ In ts l) /\
  (forall id t, go_st_deleteBeaconTimestamp s id t = Ok (s', tt) ->
     exists l, go_st_GetAllBeaconTimestamps s' id = Ok l /\ forall ts, In ts l -> BeaconTimestamp_TimestampId ts <> t).
Proof. exact listing_after_write. Qed.
Print Assumptions C18_store_beacon_listing_after_write.
