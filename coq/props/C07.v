(* C07 - Recorded WRKChain hashes / BEACON timestamps are append-only and tamper-proof.

   Model: model/Registry.v (one model for x/wrkchain and x/beacon, [heighted = true] is wrkchain,
   [false] is beacon).  Vocabulary: model/RegistrySpec.v.  Proofs: proofs/RegistryProofs.v.

   [reg_inv heighted s g] is the inductive invariant of reachable (state, ghost log) pairs; it holds
   initially ([reg_inv_init]) and is kept by every delivered message ([reg_inv_step], [reg_inv_run])
   and by a parameter change ([reg_inv_set_params]).  [log_of g id] is the ghost log of every record
   ever accepted for registration [id], oldest first; [q_record s id k] is the gRPC query for one
   record.  A history is a list of (unix time, message); well-formed = what the wire format
   guarantees (uint64 fields), cf. [reg_msg_wf]. *)
From MC Require Import lib.Prelude lib.AMap model.Bank model.Registry model.RegistrySpec.
From MC Require Import proofs.RegistryProofs.
Local Open Scope Z_scope.

(* The invariant is established by genesis and kept by everything that can happen. *)
Theorem C07_reg_inv_init :
  forall heighted p start,
    reg_params_valid p = true -> 1 <= start -> reg_inv heighted (reg_init p start) ghost_init.
Proof. exact reg_inv_init. Qed.
Print Assumptions C07_reg_inv_init.

Theorem C07_reg_inv_step :
  forall heighted s g t m,
    reg_inv heighted s g -> reg_msg_wf m -> 0 <= t ->
    reg_inv heighted (fst (reg_step heighted (s, g) (t, m))) (snd (reg_step heighted (s, g) (t, m))).
Proof. exact reg_inv_step. Qed.
Print Assumptions C07_reg_inv_step.

Theorem C07_reg_inv_set_params :
  forall heighted s g p, reg_inv heighted s g -> reg_inv heighted (reg_set_params s p) g.
Proof. exact reg_inv_set_params. Qed.
Print Assumptions C07_reg_inv_set_params.

Theorem C07_reg_inv_run :
  forall heighted h s g,
    reg_inv heighted s g ->
    Forall (fun tm => reg_msg_wf (snd tm) /\ 0 <= fst tm) h ->
    reg_inv heighted (fst (reg_run heighted (s, g) h)) (snd (reg_run heighted (s, g) h)).
Proof. exact reg_inv_run. Qed.
Print Assumptions C07_reg_inv_run.

(* 1. After ANY later history by anyone: the log of accepted records only grows; every record ever
   accepted is either still returned bit-for-bit by the query, or has been pruned by the retention
   limit (nothing is stored under its key any more and its key is below the lowest key held in
   state); and everything the query returns was accepted exactly so.  Hence no later transaction
   alters or replaces an accepted record. *)
Theorem C07_accepted_record_immutable :
  forall heighted s g h id,
    reg_inv heighted s g ->
    Forall (fun tm => reg_msg_wf (snd tm) /\ 0 <= fst tm) h ->
    let '(s', g') := reg_run heighted (s, g) h in
    (exists l, log_of g' id = log_of g id ++ l) /\
    (forall k rc, In (k, rc) (log_of g id) -> In (k, rc) (log_of g' id)) /\
    (forall k rc, In (k, rc) (log_of g' id) ->
       q_record s' id k = Some rc \/
       (q_record s' id k = None /\ ~ In k (keys_of id (r_recs s')) /\
        exists rg', q_registration s' id = Some rg' /\ 1 <= rg_num rg' /\ k < rg_lowest rg')) /\
    (forall k rc, q_record s' id k = Some rc -> In (k, rc) (log_of g' id)).
Proof. exact C07_accepted_record_immutable_stmt. Qed.
Print Assumptions C07_accepted_record_immutable.

(* 2. An accepted submission is stored exactly as submitted, under the returned key: the hashes,
   the height (wrkchain) resp. the next timestamp id (beacon), and the block time (wrkchain) resp.
   the submitted time (beacon). *)
Theorem C07_record_stores_submission :
  forall heighted s g t o id key hashes s' k,
    reg_inv heighted s g -> u64 key ->
    reg_exec heighted t s (RRecord o id key hashes) = Ok (s', RespRecorded id k) ->
    q_record s' id k
      = Some {| rc_key := k; rc_hashes := hashes; rc_time := if heighted then t else key |} /\
    (heighted = true -> k = key) /\
    (heighted = false -> exists rg, aget id (r_regs s) = Some rg /\ k = rg_last rg + 1).
Proof. exact C07_record_stores. Qed.
Print Assumptions C07_record_stores_submission.

(* 3. A WRKChain accepts a record only for a height strictly above its last recorded height, which
   then becomes the last recorded height; anything else is rejected with ErrNewHeightMustBeHigher. *)
Theorem C07_height_strictly_increasing :
  forall s g t o id key hashes s' r rg,
    reg_inv true s g -> u64 key ->
    reg_exec true t s (RRecord o id key hashes) = Ok (s', r) -> aget id (r_regs s) = Some rg ->
    rg_last rg < key /\ r = RespRecorded id key /\
    exists rg', aget id (r_regs s') = Some rg' /\ rg_last rg' = key.
Proof. exact C07_height_increasing. Qed.
Print Assumptions C07_height_strictly_increasing.

Theorem C07_height_not_above_last_rejected :
  forall t s o id key hashes rg,
    aget id (r_regs s) = Some rg -> o = rg_owner rg -> key <> 0 ->
    existsb (too_long 66) hashes = false -> key <= rg_last rg ->
    reg_exec true t s (RRecord o id key hashes) = Err ERR_REG_HEIGHT.
Proof. exact C07_height_not_above_rejected. Qed.
Print Assumptions C07_height_not_above_last_rejected.

(* 4. BEACON timestamp ids are 1, 2, 3, ... in submission order. *)
Theorem C07_beacon_ids_consecutive :
  forall s g id,
    reg_inv false s g ->
    map fst (log_of g id) = map Z.of_nat (seq 1 (List.length (log_of g id))) /\
    (forall i, (i < List.length (log_of g id))%nat -> nth i (map fst (log_of g id)) 0 = Z.of_nat i + 1).
Proof. exact C07_beacon_consecutive. Qed.
Print Assumptions C07_beacon_ids_consecutive.

(* 5. A message that fails ValidateBasic or the message server changes nothing. *)
Theorem C07_rejected_changes_nothing :
  forall heighted s g t m,
    (is_ok (reg_validate_basic heighted m) = false \/ is_ok (reg_exec heighted t s m) = false) ->
    reg_step heighted (s, g) (t, m) = (s, g).
Proof. exact C07_rejected_nothing. Qed.
Print Assumptions C07_rejected_changes_nothing.

(* ---- a concrete run: default limit 2, maximum 5 ---- *)

Example c07_ex_params : reg_params :=
  {| rp_fee_register := 1; rp_fee_record := 1; rp_fee_purchase := 1; rp_denom := 0;
     rp_default_limit := 2; rp_max_limit := 5 |}.

(* owner 7 registers, records 10, 20, 30 (10 is pruned), buys 1 slot, records 40 (nothing pruned);
   then: a lower height, a stranger's record and an over-the-maximum purchase are all rejected *)
Example c07_ex_hist (key1 key2 key3 key4 : Z) : list (Z * reg_msg) :=
  [ (100, RRegister 7 "mon" "name" "0xgen" "geth");
    (101, RRecord 7 1 key1 ["h1"%string; "p1"%string]);
    (102, RRecord 7 1 key2 ["h2"%string]);
    (103, RRecord 7 1 key3 ["h3"%string]);
    (104, RPurchase 7 1 1);
    (105, RRecord 7 1 key4 ["h4"%string]);
    (106, RRecord 7 1 key2 ["evil"%string]);
    (107, RRecord 8 1 (key4 + 10) ["evil"%string]);
    (108, RPurchase 7 1 3) ].

Example c07_ex_params_valid : reg_params_valid c07_ex_params = true.
Proof. reflexivity. Qed.

Example c07_ex_hist_wf : Forall (fun tm => reg_msg_wf (snd tm) /\ 0 <= fst tm) (c07_ex_hist 10 20 30 40).
Proof. repeat constructor; cbn; unfold two64; lia. Qed.

Example c07_ex_wrkchain_queries :
  let s := fst (reg_run true (reg_init c07_ex_params 1, ghost_init) (c07_ex_hist 10 20 30 40)) in
  q_record s 1 10 = None /\
  q_record s 1 20 = Some {| rc_key := 20; rc_hashes := ["h2"%string]; rc_time := 102 |} /\
  q_record s 1 30 = Some {| rc_key := 30; rc_hashes := ["h3"%string]; rc_time := 103 |} /\
  q_record s 1 40 = Some {| rc_key := 40; rc_hashes := ["h4"%string]; rc_time := 105 |} /\
  q_record s 1 50 = None /\
  keys_of 1 (r_recs s) = [20; 30; 40].
Proof. vm_compute. repeat split. Qed.

Example c07_ex_wrkchain_log :
  let g := snd (reg_run true (reg_init c07_ex_params 1, ghost_init) (c07_ex_hist 10 20 30 40)) in
  map fst (log_of g 1) = [10; 20; 30; 40].
Proof. vm_compute. reflexivity. Qed.

Example c07_ex_wrkchain_rejections :
  let s := fst (reg_run true (reg_init c07_ex_params 1, ghost_init) (firstn 6 (c07_ex_hist 10 20 30 40))) in
  reg_exec true 106 s (RRecord 7 1 20 ["evil"%string]) = Err ERR_REG_HEIGHT /\
  reg_exec true 106 s (RRecord 7 1 40 ["evil"%string]) = Err ERR_REG_HEIGHT /\
  reg_exec true 107 s (RRecord 8 1 50 ["evil"%string]) = Err ERR_REG_NOT_OWNER /\
  reg_exec true 107 s (RRecord 7 2 50 ["evil"%string]) = Err ERR_REG_UNKNOWN /\
  fst (reg_run true (reg_init c07_ex_params 1, ghost_init) (c07_ex_hist 10 20 30 40)) = s.
Proof. vm_compute. repeat split. Qed.

(* beacon: the third field is the submit time; ids are assigned 1, 2, 3, 4; the owner's re-submission
   of an old submit time (message 106) is a NEW timestamp, id 5, and alters nothing recorded before;
   with the limit now 3 it pushes id 2 out *)
Example c07_ex_beacon_queries :
  let s := fst (reg_run false (reg_init c07_ex_params 1, ghost_init) (c07_ex_hist 1001 1002 1003 1004)) in
  q_record s 1 1 = None /\
  q_record s 1 2 = None /\
  q_record s 1 3 = Some {| rc_key := 3; rc_hashes := ["h3"%string]; rc_time := 1003 |} /\
  q_record s 1 4 = Some {| rc_key := 4; rc_hashes := ["h4"%string]; rc_time := 1004 |} /\
  q_record s 1 5 = Some {| rc_key := 5; rc_hashes := ["evil"%string]; rc_time := 1002 |} /\
  q_record s 1 6 = None.
Proof. vm_compute. repeat split. Qed.
