(* C07, link to the source (stateless checks): the ValidateBasic methods of /repo/x/wrkchain/types/msgs.go as the
   translator renders them on every run (the head of coq/GeneratedWrkchainKeeper.v) compute exactly what the model's
   [reg_validate_basic true] (model/Registry.v) computes: same verdict, same error code.  Hence a history in which every
   message passes the GENERATED ValidateBasic and is then executed by the GENERATED message server is the model's
   history [reg_run true], about which C07 is proved (props/C07.v).
   Proofs: proofs/GeneratedWrkchainValidateEq.v.  [wrk_validate_basic] dispatches on the model's message type to the
   three generated functions, on the records [wrk_msg_exec] (model/WrkchainGenSpec.v) builds; [wrk_step_v] / [wrk_run_v]
   are [wrk_step] / [wrk_run] (proofs/GeneratedWrkchainEq.v) validating with it.  [reg_msg_wf] excludes the empty owner,
   for which the Go code answers sdkerrors.ErrInvalidAddress, an error the model does not have. *)
From MC Require Import lib.Prelude lib.AMap lib.GoSdk GeneratedWrkchainTypes model.Bank model.Registry model.RegistrySpec
  model.WrkchainKeeperPrims GeneratedWrkchainKeeper model.WrkchainGenSpec.
From MC Require Import proofs.RegistryProofs proofs.GeneratedWrkchainEq proofs.GeneratedWrkchainValidateEq.
Local Open Scope string_scope.
Local Open Scope Z_scope.

Theorem C07_generated_wrk_validate_basic_is_model : forall m, reg_msg_wf m ->
  (forall o id key hashes, m = RRecord o id key hashes -> List.length hashes = 5%nat) ->
  wrk_validate_basic m = reg_validate_basic true m.
Proof. exact gen_wrk_validate_basic_eq. Qed.
Print Assumptions C07_generated_wrk_validate_basic_is_model.

Theorem C07_generated_wrk_run_with_validate_is_model : forall wall h s g B,
  reg_inv true s g -> wrk_bounded B s -> B + Z.of_nat (List.length h) < two64 -> wrk_hist_ok h ->
  wrk_run_v wall (s, g) h = reg_run true (s, g) h.
Proof. exact gen_wrk_run_v_eq. Qed.
Print Assumptions C07_generated_wrk_run_with_validate_is_model.

(* ---- examples: the generated checks run ---- *)

Example C07_generated_wrk_validate_accepts_ex :
  wrk_validate_basic (RRegister 7 "m" "n" "0xabc" "geth") = Ok tt /\
  wrk_validate_basic (RRecord 7 1 10 (ex_hashes "a")) = Ok tt /\
  wrk_validate_basic (RPurchase 7 1 3) = Ok tt.
Proof. vm_compute. auto. Qed.

(* rejected: a height of zero; a hash of 67 bytes *)
Example C07_generated_wrk_validate_rejects_zero_height_ex :
  wrk_validate_basic (RRecord 7 1 0 (ex_hashes "a")) = Err ERR_REG /\
  reg_validate_basic true (RRecord 7 1 0 (ex_hashes "a")) = Err ERR_REG.
Proof. vm_compute. auto. Qed.

Example C07_generated_wrk_validate_rejects_long_hash_ex :
  wrk_validate_basic (RRecord 7 1 10 ["a"; "p"; "1"; long67; "3"]) = Err ERR_REG /\
  reg_validate_basic true (RRecord 7 1 10 ["a"; "p"; "1"; long67; "3"]) = Err ERR_REG /\
  wrk_validate_basic (RRegister 7 "" "n" "0xabc" "geth") = Err ERR_REG.
Proof. vm_compute. auto. Qed.

(* the history of proofs/GeneratedWrkchainEq.v, validated and executed by generated code only *)
Example C07_generated_wrk_run_with_validate_ex :
  wrk_run_v 0 (reg_init ex_params 1, ghost_init) ex_history = reg_run true (reg_init ex_params 1, ghost_init) ex_history /\
  keys_of 1 (r_recs (fst (wrk_run_v 0 (reg_init ex_params 1, ghost_init) ex_history))) = [20; 30].
Proof. vm_compute. auto. Qed.
