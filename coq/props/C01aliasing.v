(* C01: aliasing obligations (proofs/Aliasing.v; DESIGN 0.5 "value semantics of the translation").
   The consensus code writes into no bytes it did not allocate itself (store-owned bytes are never modified outside a committed write) and appends onto no sub-slice; the full list of aliasing-prone constructs is pinned to the reviewed one. *)
From Coq Require Import String List Bool.
From MC Require Import Generated proofs.Aliasing.
Import ListNotations.
Local Open Scope string_scope.

Theorem C01_aliasing_sites_pinned :
  aliasing_sites = aliasing_sites_reviewed.
Proof. exact aliasing_sites_pinned. Qed.
Print Assumptions C01_aliasing_sites_pinned.

Theorem C01_no_append_onto_subslice :
  sites_of ": append-onto-subslice " = [].
Proof. exact no_append_onto_subslice. Qed.
Print Assumptions C01_no_append_onto_subslice.

Theorem C01_foreign_byte_writes_only_in_prepend :
  sites_of ": write-into-foreign-bytes " =
  ["x/beacon/keeper/record.go: prependTimestamp: write-into-foreign-bytes x[1:]";
   "x/wrkchain/keeper/record.go: prependBlock: write-into-foreign-bytes x[1:]"].
Proof. exact foreign_byte_writes_only_in_prepend. Qed.
Print Assumptions C01_foreign_byte_writes_only_in_prepend.

