(* C02: native coin supply changes only through approved purchase orders.
   The total supply of a denomination rises only in a block in which purchase orders complete, by
   exactly their amounts (in the enterprise denomination); no transaction, nested message, block hook
   or parameter change creates or destroys coins (there is no burn in the model: every other bank
   movement is a chain of transfers); at every point of every well-formed history the balances of
   all accounts sum to the recorded supply, for every denomination.
   app_inv, op_wf / hist_wf, begin_wf : proofs/AppInv.v. *)
From MC Require Import lib.Prelude lib.AMap model.Bank model.Stream model.StreamSpec model.Registry
  model.Enterprise model.EnterpriseSpec model.App model.AppSpec.
From MC Require Import proofs.AppInv proofs.AppSupplyProofs proofs.AppCrashProofs.
From MC Require lib.Reach Generated proofs.Wiring.
Local Open Scope Z_scope.

(* ---- no message, at any nesting depth, mints or burns ---- *)
Theorem C02_msg_keeps_supply : forall f a m a',
  exec_msg f a m = Ok a' ->
  forall d, supply_of (a_bank a') d = supply_of (a_bank a) d /\
            total_balance (a_bank a') d = total_balance (a_bank a) d.
Proof. exact msg_keeps_supply. Qed.
Print Assumptions C02_msg_keeps_supply.

(* ---- a delivered transaction (accepted, failed, rejected or panicking) keeps every supply ---- *)
Theorem C02_deliver_keeps_supply : forall a t a' r,
  deliver_tx a t = (a', r) ->
  forall d, supply_of (a_bank a') d = supply_of (a_bank a) d /\
            total_balance (a_bank a') d = total_balance (a_bank a) d.
Proof. exact deliver_keeps_supply. Qed.
Print Assumptions C02_deliver_keeps_supply.

Theorem C02_check_keeps_supply : forall a t a' r,
  check_tx a t = (a', r) ->
  forall d, supply_of (a_bank a') d = supply_of (a_bank a) d /\
            total_balance (a_bank a') d = total_balance (a_bank a) d.
Proof. exact check_keeps_supply. Qed.
Print Assumptions C02_check_keeps_supply.

(* ---- EndBlock (governance proposals, whatever their messages) keeps every supply ---- *)
Theorem C02_end_block_keeps_supply : forall a props d,
  supply_of (a_bank (end_block a props)) d = supply_of (a_bank a) d /\
  total_balance (a_bank (end_block a props)) d = total_balance (a_bank a) d.
Proof. exact end_block_keeps_supply. Qed.
Print Assumptions C02_end_block_keeps_supply.

(* ---- BeginBlock: + exactly the amounts of the orders accepted before the block, in the enterprise
        denomination; those orders are completed afterwards; nothing without an accepted order ---- *)
Theorem C02_begin_block_supply_delta : forall a now a',
  app_inv a -> begin_wf a now -> begin_block a now = Some a' ->
  (forall d, supply_of (a_bank a') d - supply_of (a_bank a) d =
             if d =? ep_denom (e_params (a_ent a))
             then asum (fun o => if po_status o =? ST_ACCEPTED then po_amount o else 0) (e_pos (a_ent a))
             else 0) /\
  (forall id o, aget id (e_pos (a_ent a)) = Some o -> po_status o = ST_ACCEPTED ->
                status_of (a_ent a') id = ST_COMPLETED /\
                aget id (e_pos (a_ent a')) = Some (set_po_status o ST_COMPLETED 0 false)) /\
  0 <= asum (fun o => if po_status o =? ST_ACCEPTED then po_amount o else 0) (e_pos (a_ent a)) /\
  (e_acceptedq (a_ent a) = [] -> forall d, supply_of (a_bank a') d = supply_of (a_bank a) d).
Proof. exact begin_block_supply_delta. Qed.
Print Assumptions C02_begin_block_supply_delta.

(* ---- per node step: only BeginBlock can change the supply of the state it works on ---- *)
Theorem C02_node_step_supply : forall n o n' r,
  node_step n o = Some (n', r) ->
  match o with
  | OpBegin _ => True
  | OpDeliver _ | OpEnd _ =>
      match n_deliver n, n_deliver n' with
      | Some a, Some a' => forall d, supply_of (a_bank a') d = supply_of (a_bank a) d
      | _, _ => False
      end
  | OpCheck _ => forall d, supply_of (a_bank (n_check n')) d = supply_of (a_bank (n_check n)) d
  | OpCommit => n_deliver n = Some (n_committed n')
  | OpCrash => n_committed n' = n_committed n
  end.
Proof. exact node_step_supply. Qed.
Print Assumptions C02_node_step_supply.

(* ---- balances sum to the recorded supply at every block boundary (and in between) ---- *)
Theorem C02_balances_sum_to_supply : forall g h n,
  app_inv g -> hist_wf (node_init g) h -> node_run (node_init g) h = Some n ->
  (forall d, total_balance (a_bank (n_committed n)) d = supply_of (a_bank (n_committed n)) d) /\
  (forall d, total_balance (a_bank (n_check n)) d = supply_of (a_bank (n_check n)) d) /\
  match n_deliver n with
  | Some a => forall d, total_balance (a_bank a) d = supply_of (a_bank a) d
  | None => True
  end.
Proof. exact balances_sum_to_supply. Qed.
Print Assumptions C02_balances_sum_to_supply.

(* ---- source-derived: which module accounts may mint, who calls MintCoins / BurnCoins, and that no
        inflation module is wired into the block hooks or genesis ---- *)
Theorem C02_only_enterprise_mints :
  Wiring.minters = ["enttypes.ModuleName"; "ibctransfertypes.ModuleName"]%string /\
  (Reach.callers Generated.callgraph "ext:MintCoins" = ["x/enterprise/keeper:Keeper.MintCoinsAndLock"]%string /\
   Reach.callers Generated.callgraph "x/enterprise/keeper:Keeper.MintCoinsAndLock"
     = ["x/enterprise/keeper:Keeper.ProcessAcceptedPurchaseOrders"]%string /\
   Reach.callers Generated.callgraph "x/enterprise/keeper:Keeper.ProcessAcceptedPurchaseOrders"
     = ["x/enterprise:.BeginBlocker"]%string /\
   Reach.callers Generated.callgraph "ext:BurnCoins" = []) /\
  Reach.mem "minttypes.ModuleName"
    (Generated.begin_blockers ++ Generated.end_blockers ++ Generated.genesis_order) = false.
Proof. exact (conj Wiring.wiring_minters (conj Wiring.wiring_mint_callers Wiring.wiring_no_mint_module)). Qed.
Print Assumptions C02_only_enterprise_mints.

(* ---- examples: the hypotheses are satisfiable, and the numbers (scenario: proofs/AppInv.v) ---- *)
(* ex_hist: block 1 raises and accepts an order of 3000; block 2 tallies it; block 3 completes it,
   then a WRKChain registration (fee 1000) and a stream; block 4 a claim *)
Example C02_ex_hypotheses : app_inv ex_g /\ hist_wf (node_init ex_g) ex_hist.
Proof. exact (conj ex_g_inv ex_hist_wf_ok). Qed.

Definition ex_supply (n : node) := (supply_of (a_bank (n_committed n)) NUND, total_balance (a_bank (n_committed n)) NUND).

Example C02_ex_supply_by_block :
  map (fun k => option_map ex_supply (node_run (node_init ex_g) (firstn k ex_hist))) [0; 5; 8; 14; 18]%nat
  = [Some (10150, 10150); Some (10150, 10150); Some (10150, 10150); Some (13150, 13150); Some (13150, 13150)].
Proof. vm_compute. reflexivity. Qed.

(* the order is accepted at the end of block 2 and completed by the BeginBlock of block 3 *)
Example C02_ex_completion_block :
  option_map (fun n => (status_of (a_ent (n_committed n)) 1, e_acceptedq (a_ent (n_committed n))))
             (node_run (node_init ex_g) (firstn 8 ex_hist)) = Some (ST_ACCEPTED, [1]) /\
  option_map (fun n => option_map (fun a => (status_of (a_ent a) 1, supply_of (a_bank a) NUND)) (n_deliver n))
             (node_run (node_init ex_g) (firstn 9 ex_hist)) = Some (Some (ST_COMPLETED, 13150)).
Proof. vm_compute. split; reflexivity. Qed.

Example C02_ex_begin_wf :
  exists n, node_run (node_init ex_g) (firstn 8 ex_hist) = Some n /\ begin_wf (n_committed n) (ex_t 15).
Proof. eexists. split; [vm_compute; reflexivity|]. vm_compute. repeat split; first [reflexivity | discriminate]. Qed.
