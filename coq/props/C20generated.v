(* C20, link to the source: the FilteredPaginate callbacks of the three gRPC list queries (x/wrkchain WrkChainsFiltered,
   x/beacon BeaconsFiltered, x/enterprise EnterpriseUndPurchaseOrders) as generated from the Go source on every run
   (coq/Generated{Wrkchain,Beacon,Enterprise}Keeper.v: go_*_callback req item accumulate slice) are "append the item iff
   it matches the query's filter and accumulate is set; report whether it matches" for the hand-written specification
   filters of model/QueryFilterSpec.v; the SDK's FilteredPaginate loops calling such a callback exactly where and with the
   accumulate flag the SDK code does (model/PaginateCallback.v: [filtered_paginate_cb]; [list_query_cb] starts from the
   nil slice as the handlers do) are the hand-written pagination model of C20 (model/Paginate.v) with that filter - same
   outcome, NextKey, Total, and the handler's slice = the values of the model's page; hence the C20 theorems hold of the
   pages produced with the GENERATED callbacks: paging by key or by offset, forward or reverse, returns every stored item
   matching the spec filter exactly once, in order, and nothing else.
   [all_pages_by_*_cb fuel items cb limit] is the concatenation of the handler's slices over the client's walk.
   Proofs: proofs/PaginateCallbackEq.v, proofs/Generated{Wrkchain,Beacon,Enterprise}QueryEq.v. *)
From MC Require Import lib.Prelude lib.GoSdk model.Paginate model.PaginateCallback model.QueryFilterSpec.
From MC Require GeneratedWrkchainKeeper GeneratedBeaconKeeper GeneratedEnterpriseKeeper model.RegistryWorld.
From MC Require Import proofs.PaginateCallbackEq proofs.GeneratedWrkchainQueryEq proofs.GeneratedBeaconQueryEq
  proofs.GeneratedEnterpriseListQueryEq.
From Coq Require Import NArith Sorted.
Local Open Scope N_scope.
Local Notation length := List.length.
Local Notation wrk_cb := MC.GeneratedWrkchainKeeper.go_WrkChainsFiltered_callback.
Local Notation bcn_cb := MC.GeneratedBeaconKeeper.go_BeaconsFiltered_callback.
Local Notation ent_cb := MC.GeneratedEnterpriseKeeper.go_EnterpriseUndPurchaseOrders_callback.
Local Notation bech32 := MC.model.RegistryWorld.sdk_AccAddressFromBech32.

(* ---- the filter-append laws of the generated callbacks, on ALL inputs ---- *)

Theorem C20_generated_wrkchain_callback_law : forall req wc acc xs,
  wrk_cb req wc acc xs = Ok (if wrk_list_flt req wc && acc then xs ++ [wc] else xs, wrk_list_flt req wc).
Proof. exact wrk_callback_law. Qed.
Print Assumptions C20_generated_wrkchain_callback_law.

Theorem C20_generated_beacon_callback_law : forall req b acc xs,
  bcn_cb req b acc xs = Ok (if bcn_list_flt req b && acc then xs ++ [b] else xs, bcn_list_flt req b).
Proof. exact bcn_callback_law. Qed.
Print Assumptions C20_generated_beacon_callback_law.

Theorem C20_generated_enterprise_callback_law : forall req po acc xs,
  ent_cb req po acc xs = Ok (if ent_po_flt req po && acc then xs ++ [po] else xs, ent_po_flt req po).
Proof. exact ent_callback_law. Qed.
Print Assumptions C20_generated_enterprise_callback_law.

(* The wrkchain / beacon callbacks validate a non-empty request owner with sdk.AccAddressFromBech32 on every call, and
   fail with its error.  Exact behaviour whatever that primitive answers (in this development addresses are abstract and
   model/RegistryWorld.v's primitive accepts every value, which is why the two laws above are unconditional): *)
Theorem C20_generated_wrkchain_callback_cases : forall req wc acc xs,
  wrk_cb req wc acc xs =
  do _ <- (if (WT.QueryWrkChainsFilteredRequest_Owner req =? go_zero_addr)%Z
           then Ok go_zero_addr else bech32 (WT.QueryWrkChainsFilteredRequest_Owner req));
  Ok (if wrk_list_flt req wc && acc then xs ++ [wc] else xs, wrk_list_flt req wc).
Proof. exact wrk_callback_cases. Qed.
Print Assumptions C20_generated_wrkchain_callback_cases.

Theorem C20_generated_wrkchain_callback_bad_owner : forall req wc acc xs c,
  WT.QueryWrkChainsFilteredRequest_Owner req <> go_zero_addr ->
  bech32 (WT.QueryWrkChainsFilteredRequest_Owner req) = Err c ->
  wrk_cb req wc acc xs = Err c.
Proof. exact wrk_callback_err_if. Qed.
Print Assumptions C20_generated_wrkchain_callback_bad_owner.

Theorem C20_generated_beacon_callback_cases : forall req b acc xs,
  bcn_cb req b acc xs =
  do _ <- (if (BT.QueryBeaconsFilteredRequest_Owner req =? go_zero_addr)%Z
           then Ok go_zero_addr else bech32 (BT.QueryBeaconsFilteredRequest_Owner req));
  Ok (if bcn_list_flt req b && acc then xs ++ [b] else xs, bcn_list_flt req b).
Proof. exact bcn_callback_cases. Qed.
Print Assumptions C20_generated_beacon_callback_cases.

Theorem C20_generated_beacon_callback_bad_owner : forall req b acc xs c,
  BT.QueryBeaconsFilteredRequest_Owner req <> go_zero_addr ->
  bech32 (BT.QueryBeaconsFilteredRequest_Owner req) = Err c ->
  bcn_cb req b acc xs = Err c.
Proof. exact bcn_callback_err_if. Qed.
Print Assumptions C20_generated_beacon_callback_bad_owner.

(* ---- the SDK loop driven by a filter-append callback is the hand-written model ---- *)

Theorem C20_callback_loop_is_model :
  forall (V : Type) (cb : V -> bool -> list V -> outcome (list V * bool)) (flt : V -> bool),
    (forall v acc xs, cb v acc xs = Ok (if flt v && acc then xs ++ [v] else xs, flt v)) ->
    forall (items : list (N * V)) (req : page_req) (st0 : list V),
      filtered_paginate_cb items cb req st0 =
      omap (fun r => {| cres_state := st0 ++ map snd (res_items r);
                        cres_next_key := res_next_key r;
                        cres_total := res_total r |})
           (filtered_paginate items (fun _ v => flt v) req).
Proof. exact (@filtered_paginate_cb_eq_from). Qed.
Print Assumptions C20_callback_loop_is_model.

Theorem C20_generated_wrkchain_query_is_model : forall (items : list (N * WT.go_WrkChain)) req preq,
  list_query_cb items (wrk_cb req) preq =
  omap page_of_model (filtered_paginate items (fun _ wc => wrk_list_flt req wc) preq).
Proof. exact wrk_query_is_model. Qed.
Print Assumptions C20_generated_wrkchain_query_is_model.

Theorem C20_generated_beacon_query_is_model : forall (items : list (N * BT.go_Beacon)) req preq,
  list_query_cb items (bcn_cb req) preq =
  omap page_of_model (filtered_paginate items (fun _ b => bcn_list_flt req b) preq).
Proof. exact bcn_query_is_model. Qed.
Print Assumptions C20_generated_beacon_query_is_model.

Theorem C20_generated_enterprise_query_is_model : forall (items : list (N * ET.go_EnterpriseUndPurchaseOrder)) req preq,
  list_query_cb items (ent_cb req) preq =
  omap page_of_model (filtered_paginate items (fun _ po => ent_po_flt req po) preq).
Proof. exact ent_query_is_model. Qed.
Print Assumptions C20_generated_enterprise_query_is_model.

(* ---- C20 for the pages produced with the generated callbacks: x/wrkchain ---- *)

Theorem C20_generated_wrkchain_key_pages_partition :
  forall (items : list (N * WT.go_WrkChain)) req (limit : N) (fuel : nat),
    Sorted N.lt (map fst items) ->
    1 <= limit -> limit + 1 < two64N -> N.of_nat (length items) < two64N ->
    (length items + 1 <= fuel)%nat ->
    all_pages_by_key_cb fuel items (wrk_cb req) limit = filter (wrk_list_flt req) (map snd items).
Proof. exact wrk_key_pages_partition. Qed.
Print Assumptions C20_generated_wrkchain_key_pages_partition.

Theorem C20_generated_wrkchain_offset_pages_partition :
  forall (items : list (N * WT.go_WrkChain)) req (limit : N) (fuel : nat),
    1 <= limit -> N.of_nat (length items) + limit + 1 < two64N ->
    (length items + 1 <= fuel)%nat ->
    all_pages_by_offset_cb fuel items (wrk_cb req) limit = filter (wrk_list_flt req) (map snd items).
Proof. exact wrk_offset_pages_partition. Qed.
Print Assumptions C20_generated_wrkchain_offset_pages_partition.

Theorem C20_generated_wrkchain_key_pages_partition_reverse :
  forall (items : list (N * WT.go_WrkChain)) req (limit : N) (fuel : nat),
    Sorted N.lt (map fst items) ->
    1 <= limit -> limit + 1 < two64N -> N.of_nat (length items) < two64N ->
    (length items + 1 <= fuel)%nat ->
    all_pages_by_key_rev_cb fuel items (wrk_cb req) limit = rev (filter (wrk_list_flt req) (map snd items)).
Proof. exact wrk_key_pages_partition_rev. Qed.
Print Assumptions C20_generated_wrkchain_key_pages_partition_reverse.

Theorem C20_generated_wrkchain_offset_pages_partition_reverse :
  forall (items : list (N * WT.go_WrkChain)) req (limit : N) (fuel : nat),
    1 <= limit -> N.of_nat (length items) + limit + 1 < two64N ->
    (length items + 1 <= fuel)%nat ->
    all_pages_by_offset_rev_cb fuel items (wrk_cb req) limit = rev (filter (wrk_list_flt req) (map snd items)).
Proof. exact wrk_offset_pages_partition_rev. Qed.
Print Assumptions C20_generated_wrkchain_offset_pages_partition_reverse.

(* a single page: the handler's slice is the values of a duplicate-free list of stored entries matching the filter,
   no longer than the effective limit *)
Theorem C20_generated_wrkchain_single_page_sound :
  forall (items : list (N * WT.go_WrkChain)) req (preq : page_req) r,
    Sorted N.lt (map fst items) ->
    list_query_cb items (wrk_cb req) preq = Ok r ->
    exists its : list (N * WT.go_WrkChain),
      cres_state r = map snd its /\
      (forall x, In x its -> In x items /\ wrk_list_flt req (snd x) = true) /\
      NoDup its /\
      (pr_offset preq < two64N -> pr_limit preq < two64N -> N.of_nat (length items) < two64N ->
       (length (cres_state r) <= N.to_nat (eff_limit preq))%nat).
Proof. exact wrk_single_page_sound. Qed.
Print Assumptions C20_generated_wrkchain_single_page_sound.

Theorem C20_generated_wrkchain_total_count :
  forall (items : list (N * WT.go_WrkChain)) req (preq : page_req) r,
    (match pr_key preq with KeyAt _ => False | _ => True end) ->
    (pr_count_total preq = true \/ pr_limit preq = 0) ->
    N.of_nat (length items) < two64N ->
    list_query_cb items (wrk_cb req) preq = Ok r ->
    cres_total r = N.of_nat (length (filter (wrk_list_flt req) (map snd items))).
Proof. exact wrk_total_count. Qed.
Print Assumptions C20_generated_wrkchain_total_count.

(* ---- x/beacon ---- *)

Theorem C20_generated_beacon_key_pages_partition :
  forall (items : list (N * BT.go_Beacon)) req (limit : N) (fuel : nat),
    Sorted N.lt (map fst items) ->
    1 <= limit -> limit + 1 < two64N -> N.of_nat (length items) < two64N ->
    (length items + 1 <= fuel)%nat ->
    all_pages_by_key_cb fuel items (bcn_cb req) limit = filter (bcn_list_flt req) (map snd items).
Proof. exact bcn_key_pages_partition. Qed.
Print Assumptions C20_generated_beacon_key_pages_partition.

Theorem C20_generated_beacon_offset_pages_partition :
  forall (items : list (N * BT.go_Beacon)) req (limit : N) (fuel : nat),
    1 <= limit -> N.of_nat (length items) + limit + 1 < two64N ->
    (length items + 1 <= fuel)%nat ->
    all_pages_by_offset_cb fuel items (bcn_cb req) limit = filter (bcn_list_flt req) (map snd items).
Proof. exact bcn_offset_pages_partition. Qed.
Print Assumptions C20_generated_beacon_offset_pages_partition.

Theorem C20_generated_beacon_key_pages_partition_reverse :
  forall (items : list (N * BT.go_Beacon)) req (limit : N) (fuel : nat),
    Sorted N.lt (map fst items) ->
    1 <= limit -> limit + 1 < two64N -> N.of_nat (length items) < two64N ->
    (length items + 1 <= fuel)%nat ->
    all_pages_by_key_rev_cb fuel items (bcn_cb req) limit = rev (filter (bcn_list_flt req) (map snd items)).
Proof. exact bcn_key_pages_partition_rev. Qed.
Print Assumptions C20_generated_beacon_key_pages_partition_reverse.

Theorem C20_generated_beacon_offset_pages_partition_reverse :
  forall (items : list (N * BT.go_Beacon)) req (limit : N) (fuel : nat),
    1 <= limit -> N.of_nat (length items) + limit + 1 < two64N ->
    (length items + 1 <= fuel)%nat ->
    all_pages_by_offset_rev_cb fuel items (bcn_cb req) limit = rev (filter (bcn_list_flt req) (map snd items)).
Proof. exact bcn_offset_pages_partition_rev. Qed.
Print Assumptions C20_generated_beacon_offset_pages_partition_reverse.

Theorem C20_generated_beacon_single_page_sound :
  forall (items : list (N * BT.go_Beacon)) req (preq : page_req) r,
    Sorted N.lt (map fst items) ->
    list_query_cb items (bcn_cb req) preq = Ok r ->
    exists its : list (N * BT.go_Beacon),
      cres_state r = map snd its /\
      (forall x, In x its -> In x items /\ bcn_list_flt req (snd x) = true) /\
      NoDup its /\
      (pr_offset preq < two64N -> pr_limit preq < two64N -> N.of_nat (length items) < two64N ->
       (length (cres_state r) <= N.to_nat (eff_limit preq))%nat).
Proof. exact bcn_single_page_sound. Qed.
Print Assumptions C20_generated_beacon_single_page_sound.

Theorem C20_generated_beacon_total_count :
  forall (items : list (N * BT.go_Beacon)) req (preq : page_req) r,
    (match pr_key preq with KeyAt _ => False | _ => True end) ->
    (pr_count_total preq = true \/ pr_limit preq = 0) ->
    N.of_nat (length items) < two64N ->
    list_query_cb items (bcn_cb req) preq = Ok r ->
    cres_total r = N.of_nat (length (filter (bcn_list_flt req) (map snd items))).
Proof. exact bcn_total_count. Qed.
Print Assumptions C20_generated_beacon_total_count.

(* ---- x/enterprise purchase orders ---- *)

Theorem C20_generated_enterprise_key_pages_partition :
  forall (items : list (N * ET.go_EnterpriseUndPurchaseOrder)) req (limit : N) (fuel : nat),
    Sorted N.lt (map fst items) ->
    1 <= limit -> limit + 1 < two64N -> N.of_nat (length items) < two64N ->
    (length items + 1 <= fuel)%nat ->
    all_pages_by_key_cb fuel items (ent_cb req) limit = filter (ent_po_flt req) (map snd items).
Proof. exact ent_key_pages_partition. Qed.
Print Assumptions C20_generated_enterprise_key_pages_partition.

Theorem C20_generated_enterprise_offset_pages_partition :
  forall (items : list (N * ET.go_EnterpriseUndPurchaseOrder)) req (limit : N) (fuel : nat),
    1 <= limit -> N.of_nat (length items) + limit + 1 < two64N ->
    (length items + 1 <= fuel)%nat ->
    all_pages_by_offset_cb fuel items (ent_cb req) limit = filter (ent_po_flt req) (map snd items).
Proof. exact ent_offset_pages_partition. Qed.
Print Assumptions C20_generated_enterprise_offset_pages_partition.

Theorem C20_generated_enterprise_key_pages_partition_reverse :
  forall (items : list (N * ET.go_EnterpriseUndPurchaseOrder)) req (limit : N) (fuel : nat),
    Sorted N.lt (map fst items) ->
    1 <= limit -> limit + 1 < two64N -> N.of_nat (length items) < two64N ->
    (length items + 1 <= fuel)%nat ->
    all_pages_by_key_rev_cb fuel items (ent_cb req) limit = rev (filter (ent_po_flt req) (map snd items)).
Proof. exact ent_key_pages_partition_rev. Qed.
Print Assumptions C20_generated_enterprise_key_pages_partition_reverse.

Theorem C20_generated_enterprise_offset_pages_partition_reverse :
  forall (items : list (N * ET.go_EnterpriseUndPurchaseOrder)) req (limit : N) (fuel : nat),
    1 <= limit -> N.of_nat (length items) + limit + 1 < two64N ->
    (length items + 1 <= fuel)%nat ->
    all_pages_by_offset_rev_cb fuel items (ent_cb req) limit = rev (filter (ent_po_flt req) (map snd items)).
Proof. exact ent_offset_pages_partition_rev. Qed.
Print Assumptions C20_generated_enterprise_offset_pages_partition_reverse.

Theorem C20_generated_enterprise_single_page_sound :
  forall (items : list (N * ET.go_EnterpriseUndPurchaseOrder)) req (preq : page_req) r,
    Sorted N.lt (map fst items) ->
    list_query_cb items (ent_cb req) preq = Ok r ->
    exists its : list (N * ET.go_EnterpriseUndPurchaseOrder),
      cres_state r = map snd its /\
      (forall x, In x its -> In x items /\ ent_po_flt req (snd x) = true) /\
      NoDup its /\
      (pr_offset preq < two64N -> pr_limit preq < two64N -> N.of_nat (length items) < two64N ->
       (length (cres_state r) <= N.to_nat (eff_limit preq))%nat).
Proof. exact ent_single_page_sound. Qed.
Print Assumptions C20_generated_enterprise_single_page_sound.

Theorem C20_generated_enterprise_total_count :
  forall (items : list (N * ET.go_EnterpriseUndPurchaseOrder)) req (preq : page_req) r,
    (match pr_key preq with KeyAt _ => False | _ => True end) ->
    (pr_count_total preq = true \/ pr_limit preq = 0) ->
    N.of_nat (length items) < two64N ->
    list_query_cb items (ent_cb req) preq = Ok r ->
    cres_total r = N.of_nat (length (filter (ent_po_flt req) (map snd items))).
Proof. exact ent_total_count. Qed.
Print Assumptions C20_generated_enterprise_total_count.

(* ---- example: five WRKChains (ids = store keys 1..5) of two owners (7 and 8), the generated callback of the request
        "owner = 7, any moniker", limit 2 ---- *)
Definition ex_wc (id : Z) (moniker : string) (owner : go_addr) : WT.go_WrkChain :=
  WT.set_WrkChain_Owner (WT.set_WrkChain_Moniker (WT.set_WrkChain_WrkchainId WT.zero_go_WrkChain id) moniker) owner.
Arguments ex_wc id%Z moniker%string owner%Z.
Definition ex_wrk_store : list (N * WT.go_WrkChain) :=
  [(1, ex_wc 1 "a" 7); (2, ex_wc 2 "b" 8); (3, ex_wc 3 "c" 7); (4, ex_wc 4 "d" 7); (5, ex_wc 5 "e" 8)].
Definition ex_wrk_req (moniker : string) (owner : go_addr) : WT.go_QueryWrkChainsFilteredRequest :=
  WT.set_QueryWrkChainsFilteredRequest_Owner
    (WT.set_QueryWrkChainsFilteredRequest_Moniker WT.zero_go_QueryWrkChainsFilteredRequest moniker) owner.
Arguments ex_wrk_req moniker%string owner%Z.
Definition ex_preq k o l ct rv : page_req :=
  {| pr_key := k; pr_offset := o; pr_limit := l; pr_count_total := ct; pr_reverse := rv |}.

(* first page (no key): chains 1 and 3, NextKey = key of the third matching chain *)
Example ex_wrk_page1 : list_query_cb ex_wrk_store (wrk_cb (ex_wrk_req "" 7)) (ex_preq KeyNil 0 2 false false)
  = Ok {| cres_state := [ex_wc 1 "a" 7; ex_wc 3 "c" 7]; cres_next_key := Some 4; cres_total := 0 |}.
Proof. vm_compute. reflexivity. Qed.
(* second page by key: chain 4, end of the listing *)
Example ex_wrk_page2_key : list_query_cb ex_wrk_store (wrk_cb (ex_wrk_req "" 7)) (ex_preq (KeyAt 4) 0 2 false false)
  = Ok {| cres_state := [ex_wc 4 "d" 7]; cres_next_key := None; cres_total := 0 |}.
Proof. vm_compute. reflexivity. Qed.
(* second page by offset, with count_total *)
Example ex_wrk_page2_offset : list_query_cb ex_wrk_store (wrk_cb (ex_wrk_req "" 7)) (ex_preq KeyNil 2 2 true false)
  = Ok {| cres_state := [ex_wc 4 "d" 7]; cres_next_key := None; cres_total := 3 |}.
Proof. vm_compute. reflexivity. Qed.
(* owner and moniker together; reverse *)
Example ex_wrk_moniker : list_query_cb ex_wrk_store (wrk_cb (ex_wrk_req "c" 7)) (ex_preq KeyNil 0 2 false false)
  = Ok {| cres_state := [ex_wc 3 "c" 7]; cres_next_key := None; cres_total := 0 |}.
Proof. vm_compute. reflexivity. Qed.
Example ex_wrk_rev_page1 : list_query_cb ex_wrk_store (wrk_cb (ex_wrk_req "" 7)) (ex_preq KeyNil 0 2 false true)
  = Ok {| cres_state := [ex_wc 4 "d" 7; ex_wc 3 "c" 7]; cres_next_key := Some 1; cres_total := 0 |}.
Proof. vm_compute. reflexivity. Qed.
(* the whole walks *)
Example ex_wrk_all_key : all_pages_by_key_cb 6 ex_wrk_store (wrk_cb (ex_wrk_req "" 7)) 2
  = [ex_wc 1 "a" 7; ex_wc 3 "c" 7; ex_wc 4 "d" 7].
Proof. vm_compute. reflexivity. Qed.
Example ex_wrk_all_offset : all_pages_by_offset_cb 6 ex_wrk_store (wrk_cb (ex_wrk_req "" 8)) 2
  = [ex_wc 2 "b" 8; ex_wc 5 "e" 8].
Proof. vm_compute. reflexivity. Qed.
(* the callback's captured slice is threaded, not reset: called with a non-empty slice it appends to it *)
Example ex_wrk_from : filtered_paginate_cb ex_wrk_store (wrk_cb (ex_wrk_req "" 8)) (ex_preq KeyNil 0 1 false false) [ex_wc 9 "z" 9]
  = Ok {| cres_state := [ex_wc 9 "z" 9; ex_wc 2 "b" 8]; cres_next_key := Some 5; cres_total := 0 |}.
Proof. vm_compute. reflexivity. Qed.
