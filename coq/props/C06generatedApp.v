(* C06, generated application: the C06 theorems (a WRKChain / BEACON transaction accepted by CheckTx pays exactly the
   fee the current parameters prescribe, and the payer can afford it from liquid plus locked funds; a purchase of 2^63
   slots or more is never accepted) hold of the CheckTx of the application that runs the GENERATED code (the generated
   ante decorators included).
   The application assembled from the code generated from /repo (model/GeneratedApp.v: go_deliver_tx, go_check_tx,
   go_begin_block, go_end_block, go_ante, go_node_step, go_node_run) is the hand-written application of model/App.v under
   the hypotheses below (proofs/GeneratedAppEq.v; props/C01generatedApp.v); each theorem here is that equality followed by
   the theorem about the model (proofs/GeneratedAppTransport.v).
   Hypotheses (proofs/GeneratedAppEq.v; app_inv, tx_wf, op_wf, hist_wf, begin_wf, end_wf: proofs/AppInv.v):
     gen_inv B a     app_inv a and the registries' invariants and the machine-integer bounds the generated code relies on
                     (counters and numbers of decisions at most B, registry fees below 2^63, len(signers) an int);
     gnode_inv B n   gen_inv B of the committed, check and (if any) deliver state of the node n;
     gmsg_ok m       a WRKChain record carries five hashes, a BEACON record one; the fields of a parameter update are in
                     range (for governance: fees below 2^63, maximum limit below 2^64); at every authz depth;
     gop_ok o, ghist_ok h   gmsg_ok of every message of the operation o / of every operation of the history h;
     B + hist_size h < two63 (one transaction: B + leaves_l (tx_msgs t) < two63; BeginBlock: B < two63)
                     hist_size h = number of leaf messages of the delivered transactions of h: no counter reaches 2^63. *)
From Coq Require Import ZArith Lia List String Bool.
From MC Require Import lib.Prelude lib.AMap lib.GoSdk model.Bank model.Stream model.StreamSpec model.Registry
  model.RegistrySpec model.Enterprise model.EnterpriseSpec model.App model.AppSpec model.GeneratedApp.
From MC Require Import proofs.BankProofs proofs.AppFrame proofs.AppParamsProofs proofs.AppAuthProofs proofs.AppFeeProofs
  proofs.AppInv proofs.AppLockedProofs proofs.AppSupplyProofs proofs.AppCrashProofs.
From MC Require Import proofs.GeneratedAppEq proofs.GeneratedAppTransport.
Import ListNotations.
Local Open Scope Z_scope.

Theorem C06_generatedapp_exact_fee_wrk : forall B a t a',
  gen_inv B a -> tx_wf t -> Forall gmsg_ok (tx_msgs t) ->
  go_check_tx a t = (a', TxOk) -> has_wrk t = true ->
  exists amt, fee_find (tx_fee t) (rp_denom (r_params (a_wrk a))) = Some (rp_denom (r_params (a_wrk a)), amt) /\
    amt = expected_fee pick_wrk (a_wrk a) t /\
    amt <= balance (a_bank a) (tx_payer t) (rp_denom (r_params (a_wrk a))) +
           (if fst (locked_coin (a_ent a) (tx_payer t)) =? rp_denom (r_params (a_wrk a))
            then snd (locked_coin (a_ent a) (tx_payer t)) else 0).
Proof. exact gen_exact_fee_wrk. Qed.
Print Assumptions C06_generatedapp_exact_fee_wrk.

Theorem C06_generatedapp_exact_fee_bcn : forall B a t a',
  gen_inv B a -> tx_wf t -> Forall gmsg_ok (tx_msgs t) ->
  go_check_tx a t = (a', TxOk) -> has_bcn t = true ->
  exists amt, fee_find (tx_fee t) (rp_denom (r_params (a_bcn a))) = Some (rp_denom (r_params (a_bcn a)), amt) /\
    amt = expected_fee pick_bcn (a_bcn a) t /\
    amt <= balance (a_bank a) (tx_payer t) (rp_denom (r_params (a_bcn a))) +
           (if fst (locked_coin (a_ent a) (tx_payer t)) =? rp_denom (r_params (a_bcn a))
            then snd (locked_coin (a_ent a) (tx_payer t)) else 0).
Proof. exact gen_exact_fee_bcn. Qed.
Print Assumptions C06_generatedapp_exact_fee_bcn.

(* a purchase of 2^63 slots or more is never accepted by the generated CheckTx, and leaves the check state as it was *)
Theorem C06_generatedapp_overflow_slots_rejected : forall B a t o id n,
  gen_inv B a -> tx_wf t -> Forall gmsg_ok (tx_msgs t) ->
  (In (MWrk (RPurchase o id n)) (tx_msgs t) \/ In (MBcn (RPurchase o id n)) (tx_msgs t)) -> two63 <= n ->
  exists r, go_check_tx a t = (a, r) /\ r <> TxOk.
Proof. exact gen_overflow_slots_rejected. Qed.
Print Assumptions C06_generatedapp_overflow_slots_rejected.
