(* Source-derived obligations of C09wiring: facts read from /repo by the translator on every run (coq/Generated.v), re-checked here. *)
From Coq Require Import List String ZArith.
From MC Require Import lib.Reach Generated proofs.Wiring.
Import ListNotations.
Open Scope string_scope.

Theorem C09_starting_ids : ltac:(let T := type of wiring_consts in exact T).
Proof. exact wiring_consts. Qed.
Print Assumptions C09_starting_ids.
