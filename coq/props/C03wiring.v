(* Source-derived obligations of C03wiring: facts read from /repo by the translator on every run (coq/Generated.v), re-checked here. *)
From Coq Require Import List String ZArith.
From MC Require Import lib.Reach Generated proofs.Wiring.
Import ListNotations.
Open Scope string_scope.

Theorem C03_begin_blocker_order : ltac:(let T := type of wiring_enterprise_begin_blocker in exact T).
Proof. exact wiring_enterprise_begin_blocker. Qed.
Print Assumptions C03_begin_blocker_order.
