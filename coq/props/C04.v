(* C04 – locked eFUND books always balance.

   Model: model/Enterprise.v (locked.go: MintCoinsAndLock, UnlockCoinsForFees, increment/decrement
   of the locked and spent books) on model/Bank.v; vocabulary: model/EnterpriseSpec.v.
   Proofs: proofs/EnterpriseProofs.v (invariant [ent_inv]), proofs/EnterpriseC04.v.

   ENT_MACC is the enterprise module ("escrow") account.  [amount_coin s a m] is the amount booked
   for account [a] in the per-account table [m] (0 when absent); [completed_sum s a] is the sum of
   the amounts of [a]'s completed purchase orders.

   Note on fee unlocking: UnlockCoinsForFees undelegates *all* coins of the fee in its first branch;
   the escrow holds only the enterprise denomination, so a fee with another (positive) denomination
   makes that bank call fail, the ante stage fails and nothing changes (third clause of
   C04_unlock_exact_cases). *)
From MC Require Import lib.Prelude lib.AMap model.Bank model.Enterprise model.EnterpriseSpec
  proofs.EnterpriseProofs proofs.EnterpriseC03 proofs.EnterpriseC04 proofs.EnterpriseExamples.
Local Open Scope Z_scope.

(* ---------- 8. the books balance in every reachable world ---------- *)

Theorem C04_books_balance_reachable :
  forall b0 p start wl t0 h w,
    ent_params_valid p = true -> 1 <= start -> 0 <= t0 < two63 ->
    (forall d, balance b0 ENT_MACC d = 0) ->
    ent_hist_wf {| w_bank := b0; w_ent := ent_genesis p start wl; w_now := t0 |} h ->
    ent_run {| w_bank := b0; w_ent := ent_genesis p start wl; w_now := t0 |} h = Some w ->
    let s := w_ent w in
    let d := ep_denom (e_params s) in
    (* escrow balance = reported total locked = sum of the per-account locked amounts *)
    balance (w_bank w) ENT_MACC d = snd (total_locked s) /\
    snd (total_locked s) = asum snd (e_locked s) /\
    (* reported total spent = sum of the per-account spent amounts *)
    snd (total_spent s) = asum snd (e_spent s) /\
    (* per account: locked + spent = its completed purchase orders *)
    (forall a, amount_coin s a (e_locked s) + amount_coin s a (e_spent s) = completed_sum s a) /\
    (* the escrow holds nothing else *)
    (forall d', d' <> d -> balance (w_bank w) ENT_MACC d' = 0) /\
    (* all booked coins carry the enterprise denomination and are non-negative *)
    fst (total_locked s) = d /\ fst (total_spent s) = d /\
    0 <= snd (total_locked s) /\ 0 <= snd (total_spent s) /\
    (forall a c, aget a (e_locked s) = Some c -> fst c = d /\ 0 <= snd c) /\
    (forall a c, aget a (e_spent s) = Some c -> fst c = d /\ 0 <= snd c).
Proof.
  intros b0 p start wl t0 h w V S T B W R.
  exact (books_balance w (ent_inv_reachable b0 p start wl t0 h w V S T B W R)).
Qed.
Print Assumptions C04_books_balance_reachable.

(* the same for any world satisfying the invariant (every block boundary and in between) *)
Theorem C04_books_balance_inv :
  forall w, ent_inv w ->
    let s := w_ent w in
    let d := ep_denom (e_params s) in
    balance (w_bank w) ENT_MACC d = snd (total_locked s) /\
    snd (total_locked s) = asum snd (e_locked s) /\
    snd (total_spent s) = asum snd (e_spent s) /\
    (forall a, amount_coin s a (e_locked s) + amount_coin s a (e_spent s) = completed_sum s a) /\
    (forall d', d' <> d -> balance (w_bank w) ENT_MACC d' = 0) /\
    fst (total_locked s) = d /\ fst (total_spent s) = d /\
    0 <= snd (total_locked s) /\ 0 <= snd (total_spent s) /\
    (forall a c, aget a (e_locked s) = Some c -> fst c = d /\ 0 <= snd c) /\
    (forall a c, aget a (e_spent s) = Some c -> fst c = d /\ 0 <= snd c).
Proof. exact books_balance. Qed.
Print Assumptions C04_books_balance_inv.

(* ---------- 9. the escrow moves only by order completion and fee unlocking ---------- *)

Theorem C04_escrow_only_moves_by_completion_and_unlock :
  forall w o w',
    ent_inv w -> ent_op_wf w o -> ent_step w o = Some w' ->
    let d := ep_denom (e_params (w_ent w)) in
    (* messages and parameter changes: the whole bank is untouched *)
    ((exists m, o = OMsg m) \/ (exists p, o = OSetParams p) -> w_bank w' = w_bank w) /\
    (* BeginBlock: + the amounts of the orders accepted before the block, nothing else *)
    (forall now, o = OBegin now ->
       balance (w_bank w') ENT_MACC d = balance (w_bank w) ENT_MACC d +
         asum (fun po0 => if po_status po0 =? ST_ACCEPTED then po_amount po0 else 0) (e_pos (w_ent w)) /\
       (forall d', d' <> d -> balance (w_bank w') ENT_MACC d' = balance (w_bank w) ENT_MACC d') /\
       ep_denom (e_params (w_ent w')) = d) /\
    (* fee unlocking: - (locked before - locked after) of the payer, which also reaches the payer;
       that amount is min(fee, locked) when the ante step succeeds and the payer can cover the
       fee with liquid + locked funds, and 0 otherwise *)
    (forall payer fee, o = OUnlock payer fee ->
       let L := amount_coin (w_ent w) payer (e_locked (w_ent w)) in
       let L' := amount_coin (w_ent w') payer (e_locked (w_ent w')) in
       let f := fee_amount_of fee d in
       let liquid := balance (w_bank w) payer d in
       let u := L - L' in
       (forall d', balance (w_bank w') ENT_MACC d' =
                   balance (w_bank w) ENT_MACC d' - (if d' =? d then u else 0)) /\
       (forall d', balance (w_bank w') payer d' =
                   balance (w_bank w) payer d' + (if d' =? d then u else 0)) /\
       (u = 0 \/ u = Z.min f L) /\
       (fee_find fee d <> None -> (f <= L -> fee = [(d, f)]) -> f <= liquid + L -> u = Z.min f L)).
Proof.
  intros w o w' I W H. cbv zeta. split; [|split].
  - exact (escrow_msg_params w o w' I W H).
  - intros now ->. exact (escrow_begin w now w' I W H).
  - intros payer fee ->. exact (unlock_summary w payer fee w' I W H).
Qed.
Print Assumptions C04_escrow_only_moves_by_completion_and_unlock.

(* the exact case split UnlockCoinsForFees implements *)
Theorem C04_unlock_exact_cases :
  forall w payer fee w',
    ent_inv w -> ent_op_wf w (OUnlock payer fee) -> ent_step w (OUnlock payer fee) = Some w' ->
    let d := ep_denom (e_params (w_ent w)) in
    let L := amount_coin (w_ent w) payer (e_locked (w_ent w)) in
    let f := fee_amount_of fee d in
    let liquid := balance (w_bank w) payer d in
    (* no coin of the enterprise denomination in the fee: SafeSub of a nil coin panics, tx rejected *)
    (fee_find fee d = None -> w' = w) /\
    (* locked >= fee and the fee is that single coin: unlock exactly the fee *)
    (fee_find fee d <> None -> f <= L -> fee = [(d, f)] -> unlocked w w' payer f) /\
    (* locked >= fee but the fee carries other denominations too: the undelegation fails *)
    (fee_find fee d <> None -> f <= L -> fee <> [(d, f)] -> w' = w) /\
    (* locked < fee <= liquid + locked: unlock everything that is locked *)
    (fee_find fee d <> None -> L < f <= liquid + L -> unlocked w w' payer L) /\
    (* cannot pay anyway: nothing is unlocked *)
    (fee_find fee d <> None -> L < f -> liquid + L < f -> w' = w).
Proof. exact unlock_cases. Qed.
Print Assumptions C04_unlock_exact_cases.

(* ---------- 10. what unlocking [u] does to the books ([unlocked] spelled out) ---------- *)

Theorem C04_unlock_books :
  forall w w' payer u,
    unlocked w w' payer u -> 0 <= payer ->
    let s := w_ent w in let s' := w_ent w' in
    let d := ep_denom (e_params s) in
    amount_coin s' payer (e_locked s') = amount_coin s payer (e_locked s) - u /\
    amount_coin s' payer (e_spent s') = amount_coin s payer (e_spent s) + u /\
    snd (total_locked s') = snd (total_locked s) - u /\
    snd (total_spent s') = snd (total_spent s) + u /\
    balance (w_bank w') payer d = balance (w_bank w) payer d + u /\
    balance (w_bank w') ENT_MACC d = balance (w_bank w) ENT_MACC d - u /\
    (forall a, a <> payer -> aget a (e_locked s') = aget a (e_locked s) /\
                             aget a (e_spent s') = aget a (e_spent s)) /\
    (forall a d', a <> payer -> a <> ENT_MACC -> balance (w_bank w') a d' = balance (w_bank w) a d') /\
    (forall a d', d' <> d -> balance (w_bank w') a d' = balance (w_bank w) a d') /\
    (forall d', supply_of (w_bank w') d' = supply_of (w_bank w) d') /\
    e_pos s' = e_pos s /\ e_params s' = e_params s.
Proof. exact unlocked_books. Qed.
Print Assumptions C04_unlock_books.

(* ---------- 11. the escrow account is a blocked address ---------- *)

Theorem C04_blocked_escrow :
  blocked ENT_MACC = true /\
  (forall b x d amt, bank_send_m2a b x ENT_MACC d amt = Err ERR_UNAUTHORIZED).
Proof. exact (conj blocked_ENT_MACC bank_send_m2a_to_escrow). Qed.
Print Assumptions C04_blocked_escrow.

(* ---------- examples (scenario: proofs/EnterpriseExamples.v) ---------- *)
(* ex_obs id a w = (status of id, locked[a], spent[a], total locked, total spent, escrow,
                    a's liquid balance, supply) *)

Example C04_ex_hypotheses :
  ent_inv ex_genesis /\ ent_hist_wf ex_genesis ex_hist_stale /\
  exists w, ent_run ex_genesis ex_hist_stale = Some w /\ ent_inv w.
Proof.
  split; [exact ex_genesis_inv|]. split; [exact ex_hist_stale_wf|].
  destruct (ent_run ex_genesis ex_hist_stale) as [w|] eqn:R.
  - exists w. split; [reflexivity|].
    exact (ent_inv_run _ _ _ ex_genesis_inv ex_hist_stale_wf R).
  - exfalso. revert R. vm_compute. discriminate.
Qed.

(* completion of a 1000 nund order: locked[7] = total locked = escrow = 1000; supply 50 -> 1050;
   the purchaser's liquid 50 nund are untouched *)
Example C04_ex_completed :
  option_map (ex_obs 1 7) (ent_run ex_genesis (firstn 5 ex_hist_accept))
  = Some (ST_COMPLETED, 1000, 0, 1000, 0, 1000, 50, 1050).
Proof. vm_compute. reflexivity. Qed.

(* a 300 nund fee: locked 700, spent 300, escrow 700, liquid 50 + 300, supply unchanged *)
Example C04_ex_unlock :
  option_map (ex_obs 1 7) (ent_run ex_genesis ex_hist_accept)
  = Some (ST_COMPLETED, 700, 300, 700, 300, 700, 350, 1050).
Proof. vm_compute. reflexivity. Qed.

(* second branch: locked 700 < fee 1000 <= liquid 350 + locked 700: everything locked is unlocked *)
Example C04_ex_unlock_all :
  option_map (ex_obs 1 7) (ent_run ex_genesis (ex_hist_accept ++ [OUnlock 7 [(NUND, 1000)]]))
  = Some (ST_COMPLETED, 0, 1000, 0, 1000, 0, 1050, 1050).
Proof. vm_compute. reflexivity. Qed.

(* fee 2000 > liquid + locked: nothing is unlocked; a fee with a second denomination (17) while
   locked covers the nund part: the undelegation of the foreign coin fails, nothing changes *)
Example C04_ex_unlock_nothing :
  option_map (ex_obs 1 7) (ent_run ex_genesis (ex_hist_accept ++ [OUnlock 7 [(NUND, 2000)]]))
  = Some (ST_COMPLETED, 700, 300, 700, 300, 700, 350, 1050) /\
  option_map (ex_obs 1 7) (ent_run ex_genesis (ex_hist_accept ++ [OUnlock 7 [(NUND, 100); (17, 5)]]))
  = Some (ST_COMPLETED, 700, 300, 700, 300, 700, 350, 1050).
Proof. split; vm_compute; reflexivity. Qed.
