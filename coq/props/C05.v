(* C05: locked eFUND can be spent only as WRKChain / BEACON transaction fees.
   A transaction reduces its fee payer's locked eFUND only if it carries a top-level WRKChain or
   BEACON message and passes every pre-execution check, and then by exactly
   min(fee in the enterprise denomination, locked amount), which is booked as spent; nobody else's
   locked balance moves; a transaction rejected before execution changes nothing; no message of any
   type (nested or not, parameter updates included) moves the locked / spent books; completing a
   purchase order never changes an ordinary account's spendable balance.
   app_inv, tx_wf, begin_wf : proofs/AppInv.v. *)
From MC Require Import lib.Prelude lib.AMap model.Bank model.Stream model.StreamSpec model.Registry
  model.Enterprise model.EnterpriseSpec model.App model.AppSpec.
From MC Require Import proofs.AppInv proofs.AppSupplyProofs proofs.AppLockedProofs.
Local Open Scope Z_scope.

(* ---- the unlock rule, for every account x ---- *)
Theorem C05_unlock_rule : forall a t a' r,
  app_inv a -> tx_wf t -> deliver_tx a t = (a', r) ->
  forall x,
    let l := snd (locked_coin (a_ent a) x) in
    let l' := snd (locked_coin (a_ent a') x) in
    l' <= l /\
    (l' < l ->
       x = tx_payer t /\ is_registry_tx t = true /\ (exists a1, ante false a t = Ok a1) /\
       l - l' = Z.min (fee_amount_of (tx_fee t) (ep_denom (e_params (a_ent a)))) l /\
       snd (spent_coin (a_ent a') x) - snd (spent_coin (a_ent a) x) = l - l').
Proof. exact unlock_rule. Qed.
Print Assumptions C05_unlock_rule.

(* the same rule on the check state *)
Theorem C05_check_tx_same_rule : forall a t a' r,
  app_inv a -> tx_wf t -> check_tx a t = (a', r) ->
  forall x,
    let l := snd (locked_coin (a_ent a) x) in
    let l' := snd (locked_coin (a_ent a') x) in
    l' <= l /\
    (l' < l ->
       x = tx_payer t /\ is_registry_tx t = true /\ (exists a1, ante true a t = Ok a1) /\
       l - l' = Z.min (fee_amount_of (tx_fee t) (ep_denom (e_params (a_ent a)))) l /\
       snd (spent_coin (a_ent a') x) - snd (spent_coin (a_ent a) x) = l - l').
Proof. exact check_tx_same_rule. Qed.
Print Assumptions C05_check_tx_same_rule.

(* the whole effect of a delivered transaction on the books and the escrow is one number u *)
Theorem C05_deliver_unlocks_one_amount : forall a t a' r,
  deliver_tx a t = (a', r) -> app_inv a -> tx_wf t ->
  exists u,
    (0 <= u <= snd (locked_coin (a_ent a) (tx_payer t)) /\
     (u <> 0 -> is_registry_tx t = true /\
                u = Z.min (fee_amount_of (tx_fee t) (ep_denom (e_params (a_ent a))))
                          (snd (locked_coin (a_ent a) (tx_payer t)))) /\
     (forall x, snd (locked_coin (a_ent a') x) = snd (locked_coin (a_ent a) x) - (if x =? tx_payer t then u else 0)) /\
     (forall x, snd (spent_coin (a_ent a') x) = snd (spent_coin (a_ent a) x) + (if x =? tx_payer t then u else 0)) /\
     (forall d', balance (a_bank a') ENT_MACC d' =
                 balance (a_bank a) ENT_MACC d' - (if d' =? ep_denom (e_params (a_ent a)) then u else 0)) /\
     snd (total_locked (a_ent a')) = snd (total_locked (a_ent a)) - u /\
     snd (total_spent (a_ent a')) = snd (total_spent (a_ent a)) + u) /\
    (u <> 0 -> exists a1, ante false a t = Ok a1).
Proof. exact deliver_rule. Qed.
Print Assumptions C05_deliver_unlocks_one_amount.

(* ---- a transaction rejected before execution changes nothing ---- *)
Theorem C05_rejected_tx_changes_nothing : forall a t a' r,
  deliver_tx a t = (a', r) ->
  (exists c, r = TxRejected c \/ r = TxPanicked 0 c \/ r = TxPanicked 1 c) -> a' = a.
Proof. exact rejected_tx_changes_nothing. Qed.
Print Assumptions C05_rejected_tx_changes_nothing.

(* ---- no message type moves locked eFUND ---- *)
Theorem C05_messages_never_move_locked : forall f a m a',
  exec_msg f a m = Ok a' ->
  e_locked (a_ent a') = e_locked (a_ent a) /\ e_spent (a_ent a') = e_spent (a_ent a) /\
  e_totlocked (a_ent a') = e_totlocked (a_ent a) /\ e_totspent (a_ent a') = e_totspent (a_ent a).
Proof. exact messages_never_move_locked. Qed.
Print Assumptions C05_messages_never_move_locked.

(* ---- completing purchase orders leaves every ordinary account's spendable balance alone ---- *)
Theorem C05_completion_keeps_spendable : forall a now a',
  app_inv a -> begin_wf a now -> begin_block a now = Some a' ->
  forall x d, 0 <= x -> balance (a_bank a') x d = balance (a_bank a) x d.
Proof. exact completion_keeps_spendable. Qed.
Print Assumptions C05_completion_keeps_spendable.

(* what it does instead: the purchaser's locked balance rises by the accepted amounts *)
Theorem C05_completion_locks : forall a now a',
  app_inv a -> begin_wf a now -> begin_block a now = Some a' ->
  forall x, snd (locked_coin (a_ent a') x) - snd (locked_coin (a_ent a) x) =
            asum (fun o => if (po_status o =? ST_ACCEPTED) && (po_purchaser o =? x) then po_amount o else 0)
                 (e_pos (a_ent a)).
Proof. exact completion_locks. Qed.
Print Assumptions C05_completion_locks.

(* ---- examples (scenario: proofs/AppInv.v) ---- *)
Example C05_ex_hypotheses : app_inv ex_g /\ hist_wf (node_init ex_g) ex_hist /\ tx_wf ex_tx_register.
Proof.
  refine (conj ex_g_inv (conj ex_hist_wf_ok _)).
  constructor; cbn; [repeat constructor; cbn; lia | intros ? [=] | repeat constructor; cbn; tauto].
Qed.

(* (liquid balance of 1, locked[1], spent[1], escrow) of the deliver state *)
Definition ex_obs5 (n : node) :=
  option_map (fun a => (balance (a_bank a) 1 NUND, snd (locked_coin (a_ent a) 1), snd (spent_coin (a_ent a) 1),
                        balance (a_bank a) ENT_MACC NUND)) (n_deliver n).

(* block 3: completion locks 3000 without touching the liquid 10000; the registration fee of 1000
   is taken from the locked part (min(1000, 3000)) and booked as spent; the stream tx, not being a
   WRKChain/BEACON tx, pays its fee of 2 and its deposit of 6000 from liquid funds only *)
Example C05_ex_unlock :
  option_map ex_obs5 (node_run (node_init ex_g) (firstn 9 ex_hist)) = Some (Some (10000, 3000, 0, 3000)) /\
  option_map ex_obs5 (node_run (node_init ex_g) (firstn 11 ex_hist)) = Some (Some (10000, 2000, 1000, 2000)) /\
  option_map ex_obs5 (node_run (node_init ex_g) (firstn 12 ex_hist)) = Some (Some (3998, 2000, 1000, 2000)).
Proof. vm_compute. repeat split; reflexivity. Qed.

(* CheckTx applies the same rule to the check state (which has not seen the completion yet: nothing locked) *)
Example C05_ex_check_state :
  option_map (fun n => snd (locked_coin (a_ent (n_check n)) 1)) (node_run (node_init ex_g) (firstn 10 ex_hist)) = Some 0.
Proof. vm_compute. reflexivity. Qed.

(* a fee above locked + liquid: rejected before execution, nothing moves *)
Example C05_ex_rejected :
  exists n, node_run (node_init ex_g) (firstn 9 ex_hist) = Some n /\
    match n_deliver n with
    | Some a =>
        let t := ex_tx [MWrk (RRegister 2 "m"%string "n"%string "g"%string "t"%string)] [(NUND, 1000)] in
        deliver_tx a t = (a, TxRejected ERR_FEE_FUNDS)
    | None => False
    end.
Proof. eexists. split; [vm_compute; reflexivity|]. vm_compute. reflexivity. Qed.
