(* C18, store layer of x/stream, REFINEMENT: the store accessors of /repo/x/stream/keeper/{stream.go,params.go} as generated
   on every run (GeneratedStreamStore.v: go_st_GetParams, go_st_SetParams, go_st_SetStream, go_st_IsStream,
   go_st_GetStream, go_st_DeleteStream, go_st_IterateAllStreams over the ordered byte-keyed store of model/KVStore.v)
   IMPLEMENT the hand-written primitives of model/StreamKeeperPrims.v (str_GetParams, str_SetParams, str_SetStream,
   str_IsStream, str_GetStream, str_DeleteStream, str_AllStreams over the abstract state of model/Stream.v) that the
   keeper-level translation GeneratedStreamKeeper.v and every theorem above it are written against.

   Given (explicit in every statement):
       dom : Z -> Prop       the abstract addresses in use           emb : Z -> list N     their address bytes
       on dom: 1 <= length (emb a) <= 255, and emb injective.
   Rstr dom emb s st ("the byte store s represents the abstract state st") is spelled out by
   C18_store_stream_refines_relation below.  Shown necessary by examples: emb injective, both length bounds, no key
   twice in the abstract association list.
   The listing: the store lists in KEY order, the abstract association list is in INSERTION order; they agree as a
   Permutation, and exactly once the abstract listing is sorted by store key (ksort: insertion sort in the bytes.Compare
   order of the stream key).
   Histories: sop = one accessor call on abstract addresses (SetStream / DeleteStream / SetParams / GetStream / IsStream /
   GetParams / AllStreams); astep emb = the primitive, cstep emb = the generated accessor on the embedded addresses
   (C18_store_stream_refines_steps spells both out); run step s ops threads the state, keeps every result in a trace,
   continues after an Err with the state unchanged, stops at a Panic.
   Proofs: proofs/GeneratedStreamStoreRefines.v. *)
From MC Require Import lib.Prelude lib.AMap lib.GoSdk model.Keys model.KeyPrims model.KVStore model.StoreCodecPrims
  model.Bank model.Stream model.StreamKeeperPrims
  GeneratedKeys GeneratedStreamTypes GeneratedStreamKeeper GeneratedStreamStore
  proofs.KVStoreFacts proofs.KVStoreFacts2Stream proofs.GeneratedStreamStoreEq proofs.GeneratedStreamStoreRefines.
From Coq Require Import NArith ZArith List Bool Permutation.
Import ListNotations.
Local Open Scope Z_scope.

(* ------------------------------------------------------------------ *)
(* the representation relation, in full                                 *)
(* ------------------------------------------------------------------ *)

Theorem C18_store_stream_refines_relation :
  forall (dom : Z -> Prop) (emb : Z -> list N) (s : okv stream_val) (st : str_state),
  Rstr dom emb s st <->
  ( okv_sorted s = true /\
    ( okv_get s stream_ParamsKey = Some (SV_Params (mk_go_Params (s_valfee st))) \/
      (okv_get s stream_ParamsKey = None /\ s_valfee st = 0) ) /\
    (forall r sn : Z, dom r -> dom sn ->
       okv_get s (str_encode (SkStream (emb r) (emb sn))) =
       option_map (fun x => SV_Stream (to_go_stream x)) (aget (r, sn) (s_streams st))) /\
    (forall k v, In (k, v) s -> is_prefix stream_StreamKeyPrefix k = true ->
       exists r sn : Z, dom r /\ dom sn /\ k = str_encode (SkStream (emb r) (emb sn))) /\
    NoDup (akeys (s_streams st)) /\
    (forall r sn : Z, In (r, sn) (akeys (s_streams st)) -> dom r /\ dom sn) ).
Proof. exact (fun dom emb s st => iff_refl (Rstr dom emb s st)). Qed.
Print Assumptions C18_store_stream_refines_relation.

(* the protobuf struct and the model's record carry the same data *)
Theorem C18_store_stream_refines_codec :
  (forall g : go_Stream, to_go_stream (of_go_stream g) = g) /\ (forall x : stream, of_go_stream (to_go_stream x) = x).
Proof. exact (conj to_of_go_stream of_to_go_stream). Qed.
Print Assumptions C18_store_stream_refines_codec.

(* ------------------------------------------------------------------ *)
(* readers agree                                                        *)
(* ------------------------------------------------------------------ *)

Theorem C18_store_stream_refines_GetStream :
  forall (dom : Z -> Prop) (emb : Z -> list N),
  (forall a, dom a -> (1 <= length (emb a) <= 255)%nat) ->
  forall (s : okv stream_val) (w : kworld) (r sn : Z),
  Rstr dom emb s (kw_str w) -> dom r -> dom sn ->
  go_st_GetStream s (emb r) (emb sn) = Ok (str_GetStream w r sn).
Proof. exact GetStream_refines. Qed.
Print Assumptions C18_store_stream_refines_GetStream.

Theorem C18_store_stream_refines_IsStream :
  forall (dom : Z -> Prop) (emb : Z -> list N),
  (forall a, dom a -> (1 <= length (emb a) <= 255)%nat) ->
  forall (s : okv stream_val) (w : kworld) (r sn : Z),
  Rstr dom emb s (kw_str w) -> dom r -> dom sn ->
  go_st_IsStream s (emb r) (emb sn) = Ok (str_IsStream w r sn).
Proof. exact IsStream_refines. Qed.
Print Assumptions C18_store_stream_refines_IsStream.

Theorem C18_store_stream_refines_GetParams :
  forall (dom : Z -> Prop) (emb : Z -> list N) (s : okv stream_val) (w : kworld),
  Rstr dom emb s (kw_str w) -> go_st_GetParams s = Ok (str_GetParams w).
Proof. exact GetParams_refines. Qed.
Print Assumptions C18_store_stream_refines_GetParams.

(* ------------------------------------------------------------------ *)
(* writers simulate: same Ok / Err / Panic, same code, related states   *)
(* ------------------------------------------------------------------ *)

Theorem C18_store_stream_refines_SetStream :
  forall (dom : Z -> Prop) (emb : Z -> list N),
  (forall a, dom a -> (1 <= length (emb a) <= 255)%nat) ->
  (forall a b, dom a -> dom b -> emb a = emb b -> a = b) ->
  forall (s : okv stream_val) (w : kworld) (r sn : Z) (g : go_Stream),
  Rstr dom emb s (kw_str w) -> dom r -> dom sn ->
  match str_SetStream w r sn g, go_st_SetStream s (emb r) (emb sn) g with
  | Ok a, Ok c => Rstr dom emb (fst c) (kw_str (fst a))
  | Err e, Err e' => e = e'
  | Panic p, Panic p' => p = p'
  | _, _ => False
  end.
Proof. exact SetStream_refines. Qed.
Print Assumptions C18_store_stream_refines_SetStream.

Theorem C18_store_stream_refines_DeleteStream :
  forall (dom : Z -> Prop) (emb : Z -> list N),
  (forall a, dom a -> (1 <= length (emb a) <= 255)%nat) ->
  (forall a b, dom a -> dom b -> emb a = emb b -> a = b) ->
  forall (s : okv stream_val) (w : kworld) (r sn : Z),
  Rstr dom emb s (kw_str w) -> dom r -> dom sn ->
  match str_DeleteStream w r sn, go_st_DeleteStream s (emb r) (emb sn) with
  | Ok a, Ok c => Rstr dom emb (fst c) (kw_str (fst a))
  | Err e, Err e' => e = e'
  | Panic p, Panic p' => p = p'
  | _, _ => False
  end.
Proof. exact DeleteStream_refines. Qed.
Print Assumptions C18_store_stream_refines_DeleteStream.

Theorem C18_store_stream_refines_SetParams :
  forall (dom : Z -> Prop) (emb : Z -> list N) (s : okv stream_val) (w : kworld) (p : go_Params),
  Rstr dom emb s (kw_str w) ->
  match str_SetParams w p, go_st_SetParams s p with
  | Ok a, Ok c => Rstr dom emb (fst c) (kw_str (fst a))
  | Err e, Err e' => e = e'
  | Panic q, Panic q' => q = q'
  | _, _ => False
  end.
Proof. exact SetParams_refines. Qed.
Print Assumptions C18_store_stream_refines_SetParams.

(* ------------------------------------------------------------------ *)
(* listing                                                              *)
(* ------------------------------------------------------------------ *)

Theorem C18_store_stream_refines_listing_perm :
  forall (dom : Z -> Prop) (emb : Z -> list N),
  (forall a, dom a -> (1 <= length (emb a) <= 255)%nat) ->
  (forall a b, dom a -> dom b -> emb a = emb b -> a = b) ->
  forall (s : okv stream_val) (w : kworld),
  Rstr dom emb s (kw_str w) ->
  exists L, go_st_IterateAllStreams s (fun acc_ a_ => Ok (acc_ ++ [a_], false)) [] = Ok L /\
    Permutation L
      (map (fun e => (emb (StreamExport_Receiver e), emb (StreamExport_Sender e), StreamExport_Stream e)) (str_AllStreams w)).
Proof. exact AllStreams_refines_perm. Qed.
Print Assumptions C18_store_stream_refines_listing_perm.

Theorem C18_store_stream_refines_listing_sorted :
  forall (dom : Z -> Prop) (emb : Z -> list N),
  (forall a, dom a -> (1 <= length (emb a) <= 255)%nat) ->
  (forall a b, dom a -> dom b -> emb a = emb b -> a = b) ->
  forall (s : okv stream_val) (w : kworld),
  Rstr dom emb s (kw_str w) ->
  go_st_IterateAllStreams s (fun acc_ a_ => Ok (acc_ ++ [a_], false)) [] =
  Ok (ksort (map (fun e => (emb (StreamExport_Receiver e), emb (StreamExport_Sender e), StreamExport_Stream e)) (str_AllStreams w))).
Proof. exact AllStreams_refines_sorted. Qed.
Print Assumptions C18_store_stream_refines_listing_sorted.

(* ksort is a sort: a permutation of its argument, ascending in the store key when no key occurs twice; and an ascending
   listing is determined by its content *)
Theorem C18_store_stream_refines_ksort :
  (forall l : list (list N * list N * go_Stream), Permutation (ksort l) l) /\
  (forall l : list (list N * list N * go_Stream),
     NoDup (map (fun a => str_encode (SkStream (fst (fst a)) (snd (fst a)))) l) ->
     ForallOrdPairs (fun a b => lex_lt (str_encode (SkStream (fst (fst a)) (snd (fst a))))
                                       (str_encode (SkStream (fst (fst b)) (snd (fst b)))) = true) (ksort l)) /\
  (forall l1 l2 : list (list N * list N * go_Stream),
     ForallOrdPairs (fun a b => lex_lt (str_encode (SkStream (fst (fst a)) (snd (fst a))))
                                       (str_encode (SkStream (fst (fst b)) (snd (fst b)))) = true) l1 ->
     ForallOrdPairs (fun a b => lex_lt (str_encode (SkStream (fst (fst a)) (snd (fst a))))
                                       (str_encode (SkStream (fst (fst b)) (snd (fst b)))) = true) l2 ->
     Permutation l1 l2 -> l1 = l2).
Proof. exact (conj ksort_perm (conj ksort_sorted sorted_perm_unique)). Qed.
Print Assumptions C18_store_stream_refines_ksort.

(* any callback, one that stops early too, runs over that list *)
Theorem C18_store_stream_refines_listing_callback :
  forall (dom : Z -> Prop) (emb : Z -> list N),
  (forall a, dom a -> (1 <= length (emb a) <= 255)%nat) ->
  (forall a b, dom a -> dom b -> emb a = emb b -> a = b) ->
  forall (s : okv stream_val) (w : kworld),
  Rstr dom emb s (kw_str w) ->
  forall St (cb : St -> list N * list N * go_Stream -> outcome (St * bool)) st0,
  go_st_IterateAllStreams s cb st0 =
  list_iterate cb
    (ksort (map (fun e => (emb (StreamExport_Receiver e), emb (StreamExport_Sender e), StreamExport_Stream e)) (str_AllStreams w)))
    st0.
Proof. exact AllStreams_refines_callback. Qed.
Print Assumptions C18_store_stream_refines_listing_callback.

(* ------------------------------------------------------------------ *)
(* initial states                                                       *)
(* ------------------------------------------------------------------ *)

Theorem C18_store_stream_refines_init :
  forall (dom : Z -> Prop) (emb : Z -> list N),
  Rstr dom emb [] {| s_valfee := 0; s_streams := [] |} /\
  (forall p s u, go_st_SetParams [] p = Ok (s, u) ->
     Rstr dom emb s {| s_valfee := Params_ValidatorFee p; s_streams := [] |} /\
     str_params_valid (Params_ValidatorFee p) = true).
Proof. exact (fun dom emb => conj (Rstr_empty dom emb) (Rstr_init dom emb)). Qed.
Print Assumptions C18_store_stream_refines_init.

(* ------------------------------------------------------------------ *)
(* histories                                                            *)
(* ------------------------------------------------------------------ *)

(* the two step functions, in full *)
Theorem C18_store_stream_refines_steps :
  forall (emb : Z -> list N) (w : kworld) (s : okv stream_val) (o : sop),
  astep emb w o =
    match o with
    | OpSetStream r sn g => do res <- str_SetStream w r sn g; Ok (fst res, ObUnit)
    | OpDeleteStream r sn => do res <- str_DeleteStream w r sn; Ok (fst res, ObUnit)
    | OpSetParams p => do res <- str_SetParams w p; Ok (fst res, ObUnit)
    | OpGetStream r sn => Ok (w, ObStream (fst (str_GetStream w r sn)) (snd (str_GetStream w r sn)))
    | OpIsStream r sn => Ok (w, ObBool (str_IsStream w r sn))
    | OpGetParams => Ok (w, ObParams (str_GetParams w))
    | OpAllStreams =>
        Ok (w, ObList (ksort (map (fun e => (emb (StreamExport_Receiver e), emb (StreamExport_Sender e), StreamExport_Stream e))
                                  (str_AllStreams w))))
    end /\
  cstep emb s o =
    match o with
    | OpSetStream r sn g => do res <- go_st_SetStream s (emb r) (emb sn) g; Ok (fst res, ObUnit)
    | OpDeleteStream r sn => do res <- go_st_DeleteStream s (emb r) (emb sn); Ok (fst res, ObUnit)
    | OpSetParams p => do res <- go_st_SetParams s p; Ok (fst res, ObUnit)
    | OpGetStream r sn => do res <- go_st_GetStream s (emb r) (emb sn); Ok (s, ObStream (fst res) (snd res))
    | OpIsStream r sn => do b <- go_st_IsStream s (emb r) (emb sn); Ok (s, ObBool b)
    | OpGetParams => do p <- go_st_GetParams s; Ok (s, ObParams p)
    | OpAllStreams => do l <- go_st_IterateAllStreams s (fun acc_ a_ => Ok (acc_ ++ [a_], false)) []; Ok (s, ObList l)
    end.
Proof. exact (fun emb w s o => conj eq_refl eq_refl). Qed.
Print Assumptions C18_store_stream_refines_steps.

Theorem C18_store_stream_refines_run :
  forall (S : Type) (step : S -> sop -> outcome (S * sobs)) (s : S) (o : sop) (ops : list sop),
  run step s [] = ([], s) /\
  run step s (o :: ops) =
    match step s o with
    | Ok (s', ob) => (Ok ob :: fst (run step s' ops), snd (run step s' ops))
    | Err e => (Err e :: fst (run step s ops), snd (run step s ops))
    | Panic c => ([Panic c], s)
    end.
Proof. exact (fun S step s o ops => conj eq_refl eq_refl). Qed.
Print Assumptions C18_store_stream_refines_run.

(* one call: the same result (value read, or Err / Panic code), related states *)
Theorem C18_store_stream_refines_step :
  forall (dom : Z -> Prop) (emb : Z -> list N),
  (forall a, dom a -> (1 <= length (emb a) <= 255)%nat) ->
  (forall a b, dom a -> dom b -> emb a = emb b -> a = b) ->
  forall (s : okv stream_val) (w : kworld) (o : sop),
  Rstr dom emb s (kw_str w) -> op_dom dom o ->
  match astep emb w o, cstep emb s o with
  | Ok a, Ok c => snd a = snd c /\ Rstr dom emb (fst c) (kw_str (fst a))
  | Err e, Err e' => e = e'
  | Panic p, Panic p' => p = p'
  | _, _ => False
  end.
Proof. exact step_refines. Qed.
Print Assumptions C18_store_stream_refines_step.

(* any sequence of calls from related states: the same trace of results, related final states *)
Theorem C18_store_stream_refines_history :
  forall (dom : Z -> Prop) (emb : Z -> list N),
  (forall a, dom a -> (1 <= length (emb a) <= 255)%nat) ->
  (forall a b, dom a -> dom b -> emb a = emb b -> a = b) ->
  forall (ops : list sop) (s : okv stream_val) (w : kworld),
  Rstr dom emb s (kw_str w) ->
  Forall (fun o => match o with
                   | OpSetStream r sn _ | OpDeleteStream r sn | OpGetStream r sn | OpIsStream r sn => dom r /\ dom sn
                   | OpSetParams _ | OpGetParams | OpAllStreams => True
                   end) ops ->
  fst (run (astep emb) w ops) = fst (run (cstep emb) s ops) /\
  Rstr dom emb (snd (run (cstep emb) s ops)) (kw_str (snd (run (astep emb) w ops))).
Proof. exact history_refines. Qed.
Print Assumptions C18_store_stream_refines_history.

(* ------------------------------------------------------------------ *)
(* non-vacuity, and the hypotheses are necessary                        *)
(* ------------------------------------------------------------------ *)

(* an embedding satisfying the hypotheses on 0..254 (one byte 1..255), one on every integer (a byte is an N in this
   model), and a related pair of states with two streams *)
Theorem C18_store_stream_refines_nonvacuous :
  ( (forall a, 0 <= a < 255 -> (1 <= length (ex_emb a) <= 255)%nat) /\
    (forall a b, 0 <= a < 255 -> 0 <= b < 255 -> ex_emb a = ex_emb b -> a = b) ) /\
  ( (forall a, True -> (1 <= length (ex_emb_all a) <= 255)%nat) /\
    (forall a b, True -> True -> ex_emb_all a = ex_emb_all b -> a = b) ) /\
  Rstr (fun a => 0 <= a < 255) ex_emb
    [ ([1]%N, SV_Params (mk_go_Params 5));
      ([17; 1; 3; 1; 9]%N, SV_Stream (ex_x 3));
      ([17; 1; 8; 1; 4]%N, SV_Stream (ex_x 4)) ]
    {| s_valfee := 5; s_streams := [ ((7, 3), of_go_stream (ex_x 4)); ((2, 8), of_go_stream (ex_x 3)) ] |}.
Proof.
  exact (conj (conj ex_emb_len ex_emb_inj)
        (conj (conj (fun a _ => ex_emb_all_len a) (fun a b _ _ => ex_emb_all_inj a b)) ex_related)).
Qed.
Print Assumptions C18_store_stream_refines_nonvacuous.

(* a run of thirteen calls on both sides: its trace (a refused SetParams in the middle, two listings) *)
Theorem C18_store_stream_refines_example_run :
  fst (run (astep ex_emb) ex_w0 ex_ops) = fst (run (cstep ex_emb) [] ex_ops) /\
  fst (run (cstep ex_emb) [] ex_ops) =
    [ Ok (ObParams (mk_go_Params 0)); Ok ObUnit; Ok ObUnit; Ok ObUnit;
      Ok (ObList [ ([3]%N, [10]%N, ex_x 2); ([8]%N, [4]%N, ex_x 1) ]);
      Ok ObUnit; Ok (ObStream (ex_x 4) true); Ok (ObBool false); Err 40; Ok (ObParams (mk_go_Params 5));
      Ok ObUnit; Ok ObUnit;
      Ok (ObList [ ([3]%N, [9]%N, ex_x 3); ([8]%N, [4]%N, ex_x 4) ]) ].
Proof. exact (conj ex_traces_agree (proj2 (proj2 ex_runs))). Qed.
Print Assumptions C18_store_stream_refines_example_run.

(* the model's listing is in insertion order, the store's in key order *)
Theorem C18_store_stream_refines_listing_order_differs :
  let w := mk_kworld 0 {| bal := []; supply := [] |}
             {| s_valfee := 5; s_streams := [ ((7, 3), of_go_stream (ex_x 4)); ((2, 8), of_go_stream (ex_x 3)) ] |} in
  map (fun e => (ex_emb (StreamExport_Receiver e), ex_emb (StreamExport_Sender e), StreamExport_Stream e)) (str_AllStreams w) =
    [ ([8]%N, [4]%N, ex_x 4); ([3]%N, [9]%N, ex_x 3) ] /\
  go_st_IterateAllStreams
    [ ([1]%N, SV_Params (mk_go_Params 5)); ([17; 1; 3; 1; 9]%N, SV_Stream (ex_x 3)); ([17; 1; 8; 1; 4]%N, SV_Stream (ex_x 4)) ]
    (fun acc_ a_ => Ok (acc_ ++ [a_], false)) [] =
    Ok [ ([3]%N, [9]%N, ex_x 3); ([8]%N, [4]%N, ex_x 4) ].
Proof. exact ex_listing_order_differs. Qed.
Print Assumptions C18_store_stream_refines_listing_order_differs.

Theorem C18_store_stream_refines_panic_agrees :
  let g := mk_go_Stream (go_zero_denom, 1) 1 (300000000000 * NSEC) 0 true in
  fst (run (astep ex_emb) ex_w0 [OpSetStream 1 2 g; OpGetParams]) = [Panic PANIC_MARSHAL] /\
  fst (run (cstep ex_emb) [] [OpSetStream 1 2 g; OpGetParams]) = [Panic PANIC_MARSHAL].
Proof. exact ex_panic_agrees. Qed.
Print Assumptions C18_store_stream_refines_panic_agrees.

(* without injectivity the store cannot tell two abstract addresses apart *)
Theorem C18_store_stream_refines_needs_injective :
  let emb := fun _ : Z => [1%N] in
  fst (run (astep emb) ex_w0 [OpSetStream 1 2 (ex_x 1); OpIsStream 3 4]) = [Ok ObUnit; Ok (ObBool false)] /\
  fst (run (cstep emb) [] [OpSetStream 1 2 (ex_x 1); OpIsStream 3 4]) = [Ok ObUnit; Ok (ObBool true)].
Proof. exact emb_inj_refuted. Qed.
Print Assumptions C18_store_stream_refines_needs_injective.

(* above 255 bytes the key builder panics; the primitive has no such limit *)
Theorem C18_store_stream_refines_needs_length :
  let emb := fun _ : Z => repeat 1%N 256 in
  fst (run (astep emb) ex_w0 [OpIsStream 1 2]) = [Ok (ObBool false)] /\
  fst (run (cstep emb) [] [OpIsStream 1 2]) = [Panic GO_PANIC_LENPREFIX].
Proof. exact emb_len_refuted. Qed.
Print Assumptions C18_store_stream_refines_needs_length.

(* the empty address has no length byte: an injective embedding that uses it makes (0, 1) and (1, 0) one key *)
Theorem C18_store_stream_refines_needs_nonempty :
  let emb := fun a : Z => if a =? 0 then [] else [7%N] in
  (forall a b, 0 <= a <= 1 -> 0 <= b <= 1 -> emb a = emb b -> a = b) /\
  fst (run (astep emb) ex_w0 [OpSetStream 0 1 (ex_x 1); OpIsStream 1 0]) = [Ok ObUnit; Ok (ObBool false)] /\
  fst (run (cstep emb) [] [OpSetStream 0 1 (ex_x 1); OpIsStream 1 0]) = [Ok ObUnit; Ok (ObBool true)].
Proof. exact emb_nonempty_refuted. Qed.
Print Assumptions C18_store_stream_refines_needs_nonempty.

(* an abstract association list with a key twice is represented by no store: its DeleteStream removes one binding *)
Theorem C18_store_stream_refines_needs_nodup :
  let st := {| s_valfee := 0; s_streams := [ ((1, 2), of_go_stream (ex_x 1)); ((1, 2), of_go_stream (ex_x 2)) ] |} in
  let w := mk_kworld 0 {| bal := []; supply := [] |} st in
  fst (run (astep ex_emb) w [OpDeleteStream 1 2; OpIsStream 1 2]) = [Ok ObUnit; Ok (ObBool true)] /\
  (forall s, ~ Rstr (fun a => 0 <= a < 255) ex_emb s st).
Proof. exact nodup_needed. Qed.
Print Assumptions C18_store_stream_refines_needs_nodup.
