(* C03, link to the source: the quorum.  The tally of /repo/x/enterprise/keeper/blocker.go
   (TallyPurchaseOrderDecisions), the message server of keeper/{msg_server.go,purchase.go,whitelist.go} (UndPurchaseOrder,
   ProcessUndPurchaseOrder, WhitelistAddress, with RaiseNewPurchaseOrder, IsAuthorisedToDecide,
   ProcessPurchaseOrderDecision, ProcessWhitelistAction) and the ValidateBasic methods of types/msgs.go, as generated on
   every run (coq/GeneratedEnterpriseKeeper.v, against the primitives of model/EnterpriseKeeperPrims.v), are the model's
   tally, ent_exec and ent_validate_basic (model/Enterprise.v), about which C03 is proved (props/C03.v), outcome for
   outcome, error and panic codes included, under the hypotheses stated with each theorem:
     tally            block time in seconds fits uint64; len(signers) - int(MinAccepts) fits int ([threshold_fits]); stored
                      orders filed under their own id ([pos_keyed]) and with fewer than 2^63 decisions ([decisions_fit]);
     message server   [ent_msg_ok w m]: the addresses named by the message parse; for a raise: block time fits uint64 and
                      the id counter is not the last uint64; for a decision: block time fits uint64 and the order decided
                      on is filed under its own id; (all of it but the counter bound follows from the invariant of C03 for
                      a well-formed message: C03_generated_msg_server_is_model_inv);
     ValidateBasic    [ent_msg_addrs_ok m]: the addresses named by the message parse.
   Each hypothesis that has a finite witness is shown necessary in proofs/GeneratedEnterprise{Block,Msg}Eq.v
   (gen_*_refuted).  Then the tally rule of C03 (C03_tally_rule) for the generated code.
   [elift w o] turns the model's (state, response) outcome into the generated code's (world, response) outcome;
   [ent_msg_exec] / [ent_go_validate_basic] (model/EnterpriseGenSpec.v) drive the generated message server / checks with
   the model's message type.
   Proofs: proofs/GeneratedEnterpriseBlockEq.v, proofs/GeneratedEnterpriseMsgEq.v. *)
From MC Require Import lib.Prelude lib.AMap lib.GoSdk GeneratedEnterpriseTypes model.Bank model.Enterprise
  model.EnterpriseSpec model.EnterpriseKeeperPrims GeneratedEnterpriseKeeper model.EnterpriseGenSpec.
From MC Require Import proofs.EnterpriseProofs proofs.GeneratedEnterpriseEq proofs.GeneratedEnterpriseBlockEq
  proofs.GeneratedEnterpriseMsgEq.
Local Open Scope Z_scope.

Theorem C03_generated_tally_is_model : forall w,
  0 <= ew_now w / NSEC < two64 ->
  threshold_fits (e_params (ew_ent w)) ->
  pos_keyed (ew_ent w) ->
  decisions_fit (ew_ent w) ->
  go_TallyPurchaseOrderDecisions w =
    match tally (e_raisedq (ew_ent w)) (ew_now w / NSEC) (ew_ent w) with
    | Ok s => Ok (with_ent w s, tt)
    | Err c => Err c
    | Panic c => Panic c
    end.
Proof. exact gen_ent_TallyPurchaseOrderDecisions_eq. Qed.
Print Assumptions C03_generated_tally_is_model.

Theorem C03_generated_msg_server_is_model : forall w m,
  ent_msg_ok w m ->
  ent_msg_exec w m = elift w (ent_exec (ew_now w / NSEC) (ew_ent w) m).
Proof. exact gen_ent_msg_exec_eq. Qed.
Print Assumptions C03_generated_msg_server_is_model.

(* on a world satisfying the invariant of C03, for a well-formed message *)
Theorem C03_generated_msg_server_is_model_inv : forall w m,
  ent_inv w -> ent_op_wf w (OMsg m) -> e_next (w_ent w) < two64 - 1 ->
  ent_msg_exec (eworld_of_ent w) m = elift (eworld_of_ent w) (ent_exec (w_now w) (w_ent w) m).
Proof. exact gen_ent_msg_exec_eq_inv. Qed.
Print Assumptions C03_generated_msg_server_is_model_inv.

Theorem C03_generated_is_authorised_is_model : forall w (sg : addr),
  go_IsAuthorisedToDecide w sg = Ok (mem_addr sg (ent_GetParamEntSignersAsAddressArray w)).
Proof. exact gen_ent_IsAuthorisedToDecide_eq. Qed.
Print Assumptions C03_generated_is_authorised_is_model.

Theorem C03_generated_validate_basic_is_model : forall m,
  ent_msg_addrs_ok m -> ent_go_validate_basic m = ent_validate_basic m.
Proof. exact gen_ent_validate_basic_eq. Qed.
Print Assumptions C03_generated_validate_basic_is_model.

(* the tally rule of C03, free of Go's casts and wrap-arounds, for the generated code: after one run of the generated
   tally every order of the raised queue has been closed, or left alone, by exactly that rule *)
Theorem C03_generated_tally_rule : forall w w' id o,
  let s := ew_ent w in
  let p := e_params s in
  let now := ew_now w / NSEC in
  go_TallyPurchaseOrderDecisions w = Ok (w', tt) ->
  ent_params_valid p = true -> Z.of_nat (List.length (ep_signers p)) < two63 ->
  pos_keyed s -> decisions_fit s -> NoDup (e_raisedq s) ->
  In id (e_raisedq s) -> aget id (e_pos s) = Some o ->
  0 <= po_raise_time o <= now -> now < two63 ->
  let acc := count_decisions (po_decisions o) ST_ACCEPTED in
  let rej := count_decisions (po_decisions o) ST_REJECTED in
  let n := Z.of_nat (List.length (ep_signers p)) in
  aget id (e_pos (ew_ent w')) =
    Some (match (if (ep_time_limit p <=? now - po_raise_time o) && (acc <? ep_min_accepts p) then Some ST_REJECTED
                 else if n - ep_min_accepts p <? rej then Some ST_REJECTED
                 else if ep_min_accepts p <=? acc then Some ST_ACCEPTED
                 else None)
          with
          | Some st => set_po_status o st now true      (* new status, completion time = block time *)
          | None => o                                   (* left raised *)
          end).
Proof. exact gen_tally_rule. Qed.
Print Assumptions C03_generated_tally_rule.

(* ---- examples (world: proofs/GeneratedEnterpriseBlockEq.v, part 6) ----
   xb_w0: block time 1700000000 s; one signer (9), one accept needed, 100 s to decide; whitelist [7]; next id 10.
   Order 1 is accepted; raised: order 2 (10 s old, one accept), 3 (10 s old, one reject), 4 (200 s old, undecided),
   5 (10 s old, undecided).
   xb_obs w = (statuses of orders 1..5, raised queue, accepted queue, locked[7], total locked, supply of nund);
   statuses: 1 raised, 2 accepted, 3 rejected, 4 completed *)

Example C03_generated_ex_hypotheses :
  (0 <= ew_now xb_w0 / NSEC < two64 /\ threshold_fits (e_params (ew_ent xb_w0)) /\
   pos_keyed (ew_ent xb_w0) /\ decisions_fit (ew_ent xb_w0)) /\
  (0 <= ew_now xb_w0 / NSEC < two64 /\ 0 <= e_next (ew_ent xb_w0) < two64 - 1 /\ pos_keyed (ew_ent xb_w0)).
Proof. exact (conj xb_w0_hyps xb_w0_msg_hyps). Qed.

(* one generated tally: order 2 is accepted and queued for minting, order 3 rejected (one reject > 1 - 1), order 4
   rejected as stale (200 s >= 100 s without the accept), order 5 stays raised; nothing is minted by the tally *)
Example C03_generated_ex_tally :
  exists w', go_TallyPurchaseOrderDecisions xb_w0 = Ok (w', tt) /\
             xb_obs xb_w0 = ([2; 1; 1; 1; 1], [2; 3; 4; 5], [1], 0, 0, 100) /\
             xb_obs w' = ([2; 2; 3; 3; 1], [5], [1; 2], 0, 0, 100) /\
             option_map po_completion_time (aget 2 (e_pos (ew_ent w'))) = Some 1700000000 /\
             option_map po_completion_time (aget 5 (e_pos (ew_ent w'))) = Some 0.
Proof. eexists. split; [vm_compute; reflexivity|]. repeat split; vm_compute; reflexivity. Qed.

(* the further hypotheses of C03_generated_tally_rule hold in xb_w0 for each of its raised orders, so that the rule
   accounts for the four outcomes above *)
Example C03_generated_ex_tally_rule_hypotheses :
  ent_params_valid (e_params (ew_ent xb_w0)) = true /\
  Z.of_nat (List.length (ep_signers (e_params (ew_ent xb_w0)))) < two63 /\
  NoDup (e_raisedq (ew_ent xb_w0)) /\ ew_now xb_w0 / NSEC < two63 /\
  Forall (fun id => In id (e_raisedq (ew_ent xb_w0)) /\
                    exists o, aget id (e_pos (ew_ent xb_w0)) = Some o /\ 0 <= po_raise_time o <= ew_now xb_w0 / NSEC)
         [2; 3; 4; 5].
Proof. exact xb_w0_rule_hyps. Qed.

(* the model computes the same world *)
Example C03_generated_ex_tally_model_agrees :
  go_TallyPurchaseOrderDecisions xb_w0 = tally_model xb_w0.
Proof. vm_compute. reflexivity. Qed.

(* a raised-queue entry without an order, or whose order is not raised: the block hook panics with code 21 *)
Example C03_generated_ex_tally_panics :
  go_TallyPurchaseOrderDecisions
    (mk_eworld (xb_sec * NSEC) xe_bank0 (xb_state (xb_params 1) [] [2] [])) = Panic 21 /\
  go_TallyPurchaseOrderDecisions
    (mk_eworld (xb_sec * NSEC) xe_bank0
       (xb_state (xb_params 1) [(2, xb_po 2 ST_COMPLETED (xb_sec - 10) [])] [2] [])) = Panic 21.
Proof. split; vm_compute; reflexivity. Qed.

(* signer 9 accepts order 5: recorded with the block time; deciding again is refused with ErrSignerAlreadyMadeDecision *)
Example C03_generated_ex_decide_twice :
  let w1 := msg_after (ent_msg_exec xb_w0 (EDecide 9 5 ST_ACCEPTED)) in
  ent_msg_exec xb_w0 (EDecide 9 5 ST_ACCEPTED) = Ok (w1, 0) /\
  option_map po_decisions (aget 5 (e_pos (ew_ent w1))) =
    Some [{| d_signer := 9; d_decision := ST_ACCEPTED; d_time := 1700000000 |}] /\
  ent_msg_exec w1 (EDecide 9 5 ST_REJECTED) = Err ERR_ENT_ALREADY /\ ERR_ENT_ALREADY = 33.
Proof. cbv zeta. repeat split; vm_compute; reflexivity. Qed.

(* account 8 is not a signer: ErrUnauthorized; neither may it whitelist *)
Example C03_generated_ex_non_signer :
  ent_msg_exec xb_w0 (EDecide 8 5 ST_ACCEPTED) = Err ERR_ENT_UNAUTH /\
  ent_msg_exec xb_w0 (EWhitelist 8 8 1) = Err ERR_ENT_UNAUTH /\ ERR_ENT_UNAUTH = 31.
Proof. repeat split; vm_compute; reflexivity. Qed.

(* other refusals: an order that does not exist, an order already closed (order 1 is accepted), a decision that is neither
   accept nor reject *)
Example C03_generated_ex_decide_refused :
  ent_msg_exec xb_w0 (EDecide 9 77 ST_ACCEPTED) = Err ERR_ENT /\
  ent_msg_exec xb_w0 (EDecide 9 1 ST_ACCEPTED) = Err ERR_ENT_STATUS /\
  ent_msg_exec xb_w0 (EDecide 9 5 ST_COMPLETED) = Err ERR_ENT.
Proof. repeat split; vm_compute; reflexivity. Qed.

(* raising: whitelisted account 7 raises order 10 (the counter moves to 11, the order joins the raised queue, raise time =
   block time); account 8 is not whitelisted; a foreign denomination and a zero amount are refused *)
Example C03_generated_ex_raise :
  (exists w', ent_msg_exec xb_w0 (ERaise 7 NUND 250) = Ok (w', 10) /\
              e_next (ew_ent w') = 11 /\ e_raisedq (ew_ent w') = [2; 3; 4; 5; 10] /\
              option_map (fun o => (po_purchaser o, po_amount o, po_status o, po_raise_time o))
                (aget 10 (e_pos (ew_ent w'))) = Some (7, 250, ST_RAISED, 1700000000)) /\
  ent_msg_exec xb_w0 (ERaise 8 NUND 250) = Err ERR_ENT_NOT_WL /\
  ent_msg_exec xb_w0 (ERaise 7 17 250) = Err ERR_ENT /\
  ent_msg_exec xb_w0 (ERaise 7 NUND 0) = Err ERR_ENT.
Proof. split; [eexists; split; [vm_compute; reflexivity|repeat split; vm_compute; reflexivity]|]. repeat split; vm_compute; reflexivity. Qed.

(* whitelisting by signer 9: add 8, adding 7 again is refused, remove 7, removing 8 (absent) is refused *)
Example C03_generated_ex_whitelist :
  (exists w', ent_msg_exec xb_w0 (EWhitelist 9 8 1) = Ok (w', 0) /\ e_wl (ew_ent w') = [7; 8]) /\
  ent_msg_exec xb_w0 (EWhitelist 9 7 1) = Err ERR_ENT_ALREADY /\
  (exists w', ent_msg_exec xb_w0 (EWhitelist 9 7 2) = Ok (w', 0) /\ e_wl (ew_ent w') = []) /\
  ent_msg_exec xb_w0 (EWhitelist 9 8 2) = Err ERR_ENT /\
  ent_msg_exec xb_w0 (EWhitelist 9 8 3) = Err ERR_ENT.
Proof.
  split; [eexists; split; vm_compute; reflexivity|]. split; [vm_compute; reflexivity|].
  split; [eexists; split; vm_compute; reflexivity|]. split; vm_compute; reflexivity.
Qed.

(* in all of these the model computes the same outcome (by computation here; by the theorem in general) *)
Example C03_generated_ex_model_agrees :
  Forall (fun m => ent_msg_exec xb_w0 m = msg_model xb_w0 m)
    [EDecide 9 5 ST_ACCEPTED; EDecide 8 5 ST_ACCEPTED; EDecide 9 77 ST_ACCEPTED; EDecide 9 1 ST_ACCEPTED;
     EDecide 9 5 ST_COMPLETED; ERaise 7 NUND 250; ERaise 8 NUND 250; ERaise 7 17 250; ERaise 7 NUND 0;
     EWhitelist 9 8 1; EWhitelist 9 7 1; EWhitelist 9 7 2; EWhitelist 9 8 2; EWhitelist 9 8 3; EWhitelist 8 8 1].
Proof. repeat constructor; vm_compute; reflexivity. Qed.

(* ValidateBasic *)
Example C03_generated_ex_validate_basic :
  ent_go_validate_basic (ERaise 7 NUND 250) = Ok tt /\
  ent_go_validate_basic (ERaise 7 NUND 0) = Err ERR_ENT /\
  ent_go_validate_basic (ERaise 7 go_zero_denom 250) = Err ERR_ENT /\
  ent_go_validate_basic (EDecide 9 5 ST_ACCEPTED) = Ok tt /\
  ent_go_validate_basic (EDecide 9 0 ST_ACCEPTED) = Err ERR_ENT /\
  ent_go_validate_basic (EDecide 9 5 ST_RAISED) = Err ERR_ENT /\
  ent_go_validate_basic (EWhitelist 9 8 1) = Ok tt /\
  ent_go_validate_basic (EWhitelist 9 8 0) = Err ERR_ENT.
Proof. repeat split; vm_compute; reflexivity. Qed.

(* ---- the hypotheses cannot be dropped ---- *)

(* invalid parameters (MinAccepts = 2^63 with one signer): len(signers) - int(MinAccepts) wraps in Go; an undecided fresh
   order is REJECTED by the generated code and ACCEPTED by the model *)
Example C03_generated_ex_threshold_wrap :
  let w := mk_eworld (xb_sec * NSEC) xe_bank0
             (xb_state (xb_params two63) [(2, xb_po 2 ST_RAISED (xb_sec - 10) [])] [2] []) in
  0 <= ew_now w / NSEC < two64 /\ pos_keyed (ew_ent w) /\ decisions_fit (ew_ent w) /\
  ~ threshold_fits (e_params (ew_ent w)) /\ ent_params_valid (e_params (ew_ent w)) = false /\
  status_of (ew_ent (xb_after (go_TallyPurchaseOrderDecisions w))) 2 = ST_REJECTED /\
  status_of (ew_ent (xb_after (tally_model w))) 2 = ST_ACCEPTED /\
  go_TallyPurchaseOrderDecisions w <> tally_model w.
Proof. exact gen_tally_threshold_wrap_refuted. Qed.

(* a whitelist target that is not an address: refused by the generated code (here and in ValidateBasic), whitelisted by
   the model *)
Example C03_generated_ex_bad_whitelist_target :
  ent_msg_exec xb_w0 (EWhitelist 9 BAD_ADDR 1) = Err ERR_ENT /\
  (exists w', msg_model xb_w0 (EWhitelist 9 BAD_ADDR 1) = Ok (w', 0) /\ e_wl (ew_ent w') = [7; BAD_ADDR]).
Proof. exact gen_msg_whitelist_bad_target_refuted. Qed.

Example C03_generated_ex_validate_basic_bad_address :
  ent_go_validate_basic (ERaise BAD_ADDR NUND 5) = Err ERR_ENT /\ ent_validate_basic (ERaise BAD_ADDR NUND 5) = Ok tt /\
  ent_go_validate_basic (EDecide BAD_ADDR 1 ST_ACCEPTED) = Err ERR_ENT /\
  ent_validate_basic (EDecide BAD_ADDR 1 ST_ACCEPTED) = Ok tt /\
  ent_go_validate_basic (EWhitelist BAD_ADDR 7 1) = Err ERR_ENT /\ ent_validate_basic (EWhitelist BAD_ADDR 7 1) = Ok tt /\
  ent_go_validate_basic (EWhitelist 9 BAD_ADDR 1) = Err ERR_ENT /\ ent_validate_basic (EWhitelist 9 BAD_ADDR 1) = Ok tt.
Proof. exact gen_validate_basic_bad_address_refuted. Qed.
