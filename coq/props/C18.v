(* C18 -- distinct entities never alias each other's storage.

   "Writing or deleting one purchase order, locked balance, registration,
   record, storage limit or stream never changes what is read for any other,
   for all identifier, height and address values including 0, 2^64-1 and
   addresses of every legal length from 1 to 255 bytes. Listing entities
   returns them in ascending numeric identifier/height order, and a stream
   listed by the chain is reported with exactly the sender and receiver it was
   created with."

   Model: model/Keys.v (byte-level transcription of x/*/types/keys.go).
   Proofs: proofs/KeysProofs.v.  This file only states the headline theorems.

   One clause was refuted on the code before the fix of
   FirstAddressFromStreamStoreKey; that finding is kept about the [_legacy]
   model functions, see [C18_legacy_receiver_query_sender_refuted]. *)

From Coq Require Import NArith List Bool.
From MC Require Import model.Keys proofs.KeysProofs.
Import ListNotations.
Open Scope N_scope.

(* ------------------------------------------------------------------ *)
(* uint64 big-endian encoding                                           *)
(* ------------------------------------------------------------------ *)

Theorem C18_be64_length : forall n, length (be64 n) = 8%nat.
Proof. exact be64_length. Qed.
Print Assumptions C18_be64_length.

Theorem C18_be64_roundtrip : forall n, n < 2 ^ 64 -> de64 (be64 n) = n.
Proof. exact de64_be64. Qed.
Print Assumptions C18_be64_roundtrip.

Theorem C18_be64_order_preserving : forall n1 n2,
  n1 < 2 ^ 64 -> n2 < 2 ^ 64 -> (lex_lt (be64 n1) (be64 n2) = true <-> n1 < n2).
Proof. exact be64_order. Qed.
Print Assumptions C18_be64_order_preserving.

(* lex_lt (bytes.Compare < 0) is a strict total order on keys *)
Theorem C18_lex_lt_irrefl : forall a, lex_lt a a = false.
Proof. exact lex_lt_irrefl. Qed.
Print Assumptions C18_lex_lt_irrefl.

Theorem C18_lex_lt_trans : forall a b c,
  lex_lt a b = true -> lex_lt b c = true -> lex_lt a c = true.
Proof. exact lex_lt_trans. Qed.
Print Assumptions C18_lex_lt_trans.

Theorem C18_lex_lt_total : forall a b, lex_lt a b = true \/ a = b \/ lex_lt b a = true.
Proof. exact lex_lt_total. Qed.
Print Assumptions C18_lex_lt_total.

(* ------------------------------------------------------------------ *)
(* injectivity                                                          *)
(* ------------------------------------------------------------------ *)

Theorem C18_ent_injective : forall k1 k2,
  wf_ent_key k1 = true -> wf_ent_key k2 = true ->
  ent_encode k1 = ent_encode k2 -> k1 = k2.
Proof. exact ent_injective. Qed.
Print Assumptions C18_ent_injective.

Theorem C18_wrk_injective : forall k1 k2,
  wf_reg_key k1 = true -> wf_reg_key k2 = true ->
  wrk_encode k1 = wrk_encode k2 -> k1 = k2.
Proof. exact reg_injective. Qed.
Print Assumptions C18_wrk_injective.

Theorem C18_bcn_injective : forall k1 k2,
  wf_reg_key k1 = true -> wf_reg_key k2 = true ->
  bcn_encode k1 = bcn_encode k2 -> k1 = k2.
Proof. exact reg_injective. Qed.
Print Assumptions C18_bcn_injective.

Theorem C18_str_injective : forall k1 k2,
  wf_str_key k1 = true -> wf_str_key k2 = true ->
  str_encode k1 = str_encode k2 -> k1 = k2.
Proof. exact str_injective. Qed.
Print Assumptions C18_str_injective.

(* ------------------------------------------------------------------ *)
(* a write or delete never changes what is read for another entity      *)
(* ------------------------------------------------------------------ *)

Theorem C18_ent_isolated : forall (V : Type) (st : kv V) k1 k2 v,
  wf_ent_key k1 = true -> wf_ent_key k2 = true -> k1 <> k2 ->
  kv_get (kv_set st (ent_encode k1) v) (ent_encode k2) = kv_get st (ent_encode k2) /\
  kv_get (kv_del st (ent_encode k1)) (ent_encode k2) = kv_get st (ent_encode k2).
Proof. exact (@ent_isolated). Qed.
Print Assumptions C18_ent_isolated.

Theorem C18_wrk_isolated : forall (V : Type) (st : kv V) k1 k2 v,
  wf_reg_key k1 = true -> wf_reg_key k2 = true -> k1 <> k2 ->
  kv_get (kv_set st (wrk_encode k1) v) (wrk_encode k2) = kv_get st (wrk_encode k2) /\
  kv_get (kv_del st (wrk_encode k1)) (wrk_encode k2) = kv_get st (wrk_encode k2).
Proof. exact (@reg_isolated). Qed.
Print Assumptions C18_wrk_isolated.

Theorem C18_bcn_isolated : forall (V : Type) (st : kv V) k1 k2 v,
  wf_reg_key k1 = true -> wf_reg_key k2 = true -> k1 <> k2 ->
  kv_get (kv_set st (bcn_encode k1) v) (bcn_encode k2) = kv_get st (bcn_encode k2) /\
  kv_get (kv_del st (bcn_encode k1)) (bcn_encode k2) = kv_get st (bcn_encode k2).
Proof. exact (@reg_isolated). Qed.
Print Assumptions C18_bcn_isolated.

Theorem C18_str_isolated : forall (V : Type) (st : kv V) k1 k2 v,
  wf_str_key k1 = true -> wf_str_key k2 = true -> k1 <> k2 ->
  kv_get (kv_set st (str_encode k1) v) (str_encode k2) = kv_get st (str_encode k2) /\
  kv_get (kv_del st (str_encode k1)) (str_encode k2) = kv_get st (str_encode k2).
Proof. exact (@str_isolated). Qed.
Print Assumptions C18_str_isolated.

(* ------------------------------------------------------------------ *)
(* iteration ranges are exact (sections are disjoint)                   *)
(* ------------------------------------------------------------------ *)

(* enterprise -- these hold for every key, well-formed or not *)
Theorem C18_ent_range_po : forall k,
  is_prefix ent_prefix_po (ent_encode k) = true <-> exists id, k = EkPO id.
Proof. exact ent_range_po. Qed.
Print Assumptions C18_ent_range_po.

Theorem C18_ent_range_locked : forall k,
  is_prefix ent_prefix_locked (ent_encode k) = true <-> exists a, k = EkLocked a.
Proof. exact ent_range_locked. Qed.
Print Assumptions C18_ent_range_locked.

Theorem C18_ent_range_whitelist : forall k,
  is_prefix ent_prefix_whitelist (ent_encode k) = true <-> exists a, k = EkWhitelist a.
Proof. exact ent_range_whitelist. Qed.
Print Assumptions C18_ent_range_whitelist.

Theorem C18_ent_range_raised : forall k,
  is_prefix ent_prefix_raised (ent_encode k) = true <-> exists id, k = EkRaised id.
Proof. exact ent_range_raised. Qed.
Print Assumptions C18_ent_range_raised.

Theorem C18_ent_range_accepted : forall k,
  is_prefix ent_prefix_accepted (ent_encode k) = true <-> exists id, k = EkAccepted id.
Proof. exact ent_range_accepted. Qed.
Print Assumptions C18_ent_range_accepted.

Theorem C18_ent_range_spent : forall k,
  is_prefix ent_prefix_spent (ent_encode k) = true <-> exists a, k = EkSpent a.
Proof. exact ent_range_spent. Qed.
Print Assumptions C18_ent_range_spent.

Theorem C18_ent_singletons_in_no_range : forall k P,
  In k [EkHighestPO; EkParams; EkTotalSpent; EkTotalLocked] ->
  In P [ent_prefix_po; ent_prefix_locked; ent_prefix_whitelist;
        ent_prefix_raised; ent_prefix_accepted; ent_prefix_spent] ->
  is_prefix P (ent_encode k) = false.
Proof. exact ent_singletons_in_no_range. Qed.
Print Assumptions C18_ent_singletons_in_no_range.

(* wrkchain *)
Theorem C18_wrk_range_regs : forall k,
  is_prefix wrk_prefix_regs (wrk_encode k) = true <-> exists id, k = RkReg id.
Proof. exact reg_range_regs. Qed.
Print Assumptions C18_wrk_range_regs.

Theorem C18_wrk_range_records_all : forall k,
  is_prefix wrk_prefix_records_all (wrk_encode k) = true <-> exists id h, k = RkRecord id h.
Proof. exact reg_range_records_all. Qed.
Print Assumptions C18_wrk_range_records_all.

Theorem C18_wrk_range_records_of : forall id k,
  wf_id id = true -> wf_reg_key k = true ->
  (is_prefix (wrk_prefix_records_of id) (wrk_encode k) = true <-> exists h, k = RkRecord id h).
Proof. exact reg_range_records_of. Qed.
Print Assumptions C18_wrk_range_records_of.

Theorem C18_wrk_range_limits : forall k,
  is_prefix wrk_prefix_limits (wrk_encode k) = true <-> exists id, k = RkLimit id.
Proof. exact reg_range_limits. Qed.
Print Assumptions C18_wrk_range_limits.

Theorem C18_wrk_singletons_in_no_range : forall k id P,
  In k [RkHighestId; RkParams] ->
  In P [wrk_prefix_regs; wrk_prefix_records_all; wrk_prefix_records_of id; wrk_prefix_limits] ->
  is_prefix P (wrk_encode k) = false.
Proof. exact reg_singletons_in_no_range. Qed.
Print Assumptions C18_wrk_singletons_in_no_range.

(* beacon *)
Theorem C18_bcn_range_regs : forall k,
  is_prefix bcn_prefix_regs (bcn_encode k) = true <-> exists id, k = RkReg id.
Proof. exact reg_range_regs. Qed.
Print Assumptions C18_bcn_range_regs.

Theorem C18_bcn_range_records_all : forall k,
  is_prefix bcn_prefix_records_all (bcn_encode k) = true <-> exists id h, k = RkRecord id h.
Proof. exact reg_range_records_all. Qed.
Print Assumptions C18_bcn_range_records_all.

Theorem C18_bcn_range_records_of : forall id k,
  wf_id id = true -> wf_reg_key k = true ->
  (is_prefix (bcn_prefix_records_of id) (bcn_encode k) = true <-> exists h, k = RkRecord id h).
Proof. exact reg_range_records_of. Qed.
Print Assumptions C18_bcn_range_records_of.

Theorem C18_bcn_range_limits : forall k,
  is_prefix bcn_prefix_limits (bcn_encode k) = true <-> exists id, k = RkLimit id.
Proof. exact reg_range_limits. Qed.
Print Assumptions C18_bcn_range_limits.

Theorem C18_bcn_singletons_in_no_range : forall k id P,
  In k [RkHighestId; RkParams] ->
  In P [bcn_prefix_regs; bcn_prefix_records_all; bcn_prefix_records_of id; bcn_prefix_limits] ->
  is_prefix P (bcn_encode k) = false.
Proof. exact reg_singletons_in_no_range. Qed.
Print Assumptions C18_bcn_singletons_in_no_range.

(* stream *)
Theorem C18_str_range_all : forall k,
  is_prefix str_prefix_all (str_encode k) = true <-> exists r s, k = SkStream r s.
Proof. exact str_range_all. Qed.
Print Assumptions C18_str_range_all.

Theorem C18_str_range_receiver : forall r k,
  wf_addr r = true -> wf_str_key k = true ->
  (is_prefix (str_prefix_receiver r) (str_encode k) = true <-> exists s, k = SkStream r s).
Proof. exact str_range_receiver. Qed.
Print Assumptions C18_str_range_receiver.

Theorem C18_str_params_in_no_range : forall r,
  is_prefix str_prefix_all (str_encode SkParams) = false /\
  is_prefix (str_prefix_receiver r) (str_encode SkParams) = false.
Proof. exact str_params_in_no_range. Qed.
Print Assumptions C18_str_params_in_no_range.

(* ------------------------------------------------------------------ *)
(* listing order = ascending numeric order                              *)
(* ------------------------------------------------------------------ *)

Theorem C18_ent_order_po : forall a b, wf_id a = true -> wf_id b = true ->
  (lex_lt (ent_encode (EkPO a)) (ent_encode (EkPO b)) = true <-> a < b).
Proof. exact ent_order_po. Qed.
Print Assumptions C18_ent_order_po.

Theorem C18_ent_order_raised : forall a b, wf_id a = true -> wf_id b = true ->
  (lex_lt (ent_encode (EkRaised a)) (ent_encode (EkRaised b)) = true <-> a < b).
Proof. exact ent_order_raised. Qed.
Print Assumptions C18_ent_order_raised.

Theorem C18_ent_order_accepted : forall a b, wf_id a = true -> wf_id b = true ->
  (lex_lt (ent_encode (EkAccepted a)) (ent_encode (EkAccepted b)) = true <-> a < b).
Proof. exact ent_order_accepted. Qed.
Print Assumptions C18_ent_order_accepted.

Theorem C18_wrk_order_reg : forall a b, wf_id a = true -> wf_id b = true ->
  (lex_lt (wrk_encode (RkReg a)) (wrk_encode (RkReg b)) = true <-> a < b).
Proof. exact reg_order_reg. Qed.
Print Assumptions C18_wrk_order_reg.

Theorem C18_wrk_order_limit : forall a b, wf_id a = true -> wf_id b = true ->
  (lex_lt (wrk_encode (RkLimit a)) (wrk_encode (RkLimit b)) = true <-> a < b).
Proof. exact reg_order_limit. Qed.
Print Assumptions C18_wrk_order_limit.

Theorem C18_wrk_order_record : forall i1 h1 i2 h2,
  wf_id i1 = true -> wf_id h1 = true -> wf_id i2 = true -> wf_id h2 = true ->
  (lex_lt (wrk_encode (RkRecord i1 h1)) (wrk_encode (RkRecord i2 h2)) = true
   <-> i1 < i2 \/ (i1 = i2 /\ h1 < h2)).
Proof. exact reg_order_record. Qed.
Print Assumptions C18_wrk_order_record.

Theorem C18_wrk_order_record_same_id : forall i h1 h2,
  wf_id i = true -> wf_id h1 = true -> wf_id h2 = true ->
  (lex_lt (wrk_encode (RkRecord i h1)) (wrk_encode (RkRecord i h2)) = true <-> h1 < h2).
Proof. exact reg_order_record_same_id. Qed.
Print Assumptions C18_wrk_order_record_same_id.

Theorem C18_bcn_order_reg : forall a b, wf_id a = true -> wf_id b = true ->
  (lex_lt (bcn_encode (RkReg a)) (bcn_encode (RkReg b)) = true <-> a < b).
Proof. exact reg_order_reg. Qed.
Print Assumptions C18_bcn_order_reg.

Theorem C18_bcn_order_limit : forall a b, wf_id a = true -> wf_id b = true ->
  (lex_lt (bcn_encode (RkLimit a)) (bcn_encode (RkLimit b)) = true <-> a < b).
Proof. exact reg_order_limit. Qed.
Print Assumptions C18_bcn_order_limit.

Theorem C18_bcn_order_record : forall i1 h1 i2 h2,
  wf_id i1 = true -> wf_id h1 = true -> wf_id i2 = true -> wf_id h2 = true ->
  (lex_lt (bcn_encode (RkRecord i1 h1)) (bcn_encode (RkRecord i2 h2)) = true
   <-> i1 < i2 \/ (i1 = i2 /\ h1 < h2)).
Proof. exact reg_order_record. Qed.
Print Assumptions C18_bcn_order_record.

Theorem C18_bcn_order_record_same_id : forall i h1 h2,
  wf_id i = true -> wf_id h1 = true -> wf_id h2 = true ->
  (lex_lt (bcn_encode (RkRecord i h1)) (bcn_encode (RkRecord i h2)) = true <-> h1 < h2).
Proof. exact reg_order_record_same_id. Qed.
Print Assumptions C18_bcn_order_record_same_id.

(* the ABCI blocker recovers the purchase-order id from a queue key *)
Theorem C18_ent_split_raised : forall id, wf_id id = true ->
  split_queue_key (ent_encode (EkRaised id)) = Some id.
Proof. exact ent_split_raised. Qed.
Print Assumptions C18_ent_split_raised.

Theorem C18_ent_split_accepted : forall id, wf_id id = true ->
  split_queue_key (ent_encode (EkAccepted id)) = Some id.
Proof. exact ent_split_accepted. Qed.
Print Assumptions C18_ent_split_accepted.

(* ------------------------------------------------------------------ *)
(* stream key round trip                                                *)
(* ------------------------------------------------------------------ *)

(* IterateAllStreams (export, invariants): AddressesFromStreamKey(full key) *)
Theorem C18_str_roundtrip : forall r s,
  wf_addr r = true -> wf_addr s = true ->
  addresses_from_stream_key (str_encode (SkStream r s)) = Some (r, s).
Proof. exact str_roundtrip. Qed.
Print Assumptions C18_str_roundtrip.

(* Streams / AllStreamsForSender: 0x11 stripped by the prefix store, re-added *)
Theorem C18_str_streams_query_roundtrip : forall r s,
  wf_addr r = true -> wf_addr s = true ->
  streams_query_addresses (str_encode (SkStream r s)) = Some (r, s).
Proof. exact str_streams_query_roundtrip. Qed.
Print Assumptions C18_str_streams_query_roundtrip.

(* AllStreamsForReceiver: FirstAddressFromStreamStoreKey on the key with
   0x11 ++ lp(receiver) stripped -- every legal sender, 1..255 bytes *)
Theorem C18_str_receiver_query_sender : forall r s,
  wf_addr r = true -> wf_addr s = true ->
  receiver_query_sender r (str_encode (SkStream r s)) = Some s.
Proof. exact str_receiver_query_sender. Qed.
Print Assumptions C18_str_receiver_query_sender.

(* Known finding, about the code BEFORE the fix (addrLen a uint8, so
   [key[1 : 1+addrLen]] wrapped to key[1:0] and panicked): every 255-byte
   sender was a witness ... *)
Theorem C18_legacy_receiver_query_sender_255_panics : forall r s,
  wf_addr s = true -> length s = 255%nat ->
  receiver_query_sender_legacy r (str_encode (SkStream r s)) = None.
Proof. exact legacy_receiver_query_sender_255. Qed.
Print Assumptions C18_legacy_receiver_query_sender_255_panics.

(* ... and here is a concrete one (receiver 0x01, sender 255 x 0xAB): the key
   is well-formed, parses correctly with AddressesFromStreamKey and with the
   fixed helper, but the legacy by-receiver query could not report its sender. *)
Theorem C18_legacy_receiver_query_sender_refuted :
  exists r s, wf_addr r = true /\ wf_addr s = true /\
    addresses_from_stream_key (str_encode (SkStream r s)) = Some (r, s) /\
    receiver_query_sender r (str_encode (SkStream r s)) = Some s /\
    receiver_query_sender_legacy r (str_encode (SkStream r s)) = None.
Proof. exact legacy_receiver_query_sender_refuted. Qed.
Print Assumptions C18_legacy_receiver_query_sender_refuted.

(* ------------------------------------------------------------------ *)
(* the hypotheses are satisfiable on the boundary values                *)
(* ------------------------------------------------------------------ *)

Example ex_wf_id_bounds :
  wf_id 0 = true /\ wf_id (2 ^ 64 - 1) = true /\ wf_id (2 ^ 64) = false.
Proof. repeat split. Qed.

Example ex_wf_addr_lengths :
  wf_addr (repeat 0x00 1) = true /\ wf_addr (repeat 0xFF 20) = true /\
  wf_addr (repeat 0x7F 32) = true /\ wf_addr (repeat 0xFF 255) = true /\
  wf_addr [] = false /\ wf_addr (repeat 0x00 256) = false /\ wf_addr [256] = false.
Proof. repeat split. Qed.

Example ex_be64_bounds :
  be64 0 = [0; 0; 0; 0; 0; 0; 0; 0] /\
  be64 (2 ^ 64 - 1) = [255; 255; 255; 255; 255; 255; 255; 255] /\
  be64 0x0102030405060708 = [1; 2; 3; 4; 5; 6; 7; 8] /\
  de64 (be64 (2 ^ 64 - 1)) = 2 ^ 64 - 1.
Proof. repeat split. Qed.

Example ex_wf_keys :
  wf_ent_key (EkPO 0) = true /\ wf_ent_key (EkRaised (2 ^ 64 - 1)) = true /\
  wf_ent_key (EkLocked (repeat 0xFF 255)) = true /\
  wf_reg_key (RkRecord 0 (2 ^ 64 - 1)) = true /\ wf_reg_key (RkRecord (2 ^ 64 - 1) 0) = true /\
  wf_str_key (SkStream (repeat 0xFF 255) (repeat 0x00 1)) = true /\
  wf_str_key (SkStream (repeat 0x11 20) (repeat 0x11 32)) = true.
Proof. repeat split. Qed.

Example ex_order_bounds :
  lex_lt (ent_encode (EkPO 0)) (ent_encode (EkPO (2 ^ 64 - 1))) = true /\
  lex_lt (ent_encode (EkPO 255)) (ent_encode (EkPO 256)) = true /\
  lex_lt (wrk_encode (RkRecord 0 (2 ^ 64 - 1))) (wrk_encode (RkRecord 1 0)) = true /\
  lex_lt (bcn_encode (RkRecord 1 0)) (bcn_encode (RkRecord 0 (2 ^ 64 - 1))) = false.
Proof. repeat split. Qed.

Example ex_records_of_neighbours :
  is_prefix (wrk_prefix_records_of 1) (wrk_encode (RkRecord 1 (2 ^ 64 - 1))) = true /\
  is_prefix (wrk_prefix_records_of 1) (wrk_encode (RkRecord 0 (2 ^ 64 - 1))) = false /\
  is_prefix (wrk_prefix_records_of 1) (wrk_encode (RkRecord 2 0)) = false /\
  is_prefix (wrk_prefix_records_of 1) (wrk_encode (RkRecord 256 1)) = false.
Proof. repeat split. Qed.

(* receiver [0xAA] is a byte-prefix of receiver [0xAA;0x01;0xBB]: the length
   byte keeps their ranges apart *)
Example ex_receiver_prefix_of_another :
  is_prefix (str_prefix_receiver [0xAA]) (str_encode (SkStream [0xAA; 0x01; 0xBB] [0xCC])) = false /\
  is_prefix (str_prefix_receiver [0xAA]) (str_encode (SkStream [0xAA] [0x01; 0xBB])) = true.
Proof. repeat split. Qed.

Example ex_stream_roundtrip_lengths :
  addresses_from_stream_key (str_encode (SkStream (repeat 0xFF 255) (repeat 0x00 255)))
    = Some (repeat 0xFF 255, repeat 0x00 255) /\
  addresses_from_stream_key (str_encode (SkStream (repeat 0x01 1) (repeat 0x02 20)))
    = Some (repeat 0x01 1, repeat 0x02 20) /\
  streams_query_addresses (str_encode (SkStream (repeat 0x03 32) (repeat 0x04 255)))
    = Some (repeat 0x03 32, repeat 0x04 255) /\
  receiver_query_sender (repeat 0xFF 255) (str_encode (SkStream (repeat 0xFF 255) (repeat 0x05 254)))
    = Some (repeat 0x05 254) /\
  receiver_query_sender (repeat 0x06 20) (str_encode (SkStream (repeat 0x06 20) (repeat 0x07 255)))
    = Some (repeat 0x07 255) /\
  receiver_query_sender_legacy (repeat 0x06 20) (str_encode (SkStream (repeat 0x06 20) (repeat 0x07 255)))
    = None.
Proof. repeat split. Qed.
