(* C07, link to the source: the BEACON timestamp path of /repo/x/beacon/keeper/{record,msg_server}.go as generated on every
   run (coq/GeneratedBeaconKeeper.v) is the registry model (model/Registry.v, heighted = false) about which C07 is
   proved (props/C07.v): same stored timestamps, same consecutive ids, same pruning, same errors.
   Proofs: proofs/GeneratedBeaconEq.v.  [bcn_msg_exec] (model/BeaconGenSpec.v) is the generated message server driven
   by the model's message type (a record carries one hash; its key field is the submit time); [bcn_step] / [bcn_run]
   (proofs/GeneratedBeaconEq.v) are [reg_step false] / [reg_run false] executing it; [bcn_no_genesis] says that the
   stored registrations have an empty genesis hash and type (a BEACON has none).
   The handler replaces a submit time of 0 by the node's wall clock, time.Now(); ValidateBasic rejects such a message,
   and for every other message the wall clock is not read. *)
From MC Require Import lib.Prelude lib.AMap lib.GoSdk GeneratedBeaconTypes model.Bank model.Registry model.RegistrySpec
  model.BeaconKeeperPrims GeneratedBeaconKeeper model.BeaconGenSpec.
From MC Require Import proofs.RegistryProofs proofs.GeneratedBeaconEq.
Local Open Scope string_scope.
Local Open Scope Z_scope.

Theorem C07_generated_bcn_record_is_model : forall w id rg hash submitTime,
  aget id (r_regs (rw_reg w)) = Some rg -> rg_id rg = id ->
  rg_genesis rg = EmptyString -> rg_type rg = EmptyString ->
  0 <= rg_last rg < two64 - 1 -> 0 <= rg_num rg < two64 - 1 -> 0 <= rg_lowest rg < two64 - 1 ->
  (rg_lowest rg = 0 -> rg_num rg < limit_of (rw_reg w) id) ->
  go_RecordNewBeaconTimestamp w id hash submitTime =
    let '(s', k, pruned) := record_new false (Time_Unix (rw_now w)) (rw_reg w) rg submitTime [hash] in
    Ok (with_reg w s', (k, pruned)).
Proof. exact gen_bcn_RecordNewBeaconTimestamp_eq. Qed.
Print Assumptions C07_generated_bcn_record_is_model.

Theorem C07_generated_bcn_exec_is_model : forall now wall s g m,
  reg_inv false s g -> bcn_no_genesis s -> reg_counters_small s -> reg_msg_wf m ->
  (forall o id key hashes, m = RRecord o id key hashes -> List.length hashes = 1%nat /\ key <> 0) ->
  0 <= now / NSEC < two63 ->
  bcn_msg_exec (mk_rworld now wall s) m = rlift (mk_rworld now wall s) (reg_exec false (now / NSEC) s m).
Proof. exact gen_bcn_msg_exec_eq. Qed.
Print Assumptions C07_generated_bcn_exec_is_model.

Theorem C07_generated_bcn_run_is_model : forall wall h s g B,
  reg_inv false s g -> bcn_no_genesis s -> bcn_bounded B s -> B + Z.of_nat (List.length h) < two64 ->
  bcn_hist_ok h ->
  bcn_run wall (s, g) h = reg_run false (s, g) h.
Proof. exact gen_bcn_run_eq. Qed.
Print Assumptions C07_generated_bcn_run_is_model.

Theorem C07_generated_bcn_wall_clock_unreachable : forall now wall1 wall2 s m,
  (forall o id key hashes, m = RRecord o id key hashes -> key <> 0) ->
  bcn_msg_exec (mk_rworld now wall2 s) m = set_wall wall2 (bcn_msg_exec (mk_rworld now wall1 s) m).
Proof. exact gen_bcn_wall_clock_only_for_zero_submit_time. Qed.
Print Assumptions C07_generated_bcn_wall_clock_unreachable.

(* examples: genesis with first id 1, default limit 2, maximum 10; [ex_history] registers a BEACON (owner 7) and
   records three timestamps, which get the ids 1, 2, 3: the third prunes id 1 *)
Example C07_generated_bcn_run_ex :
  bcn_run 0 (reg_init ex_params 1, ghost_init) ex_history = reg_run false (reg_init ex_params 1, ghost_init) ex_history /\
  keys_of 1 (r_recs (fst (bcn_run 0 (reg_init ex_params 1, ghost_init) ex_history))) = [2; 3] /\
  map fst (log_of (snd (bcn_run 0 (reg_init ex_params 1, ghost_init) ex_history)) 1) = [1; 2; 3].
Proof. vm_compute. auto. Qed.

(* the keeper function itself: the third timestamp, when ids 1 and 2 fill the limit of 2, gets id 3 and prunes id 1 *)
Example C07_generated_bcn_record_prunes_ex :
  exists w w',
    w = mk_rworld (1700000030 * NSEC) 0 (fst (bcn_run 0 (reg_init ex_params 1, ghost_init) (firstn 3 ex_history))) /\
    go_RecordNewBeaconTimestamp w 1 "c" 1700000025 = Ok (w', (3, 1)) /\
    keys_of 1 (r_recs (rw_reg w')) = [2; 3].
Proof. eexists. eexists. split; [reflexivity|]. split; vm_compute; reflexivity. Qed.

(* anyone but the owner is refused; so is an unknown BEACON *)
Example C07_generated_bcn_rejected_ex :
  let w := mk_rworld (1700000040 * NSEC) 0 (fst (bcn_run 0 (reg_init ex_params 1, ghost_init) ex_history)) in
  bcn_msg_exec w (RRecord 8 1 1700000035 ["d"]) = Err ERR_REG_NOT_OWNER /\
  bcn_msg_exec w (RRecord 7 2 1700000035 ["d"]) = Err ERR_REG_UNKNOWN.
Proof. vm_compute. auto. Qed.

(* a zero submit time, which ValidateBasic rejects, does reach the wall clock: two nodes whose clocks differ disagree *)
Example C07_generated_bcn_wall_clock_zero_submit_time_ex :
  let m := RRecord 7 1 0 ["h"] in
  reg_validate_basic false m = Err ERR_REG /\
  bcn_msg_exec (mk_rworld ex_now (1700000001 * NSEC) (ex_state "")) m <>
    set_wall (1700000001 * NSEC) (bcn_msg_exec (mk_rworld ex_now (1700000002 * NSEC) (ex_state "")) m).
Proof. exact gen_bcn_wall_clock_reached_for_zero_submit_time. Qed.
