(* C16, link to the source: Params.Validate of /repo/x/stream/types/params.go as generated on every run
   (go_validateBaseValidatorFee, go_Params_Validate in coq/GeneratedStreamKeeper.v) is the model's [str_params_valid]:
   0 <= ValidatorFee <= 1 (LegacyDec: scaled by 10^18), error 40 otherwise.  No hypothesis.
   Proofs: proofs/GeneratedStreamParamsEq.v. *)
From MC Require Import lib.Prelude lib.GoSdk GeneratedFns GeneratedStreamTypes model.Stream model.StreamKeeperPrims
  GeneratedStreamKeeper.
From MC Require Import proofs.GeneratedStreamParamsEq.
Local Open Scope Z_scope.

Theorem C16_generated_str_params_validate_is_model : forall p,
  go_Params_Validate p = if str_params_valid (Params_ValidatorFee p) then Ok tt else Err stream_ErrInvalidParams.
Proof. exact gen_str_Params_Validate_eq. Qed.
Print Assumptions C16_generated_str_params_validate_is_model.

(* valid: a fee of 1 %, of 0, and of exactly 1 (the boundary) *)
Example C16_generated_str_params_valid_ex :
  go_Params_Validate (mk_go_Params 10000000000000000) = Ok tt /\ str_params_valid 10000000000000000 = true /\
  go_Params_Validate (mk_go_Params 0) = Ok tt /\ str_params_valid 0 = true /\
  go_Params_Validate (mk_go_Params 1000000000000000000) = Ok tt /\ str_params_valid 1000000000000000000 = true.
Proof. vm_compute. repeat split. Qed.

(* invalid, at the boundary: 1 + 10^-18 *)
Example C16_generated_str_params_above_one_ex :
  go_Params_Validate (mk_go_Params 1000000000000000001) = Err 40 /\ str_params_valid 1000000000000000001 = false.
Proof. vm_compute. repeat split. Qed.

(* invalid: a negative fee, -10^-18 *)
Example C16_generated_str_params_negative_ex :
  go_Params_Validate (mk_go_Params (-1)) = Err 40 /\ str_params_valid (-1) = false.
Proof. vm_compute. repeat split. Qed.
