(* C20: the list-query handlers around the translated callbacks hand the SDK's pagination exactly the prefix store and
   the request's page request, and return its result untouched - read from these handler bodies (digests with the
   callback bodies blanked, re-derived from /repo on every run; proofs/QuerySkeletons.v). *)
From Coq Require Import String List.
From MC Require GeneratedWrkchainKeeper GeneratedBeaconKeeper GeneratedEnterpriseKeeper GeneratedKeys.
From MC Require Import proofs.QuerySkeletons.
Import ListNotations.
Local Open Scope string_scope.

Theorem C20_wrkchain_list_query_skeletons_as_reviewed :
  GeneratedWrkchainKeeper.wrkchain_list_query_skeletons = [("WrkChainsFiltered", "e8ba98f76c026ea6")].
Proof. exact wrkchain_list_query_skeletons_as_reviewed. Qed.
Print Assumptions C20_wrkchain_list_query_skeletons_as_reviewed.

Theorem C20_beacon_list_query_skeletons_as_reviewed :
  GeneratedBeaconKeeper.beacon_list_query_skeletons = [("BeaconsFiltered", "546d046deafc523c")].
Proof. exact beacon_list_query_skeletons_as_reviewed. Qed.
Print Assumptions C20_beacon_list_query_skeletons_as_reviewed.

Theorem C20_enterprise_list_query_skeletons_as_reviewed :
  GeneratedEnterpriseKeeper.enterprise_list_query_skeletons = [("EnterpriseUndPurchaseOrders", "278d8ecfecb22145")].
Proof. exact enterprise_list_query_skeletons_as_reviewed. Qed.
Print Assumptions C20_enterprise_list_query_skeletons_as_reviewed.

Theorem C20_stream_list_query_skeletons_as_reviewed :
  GeneratedKeys.stream_list_query_skeletons =
  [("Streams", "83f6d4dd5d157a95"); ("AllStreamsForSender", "6c41cb68584971c3"); ("AllStreamsForReceiver", "0712da4977f8b8f6")].
Proof. exact stream_list_query_skeletons_as_reviewed. Qed.
Print Assumptions C20_stream_list_query_skeletons_as_reviewed.
