(* C15 – genesis export / import round trip.

   "Exporting application state at any height and initialising a fresh chain from it succeeds, satisfies
    every registered invariant, and yields the same observable state in the enterprise, WRKChain, BEACON
    and stream modules — orders with their queues, whitelist, locked/spent books, registrations, limits,
    retained records (the newest 20,000 per registration), streams and parameters — so that exporting
    again gives an identical document and the same subsequent transactions have the same effects on
    both chains."

   Model: model/Genesis.v ([export_app], [import_app], [EXPORT_CAP], [newest], [sort_by_key]) on model/App.v.
   Proofs: proofs/GenesisLib.v, proofs/GenesisProofs.v, proofs/GenesisOrder.v, proofs/GenesisBisim.v,
           proofs/GenesisBisimApp.v.

   Hypotheses on the exported state [a] (all hold in reachable states):
     app_inv a                  the application invariant (proofs/AppInv.v; kept by every node transition)
     regs_inv a                 exists g, reg_inv true (a_wrk a) g  /\  exists g, reg_inv false (a_bcn a) g
                                (proofs/RegistryProofs.v; app_inv does not contain the registry invariants)
     app_under_cap a            no registration holds more than EXPORT_CAP records (where stated)
     ent_ordered (a_ent a)      the order table and both queues are in ascending id order; needed only to
                                compare the queues AS LISTS; shown below to hold along every well-formed
                                node history (C15_queues_ordered_reachable).
   Vocabulary (proofs/GenesisProofs.v):
     app_equiv a a'             same bank, grants, allowances, block time; enterprise: same params, next id,
                                lookups of every order id, raised / accepted queues as lists, whitelist,
                                locked_coin / spent_coin of every address, total_locked / total_spent;
                                registries: same params, next id, lookups of every registration / limit
                                (aget and limit_of) / record key; stream: same fee, lookups of every pair.
     app_equiv_perm             the same with the queues compared as permutations.
     reg_same_upto_grouping     r_params, r_next, r_regs, r_limits Leibniz-equal; r_recs a permutation with
                                the same lookups and the same per-registration record lists.
   What differs after the round trip, and only this: e_totlocked / e_totspent become Some (total read
   before) (None reads as (denom, 0)); the queues are rebuilt from the order table; r_recs is regrouped per
   registration. *)
From MC Require Import lib.Prelude lib.AMap model.Bank model.Stream model.StreamSpec model.Registry
  model.RegistrySpec model.Enterprise model.EnterpriseSpec model.App model.AppSpec model.Genesis.
From MC Require Import proofs.RegistryProofs proofs.EnterpriseProofs proofs.AppInv
  proofs.GenesisLib proofs.GenesisProofs proofs.GenesisOrder proofs.GenesisBisim proofs.GenesisBisimApp.
From Coq Require Import Permutation Sorting.Sorted.
Local Open Scope Z_scope.

(* ---------- 0. the key lemma: re-inserting the entries of a duplicate-free map rebuilds it ---------- *)
Theorem C15_rebuild_amap : forall (m : amap Z Z),
  NoDup (akeys m) -> fold_left (fun acc kv => aset (fst kv) (snd kv) acc) m [] = m.
Proof. exact (fun m => rebuild_amap m). Qed.
Print Assumptions C15_rebuild_amap.

(* ---------- 1. InitChain on the exported document does not panic ---------- *)
Theorem C15_import_succeeds : forall a,
  app_inv a -> regs_inv a -> exists a', import_app (export_app a) = Some a'.
Proof. exact import_succeeds. Qed.
Print Assumptions C15_import_succeeds.

(* and the resulting state is known exactly *)
Theorem C15_import_result : forall a,
  app_inv a -> regs_inv a -> import_app (export_app a) = Some (app_reimported a).
Proof. exact import_export_app. Qed.
Print Assumptions C15_import_result.

(* ---------- 2. every observable is preserved ---------- *)
Theorem C15_roundtrip_observables : forall a a',
  app_inv a -> regs_inv a -> app_under_cap a -> ent_ordered (a_ent a) ->
  import_app (export_app a) = Some a' -> app_equiv a' a.
Proof. exact roundtrip_observables. Qed.
Print Assumptions C15_roundtrip_observables.

(* without the ordering hypothesis: the queues have the same elements, without duplicates *)
Theorem C15_roundtrip_observables_perm : forall a a',
  app_inv a -> regs_inv a -> app_under_cap a ->
  import_app (export_app a) = Some a' -> app_equiv_perm a' a.
Proof. exact roundtrip_observables_perm. Qed.
Print Assumptions C15_roundtrip_observables_perm.

(* component by component: which parts are Leibniz-equal *)
Theorem C15_roundtrip_components : forall a a',
  app_inv a -> regs_inv a -> app_under_cap a ->
  import_app (export_app a) = Some a' ->
  a_bank a' = a_bank a /\ a_str a' = a_str a /\ a_grants a' = a_grants a /\ a_allow a' = a_allow a /\
  a_now a' = a_now a /\
  (let e := a_ent a in let e' := a_ent a' in
   e_params e' = e_params e /\ e_next e' = e_next e /\ e_pos e' = e_pos e /\ e_wl e' = e_wl e /\
   e_locked e' = e_locked e /\ e_spent e' = e_spent e /\
   e_totlocked e' = Some (total_locked e) /\ e_totspent e' = Some (total_spent e) /\
   e_raisedq e' = ids_with ST_RAISED e /\ e_acceptedq e' = ids_with ST_ACCEPTED e /\
   Permutation (e_raisedq e') (e_raisedq e) /\ Permutation (e_acceptedq e') (e_acceptedq e) /\
   (ent_ordered e -> e_raisedq e' = e_raisedq e /\ e_acceptedq e' = e_acceptedq e)) /\
  reg_same_upto_grouping (a_wrk a') (a_wrk a) /\ reg_same_upto_grouping (a_bcn a') (a_bcn a).
Proof. exact roundtrip_components. Qed.
Print Assumptions C15_roundtrip_components.

(* ---------- 3. exporting again gives the identical document (even above the cap) ---------- *)
Theorem C15_export_idempotent : forall a a',
  app_inv a -> regs_inv a -> import_app (export_app a) = Some a' -> export_app a' = export_app a.
Proof. exact export_idempotent. Qed.
Print Assumptions C15_export_idempotent.

(* ---------- 4. the invariants hold on the new chain ---------- *)
Theorem C15_invariants_after_import : forall a a',
  app_inv a -> regs_inv a -> import_app (export_app a) = Some a' ->
  app_inv a' /\
  (let s := a_ent a' in let d := ep_denom (e_params s) in
   balance (a_bank a') ENT_MACC d = snd (total_locked s) /\ snd (total_locked s) = asum snd (e_locked s) /\
   snd (total_spent s) = asum snd (e_spent s) /\
   (forall d', d' <> d -> balance (a_bank a') ENT_MACC d' = 0)) /\
  escrow_backed (a_bank a') (a_str a') /\ params_ok a' /\
  (forall d, total_balance (a_bank a') d = supply_of (a_bank a') d).
Proof. exact invariants_after_import. Qed.
Print Assumptions C15_invariants_after_import.

Theorem C15_registry_invariants_after_import : forall a a',
  app_inv a -> regs_inv a -> app_under_cap a -> import_app (export_app a) = Some a' -> regs_inv a'.
Proof. exact regs_inv_after_import. Qed.
Print Assumptions C15_registry_invariants_after_import.

(* ---------- 5. what the cap does (no cap hypothesis) ---------- *)
Theorem C15_sort_by_key_sorted_permutation : forall l,
  Permutation (sort_by_key l) l /\ StronglySorted key_le (sort_by_key l) /\
  (NoDup (map fst l) -> strictly_increasing (map fst (sort_by_key l))) /\
  (strictly_increasing (map fst l) -> sort_by_key l = l).
Proof. intros l. exact (conj (sort_perm l) (conj (sort_sorted l) (conj (sort_strict l) (sort_id l)))). Qed.
Print Assumptions C15_sort_by_key_sorted_permutation.

Theorem C15_cap_truncation : forall s kv,
  NoDup (akeys (r_recs s)) -> In kv (r_regs s) ->
  let e := exp_entry s kv in
  let stored := records_of (rg_id (snd kv)) (r_recs s) in
  let sorted := sort_by_key stored in
  In e (gr_regs (export_reg s)) /\
  gre_recs e = newest EXPORT_CAP sorted /\
  Permutation sorted stored /\ StronglySorted key_le sorted /\ strictly_increasing (map fst sorted) /\
  Z.of_nat (List.length (gre_recs e)) = Z.min (Z.of_nat (List.length stored)) EXPORT_CAP /\
  rg_num (gre_reg e) = Z.of_nat (List.length (gre_recs e)) /\
  rg_lowest (gre_reg e) = hd 0 (map fst (gre_recs e)) /\
  (exists dropped, sorted = dropped ++ gre_recs e /\
                   Z.of_nat (List.length dropped) = Z.max 0 (Z.of_nat (List.length stored) - EXPORT_CAP) /\
                   forall x y, In x (map fst dropped) -> In y (map fst (gre_recs e)) -> x < y).
Proof. exact cap_truncation. Qed.
Print Assumptions C15_cap_truncation.

Theorem C15_export_covers_every_registration : forall s,
  gr_regs (export_reg s) = map (exp_entry s) (r_regs s).
Proof. intros s. rewrite export_reg_eq. reflexivity. Qed.
Print Assumptions C15_export_covers_every_registration.

(* the new chain holds, per registration, exactly the newest EXPORT_CAP stored records *)
Theorem C15_cap_truncation_store : forall h s g id,
  reg_inv h s g ->
  records_of id (r_recs (reg_reimported s)) = newest EXPORT_CAP (records_of id (r_recs s)) /\
  sort_by_key (records_of id (r_recs s)) = records_of id (r_recs s) /\
  (forall rg, aget id (r_regs s) = Some rg ->
     aget id (r_regs (reg_reimported s)) = Some (exp_rg rg (newest EXPORT_CAP (records_of id (r_recs s))))).
Proof. exact cap_truncation_store. Qed.
Print Assumptions C15_cap_truncation_store.

(* ---------- 6. the queues InitGenesis rebuilds ---------- *)
Theorem C15_queues_rebuilt_same_elements : forall now s,
  sinv now s ->
  Permutation (ids_with ST_RAISED s) (e_raisedq s) /\ Permutation (ids_with ST_ACCEPTED s) (e_acceptedq s) /\
  NoDup (ids_with ST_RAISED s) /\ NoDup (e_raisedq s) /\ NoDup (ids_with ST_ACCEPTED s) /\ NoDup (e_acceptedq s) /\
  (forall id, In id (ids_with ST_RAISED s) <-> status_of s id = ST_RAISED) /\
  (forall id, In id (ids_with ST_ACCEPTED s) <-> status_of s id = ST_ACCEPTED).
Proof. exact queues_rebuilt_perm. Qed.
Print Assumptions C15_queues_rebuilt_same_elements.

Theorem C15_queues_rebuilt : forall now s,
  sinv now s -> ent_ordered s ->
  ids_with ST_RAISED s = e_raisedq s /\ ids_with ST_ACCEPTED s = e_acceptedq s.
Proof. exact queues_rebuilt_eq. Qed.
Print Assumptions C15_queues_rebuilt.

(* the ordering hypothesis holds in every state of every well-formed node history, and along every
   well-formed module-level history *)
Theorem C15_queues_ordered_reachable : forall g h n,
  app_inv g -> ent_ordered (a_ent g) -> hist_wf (node_init g) h -> node_run (node_init g) h = Some n ->
  ent_ordered (a_ent (n_committed n)) /\ ent_ordered (a_ent (n_check n)) /\
  match n_deliver n with Some a => ent_ordered (a_ent a) | None => True end.
Proof. exact ent_ordered_node_run. Qed.
Print Assumptions C15_queues_ordered_reachable.

Theorem C15_queues_ordered_module : forall h w w',
  ent_inv w -> ent_hist_wf w h -> ent_run w h = Some w' -> ent_ordered (w_ent w) -> ent_ordered (w_ent w').
Proof. exact ent_ordered_run. Qed.
Print Assumptions C15_queues_ordered_module.

Theorem C15_genesis_ordered : forall p start wl, ent_ordered (ent_genesis p start wl).
Proof. exact ent_ordered_genesis. Qed.

(* ---------- 7. the same subsequent operations have the same effects ---------- *)
(* the imported states are related to the originals by [ent_sim] / [reg_sim] ... *)
Theorem C15_reimported_related : forall a,
  app_inv a -> regs_inv a -> app_under_cap a -> ent_ordered (a_ent a) ->
  ent_sim (a_ent (app_reimported a)) (a_ent a) /\
  reg_sim (a_wrk (app_reimported a)) (a_wrk a) /\ reg_sim (a_bcn (app_reimported a)) (a_bcn a) /\
  a_bank (app_reimported a) = a_bank a /\ a_str (app_reimported a) = a_str a /\
  a_grants (app_reimported a) = a_grants a /\ a_allow (app_reimported a) = a_allow a /\
  a_now (app_reimported a) = a_now a.
Proof.
  intros a Ia [[gw Iw] [gb Ib]] [Cw Cb] Ho.
  split; [apply (ent_sim_reimported (unix (a_now a))); [apply (ai_ent a Ia) | exact Ho]|].
  split; [apply (reg_sim_reimported true _ gw Iw Cw)|].
  split; [apply (reg_sim_reimported false _ gb Ib Cb)|]. repeat split.
Qed.
Print Assumptions C15_reimported_related.

(* ... every enterprise step (message, BeginBlock, parameter update keeping the denomination, fee unlock)
   on related worlds halts on both or gives related worlds ... *)
Theorem C15_enterprise_steps_agree : forall w w' o,
  wsim w w' -> (forall p, o = OSetParams p -> ep_denom p = ep_denom (e_params (w_ent w))) ->
  owsim (ent_step w o) (ent_step w' o).
Proof. exact ent_step_sim. Qed.
Print Assumptions C15_enterprise_steps_agree.

Theorem C15_enterprise_msg_agrees : forall now e e' m,
  ent_sim e e' -> osim rsim (ent_exec now e m) (ent_exec now e' m).
Proof. exact ent_exec_sim. Qed.
Print Assumptions C15_enterprise_msg_agrees.

Theorem C15_enterprise_queries_agree : forall b e e',
  ent_sim e e' ->
  (forall d, q_supply_of b e d = q_supply_of b e' d) /\ q_ent_supply b e = q_ent_supply b e' /\
  (forall x, locked_coin e x = locked_coin e' x) /\ (forall x, spent_coin e x = spent_coin e' x).
Proof.
  intros b e e' S. split; [intros d; apply q_supply_of_sim; exact S|]. split; [apply q_ent_supply_sim; exact S|].
  split; intros x; [apply locked_coin_sim | apply spent_coin_sim]; exact S.
Qed.
Print Assumptions C15_enterprise_queries_agree.

(* ... every registry message gives the same response and related states, and so does every sequence ... *)
Theorem C15_registry_msg_agrees : forall h t s s' g m,
  reg_inv h s g -> reg_sim s s' -> osim rrsim (reg_exec h t s m) (reg_exec h t s' m).
Proof. exact reg_exec_sim. Qed.
Print Assumptions C15_registry_msg_agrees.

Theorem C15_registry_msgs_agree : forall h (ms : list (Z * reg_msg)) s s' g,
  reg_inv h s g -> reg_sim s s' -> Forall (fun tm => reg_msg_wf (snd tm)) ms ->
  let run := fold_left (fun (acc : reg_state * list (outcome reg_resp)) tm =>
                          match reg_exec h (fst tm) (fst acc) (snd tm) with
                          | Ok (s1, r) => (s1, snd acc ++ [Ok r])
                          | Err c => (fst acc, snd acc ++ [Err c])
                          | Panic c => (fst acc, snd acc ++ [Panic c])
                          end) ms in
  forall log, reg_sim (fst (run (s, log))) (fst (run (s', log))) /\ snd (run (s, log)) = snd (run (s', log)).
Proof. exact reg_msgs_sim. Qed.
Print Assumptions C15_registry_msgs_agree.

Theorem C15_registry_queries_agree : forall s s' id k,
  reg_sim s s' ->
  q_registration s id = q_registration s' id /\ q_record s id k = q_record s' id k /\
  q_storage s id = q_storage s' id /\ limit_of s id = limit_of s' id.
Proof.
  intros s s' id k S. split; [apply q_registration_sim; exact S|]. split; [apply q_record_sim; exact S|].
  split; [apply q_storage_sim; exact S | apply limit_of_sim; exact S].
Qed.
Print Assumptions C15_registry_queries_agree.

(* ... because the store order of records is never observed: the pruning scan depends only on the set *)
Theorem C15_lowest_key_order_independent : forall id recs recs',
  Permutation recs recs' -> (forall k rc, In ((id, k), rc) recs -> 1 <= k) ->
  lowest_key id recs = lowest_key id recs'.
Proof. exact lowest_key_perm. Qed.
Print Assumptions C15_lowest_key_order_independent.

(* ---------- 7'. the application level: related states react identically ---------- *)
(* [app_sim a a']: same bank, stream state, grants, allowances, time; enterprise states related by
   [ent_sim]; registries related by [reg_sim].  It implies [app_equiv] and holds between the original
   and the re-imported state. *)
Theorem C15_reimported_app_sim : forall a,
  app_inv a -> regs_inv a -> app_under_cap a -> ent_ordered (a_ent a) -> app_sim (app_reimported a) a.
Proof. exact app_sim_reimported. Qed.
Print Assumptions C15_reimported_app_sim.

Theorem C15_app_sim_observables : forall a a', app_sim a a' -> app_equiv a a'.
Proof. exact app_sim_equiv. Qed.
Print Assumptions C15_app_sim_observables.

Theorem C15_bisimulation_step : forall a a' t b r b' r',
  app_sim a a' -> regs_inv a -> tx_wf t ->
  deliver_tx a t = (b, r) -> deliver_tx a' t = (b', r') -> r = r' /\ app_sim b b' /\ regs_inv b.
Proof. exact deliver_tx_sim. Qed.
Print Assumptions C15_bisimulation_step.

Theorem C15_bisimulation_check : forall a a' t b r b' r',
  app_sim a a' -> regs_inv a ->
  check_tx a t = (b, r) -> check_tx a' t = (b', r') -> r = r' /\ app_sim b b' /\ regs_inv b.
Proof. exact check_tx_sim. Qed.
Print Assumptions C15_bisimulation_check.

Theorem C15_bisimulation_begin : forall a a' now,
  app_sim a a' ->
  match begin_block a now, begin_block a' now with
  | Some b, Some b' => app_sim b b' /\ (regs_inv a -> regs_inv b)
  | None, None => True
  | _, _ => False
  end.
Proof. exact begin_block_sim. Qed.
Print Assumptions C15_bisimulation_begin.

(* EndBlock: proposals are governance parameter updates that keep the enterprise denomination (end_wf) *)
Theorem C15_bisimulation_end : forall a a' props,
  end_wf a props -> regs_inv a -> app_sim a a' ->
  app_sim (end_block a props) (end_block a' props) /\ regs_inv (end_block a props).
Proof. exact end_block_sim. Qed.
Print Assumptions C15_bisimulation_end.

Theorem C15_bisimulation_node_step : forall n n' o,
  node_sim n n' -> op_wf n o ->
  match node_step n o, node_step n' o with
  | Some (m, r), Some (m', r') => r = r' /\ node_sim m m'
  | None, None => True
  | _, _ => False
  end.
Proof. exact node_step_sim. Qed.
Print Assumptions C15_bisimulation_node_step.

(* the headline: any well-formed history run on the original chain and on the chain started from its
   export gives the same results, operation by operation, and observationally equal states *)
Theorem C15_same_effects_after_import : forall a a' h,
  app_inv a -> regs_inv a -> app_under_cap a -> ent_ordered (a_ent a) ->
  import_app (export_app a) = Some a' -> hist_wf (node_init a) h ->
  match node_trace (node_init a) h, node_trace (node_init a') h with
  | Some (m, xs), Some (m', xs') =>
      xs = xs' /\ node_sim m m' /\ app_equiv (n_committed m) (n_committed m') /\ app_equiv (n_check m) (n_check m')
  | None, None => True
  | _, _ => False
  end.
Proof. exact same_effects_after_import. Qed.
Print Assumptions C15_same_effects_after_import.

Theorem C15_same_tx_effect_after_import : forall a a' t b r b' r',
  app_inv a -> regs_inv a -> app_under_cap a -> ent_ordered (a_ent a) ->
  import_app (export_app a) = Some a' -> tx_wf t ->
  deliver_tx a t = (b, r) -> deliver_tx a' t = (b', r') -> r = r' /\ app_sim b b' /\ app_equiv b b'.
Proof. exact same_tx_effect_after_import. Qed.
Print Assumptions C15_same_tx_effect_after_import.

(* ---------- 8. everything together, for the committed state of any well-formed node history ---------- *)
(* the registry invariants hold along node histories (app_inv does not contain them) *)
Theorem C15_registry_invariants_reachable : forall g h n,
  regs_inv g -> hist_wf (node_init g) h -> node_run (node_init g) h = Some n ->
  regs_inv (n_committed n) /\ regs_inv (n_check n) /\
  match n_deliver n with Some a => regs_inv a | None => True end.
Proof. exact regs_inv_node_run. Qed.
Print Assumptions C15_registry_invariants_reachable.

Theorem C15_roundtrip_reachable : forall g h n a',
  app_inv g -> regs_inv g -> ent_ordered (a_ent g) ->
  hist_wf (node_init g) h -> node_run (node_init g) h = Some n ->
  app_under_cap (n_committed n) ->
  import_app (export_app (n_committed n)) = Some a' ->
  app_equiv a' (n_committed n) /\ export_app a' = export_app (n_committed n) /\
  app_inv a' /\ regs_inv a' /\ app_sim a' (n_committed n).
Proof. exact roundtrip_reachable. Qed.
Print Assumptions C15_roundtrip_reachable.

(* ================================================================= *)
(* Examples                                                           *)
(* ================================================================= *)

(* the hypotheses are satisfiable: the scenario genesis of proofs/AppInv.v and its history *)
Example C15_ex_hypotheses :
  app_inv ex_g /\ regs_inv ex_g /\ ent_ordered (a_ent ex_g) /\ hist_wf (node_init ex_g) ex_hist.
Proof.
  split; [exact ex_g_inv|]. split; [apply (regs_inv_init ex_g ex_rp 1 ex_rp 1); try reflexivity; lia|].
  split; [apply ent_ordered_genesis | exact ex_hist_wf_ok].
Qed.

(* (i) the scenario of proofs/AppInv.v: export the committed state after block 1 (an order raised and
       voted on, totals still absent) and after block 4 (order completed, 1000 spent from locked funds, a
       WRKChain registered, a stream running), import, and compare *)
Definition ex_state (k : nat) : option app := option_map n_committed (node_run (node_init ex_g) (firstn k ex_hist)).

Definition ex_check (k : nat) (P : app -> app -> Prop) : Prop :=
  match ex_state k with
  | Some a => match import_app (export_app a) with Some a' => P a a' | None => False end
  | None => False
  end.

Example C15_ex_block1 :
  ex_check 5 (fun a a' =>
    export_app a' = export_app a /\
    e_raisedq (a_ent a) = [1] /\ e_raisedq (a_ent a') = [1] /\ e_pos (a_ent a') = e_pos (a_ent a) /\
    e_totlocked (a_ent a) = None /\ e_totlocked (a_ent a') = Some (NUND, 0) /\
    total_locked (a_ent a') = total_locked (a_ent a) /\ a_bank a' = a_bank a).
Proof. vm_compute. repeat split; reflexivity. Qed.

Example C15_ex_block4 :
  ex_check 18 (fun a a' =>
    export_app a' = export_app a /\ a' = app_reimported a /\
    total_locked (a_ent a') = (NUND, 2000) /\ total_spent (a_ent a') = (NUND, 1000) /\
    balance (a_bank a') ENT_MACC NUND = 2000 /\
    r_regs (a_wrk a') = r_regs (a_wrk a) /\ r_limits (a_wrk a') = r_limits (a_wrk a) /\
    s_streams (a_str a') = s_streams (a_str a) /\
    locked_coin (a_ent a') 1 = locked_coin (a_ent a) 1 /\
    q_ent_supply (a_bank a') (a_ent a') = q_ent_supply (a_bank a) (a_ent a)).
Proof. vm_compute. repeat split; reflexivity. Qed.

(* the node-level operation: stop at a block boundary, export, start a fresh chain *)
Example C15_ex_reimport_node :
  match node_run (node_init ex_g) ex_hist with
  | Some n => match reimport_node n with
              | Some n' => export_app (n_committed n') = export_app (n_committed n) /\ n_deliver n' = None
              | None => False
              end
  | None => False
  end.
Proof. vm_compute. split; reflexivity. Qed.

(* (ii) two registrations whose records are interleaved in the store: ids 1,2,1,2 *)
Definition ex_rp15 : reg_params :=
  {| rp_fee_register := 1000; rp_fee_record := 1; rp_fee_purchase := 5; rp_denom := NUND;
     rp_default_limit := 100; rp_max_limit := 1000 |}.

Definition ex_reg_hist : list (Z * reg_msg) :=
  [(10, RRegister 1 "m1"%string "n1"%string "g"%string "t"%string);
   (11, RRegister 2 "m2"%string "n2"%string "g"%string "t"%string);
   (12, RRecord 1 1 5 ["h15"%string]); (13, RRecord 2 2 3 ["h23"%string]);
   (14, RRecord 1 1 7 ["h17"%string]); (15, RRecord 2 2 9 ["h29"%string])].

Definition ex_reg_state : reg_state := fst (reg_run true (reg_init ex_rp15 1, ghost_init) ex_reg_hist).

Example C15_ex_regrouping :
  akeys (r_recs ex_reg_state) = [(1, 5); (2, 3); (1, 7); (2, 9)] /\
  match import_reg (export_reg ex_reg_state) with
  | Some s' =>
      akeys (r_recs s') = [(1, 5); (1, 7); (2, 3); (2, 9)] /\
      r_regs s' = r_regs ex_reg_state /\ r_limits s' = r_limits ex_reg_state /\
      export_reg s' = export_reg ex_reg_state /\
      q_record s' 2 3 = q_record ex_reg_state 2 3 /\ q_record s' 1 7 = q_record ex_reg_state 1 7 /\
      q_storage s' 1 = q_storage ex_reg_state 1 /\
      (* the next record has the same effect on both: same response, same lookups *)
      match reg_exec true 16 ex_reg_state (RRecord 1 1 8 ["h18"%string]), reg_exec true 16 s' (RRecord 1 1 8 ["h18"%string]) with
      | Ok (s1, r1), Ok (s2, r2) => r1 = r2 /\ r_regs s1 = r_regs s2 /\ q_record s1 1 8 = q_record s2 1 8
      | _, _ => False
      end
  | None => False
  end.
Proof. vm_compute. repeat split; reflexivity. Qed.

(* (iii) the cap, with a tiny local cap: the two newest of three records survive, in ascending order,
         whatever the store order *)
Definition ex_rc (k : Z) : Z * record := (k, {| rc_key := k; rc_hashes := []; rc_time := 0 |}).

Example C15_ex_cap :
  newest 2 (sort_by_key [ex_rc 5; ex_rc 3; ex_rc 9]) = [ex_rc 5; ex_rc 9] /\
  newest 2 (sort_by_key [ex_rc 9; ex_rc 5; ex_rc 3]) = [ex_rc 5; ex_rc 9] /\
  newest 5 (sort_by_key [ex_rc 5; ex_rc 3; ex_rc 9]) = [ex_rc 3; ex_rc 5; ex_rc 9] /\
  EXPORT_CAP = 20000.
Proof. vm_compute. repeat split; reflexivity. Qed.

(* (iv) why parameter updates must keep the denomination for the two chains to agree (the listed C14
        class): an absent total reads as 0 of the CURRENT denomination, the imported Some (old, 0) does not *)
Example C15_ex_denom_change_differs :
  let s := ent_genesis ex_ep 1 [1] in
  let s' := ent_reimported s in
  let p := {| ep_denom := 7; ep_min_accepts := 1; ep_time_limit := 100; ep_signers := [7] |} in
  total_locked s = total_locked s' /\
  match ent_set_params s p, ent_set_params s' p with
  | Ok s1, Ok s2 => total_locked s1 = (7, 0) /\ total_locked s2 = (NUND, 0)
  | _, _ => False
  end.
Proof. vm_compute. repeat split; reflexivity. Qed.

(* (v) the rest of the scenario (blocks 2-4: tally, completion, a registration paid from locked funds, a
       stream, a parameter update, a claim) run on the chain exported after block 1 and on the original:
       same results, and the two final states export to the same document *)
Example C15_ex_same_effects :
  ex_check 5 (fun a a' =>
    match node_trace (node_init a) (skipn 5 ex_hist), node_trace (node_init a') (skipn 5 ex_hist) with
    | Some (m, xs), Some (m', xs') =>
        xs = xs' /\ List.length xs = 13%nat /\ export_app (n_committed m') = export_app (n_committed m)
    | _, _ => False
    end).
Proof. vm_compute. repeat split; reflexivity. Qed.
