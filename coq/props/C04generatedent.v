(* C04, link to the source: the eFUND book-keeping functions of /repo/x/enterprise/keeper/locked.go as generated on every
   run (coq/GeneratedEnterpriseKeeper.v, against the primitives of model/EnterpriseKeeperPrims.v and the sdk.Coins slice of
   lib/GoSdk.v) are the model's (model/Enterprise.v), about which C04 is proved (props/C04.v):
     incrementLockedUnd, incrementSpentEFUND, MintCoinsAndLock   on every input, outcome for outcome (panic and error
                                                                 codes included);
     decrementLockedUnd                                          whenever the stored amounts are not negative and the
                                                                 argument is a real, non-negative coin.
   (UnlockCoinsForFees: props/C05generatedent.v.)  Then the books theorems, for the generated code.
   [slift w o] / [eblift w o] turn the model's outcome into the generated code's (world, unit) outcome; [binv b s] says
   escrow balance = total locked and the escrow holds no other denomination; [ent_inv] is the invariant of C04.
   Proofs: proofs/GeneratedEnterpriseEq.v (each hypothesis is shown necessary there: gen_decrement_*_refuted). *)
From MC Require Import lib.Prelude lib.AMap lib.GoSdk GeneratedEnterpriseTypes model.Bank model.Enterprise
  model.EnterpriseSpec model.EnterpriseKeeperPrims GeneratedEnterpriseKeeper model.EnterpriseGenSpec.
From MC Require Import proofs.BankProofs proofs.EnterpriseProofs proofs.EnterpriseC04 proofs.GeneratedEnterpriseEq.
Local Open Scope Z_scope.

Theorem C04_generated_increment_locked_is_model : forall w (a : addr) (c : coin),
  go_incrementLockedUnd w a c = slift w (increment_locked (ew_ent w) a c).
Proof. exact gen_ent_incrementLockedUnd_eq. Qed.
Print Assumptions C04_generated_increment_locked_is_model.

Theorem C04_generated_decrement_locked_is_model : forall w (a : addr) (c : coin),
  0 <= snd (locked_coin (ew_ent w) a) -> 0 <= snd (total_locked (ew_ent w)) ->
  fst c <> go_zero_denom -> 0 <= snd c ->
  go_decrementLockedUnd w a c = slift w (decrement_locked (ew_ent w) a c).
Proof. exact gen_ent_decrementLockedUnd_eq. Qed.
Print Assumptions C04_generated_decrement_locked_is_model.

Theorem C04_generated_increment_spent_is_model : forall w (a : addr) (c : coin),
  go_incrementSpentEFUND w a c = slift w (increment_spent (ew_ent w) a c).
Proof. exact gen_ent_incrementSpentEFUND_eq. Qed.
Print Assumptions C04_generated_increment_spent_is_model.

Theorem C04_generated_mint_and_lock_is_model : forall w (a : addr) (c : coin),
  go_MintCoinsAndLock w a c = eblift w (mint_and_lock (ew_bank w) (ew_ent w) a c).
Proof. exact gen_ent_MintCoinsAndLock_eq. Qed.
Print Assumptions C04_generated_mint_and_lock_is_model.

(* ---- the books, for the generated code ---- *)

(* MintCoinsAndLock of a positive amount of the enterprise denomination for an ordinary account succeeds ... *)
Theorem C04_generated_mint_and_lock_succeeds : forall w (a : addr) amt,
  let b := ew_bank w in let s := ew_ent w in
  0 < amt -> 0 <= a -> coin_ok (dn s) (locked_coin s a) -> coin_ok (dn s) (total_locked s) ->
  0 <= balance b a (dn s) -> 0 <= balance b ENT_MACC (dn s) ->
  exists b', go_MintCoinsAndLock w a (dn s, amt) = Ok (mk_eworld (ew_now w) b' (lock_state s a amt), tt).
Proof. exact gen_mint_and_lock_succeeds. Qed.
Print Assumptions C04_generated_mint_and_lock_succeeds.

(* ... and keeps escrow = total locked: every minted coin sits in the escrow account and is booked as locked for the
   recipient; no other balance, no other entry of the books moves *)
Theorem C04_generated_mint_and_lock_books : forall w (a : addr) amt w',
  let b := ew_bank w in let s := ew_ent w in
  0 < amt -> 0 <= a -> coin_ok (dn s) (locked_coin s a) -> coin_ok (dn s) (total_locked s) -> binv b s ->
  go_MintCoinsAndLock w a (dn s, amt) = Ok (w', tt) ->
  let b' := ew_bank w' in let s' := ew_ent w' in
  binv b' s' /\
  s' = lock_state s a amt /\
  snd (locked_coin s' a) = snd (locked_coin s a) + amt /\
  snd (total_locked s') = snd (total_locked s) + amt /\
  (forall x, x <> a -> aget x (e_locked s') = aget x (e_locked s)) /\
  e_spent s' = e_spent s /\ e_totspent s' = e_totspent s /\
  (forall x d', balance b' x d' = balance b x d' + (if (x =? ENT_MACC) && (d' =? dn s) then amt else 0)) /\
  (forall d', supply_of b' d' = supply_of b d' + (if d' =? dn s then amt else 0)).
Proof. exact gen_mint_and_lock_books. Qed.
Print Assumptions C04_generated_mint_and_lock_books.

(* the fee unlock by the generated code ([go_unlock_step]: the step [OUnlock] of model/EnterpriseSpec.v with
   go_UnlockCoinsForFees in the place of the model) keeps the invariant, hence the books balance after it
   (C04_books_balance_inv).  Beyond the hypotheses of C04: one row per (account, denomination) in the balance table, and a
   positive locked amount (the ante decorator calls the function only then). *)
Theorem C04_generated_unlock_preserves_inv : forall w payer fee,
  ent_inv w -> ent_op_wf w (OUnlock payer fee) ->
  bank_wf (w_bank w) -> 0 < snd (locked_coin (w_ent w) payer) ->
  ent_inv (go_unlock_step w payer fee).
Proof. exact gen_unlock_preserves_inv. Qed.
Print Assumptions C04_generated_unlock_preserves_inv.

Theorem C04_generated_unlock_books_balance : forall w payer fee,
  ent_inv w -> ent_op_wf w (OUnlock payer fee) ->
  bank_wf (w_bank w) -> 0 < snd (locked_coin (w_ent w) payer) ->
  let w' := go_unlock_step w payer fee in
  let s := w_ent w' in
  let d := ep_denom (e_params s) in
  balance (w_bank w') ENT_MACC d = snd (total_locked s) /\
  snd (total_locked s) = asum snd (e_locked s) /\
  snd (total_spent s) = asum snd (e_spent s) /\
  (forall a, amount_coin s a (e_locked s) + amount_coin s a (e_spent s) = completed_sum s a) /\
  (forall d', d' <> d -> balance (w_bank w') ENT_MACC d' = 0) /\
  fst (total_locked s) = d /\ fst (total_spent s) = d /\
  0 <= snd (total_locked s) /\ 0 <= snd (total_spent s) /\
  (forall a c, aget a (e_locked s) = Some c -> fst c = d /\ 0 <= snd c) /\
  (forall a c, aget a (e_spent s) = Some c -> fst c = d /\ 0 <= snd c).
Proof. exact gen_unlock_books_balance. Qed.
Print Assumptions C04_generated_unlock_books_balance.

(* ---- examples (world: proofs/GeneratedEnterpriseEq.v, part 5) ----
   xe_w0: account 7 holds 100 nund, nothing locked, empty escrow, supply 100.
   xe_obs w = (locked[7], spent[7], total locked, total spent, escrow, liquid balance of 7, supply) *)

Example C04_generated_ex_start : xe_obs xe_w0 = (0, 0, 0, 0, 0, 100, 100).
Proof. vm_compute. reflexivity. Qed.

(* MintCoinsAndLock of 50 nund for account 7: locked[7] = total locked = escrow = 50, supply 100 -> 150, the liquid 100
   untouched; the model computes the same world *)
Example C04_generated_ex_mint_and_lock :
  go_MintCoinsAndLock xe_w0 7 (NUND, 50) = Ok (xe_w1, tt) /\
  xe_obs xe_w1 = (50, 0, 50, 0, 50, 100, 150) /\
  eblift xe_w0 (mint_and_lock (ew_bank xe_w0) (ew_ent xe_w0) 7 (NUND, 50)) = Ok (xe_w1, tt).
Proof. vm_compute. repeat split; reflexivity. Qed.

(* a zero amount does nothing; a negative one panics with "invalid coin set"; a module account as recipient is refused
   by x/bank (blocked address) *)
Example C04_generated_ex_mint_and_lock_rejected :
  go_MintCoinsAndLock xe_w0 7 (NUND, 0) = Ok (xe_w0, tt) /\
  go_MintCoinsAndLock xe_w0 7 (NUND, -5) = Panic GO_PANIC_COINS /\
  go_MintCoinsAndLock xe_w0 ENT_MACC (NUND, 50) = Err ERR_UNAUTHORIZED.
Proof. vm_compute. repeat split; reflexivity. Qed.

(* a second denomination cannot be added to the books: Coin.Add panics ("invalid coin denominations") *)
Example C04_generated_ex_increment_other_denom :
  go_incrementLockedUnd xe_w1 7 (17, 5) = Panic GO_PANIC_DENOM /\ GO_PANIC_DENOM = PANIC_DENOM.
Proof. vm_compute. split; reflexivity. Qed.

(* decrementLockedUnd: by 20 leaves 30; by more than is locked resets the entry and the total to zero *)
Example C04_generated_ex_decrement :
  option_map (fun w => (snd (locked_coin (ew_ent w) 7), snd (total_locked (ew_ent w))))
    (match go_decrementLockedUnd xe_w1 7 (NUND, 20) with Ok (w, _) => Some w | _ => None end) = Some (30, 30) /\
  option_map (fun w => (snd (locked_coin (ew_ent w) 7), snd (total_locked (ew_ent w))))
    (match go_decrementLockedUnd xe_w1 7 (NUND, 70) with Ok (w, _) => Some w | _ => None end) = Some (0, 0).
Proof. vm_compute. split; reflexivity. Qed.

(* the hypotheses of C04_generated_decrement_locked_is_model cannot be dropped: the zero value Coin{} *)
Example C04_generated_ex_decrement_zero_value_coin :
  let w := mk_eworld xe_now xe_bank0 (xe_state NUND [(7, (NUND, 5))] [] (Some (NUND, 5)) None) in
  let c := go_zero_coin in
  0 <= snd (locked_coin (ew_ent w) 7) /\ 0 <= snd (total_locked (ew_ent w)) /\ 0 <= snd c /\
  go_decrementLockedUnd w 7 c = Panic GO_PANIC_NILCOIN /\
  go_decrementLockedUnd w 7 c <> slift w (decrement_locked (ew_ent w) 7 c).
Proof. exact gen_decrement_zero_value_coin_refuted. Qed.
