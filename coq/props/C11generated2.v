(* C11, link to the source (keeper level): the keeper functions generated on every run from
   /repo/x/stream/keeper/stream.go (coq/GeneratedStreamKeeper.v) - ClaimFromStream, AddDeposit, SetNewFlowRate,
   addSeconds - compute exactly the model functions claim_from_stream / add_deposit / set_new_flow_rate /
   add_seconds that the C11 theorems (deposit-zero time, sustain invariant, never-early) are about. *)
From MC Require Import lib.Prelude lib.AMap lib.GoSdk GeneratedFns GeneratedStreamTypes model.Bank model.Stream
  model.StreamSpec model.StreamKeeperPrims GeneratedStreamKeeper model.StreamGenSpec.
From MC Require Import proofs.StreamArith proofs.BankProofs proofs.StreamProofs proofs.GeneratedStreamEq.
Local Open Scope Z_scope.

Theorem C11_generated_claim_keeper_is_model : forall now b s (r sn : addr), str_inv now b s ->
  go_ClaimFromStream (world now b s) r sn
    = lift now (claim_coins (denom_of s r sn)) (claim_from_stream now b s r sn).
Proof. exact gen_ClaimFromStream_eq. Qed.
Print Assumptions C11_generated_claim_keeper_is_model.

Theorem C11_generated_topup_is_model : forall now b s (r sn : addr) (d : denom) amt, str_inv now b s -> 0 < amt ->
  go_AddDeposit (world now b s) r sn (d, amt) = lift0 now true (add_deposit now b s r sn d amt).
Proof. exact gen_AddDeposit_eq. Qed.
Print Assumptions C11_generated_topup_is_model.

Theorem C11_generated_update_flow_is_model : forall now b s (r sn : addr) rate, str_inv now b s -> 1 <= rate < two63 ->
  go_SetNewFlowRate (world now b s) r sn rate = lift0 now tt (set_new_flow_rate now b s r sn rate).
Proof. exact gen_SetNewFlowRate_eq. Qed.
Print Assumptions C11_generated_update_flow_is_model.

Theorem C11_generated_add_seconds : forall t secs, go_addSeconds t secs = Ok (add_seconds t secs).
Proof. exact gen_addSeconds_eq. Qed.
Print Assumptions C11_generated_add_seconds.

(* the positivity hypothesis of the top-up equality is needed (a zero coin is dropped by sdk.NewCoins) *)
Example C11_generated_topup_zero_amount_refuted :
  str_inv ex_now ex_bank_escrow_only (snd ex_bs1) /\ 0 <= 0 /\
  go_AddDeposit (world ex_now ex_bank_escrow_only (snd ex_bs1)) 2 1 (0, 0)
    <> lift0 ex_now true (add_deposit ex_now ex_bank_escrow_only (snd ex_bs1) 2 1 0 0).
Proof. exact gen_AddDeposit_zero_amount_refuted. Qed.
Print Assumptions C11_generated_topup_zero_amount_refuted.

(* ---- examples on the state after "create 100000 at 100/s" (stream (receiver 2, sender 1), zero time +1000 s) ---- *)

(* a keeper-level claim 10 s later: coins (receiver, fee, total, remaining) *)
Example C11_generated_claim_ex :
  exists w, go_ClaimFromStream (world (ex_t 10) (fst ex_bs1) (snd ex_bs1)) 2 1
            = Ok (w, ((0, 990), (0, 10), (0, 1000), (0, 99000))).
Proof. eexists. vm_compute. reflexivity. Qed.

(* a top-up of 50000 at +10 s moves the zero time from +1000 s to +1500 s *)
Example C11_generated_topup_ex :
  exists w, go_AddDeposit (world (ex_t 10) (fst ex_bs1) (snd ex_bs1)) 2 1 (0, 50000) = Ok (w, true) /\
            option_map st_dzt (aget (2, 1) (s_streams (kw_str w))) = Some (ex_t 1500) /\
            option_map st_deposit (aget (2, 1) (s_streams (kw_str w))) = Some 150000.
Proof. eexists. split; [vm_compute; reflexivity|]. vm_compute. auto. Qed.

(* doubling the rate at +10 s: 1000 settled, 99000 left at 200/s = 495 s: zero time +505 s *)
Example C11_generated_update_flow_ex :
  exists w, go_SetNewFlowRate (world (ex_t 10) (fst ex_bs1) (snd ex_bs1)) 2 1 200 = Ok (w, tt) /\
            option_map st_dzt (aget (2, 1) (s_streams (kw_str w))) = Some (ex_t 505).
Proof. eexists. split; vm_compute; reflexivity. Qed.

(* addSeconds keeps the nanoseconds *)
Example C11_generated_add_seconds_ex : go_addSeconds (5 * NS + 7) 60 = Ok (65 * NS + 7).
Proof. vm_compute. reflexivity. Qed.
