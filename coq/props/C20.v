(* C20 – list queries: paging with any page size, by key or by offset, returns every stored item
   that matches the filter exactly once and nothing else, in key order.

   Model: model/Paginate.v (cosmos-sdk v0.47.13 query.FilteredPaginate = GenericFilteredPaginate as
   far as observable; forward and reverse iteration; uint64 wrap-around of offset+limit, end+1,
   numHits++).  Proofs: proofs/PaginateProofs.v.

   "Queries never modify state" holds of the model by construction: [filtered_paginate] takes the
   store contents as an argument and returns a page, there is no store in its result (the Go-side
   counterpart is the source-derived check that no KVStore.Set/Delete is reachable from a Query
   server method, plus the app-hash-before/after projection of the harness).

   The store is [items : list (N * V)], ascending in the key: [Sorted N.lt (map fst items)].
   [matching items] below is [filter (fun kv => flt (fst kv) (snd kv)) items]. *)
From MC Require Import lib.Prelude model.Paginate proofs.PaginateProofs.
From Coq Require Import NArith Sorted.
Local Open Scope N_scope.
Local Notation length := List.length.

(* Following NextKey from a first un-keyed request until it is nil.
   Side conditions: limit >= 1 (limit = 0 means 100 in the SDK); limit <> MaxUint64 (the first,
   un-keyed page runs in offset mode and computes end+1, see C20_obs_limit_wrap - the walk by key
   happens to recover even then, as the witness shows, but that is not covered by this theorem);
   fewer than 2^64 stored items; fuel = number of requests the client is willing to make. *)
Theorem C20_key_pages_partition :
  forall (V : Type) (items : list (N * V)) (flt : N -> V -> bool) (limit : N) (fuel : nat),
    Sorted N.lt (map fst items) ->
    1 <= limit -> limit + 1 < two64N -> N.of_nat (length items) < two64N ->
    (length items + 1 <= fuel)%nat ->
    all_pages_by_key fuel items flt limit = filter (fun kv => flt (fst kv) (snd kv)) items.
Proof. exact (@key_pages_partition). Qed.
Print Assumptions C20_key_pages_partition.

(* Advancing offset by limit while NextKey is non-nil.  (Key order of [items] is not even needed.) *)
Theorem C20_offset_pages_partition :
  forall (V : Type) (items : list (N * V)) (flt : N -> V -> bool) (limit : N) (fuel : nat),
    1 <= limit -> N.of_nat (length items) + limit + 1 < two64N ->
    (length items + 1 <= fuel)%nat ->
    all_pages_by_offset fuel items flt limit = filter (fun kv => flt (fst kv) (snd kv)) items.
Proof. exact (@offset_pages_partition). Qed.
Print Assumptions C20_offset_pages_partition.

(* The same two walks with Reverse = true give the matching items in descending key order. *)
Theorem C20_key_pages_partition_reverse :
  forall (V : Type) (items : list (N * V)) (flt : N -> V -> bool) (limit : N) (fuel : nat),
    Sorted N.lt (map fst items) ->
    1 <= limit -> limit + 1 < two64N -> N.of_nat (length items) < two64N ->
    (length items + 1 <= fuel)%nat ->
    all_pages_by_key_rev fuel items flt limit = rev (filter (fun kv => flt (fst kv) (snd kv)) items).
Proof. exact (@key_pages_partition_rev). Qed.
Print Assumptions C20_key_pages_partition_reverse.

Theorem C20_offset_pages_partition_reverse :
  forall (V : Type) (items : list (N * V)) (flt : N -> V -> bool) (limit : N) (fuel : nat),
    1 <= limit -> N.of_nat (length items) + limit + 1 < two64N ->
    (length items + 1 <= fuel)%nat ->
    all_pages_by_offset_rev fuel items flt limit = rev (filter (fun kv => flt (fst kv) (snd kv)) items).
Proof. exact (@offset_pages_partition_rev). Qed.
Print Assumptions C20_offset_pages_partition_reverse.

(* Any single request that does not fail (any key state, offset, limit, count_total, reverse –
   including all the wrap-around cases): every returned item is a stored item matching the filter,
   no item is returned twice, and (for uint64 inputs and fewer than 2^64 stored items) the page
   is no longer than the effective limit (limit, or 100 if limit = 0). *)
Theorem C20_single_page_sound :
  forall (V : Type) (items : list (N * V)) (flt : N -> V -> bool) (req : page_req) (r : page_res V),
    Sorted N.lt (map fst items) ->
    filtered_paginate items flt req = Ok r ->
    (forall x, In x (res_items r) -> In x items /\ flt (fst x) (snd x) = true) /\
    NoDup (res_items r) /\
    (pr_offset req < two64N -> pr_limit req < two64N -> N.of_nat (length items) < two64N ->
     (length (res_items r) <= N.to_nat (eff_limit req))%nat).
Proof. exact (@single_page_sound). Qed.
Print Assumptions C20_single_page_sound.

(* Total, in offset mode (Key nil or empty), when count_total is set or forced by limit = 0:
   the number of all matching items – whatever offset, limit, reverse are (wrap-around included). *)
Theorem C20_total_count :
  forall (V : Type) (items : list (N * V)) (flt : N -> V -> bool) (req : page_req) (r : page_res V),
    (match pr_key req with KeyAt _ => False | _ => True end) ->
    (pr_count_total req = true \/ pr_limit req = 0) ->
    N.of_nat (length items) < two64N ->
    filtered_paginate items flt req = Ok r ->
    res_total r = N.of_nat (length (filter (fun kv => flt (fst kv) (snd kv)) items)).
Proof. exact (@total_count). Qed.
Print Assumptions C20_total_count.

(* ---- SDK-level observations at the uint64 boundary and in reverse mode ---------------------- *)

(* limit = MaxUint64 (the documented query.MaxLimit), offset 0, count_total unset, first stored item
   not matching: end+1 wraps to 0, the page is EMPTY with NextKey = first key although two items
   match; paging by offset then returns nothing at all, paging by key still returns everything. *)
Theorem C20_obs_limit_wrap :
  exists (items : list (N * N)) (flt : N -> N -> bool) (limit : N),
    Sorted N.lt (map fst items) /\ 1 <= limit /\ limit < two64N /\
    filter (fun kv => flt (fst kv) (snd kv)) items = [(2, 1); (3, 1)] /\
    filtered_paginate items flt
      {| pr_key := KeyNil; pr_offset := 0; pr_limit := limit; pr_count_total := false; pr_reverse := false |}
      = Ok {| res_items := []; res_next_key := Some 1; res_total := 0 |} /\
    all_pages_by_offset (length items + 1) items flt limit = [] /\
    all_pages_by_key (length items + 1) items flt limit = [(2, 1); (3, 1)].
Proof. exact obs_limit_wrap. Qed.
Print Assumptions C20_obs_limit_wrap.

(* offset = MaxUint64, limit = 2: offset+limit wraps to 1; empty page, NextKey = 2nd matching key. *)
Theorem C20_obs_offset_wrap :
  exists (items : list (N * N)) (flt : N -> N -> bool),
    Sorted N.lt (map fst items) /\
    filtered_paginate items flt
      {| pr_key := KeyNil; pr_offset := 18446744073709551615; pr_limit := 2;
         pr_count_total := false; pr_reverse := false |}
      = Ok {| res_items := []; res_next_key := Some 3; res_total := 0 |}.
Proof. exact obs_offset_wrap. Qed.
Print Assumptions C20_obs_offset_wrap.

(* Reverse = true with Key = the greatest stored key: getIterator calls itr.Key() on an exhausted
   iterator and panics ("prefixIterator invalid, cannot call Key()") – for every non-empty store. *)
Theorem C20_obs_reverse_last_key_panics :
  forall (V : Type) (p : list (N * V)) (x : N * V) (flt : N -> V -> bool) (limit : N) (ct : bool),
    Sorted N.lt (map fst (p ++ [x])) ->
    filtered_paginate (p ++ [x]) flt
      {| pr_key := KeyAt (fst x); pr_offset := 0; pr_limit := limit; pr_count_total := ct; pr_reverse := true |}
      = Panic pg_panic_iter.
Proof. exact (@reverse_last_key_panics). Qed.
Print Assumptions C20_obs_reverse_last_key_panics.

(* ---- examples -------------------------------------------------------------------------------- *)
(* seven stored items (value = owner id), filter "owner = 1" matches keys 1, 3, 4, 6; limit 2 *)
Definition ex_store : list (N * N) := [(1, 1); (2, 2); (3, 1); (4, 1); (5, 2); (6, 1); (7, 3)].
Definition ex_flt (_ v : N) : bool := v =? 1.
Definition ex_req k o l ct rv : page_req :=
  {| pr_key := k; pr_offset := o; pr_limit := l; pr_count_total := ct; pr_reverse := rv |}.

(* first page (offset mode): two hits, NextKey = key of the third MATCHING item *)
Example ex_page1 : filtered_paginate ex_store ex_flt (ex_req KeyNil 0 2 false false)
  = Ok {| res_items := [(1, 1); (3, 1)]; res_next_key := Some 4; res_total := 0 |}.
Proof. vm_compute. reflexivity. Qed.
(* second page by key: two hits, NextKey = key of the next item, which does NOT match *)
Example ex_page2_key : filtered_paginate ex_store ex_flt (ex_req (KeyAt 4) 0 2 false false)
  = Ok {| res_items := [(4, 1); (6, 1)]; res_next_key := Some 7; res_total := 0 |}.
Proof. vm_compute. reflexivity. Qed.
(* third page by key: empty, end of the walk *)
Example ex_page3_key : filtered_paginate ex_store ex_flt (ex_req (KeyAt 7) 0 2 false false)
  = Ok {| res_items := []; res_next_key := None; res_total := 0 |}.
Proof. vm_compute. reflexivity. Qed.
(* second page by offset, with count_total *)
Example ex_page2_offset : filtered_paginate ex_store ex_flt (ex_req KeyNil 2 2 true false)
  = Ok {| res_items := [(4, 1); (6, 1)]; res_next_key := None; res_total := 4 |}.
Proof. vm_compute. reflexivity. Qed.
(* limit 0 = 100 with count *)
Example ex_limit0 : filtered_paginate ex_store ex_flt (ex_req KeyNil 0 0 false false)
  = Ok {| res_items := [(1, 1); (3, 1); (4, 1); (6, 1)]; res_next_key := None; res_total := 4 |}.
Proof. vm_compute. reflexivity. Qed.
(* key and offset together; also with an empty non-nil key *)
Example ex_both : filtered_paginate ex_store ex_flt (ex_req (KeyAt 4) 1 2 false false) = Err pg_err_both.
Proof. vm_compute. reflexivity. Qed.
Example ex_both_empty : filtered_paginate ex_store ex_flt (ex_req KeyEmpty 1 2 false false) = Err pg_err_both.
Proof. vm_compute. reflexivity. Qed.
(* reverse: first page, then by key *)
Example ex_rev_page1 : filtered_paginate ex_store ex_flt (ex_req KeyNil 0 2 false true)
  = Ok {| res_items := [(6, 1); (4, 1)]; res_next_key := Some 3; res_total := 0 |}.
Proof. vm_compute. reflexivity. Qed.
Example ex_rev_page2 : filtered_paginate ex_store ex_flt (ex_req (KeyAt 3) 0 2 false true)
  = Ok {| res_items := [(3, 1); (1, 1)]; res_next_key := None; res_total := 0 |}.
Proof. vm_compute. reflexivity. Qed.
Example ex_rev_last_key : filtered_paginate ex_store ex_flt (ex_req (KeyAt 7) 0 2 false true) = Panic pg_panic_iter.
Proof. vm_compute. reflexivity. Qed.
(* whole walks *)
Example ex_all_key : all_pages_by_key 8 ex_store ex_flt 2 = [(1, 1); (3, 1); (4, 1); (6, 1)].
Proof. vm_compute. reflexivity. Qed.
Example ex_all_offset : all_pages_by_offset 8 ex_store ex_flt 2 = [(1, 1); (3, 1); (4, 1); (6, 1)].
Proof. vm_compute. reflexivity. Qed.
Example ex_all_key_rev : all_pages_by_key_rev 8 ex_store ex_flt 2 = [(6, 1); (4, 1); (3, 1); (1, 1)].
Proof. vm_compute. reflexivity. Qed.
Example ex_all_offset_rev : all_pages_by_offset_rev 8 ex_store ex_flt 3 = [(6, 1); (4, 1); (3, 1); (1, 1)].
Proof. vm_compute. reflexivity. Qed.
