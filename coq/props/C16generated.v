(* C16, link to the source: UpdateParams of /repo/x/stream/keeper/msg_server.go as generated on every run
   (coq/GeneratedStreamKeeper.v): only the gov module account is obeyed (x/gov ErrInvalidSigner = 42 otherwise),
   the new parameters are validated (0 <= ValidatorFee <= 1), and only the parameters change. *)
From MC Require Import lib.Prelude lib.AMap lib.GoSdk GeneratedFns GeneratedStreamTypes model.Bank model.Stream
  model.StreamSpec model.StreamKeeperPrims GeneratedStreamKeeper model.StreamGenSpec.
From MC Require Import proofs.GeneratedStreamEq.
Local Open Scope Z_scope.

Theorem C16_generated_update_params : forall w (auth : addr) vf,
  go_UpdateParams w (mk_go_MsgUpdateParams auth (mk_go_Params vf)) =
    if negb (auth =? GOV_MACC) then Err 42
    else if str_params_valid vf
         then Ok (with_str w {| s_valfee := vf; s_streams := s_streams (kw_str w) |}, mk_go_MsgUpdateParamsResponse)
         else Err 40.
Proof. exact gen_UpdateParams_eq. Qed.
Print Assumptions C16_generated_update_params.

(* examples on the world: block time 1700000000 s, empty bank, validator fee 1 %, no stream *)
(* gov sets the fee to 5 % *)
Example C16_generated_gov_ex :
  exists w, go_UpdateParams
    (world 1700000000000000000 {| bal := []; supply := [] |} {| s_valfee := 10000000000000000; s_streams := [] |})
    (mk_go_MsgUpdateParams GOV_MACC (mk_go_Params 50000000000000000))
            = Ok (w, mk_go_MsgUpdateParamsResponse) /\ s_valfee (kw_str w) = 50000000000000000.
Proof. eexists. split; vm_compute; reflexivity. Qed.

(* an ordinary account (or any other module account) is refused *)
Example C16_generated_not_gov_ex :
  go_UpdateParams
    (world 1700000000000000000 {| bal := []; supply := [] |} {| s_valfee := 10000000000000000; s_streams := [] |})
    (mk_go_MsgUpdateParams 7 (mk_go_Params 50000000000000000)) = Err 42 /\
  go_UpdateParams
    (world 1700000000000000000 {| bal := []; supply := [] |} {| s_valfee := 10000000000000000; s_streams := [] |})
    (mk_go_MsgUpdateParams STREAM_MACC (mk_go_Params 50000000000000000)) = Err 42.
Proof. vm_compute. auto. Qed.

(* gov itself cannot set a fee above 100 % or below 0 *)
Example C16_generated_invalid_ex :
  go_UpdateParams
    (world 1700000000000000000 {| bal := []; supply := [] |} {| s_valfee := 10000000000000000; s_streams := [] |})
    (mk_go_MsgUpdateParams GOV_MACC (mk_go_Params 1000000000000000001)) = Err 40 /\
  go_UpdateParams
    (world 1700000000000000000 {| bal := []; supply := [] |} {| s_valfee := 10000000000000000; s_streams := [] |})
    (mk_go_MsgUpdateParams GOV_MACC (mk_go_Params (-1))) = Err 40.
Proof. vm_compute. auto. Qed.
