(* Source-derived obligations of C15 *)
From Coq Require Import List String ZArith.
From MC Require Import lib.Reach Generated proofs.Wiring.
Import ListNotations.
Open Scope string_scope.

Theorem C15_genesis_order : ltac:(let T := type of wiring_genesis_order in exact T).
Proof. exact wiring_genesis_order. Qed.
Print Assumptions C15_genesis_order.

Theorem C15_export_cap_constants : ltac:(let T := type of wiring_consts in exact T).
Proof. exact wiring_consts. Qed.
Print Assumptions C15_export_cap_constants.
