(* C10: stream escrow is conserved and always fully backed.
   The stream escrow account holds, per denomination, exactly the sum of the remaining deposits
   of all streams; each release pays the fee collector floor(released x validator-fee rate) and
   the receiver the rest, and reduces the stream's deposit by exactly the released amount;
   stream operations neither mint nor burn coins and touch only the addressed stream. *)
From MC Require Import lib.Prelude lib.AMap model.Bank model.Stream model.StreamSpec.
From MC Require Import proofs.StreamArith proofs.BankProofs proofs.StreamProofs.
Local Open Scope Z_scope.

(* ---- 11: escrow backing is inductive ---- *)
Theorem C10_escrow_backed_step : forall now b s m b' s' resp,
  str_inv now b s -> str_msg_wf m -> str_validate_basic m = Ok tt ->
  str_exec now b s m = Ok (b', s', resp) -> escrow_backed b' s'.
Proof. exact escrow_backed_step. Qed.
Print Assumptions C10_escrow_backed_step.

Theorem C10_escrow_backed_reachable : forall now0 b0 s0 h,
  str_inv now0 b0 s0 -> times_sorted now0 h ->
  escrow_backed (fst (str_run (b0, s0) h)) (snd (str_run (b0, s0) h)).
Proof. exact escrow_backed_reachable. Qed.
Print Assumptions C10_escrow_backed_reachable.

(* from an empty module state, spelled out *)
Theorem C10_escrow_backed_from_genesis : forall now0 b0 vf h,
  (forall d, balance b0 STREAM_MACC d = 0) -> 0 <= vf <= DEC_ONE ->
  time_storable now0 = true -> 0 <= now0 -> times_sorted now0 h ->
  let bs := str_run (b0, {| s_valfee := vf; s_streams := [] |}) h in
  forall d, balance (fst bs) STREAM_MACC d = total_deposits (snd bs) d.
Proof. exact escrow_backed_from_genesis. Qed.
Print Assumptions C10_escrow_backed_from_genesis.

(* ---- 12: the fee split ---- *)
Theorem C10_fee_split : forall vf claim, 0 <= vf <= DEC_ONE -> 0 <= claim ->
  let '(recv, fee) := calculate_validator_fee vf claim in
  fee = (claim * vf) / DEC_ONE /\ recv = claim - fee /\ 0 <= fee <= claim /\ 0 <= recv.
Proof. exact fee_split. Qed.
Print Assumptions C10_fee_split.

Theorem C10_claim_payments : forall now b s sn r st b' s' c,
  str_inv now b s -> aget (r, sn) (s_streams s) = Some st ->
  str_exec now b s (SClaim sn r) = Ok (b', s', RClaim c) ->
  let d := st_denom st in
  cr_fee c = (cr_total c * s_valfee s) / DEC_ONE /\ cr_receiver c = cr_total c - cr_fee c /\
  balance b' r d = balance b r d + cr_receiver c /\
  balance b' FEE_COLLECTOR d = balance b FEE_COLLECTOR d + cr_fee c /\
  balance b' STREAM_MACC d = balance b STREAM_MACC d - cr_total c /\
  deposit_of s' r sn = st_deposit st - cr_total c.
Proof. exact claim_payments. Qed.
Print Assumptions C10_claim_payments.

(* ---- 13: no minting, no burning ---- *)
Theorem C10_bank_send_conserves : forall b from to d amt b' d',
  bank_send b from to d amt = Ok b' ->
  total_balance b' d' = total_balance b d' /\ supply_of b' d' = supply_of b d'.
Proof. exact bank_send_conserves. Qed.
Print Assumptions C10_bank_send_conserves.

Theorem C10_step_conserves_money : forall now b s m b' s' resp d,
  str_exec now b s m = Ok (b', s', resp) ->
  total_balance b' d = total_balance b d /\ supply_of b' d = supply_of b d.
Proof. exact step_conserves_money. Qed.
Print Assumptions C10_step_conserves_money.

(* ---- 14: only the addressed stream changes ---- *)
Theorem C10_other_streams_untouched : forall now b s m b' s' resp k,
  str_exec now b s m = Ok (b', s', resp) -> k <> str_msg_key m ->
  aget k (s_streams s') = aget k (s_streams s).
Proof. exact other_streams_untouched. Qed.
Print Assumptions C10_other_streams_untouched.

(* ---- 15: a failed operation changes nothing ---- *)
Theorem C10_failed_op_changes_nothing : forall t b s m,
  (forall x, str_exec t b s m <> Ok x) -> str_step (b, s) (t, m) = (b, s).
Proof. exact failed_op_changes_nothing. Qed.
Print Assumptions C10_failed_op_changes_nothing.

Theorem C10_failed_op_changes_nothing' : forall t b s m c,
  str_exec t b s m = Err c \/ str_exec t b s m = Panic c \/ str_validate_basic m = Err c \/
  str_validate_basic m = Panic c ->
  str_step (b, s) (t, m) = (b, s).
Proof. exact failed_op_changes_nothing'. Qed.
Print Assumptions C10_failed_op_changes_nothing'.

(* why signers must be ordinary accounts (str_msg_wf): a create "signed" by the escrow account *)
Theorem C10_obs_module_account_sender :
  exists b' s' resp,
    str_exec ex_now (fst ex_bs1) (snd ex_bs1) (SCreate STREAM_MACC 3 0 6000 100) = Ok (b', s', resp) /\
    ~ escrow_backed b' s'.
Proof. exact obs_module_account_sender. Qed.
Print Assumptions C10_obs_module_account_sender.

(* ---- examples ---- *)
Example C10_ex_initial_state : str_inv ex_now ex_bank ex_state0.
Proof. exact ex_inv0. Qed.

(* deposit 100000, rate 100/s, claim after 10 s: total 1000, 1 % fee -> 990 + 10 *)
Example C10_ex_claim_numbers :
  let bs := str_run (ex_bank, ex_state0) (firstn 2 ex_history) in
  balance (fst bs) 2 0 = 990 /\ balance (fst bs) FEE_COLLECTOR 0 = 10 /\
  balance (fst bs) STREAM_MACC 0 = 99000 /\ deposit_of (snd bs) 2 1 = 99000 /\
  total_deposits (snd bs) 0 = 99000 /\
  total_balance (fst bs) 0 = total_balance ex_bank 0 /\ supply_of (fst bs) 0 = supply_of ex_bank 0.
Proof. vm_compute. repeat split; reflexivity. Qed.

Example C10_ex_fee_split : calculate_validator_fee 10000000000000000 1999 = (1980, 19).
Proof. vm_compute. reflexivity. Qed.

(* the whole worked history: escrow = sum of deposits after every prefix *)
Example C10_ex_history_backed :
  forall n d, balance (fst (str_run (ex_bank, ex_state0) (firstn n ex_history))) STREAM_MACC d
            = total_deposits (snd (str_run (ex_bank, ex_state0) (firstn n ex_history))) d.
Proof. exact ex_history_backed. Qed.
