(* C18, store layer of x/enterprise, REFINEMENT: the store accessors of /repo/x/enterprise/keeper/{params.go,purchase.go,
   whitelist.go,locked.go} as generated on every run (GeneratedEnterpriseStore.v: go_st_* over the ordered byte-keyed store
   of model/KVStore.v) IMPLEMENT the hand-written primitives of model/EnterpriseKeeperPrims.v (ent_* over the abstract
   state ent_state of model/Enterprise.v) that the keeper-level translation GeneratedEnterpriseKeeper.v and every theorem
   above it are written against.

   Given (explicit in every statement that needs them):
       dom : Z -> Prop            the abstract addresses in use
       emb : Z -> list N          their address bytes               unemb : list N -> Z     bytes back to an address
       on dom:  emb injective;  unemb (emb a) = a  (this implies the former: C18_store_enterprise_refines_hypotheses);
                emb a <> []  (whitelist only);  addr_parses a = true, i.e. a <> BAD_ADDR and a <> EMPTY_ADDR  (the writers that
                decode an owner string only).
   No length bound on emb is needed: the three address keys are prefix byte ++ raw address.
   The generated accessors' two conversion arguments are instantiated with
       bech32      := fun a => if addr_parses a then Ok (emb a) else Err ERR_ENT      (= ent_AccAddressFromBech32 of the primitives
                                                                                        = es_bech of model/EnterpriseStoreWorld.v)
       addr_string := unemb.
   Rent dom emb s st ("the byte store s represents the abstract state st") is spelled out by
   C18_store_enterprise_refines_relation below.

   WHERE THE PRIMITIVES AND THE GENERATED CODE DIFFER (each stated as a side condition, and shown by an example):
     - error CODES: SetPurchaseOrder (invalid status) and SetLockedUndForAccount (negative amount) answer ERR_ENT = 30 in the
       primitive and STORE_ERR = 10 in the generated file; SetParams answers ERR_ENT in the primitive and the error of
       Params.Validate in the generated code (30, or 1 for a malformed non-blank denomination).  The verdicts agree.
     - SetParams agrees on the verdict for uint64-ranged fields (ent_params_range) only.
     - AddPoTo{Raised,Accepted}Queue: the primitive APPENDS to a list, the store is an id-ordered SET: they agree when the id
       is above every queued id (then the list stays strictly ascending, which the relation demands).
     - AddAddressToWhitelist: the primitive appends; they agree when the address is not whitelisted yet.
     - SetLockedUndForAccount / SetSpentEFUNDForAccount with an owner that does not parse (BAD_ADDR, or the empty string EMPTY_ADDR): the primitive stores,
       the generated code returns the decoding error.
     - GetHighestPurchaseOrderID: the primitive always answers, the generated code fails without the counter cell: the
       relation asks for the cell, the empty store represents nothing, the first related store is the one after genesis.
     - ids outside [0, 2^64) alias in the store.
     - listings: the store lists in KEY order, the abstract maps / the whitelist in INSERTION order; they agree once the
       abstract listing is sorted by store key (ksort), hence as a Permutation, and on the nose when the abstract
       collection is in key order already (the two queues always are).
   Histories: eop = one accessor call on abstract addresses; astep emb = the primitive, cstep emb unemb = the generated
   accessor (C18_store_enterprise_refines_steps spells both out); run step s ops threads the state, keeps every result in a
   trace, continues after an Err with the state unchanged, stops at a Panic.
   Proofs: proofs/GeneratedEnterpriseStoreRefines.v. *)
From Coq Require Import ZArith NArith List Bool Sorted Permutation.
From MC Require Import lib.Prelude lib.AMap lib.GoSdk model.Keys model.KeyPrims model.KVStore model.StoreCodecPrims
  model.Bank model.Enterprise model.EnterpriseKeeperPrims
  GeneratedKeys GeneratedEnterpriseTypes GeneratedEnterpriseKeeper GeneratedEnterpriseStore
  proofs.KVStoreFacts proofs.KVStoreFacts2Enterprise proofs.GeneratedEnterpriseStoreEq proofs.GeneratedEnterpriseParamsEq
  proofs.GeneratedEnterpriseStoreRefines.
Import ListNotations.
Local Open Scope Z_scope.

(* ------------------------------------------------------------------ *)
(* the representation relation, in full                                 *)
(* ------------------------------------------------------------------ *)

Theorem C18_store_enterprise_refines_relation :
  forall (dom : Z -> Prop) (emb : Z -> list N) (s : okv enterprise_val) (st : ent_state),
  Rent dom emb s st <->
  ( (* the store invariant *)
    okv_sorted s = true /\
    (* parameters: the stored Params, or nothing stored and the state holds the zero Params *)
    ( okv_get s (ent_encode EkParams) = Some (EV_Params (params_to_go (e_params st))) \/
      (okv_get s (ent_encode EkParams) = None /\ params_to_go (e_params st) = zero_go_Params) ) /\
    (* the counter cell is there *)
    okv_get s (ent_encode EkHighestPO) = Some (EV_bytes (be64 (Z.to_N (e_next st)))) /\
    0 <= e_next st < 2 ^ 64 /\
    (* the two totals: absent <-> None *)
    okv_get s (ent_encode EkTotalLocked) = option_map EV_Coin (e_totlocked st) /\
    okv_get s (ent_encode EkTotalSpent) = option_map EV_Coin (e_totspent st) /\
    (* purchase orders, keyed by their own id *)
    (forall id, 0 <= id < 2 ^ 64 ->
       okv_get s (ent_encode (EkPO (Z.to_N id))) =
       option_map (fun o => EV_EnterpriseUndPurchaseOrder (to_go_po o)) (aget id (e_pos st))) /\
    NoDup (akeys (e_pos st)) /\
    (forall id o, In (id, o) (e_pos st) -> 0 <= id < 2 ^ 64 /\ po_id o = id) /\
    (* raised queue: key(id) -> be64 id for exactly the ids of the list; the list strictly ascending *)
    (forall id, 0 <= id < 2 ^ 64 ->
       okv_get s (ent_encode (EkRaised (Z.to_N id))) =
       if mem_addr id (e_raisedq st) then Some (EV_bytes (be64 (Z.to_N id))) else None) /\
    StronglySorted Z.lt (e_raisedq st) /\
    (forall id, In id (e_raisedq st) -> 0 <= id < 2 ^ 64) /\
    (* accepted queue: the same *)
    (forall id, 0 <= id < 2 ^ 64 ->
       okv_get s (ent_encode (EkAccepted (Z.to_N id))) =
       if mem_addr id (e_acceptedq st) then Some (EV_bytes (be64 (Z.to_N id))) else None) /\
    StronglySorted Z.lt (e_acceptedq st) /\
    (forall id, In id (e_acceptedq st) -> 0 <= id < 2 ^ 64) /\
    (* whitelist: key(emb a) -> emb a for exactly the addresses of the list; no address twice *)
    (forall a, dom a ->
       okv_get s (ent_encode (EkWhitelist (emb a))) = if mem_addr a (e_wl st) then Some (EV_bytes (emb a)) else None) /\
    NoDup (e_wl st) /\
    (forall a, In a (e_wl st) -> dom a) /\
    (* locked / spent, keyed by the bytes of the owner *)
    (forall a, dom a ->
       okv_get s (ent_encode (EkLocked (emb a))) =
       option_map (fun c => EV_LockedUnd (mk_go_LockedUnd a c)) (aget a (e_locked st))) /\
    NoDup (akeys (e_locked st)) /\
    (forall a, In a (akeys (e_locked st)) -> dom a) /\
    (forall a, dom a ->
       okv_get s (ent_encode (EkSpent (emb a))) =
       option_map (fun c => EV_SpentEFUND (mk_go_SpentEFUND a c)) (aget a (e_spent st))) /\
    NoDup (akeys (e_spent st)) /\
    (forall a, In a (akeys (e_spent st)) -> dom a) /\
    (* completeness: every key of the store is one of these *)
    (forall k v, In (k, v) s ->
       k = ent_encode EkParams \/ k = ent_encode EkHighestPO \/ k = ent_encode EkTotalLocked \/ k = ent_encode EkTotalSpent \/
       (exists id, 0 <= id < 2 ^ 64 /\ k = ent_encode (EkPO (Z.to_N id))) \/
       (exists id, 0 <= id < 2 ^ 64 /\ k = ent_encode (EkRaised (Z.to_N id))) \/
       (exists id, 0 <= id < 2 ^ 64 /\ k = ent_encode (EkAccepted (Z.to_N id))) \/
       (exists a, dom a /\ k = ent_encode (EkWhitelist (emb a))) \/
       (exists a, dom a /\ k = ent_encode (EkLocked (emb a))) \/
       (exists a, dom a /\ k = ent_encode (EkSpent (emb a)))) ).
Proof. exact Rent_iff. Qed.
Print Assumptions C18_store_enterprise_refines_relation.

(* the protobuf structs and the model's records carry the same data *)
Theorem C18_store_enterprise_refines_codec :
  (forall g : go_EnterpriseUndPurchaseOrder, to_go_po (of_go_po g) = g) /\ (forall o : po, of_go_po (to_go_po o) = o) /\
  (forall p : go_Params, params_to_go (params_of_go p) = p) /\ (forall p : ent_params, params_of_go (params_to_go p) = p).
Proof. exact (conj to_of_go_po (conj of_to_go_po (conj params_to_of_go params_of_to_go))). Qed.
Print Assumptions C18_store_enterprise_refines_codec.

(* the second hypothesis implies the first *)
Theorem C18_store_enterprise_refines_hypotheses :
  forall (dom : Z -> Prop) (emb : Z -> list N) (unemb : list N -> Z),
  (forall a, dom a -> unemb (emb a) = a) -> forall a b, dom a -> dom b -> emb a = emb b -> a = b.
Proof. exact left_inverse_injective. Qed.
Print Assumptions C18_store_enterprise_refines_hypotheses.

(* a related store is sorted and well-formed in the sense of C18storeenterprise.v: every law stated there applies *)
Theorem C18_store_enterprise_refines_wellformed :
  forall (dom : Z -> Prop) (emb : Z -> list N),
  (forall a, dom a -> emb a <> []) ->
  (forall a, dom a -> addr_parses a = true) ->
  forall (s : okv enterprise_val) (st : ent_state),
  Rent dom emb s st ->
  okv_sorted s = true /\ ent_wf (fun a => if addr_parses a then Ok (emb a) else Err ERR_ENT) s.
Proof. exact Rent_wf. Qed.
Print Assumptions C18_store_enterprise_refines_wellformed.

(* ------------------------------------------------------------------ *)
(* readers agree                                                        *)
(* ------------------------------------------------------------------ *)

Theorem C18_store_enterprise_refines_read_params :
  forall (dom : Z -> Prop) (emb : Z -> list N) (s : okv enterprise_val) (w : eworld),
  Rent dom emb s (ew_ent w) ->
  go_st_GetParams s = Ok (ent_GetParams w) /\
  go_st_GetParamDenom s = Ok (ent_GetParamDenom w) /\
  go_st_GetParamMinAccepts s = Ok (ep_min_accepts (e_params (ew_ent w))) /\
  go_st_GetParamDecisionLimit s = Ok (ep_time_limit (e_params (ew_ent w))) /\
  go_st_GetParamEntSigners s = Ok (ep_signers (e_params (ew_ent w))).
Proof.
  exact (fun dom emb s w HR =>
    conj (GetParams_refines dom emb s w HR) (conj (GetParamDenom_refines dom emb s w HR) (GetParamFields_refine dom emb s w HR))).
Qed.
Print Assumptions C18_store_enterprise_refines_read_params.

Theorem C18_store_enterprise_refines_read_highest :
  forall (dom : Z -> Prop) (emb : Z -> list N) (s : okv enterprise_val) (w : eworld),
  Rent dom emb s (ew_ent w) ->
  go_st_GetHighestPurchaseOrderID s = ent_GetHighestPurchaseOrderID w.
Proof. exact GetHighestPurchaseOrderID_refines. Qed.
Print Assumptions C18_store_enterprise_refines_read_highest.

Theorem C18_store_enterprise_refines_read_purchase_orders :
  forall (dom : Z -> Prop) (emb : Z -> list N) (s : okv enterprise_val) (w : eworld) (id : Z),
  Rent dom emb s (ew_ent w) -> 0 <= id < 2 ^ 64 ->
  go_st_PurchaseOrderExists s id = Ok (ent_PurchaseOrderExists w id) /\
  go_st_GetPurchaseOrder s id = Ok (ent_GetPurchaseOrder w id) /\
  go_st_PurchaseOrderIsInRaisedQueue s id = Ok (mem_addr id (ent_GetAllRaisedPurchaseOrders w)) /\
  go_st_PurchaseOrderIsInAcceptedQueue s id = Ok (mem_addr id (ent_GetAllAcceptedPurchaseOrders w)).
Proof.
  exact (fun dom emb s w id HR H =>
    conj (PurchaseOrderExists_refines dom emb s w id HR H) (conj (GetPurchaseOrder_refines dom emb s w id HR H)
    (conj (PurchaseOrderIsInRaisedQueue_refines dom emb s w id HR H) (PurchaseOrderIsInAcceptedQueue_refines dom emb s w id HR H)))).
Qed.
Print Assumptions C18_store_enterprise_refines_read_purchase_orders.

Theorem C18_store_enterprise_refines_read_whitelist :
  forall (dom : Z -> Prop) (emb : Z -> list N),
  (forall a, dom a -> emb a <> []) ->
  forall (s : okv enterprise_val) (w : eworld) (a : Z),
  Rent dom emb s (ew_ent w) -> dom a ->
  go_st_AddressIsWhitelisted s (emb a) = Ok (ent_AddressIsWhitelisted w a).
Proof. exact AddressIsWhitelisted_refines. Qed.
Print Assumptions C18_store_enterprise_refines_read_whitelist.

Theorem C18_store_enterprise_refines_read_totals :
  forall (dom : Z -> Prop) (emb : Z -> list N) (s : okv enterprise_val) (w : eworld),
  Rent dom emb s (ew_ent w) ->
  go_st_GetTotalLockedUnd s = Ok (ent_GetTotalLockedUnd w) /\ go_st_GetTotalSpentEFUND s = Ok (ent_GetTotalSpentEFUND w).
Proof.
  exact (fun dom emb s w HR => conj (GetTotalLockedUnd_refines dom emb s w HR) (GetTotalSpentEFUND_refines dom emb s w HR)).
Qed.
Print Assumptions C18_store_enterprise_refines_read_totals.

Theorem C18_store_enterprise_refines_read_locked :
  forall (dom : Z -> Prop) (emb : Z -> list N) (unemb : list N -> Z),
  (forall a, dom a -> unemb (emb a) = a) ->
  forall (s : okv enterprise_val) (w : eworld) (a : Z),
  Rent dom emb s (ew_ent w) -> dom a ->
  go_st_AccountHasLockedUnd s (emb a) = Ok (ahas a (e_locked (ew_ent w))) /\
  go_st_GetLockedUndForAccount unemb s (emb a) = Ok (ent_GetLockedUndForAccount w a) /\
  go_st_GetLockedUndAmountForAccount unemb s (emb a) = Ok (locked_coin (ew_ent w) a) /\
  go_st_IsLocked unemb s (emb a) = Ok (0 <? snd (locked_coin (ew_ent w) a)).
Proof.
  exact (fun dom emb unemb Hu s w a HR D =>
    conj (AccountHasLockedUnd_refines dom emb s w a HR D) (conj (GetLockedUndForAccount_refines dom emb unemb Hu s w a HR D)
    (conj (GetLockedUndAmountForAccount_refines dom emb unemb Hu s w a HR D) (IsLocked_refines dom emb unemb Hu s w a HR D)))).
Qed.
Print Assumptions C18_store_enterprise_refines_read_locked.

Theorem C18_store_enterprise_refines_read_spent :
  forall (dom : Z -> Prop) (emb : Z -> list N) (unemb : list N -> Z),
  (forall a, dom a -> unemb (emb a) = a) ->
  forall (s : okv enterprise_val) (w : eworld) (a : Z),
  Rent dom emb s (ew_ent w) -> dom a ->
  go_st_AccountHasSpentEFUND s (emb a) = Ok (ahas a (e_spent (ew_ent w))) /\
  go_st_GetSpentEFUNDForAccount unemb s (emb a) = Ok (ent_GetSpentEFUNDForAccount w a) /\
  go_st_GetSpentEFUNDAmountForAccount unemb s (emb a) = Ok (spent_coin (ew_ent w) a).
Proof.
  exact (fun dom emb unemb Hu s w a HR D =>
    conj (AccountHasSpentEFUND_refines dom emb s w a HR D) (conj (GetSpentEFUNDForAccount_refines dom emb unemb Hu s w a HR D)
    (GetSpentEFUNDAmountForAccount_refines dom emb unemb Hu s w a HR D))).
Qed.
Print Assumptions C18_store_enterprise_refines_read_spent.

(* ------------------------------------------------------------------ *)
(* writers simulate: same Ok / Err / Panic, related states; the codes   *)
(* ------------------------------------------------------------------ *)

(* SetParams: the primitive's error is ERR_ENT, the generated code's the error of Params.Validate *)
Theorem C18_store_enterprise_refines_SetParams :
  forall (dom : Z -> Prop) (emb : Z -> list N) (s : okv enterprise_val) (w : eworld) (p : go_Params),
  Rent dom emb s (ew_ent w) ->
  0 <= Params_MinAccepts p /\ 0 <= Params_DecisionTimeLimit p /\ go_len_list (Params_EntSigners p) < two64 ->
  match ent_SetParams w p, go_st_SetParams s p with
  | Ok a, Ok c => Rent dom emb (fst c) (ew_ent (fst a))
  | Err e, Err e' =>
      e = ERR_ENT /\
      e' = (if (Params_Denom p <? 0) && negb (Params_Denom p =? go_zero_denom) then 1 else enterprise_ErrInvalidParams)
  | Panic q, Panic q' => q = q'
  | _, _ => False
  end.
Proof. exact SetParams_refines. Qed.
Print Assumptions C18_store_enterprise_refines_SetParams.

(* ... the same code unless the denomination is malformed without being blank *)
Theorem C18_store_enterprise_refines_SetParams_same_code :
  forall (dom : Z -> Prop) (emb : Z -> list N) (s : okv enterprise_val) (w : eworld) (p : go_Params),
  Rent dom emb s (ew_ent w) ->
  0 <= Params_MinAccepts p /\ 0 <= Params_DecisionTimeLimit p /\ go_len_list (Params_EntSigners p) < two64 ->
  0 <= Params_Denom p \/ Params_Denom p = go_zero_denom ->
  match ent_SetParams w p, go_st_SetParams s p with
  | Ok a, Ok c => Rent dom emb (fst c) (ew_ent (fst a))
  | Err e, Err e' => e = e'
  | Panic q, Panic q' => q = q'
  | _, _ => False
  end.
Proof. exact SetParams_sim. Qed.
Print Assumptions C18_store_enterprise_refines_SetParams_same_code.

Theorem C18_store_enterprise_refines_SetHighestPurchaseOrderID :
  forall (dom : Z -> Prop) (emb : Z -> list N) (s : okv enterprise_val) (w : eworld) (n : Z),
  Rent dom emb s (ew_ent w) -> 0 <= n < 2 ^ 64 ->
  match ent_SetHighestPurchaseOrderID w n, go_st_SetHighestPurchaseOrderID s n with
  | Ok a, Ok c => Rent dom emb (fst c) (ew_ent (fst a))
  | Err e, Err e' => e = e'
  | Panic q, Panic q' => q = q'
  | _, _ => False
  end.
Proof. exact SetHighestPurchaseOrderID_refines. Qed.
Print Assumptions C18_store_enterprise_refines_SetHighestPurchaseOrderID.

(* SetPurchaseOrder: an invalid status is ERR_ENT in the primitive, STORE_ERR in the generated file *)
Theorem C18_store_enterprise_refines_SetPurchaseOrder :
  forall (dom : Z -> Prop) (emb : Z -> list N) (s : okv enterprise_val) (w : eworld) (g : go_EnterpriseUndPurchaseOrder),
  Rent dom emb s (ew_ent w) -> 0 <= EnterpriseUndPurchaseOrder_Id g < 2 ^ 64 ->
  match ent_SetPurchaseOrder w g, go_st_SetPurchaseOrder s g with
  | Ok a, Ok c => Rent dom emb (fst c) (ew_ent (fst a))
  | Err e, Err e' => e = ERR_ENT /\ e' = STORE_ERR
  | Panic q, Panic q' => q = q'
  | _, _ => False
  end.
Proof. exact SetPurchaseOrder_refines. Qed.
Print Assumptions C18_store_enterprise_refines_SetPurchaseOrder.

(* the queues: Add agrees for an id above every queued id *)
Theorem C18_store_enterprise_refines_AddPoToRaisedQueue :
  forall (dom : Z -> Prop) (emb : Z -> list N) (s : okv enterprise_val) (w : eworld) (id : Z),
  Rent dom emb s (ew_ent w) -> 0 <= id < 2 ^ 64 ->
  (forall y, In y (e_raisedq (ew_ent w)) -> y < id) ->
  match ent_AddPoToRaisedQueue w id, go_st_AddPoToRaisedQueue s id with
  | Ok a, Ok c => Rent dom emb (fst c) (ew_ent (fst a))
  | Err e, Err e' => e = e'
  | Panic q, Panic q' => q = q'
  | _, _ => False
  end.
Proof. exact AddPoToRaisedQueue_refines. Qed.
Print Assumptions C18_store_enterprise_refines_AddPoToRaisedQueue.

Theorem C18_store_enterprise_refines_RemovePurchaseOrderFromRaisedQueue :
  forall (dom : Z -> Prop) (emb : Z -> list N) (s : okv enterprise_val) (w : eworld) (id : Z),
  Rent dom emb s (ew_ent w) -> 0 <= id < 2 ^ 64 ->
  match ent_RemovePurchaseOrderFromRaisedQueue w id, go_st_RemovePurchaseOrderFromRaisedQueue s id with
  | Ok a, Ok c => Rent dom emb (fst c) (ew_ent (fst a))
  | Err e, Err e' => e = e'
  | Panic q, Panic q' => q = q'
  | _, _ => False
  end.
Proof. exact RemovePurchaseOrderFromRaisedQueue_refines. Qed.
Print Assumptions C18_store_enterprise_refines_RemovePurchaseOrderFromRaisedQueue.

Theorem C18_store_enterprise_refines_AddPoToAcceptedQueue :
  forall (dom : Z -> Prop) (emb : Z -> list N) (s : okv enterprise_val) (w : eworld) (id : Z),
  Rent dom emb s (ew_ent w) -> 0 <= id < 2 ^ 64 ->
  (forall y, In y (e_acceptedq (ew_ent w)) -> y < id) ->
  match ent_AddPoToAcceptedQueue w id, go_st_AddPoToAcceptedQueue s id with
  | Ok a, Ok c => Rent dom emb (fst c) (ew_ent (fst a))
  | Err e, Err e' => e = e'
  | Panic q, Panic q' => q = q'
  | _, _ => False
  end.
Proof. exact AddPoToAcceptedQueue_refines. Qed.
Print Assumptions C18_store_enterprise_refines_AddPoToAcceptedQueue.

Theorem C18_store_enterprise_refines_RemovePurchaseOrderFromAcceptedQueue :
  forall (dom : Z -> Prop) (emb : Z -> list N) (s : okv enterprise_val) (w : eworld) (id : Z),
  Rent dom emb s (ew_ent w) -> 0 <= id < 2 ^ 64 ->
  match ent_RemovePurchaseOrderFromAcceptedQueue w id, go_st_RemovePurchaseOrderFromAcceptedQueue s id with
  | Ok a, Ok c => Rent dom emb (fst c) (ew_ent (fst a))
  | Err e, Err e' => e = e'
  | Panic q, Panic q' => q = q'
  | _, _ => False
  end.
Proof. exact RemovePurchaseOrderFromAcceptedQueue_refines. Qed.
Print Assumptions C18_store_enterprise_refines_RemovePurchaseOrderFromAcceptedQueue.

(* the whitelist: Add agrees for an address that is not whitelisted yet *)
Theorem C18_store_enterprise_refines_AddAddressToWhitelist :
  forall (dom : Z -> Prop) (emb : Z -> list N),
  (forall a b, dom a -> dom b -> emb a = emb b -> a = b) ->
  (forall a, dom a -> emb a <> []) ->
  forall (s : okv enterprise_val) (w : eworld) (a : Z),
  Rent dom emb s (ew_ent w) -> dom a -> ent_AddressIsWhitelisted w a = false ->
  match ent_AddAddressToWhitelist w a, go_st_AddAddressToWhitelist s (emb a) with
  | Ok x, Ok c => Rent dom emb (fst c) (ew_ent (fst x))
  | Err e, Err e' => e = e'
  | Panic q, Panic q' => q = q'
  | _, _ => False
  end.
Proof. exact AddAddressToWhitelist_refines. Qed.
Print Assumptions C18_store_enterprise_refines_AddAddressToWhitelist.

Theorem C18_store_enterprise_refines_RemoveAddressFromWhitelist :
  forall (dom : Z -> Prop) (emb : Z -> list N),
  (forall a b, dom a -> dom b -> emb a = emb b -> a = b) ->
  (forall a, dom a -> emb a <> []) ->
  forall (s : okv enterprise_val) (w : eworld) (a : Z),
  Rent dom emb s (ew_ent w) -> dom a ->
  match ent_RemoveAddressFromWhitelist w a, go_st_RemoveAddressFromWhitelist s (emb a) with
  | Ok x, Ok c => Rent dom emb (fst c) (ew_ent (fst x))
  | Err e, Err e' => e = e'
  | Panic q, Panic q' => q = q'
  | _, _ => False
  end.
Proof. exact RemoveAddressFromWhitelist_refines. Qed.
Print Assumptions C18_store_enterprise_refines_RemoveAddressFromWhitelist.

Theorem C18_store_enterprise_refines_SetTotals :
  forall (dom : Z -> Prop) (emb : Z -> list N) (s : okv enterprise_val) (w : eworld) (c : go_coin),
  Rent dom emb s (ew_ent w) ->
  match ent_SetTotalLockedUnd w c, go_st_SetTotalLockedUnd s c with
  | Ok x, Ok y => Rent dom emb (fst y) (ew_ent (fst x))
  | Err e, Err e' => e = e'
  | Panic q, Panic q' => q = q'
  | _, _ => False
  end /\
  match ent_SetTotalSpentEFUND w c, go_st_SetTotalSpentEFUND s c with
  | Ok x, Ok y => Rent dom emb (fst y) (ew_ent (fst x))
  | Err e, Err e' => e = e'
  | Panic q, Panic q' => q = q'
  | _, _ => False
  end.
Proof.
  exact (fun dom emb s w c HR => conj (SetTotalLockedUnd_refines dom emb s w c HR) (SetTotalSpentEFUND_refines dom emb s w c HR)).
Qed.
Print Assumptions C18_store_enterprise_refines_SetTotals.

(* SetLockedUndForAccount: for an owner that parses; a negative amount is ERR_ENT in the primitive, STORE_ERR in the
   generated file *)
Theorem C18_store_enterprise_refines_SetLockedUndForAccount :
  forall (dom : Z -> Prop) (emb : Z -> list N),
  (forall a b, dom a -> dom b -> emb a = emb b -> a = b) ->
  (forall a, dom a -> addr_parses a = true) ->
  forall (s : okv enterprise_val) (w : eworld) (x : go_LockedUnd),
  Rent dom emb s (ew_ent w) -> dom (LockedUnd_Owner x) ->
  match ent_SetLockedUndForAccount w x,
        go_st_SetLockedUndForAccount (fun a => if addr_parses a then Ok (emb a) else Err ERR_ENT) s x with
  | Ok a, Ok c => Rent dom emb (fst c) (ew_ent (fst a))
  | Err e, Err e' => e = ERR_ENT /\ e' = STORE_ERR
  | Panic q, Panic q' => q = q'
  | _, _ => False
  end.
Proof. exact SetLockedUndForAccount_refines. Qed.
Print Assumptions C18_store_enterprise_refines_SetLockedUndForAccount.

Theorem C18_store_enterprise_refines_SetSpentEFUNDForAccount :
  forall (dom : Z -> Prop) (emb : Z -> list N),
  (forall a b, dom a -> dom b -> emb a = emb b -> a = b) ->
  (forall a, dom a -> addr_parses a = true) ->
  forall (s : okv enterprise_val) (w : eworld) (x : go_SpentEFUND),
  Rent dom emb s (ew_ent w) -> dom (SpentEFUND_Owner x) ->
  match ent_SetSpentEFUNDForAccount w x,
        go_st_SetSpentEFUNDForAccount (fun a => if addr_parses a then Ok (emb a) else Err ERR_ENT) s x with
  | Ok a, Ok c => Rent dom emb (fst c) (ew_ent (fst a))
  | Err e, Err e' => e = e'
  | Panic q, Panic q' => q = q'
  | _, _ => False
  end.
Proof. exact SetSpentEFUNDForAccount_refines. Qed.
Print Assumptions C18_store_enterprise_refines_SetSpentEFUNDForAccount.

(* ------------------------------------------------------------------ *)
(* listings                                                             *)
(* ------------------------------------------------------------------ *)

(* ksort key: insertion sort in the bytes.Compare order of [key]: a permutation of its argument, ascending when no key
   occurs twice, the identity on an ascending list; and an ascending listing is determined by its content *)
Theorem C18_store_enterprise_refines_ksort :
  forall (A : Type) (key : A -> list N),
  (forall l : list A, Permutation (ksort key l) l) /\
  (forall l : list A, NoDup (map key l) -> StronglySorted (fun a b => lex_lt (key a) (key b) = true) (ksort key l)) /\
  (forall l : list A, StronglySorted (fun a b => lex_lt (key a) (key b) = true) l -> ksort key l = l) /\
  (forall l1 l2 : list A,
     StronglySorted (fun a b => lex_lt (key a) (key b) = true) l1 ->
     StronglySorted (fun a b => lex_lt (key a) (key b) = true) l2 -> Permutation l1 l2 -> l1 = l2).
Proof.
  exact (fun A key => conj (ksort_perm key) (conj (ksort_sorted key) (conj (ksort_id key) (sorted_perm_unique key)))).
Qed.
Print Assumptions C18_store_enterprise_refines_ksort.

(* the two queues (they drive BeginBlock): exactly the abstract lists, for GetAll* and for any callback of Iterate* *)
Theorem C18_store_enterprise_refines_listing_queues :
  forall (dom : Z -> Prop) (emb : Z -> list N) (s : okv enterprise_val) (w : eworld),
  Rent dom emb s (ew_ent w) ->
  go_st_GetAllRaisedPurchaseOrders s = Ok (ent_GetAllRaisedPurchaseOrders w) /\
  go_st_GetAllAcceptedPurchaseOrders s = Ok (ent_GetAllAcceptedPurchaseOrders w) /\
  (forall St (cb : St -> Z -> outcome (St * bool)) st0,
     go_st_IterateRaisedQueue s cb st0 = lst_iterate cb (ent_GetAllRaisedPurchaseOrders w) st0) /\
  (forall St (cb : St -> Z -> outcome (St * bool)) st0,
     go_st_IterateAcceptedQueue s cb st0 = lst_iterate cb (ent_GetAllAcceptedPurchaseOrders w) st0).
Proof.
  exact (fun dom emb s w HR =>
    conj (GetAllRaisedPurchaseOrders_refines dom emb s w HR) (conj (GetAllAcceptedPurchaseOrders_refines dom emb s w HR)
    (conj (IterateRaisedQueue_refines dom emb s w HR) (IterateAcceptedQueue_refines dom emb s w HR)))).
Qed.
Print Assumptions C18_store_enterprise_refines_listing_queues.

(* the loop over an already decoded list *)
Theorem C18_store_enterprise_refines_lst_iterate :
  forall (A St : Type) (cb : St -> A -> outcome (St * bool)) (a : A) (l : list A) (st : St),
  lst_iterate cb [] st = Ok st /\
  lst_iterate cb (a :: l) st = (do res <- cb st a; if snd res then Ok (fst res) else lst_iterate cb l (fst res)).
Proof. exact (fun A St cb a l st => conj eq_refl eq_refl). Qed.
Print Assumptions C18_store_enterprise_refines_lst_iterate.

(* purchase orders: the entries of the abstract map, sorted by store key *)
Theorem C18_store_enterprise_refines_listing_purchase_orders :
  forall (dom : Z -> Prop) (emb : Z -> list N) (s : okv enterprise_val) (w : eworld),
  Rent dom emb s (ew_ent w) ->
  go_st_GetAllPurchaseOrders s =
    Ok (map (fun kv => to_go_po (snd kv)) (ksort (fun kv => ent_encode (EkPO (Z.to_N (fst kv)))) (e_pos (ew_ent w)))) /\
  (exists L, go_st_GetAllPurchaseOrders s = Ok L /\ Permutation L (ent_GetAllPurchaseOrders w)) /\
  (StronglySorted Z.lt (akeys (e_pos (ew_ent w))) -> go_st_GetAllPurchaseOrders s = Ok (ent_GetAllPurchaseOrders w)) /\
  (forall St (cb : St -> go_EnterpriseUndPurchaseOrder -> outcome (St * bool)) st0,
     go_st_IteratePurchaseOrders s cb st0 =
     lst_iterate cb
       (map (fun kv => to_go_po (snd kv)) (ksort (fun kv => ent_encode (EkPO (Z.to_N (fst kv)))) (e_pos (ew_ent w)))) st0).
Proof.
  exact (fun dom emb s w HR =>
    conj (GetAllPurchaseOrders_refines dom emb s w HR) (conj (GetAllPurchaseOrders_refines_perm dom emb s w HR)
    (conj (GetAllPurchaseOrders_refines_sorted dom emb s w HR) (IteratePurchaseOrders_refines dom emb s w HR)))).
Qed.
Print Assumptions C18_store_enterprise_refines_listing_purchase_orders.

(* whitelist: the abstract list sorted by address bytes *)
Theorem C18_store_enterprise_refines_listing_whitelist :
  forall (dom : Z -> Prop) (emb : Z -> list N) (unemb : list N -> Z),
  (forall a b, dom a -> dom b -> emb a = emb b -> a = b) ->
  (forall a, dom a -> unemb (emb a) = a) ->
  forall (s : okv enterprise_val) (w : eworld),
  Rent dom emb s (ew_ent w) ->
  go_st_GetAllWhitelistedAddresses unemb s =
    Ok (ksort (fun a => ent_encode (EkWhitelist (emb a))) (ent_GetAllWhitelistedAddresses w)) /\
  (exists L, go_st_GetAllWhitelistedAddresses unemb s = Ok L /\ Permutation L (ent_GetAllWhitelistedAddresses w)) /\
  (StronglySorted (fun a b => lex_lt (emb a) (emb b) = true) (e_wl (ew_ent w)) ->
   go_st_GetAllWhitelistedAddresses unemb s = Ok (ent_GetAllWhitelistedAddresses w)) /\
  (forall St (cb : St -> list N -> outcome (St * bool)) st0,
     go_st_IterateWhitelist s cb st0 =
     lst_iterate cb (map emb (ksort (fun a => ent_encode (EkWhitelist (emb a))) (ent_GetAllWhitelistedAddresses w))) st0).
Proof.
  exact (fun dom emb unemb Hi Hu s w HR =>
    conj (GetAllWhitelistedAddresses_refines dom emb unemb Hi Hu s w HR)
    (conj (GetAllWhitelistedAddresses_refines_perm dom emb unemb Hi Hu s w HR)
    (conj (GetAllWhitelistedAddresses_refines_sorted dom emb unemb Hi Hu s w HR) (IterateWhitelist_refines dom emb Hi s w HR)))).
Qed.
Print Assumptions C18_store_enterprise_refines_listing_whitelist.

(* locked / spent: the entries of the abstract maps, sorted by the address bytes of the owner *)
Theorem C18_store_enterprise_refines_listing_locked :
  forall (dom : Z -> Prop) (emb : Z -> list N),
  (forall a b, dom a -> dom b -> emb a = emb b -> a = b) ->
  forall (s : okv enterprise_val) (w : eworld),
  Rent dom emb s (ew_ent w) ->
  go_st_GetAllLockedUnds s =
    Ok (map (fun kv => mk_go_LockedUnd (fst kv) (snd kv))
            (ksort (fun kv => ent_encode (EkLocked (emb (fst kv)))) (e_locked (ew_ent w)))) /\
  (exists L, go_st_GetAllLockedUnds s = Ok L /\ Permutation L (ent_GetAllLockedUnds w)) /\
  (StronglySorted (fun a b => lex_lt (emb a) (emb b) = true) (akeys (e_locked (ew_ent w))) ->
   go_st_GetAllLockedUnds s = Ok (ent_GetAllLockedUnds w)).
Proof.
  exact (fun dom emb Hi s w HR =>
    conj (GetAllLockedUnds_refines dom emb Hi s w HR) (conj (GetAllLockedUnds_refines_perm dom emb Hi s w HR)
    (GetAllLockedUnds_refines_sorted dom emb Hi s w HR))).
Qed.
Print Assumptions C18_store_enterprise_refines_listing_locked.

Theorem C18_store_enterprise_refines_listing_spent :
  forall (dom : Z -> Prop) (emb : Z -> list N),
  (forall a b, dom a -> dom b -> emb a = emb b -> a = b) ->
  forall (s : okv enterprise_val) (w : eworld),
  Rent dom emb s (ew_ent w) ->
  go_st_GetAllSpentEFUNDs s =
    Ok (map (fun kv => mk_go_SpentEFUND (fst kv) (snd kv))
            (ksort (fun kv => ent_encode (EkSpent (emb (fst kv)))) (e_spent (ew_ent w)))) /\
  (exists L, go_st_GetAllSpentEFUNDs s = Ok L /\ Permutation L (ent_GetAllSpentEFUNDs w)) /\
  (StronglySorted (fun a b => lex_lt (emb a) (emb b) = true) (akeys (e_spent (ew_ent w))) ->
   go_st_GetAllSpentEFUNDs s = Ok (ent_GetAllSpentEFUNDs w)).
Proof.
  exact (fun dom emb Hi s w HR =>
    conj (GetAllSpentEFUNDs_refines dom emb Hi s w HR) (conj (GetAllSpentEFUNDs_refines_perm dom emb Hi s w HR)
    (GetAllSpentEFUNDs_refines_sorted dom emb Hi s w HR))).
Qed.
Print Assumptions C18_store_enterprise_refines_listing_spent.

(* ------------------------------------------------------------------ *)
(* initial states                                                       *)
(* ------------------------------------------------------------------ *)

(* the store after the two genesis writes represents (those parameters, that counter, nothing else); and on both sides
   the genesis has the same verdict on the parameters *)
Theorem C18_store_enterprise_refines_init :
  forall (dom : Z -> Prop) (emb : Z -> list N) (p : go_Params) (n : Z),
  (forall s1 s2, go_st_SetParams [] p = Ok (s1, tt) -> go_st_SetHighestPurchaseOrderID s1 n = Ok (s2, tt) -> 0 <= n < 2 ^ 64 ->
     Rent dom emb s2
       {| e_params := params_of_go p; e_next := n; e_pos := []; e_raisedq := []; e_acceptedq := []; e_wl := [];
          e_locked := []; e_spent := []; e_totlocked := None; e_totspent := None |}) /\
  (forall w,
     ew_ent w = {| e_params := params_of_go zero_go_Params; e_next := 0; e_pos := []; e_raisedq := []; e_acceptedq := [];
                   e_wl := []; e_locked := []; e_spent := []; e_totlocked := None; e_totspent := None |} ->
     0 <= Params_MinAccepts p /\ 0 <= Params_DecisionTimeLimit p /\ go_len_list (Params_EntSigners p) < two64 ->
     0 <= n < 2 ^ 64 ->
     match (do r <- ent_SetParams w p; ent_SetHighestPurchaseOrderID (fst r) n),
           (do r <- go_st_SetParams [] p; go_st_SetHighestPurchaseOrderID (fst r) n) with
     | Ok a, Ok c => Rent dom emb (fst c) (ew_ent (fst a))
     | Err e, Err e' =>
         e = ERR_ENT /\
         e' = (if (Params_Denom p <? 0) && negb (Params_Denom p =? go_zero_denom) then 1 else enterprise_ErrInvalidParams)
     | Panic q, Panic q' => q = q'
     | _, _ => False
     end).
Proof. exact (fun dom emb p n => conj (init_refines dom emb p n) (init_sim dom emb p n)). Qed.
Print Assumptions C18_store_enterprise_refines_init.

(* ------------------------------------------------------------------ *)
(* histories                                                            *)
(* ------------------------------------------------------------------ *)

(* the two step functions and the side condition of a call, in full *)
Theorem C18_store_enterprise_refines_steps :
  forall (dom : Z -> Prop) (emb : Z -> list N) (unemb : list N -> Z) (w : eworld) (s : okv enterprise_val) (o : eop),
  astep emb w o =
    match o with
    | OpSetParams p => do r <- ent_SetParams w p; Ok (fst r, ObUnit)
    | OpGetParams => Ok (w, ObParams (ent_GetParams w))
    | OpSetHighest n => do r <- ent_SetHighestPurchaseOrderID w n; Ok (fst r, ObUnit)
    | OpGetHighest => do n <- ent_GetHighestPurchaseOrderID w; Ok (w, ObZ n)
    | OpSetPO g => do r <- ent_SetPurchaseOrder w g; Ok (fst r, ObUnit)
    | OpGetPO id => Ok (w, ObPO (fst (ent_GetPurchaseOrder w id)) (snd (ent_GetPurchaseOrder w id)))
    | OpPOExists id => Ok (w, ObBool (ent_PurchaseOrderExists w id))
    | OpAllPOs =>
        Ok (w, ObPOs (map (fun kv => to_go_po (snd kv)) (ksort (fun kv => ent_encode (EkPO (Z.to_N (fst kv)))) (e_pos (ew_ent w)))))
    | OpAddRaised id => do r <- ent_AddPoToRaisedQueue w id; Ok (fst r, ObUnit)
    | OpRemoveRaised id => do r <- ent_RemovePurchaseOrderFromRaisedQueue w id; Ok (fst r, ObUnit)
    | OpInRaised id => Ok (w, ObBool (mem_addr id (ent_GetAllRaisedPurchaseOrders w)))
    | OpAllRaised => Ok (w, ObIds (ent_GetAllRaisedPurchaseOrders w))
    | OpAddAccepted id => do r <- ent_AddPoToAcceptedQueue w id; Ok (fst r, ObUnit)
    | OpRemoveAccepted id => do r <- ent_RemovePurchaseOrderFromAcceptedQueue w id; Ok (fst r, ObUnit)
    | OpInAccepted id => Ok (w, ObBool (mem_addr id (ent_GetAllAcceptedPurchaseOrders w)))
    | OpAllAccepted => Ok (w, ObIds (ent_GetAllAcceptedPurchaseOrders w))
    | OpAddWL a => do r <- ent_AddAddressToWhitelist w a; Ok (fst r, ObUnit)
    | OpRemoveWL a => do r <- ent_RemoveAddressFromWhitelist w a; Ok (fst r, ObUnit)
    | OpIsWL a => Ok (w, ObBool (ent_AddressIsWhitelisted w a))
    | OpAllWL => Ok (w, ObAddrs (ksort (fun a => ent_encode (EkWhitelist (emb a))) (ent_GetAllWhitelistedAddresses w)))
    | OpSetTotalLocked c => do r <- ent_SetTotalLockedUnd w c; Ok (fst r, ObUnit)
    | OpGetTotalLocked => Ok (w, ObCoin (ent_GetTotalLockedUnd w))
    | OpSetTotalSpent c => do r <- ent_SetTotalSpentEFUND w c; Ok (fst r, ObUnit)
    | OpGetTotalSpent => Ok (w, ObCoin (ent_GetTotalSpentEFUND w))
    | OpSetLocked x => do r <- ent_SetLockedUndForAccount w x; Ok (fst r, ObUnit)
    | OpGetLocked a => Ok (w, ObLocked (ent_GetLockedUndForAccount w a))
    | OpHasLocked a => Ok (w, ObBool (ahas a (e_locked (ew_ent w))))
    | OpAllLocked =>
        Ok (w, ObLockeds (map (fun kv => mk_go_LockedUnd (fst kv) (snd kv))
                              (ksort (fun kv => ent_encode (EkLocked (emb (fst kv)))) (e_locked (ew_ent w)))))
    | OpSetSpent x => do r <- ent_SetSpentEFUNDForAccount w x; Ok (fst r, ObUnit)
    | OpGetSpent a => Ok (w, ObSpent (ent_GetSpentEFUNDForAccount w a))
    | OpHasSpent a => Ok (w, ObBool (ahas a (e_spent (ew_ent w))))
    | OpAllSpent =>
        Ok (w, ObSpents (map (fun kv => mk_go_SpentEFUND (fst kv) (snd kv))
                             (ksort (fun kv => ent_encode (EkSpent (emb (fst kv)))) (e_spent (ew_ent w)))))
    end /\
  cstep emb unemb s o =
    match o with
    | OpSetParams p => do r <- go_st_SetParams s p; Ok (fst r, ObUnit)
    | OpGetParams => do p <- go_st_GetParams s; Ok (s, ObParams p)
    | OpSetHighest n => do r <- go_st_SetHighestPurchaseOrderID s n; Ok (fst r, ObUnit)
    | OpGetHighest => do n <- go_st_GetHighestPurchaseOrderID s; Ok (s, ObZ n)
    | OpSetPO g => do r <- go_st_SetPurchaseOrder s g; Ok (fst r, ObUnit)
    | OpGetPO id => do r <- go_st_GetPurchaseOrder s id; Ok (s, ObPO (fst r) (snd r))
    | OpPOExists id => do b <- go_st_PurchaseOrderExists s id; Ok (s, ObBool b)
    | OpAllPOs => do l <- go_st_GetAllPurchaseOrders s; Ok (s, ObPOs l)
    | OpAddRaised id => do r <- go_st_AddPoToRaisedQueue s id; Ok (fst r, ObUnit)
    | OpRemoveRaised id => do r <- go_st_RemovePurchaseOrderFromRaisedQueue s id; Ok (fst r, ObUnit)
    | OpInRaised id => do b <- go_st_PurchaseOrderIsInRaisedQueue s id; Ok (s, ObBool b)
    | OpAllRaised => do l <- go_st_GetAllRaisedPurchaseOrders s; Ok (s, ObIds l)
    | OpAddAccepted id => do r <- go_st_AddPoToAcceptedQueue s id; Ok (fst r, ObUnit)
    | OpRemoveAccepted id => do r <- go_st_RemovePurchaseOrderFromAcceptedQueue s id; Ok (fst r, ObUnit)
    | OpInAccepted id => do b <- go_st_PurchaseOrderIsInAcceptedQueue s id; Ok (s, ObBool b)
    | OpAllAccepted => do l <- go_st_GetAllAcceptedPurchaseOrders s; Ok (s, ObIds l)
    | OpAddWL a => do r <- go_st_AddAddressToWhitelist s (emb a); Ok (fst r, ObUnit)
    | OpRemoveWL a => do r <- go_st_RemoveAddressFromWhitelist s (emb a); Ok (fst r, ObUnit)
    | OpIsWL a => do b <- go_st_AddressIsWhitelisted s (emb a); Ok (s, ObBool b)
    | OpAllWL => do l <- go_st_GetAllWhitelistedAddresses unemb s; Ok (s, ObAddrs l)
    | OpSetTotalLocked c => do r <- go_st_SetTotalLockedUnd s c; Ok (fst r, ObUnit)
    | OpGetTotalLocked => do c <- go_st_GetTotalLockedUnd s; Ok (s, ObCoin c)
    | OpSetTotalSpent c => do r <- go_st_SetTotalSpentEFUND s c; Ok (fst r, ObUnit)
    | OpGetTotalSpent => do c <- go_st_GetTotalSpentEFUND s; Ok (s, ObCoin c)
    | OpSetLocked x =>
        do r <- go_st_SetLockedUndForAccount (fun a => if addr_parses a then Ok (emb a) else Err ERR_ENT) s x; Ok (fst r, ObUnit)
    | OpGetLocked a => do x <- go_st_GetLockedUndForAccount unemb s (emb a); Ok (s, ObLocked x)
    | OpHasLocked a => do b <- go_st_AccountHasLockedUnd s (emb a); Ok (s, ObBool b)
    | OpAllLocked => do l <- go_st_GetAllLockedUnds s; Ok (s, ObLockeds l)
    | OpSetSpent x =>
        do r <- go_st_SetSpentEFUNDForAccount (fun a => if addr_parses a then Ok (emb a) else Err ERR_ENT) s x; Ok (fst r, ObUnit)
    | OpGetSpent a => do x <- go_st_GetSpentEFUNDForAccount unemb s (emb a); Ok (s, ObSpent x)
    | OpHasSpent a => do b <- go_st_AccountHasSpentEFUND s (emb a); Ok (s, ObBool b)
    | OpAllSpent => do l <- go_st_GetAllSpentEFUNDs s; Ok (s, ObSpents l)
    end /\
  op_ok dom w o =
    match o with
    | OpSetParams p => 0 <= Params_MinAccepts p /\ 0 <= Params_DecisionTimeLimit p /\ go_len_list (Params_EntSigners p) < two64
    | OpSetHighest n => 0 <= n < 2 ^ 64
    | OpSetPO g => 0 <= EnterpriseUndPurchaseOrder_Id g < 2 ^ 64
    | OpGetPO id | OpPOExists id | OpRemoveRaised id | OpInRaised id | OpRemoveAccepted id | OpInAccepted id => 0 <= id < 2 ^ 64
    | OpAddRaised id => 0 <= id < 2 ^ 64 /\ (forall y, In y (e_raisedq (ew_ent w)) -> y < id)
    | OpAddAccepted id => 0 <= id < 2 ^ 64 /\ (forall y, In y (e_acceptedq (ew_ent w)) -> y < id)
    | OpAddWL a => dom a /\ ent_AddressIsWhitelisted w a = false
    | OpRemoveWL a | OpIsWL a | OpGetLocked a | OpHasLocked a | OpGetSpent a | OpHasSpent a => dom a
    | OpSetLocked x => dom (LockedUnd_Owner x)
    | OpSetSpent x => dom (SpentEFUND_Owner x)
    | OpGetParams | OpGetHighest | OpAllPOs | OpAllRaised | OpAllAccepted | OpAllWL | OpSetTotalLocked _ | OpGetTotalLocked
    | OpSetTotalSpent _ | OpGetTotalSpent | OpAllLocked | OpAllSpent => True
    end.
Proof. exact (fun dom emb unemb w s o => conj eq_refl (conj eq_refl eq_refl)). Qed.
Print Assumptions C18_store_enterprise_refines_steps.

(* a run, and the side conditions along the abstract run *)
Theorem C18_store_enterprise_refines_run :
  forall (dom : Z -> Prop) (emb : Z -> list N) (S : Type) (step : S -> eop -> outcome (S * eobs)) (s : S) (w : eworld)
         (o : eop) (ops : list eop),
  run step s [] = ([], s) /\
  run step s (o :: ops) =
    match step s o with
    | Ok (s', ob) => (Ok ob :: fst (run step s' ops), snd (run step s' ops))
    | Err e => (Err e :: fst (run step s ops), snd (run step s ops))
    | Panic c => ([Panic c], s)
    end /\
  ops_ok dom emb w [] = True /\
  ops_ok dom emb w (o :: ops) =
    (op_ok dom w o /\
     match astep emb w o with
     | Ok (w', _) => ops_ok dom emb w' ops
     | Err _ => ops_ok dom emb w ops
     | Panic _ => True
     end).
Proof. exact (fun dom emb S step s w o ops => conj eq_refl (conj eq_refl (conj eq_refl eq_refl))). Qed.
Print Assumptions C18_store_enterprise_refines_run.

(* one call: the same result (value read; Err on both sides, the codes equal or ERR_ENT against STORE_ERR / 1; the same
   Panic code), related states *)
Theorem C18_store_enterprise_refines_step :
  forall (dom : Z -> Prop) (emb : Z -> list N) (unemb : list N -> Z),
  (forall a b, dom a -> dom b -> emb a = emb b -> a = b) ->
  (forall a, dom a -> unemb (emb a) = a) ->
  (forall a, dom a -> emb a <> []) ->
  (forall a, dom a -> addr_parses a = true) ->
  forall (s : okv enterprise_val) (w : eworld) (o : eop),
  Rent dom emb s (ew_ent w) -> op_ok dom w o ->
  match astep emb w o, cstep emb unemb s o with
  | Ok a, Ok c => snd a = snd c /\ Rent dom emb (fst c) (ew_ent (fst a))
  | Err e, Err e' => e = e' \/ (e = ERR_ENT /\ (e' = STORE_ERR \/ e' = 1))
  | Panic p, Panic p' => p = p'
  | _, _ => False
  end.
Proof. exact step_refines. Qed.
Print Assumptions C18_store_enterprise_refines_step.

(* any sequence of calls from related states: the same trace of results, related final states; and no panic *)
Theorem C18_store_enterprise_refines_history :
  forall (dom : Z -> Prop) (emb : Z -> list N) (unemb : list N -> Z),
  (forall a b, dom a -> dom b -> emb a = emb b -> a = b) ->
  (forall a, dom a -> unemb (emb a) = a) ->
  (forall a, dom a -> emb a <> []) ->
  (forall a, dom a -> addr_parses a = true) ->
  forall (ops : list eop) (s : okv enterprise_val) (w : eworld),
  Rent dom emb s (ew_ent w) -> ops_ok dom emb w ops ->
  Forall2 (fun oa oc => match oa, oc with
                        | Ok a, Ok c => a = c
                        | Err e, Err e' => e = e' \/ (e = ERR_ENT /\ (e' = STORE_ERR \/ e' = 1))
                        | Panic p, Panic p' => p = p'
                        | _, _ => False
                        end)
          (fst (run (astep emb) w ops)) (fst (run (cstep emb unemb) s ops)) /\
  Rent dom emb (snd (run (cstep emb unemb) s ops)) (ew_ent (snd (run (astep emb) w ops))) /\
  (forall c, ~ In (Panic c) (fst (run (cstep emb unemb) s ops))).
Proof.
  exact (fun dom emb unemb Hi Hu Hn Hp ops s w HR Hok =>
    conj (proj1 (history_refines dom emb unemb Hi Hu Hn Hp ops s w HR Hok))
    (conj (proj2 (history_refines dom emb unemb Hi Hu Hn Hp ops s w HR Hok))
          (history_no_panic dom emb unemb Hi Hu Hn Hp ops s w HR Hok))).
Qed.
Print Assumptions C18_store_enterprise_refines_history.

(* ------------------------------------------------------------------ *)
(* non-vacuity                                                          *)
(* ------------------------------------------------------------------ *)

(* an embedding satisfying the hypotheses on 0..254 (one byte 1..255), one on every address that parses (a byte is an N in
   this model), and a related pair of states reached by a history *)
Theorem C18_store_enterprise_refines_nonvacuous :
  ( (forall a b, 0 <= a < 255 -> 0 <= b < 255 -> ex_emb a = ex_emb b -> a = b) /\
    (forall a, 0 <= a < 255 -> ex_unemb (ex_emb a) = a) /\
    (forall a, 0 <= a < 255 -> ex_emb a <> []) /\
    (forall a, 0 <= a < 255 -> addr_parses a = true) ) /\
  ( (forall a b, ex_emb_all a = ex_emb_all b -> a = b) /\
    (forall a, ex_unemb_all (ex_emb_all a) = a) /\
    (forall a, ex_emb_all a <> []) ) /\
  Rent (fun a => 0 <= a < 255) ex_emb ex_s0 (ew_ent ex_w0) /\
  ops_ok (fun a => 0 <= a < 255) ex_emb ex_w0 ex_ops /\
  Rent (fun a => 0 <= a < 255) ex_emb ex_final_store ex_final_state.
Proof.
  exact (conj (conj ex_emb_inj (conj ex_unemb_emb (conj ex_emb_nonempty ex_dom_parses)))
        (conj (conj ex_emb_all_inj (conj ex_unemb_emb_all ex_emb_all_nonempty))
        (conj ex_R0 (conj ex_ops_ok ex_related)))).
Qed.
Print Assumptions C18_store_enterprise_refines_nonvacuous.

(* the genesis of the example on both sides, and a run of forty-three calls (every accessor): the trace of the generated
   accessors, the trace of the primitives (they differ in the two refusals 30 / 10 only), the final store and state *)
Theorem C18_store_enterprise_refines_example_run :
  (do r <- go_st_SetParams [] ex_params; go_st_SetHighestPurchaseOrderID (fst r) 1) = Ok (ex_s0, tt) /\
  (do r <- ent_SetParams (mk_eworld 0 ex_bank blank_state) ex_params; ent_SetHighestPurchaseOrderID (fst r) 1) = Ok (ex_w0, tt) /\
  run (cstep ex_emb ex_unemb) ex_s0 ex_ops = (ex_trace 10 10, ex_final_store) /\
  fst (run (astep ex_emb) ex_w0 ex_ops) = ex_trace 30 30 /\
  ew_ent (snd (run (astep ex_emb) ex_w0 ex_ops)) = ex_final_state.
Proof. exact (conj (proj1 ex_genesis) (conj (proj2 ex_genesis) ex_runs)). Qed.
Print Assumptions C18_store_enterprise_refines_example_run.

(* the model's listings are in insertion order, the store's in key order *)
Theorem C18_store_enterprise_refines_listing_order_differs :
  let w := mk_eworld 0 ex_bank ex_final_state in
  ent_GetAllPurchaseOrders w = [ex_po 2 1; ex_po 1 1] /\ go_st_GetAllPurchaseOrders ex_final_store = Ok [ex_po 1 1; ex_po 2 1] /\
  ent_GetAllLockedUnds w = [mk_go_LockedUnd 4 (1, 20); mk_go_LockedUnd 2 (1, 30)] /\
  go_st_GetAllLockedUnds ex_final_store = Ok [mk_go_LockedUnd 2 (1, 30); mk_go_LockedUnd 4 (1, 20)].
Proof. exact ex_listing_order_differs. Qed.
Print Assumptions C18_store_enterprise_refines_listing_order_differs.

(* ------------------------------------------------------------------ *)
(* the side conditions and hypotheses are necessary                     *)
(* ------------------------------------------------------------------ *)
(* all runs below start from the genesis pair (ex_s0, ex_w0) *)

(* the queue as a list must be strictly ascending: Add of an id below a queued id appends in the primitive and inserts in
   place in the store; and a state with such a queue is represented by no store *)
Theorem C18_store_enterprise_refines_needs_ascending_queue :
  fst (run (astep ex_emb) ex_w0 [OpAddRaised 5; OpAddRaised 3; OpAllRaised]) = [Ok ObUnit; Ok ObUnit; Ok (ObIds [5; 3])] /\
  fst (run (cstep ex_emb ex_unemb) ex_s0 [OpAddRaised 5; OpAddRaised 3; OpAllRaised]) = [Ok ObUnit; Ok ObUnit; Ok (ObIds [3; 5])] /\
  (forall s, ~ Rent (fun a => 0 <= a < 255) ex_emb s (with_pos (init_state ex_params 1) [] [5; 3] [])).
Proof. exact (conj (proj1 AddPoToRaisedQueue_order_refuted) (conj (proj2 AddPoToRaisedQueue_order_refuted) queue_ascending_needed)). Qed.
Print Assumptions C18_store_enterprise_refines_needs_ascending_queue.

(* Add of an id that is queued already / of an address that is whitelisted already *)
Theorem C18_store_enterprise_refines_needs_fresh_member :
  fst (run (astep ex_emb) ex_w0 [OpAddRaised 3; OpAddRaised 3; OpAllRaised]) = [Ok ObUnit; Ok ObUnit; Ok (ObIds [3; 3])] /\
  fst (run (cstep ex_emb ex_unemb) ex_s0 [OpAddRaised 3; OpAddRaised 3; OpAllRaised]) = [Ok ObUnit; Ok ObUnit; Ok (ObIds [3])] /\
  fst (run (astep ex_emb) ex_w0 [OpAddWL 7; OpAddWL 7; OpAllWL]) = [Ok ObUnit; Ok ObUnit; Ok (ObAddrs [7; 7])] /\
  fst (run (cstep ex_emb ex_unemb) ex_s0 [OpAddWL 7; OpAddWL 7; OpAllWL]) = [Ok ObUnit; Ok ObUnit; Ok (ObAddrs [7])].
Proof.
  exact (conj (proj1 AddPoToRaisedQueue_again_refuted) (conj (proj2 AddPoToRaisedQueue_again_refuted)
        (conj (proj1 AddAddressToWhitelist_again_refuted) (proj2 AddAddressToWhitelist_again_refuted)))).
Qed.
Print Assumptions C18_store_enterprise_refines_needs_fresh_member.

(* error codes: SetParams with a malformed non-blank denomination (30 / 1); SetPurchaseOrder with an invalid status and
   SetLockedUndForAccount with a negative amount (30 / 10: never the same code) *)
Theorem C18_store_enterprise_refines_error_codes_differ :
  fst (run (astep ex_emb) ex_w0 [OpSetParams (mk_go_Params [5] (-7) 1 10)]) = [Err 30] /\
  fst (run (cstep ex_emb ex_unemb) ex_s0 [OpSetParams (mk_go_Params [5] (-7) 1 10)]) = [Err 1] /\
  fst (run (astep ex_emb) ex_w0 [OpSetPO (ex_po 3 9)]) = [Err 30] /\
  fst (run (cstep ex_emb ex_unemb) ex_s0 [OpSetPO (ex_po 3 9)]) = [Err 10] /\
  fst (run (astep ex_emb) ex_w0 [OpSetLocked (mk_go_LockedUnd 4 (1, -1))]) = [Err 30] /\
  fst (run (cstep ex_emb ex_unemb) ex_s0 [OpSetLocked (mk_go_LockedUnd 4 (1, -1))]) = [Err 10].
Proof.
  exact (conj (proj1 SetParams_code_refuted) (conj (proj2 SetParams_code_refuted)
        (conj (proj1 SetPurchaseOrder_code_refuted) (conj (proj2 SetPurchaseOrder_code_refuted)
        (conj (proj1 SetLockedUndForAccount_code_refuted) (proj2 SetLockedUndForAccount_code_refuted)))))).
Qed.
Print Assumptions C18_store_enterprise_refines_error_codes_differ.

(* SetParams outside the uint64 range of its fields: different verdicts *)
Theorem C18_store_enterprise_refines_needs_params_range :
  fst (run (astep ex_emb) ex_w0 [OpSetParams (mk_go_Params [5; 6] 0 (-1) 100)]) = [Err 30] /\
  fst (run (cstep ex_emb ex_unemb) ex_s0 [OpSetParams (mk_go_Params [5; 6] 0 (-1) 100)]) = [Ok ObUnit].
Proof. exact SetParams_range_refuted. Qed.
Print Assumptions C18_store_enterprise_refines_needs_params_range.

(* an owner that does not parse: stored by the primitive, refused by the generated code *)
Theorem C18_store_enterprise_refines_needs_parsing_owner :
  fst (run (astep ex_emb) ex_w0 [OpSetLocked (mk_go_LockedUnd BAD_ADDR (1, 5)); OpSetSpent (mk_go_SpentEFUND BAD_ADDR (1, 5))]) =
    [Ok ObUnit; Ok ObUnit] /\
  fst (run (cstep ex_emb ex_unemb) ex_s0
         [OpSetLocked (mk_go_LockedUnd BAD_ADDR (1, 5)); OpSetSpent (mk_go_SpentEFUND BAD_ADDR (1, 5))]) = [Err 30; Err 30].
Proof. exact SetLockedUndForAccount_owner_refuted. Qed.
Print Assumptions C18_store_enterprise_refines_needs_parsing_owner.

Theorem C18_store_enterprise_refines_needs_nonempty_owner :
  fst (run (astep ex_emb) ex_w0 [OpSetLocked (mk_go_LockedUnd EMPTY_ADDR (1, 5)); OpSetSpent (mk_go_SpentEFUND EMPTY_ADDR (1, 5))]) =
    [Ok ObUnit; Ok ObUnit] /\
  fst (run (cstep ex_emb ex_unemb) ex_s0
         [OpSetLocked (mk_go_LockedUnd EMPTY_ADDR (1, 5)); OpSetSpent (mk_go_SpentEFUND EMPTY_ADDR (1, 5))]) = [Err 30; Err 30].
Proof. exact SetLockedUndForAccount_empty_owner_refuted. Qed.
Print Assumptions C18_store_enterprise_refines_needs_nonempty_owner.

(* ids outside [0, 2^64): -5 converts to 0, 2^64 wraps to 0 *)
Theorem C18_store_enterprise_refines_needs_id_range :
  fst (run (astep ex_emb) ex_w0 [OpAddRaised 0; OpRemoveRaised (-5); OpInRaised 0]) = [Ok ObUnit; Ok ObUnit; Ok (ObBool true)] /\
  fst (run (cstep ex_emb ex_unemb) ex_s0 [OpAddRaised 0; OpRemoveRaised (-5); OpInRaised 0]) = [Ok ObUnit; Ok ObUnit; Ok (ObBool false)] /\
  fst (run (astep ex_emb) ex_w0 [OpSetPO (ex_po (2 ^ 64) 1); OpPOExists 0]) = [Ok ObUnit; Ok (ObBool false)] /\
  fst (run (cstep ex_emb ex_unemb) ex_s0 [OpSetPO (ex_po (2 ^ 64) 1); OpPOExists 0]) = [Ok ObUnit; Ok (ObBool true)].
Proof. exact id_range_refuted. Qed.
Print Assumptions C18_store_enterprise_refines_needs_id_range.

(* the counter cell: without it the generated reader fails where the primitive answers; the empty store represents no state *)
Theorem C18_store_enterprise_refines_needs_counter_cell :
  go_st_GetHighestPurchaseOrderID [] = Err STORE_ERR /\
  ent_GetHighestPurchaseOrderID (mk_eworld 0 ex_bank blank_state) = Ok 0 /\
  (forall st, ~ Rent (fun a => 0 <= a < 255) ex_emb [] st).
Proof. exact GetHighestPurchaseOrderID_absent_refuted. Qed.
Print Assumptions C18_store_enterprise_refines_needs_counter_cell.

(* emb injective; unemb (emb a) = a; emb a <> [] for the whitelist *)
Theorem C18_store_enterprise_refines_needs_injective :
  let emb := fun _ : Z => [1%N] in
  fst (run (astep emb) ex_w0 [OpAddWL 1; OpIsWL 2]) = [Ok ObUnit; Ok (ObBool false)] /\
  fst (run (cstep emb ex_unemb) ex_s0 [OpAddWL 1; OpIsWL 2]) = [Ok ObUnit; Ok (ObBool true)].
Proof. exact emb_inj_refuted. Qed.
Print Assumptions C18_store_enterprise_refines_needs_injective.

Theorem C18_store_enterprise_refines_needs_inverse :
  let unemb := fun _ : list N => 0 in
  fst (run (astep ex_emb) ex_w0 [OpGetLocked 4]) = [Ok (ObLocked (mk_go_LockedUnd 4 (1, 0)))] /\
  fst (run (cstep ex_emb unemb) ex_s0 [OpGetLocked 4]) = [Ok (ObLocked (mk_go_LockedUnd 0 (1, 0)))].
Proof. exact unemb_emb_refuted. Qed.
Print Assumptions C18_store_enterprise_refines_needs_inverse.

Theorem C18_store_enterprise_refines_needs_nonempty :
  let emb := fun _ : Z => @nil N in
  let unemb := fun _ : list N => 0 in
  (forall a, a = 0 -> unemb (emb a) = a) /\
  fst (run (astep emb) ex_w0 [OpAddWL 0; OpIsWL 0]) = [Ok ObUnit; Ok (ObBool true)] /\
  fst (run (cstep emb unemb) ex_s0 [OpAddWL 0; OpIsWL 0]) = [Err STORE_ERR_SDK; Ok (ObBool false)].
Proof. exact emb_nonempty_refuted. Qed.
Print Assumptions C18_store_enterprise_refines_needs_nonempty.
