(* C05, link to the source: UnlockCoinsForFees of /repo/x/enterprise/keeper/locked.go as generated on every run
   (coq/GeneratedEnterpriseKeeper.v) is the model's unlock_for_fees (model/Enterprise.v), about which C04 / C05 are proved
   (props/C04.v, props/C05.v), outcome for outcome (panic and error codes included), whenever
     - the enterprise denomination and that of the payer's locked entry are not the empty string,
     - the payer has a positive locked amount (the ante decorator calls the function only when IsLocked) and the total
       locked is not negative,
     - no fee amount is negative (sdk.Coins.IsValid, checked earlier in the ante chain, gives more),
     - the balance table has one row per (account, denomination).
   Every one of these is shown necessary in proofs/GeneratedEnterpriseEq.v (gen_unlock_*_refuted); all of them follow from
   the invariants [ent_inv] / [app_inv] and the decorator's guard.  Then the exact case split of C04 and the unlock rule
   of C05 for the generated code.
   [go_unlock_step w payer fee]: the step [OUnlock payer fee] of model/EnterpriseSpec.v with go_UnlockCoinsForFees in the
   place of the model (a failed ante stage leaves the world as it was); [go_unlock_ante]: the decorator
   [App.unlock_ante] of model/App.v calling go_UnlockCoinsForFees.
   Proofs: proofs/GeneratedEnterpriseEq.v. *)
From MC Require Import lib.Prelude lib.AMap lib.GoSdk GeneratedEnterpriseTypes model.Bank model.Enterprise
  model.EnterpriseSpec model.EnterpriseKeeperPrims GeneratedEnterpriseKeeper model.EnterpriseGenSpec.
From MC Require Import proofs.BankProofs proofs.EnterpriseProofs proofs.EnterpriseC04 proofs.GeneratedEnterpriseEq.
From MC Require model.App proofs.AppInv proofs.AppLockedProofs.
Local Open Scope Z_scope.

Theorem C05_generated_unlock_for_fees_is_model : forall w (payer : addr) (fee : list coin),
  ep_denom (e_params (ew_ent w)) <> go_zero_denom ->
  fst (locked_coin (ew_ent w) payer) <> go_zero_denom ->
  0 < snd (locked_coin (ew_ent w) payer) ->
  0 <= snd (total_locked (ew_ent w)) ->
  Forall (fun c => 0 <= snd c) fee ->
  bank_wf (ew_bank w) ->
  go_UnlockCoinsForFees w payer fee = eblift w (unlock_for_fees (ew_bank w) (ew_ent w) payer fee).
Proof. exact gen_ent_UnlockCoinsForFees_eq. Qed.
Print Assumptions C05_generated_unlock_for_fees_is_model.

(* the same on a world satisfying the invariant of C04 *)
Theorem C05_generated_unlock_for_fees_is_model_inv : forall w payer (fee : list coin),
  ent_inv w -> Forall (fun c => 0 < snd c) fee ->
  bank_wf (w_bank w) -> 0 < snd (locked_coin (w_ent w) payer) ->
  go_UnlockCoinsForFees (eworld_of_ent w) payer fee = eblift (eworld_of_ent w) (unlock_for_fees (w_bank w) (w_ent w) payer fee).
Proof. exact gen_ent_UnlockCoinsForFees_eq_inv. Qed.
Print Assumptions C05_generated_unlock_for_fees_is_model_inv.

(* the exact case split UnlockCoinsForFees implements (C04_unlock_exact_cases), for the generated code *)
Theorem C05_generated_unlock_exact_cases : forall w payer fee w',
  ent_inv w -> ent_op_wf w (OUnlock payer fee) ->
  bank_wf (w_bank w) -> 0 < snd (locked_coin (w_ent w) payer) ->
  go_unlock_step w payer fee = w' ->
  let d := ep_denom (e_params (w_ent w)) in
  let L := amount_coin (w_ent w) payer (e_locked (w_ent w)) in
  let f := fee_amount_of fee d in
  let liquid := balance (w_bank w) payer d in
  (* no coin of the enterprise denomination in the fee: SafeSub of a nil coin panics, tx rejected *)
  (fee_find fee d = None -> w' = w) /\
  (* locked >= fee and the fee is that single coin: unlock exactly the fee *)
  (fee_find fee d <> None -> f <= L -> fee = [(d, f)] -> unlocked w w' payer f) /\
  (* locked >= fee but the fee carries other denominations too: the undelegation fails *)
  (fee_find fee d <> None -> f <= L -> fee <> [(d, f)] -> w' = w) /\
  (* locked < fee <= liquid + locked: unlock everything that is locked *)
  (fee_find fee d <> None -> L < f <= liquid + L -> unlocked w w' payer L) /\
  (* cannot pay anyway: nothing is unlocked *)
  (fee_find fee d <> None -> L < f -> liquid + L < f -> w' = w).
Proof. exact gen_unlock_exact_cases. Qed.
Print Assumptions C05_generated_unlock_exact_cases.

(* the two failures, as outcomes of the generated code: the panic on the nil amount of Coin{} (code 22), and an error or
   panic of the undelegation of a fee with foreign coins *)
Theorem C05_generated_unlock_failures : forall w payer fee,
  ent_inv w -> ent_op_wf w (OUnlock payer fee) ->
  bank_wf (w_bank w) -> 0 < snd (locked_coin (w_ent w) payer) ->
  let d := ep_denom (e_params (w_ent w)) in
  (fee_find fee d = None -> go_UnlockCoinsForFees (eworld_of_ent w) payer fee = Panic PANIC_NILCOIN) /\
  (fee_find fee d <> None -> fee_amount_of fee d <= snd (locked_coin (w_ent w) payer) ->
   fee <> [(d, fee_amount_of fee d)] ->
   exists c, go_UnlockCoinsForFees (eworld_of_ent w) payer fee = Err c \/
             go_UnlockCoinsForFees (eworld_of_ent w) payer fee = Panic c).
Proof. exact gen_unlock_failures. Qed.
Print Assumptions C05_generated_unlock_failures.

(* in the application: the decorator calling the generated code is the model's decorator, with no hypothesis beyond the
   application invariant and the validity of the fee *)
Theorem C05_generated_unlock_ante_is_model : forall a t,
  AppInv.app_inv a -> App.coins_valid (App.tx_fee t) = true ->
  go_unlock_ante a t = App.unlock_ante a t.
Proof. exact gen_unlock_ante_eq. Qed.
Print Assumptions C05_generated_unlock_ante_is_model.

(* hence the unlock rule of C05 at the decorator: one amount u, 0 or min(fee, locked) and non-zero only for a
   WRKChain / BEACON transaction, leaves the payer's locked entry, the total and the escrow and is booked as spent *)
Theorem C05_generated_unlock_ante_rule : forall a t au,
  go_unlock_ante a t = Ok au -> AppInv.app_inv a -> 0 <= App.tx_payer t -> App.coins_valid (App.tx_fee t) = true ->
  NoDup (map fst (App.tx_fee t)) ->
  exists u,
    let d := ep_denom (e_params (App.a_ent a)) in
    let L := snd (locked_coin (App.a_ent a) (App.tx_payer t)) in
    let f := fee_amount_of (App.tx_fee t) d in
    0 <= u <= L /\
    (u <> 0 -> App.is_registry_tx t = true /\ u = Z.min f L) /\
    (forall x, snd (locked_coin (App.a_ent au) x) =
               snd (locked_coin (App.a_ent a) x) - (if x =? App.tx_payer t then u else 0)) /\
    (forall x, snd (spent_coin (App.a_ent au) x) =
               snd (spent_coin (App.a_ent a) x) + (if x =? App.tx_payer t then u else 0)) /\
    (forall d', balance (App.a_bank au) ENT_MACC d' =
                balance (App.a_bank a) ENT_MACC d' - (if d' =? d then u else 0)) /\
    snd (total_locked (App.a_ent au)) = snd (total_locked (App.a_ent a)) - u /\
    snd (total_spent (App.a_ent au)) = snd (total_spent (App.a_ent a)) + u.
Proof. exact gen_unlock_ante_rule. Qed.
Print Assumptions C05_generated_unlock_ante_rule.

(* ---- examples (world: proofs/GeneratedEnterpriseEq.v, part 5) ----
   xe_w1: account 7 holds 100 liquid nund and 50 locked (after MintCoinsAndLock of 50): escrow 50, supply 150.
   xe_obs w = (locked[7], spent[7], total locked, total spent, escrow, liquid balance of 7, supply) *)

Example C05_generated_ex_hypotheses :
  xe_w1 = xe_after (go_MintCoinsAndLock xe_w0 7 (NUND, 50)) /\ xe_obs xe_w1 = (50, 0, 50, 0, 50, 100, 150) /\
  ep_denom (e_params (ew_ent xe_w1)) <> go_zero_denom /\ fst (locked_coin (ew_ent xe_w1) 7) <> go_zero_denom /\
  0 < snd (locked_coin (ew_ent xe_w1) 7) /\ 0 <= snd (total_locked (ew_ent xe_w1)) /\ bank_wf (ew_bank xe_w1).
Proof. split; [reflexivity|]. split; [vm_compute; reflexivity|]. exact xe_w1_hyps. Qed.

(* a fee of 30 nund, below the locked 50: exactly the fee is unlocked and booked as spent *)
Example C05_generated_ex_unlock_fee :
  exists w', go_UnlockCoinsForFees xe_w1 7 [(NUND, 30)] = Ok (w', tt) /\
             xe_obs w' = (20, 30, 20, 30, 20, 130, 150).
Proof. eexists. split; vm_compute; reflexivity. Qed.

(* a fee of 120 nund, above the locked 50 but covered by liquid 100 + locked 50: everything locked is unlocked *)
Example C05_generated_ex_unlock_all :
  exists w', go_UnlockCoinsForFees xe_w1 7 [(NUND, 120)] = Ok (w', tt) /\
             xe_obs w' = (0, 50, 0, 50, 0, 150, 150).
Proof. eexists. split; vm_compute; reflexivity. Qed.

(* a fee of 200 nund is not covered: nothing is unlocked (the fee deduction will fail later) *)
Example C05_generated_ex_unlock_nothing :
  go_UnlockCoinsForFees xe_w1 7 [(NUND, 200)] = Ok (xe_w1, tt).
Proof. vm_compute. reflexivity. Qed.

(* a fee without the enterprise denomination: Coins.Find returns Coin{}, whose nil amount SafeSub dereferences *)
Example C05_generated_ex_unlock_no_nund :
  go_UnlockCoinsForFees xe_w1 7 [(17, 5)] = Panic GO_PANIC_NILCOIN /\ GO_PANIC_NILCOIN = PANIC_NILCOIN /\
  PANIC_NILCOIN = 22.
Proof. vm_compute. repeat split; reflexivity. Qed.

(* a two-denomination fee whose nund part the locked amount covers: all of the fee is undelegated from the escrow, which
   holds no coin of denomination 17: insufficient funds *)
Example C05_generated_ex_unlock_two_denoms :
  go_UnlockCoinsForFees xe_w1 7 [(NUND, 30); (17, 5)] = Err ERR_INSUFFICIENT /\ ERR_INSUFFICIENT = 5.
Proof. vm_compute. split; reflexivity. Qed.

(* in all five cases the model computes the same outcome (by computation here; by the theorem in general) *)
Example C05_generated_ex_model_agrees :
  Forall (fun fee => go_UnlockCoinsForFees xe_w1 7 fee = eblift xe_w1 (unlock_for_fees (ew_bank xe_w1) (ew_ent xe_w1) 7 fee))
    [[(NUND, 30)]; [(NUND, 120)]; [(NUND, 200)]; [(17, 5)]; [(NUND, 30); (17, 5)]].
Proof. repeat constructor; vm_compute; reflexivity. Qed.

(* the hypothesis "positive locked amount" cannot be dropped: with nothing locked and a liquid balance covering the fee
   the two sides agree on every amount but differ as data (the model's bank_send of 0 writes a zero escrow row) *)
Example C05_generated_ex_zero_locked :
  let w := xe_w0 in
  let fee := [(NUND, 30)] in
  ep_denom (e_params (ew_ent w)) <> go_zero_denom /\ fst (locked_coin (ew_ent w) 7) <> go_zero_denom /\
  0 <= snd (locked_coin (ew_ent w) 7) /\
  0 <= snd (total_locked (ew_ent w)) /\ Forall (fun c => 0 <= snd c) fee /\ bank_wf (ew_bank w) /\
  (exists w1 b2 s2, go_UnlockCoinsForFees w 7 fee = Ok (w1, tt) /\
                    unlock_for_fees (ew_bank w) (ew_ent w) 7 fee = Ok (b2, s2) /\
                    ew_ent w1 = s2 /\ bal (ew_bank w1) = [((7, NUND), 100)] /\
                    bal b2 = [((7, NUND), 100); ((ENT_MACC, NUND), 0)]) /\
  unlock_differs w 7 fee.
Proof. exact gen_unlock_zero_locked_refuted. Qed.
