(* C17: reported circulating supply is total supply minus locked eFUND.
   For the enterprise denomination the supply queries report bank supply minus total locked, with
   locked + unlocked = total and none negative; every other denomination is reported unchanged.
   (Pagination of the total-supply listing: C20.)  app_inv : proofs/AppInv.v. *)
From MC Require Import lib.Prelude lib.AMap model.Bank model.Stream model.StreamSpec model.Registry
  model.Enterprise model.EnterpriseSpec model.App model.AppSpec.
From MC Require Import proofs.AppInv proofs.AppSupplyProofs.
Local Open Scope Z_scope.

(* ---- SupplyOf(denom) ---- *)
Theorem C17_supply_of : forall a d,
  app_inv a ->
  q_supply_of (a_bank a) (a_ent a) d =
    Ok (if d =? ep_denom (e_params (a_ent a))
        then supply_of (a_bank a) d - snd (total_locked (a_ent a)) else supply_of (a_bank a) d) /\
  0 <= (if d =? ep_denom (e_params (a_ent a))
        then supply_of (a_bank a) d - snd (total_locked (a_ent a)) else supply_of (a_bank a) d).
Proof. exact q_supply_of_spec. Qed.
Print Assumptions C17_supply_of.

(* ---- EnterpriseSupply: (locked, unlocked, total) ---- *)
Theorem C17_ent_supply : forall a,
  app_inv a -> supply_of (a_bank a) (ep_denom (e_params (a_ent a))) < two64 ->
  exists l u t,
    q_ent_supply (a_bank a) (a_ent a) = Ok (l, u, t) /\
    l + u = t /\ 0 <= l /\ 0 <= u /\
    l = snd (total_locked (a_ent a)) /\ t = supply_of (a_bank a) (ep_denom (e_params (a_ent a))).
Proof. exact q_ent_supply_spec. Qed.
Print Assumptions C17_ent_supply.

(* the two queries agree on the circulating amount *)
Theorem C17_queries_agree : forall a l u t,
  app_inv a -> q_ent_supply (a_bank a) (a_ent a) = Ok (l, u, t) ->
  q_supply_of (a_bank a) (a_ent a) (ep_denom (e_params (a_ent a))) = Ok u.
Proof. exact q_supplies_agree. Qed.
Print Assumptions C17_queries_agree.

(* what makes the subtraction safe: total locked is the escrow balance, a part of the supply *)
Theorem C17_locked_le_supply : forall a,
  app_inv a ->
  let d := ep_denom (e_params (a_ent a)) in
  fst (total_locked (a_ent a)) = d /\ 0 <= snd (total_locked (a_ent a)) /\
  snd (total_locked (a_ent a)) <= supply_of (a_bank a) d.
Proof. exact locked_le_supply. Qed.
Print Assumptions C17_locked_le_supply.

(* in every state of every well-formed history *)
Theorem C17_reachable : forall g h n,
  app_inv g -> hist_wf (node_init g) h -> node_run (node_init g) h = Some n ->
  app_inv (n_committed n) /\ app_inv (n_check n) /\
  match n_deliver n with Some a => app_inv a | None => True end.
Proof. exact app_inv_node_run. Qed.
Print Assumptions C17_reachable.

(* ---- observation: above 2^64 - 1 the uint64 conversion of EnterpriseSupply panics (the state
        satisfies the invariant; SupplyOf still answers) ---- *)
Theorem C17_obs_uint64_panic :
  app_inv (ex_g_of two64) /\
  q_ent_supply (a_bank (ex_g_of two64)) (a_ent (ex_g_of two64)) = Panic PANIC_UINT64 /\
  q_supply_of (a_bank (ex_g_of two64)) (a_ent (ex_g_of two64)) NUND = Ok (two64 + 150).
Proof. exact ent_supply_uint64_panic. Qed.
Print Assumptions C17_obs_uint64_panic.

(* ---- examples (scenario: proofs/AppInv.v) ---- *)
Example C17_ex_hypotheses : app_inv ex_g /\ hist_wf (node_init ex_g) ex_hist.
Proof. exact (conj ex_g_inv ex_hist_wf_ok). Qed.

(* committed state after blocks 2, 3 (3000 minted and locked, 1000 of it spent as a fee) and 4:
   (SupplyOf nund, SupplyOf of another denomination, EnterpriseSupply) *)
Example C17_ex_queries :
  map (fun k => option_map (fun n => let a := n_committed n in
                                     (q_supply_of (a_bank a) (a_ent a) NUND, q_supply_of (a_bank a) (a_ent a) 7,
                                      q_ent_supply (a_bank a) (a_ent a)))
                           (node_run (node_init ex_g) (firstn k ex_hist))) [8; 14; 18]%nat
  = [Some (Ok 10150, Ok 0, Ok (0, 10150, 10150));
     Some (Ok 11150, Ok 0, Ok (2000, 11150, 13150));
     Some (Ok 11150, Ok 0, Ok (2000, 11150, 13150))].
Proof. vm_compute. reflexivity. Qed.
