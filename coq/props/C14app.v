(* C14, application level: for every state reachable by a well-formed history, block begin, block
   end and commit complete without panicking - outside the listed class (governance changing the
   enterprise denomination while an accepted purchase order waits), for which a witness is given.
   app_inv, op_wf, hist_wf : proofs/AppInv.v (op_wf of OpEnd = parameter updates by the governance
   account that keep the enterprise denomination). *)
From MC Require Import lib.Prelude lib.AMap model.Bank model.Stream model.StreamSpec model.Registry
  model.Enterprise model.EnterpriseSpec model.App model.AppSpec.
From MC Require Import proofs.AppInv proofs.AppSupplyProofs.
Local Open Scope Z_scope.

(* ---- the invariant every reachable state satisfies ---- *)
Theorem C14_app_inv_reachable : forall g h n,
  app_inv g -> hist_wf (node_init g) h -> node_run (node_init g) h = Some n ->
  app_inv (n_committed n) /\ app_inv (n_check n) /\
  match n_deliver n with Some a => app_inv a | None => True end.
Proof. exact app_inv_node_run. Qed.
Print Assumptions C14_app_inv_reachable.

Theorem C14_app_inv_deliver : forall a t a' r, deliver_tx a t = (a', r) -> tx_wf t -> app_inv a -> app_inv a'.
Proof. exact app_inv_deliver. Qed.
Print Assumptions C14_app_inv_deliver.

Theorem C14_app_inv_check : forall a t a' r, check_tx a t = (a', r) -> tx_wf t -> app_inv a -> app_inv a'.
Proof. exact app_inv_check. Qed.
Print Assumptions C14_app_inv_check.

Theorem C14_app_inv_begin : forall a now a',
  begin_block a now = Some a' ->
  a_now a <= now /\ time_storable now = true /\ 0 <= now /\ unix now < two63 ->
  app_inv a -> app_inv a'.
Proof. exact app_inv_begin. Qed.
Print Assumptions C14_app_inv_begin.

Theorem C14_app_inv_end : forall a props,
  (forall ms m, In ms props -> In m ms ->
     exists u, m = MUpdParams GOV_MACC u /\
               match u with UEnt p => ep_denom p = ep_denom (e_params (a_ent a)) | _ => True end) ->
  app_inv a -> app_inv (end_block a props).
Proof. exact app_inv_end. Qed.
Print Assumptions C14_app_inv_end.

(* ---- the block hooks never panic ---- *)
Theorem C14_blockers_never_panic : forall g h n o,
  app_inv g -> hist_wf (node_init g) h -> node_run (node_init g) h = Some n -> op_wf n o ->
  match o with
  | OpBegin _ => n_deliver n = None
  | OpEnd _ | OpCommit => n_deliver n <> None
  | _ => False
  end ->
  node_step n o <> None.
Proof. exact blockers_never_panic. Qed.
Print Assumptions C14_blockers_never_panic.

(* BeginBlock alone: for any committed state satisfying the invariant *)
Theorem C14_begin_block_total : forall a now,
  app_inv a -> a_now a <= now /\ time_storable now = true /\ 0 <= now /\ unix now < two63 ->
  begin_block a now <> None.
Proof. exact begin_block_total. Qed.
Print Assumptions C14_begin_block_total.

(* a well-formed history whose operations come in block order (Begin, Deliver*, End, Commit; CheckTx
   and crashes anywhere) never halts the node *)
Theorem C14_chain_never_halts : forall h n,
  node_inv n -> hist_wf n h -> phased (match n_deliver n with Some _ => true | None => false end) h ->
  node_run n h <> None.
Proof. exact chain_never_halts. Qed.
Print Assumptions C14_chain_never_halts.

(* ---- the listed class: governance changes ep_denom while an accepted order waits; the next BeginBlock
        panics ("invalid coin denominations") and the chain halts ---- *)
Theorem C14_refuted_denom_change :
  exists n,
    node_run (node_init ex_g) ex_hist_denom = Some n /\
    upd_valid (UEnt ex_ep_other) = true /\
    e_acceptedq (a_ent (n_committed n)) = [1] /\
    ep_denom (e_params (a_ent (n_committed n))) = 1 /\
    begin_wf (n_committed n) (ex_t 15) /\
    ent_begin_block (unix (ex_t 15)) (a_bank (n_committed n)) (a_ent (n_committed n)) = Panic PANIC_DENOM /\
    node_step n (OpBegin (ex_t 15)) = None.
Proof. exact denom_change_halts. Qed.
Print Assumptions C14_refuted_denom_change.

(* ---- examples (scenario: proofs/AppInv.v) ---- *)
Example C14app_ex_hypotheses :
  app_inv ex_g /\ hist_wf (node_init ex_g) ex_hist /\ phased false ex_hist /\
  node_run (node_init ex_g) ex_hist <> None.
Proof.
  refine (conj ex_g_inv (conj ex_hist_wf_ok (conj _ _))).
  - cbn. tauto.
  - vm_compute. discriminate.
Qed.

(* the same history with the denomination changed in block 2 is well-formed except for that proposal *)
Example C14app_ex_denom_history :
  ex_hist_denom =
  [OpBegin (ex_t 5); OpDeliver ex_tx_raise; OpDeliver ex_tx_accept; OpEnd []; OpCommit;
   OpBegin (ex_t 10); OpEnd [[MUpdParams GOV_MACC (UEnt ex_ep_other)]]; OpCommit] /\
  ep_denom ex_ep_other <> ep_denom (e_params (a_ent ex_g)).
Proof. split; [reflexivity | vm_compute; discriminate]. Qed.
