(* C15 on BYTES, x/stream: genesis export and import ON THE BYTE-LEVEL STORE.
   InitGenesis / ExportGenesis of /repo/x/stream/keeper/genesis.go as translated on every run TWICE from the same source -
     (1) GeneratedStreamKeeper.v         K.go_InitGenesis / K.go_ExportGenesis over the hand-written primitives on the
                                          abstract stream state (world [kworld]); C15_generated_str_* prove them to be the
                                          model's export_str / import_str and prove the round trips,
     (2) GeneratedStreamKeeperOnStore.v  S.go_InitGenesis / S.go_ExportGenesis over the BYTE-LEVEL ordered KV store of
                                          model/KVStore.v through the GENERATED store accessors (GeneratedStreamStore.v,
                                          incl. the listing go_st_IterateAllStreams: prefix iteration, the address pair of
                                          every entry parsed from its key by the generated AddressesFromStreamKey) and the
                                          adapters of model/StreamStoreWorld.v (world [sworld]).
   Here: (2) against (1), and the round trip on bytes.

   Given (explicit in every statement, as in props/C10onstore.v):
       dom : Z -> Prop   the abstract addresses in use        emb : Z -> list N   their address bytes
       on dom: 1 <= length (emb a) <= 255, and emb injective;
       unemb : list N -> Z   with  unemb (emb a) = a on dom.   ExportGenesis spells the address BYTES parsed from a store
                         key as the strings of the document (receiverAddr.String()); unemb is that conversion.  It is a
                         Section variable of the generated file: the first argument of S.go_ExportGenesis, of no other
                         function.
   Rw dom emb w ws: C10_onstore_relation.  sim: C10_onstore_sim.  Rstr: C18_store_stream_refines_relation.
   ksort: C18_store_stream_refines_ksort (insertion sort of (receiver bytes, sender bytes, stream) by store key).
   Hypotheses, and why:
     key_ordered emb st  the abstract map lists its streams in ascending order of their store keys
                         (C15_onstore_str_key_ordered_spelled).  The byte store lists in key order, the primitive
                         str_AllStreams lists the association list as it stands (insertion order).  NOT an invariant:
                         stream keys are address pairs, not counters - so the general statement is the PERMUTATION one
                         (C15_onstore_str_export_permutation); the hypothesis is needed for equality
                         (C15_onstore_str_export_order_refuted) and holds after one round trip
                         (C15_onstore_str_reimported_same_document).
     doc_dom dom d       the addresses of the document are in dom (C15_onstore_str_doc_dom_spelled): outside it the
                         store-level key builder can panic where the first rendering imports
                         (C15_onstore_str_import_dom_refuted).  In BOTH renderings bech32 decoding is the identity on
                         abstract addresses (model/StreamKeeperPrims.v), so InitGenesis' two `panic(err)` on a malformed
                         address are not reachable in either; the panics compared are the balance mismatch
                         (stream_PANIC), MustMarshal of an unencodable time and Coin.IsEqual on different denominations.
     for the byte-identical round trip only:
     module_keys s       the store holds nothing but the Params cell and stream keys (true of every store InitGenesis
                         builds from the empty one: C15_onstore_str_module_keys_import; Rstr does not forbid other keys),
     Params cell present and str_params_valid fee: the EMPTY store represents fee 0 and re-imports WITH a cell; a cell
                         that does not validate is exported as it stands and dropped by the import (SetParams' error is
                         ignored by InitGenesis).  Each is needed: C15_onstore_str_roundtrip_bytes_*_refuted.
   Not needed: valid parameters for the simulation or for the import into the empty store (a store without a Params
   cell represents fee 0 - unlike x/wrkchain and x/beacon); any hypothesis for export-then-import to represent the same
   streams.
   Proofs: proofs/GeneratedStreamGenesisOnStoreEq.v. *)
From MC Require Import lib.Prelude lib.AMap lib.GoSdk GeneratedFns GeneratedStreamTypes model.Bank model.Stream
  model.StreamSpec model.Genesis model.Keys model.KeyPrims model.KVStore model.StoreCodecPrims model.StreamKeeperPrims
  model.StreamStoreWorld model.StreamGenSpec model.StreamGenesisGenSpec GeneratedKeys GeneratedStreamStore.
From MC Require GeneratedStreamKeeper GeneratedStreamKeeperOnStore.
From MC Require Import proofs.BankProofs proofs.KVStoreFacts proofs.GeneratedStreamStoreEq proofs.GeneratedStreamStoreRefines
  proofs.GeneratedStreamOnStoreEq proofs.GeneratedStreamGenesisEq proofs.GeneratedStreamExportEq
  proofs.GeneratedStreamGenesisOnStoreEq.
From Coq Require Import NArith ZArith List Bool Permutation.
Import ListNotations.
Local Open Scope Z_scope.

(* K = MC.GeneratedStreamKeeper, S = MC.GeneratedStreamKeeperOnStore (named in proofs/GeneratedStreamOnStoreEq.v) *)

(* ------------------------------------------------------------------ *)
(* the side conditions, in full                                         *)
(* ------------------------------------------------------------------ *)

Theorem C15_onstore_str_key_ordered_spelled : forall (emb : Z -> list N) (st : str_state),
  key_ordered emb st <->
  ForallOrdPairs (fun a b : (addr * addr) * stream =>
                    lex_lt (str_encode (SkStream (emb (fst (fst a))) (emb (snd (fst a)))))
                           (str_encode (SkStream (emb (fst (fst b))) (emb (snd (fst b))))) = true) (s_streams st).
Proof. exact key_ordered_spelled. Qed.
Print Assumptions C15_onstore_str_key_ordered_spelled.

Theorem C15_onstore_str_doc_dom_spelled : forall (dom : Z -> Prop) (d : go_GenesisState),
  doc_dom dom d <-> Forall (fun e => dom (StreamExport_Receiver e) /\ dom (StreamExport_Sender e)) (GenesisState_Streams d).
Proof. exact doc_dom_spelled. Qed.
Print Assumptions C15_onstore_str_doc_dom_spelled.

Theorem C15_onstore_str_module_keys_spelled : forall s : okv stream_val,
  module_keys s <-> forall k v, In (k, v) s -> k = stream_ParamsKey \/ is_prefix stream_StreamKeyPrefix k = true.
Proof. exact module_keys_spelled. Qed.
Print Assumptions C15_onstore_str_module_keys_spelled.

(* a listed (receiver bytes, sender bytes, stream) as an entry of the document; the empty world; the store InitGenesis
   builds: SetParams when the fee validates (its error is dropped), then one SetStream per entry in document order *)
Theorem C15_onstore_str_vocabulary_spelled :
  (forall (unemb : list N -> Z) r sn x, unexport unemb (r, sn, x) = mk_go_StreamExport (unemb r) (unemb sn) x) /\
  (forall (emb : Z -> list N) now b, empty_sworld emb now b = mk_sworld emb now b []) /\
  (forall (em : Z -> list N) p l (s : okv stream_val), s_import em (mk_go_GenesisState p l) s =
     fold_left (fun s e => okv_set s (str_encode (SkStream (em (StreamExport_Receiver e)) (em (StreamExport_Sender e))))
                                   (SV_Stream (StreamExport_Stream e))) l
               (if str_params_valid (Params_ValidatorFee p) then okv_set s stream_ParamsKey (SV_Params p) else s)).
Proof. exact vocabulary_spelled. Qed.
Print Assumptions C15_onstore_str_vocabulary_spelled.

(* ------------------------------------------------------------------ *)
(* 1. the listing adapter of the export                                 *)
(* ------------------------------------------------------------------ *)

(* os_str_AllStreams (go_st_IterateAllStreams with an appending callback) on a byte store representing [w]: the abstract
   listing, its addresses embedded, sorted by store key, read back through unemb *)
Theorem C15_onstore_str_adapter_AllStreams_listing :
  forall (dom : Z -> Prop) (emb : Z -> list N),
  (forall a, dom a -> (1 <= length (emb a) <= 255)%nat) ->
  (forall a b, dom a -> dom b -> emb a = emb b -> a = b) ->
  forall (unemb : list N -> Z) (w : kworld) (ws : sworld),
  Rw dom emb w ws ->
  os_str_AllStreams unemb ws =
    Ok (map (unexport unemb)
            (ksort (map (fun e => (emb (StreamExport_Receiver e), emb (StreamExport_Sender e), StreamExport_Stream e))
                        (str_AllStreams w)))).
Proof. exact os_AllStreams_sorted. Qed.
Print Assumptions C15_onstore_str_adapter_AllStreams_listing.

Theorem C15_onstore_str_adapter_AllStreams_perm :
  forall (dom : Z -> Prop) (emb : Z -> list N),
  (forall a, dom a -> (1 <= length (emb a) <= 255)%nat) ->
  (forall a b, dom a -> dom b -> emb a = emb b -> a = b) ->
  forall unemb : list N -> Z, (forall a, dom a -> unemb (emb a) = a) ->
  forall (w : kworld) (ws : sworld),
  Rw dom emb w ws ->
  exists L, os_str_AllStreams unemb ws = Ok L /\ Permutation L (str_AllStreams w).
Proof. exact os_AllStreams_perm. Qed.
Print Assumptions C15_onstore_str_adapter_AllStreams_perm.

Theorem C15_onstore_str_adapter_AllStreams :
  forall (dom : Z -> Prop) (emb : Z -> list N),
  (forall a, dom a -> (1 <= length (emb a) <= 255)%nat) ->
  (forall a b, dom a -> dom b -> emb a = emb b -> a = b) ->
  forall unemb : list N -> Z, (forall a, dom a -> unemb (emb a) = a) ->
  forall (w : kworld) (ws : sworld),
  Rw dom emb w ws -> key_ordered emb (kw_str w) ->
  os_str_AllStreams unemb ws = Ok (str_AllStreams w).
Proof. exact os_AllStreams_eq. Qed.
Print Assumptions C15_onstore_str_adapter_AllStreams.

(* ------------------------------------------------------------------ *)
(* 2. ExportGenesis                                                     *)
(* ------------------------------------------------------------------ *)

(* the document written from the bytes, on every related pair of worlds: no ordering hypothesis, never an error *)
Theorem C15_onstore_str_export_document :
  forall (dom : Z -> Prop) (emb : Z -> list N),
  (forall a, dom a -> (1 <= length (emb a) <= 255)%nat) ->
  (forall a b, dom a -> dom b -> emb a = emb b -> a = b) ->
  forall (unemb : list N -> Z) (w : kworld) (ws : sworld),
  Rw dom emb w ws ->
  S.go_ExportGenesis unemb ws =
    Ok (mk_go_GenesisState (mk_go_Params (s_valfee (kw_str w)))
          (map (unexport unemb)
               (ksort (map (fun e => (emb (StreamExport_Receiver e), emb (StreamExport_Sender e), StreamExport_Stream e))
                           (str_AllStreams w))))).
Proof. exact os_ExportGenesis_run. Qed.
Print Assumptions C15_onstore_str_export_document.

(* the same document as the first rendering when the abstract map is in key order *)
Theorem C15_onstore_str_export_same_document :
  forall (dom : Z -> Prop) (emb : Z -> list N),
  (forall a, dom a -> (1 <= length (emb a) <= 255)%nat) ->
  (forall a b, dom a -> dom b -> emb a = emb b -> a = b) ->
  forall unemb : list N -> Z, (forall a, dom a -> unemb (emb a) = a) ->
  forall (w : kworld) (ws : sworld),
  Rw dom emb w ws -> key_ordered emb (kw_str w) ->
  S.go_ExportGenesis unemb ws = K.go_ExportGenesis w.
Proof. exact os_ExportGenesis_eq. Qed.
Print Assumptions C15_onstore_str_export_same_document.

(* in general: the same parameters, the same stream entries in another order *)
Theorem C15_onstore_str_export_permutation :
  forall (dom : Z -> Prop) (emb : Z -> list N),
  (forall a, dom a -> (1 <= length (emb a) <= 255)%nat) ->
  (forall a b, dom a -> dom b -> emb a = emb b -> a = b) ->
  forall unemb : list N -> Z, (forall a, dom a -> unemb (emb a) = a) ->
  forall (w : kworld) (ws : sworld),
  Rw dom emb w ws ->
  exists d d', S.go_ExportGenesis unemb ws = Ok d /\ K.go_ExportGenesis w = Ok d' /\
    GenesisState_Params d = GenesisState_Params d' /\
    Permutation (GenesisState_Streams d) (GenesisState_Streams d').
Proof. exact os_ExportGenesis_perm. Qed.
Print Assumptions C15_onstore_str_export_permutation.

(* the ordering hypothesis cannot be dropped: related worlds (built by the two InitGenesis from one document over
   addresses of 1, 20 and 32 bytes) whose two exports differ *)
Theorem C15_onstore_str_export_order_refuted :
  exists (w : kworld) (ws : sworld),
    Rw exg_dom exg_emb w ws /\ S.go_ExportGenesis exg_unemb ws <> K.go_ExportGenesis w.
Proof. exact os_ExportGenesis_order_refuted. Qed.
Print Assumptions C15_onstore_str_export_order_refuted.

(* ------------------------------------------------------------------ *)
(* 3. InitGenesis simulates                                             *)
(* ------------------------------------------------------------------ *)

Theorem C15_onstore_str_import_simulates :
  forall (dom : Z -> Prop) (emb : Z -> list N),
  (forall a, dom a -> (1 <= length (emb a) <= 255)%nat) ->
  (forall a b, dom a -> dom b -> emb a = emb b -> a = b) ->
  forall (w : kworld) (ws : sworld) (d : go_GenesisState),
  Rw dom emb w ws -> doc_dom dom d ->
  sim dom emb (K.go_InitGenesis w d) (S.go_InitGenesis ws d).
Proof. exact os_InitGenesis_sim. Qed.
Print Assumptions C15_onstore_str_import_simulates.

(* read off: Ok with Ok and related worlds (both directions), Panic with Panic and the same code *)
Theorem C15_onstore_str_import_outcomes :
  forall (dom : Z -> Prop) (emb : Z -> list N),
  (forall a, dom a -> (1 <= length (emb a) <= 255)%nat) ->
  (forall a b, dom a -> dom b -> emb a = emb b -> a = b) ->
  forall (w : kworld) (ws : sworld) (d : go_GenesisState),
  Rw dom emb w ws -> doc_dom dom d ->
  (forall ws', S.go_InitGenesis ws d = Ok (ws', tt) -> exists w', K.go_InitGenesis w d = Ok (w', tt) /\ Rw dom emb w' ws') /\
  (forall w', K.go_InitGenesis w d = Ok (w', tt) -> exists ws', S.go_InitGenesis ws d = Ok (ws', tt) /\ Rw dom emb w' ws') /\
  (forall c, S.go_InitGenesis ws d = Panic c <-> K.go_InitGenesis w d = Panic c).
Proof. exact os_InitGenesis_outcomes. Qed.
Print Assumptions C15_onstore_str_import_outcomes.

(* a document address outside dom: the first rendering imports, the store-level key builder panics *)
Theorem C15_onstore_str_import_dom_refuted :
  let emb := fun a : Z => if a =? 5 then repeat 1%N 256 else [Z.to_N a] in
  let b := {| bal := [((STREAM_MACC, 0), 5)]; supply := [(0, 5)] |} in
  let d := mk_go_GenesisState exs_params [exs_entry 5 1 0 5] in
  (exists w', K.go_InitGenesis (fresh_kworld 0 b 0) d = Ok (w', tt)) /\
  S.go_InitGenesis (mk_sworld emb 0 b []) d = Panic GO_PANIC_LENPREFIX.
Proof. exact os_InitGenesis_dom_refuted. Qed.
Print Assumptions C15_onstore_str_import_dom_refuted.

(* ------------------------------------------------------------------ *)
(* 4. what InitGenesis leaves in the store; the empty store             *)
(* ------------------------------------------------------------------ *)

(* on EVERY store, for EVERY document: whenever it returns, clock, bank and embedding are untouched and the store is
   s_import of the document *)
Theorem C15_onstore_str_import_store :
  forall (ws : sworld) (d : go_GenesisState) (ws' : sworld) (u : unit),
  S.go_InitGenesis ws d = Ok (ws', u) ->
  ws' = mk_sworld (sw_emb ws) (sw_now ws) (sw_bank ws) (s_import (sw_emb ws) d (sw_store ws)).
Proof. exact os_InitGenesis_store. Qed.
Print Assumptions C15_onstore_str_import_store.

Theorem C15_onstore_str_import_empty_simulates :
  forall (dom : Z -> Prop) (emb : Z -> list N),
  (forall a, dom a -> (1 <= length (emb a) <= 255)%nat) ->
  (forall a b, dom a -> dom b -> emb a = emb b -> a = b) ->
  forall (now : Z) (b : bank) (d : go_GenesisState),
  doc_dom dom d ->
  sim dom emb (K.go_InitGenesis (fresh_kworld now b 0) d) (S.go_InitGenesis (empty_sworld emb now b) d).
Proof. exact os_InitGenesis_empty. Qed.
Print Assumptions C15_onstore_str_import_empty_simulates.

(* whenever it returns, the store it built represents the state the first rendering built (valid fee or not) *)
Theorem C15_onstore_str_import_empty :
  forall (dom : Z -> Prop) (emb : Z -> list N),
  (forall a, dom a -> (1 <= length (emb a) <= 255)%nat) ->
  (forall a b, dom a -> dom b -> emb a = emb b -> a = b) ->
  forall (now : Z) (b : bank) (d : go_GenesisState) (ws' : sworld),
  doc_dom dom d ->
  S.go_InitGenesis (empty_sworld emb now b) d = Ok (ws', tt) ->
  exists w', K.go_InitGenesis (fresh_kworld now b 0) d = Ok (w', tt) /\ Rw dom emb w' ws' /\
             ws' = mk_sworld emb now b (s_import emb d []).
Proof. exact os_InitGenesis_empty_Ok. Qed.
Print Assumptions C15_onstore_str_import_empty.

(* ... which is the MODEL's import of the document (hypotheses of C15_generated_str_import_ok) *)
Theorem C15_onstore_str_import_empty_is_model :
  forall (dom : Z -> Prop) (emb : Z -> list N),
  (forall a, dom a -> (1 <= length (emb a) <= 255)%nat) ->
  (forall a b, dom a -> dom b -> emb a = emb b -> a = b) ->
  forall (now : Z) (b : bank) (d : go_GenesisState) (ws' : sworld),
  doc_dom dom d ->
  str_params_valid (Params_ValidatorFee (GenesisState_Params d)) = true ->
  bank_wf b -> macc_nonneg b -> NoDup (str_doc_keys d) ->
  S.go_InitGenesis (empty_sworld emb now b) d = Ok (ws', tt) ->
  exists st, import_str b (gen_str_of_go d) = Some st /\ Rstr dom emb (sw_store ws') st /\ sw_bank ws' = b.
Proof. exact os_InitGenesis_empty_model. Qed.
Print Assumptions C15_onstore_str_import_empty_is_model.

(* the two store-side conditions of the byte-identical round trip hold of what InitGenesis builds *)
Theorem C15_onstore_str_module_keys_import :
  module_keys [] /\
  (forall (em : Z -> list N) (d : go_GenesisState) (s : okv stream_val), module_keys s -> module_keys (s_import em d s)) /\
  (forall (em : Z -> list N) (d : go_GenesisState) (s : okv stream_val),
     str_params_valid (Params_ValidatorFee (GenesisState_Params d)) = true ->
     okv_get (s_import em d s) stream_ParamsKey = Some (SV_Params (GenesisState_Params d))).
Proof. exact import_side_conditions. Qed.
Print Assumptions C15_onstore_str_module_keys_import.

(* ------------------------------------------------------------------ *)
(* 5. round trip on bytes                                               *)
(* ------------------------------------------------------------------ *)

(* the exported document names addresses in use *)
Theorem C15_onstore_str_export_doc_dom :
  forall (dom : Z -> Prop) (emb : Z -> list N),
  (forall a, dom a -> (1 <= length (emb a) <= 255)%nat) ->
  (forall a b, dom a -> dom b -> emb a = emb b -> a = b) ->
  forall unemb : list N -> Z, (forall a, dom a -> unemb (emb a) = a) ->
  forall (w : kworld) (ws : sworld) (d : go_GenesisState),
  Rw dom emb w ws -> S.go_ExportGenesis unemb ws = Ok d -> doc_dom dom d.
Proof. exact export_doc_dom. Qed.
Print Assumptions C15_onstore_str_export_doc_dom.

(* importing the exported document into the empty store writes back, entry by entry, what the store lists under
   StreamKeyPrefix, onto the Params cell (written only when the fee validates) *)
Theorem C15_onstore_str_roundtrip_store :
  forall (dom : Z -> Prop) (emb : Z -> list N),
  (forall a, dom a -> (1 <= length (emb a) <= 255)%nat) ->
  (forall a b, dom a -> dom b -> emb a = emb b -> a = b) ->
  forall unemb : list N -> Z, (forall a, dom a -> unemb (emb a) = a) ->
  forall (w : kworld) (ws : sworld) (d : go_GenesisState),
  Rw dom emb w ws -> S.go_ExportGenesis unemb ws = Ok d ->
  s_import emb d [] =
    fold_left (fun s kv => okv_set s (fst kv) (snd kv)) (okv_prefix (sw_store ws) stream_StreamKeyPrefix)
      (if str_params_valid (s_valfee (kw_str w))
       then okv_set [] stream_ParamsKey (SV_Params (mk_go_Params (s_valfee (kw_str w)))) else []).
Proof. exact export_import_store. Qed.
Print Assumptions C15_onstore_str_roundtrip_store.

(* EXPORT, then IMPORT INTO THE EMPTY STORE (any clock; any bank for which the import goes through): the new store
   represents a state with the same stream under every (receiver, sender) pair and the same fee if that validates *)
Theorem C15_onstore_str_roundtrip :
  forall (dom : Z -> Prop) (emb : Z -> list N),
  (forall a, dom a -> (1 <= length (emb a) <= 255)%nat) ->
  (forall a b, dom a -> dom b -> emb a = emb b -> a = b) ->
  forall unemb : list N -> Z, (forall a, dom a -> unemb (emb a) = a) ->
  forall (w : kworld) (ws : sworld) (d : go_GenesisState) (now' : Z) (b' : bank) (ws' : sworld),
  Rw dom emb w ws ->
  S.go_ExportGenesis unemb ws = Ok d ->
  S.go_InitGenesis (empty_sworld emb now' b') d = Ok (ws', tt) ->
  exists w', K.go_InitGenesis (fresh_kworld now' b' 0) d = Ok (w', tt) /\ Rw dom emb w' ws' /\
    (forall k, aget k (s_streams (kw_str w')) = aget k (s_streams (kw_str w))) /\
    s_valfee (kw_str w') = (if str_params_valid (s_valfee (kw_str w)) then s_valfee (kw_str w) else 0).
Proof. exact os_export_import_roundtrip. Qed.
Print Assumptions C15_onstore_str_roundtrip.

(* ... and THE VERY SAME BYTES when the store holds only the module's keys, its Params cell is written and validates *)
Theorem C15_onstore_str_roundtrip_bytes :
  forall (dom : Z -> Prop) (emb : Z -> list N),
  (forall a, dom a -> (1 <= length (emb a) <= 255)%nat) ->
  (forall a b, dom a -> dom b -> emb a = emb b -> a = b) ->
  forall unemb : list N -> Z, (forall a, dom a -> unemb (emb a) = a) ->
  forall (w : kworld) (ws : sworld) (d : go_GenesisState) (now' : Z) (b' : bank) (ws' : sworld),
  Rw dom emb w ws ->
  module_keys (sw_store ws) ->
  okv_get (sw_store ws) stream_ParamsKey <> None ->
  str_params_valid (s_valfee (kw_str w)) = true ->
  S.go_ExportGenesis unemb ws = Ok d ->
  S.go_InitGenesis (empty_sworld emb now' b') d = Ok (ws', tt) ->
  sw_store ws' = sw_store ws.
Proof. exact os_roundtrip_bytes. Qed.
Print Assumptions C15_onstore_str_roundtrip_bytes.

(* each of the three is needed *)
Theorem C15_onstore_str_roundtrip_bytes_no_params_refuted :
  let w := fresh_kworld 0 exs_empty_bank 0 in
  let ws := empty_sworld exg_emb 0 exs_empty_bank in
  Rw exg_dom exg_emb w ws /\ module_keys (sw_store ws) /\ str_params_valid (s_valfee (kw_str w)) = true /\
  exists d ws', S.go_ExportGenesis exg_unemb ws = Ok d /\ S.go_InitGenesis (empty_sworld exg_emb 0 exs_empty_bank) d = Ok (ws', tt) /\
                sw_store ws' = [(stream_ParamsKey, SV_Params (mk_go_Params 0))] /\ sw_store ws' <> sw_store ws.
Proof. exact os_roundtrip_bytes_no_params_refuted. Qed.
Print Assumptions C15_onstore_str_roundtrip_bytes_no_params_refuted.

Theorem C15_onstore_str_roundtrip_bytes_foreign_key_refuted :
  let s := [(stream_ParamsKey, SV_Params (mk_go_Params 0)); ([99%N], SV_bytes [7%N])] in
  let w := fresh_kworld 0 exs_empty_bank 0 in
  let ws := mk_sworld exg_emb 0 exs_empty_bank s in
  Rw exg_dom exg_emb w ws /\ okv_get s stream_ParamsKey <> None /\ str_params_valid (s_valfee (kw_str w)) = true /\
  ~ module_keys s /\
  exists d ws', S.go_ExportGenesis exg_unemb ws = Ok d /\ S.go_InitGenesis (empty_sworld exg_emb 0 exs_empty_bank) d = Ok (ws', tt) /\
                sw_store ws' = [(stream_ParamsKey, SV_Params (mk_go_Params 0))] /\ sw_store ws' <> sw_store ws.
Proof. exact os_roundtrip_bytes_foreign_key_refuted. Qed.
Print Assumptions C15_onstore_str_roundtrip_bytes_foreign_key_refuted.

Theorem C15_onstore_str_roundtrip_bytes_invalid_fee_refuted :
  let s := [(stream_ParamsKey, SV_Params (mk_go_Params (-1)))] in
  let w := fresh_kworld 0 exs_empty_bank (-1) in
  let ws := mk_sworld exg_emb 0 exs_empty_bank s in
  Rw exg_dom exg_emb w ws /\ module_keys s /\ okv_get s stream_ParamsKey <> None /\
  str_params_valid (s_valfee (kw_str w)) = false /\
  exists d ws', S.go_ExportGenesis exg_unemb ws = Ok d /\ S.go_InitGenesis (empty_sworld exg_emb 0 exs_empty_bank) d = Ok (ws', tt) /\
                sw_store ws' = [] /\ S.go_ExportGenesis exg_unemb ws' <> Ok d.
Proof. exact os_roundtrip_bytes_invalid_fee_refuted. Qed.
Print Assumptions C15_onstore_str_roundtrip_bytes_invalid_fee_refuted.

(* EXPORT -> IMPORT -> EXPORT: the same document; no hypothesis on order or foreign keys *)
Theorem C15_onstore_str_export_import_export :
  forall (dom : Z -> Prop) (emb : Z -> list N),
  (forall a, dom a -> (1 <= length (emb a) <= 255)%nat) ->
  (forall a b, dom a -> dom b -> emb a = emb b -> a = b) ->
  forall unemb : list N -> Z, (forall a, dom a -> unemb (emb a) = a) ->
  forall (w : kworld) (ws : sworld) (d : go_GenesisState) (now' : Z) (b' : bank) (ws' : sworld),
  Rw dom emb w ws ->
  str_params_valid (s_valfee (kw_str w)) = true ->
  S.go_ExportGenesis unemb ws = Ok d ->
  S.go_InitGenesis (empty_sworld emb now' b') d = Ok (ws', tt) ->
  S.go_ExportGenesis unemb ws' = Ok d.
Proof. exact os_export_import_export. Qed.
Print Assumptions C15_onstore_str_export_import_export.

(* after one round trip the abstract state is in key order, and BOTH renderings export the document that was imported *)
Theorem C15_onstore_str_reimported_same_document :
  forall (dom : Z -> Prop) (emb : Z -> list N),
  (forall a, dom a -> (1 <= length (emb a) <= 255)%nat) ->
  (forall a b, dom a -> dom b -> emb a = emb b -> a = b) ->
  forall unemb : list N -> Z, (forall a, dom a -> unemb (emb a) = a) ->
  forall (w : kworld) (ws : sworld) (d : go_GenesisState) (now' : Z) (b' : bank) (ws' : sworld),
  Rw dom emb w ws ->
  str_params_valid (s_valfee (kw_str w)) = true ->
  S.go_ExportGenesis unemb ws = Ok d ->
  S.go_InitGenesis (empty_sworld emb now' b') d = Ok (ws', tt) ->
  exists w', K.go_InitGenesis (fresh_kworld now' b' 0) d = Ok (w', tt) /\ Rw dom emb w' ws' /\
             key_ordered emb (kw_str w') /\
             K.go_ExportGenesis w' = Ok d /\ S.go_ExportGenesis unemb ws' = Ok d.
Proof. exact os_reimported_same_document. Qed.
Print Assumptions C15_onstore_str_reimported_same_document.

(* ------------------------------------------------------------------ *)
(* 6. a concrete store                                                  *)
(* ------------------------------------------------------------------ *)

(* addresses of 1, 20 and 32 bytes; the embedding meets the three hypotheses *)
Theorem C15_onstore_str_example_setup :
  (forall a, exg_dom a <-> 0 <= a < 256) /\
  (forall a, exg_emb a = if a <? 12 then [Z.to_N a] else if a <? 13 then repeat 0%N 19 ++ [Z.to_N a] else repeat 0%N 31 ++ [Z.to_N a]) /\
  (forall b, exg_unemb b = Z.of_N (last b 0%N)) /\
  (forall a, exg_dom a -> (1 <= length (exg_emb a) <= 255)%nat) /\
  (forall a b, exg_dom a -> exg_dom b -> exg_emb a = exg_emb b -> a = b) /\
  (forall a, exg_dom a -> exg_unemb (exg_emb a) = a) /\
  exs_doc = mk_go_GenesisState exs_params [exs_entry 10 11 0 500; exs_entry 12 11 1 70; exs_entry 10 13 0 30] /\
  exg_doc1 = mk_go_GenesisState exs_params [exs_entry 10 11 0 500; exs_entry 10 13 0 30; exs_entry 12 11 1 70] /\
  doc_dom exg_dom exs_doc /\
  (forall now, exg_ws0 now = mk_sworld exg_emb now (exs_bank 530 70) []).
Proof. exact exg_setup. Qed.
Print Assumptions C15_onstore_str_example_setup.

(* import into the empty byte store, export (key order, not document order), import again: the same bytes; and a module
   balance that does not match panics alike in both renderings *)
Theorem C15_onstore_str_example :
  S.go_InitGenesis (exg_ws0 99) exs_doc = Ok (exg_ws1, tt) /\
  map (fun kv => length (fst kv)) (sw_store exg_ws1) = [1; 5; 36; 24]%nat /\
  os_str_GetStream exg_ws1 12 11 = Ok (exs_stream 1 70, true) /\
  S.go_ExportGenesis exg_unemb exg_ws1 = Ok exg_doc1 /\
  K.go_InitGenesis (fresh_kworld 99 (exs_bank 530 70) 0) exs_doc =
    Ok (with_str (fresh_kworld 99 (exs_bank 530 70) 0)
          {| s_valfee := 10000000000000000; s_streams := str_doc_kvs (GenesisState_Streams exs_doc) |}, tt) /\
  (exists ws2, S.go_InitGenesis (exg_ws0 7) exg_doc1 = Ok (ws2, tt) /\ sw_store ws2 = sw_store exg_ws1 /\
               S.go_ExportGenesis exg_unemb ws2 = Ok exg_doc1) /\
  S.go_InitGenesis (empty_sworld exg_emb 99 (exs_bank 529 70)) exs_doc = Panic stream_PANIC /\
  K.go_InitGenesis (fresh_kworld 99 (exs_bank 529 70) 0) exs_doc = Panic stream_PANIC.
Proof. exact os_genesis_ex. Qed.
Print Assumptions C15_onstore_str_example.

(* the same through the theorems: every hypothesis above is met by this store *)
Theorem C15_onstore_str_example_by_theorem :
  exists w1, K.go_InitGenesis (fresh_kworld 99 (exs_bank 530 70) 0) exs_doc = Ok (w1, tt) /\
    Rw exg_dom exg_emb w1 exg_ws1 /\
    module_keys (sw_store exg_ws1) /\ okv_get (sw_store exg_ws1) stream_ParamsKey <> None /\
    str_params_valid (s_valfee (kw_str w1)) = true /\
    (forall now' b' ws2, S.go_InitGenesis (empty_sworld exg_emb now' b') exg_doc1 = Ok (ws2, tt) ->
       sw_store ws2 = sw_store exg_ws1 /\ S.go_ExportGenesis exg_unemb ws2 = Ok exg_doc1) /\
    ~ key_ordered exg_emb (kw_str w1) /\
    K.go_ExportGenesis w1 = Ok exs_doc /\ S.go_ExportGenesis exg_unemb exg_ws1 = Ok exg_doc1 /\ exs_doc <> exg_doc1.
Proof. exact os_genesis_ex_by_theorem. Qed.
Print Assumptions C15_onstore_str_example_by_theorem.
