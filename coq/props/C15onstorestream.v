(* C15 on BYTES, x/stream: genesis export and import ON THE BYTE-LEVEL STORE.
   InitGenesis / ExportGenesis of /repo/x/stream/keeper/genesis.go as translated on every run TWICE from the same source -
     (1) GeneratedStreamKeeper.v         K.go_InitGenesis / K.go_ExportGenesis over the hand-written primitives on the
                                          abstract stream state (world [kworld]); C15_generated_str_* prove them to be the
                                          model's export_str / import_str and prove the round trips,
     (2) GeneratedStreamKeeperOnStore.v  S.go_InitGenesis / S.go_ExportGenesis over the BYTE-LEVEL ordered KV store of
                                          model/KVStore.v through the GENERATED store accessors (GeneratedStreamStore.v,
                                          incl. the listing go_st_IterateAllStreams: prefix iteration, the address pair of
                                          every entry parsed from its key by the generated AddressesFromStreamKey) and the
                                          adapters of model/StreamStoreWorld.v (world [sworld]).
   Here: (2) against (1), and the round trip on bytes.

   Given (explicit in every statement, as in props/C10onstore.v):
       dom : Z -> Prop   the abstract addresses in use        emb : Z -> list N   their address bytes
       on dom: 1 <= length (emb a) <= 255, and emb injective;
       unemb : list N -> Z   with  unemb (emb a) = a on dom.   ExportGenesis spells the address BYTES parsed from a store
                         key as the strings of the document (receiverAddr.String()); unemb is that conversion.  It is a
                         Section variable of the generated file: the first argument of S.go_ExportGenesis, of no other
                         function.
   Rw dom emb w ws: C10_onstore_relation.  sim: C10_onstore_sim.  Rstr: C18_store_stream_refines_relation.
   ksort: C18_store_stream_refines_ksort (insertion sort of (receiver bytes, sender bytes, stream) by store key).
   Hypotheses, and why:
     key_ordered emb st  the abstract map lists its streams in ascending order of their store keys
                         (C15_onstore_str_key_ordered_spelled).  The byte store lists in key order, the primitive
                         str_AllStreams lists the association list as it stands (insertion order).  NOT an invariant:
                         stream keys are address pairs, not counters - so the general statement is the PERMUTATION one
                         (C15_onstore_str_export_permutation); the hypothesis is needed for equality
                         (C15_onstore_str_export_order_refuted) and holds after one round trip
                         (C15_onstore_str_reimported_same_document).
     doc_dom dom d       the addresses of the document are in dom (C15_onstore_str_doc_dom_spelled): outside it the
                         store-level key builder can panic where the first rendering imports
                         (C15_onstore_str_import_dom_refuted).  In BOTH renderings bech32 decoding is the identity on
                         abstract addresses (model/StreamKeeperPrims.v), so InitGenesis' two `panic(err)` on a malformed
                         address are not reachable in either; the panics compared are the balance mismatch
                         (stream_PANIC), MustMarshal of an unencodable time and Coin.IsEqual on different denominations.
     for the byte-identical round trip only:
     module_keys s       the store holds nothing but the Params cell and stream keys (true of every store InitGenesis
                         builds from the empty one: C15_onstore_str_module_keys_import; Rstr does not forbid other keys),
     Params cell present and str_params_valid fee: the EMPTY store represents fee 0 and re-imports WITH a cell; a cell
                         that does not validate is exported as it stands and dropped by the import (SetParams' error is
                         ignored by InitGenesis).  Each is needed: C15_onstore_str_roundtrip_bytes_*_refuted.
   Not needed: valid parameters for the simulation or for the import into the empty store (a store without a Params
   cell represents fee 0 - unlike x/wrkchain and x/beacon); any hypothesis for export-then-import to represent the same
   streams.
   Proofs: proofs/GeneratedStreamGenesisOnStoreEq.v. *)
From MC Require Import lib.Prelude lib.AMap lib.GoSdk GeneratedFns GeneratedStreamTypes model.Bank model.Stream
  model.StreamSpec model.Genesis model.Keys model.KeyPrims model.KVStore model.StoreCodecPrims model.StreamKeeperPrims
  model.StreamStoreWorld model.StreamGenSpec model.StreamGenesisGenSpec GeneratedKeys GeneratedStreamStore.
From MC Require GeneratedStreamKeeper GeneratedStreamKeeperOnStore.
From MC Require Import proofs.BankProofs proofs.KVStoreFacts proofs.GeneratedStreamStoreEq proofs.GeneratedStreamStoreRefines
  proofs.GeneratedStreamOnStoreEq proofs.GeneratedStreamGenesisEq proofs.GeneratedStreamExportEq
  proofs.GeneratedStreamGenesisOnStoreEq.
From Coq Require Import NArith ZArith List Bool Permutation.
Import ListNotations.
Local Open Scope Z_scope.

(* K = MC.GeneratedStreamKeeper, S = MC.GeneratedStreamKeeperOnStore (named in proofs/GeneratedStreamOnStoreEq.v) *)

(* ------------------------------------------------------------------ *)
(* the side conditions, in full                                         *)
(* ------------------------------------------------------------------ *)

Theorem C15_onstore_str_key_ordered_spelled : forall (emb : Z -> list N) (st : str_state),
  key_ordered emb st <->
  ForallOrdPairs (fun a b : (addr * addr) * stream =>
                    lex_lt (str_encode (SkStream (emb (fst (fst a))) (emb (snd (fst a)))))
                           (str_encode (SkStream (emb (fst (fst b))) (emb (snd (fst b))))) = true) (s_streams st).
Proof. exact key_ordered_spelled. Qed.
Print Assumptions C15_onstore_str_key_ordered_spelled.

Theorem C15_onstore_str_doc_dom_spelled : forall (dom : Z -> Prop) (d : go_GenesisState),
  doc_dom dom d <-> Forall (fun e => dom (StreamExport_Receiver e) /\ dom (StreamExport_Sender e)) (GenesisState_Streams d).
Proof. exact doc_dom_spelled. Qed.
Print Assumptions C15_onstore_str_doc_dom_spelled.

Theorem C15_onstore_str_module_keys_spelled : forall s : okv stream_val,
  module_keys s <-> forall k v, In (k, v) s -> k = stream_ParamsKey \/ is_prefix stream_StreamKeyPrefix k = true.
Proof. exact module_keys_spelled. Qed.
Print Assumptions C15_onstore_str_module_keys_spelled.

(* a listed (receiver bytes, sender bytes, stream) as an entry of the document; the empty world; the store InitGenesis
   builds: SetParams when the fee validates (its error is dropped), then one SetStream per entry in document order *)
Theorem C15_onstore_str_vocabulary_spelled :
  (forall (unemb : list N -> Z) r sn x, unexport unemb (r, sn, x) = mk_go_StreamExport (unemb r) (unemb sn) x) /\
  (forall (emb : Z -> list N) now b, empty_sworld emb now b = mk_sworld emb now b []) /\
  (forall (em : Z -> list N) p l (s : okv stream_val), s_import em (mk_go_GenesisState p l) s =
     fold_left (fun s e => okv_set s (str_encode (SkStream (em (StreamExport_Receiver e)) (em (StreamExport_Sender e))))
                                   (SV_Stream (StreamExport_Stream e))) l
               (if str_params_valid (Params_ValidatorFee p) then okv_set s stream_ParamsKey (SV_Params p) else s)).
Proof. exact vocabulary_spelled. Qed.
Print Assumptions C15_onstore_str_vocabulary_spelled.

(* ------------------------------------------------------------------ *)
(* 1. the listing adapter of the export                                 *)
(* ------------------------------------------------------------------ *)

(* os_str_AllStreams (go_st_IterateAllStreams with an appending callback) on a byte store representing [w]: the abstract
   listing, its addresses embedded, sorted by store key, read back through unemb *)
Theorem C15_onstore_str_adapter_AllStreams_listing :
  forall (dom : Z -> Prop) (emb : Z -> list N),
  (forall a, dom a -> (1 <= length (emb a) <= 255)%nat) ->
  (forall a b, dom a -> dom b -> emb a = emb b -> a = b) ->
  forall (unemb : list N -> Z) (w : kworld) (ws : sworld),
  Rw dom emb w ws ->
  os_str_AllStreams unemb ws =
    Ok (map (unexport unemb)
            (ksort (map (fun e => (emb (StreamExport_Receiver e), emb (StreamExport_Sender e), StreamExport_Stream e))
                        (str_AllStreams w)))).
Proof. exact os_AllStreams_sorted. Qed.
Print Assumptions C15_onstore_str_adapter_AllStreams_listing.

Theorem C15_onstore_str_adapter_AllStreams_perm :
  forall (dom : Z -> Prop) (emb : Z -> list N),
  (forall a, dom a -> (1 <= length (emb a) <= 255)%nat) ->
  (forall a b, dom a -> dom b -> emb a = emb b -> a = b) ->
  forall unemb : list N -> Z, (forall a, dom a -> unemb (emb a) = a) ->
  forall (w : kworld) (ws : sworld),
  Rw dom emb w ws ->
  exists L, os_str_AllStreams unemb ws = Ok L /\ Permutation L (str_AllStreams w).
Proof. exact os_AllStreams_perm. Qed.
Print Assumptions C15_onstore_str_adapter_AllStreams_perm.

Theorem C15_onstore_str_adapter_AllStreams :
  forall (dom : Z -> Prop) (emb : Z -> list N),
  (forall a, dom a -> (1 <= length (emb a) <= 255)%nat) ->
  (forall a b, dom a -> dom b -> emb a = emb b -> a = b) ->
  forall unemb : list N -> Z, (forall a, dom a -> unemb (emb a) = a) ->
  forall (w : kworld) (ws : sworld),
  Rw dom emb w ws -> key_ordered emb (kw_str w) ->
  os_str_AllStreams unemb ws = Ok (str_AllStreams w).
Proof. exact os_AllStreams_eq. Qed.
Print Assumptions C15_onstore_str_adapter_AllStreams.

(* ------------------------------------------------------------------ *)
(* 2. ExportGenesis                                                     *)
(* ------------------------------------------------------------------ *)

(* the document written from the bytes, on every related pair of worlds: no ordering hypothesis, never an error *)
Theorem C15_onstore_str_export_document :
  forall (dom : Z -> Prop) (emb : Z -> list N),
  (forall a, dom a -> (1 <= length (emb a) <= 255)%nat) ->
  (forall a b, dom a -> dom b -> emb a = emb b -> a = b) ->
  forall (unemb : list N -> Z) (w : kworld) (ws : sworld),
  Rw dom emb w ws ->
  S.go_ExportGenesis unemb ws =
    Ok (mk_go_GenesisState (mk_go_Params (s_valfee (kw_str w)))
          (map (unexport unemb)
               (ksort (map (fun e => (emb (StreamExport_Receiver e), emb (StreamExport_Sender e), StreamExport_Stream e))
                           (str_AllStreams w))))).
Proof. exact os_ExportGenesis_run. Qed.
Print Assumptions C15_onstore_str_export_document.

(* the same document as the first rendering when the abstract map is in key order *)
Theorem C15_onstore_str_export_same_document :
  forall (dom : Z -> Prop) (emb : Z -> list N),
  (forall a, dom a -> (1 <= length (emb a) <= 255)%nat) ->
  (forall a b, dom a -> dom b -> emb a = emb b -> a = b) ->
  forall unemb : list N -> Z, (forall a, dom a -> unemb (emb a) = a) ->
  forall (w : kworld) (ws : sworld),
  Rw dom emb w ws -> key_ordered emb (kw_str w) ->
  S.go_ExportGenesis unemb ws = K.go_ExportGenesis w.
Proof. exact os_ExportGenesis_eq. Qed.
Print Assumptions C15_onstore_str_export_same_document.

(* in general: the same parameters, the same stream entries in another order *)
Theorem C15_onstore_str_export_permutation :
  forall (dom : Z -> Prop) (emb : Z -> list N),
  (forall a, dom a -> (1 <= length (emb a) <= 255)%nat) ->
  (forall a b, dom a -> dom b -> emb a = emb b -> a = b) ->
  forall unemb : list N -> Z, (forall a, dom a -> unemb (emb a) = a) ->
  forall (w : kworld) (ws : sworld),
  Rw dom emb w ws ->
  exists d d', S.go_ExportGenesis unemb ws = Ok d /\ K.go_ExportGenesis w = Ok d' /\
    GenesisState_Params d = GenesisState_Params d' /\
    Permutation (GenesisState_Streams d) (GenesisState_Streams d').
Proof. exact os_ExportGenesis_perm. Qed.
Print Assumptions C15_onstore_str_export_permutation.

(* the ordering hypothesis cannot be dropped: related worlds (built by the two InitGenesis from one document over
   addresses of 1, 20 and 32 bytes) whose two exports differ *)
Theorem C15_onstore_str_export_order_refuted :
  exists (w : kworld) (ws : sworld),
    Rw exg_dom exg_emb w ws /\ S.go_ExportGenesis exg_unemb ws <> K.go_ExportGenesis w.
Proof. exact os_ExportGenesis_order_refuted. Qed.
Print Assumptions C15_onstore_str_export_order_refuted.

(* ------------------------------------------------------------------ *)
(* 3. InitGenesis simulates                                             *)
(* ------------------------------------------------------------------ *)

Theorem C15_onstore_str_import_simulates :
  forall (dom : Z -> Prop) (emb : Z -> list N),
  (forall a, dom a -> (1 <= length (emb a) <= 255)%nat) ->
  (forall a b, dom a -> dom b -> emb a = emb b -> a = b) ->
  forall (w : kworld) (ws : sworld) (d : go_GenesisState),
  Rw dom emb w ws -> doc_dom dom d ->
  sim dom emb (K.go_InitGenesis w d) (S.go_InitGenesis ws d).
Proof. exact os_InitGenesis_sim. Qed.
Print Assumptions C15_onstore_str_import_simulates.

(* read off: Ok with Ok and related worlds (both directions), Panic with Panic and the same code *)
Theorem C15_onstore_str_import_outcomes :
  forall (dom : Z -> Prop) (emb : Z -> list N),
  (forall a, dom a -> (1 <= length (emb a) <= 255)%nat) ->
  (forall a b, dom a -> dom b -> emb a = emb b -> a = b) ->
  forall (w : kworld) (ws : sworld) (d : go_GenesisState),
  Rw dom emb w ws -> doc_dom dom d ->
  (forall ws', S.go_InitGenesis ws d = Ok (ws', tt) -> exists w', K.go_InitGenesis w d = Ok (w', tt) /\ Rw dom emb w' ws') /\
  (forall w', K.go_InitGenesis w d = Ok (w', tt) -> exists ws', S.go_InitGenesis ws d = Ok (ws', tt) /\ Rw dom emb w' ws') /\
  (forall c, S.go_InitGenesis ws d = Panic c <-> K.go_InitGenesis w d = Panic c).
Proof. exact os_InitGenesis_outcomes. Qed.
Print Assumptions C15_onstore_str_import_outcomes.

(* a document address outside dom: the first rendering imports, the store-level key builder panics *)
Theorem C15_onstore_str_import_dom_refuted :
  let emb := fun a : Z => if a =? 5 then repeat 1%N 256 else [Z.to_N a] in
  let b := {| bal := [((STREAM_MACC, 0), 5)]; supply := [(0, 5)] |} in
  let d := mk_go_GenesisState exs_params [exs_entry 5 1 0 5] in
  (exists w', K.go_InitGenesis (fresh_kworld 0 b 0) d = Ok (w', tt)) /\
  S.go_InitGenesis (mk_sworld emb 0 b []) d = Panic GO_PANIC_LENPREFIX.
Proof. exact os_InitGenesis_dom_refuted. Qed.
Print Assumptions C15_onstore_str_import_dom_refuted.

(* ------------------------------------------------------------------ *)
(* 4. what InitGenesis leaves in the store; the empty store             *)
(* ------------------------------------------------------------------ *)

(* on EVERY store, for EVERY document: whenever it returns, clock, bank and embedding are untouched and the store is
   s_import of the document *)
Theorem C15_onstore_str_import_store :
  forall (ws : sworld) (d : go_GenesisState) (ws' : sworld) (u : unit),
  S.go_InitGenesis ws d = Ok (ws', u) ->
  ws' = mk_sworld (sw_emb ws) (sw_now ws) (sw_bank ws) (s_import (sw_emb ws) d (sw_store ws)).
Proof. exact os_InitGenesis_store. Qed.
Print Assumptions C15_onstore_str_import_store.

Theorem C15_onstore_str_import_empty_simulates :
  forall (dom : Z -> Prop) (emb : Z -> list N),
  (forall a, dom a -> (1 <= length (emb a) <= 255)%nat) ->
  (forall a b, dom a -> dom b -> emb a = emb b -> a = b) ->
  forall (now : Z) (b : bank) (d : go_GenesisState),
  doc_dom dom d ->
  sim dom emb (K.go_InitGenesis (fresh_kworld now b 0) d) (S.go_InitGenesis (empty_sworld emb now b) d).
Proof. exact os_InitGenesis_empty. Qed.
Print Assumptions C15_onstore_str_import_empty_simulates.

(* whenever it returns, the store it built represents the state the first rendering built (valid fee or not) *)
Theorem C15_onstore_str_import_empty :
  forall (dom : Z -> Prop) (emb : Z -> list N),
  (forall a, dom a -> (1 <= length (emb a) <= 255)%nat) ->
  (forall a b, dom a -> dom b -> emb a = emb b -> a = b) ->
  forall (now : Z) (b : bank) (d : go_GenesisState) (ws' : sworld),
  doc_dom dom d ->
  S.go_InitGenesis (empty_sworld emb now b) d = Ok (ws', tt) ->
  exists w', K.go_InitGenesis (fresh_kworld now b 0) d = Ok (w', tt) /\ Rw dom emb w' ws' /\
             ws' = mk_sworld emb now b (s_import emb d []).
Proof. exact os_InitGenesis_empty_Ok. Qed.
Print Assumptions C15_onstore_str_import_empty.

(* ... which is the MODEL's import of the document (hypotheses of C15_generated_str_import_ok) *)
Theorem C15_onstore_str_import_empty_is_model :
  forall (dom : Z -> Prop) (emb : Z -> list N),
  (forall a, dom a -> (1 <= length (emb a) <= 255)%nat) ->
  (forall a b, dom a -> dom b -> emb a = emb b -> a = b) ->
  forall (now : Z) (b : bank) (d : go_GenesisState) (ws' : sworld),
  doc_dom dom d ->
  str_params_valid (Params_ValidatorFee (GenesisState_Params d)) = true ->
  bank_wf b -> macc_nonneg b -> NoDup (str_doc_keys d) ->
  S.go_InitGenesis (empty_sworld emb now b) d = Ok (ws', tt) ->
  exists st, import_str b (gen_str_of_go d) = Some st /\ Rstr dom emb (sw_store ws') st /\ sw_bank ws' = b.
Proof. exact os_InitGenesis_empty_model. Qed.
Print Assumptions C15_onstore_str_import_empty_is_model.

(* the two store-side conditions of the byte-identical round trip hold of what InitGenesis builds *)
Theorem C15_onstore_str_module_keys_import :
  module_keys [] /\
  (forall (em : Z -> list N) (d : go_GenesisState) (s : okv stream_val), module_keys s -> module_keys (s_import em d s)) /\
  (forall (em : Z -> list N) (d : go_GenesisState) (s : okv stream_val),
     str_params_valid (Params_ValidatorFee (GenesisState_Params d)) = true ->
     okv_get (s_import em d s) stream_ParamsKey = Some (SV_Params (GenesisState_Params d))).
Proof. exact import_side_conditions. Qed.
Print Assumptions C15_onstore_str_module_keys_import.

(* ------------------------------------------------------------------ *)
(* 5. round trip on bytes                                               *)
(* ------------------------------------------------------------------ *)

(* the exported document names addresses in use *)
Theorem C15_onstore_str_export_doc_dom :
  forall (dom : Z -> Prop) (emb : Z -> list N),
  (forall a, dom a -> (1 <= length (emb a) <= 255)%nat) ->
  (forall a b, dom a -> dom b -> emb a = emb b -> a = b) ->
  forall unemb : list N -> Z, (forall a, dom a -> unemb (emb a) = a) ->
  forall (w : kworld) (ws : sworld) (d : go_GenesisState),
  Rw dom emb w ws -> S.go_ExportGenesis unemb ws = Ok d -> doc_dom dom d.
Proof. exact export_doc_dom. Qed.
Print Assumptions C15_onstore_str_export_doc_dom.

(* importing the exported document into the empty store writes back, entry by entry, what the store lists under
   StreamKeyPrefix, onto the Params cell (written only when the fee validates) *)
Theorem C15_onstore_str_roundtrip_store :
  forall (dom : Z -> Prop) (emb : Z -> list N),
  (forall a, dom a -> (1 <= length (emb a) <= 255)%nat) ->
  (forall a b, dom a -> dom b -> emb a = emb b -> a = b) ->
  forall unemb : list N -> Z, (forall a, dom a -> unemb (emb a) = a) ->
  forall (w : kworld) (ws : sworld) (d : go_GenesisState),
  Rw dom emb w ws -> S.go_ExportGenesis unemb ws = Ok d ->
  s_import emb d [] =
    fold_left (fun s kv => okv_set s (fst kv) (snd kv)) (okv_prefix (sw_store ws) stream_StreamKeyPrefix)
      (if str_params_valid (s_valfee (kw_str w))
       then okv_set [] stream_ParamsKey (SV_Params (mk_go_Params (s_valfee (kw_str w)))) else []).
Proof. exact export_import_store. Qed.
Print Assumptions C15_onstore_str_roundtrip_store.

(* EXPORT, then IMPORT INTO THE EMPTY STORE (any clock; any bank for which the import goes through): the new store
   represents a state with the same stream under every (receiver, sender) pair and the same fee if that validates *)
Theorem C15_onstore_str_roundtrip :
  forall (dom : Z -> Prop) (emb : Z -> list N),
  (forall a, dom a -> (1 <= length (emb a) <= 255)%nat) ->
  (forall a b, dom a -> dom b -> emb a = emb b -> a = b) ->
  forall unemb : list N -> Z, (forall a, dom a -> unemb (emb a) = a) ->
  forall (w : kworld) (ws : sworld) (d : go_GenesisState) (now' : Z) (b' : bank) (ws' : sworld),
  Rw dom emb w ws ->
  S.go_ExportGenesis unemb ws = Ok d ->
  S.go_InitGenesis (empty_sworld emb now' b') d = Ok (ws', tt) ->
  exists w', K.go_InitGenesis (fresh_kworld now' b' 0) d = Ok (w', tt) /\ Rw dom emb w' ws' /\
    (forall k, aget k (s_streams (kw_str w')) = aget k (s_streams (kw_str w))) /\
    s_valfee (kw_str w') = (if str_params_valid (s_valfee (kw_str w)) then s_valfee (kw_str w) else 0).
Proof. exact os_export_import_roundtrip. Qed.
Print Assumptions C15_onstore_str_roundtrip.

(* ... and THE VERY SAME BYTES when the store holds only the module's keys, its Params cell is written and validates *)
Theorem C15_onstore_str_roundtrip_bytes :
  forall (dom : Z -> Prop) (emb : Z -> list N),
  (forall a, dom a -> (1 <= length (emb a) <= 255)%nat) ->
  (forall a b, dom a -> dom b -> emb a = emb b -> a = b) ->
  forall unemb : list N -> Z, (forall a, dom a -> unemb (emb a) = a) ->
  forall (w : kworld) (ws : sworld) (d : go_GenesisState) (now' : Z) (b' : bank) (ws' : sworld),
  Rw dom emb w ws ->
  module_keys (sw_store ws) ->
  okv_get (sw_store ws) stream_ParamsKey <> None ->
  str_params_valid (s_valfee (kw_str w)) = true ->
  S.go_ExportGenesis unemb ws = Ok d ->
  S.go_InitGenesis (empty_sworld emb now' b') d = Ok (ws', tt) ->
  sw_store ws' = sw_store ws.
Proof. exact os_roundtrip_bytes. Qed.
Print Assumptions C15_onstore_str_roundtrip_bytes.

(* each of the three is needed *)
Theorem C15_onstore_str_roundtrip_bytes_no_params_refuted :
  let w := fresh_kworld 0 exs_empty_bank 0 in
  let ws := empty_sworld exg_emb 0 exs_empty_bank in
  Rw exg_dom exg_emb w ws /\ module_keys (sw_store ws) /\ str_params_valid (s_valfee (kw_str w)) = true /\
  exists d ws', S.go_ExportGenesis exg_unemb ws = Ok d /\ S.go_InitGenesis (empty_sworld exg_emb 0 exs_empty_bank) d = Ok (ws', tt) /\
                sw_store ws' = [(stream_ParamsKey, SV_Params (mk_go_Params 0))] /\ sw_store ws' <> sw_store ws.
Proof. exact os_roundtrip_bytes_no_params_refuted. Qed.
Print Assumptions C15_onstore_str_roundtrip_bytes_no_params_refuted.

Theorem C15_onstore_str_roundtrip_bytes_foreign_key_refuted :
  let s := [(stream_ParamsKey, SV_Params (mk_go_Params 0)); ([99%N], SV_bytes [7%N])] in
  let w := fresh_kworld 0 exs_empty_bank 0 in
  let ws := mk_sworld exg_emb 0 exs_empty_bank s in
  Rw exg_dom exg_emb w ws /\ okv_get s stream_ParamsKey <> None /\ str_params_valid (s_valfee (kw_str w)) = true /\
  ~ module_keys s /\
  exists d ws', S.go_ExportGenesis exg_unemb ws = Ok d /\ S.go_InitGenesis (empty_sworld exg_emb 0 exs_empty_bank) d = Ok (ws', tt) /\
                sw_store ws' = [(stream_ParamsKey, SV_Params (mk_go_Params 0))] /\ sw_store ws' <> sw_store ws.
Proof. exact os_roundtrip_bytes_foreign_key_refuted. Qed.
Print Assumptions C15_onstore_str_roundtrip_bytes_foreign_key_refuted.

Theorem C15_onstore_str_roundtrip_bytes_invalid_fee_refuted :
  let s := [(stream_ParamsKey, SV_Params (mk_go_Params (-1)))] in
  let w := fresh_kworld 0 exs_empty_bank (-1) in
  let ws := mk_sworld exg_emb 0 exs_empty_bank s in
  Rw exg_dom exg_emb w ws /\ module_keys s /\ okv_get s stream_ParamsKey <> None /\
  str_params_valid (s_valfee (kw_str w)) = false /\
  exists d ws', S.go_ExportGenesis exg_unemb ws = Ok d /\ S.go_InitGenesis (empty_sworld exg_emb 0 exs_empty_bank) d = Ok (ws', tt) /\
                sw_store ws' = [] /\ S.go_ExportGenesis exg_unemb ws' <> Ok d.
Proof. exact os_roundtrip_bytes_invalid_fee_refuted. Qed.
Print Assumptions C15_onstore_str_roundtrip_bytes_invalid_fee_refuted.

(* EXPORT -> IMPORT -> EXPORT: the same document; no hypothesis on order or foreign keys *)
Theorem C15_onstore_str_export_import_export :
  forall (dom : Z -> Prop) (emb : Z -> list N),
  (forall a, dom a -> (1 <= length (emb a) <= 255)%nat) ->
  (forall a b, dom a -> dom b -> emb a = emb b -> a = b) ->
  forall unemb : list N -> Z, (forall a, dom a -> unemb (emb a) = a) ->
  forall (w : kworld) (ws : sworld) (d : go_GenesisState) (now' : Z) (b' : bank) (ws' : sworld),
  Rw dom emb w ws ->
  str_params_valid (s_valfee (kw_str w)) = true ->
  S.go_ExportGenesis unemb ws = Ok d ->
  S.go_InitGenesis (empty_sworld emb now' b') d = Ok (ws', tt) ->
  S.go_ExportGenesis unemb ws' = Ok d.
Proof. exact os_export_import_export. Qed.
Print Assumptions C15_onstore_str_export_import_export.

(* after one round trip the abstract state is in key order, and BOTH renderings export the document that was imported *)
Theorem C15_onstore_str_reimported_same_document :
  forall (dom : Z -> Prop) (emb : Z -> list N),
  (forall a, dom a -> (1 <= length (emb a) <= 255)%nat) ->
  (forall a b, dom a -> dom b -> emb a = emb b -> a = b) ->
  forall unemb : list N -> Z, (forall a, dom a -> unemb (emb a) = a) ->
  forall (w : kworld) (ws : sworld) (d : go_GenesisState) (now' : Z) (b' : bank) (ws' : sworld),
  Rw dom emb w ws ->
  str_params_valid (s_valfee (kw_str w)) = true ->
  S.go_ExportGenesis unemb ws = Ok d ->
  S.go_InitGenesis (empty_sworld emb now' b') d = Ok (ws', tt) ->
  exists w', K.go_InitGenesis (fresh_kworld now' b' 0) d = Ok (w', tt) /\ Rw dom emb w' ws' /\
             key_ordered emb (kw_str w') /\
             K.go_ExportGenesis w' = Ok d /\ S.go_ExportGenesis unemb ws' = Ok d.
Proof. exact os_reimported_same_document. Qed.
Print Assumptions C15_onstore_str_reimported_same_document.

(* ------------------------------------------------------------------ *)
(* 6. a concrete store                                                  *)
(* ------------------------------------------------------------------ *)

(* addresses of 1, 20 and 32 bytes; the embedding meets the three hypotheses *)
Theorem C15_onstore_str_example_setup :
  (forall a, exg_dom a <-> 0 <= a < 256) /\
  (forall a, exg_emb a = if a <? 12 then [Z.to_N a] else if a <? 13 then repeat 0%N 19 ++ [Z.to_N a] else repeat 0%N 31 ++ [Z.to_N a]) /\
  (forall b, exg_unemb b = Z.of_N (last b 0%N)) /\
  (forall a, exg_dom a -> (1 <= length (exg_emb a) <= 255)%nat) /\
  (forall a b, exg_dom a -> exg_dom b -> exg_emb a = exg_emb b -> a = b) /\
  (forall a, exg_dom a -> exg_unemb (exg_emb a) = a) /\
  exs_doc = mk_go_GenesisState exs_params [exs_entry 10 11 0 500; exs_entry 12 11 1 70; exs_entry 10 13 0 30] /\
  exg_doc1 = mk_go_GenesisState exs_params [exs_entry 10 11 0 500; exs_entry 10 13 0 30; exs_entry 12 11 1 70] /\
  doc_dom exg_dom exs_doc /\
  (forall now, exg_ws0 now = mk_sworld exg_emb now (exs_bank 530 70) []).
Proof. exact exg_setup. Qed.
Print Assumptions C15_onstore_str_example_setup.

(* import into the empty byte store, export (key order, not document order), import again: the same bytes; and a module
   balance that does not match panics alike in both renderings *)
Theorem C15_onstore_str_example :
  S.go_InitGenesis (exg_ws0 99) exs_doc = Ok (exg_ws1, tt) /\
  map (fun kv => length (fst kv)) (sw_store exg_ws1) = [1; 5; 36; 24]%nat /\
  os_str_GetStream exg_ws1 12 11 = Ok (exs_stream 1 70, true) /\
  S.go_ExportGenesis exg_unemb exg_ws1 = Ok exg_doc1 /\
  K.go_InitGenesis (fresh_kworld 99 (exs_bank 530 70) 0) exs_doc =
    Ok (with_str (fresh_kworld 99 (exs_bank 530 70) 0)
          {| s_valfee := 10000000000000000; s_streams := str_doc_kvs (GenesisState_Streams exs_doc) |}, tt) /\
  (exists ws2, S.go_InitGenesis (exg_ws0 7) exg_doc1 = Ok (ws2, tt) /\ sw_store ws2 = sw_store exg_ws1 /\
               S.go_ExportGenesis exg_unemb ws2 = Ok exg_doc1) /\
  S.go_InitGenesis (empty_sworld exg_emb 99 (exs_bank 529 70)) exs_doc = Panic stream_PANIC /\
  K.go_InitGenesis (fresh_kworld 99 (exs_bank 529 70) 0) exs_doc = Panic stream_PANIC.
Proof. exact os_genesis_ex. Qed.
Print Assumptions C15_onstore_str_example.

(* the same through the theorems: every hypothesis above is met by this store *)
Theorem C15_onstore_str_example_by_theorem :
  exists w1, K.go_InitGenesis (fresh_kworld 99 (exs_bank 530 70) 0) exs_doc = Ok (w1, tt) /\
    Rw exg_dom exg_emb w1 exg_ws1 /\
    module_keys (sw_store exg_ws1) /\ okv_get (sw_store exg_ws1) stream_ParamsKey <> None /\
    str_params_valid (s_valfee (kw_str w1)) = true /\
    (forall now' b' ws2, S.go_InitGenesis (empty_sworld exg_emb now' b') exg_doc1 = Ok (ws2, tt) ->
       sw_store ws2 = sw_store exg_ws1 /\ S.go_ExportGenesis exg_unemb ws2 = Ok exg_doc1) /\
    ~ key_ordered exg_emb (kw_str w1) /\
    K.go_ExportGenesis w1 = Ok exs_doc /\ S.go_ExportGenesis exg_unemb exg_ws1 = Ok exg_doc1 /\ exs_doc <> exg_doc1.
Proof. exact os_genesis_ex_by_theorem. Qed.
Print Assumptions C15_onstore_str_example_by_theorem.

(* ------------------------------------------------------------------ *)
(* 7. ALONG ANY HISTORY of the on-store message server                  *)
(* ------------------------------------------------------------------ *)
(* The three side conditions of the byte-identical round trip are INVARIANTS of the on-store message server
   (S.go_CreateStream, S.go_ClaimStream, S.go_TopUpDeposit, S.go_UpdateFlowRate, S.go_CancelStream, S.go_UpdateParams;
   DeliverTx [s_deliver] and histories [s_run] of proofs/GeneratedStreamOnStoreEq.v: C10_onstore_.. theorems).
     store_ok s    module_keys s, and the Params cell of s holds parameters whose fee validates
                   (C15_onstore_str_run_vocabulary_spelled).  On related worlds it gives the two hypotheses on the Params
                   cell of C15_onstore_str_roundtrip_bytes.
     keeps Q c     the store of the world the computation c returns has Q; nothing is said when c fails - an outcome
                   Err / Panic carries no world: the runner of histories keeps the world the message was started in
                   ([s_step], spelled out below), so the store is the one the message found
                   (C15_onstore_str_run_store_ok_deliver, second case).
   The rendering writes the byte store through three adapters only: os_str_SetStream (okv_set at GetStreamKey =
   0x11 ++ length-prefixed receiver ++ length-prefixed sender), os_str_DeleteStream (okv_del at that key) and
   os_str_SetParams (okv_set at the Params key 0x01, after Params.Validate): a property of stores closed under these
   three writes is kept by every message (C15_onstore_str_run_closed_property_deliver, _run), and module_keys / store_ok are closed
   under them (C15_onstore_str_run_writes_module_keys, _store_ok).  NO hypothesis on the messages (addresses in dom or not, valid or not) or
   on the world is needed for the invariants.  The round trip needs the addresses of the history in dom: it goes through
   the simulation C10_onstore_histories (Rw at the end of the run).
   For the re-import to GO THROUGH over the final bank (C15_onstore_str_run_roundtrip_total) in addition:
     str_inv now b st    the invariant of rendering (1) / the model (escrow backed, storable times, fee in range, ...;
                         model/StreamSpec.v) at the start - kept along histories by C10_onstore_reachable,
     bank_wf b           one row per (account, denomination) - kept by the message server (C15_onstore_str_run_bank_wf),
     ktimes_sorted       block times do not decrease and are storable, signers are ordinary accounts (C10_onstore_.. theorems).
   Proofs: proofs/GeneratedStreamGenesisOnStoreRun.v. *)
From MC Require Import proofs.GeneratedStreamGenesisOnStoreRun.

Theorem C15_onstore_str_run_vocabulary_spelled :
  (forall (Q : okv stream_val -> Prop) (c : outcome (sworld * kresp)),
     keeps Q c <-> match c with Ok (w', _) => Q (sw_store w') | Err _ | Panic _ => True end) /\
  (forall s : okv stream_val, store_ok s <->
     (forall k v, In (k, v) s -> k = stream_ParamsKey \/ is_prefix stream_StreamKeyPrefix k = true) /\
     exists p, okv_get s stream_ParamsKey = Some (SV_Params p) /\ str_params_valid (Params_ValidatorFee p) = true) /\
  (forall t m ws, s_step t m ws = match s_deliver (sw_at t ws) m with Ok (ws', _) => ws' | Err _ | Panic _ => sw_at t ws end) /\
  (forall t ws, sw_at t ws = mk_sworld (sw_emb ws) t (sw_bank ws) (sw_store ws)) /\
  (forall ws t m h, snd (s_run ws ((t, m) :: h)) = snd (s_run (s_step t m ws) h)) /\
  (forall ws, snd (s_run ws []) = ws) /\
  (forall r sn, skey r sn = str_encode (SkStream r sn)) /\
  (forall r sn, skey r sn = 17%N :: length_prefix r ++ length_prefix sn) /\
  stream_ParamsKey = [1%N] /\ stream_StreamKeyPrefix = [17%N].
Proof. exact run_vocabulary_spelled. Qed.
Print Assumptions C15_onstore_str_run_vocabulary_spelled.

(* each of the three writes writes a module key ... *)
Theorem C15_onstore_str_run_writes_module_keys :
  (forall (s : okv stream_val) r sn x, module_keys s -> module_keys (okv_set s (skey r sn) (SV_Stream x))) /\
  (forall (s : okv stream_val) k0, module_keys s -> module_keys (okv_del s k0)) /\
  (forall (s : okv stream_val) p, module_keys s -> module_keys (okv_set s stream_ParamsKey (SV_Params p))).
Proof. exact writes_module_keys. Qed.
Print Assumptions C15_onstore_str_run_writes_module_keys.

(* ... and keeps a Params cell that validates: a stream write or delete does not touch it, SetParams validates *)
Theorem C15_onstore_str_run_writes_store_ok :
  (forall (s : okv stream_val) r sn x, store_ok s -> store_ok (okv_set s (skey r sn) (SV_Stream x))) /\
  (forall (s : okv stream_val) r sn, store_ok s -> store_ok (okv_del s (skey r sn))) /\
  (forall (s : okv stream_val) p, str_params_valid (Params_ValidatorFee p) = true -> store_ok s ->
     store_ok (okv_set s stream_ParamsKey (SV_Params p))).
Proof. exact writes_store_ok. Qed.
Print Assumptions C15_onstore_str_run_writes_store_ok.

(* the message server writes the store in these three ways ONLY: whatever property of stores they keep, DeliverTx of any
   message of the six kinds on any world keeps, and so does any history *)
Theorem C15_onstore_str_run_closed_property_deliver :
  forall Q : okv stream_val -> Prop,
  (forall s r sn x, Q s -> Q (okv_set s (skey r sn) (SV_Stream x))) ->
  (forall s r sn, Q s -> Q (okv_del s (skey r sn))) ->
  (forall s p, str_params_valid (Params_ValidatorFee p) = true -> Q s -> Q (okv_set s stream_ParamsKey (SV_Params p))) ->
  forall (w : sworld) (m : kmsg), Q (sw_store w) -> keeps Q (s_deliver w m).
Proof. exact keeps_deliver. Qed.
Print Assumptions C15_onstore_str_run_closed_property_deliver.

Theorem C15_onstore_str_run_closed_property_run :
  forall Q : okv stream_val -> Prop,
  (forall s r sn x, Q s -> Q (okv_set s (skey r sn) (SV_Stream x))) ->
  (forall s r sn, Q s -> Q (okv_del s (skey r sn))) ->
  (forall s p, str_params_valid (Params_ValidatorFee p) = true -> Q s -> Q (okv_set s stream_ParamsKey (SV_Params p))) ->
  forall (h : list (Z * kmsg)) (ws : sworld), Q (sw_store ws) -> Q (sw_store (snd (s_run ws h))).
Proof. exact keeps_run. Qed.
Print Assumptions C15_onstore_str_run_closed_property_run.

(* module_keys: one message at any block time - Ok: the new store has it; Err or Panic: the store is the old one *)
Theorem C15_onstore_str_run_module_keys_deliver :
  forall (t : Z) (ws : sworld) (m : kmsg), module_keys (sw_store ws) ->
  match s_deliver (sw_at t ws) m with
  | Ok (ws', _) => module_keys (sw_store ws') /\ s_step t m ws = ws'
  | Err _ | Panic _ => sw_store (s_step t m ws) = sw_store ws
  end.
Proof. exact module_keys_deliver. Qed.
Print Assumptions C15_onstore_str_run_module_keys_deliver.

Theorem C15_onstore_str_run_module_keys_run :
  forall (h : list (Z * kmsg)) (ws : sworld), module_keys (sw_store ws) -> module_keys (sw_store (snd (s_run ws h))).
Proof. exact module_keys_run. Qed.
Print Assumptions C15_onstore_str_run_module_keys_run.

(* store_ok (module_keys + a Params cell that validates): the same *)
Theorem C15_onstore_str_run_store_ok_deliver :
  forall (t : Z) (ws : sworld) (m : kmsg), store_ok (sw_store ws) ->
  match s_deliver (sw_at t ws) m with
  | Ok (ws', _) => store_ok (sw_store ws') /\ s_step t m ws = ws'
  | Err _ | Panic _ => sw_store (s_step t m ws) = sw_store ws
  end.
Proof. exact store_ok_deliver. Qed.
Print Assumptions C15_onstore_str_run_store_ok_deliver.

Theorem C15_onstore_str_run_store_ok_step :
  forall (t : Z) (m : kmsg) (ws : sworld), store_ok (sw_store ws) -> store_ok (sw_store (s_step t m ws)).
Proof. exact store_ok_step. Qed.
Print Assumptions C15_onstore_str_run_store_ok_step.

Theorem C15_onstore_str_run_store_ok_run :
  forall (h : list (Z * kmsg)) (ws : sworld), store_ok (sw_store ws) -> store_ok (sw_store (snd (s_run ws h))).
Proof. exact store_ok_run. Qed.
Print Assumptions C15_onstore_str_run_store_ok_run.

(* the six handlers of the message server, one by one, on any message *)
Theorem C15_onstore_str_run_store_ok_msg_server :
  forall ws : sworld, store_ok (sw_store ws) ->
  (forall msg, keeps store_ok (S.go_CreateStream ws msg)) /\
  (forall msg, keeps store_ok (S.go_ClaimStream ws msg)) /\
  (forall msg, keeps store_ok (S.go_TopUpDeposit ws msg)) /\
  (forall msg, keeps store_ok (S.go_UpdateFlowRate ws msg)) /\
  (forall msg, keeps store_ok (S.go_CancelStream ws msg)) /\
  (forall req, keeps store_ok (S.go_UpdateParams ws req)).
Proof. exact store_ok_msg_server. Qed.
Print Assumptions C15_onstore_str_run_store_ok_msg_server.

(* the store InitGenesis builds from the empty one, for a document whose fee validates *)
Theorem C15_onstore_str_run_store_ok_import :
  forall (em : Z -> list N) (d : go_GenesisState),
  str_params_valid (Params_ValidatorFee (GenesisState_Params d)) = true -> store_ok (s_import em d []).
Proof. exact store_ok_import. Qed.
Print Assumptions C15_onstore_str_run_store_ok_import.

(* THE ROUND TRIP ALONG ANY HISTORY, from related worlds whose store is store_ok: after any history of the six message
   kinds with addresses in dom, the byte store exports; the document, imported into the empty store at any clock over
   any bank for which InitGenesis returns, gives the very same bytes, which export to the same document *)
Theorem C15_onstore_str_run_roundtrip_bytes :
  forall (dom : Z -> Prop) (emb : Z -> list N),
  (forall a, dom a -> (1 <= length (emb a) <= 255)%nat) ->
  (forall a b, dom a -> dom b -> emb a = emb b -> a = b) ->
  forall unemb : list N -> Z, (forall a, dom a -> unemb (emb a) = a) ->
  forall (h : list (Z * kmsg)) (w : kworld) (ws : sworld),
  Rw dom emb w ws -> store_ok (sw_store ws) ->
  Forall (fun tm => kmsg_dom dom (snd tm)) h ->
  let ws1 := snd (s_run ws h) in
  store_ok (sw_store ws1) /\
  exists d, S.go_ExportGenesis unemb ws1 = Ok d /\
    forall now' b' ws2, S.go_InitGenesis (empty_sworld emb now' b') d = Ok (ws2, tt) ->
      sw_store ws2 = sw_store ws1 /\ S.go_ExportGenesis unemb ws2 = Ok d.
Proof. exact os_run_roundtrip_bytes. Qed.
Print Assumptions C15_onstore_str_run_roundtrip_bytes.

(* FROM GENESIS: any document with addresses in dom and a fee that validates, imported into the empty byte store (any
   clock, any bank for which InitGenesis returns), then ANY history run by the on-store message server *)
Theorem C15_onstore_str_genesis_run_roundtrip :
  forall (dom : Z -> Prop) (emb : Z -> list N),
  (forall a, dom a -> (1 <= length (emb a) <= 255)%nat) ->
  (forall a b, dom a -> dom b -> emb a = emb b -> a = b) ->
  forall unemb : list N -> Z, (forall a, dom a -> unemb (emb a) = a) ->
  forall (now : Z) (b : bank) (d0 : go_GenesisState) (ws0 : sworld) (h : list (Z * kmsg)),
  doc_dom dom d0 -> str_params_valid (Params_ValidatorFee (GenesisState_Params d0)) = true ->
  S.go_InitGenesis (empty_sworld emb now b) d0 = Ok (ws0, tt) ->
  Forall (fun tm => kmsg_dom dom (snd tm)) h ->
  let ws1 := snd (s_run ws0 h) in
  store_ok (sw_store ws1) /\
  exists d, S.go_ExportGenesis unemb ws1 = Ok d /\
    forall now' b' ws2, S.go_InitGenesis (empty_sworld emb now' b') d = Ok (ws2, tt) ->
      sw_store ws2 = sw_store ws1 /\ S.go_ExportGenesis unemb ws2 = Ok d.
Proof. exact os_genesis_run_roundtrip. Qed.
Print Assumptions C15_onstore_str_genesis_run_roundtrip.

(* ---- the re-import over the final bank goes through ---- *)

(* one row per (account, denomination): kept by any history, on any world *)
Theorem C15_onstore_str_run_bank_wf :
  forall (h : list (Z * kmsg)) (ws : sworld), bank_wf (sw_bank ws) -> bank_wf (sw_bank (snd (s_run ws h))).
Proof. exact bank_wf_run. Qed.
Print Assumptions C15_onstore_str_run_bank_wf.

(* rendering (1) imports any REORDERING of the document it would export (the byte store lists in key order) *)
Theorem C15_onstore_str_import_reordered :
  forall (w : kworld) (now0 now' vf0 : Z) (d : go_GenesisState),
  str_inv now0 (kw_bank w) (kw_str w) -> bank_wf (kw_bank w) ->
  GenesisState_Params d = mk_go_Params (s_valfee (kw_str w)) ->
  Permutation (GenesisState_Streams d) (str_AllStreams w) ->
  K.go_InitGenesis (fresh_kworld now' (kw_bank w) vf0) d =
    Ok (with_str (fresh_kworld now' (kw_bank w) vf0) (import_go d (fresh_str vf0)), tt).
Proof. exact gen_str_import_reordered. Qed.
Print Assumptions C15_onstore_str_import_reordered.

(* the document the byte store exports imports into the empty store over the same bank, at any clock *)
Theorem C15_onstore_str_export_imports :
  forall (dom : Z -> Prop) (emb : Z -> list N),
  (forall a, dom a -> (1 <= length (emb a) <= 255)%nat) ->
  (forall a b, dom a -> dom b -> emb a = emb b -> a = b) ->
  forall unemb : list N -> Z, (forall a, dom a -> unemb (emb a) = a) ->
  forall (w : kworld) (ws : sworld) (now0 now' : Z) (d : go_GenesisState),
  Rw dom emb w ws -> str_inv now0 (kw_bank w) (kw_str w) -> bank_wf (sw_bank ws) ->
  S.go_ExportGenesis unemb ws = Ok d ->
  exists ws2, S.go_InitGenesis (empty_sworld emb now' (sw_bank ws)) d = Ok (ws2, tt) /\ sw_bank ws2 = sw_bank ws /\
              sw_now ws2 = now'.
Proof. exact os_export_imports. Qed.
Print Assumptions C15_onstore_str_export_imports.

(* along any history inside the invariant: export, re-import over the final bank at any clock - it goes through; the
   very same bytes, the same bank, the same document again *)
Theorem C15_onstore_str_run_roundtrip_total :
  forall (dom : Z -> Prop) (emb : Z -> list N),
  (forall a, dom a -> (1 <= length (emb a) <= 255)%nat) ->
  (forall a b, dom a -> dom b -> emb a = emb b -> a = b) ->
  forall unemb : list N -> Z, (forall a, dom a -> unemb (emb a) = a) ->
  forall (h : list (Z * kmsg)) (now0 now' : Z) (w : kworld) (ws : sworld),
  Rw dom emb w ws -> store_ok (sw_store ws) ->
  str_inv now0 (kw_bank w) (kw_str w) -> bank_wf (sw_bank ws) ->
  ktimes_sorted now0 h -> Forall (fun tm => kmsg_dom dom (snd tm)) h ->
  let ws1 := snd (s_run ws h) in
  exists d ws2, S.go_ExportGenesis unemb ws1 = Ok d /\
    S.go_InitGenesis (empty_sworld emb now' (sw_bank ws1)) d = Ok (ws2, tt) /\
    sw_store ws2 = sw_store ws1 /\ sw_bank ws2 = sw_bank ws1 /\ sw_now ws2 = now' /\
    S.go_ExportGenesis unemb ws2 = Ok d.
Proof. exact os_run_roundtrip_total. Qed.
Print Assumptions C15_onstore_str_run_roundtrip_total.

(* FROM GENESIS: the document describes a state inside the invariant at the genesis time (import_go d0 (fresh_str 0):
   its fee, its entries in document order), over a bank with one row per (account, denomination) *)
Theorem C15_onstore_str_genesis_run_roundtrip_total :
  forall (dom : Z -> Prop) (emb : Z -> list N),
  (forall a, dom a -> (1 <= length (emb a) <= 255)%nat) ->
  (forall a b, dom a -> dom b -> emb a = emb b -> a = b) ->
  forall unemb : list N -> Z, (forall a, dom a -> unemb (emb a) = a) ->
  forall (now : Z) (b : bank) (d0 : go_GenesisState) (ws0 : sworld) (h : list (Z * kmsg)) (now' : Z),
  doc_dom dom d0 -> str_inv now b (import_go d0 (fresh_str 0)) -> bank_wf b ->
  S.go_InitGenesis (empty_sworld emb now b) d0 = Ok (ws0, tt) ->
  ktimes_sorted now h -> Forall (fun tm => kmsg_dom dom (snd tm)) h ->
  let ws1 := snd (s_run ws0 h) in
  exists d ws2, S.go_ExportGenesis unemb ws1 = Ok d /\
    S.go_InitGenesis (empty_sworld emb now' (sw_bank ws1)) d = Ok (ws2, tt) /\
    sw_store ws2 = sw_store ws1 /\ sw_bank ws2 = sw_bank ws1 /\ sw_now ws2 = now' /\
    S.go_ExportGenesis unemb ws2 = Ok d.
Proof. exact os_genesis_run_roundtrip_total. Qed.
Print Assumptions C15_onstore_str_genesis_run_roundtrip_total.

(* ---- a concrete run from a genesis store (the embedding of C15_onstore_str_example_setup) ---- *)
Theorem C15_onstore_str_run_example_setup :
  exr_bank = {| bal := [((STREAM_MACC, 1), 70); ((11, 0), 1000); ((13, 0), 200000); ((STREAM_MACC, 0), 500)];
                supply := [(0, 201500); (1, 70)] |} /\
  (forall secs, exr_t secs = secs * NSEC) /\
  exr_doc = mk_go_GenesisState exs_params
    [ mk_go_StreamExport 10 11 (mk_go_Stream (0, 500) 10 (exr_t 1000) (exr_t 1050) true);
      mk_go_StreamExport 12 11 (mk_go_Stream (1, 70) 10 (exr_t 1000) (exr_t 1007) true) ] /\
  exr_hist =
    [ (exr_t 1010, KStr (SCreate 13 10 0 100000 100));
      (exr_t 1020, KStr (SClaim 11 10));
      (exr_t 1030, KStr (STopUp 11 10 0 300));
      (exr_t 1035, KStr (SClaim 13 12));
      (exr_t 1040, KStr (SCancel 11 12));
      (exr_t 1045, KUpdateParams (mk_go_MsgUpdateParams 11 (mk_go_Params 20000000000000000)));
      (exr_t 1050, KUpdateParams (mk_go_MsgUpdateParams GOV_MACC (mk_go_Params 20000000000000000))) ] /\
  exr_ws1 = snd (s_run exr_ws0 exr_hist) /\
  exr_doc1 = mk_go_GenesisState (mk_go_Params 20000000000000000)
    [ mk_go_StreamExport 10 11 (mk_go_Stream (0, 600) 10 (exr_t 1020) (exr_t 1080) true);
      mk_go_StreamExport 10 13 (mk_go_Stream (0, 100000) 100 (exr_t 1010) (exr_t 2010) true) ].
Proof. exact exr_setup. Qed.
Print Assumptions C15_onstore_str_run_example_setup.

(* by computation: a genesis document with two streams; seven messages (create, claim, top-up, a refused claim, cancel,
   a refused and an accepted UpdateParams); the store before and after; export; re-import over the final bank at
   another clock: the very same bytes, the same document *)
Theorem C15_onstore_str_run_example :
  S.go_InitGenesis (empty_sworld exg_emb (exr_t 1000) exr_bank) exr_doc = Ok (exr_ws0, tt) /\
  fst (s_run exr_ws0 exr_hist) =
    [ Ok (KRStr RNone);
      Ok (KRStr (RClaim {| cr_receiver := 198; cr_fee := 2; cr_total := 200; cr_remaining := 300 |}));
      Ok (KRStr (RTopUp 600 (exr_t 1080)));
      Err ERR_INVALID_DATA;
      Ok (KRStr RNone);
      Err 42;
      Ok KRParams ] /\
  map (fun kv => length (fst kv)) (sw_store exr_ws0) = [1; 5; 24]%nat /\
  map (fun kv => length (fst kv)) (sw_store exr_ws1) = [1; 5; 36]%nat /\
  S.go_ExportGenesis exg_unemb exr_ws1 = Ok exr_doc1 /\
  (exists ws2, S.go_InitGenesis (empty_sworld exg_emb 7 (sw_bank exr_ws1)) exr_doc1 = Ok (ws2, tt) /\
               sw_store ws2 = sw_store exr_ws1 /\ S.go_ExportGenesis exg_unemb ws2 = Ok exr_doc1).
Proof. exact os_genesis_run_ex. Qed.
Print Assumptions C15_onstore_str_run_example.

(* the same through the theorems: every hypothesis above is met by this run *)
Theorem C15_onstore_str_run_example_by_theorem :
  doc_dom exg_dom exr_doc /\
  str_params_valid (Params_ValidatorFee (GenesisState_Params exr_doc)) = true /\
  Forall (fun tm => kmsg_dom exg_dom (snd tm)) exr_hist /\
  str_inv (exr_t 1000) exr_bank (import_go exr_doc (fresh_str 0)) /\ bank_wf exr_bank /\
  ktimes_sorted (exr_t 1000) exr_hist /\
  store_ok (sw_store exr_ws0) /\ store_ok (sw_store exr_ws1) /\
  (forall now' b' ws2, S.go_InitGenesis (empty_sworld exg_emb now' b') exr_doc1 = Ok (ws2, tt) ->
     sw_store ws2 = sw_store exr_ws1 /\ S.go_ExportGenesis exg_unemb ws2 = Ok exr_doc1) /\
  (forall now', exists ws2, S.go_InitGenesis (empty_sworld exg_emb now' (sw_bank exr_ws1)) exr_doc1 = Ok (ws2, tt) /\
     sw_store ws2 = sw_store exr_ws1 /\ sw_bank ws2 = sw_bank exr_ws1 /\ sw_now ws2 = now' /\
     S.go_ExportGenesis exg_unemb ws2 = Ok exr_doc1).
Proof. exact os_genesis_run_ex_by_theorem. Qed.
Print Assumptions C15_onstore_str_run_example_by_theorem.

(* the addresses of the history must be in dom: an embedding as required ON dom = 0..255 (one byte per account) that
   sends account 300 to two bytes unemb does not read back.  A stream created by 300 sits under a key the exported
   document does not spell; the re-import goes through and builds OTHER bytes.  (The invariants store_ok / module_keys
   hold of this run too: they need no hypothesis on the messages.) *)
Theorem C15_onstore_str_run_roundtrip_dom_refuted :
  (forall a, exn_emb a = if a <? 256 then [Z.to_N a] else [1%N; 2%N]) /\
  exn_bank = {| bal := [((300, 0), 200000)]; supply := [(0, 200000)] |} /\
  exn_ws0 = mk_sworld exn_emb (exr_t 1000) exn_bank [(stream_ParamsKey, SV_Params exs_params)] /\
  exn_hist = [ (exr_t 1010, KStr (SCreate 300 10 0 100000 100)) ] /\
  (forall a, exg_dom a -> (1 <= length (exn_emb a) <= 255)%nat) /\
  (forall a b, exg_dom a -> exg_dom b -> exn_emb a = exn_emb b -> a = b) /\
  (forall a, exg_dom a -> exg_unemb (exn_emb a) = a) /\
  Rw exg_dom exn_emb (fresh_kworld (exr_t 1000) exn_bank 10000000000000000) exn_ws0 /\
  store_ok (sw_store exn_ws0) /\
  ~ Forall (fun tm => kmsg_dom exg_dom (snd tm)) exn_hist /\
  let ws1 := snd (s_run exn_ws0 exn_hist) in
  fst (s_run exn_ws0 exn_hist) = [Ok (KRStr RNone)] /\
  exists d ws2, S.go_ExportGenesis exg_unemb ws1 = Ok d /\
    S.go_InitGenesis (empty_sworld exn_emb 7 (sw_bank ws1)) d = Ok (ws2, tt) /\
    sw_store ws2 <> sw_store ws1.
Proof. exact os_run_roundtrip_dom_refuted_spelled. Qed.
Print Assumptions C15_onstore_str_run_roundtrip_dom_refuted.

(* bank_wf is needed for the re-import to go through: a second row for (module account, denomination 0) behind the
   first.  [balance] reads the first row - the escrow is backed, the state is inside the invariant and the store is
   the genesis store of the run above; GetAllBalances lists both rows and InitGenesis' comparison of the module's
   holdings with its balances fails: the document the store exports does not import over this bank *)
Theorem C15_onstore_str_export_imports_wf_refuted :
  exw_bank = {| bal := [((STREAM_MACC, 1), 70); ((11, 0), 1000); ((13, 0), 200000); ((STREAM_MACC, 0), 500); ((STREAM_MACC, 0), 7)];
                supply := [(0, 201500); (1, 70)] |} /\
  exw_w = mk_kworld (exr_t 1000) exw_bank (import_go exr_doc (fresh_str 0)) /\
  exw_ws = mk_sworld exg_emb (exr_t 1000) exw_bank (sw_store exr_ws0) /\
  Rw exg_dom exg_emb exw_w exw_ws /\ str_inv (exr_t 1000) (kw_bank exw_w) (kw_str exw_w) /\ store_ok (sw_store exw_ws) /\
  ~ bank_wf (sw_bank exw_ws) /\
  S.go_ExportGenesis exg_unemb exw_ws = Ok exr_doc /\
  S.go_InitGenesis (empty_sworld exg_emb 7 (sw_bank exw_ws)) exr_doc = Panic stream_PANIC.
Proof. exact os_export_imports_wf_refuted_spelled. Qed.
Print Assumptions C15_onstore_str_export_imports_wf_refuted.
