(* C01, generated application: the node that runs the code GENERATED from /repo is the node of the model, and is a
   deterministic, restart-safe replicated state machine.

   model/GeneratedApp.v assembles an application (go_validate_basic, go_exec_msg, go_ante, go_deliver_tx, go_check_tx,
   go_begin_block, go_end_block, go_node_step, go_node_run) whose every module-level step is the code generated on each
   run from /repo (message servers, ValidateBasic, ante decorators, block hooks, parameter updates of x/enterprise,
   x/wrkchain, x/beacon, x/stream).  proofs/GeneratedAppEq.v proves it equal to the hand-written application of
   model/App.v, step by step and then on whole node histories (the capstone, C01_generatedapp_node_run_eq); this file
   re-exports those equalities, the preservation of the invariant they need, a concrete history on which every hypothesis
   holds, four examples showing that the side conditions cannot be dropped, and the crash / replay / determinism theorems
   of props/C01.v for the generated node (proofs/GeneratedAppTransport.v).  go_node_trace (proofs/GeneratedAppEq.v) is
   go_node_run with the result of every step kept, as node_trace (proofs/AppCrashProofs.v) is for node_run.

   Hypotheses (all defined in proofs/GeneratedAppEq.v unless said otherwise):
     gen_inv B a      app_inv a (proofs/AppInv.v) and gen_extra B a: the invariants of the two registries, the machine-integer
                      bounds the generated code relies on (registry and order counters and the number of decisions of an
                      order at most B, the registry fees below 2^63, len(signers) an int);
     gnode_inv B n    gen_inv B of the committed, check and (if any) deliver state of the node n;
     msg_wf, tx_wf, op_wf, hist_wf, begin_wf, end_wf   the well-formedness conditions of proofs/AppInv.v;
     gmsg_ok m        what msg_wf does not say of the wire format: a WRKChain record carries five hashes, a BEACON record
                      one; a parameter update has non-negative unsigned fields, and, when its authority is governance,
                      fees below 2^63, a maximum limit below 2^64 and len(signers) an int; at every authz depth;
     gmsg_nz m        a BEACON record's submit time is not zero at any depth (ValidateBasic, which runs first, ensures it);
     gop_ok o / ghist_ok h    gmsg_ok of every message carried by the operation o / by every operation of the history h;
     leaves m, leaves_l ms, op_size o, hist_size h     the number of leaf messages of a message, of a list of messages, of a
                      delivered transaction (0 for any other operation), of all delivered transactions of a history;
     B + hist_size h < two63  (resp. B + leaves_l (tx_msgs t), B + op_size o): no counter can reach 2^63 along the
                      history (each leaf message moves a counter by at most one). *)
From Coq Require Import ZArith Lia List String Bool.
From MC Require Import lib.Prelude lib.AMap lib.GoSdk model.Bank model.Stream model.StreamSpec model.Registry
  model.RegistrySpec model.Enterprise model.EnterpriseSpec model.App model.AppSpec model.GeneratedApp.
From MC Require Import proofs.BankProofs proofs.AppFrame proofs.AppParamsProofs proofs.AppAuthProofs proofs.AppFeeProofs
  proofs.AppInv proofs.AppLockedProofs proofs.AppSupplyProofs proofs.AppCrashProofs.
From MC Require GeneratedWrkchainKeeper model.WrkchainAnteGenSpec.
From MC Require Import proofs.GeneratedAppEq proofs.GeneratedAppTransport.
Import ListNotations.
Local Open Scope Z_scope.

(* ================================================================================================ *)
(* 1. the capstone: the two nodes agree on every well-formed history                                *)
(* ================================================================================================ *)

Theorem C01_generatedapp_node_run_eq : forall B g h,
  gen_inv B g -> hist_wf (node_init g) h -> ghist_ok h -> B + hist_size h < two63 ->
  go_node_run (node_init g) h = node_run (node_init g) h.
Proof. exact gen_node_run_eq. Qed.
Print Assumptions C01_generatedapp_node_run_eq.

(* the same from any node whose three states satisfy the invariant *)
Theorem C01_generatedapp_node_run_eq_from : forall B n h,
  gnode_inv B n -> hist_wf n h -> ghist_ok h -> B + hist_size h < two63 ->
  go_node_run n h = node_run n h.
Proof. exact gen_node_run_eq_from. Qed.
Print Assumptions C01_generatedapp_node_run_eq_from.

(* the result of every operation is the same too *)
Theorem C01_generatedapp_node_trace_eq : forall B g h,
  gen_inv B g -> hist_wf (node_init g) h -> ghist_ok h -> B + hist_size h < two63 ->
  go_node_trace (node_init g) h = node_trace (node_init g) h.
Proof. exact gen_node_trace_eq. Qed.
Print Assumptions C01_generatedapp_node_trace_eq.

Theorem C01_generatedapp_node_trace_eq_from : forall h B n,
  gnode_inv B n -> hist_wf n h -> ghist_ok h -> B + hist_size h < two63 ->
  go_node_trace n h = node_trace n h.
Proof. exact gen_node_trace_eq_from. Qed.
Print Assumptions C01_generatedapp_node_trace_eq_from.

(* go_node_trace is go_node_run with the step results kept *)
Theorem C01_generatedapp_trace_is_run : forall h n, option_map fst (go_node_trace n h) = go_node_run n h.
Proof. exact go_node_trace_run. Qed.
Print Assumptions C01_generatedapp_trace_is_run.

(* one operation (BeginBlock, DeliverTx, CheckTx, EndBlock, Commit, crash) *)
Theorem C01_generatedapp_node_step_eq : forall B n o,
  gnode_inv B n -> op_wf n o -> gop_ok o -> B + op_size o < two63 -> go_node_step n o = node_step n o.
Proof. exact gen_node_step_eq. Qed.
Print Assumptions C01_generatedapp_node_step_eq.

(* ================================================================================================ *)
(* 2. the ABCI entry points and their stages                                                        *)
(* ================================================================================================ *)

Theorem C01_generatedapp_deliver_tx_eq : forall B a t,
  tx_wf t -> Forall gmsg_ok (tx_msgs t) -> gen_inv B a -> B + leaves_l (tx_msgs t) < two63 ->
  go_deliver_tx a t = deliver_tx a t.
Proof. exact gen_app_deliver_tx_eq. Qed.
Print Assumptions C01_generatedapp_deliver_tx_eq.

Theorem C01_generatedapp_check_tx_eq : forall B a t,
  tx_wf t -> Forall gmsg_ok (tx_msgs t) -> gen_inv B a -> go_check_tx a t = check_tx a t.
Proof. exact gen_app_check_tx_eq. Qed.
Print Assumptions C01_generatedapp_check_tx_eq.

Theorem C01_generatedapp_begin_block_eq : forall B a now,
  gen_inv B a -> B < two63 -> 0 <= now -> unix now < two63 ->
  go_begin_block a now = begin_block a now.
Proof. exact gen_app_begin_block_eq. Qed.
Print Assumptions C01_generatedapp_begin_block_eq.

(* proposals made of parameter updates (what governance executes in the model's histories): no hypothesis on the state *)
Theorem C01_generatedapp_end_block_eq : forall a props,
  (forall ms m, In ms props -> In m ms -> is_param_update m = true) ->
  go_end_block a props = end_block a props.
Proof. exact gen_app_end_block_eq. Qed.
Print Assumptions C01_generatedapp_end_block_eq.

(* ValidateBasic of one message (any authz depth) and of a transaction *)
Theorem C01_generatedapp_validate_basic_eq : forall f m,
  msg_wf m -> gmsg_ok m -> go_validate_basic f m = validate_basic f m.
Proof. exact gen_app_validate_basic_eq. Qed.
Print Assumptions C01_generatedapp_validate_basic_eq.

Theorem C01_generatedapp_validate_all_eq : forall t, Forall msg_wf (tx_msgs t) -> Forall gmsg_ok (tx_msgs t) ->
  go_validate_all t = validate_all t.
Proof. exact gen_app_validate_all_eq. Qed.
Print Assumptions C01_generatedapp_validate_all_eq.

(* the ante chain, in check mode and in deliver mode (where the fee check is not run: app_inv suffices) *)
Theorem C01_generatedapp_ante_eq : forall check B a t,
  gen_inv B a -> Forall msg_wf (tx_msgs t) -> go_ante check a t = ante check a t.
Proof. exact gen_app_ante_eq. Qed.
Print Assumptions C01_generatedapp_ante_eq.

Theorem C01_generatedapp_ante_deliver_eq : forall a t, app_inv a -> go_ante false a t = ante false a t.
Proof. exact gen_app_ante_deliver_eq. Qed.
Print Assumptions C01_generatedapp_ante_deliver_eq.

(* the message servers, authz nesting included; all messages of a transaction *)
Theorem C01_generatedapp_exec_msg_eq : forall f B a m,
  msg_wf m -> gmsg_ok m -> gmsg_nz m -> gen_inv B a -> B + leaves m < two63 ->
  go_exec_msg f a m = exec_msg f a m.
Proof. exact gen_app_exec_msg_eq. Qed.
Print Assumptions C01_generatedapp_exec_msg_eq.

Theorem C01_generatedapp_exec_all_eq : forall B a t,
  tx_wf t -> Forall gmsg_ok (tx_msgs t) -> validate_all t = Ok tt -> gen_inv B a -> B + leaves_l (tx_msgs t) < two63 ->
  go_exec_all a t = exec_all a t.
Proof. exact gen_app_exec_all_eq. Qed.
Print Assumptions C01_generatedapp_exec_all_eq.

(* ================================================================================================ *)
(* 3. the invariant of the equality is kept by every step, B growing by the number of leaf messages *)
(* ================================================================================================ *)

Theorem C01_generatedapp_inv_exec_msg : forall f B a m a',
  msg_wf m -> gmsg_ok m -> gmsg_nz m -> gen_inv B a -> B + leaves m < two63 ->
  exec_msg f a m = Ok a' -> gen_inv (B + leaves m) a'.
Proof. exact gen_inv_exec_msg. Qed.
Print Assumptions C01_generatedapp_inv_exec_msg.

Theorem C01_generatedapp_inv_deliver_tx : forall B a t a' r,
  tx_wf t -> Forall gmsg_ok (tx_msgs t) -> gen_inv B a -> B + leaves_l (tx_msgs t) < two63 ->
  deliver_tx a t = (a', r) -> gen_inv (B + leaves_l (tx_msgs t)) a'.
Proof. exact gen_inv_deliver_tx. Qed.
Print Assumptions C01_generatedapp_inv_deliver_tx.

Theorem C01_generatedapp_inv_check_tx : forall B a t a' r,
  tx_wf t -> Forall gmsg_ok (tx_msgs t) -> gen_inv B a -> check_tx a t = (a', r) -> gen_inv B a'.
Proof. exact gen_inv_check_tx. Qed.
Print Assumptions C01_generatedapp_inv_check_tx.

Theorem C01_generatedapp_inv_begin_block : forall B a now a',
  begin_block a now = Some a' -> begin_wf a now -> gen_inv B a -> gen_inv B a'.
Proof. exact gen_inv_begin_block. Qed.
Print Assumptions C01_generatedapp_inv_begin_block.

Theorem C01_generatedapp_inv_end_block : forall B a props,
  end_wf a props -> (forall ms m, In ms props -> In m ms -> gmsg_ok m) -> gen_inv B a -> gen_inv B (end_block a props).
Proof. exact gen_inv_end_block. Qed.
Print Assumptions C01_generatedapp_inv_end_block.

Theorem C01_generatedapp_node_inv_step : forall B n o n' r,
  gnode_inv B n -> op_wf n o -> gop_ok o -> B + op_size o < two63 ->
  node_step n o = Some (n', r) -> gnode_inv (B + op_size o) n'.
Proof. exact gnode_inv_step. Qed.
Print Assumptions C01_generatedapp_node_inv_step.

Theorem C01_generatedapp_node_inv_run : forall B n h n',
  gnode_inv B n -> hist_wf n h -> ghist_ok h -> B + hist_size h < two63 ->
  node_run n h = Some n' -> gnode_inv (B + hist_size h) n'.
Proof. exact gnode_inv_run. Qed.
Print Assumptions C01_generatedapp_node_inv_run.

(* the generated node keeps it as well *)
Theorem C01_generatedapp_node_inv_go_run : forall B n h n',
  gnode_inv B n -> hist_wf n h -> ghist_ok h -> B + hist_size h < two63 ->
  go_node_run n h = Some n' -> gnode_inv (B + hist_size h) n'.
Proof. exact gnode_inv_go_run. Qed.
Print Assumptions C01_generatedapp_node_inv_go_run.

(* ================================================================================================ *)
(* 4. crash / replay and determinism of the generated node (props/C01.v, for go_node_run)           *)
(* ================================================================================================ *)

(* ---- crash anywhere before the Commit of a block, restart, replay the block ---- *)
Theorem C01_generatedapp_crash_replay : forall B n now txs props pre suf n1,
  gnode_inv B n ->
  hist_wf n (pre ++ OpCrash :: block_ops now txs props) -> hist_wf n (block_ops now txs props) ->
  ghist_ok pre -> ghist_ok (block_ops now txs props) ->
  B + hist_size pre + hist_size (block_ops now txs props) < two63 ->
  n_deliver n = None ->
  pre ++ suf = block_body now txs props ->
  go_node_run n pre = Some n1 ->
  exists n2,
    go_node_step n1 OpCrash = Some (n2, None) /\
    n_committed n2 = n_committed n /\ n_deliver n2 = None /\ n_check n2 = n_committed n /\
    option_map n_committed (go_node_run n2 (block_ops now txs props)) =
    option_map n_committed (go_node_run n (block_ops now txs props)) /\
    option_map n_deliver (go_node_run n2 (block_ops now txs props)) =
    option_map n_deliver (go_node_run n (block_ops now txs props)) /\
    option_map snd (go_node_trace n2 (block_ops now txs props)) =
    option_map snd (go_node_trace n (block_ops now txs props)).
Proof. exact gen_crash_replay. Qed.
Print Assumptions C01_generatedapp_crash_replay.

Theorem C01_generatedapp_crash_replay_history : forall B n now txs props pre suf,
  gnode_inv B n ->
  hist_wf n (pre ++ OpCrash :: block_ops now txs props) -> hist_wf n (block_ops now txs props) ->
  ghist_ok pre -> ghist_ok (block_ops now txs props) ->
  B + hist_size pre + hist_size (block_ops now txs props) < two63 ->
  n_deliver n = None -> pre ++ suf = block_body now txs props ->
  go_node_run n pre <> None ->
  option_map n_committed (go_node_run n (pre ++ OpCrash :: block_ops now txs props)) =
  option_map n_committed (go_node_run n (block_ops now txs props)).
Proof. exact gen_crash_replay_history. Qed.
Print Assumptions C01_generatedapp_crash_replay_history.

(* ---- crashing right after Commit loses nothing (no hypothesis: Commit and crash run no generated code) ---- *)
Theorem C01_generatedapp_crash_after_commit : forall n n1 n2,
  go_node_step n OpCommit = Some (n1, None) -> go_node_step n1 OpCrash = Some (n2, None) ->
  n_committed n2 = n_committed n1 /\ n_deliver n2 = None /\ n_check n2 = n_committed n1 /\
  n2 = n1 /\ n_deliver n = Some (n_committed n1).
Proof. exact gen_crash_after_commit. Qed.
Print Assumptions C01_generatedapp_crash_after_commit.

Theorem C01_generatedapp_crash_between_blocks : forall n n2,
  n_deliver n = None -> go_node_step n OpCrash = Some (n2, None) ->
  n_committed n2 = n_committed n /\ n_deliver n2 = n_deliver n.
Proof. exact gen_crash_between_blocks. Qed.
Print Assumptions C01_generatedapp_crash_between_blocks.

(* ---- the committed state and every result after a block depend only on (committed state, block) ---- *)
Theorem C01_generatedapp_results_function_of_inputs : forall B n n' now txs props,
  gnode_inv B n -> gnode_inv B n' ->
  hist_wf n (block_ops now txs props) -> hist_wf n' (block_ops now txs props) ->
  ghist_ok (block_ops now txs props) -> B + hist_size (block_ops now txs props) < two63 ->
  n_committed n = n_committed n' -> n_deliver n = None -> n_deliver n' = None ->
  option_map n_committed (go_node_run n (block_ops now txs props)) =
  option_map n_committed (go_node_run n' (block_ops now txs props)) /\
  option_map n_deliver (go_node_run n (block_ops now txs props)) =
  option_map n_deliver (go_node_run n' (block_ops now txs props)) /\
  option_map snd (go_node_trace n (block_ops now txs props)) =
  option_map snd (go_node_trace n' (block_ops now txs props)).
Proof. exact gen_results_function_of_inputs. Qed.
Print Assumptions C01_generatedapp_results_function_of_inputs.

(* ================================================================================================ *)
(* 5. the hypotheses are satisfiable: the genesis ex_g (proofs/AppInv.v) and the history gx_hist     *)
(*    (proofs/GeneratedAppEq.v: five blocks; orders raised, accepted, completed; both registries;     *)
(*    a stream and a claim; parameter updates by governance; nested authz; a fee grant; a panicking   *)
(*    fee check; a bad signature; a crash before a commit)                                            *)
(* ================================================================================================ *)

Example C01_generatedapp_ex_hypotheses :
  gen_inv 1 ex_g /\ hist_wf (node_init ex_g) gx_hist /\ ghist_ok gx_hist /\ 1 + hist_size gx_hist < two63.
Proof. exact (conj ex_g_gen_inv (conj gx_hist_wf_ok (conj gx_hist_ok gx_hist_size))). Qed.
Print Assumptions C01_generatedapp_ex_hypotheses.

Example C01_generatedapp_ex_node_run_eq :
  go_node_run (node_init ex_g) gx_hist = node_run (node_init ex_g) gx_hist.
Proof. exact gen_node_run_eq_ex. Qed.
Print Assumptions C01_generatedapp_ex_node_run_eq.

(* the history runs to its end, most transactions succeed, and the failures are of every kind *)
Example C01_generatedapp_ex_results :
  option_map snd (node_trace (node_init ex_g) gx_hist) =
  Some [None; Some TxOk; Some TxOk; None; None; None; None; None; None;
        Some TxOk; Some TxOk; Some TxOk; Some TxOk; Some TxOk; Some (TxFailed ERR_GOV_AUTH); None; None; None;
        Some TxOk; Some TxOk; Some TxOk; Some TxOk; Some TxOk; Some TxOk; Some TxOk; Some TxOk; Some TxOk; Some TxOk;
        Some (TxPanicked 1 PANIC_NEGFEE); Some (TxRejected ERR_BAD_SIG); None; None; Some TxOk; None; None].
Proof. exact gx_hist_results. Qed.
Print Assumptions C01_generatedapp_ex_results.

(* the same equality, results included, by running the generated code itself (no theorem involved) *)
Example C01_generatedapp_ex_node_trace_eq_computed :
  go_node_trace (node_init ex_g) gx_hist = node_trace (node_init ex_g) gx_hist.
Proof. exact gen_node_trace_eq_ex_computed. Qed.
Print Assumptions C01_generatedapp_ex_node_trace_eq_computed.

(* ================================================================================================ *)
(* 6. the side conditions cannot be dropped                                                          *)
(* ================================================================================================ *)

(* the scenarios of (b), (c), (d) below *)
Example C01_generatedapp_refuted_scenarios :
  rx_rp = {| rp_fee_register := two63; rp_fee_record := 1; rp_fee_purchase := 5; rp_denom := NUND;
             rp_default_limit := 100; rp_max_limit := 1000 |} /\
  rx_hist = [OpBegin (ex_t 5); OpEnd [[MUpdParams GOV_MACC (UWrk rx_rp)]]; OpCommit;
             OpCheck (ex_tx [MWrk (RRegister 1 "m" "n" "g" "t")] [(NUND, two63)])] /\
  six_hist = [OpBegin (ex_t 5); OpDeliver ex_tx_register;
              OpDeliver (ex_tx [MWrk (RRecord 1 1 5 ["a"; "b"; "c"; "d"; "e"; "f"]%string)] [(NUND, 1)])] /\
  big_g = with_wrk ex_g {| r_params := ex_rp; r_next := two64 - 1; r_regs := []; r_limits := []; r_recs := [] |} /\
  big_hist = [OpBegin (ex_t 5); OpDeliver ex_tx_register; OpDeliver ex_tx_register] /\
  gx_tx_huge = ex_tx [MWrk (RPurchase 1 1 two63)] [(NUND, 50)].
Proof. exact (conj eq_refl (conj eq_refl (conj eq_refl (conj eq_refl (conj eq_refl eq_refl))))). Qed.
Print Assumptions C01_generatedapp_refuted_scenarios.

(* (a) the glue's as_fee_panic (model/GeneratedApp.v): on a purchase of 2^63 slots the raw generated fee check and the
   model's both panic, with different codes *)
Example C01_generatedapp_checkFees_panic_code_refuted :
  GeneratedWrkchainKeeper.go_checkWrkchainFees (wrk_world ex_g) (WrkchainAnteGenSpec.gotx_of gx_tx_huge)
    = Panic GO_PANIC_NEGCOIN /\
  check_fees pick_wrk (a_wrk ex_g) gx_tx_huge = Panic PANIC_NEGFEE /\
  GO_PANIC_NEGCOIN <> PANIC_NEGFEE.
Proof. exact gen_checkFees_panic_code_refuted. Qed.
Print Assumptions C01_generatedapp_checkFees_panic_code_refuted.

(* (b) upd_fit (in gmsg_ok): governance sets the WRKChain registration fee to 2^63 (a valid uint64; Params.Validate accepts
   it); the generated decorator converts it to a negative int64 and panics in sdk.NewCoin, the model accepts the exact
   fee.  Every other hypothesis of the capstone holds. *)
Example C01_generatedapp_without_fees_fit_refuted :
  gen_inv 1 (ex_g_of two64) /\ hist_wf (node_init (ex_g_of two64)) rx_hist /\ 1 + hist_size rx_hist < two63 /\
  upd_valid (UWrk rx_rp) = true /\ upd_range (UWrk rx_rp) /\ ~ upd_fit (UWrk rx_rp) /\
  go_node_run (node_init (ex_g_of two64)) rx_hist <> node_run (node_init (ex_g_of two64)) rx_hist /\
  option_map snd (go_node_trace (node_init (ex_g_of two64)) rx_hist) = Some [None; None; None; Some (TxPanicked 1 PANIC_NEGFEE)] /\
  option_map snd (node_trace (node_init (ex_g_of two64)) rx_hist) = Some [None; None; None; Some TxOk].
Proof. exact gen_node_run_eq_without_fees_fit_refuted. Qed.
Print Assumptions C01_generatedapp_without_fees_fit_refuted.

(* (c) gmsg_ok: a WRKChain record with six hashes (the Go message has five fields; the model's record keeps the list) *)
Example C01_generatedapp_without_five_hashes_refuted :
  gen_inv 1 ex_g /\ hist_wf (node_init ex_g) six_hist /\ 1 + hist_size six_hist < two63 /\
  go_node_run (node_init ex_g) six_hist <> node_run (node_init ex_g) six_hist.
Proof. exact gen_node_run_eq_without_five_hashes_refuted. Qed.
Print Assumptions C01_generatedapp_without_five_hashes_refuted.

(* (d) the bound on the counters: from a registry whose next id is 2^64 - 1 the second registration gets id 2^64 in the
   model and id 0 in uint64 *)
Example C01_generatedapp_without_counter_bound_refuted :
  (forall B, gen_inv B big_g -> two64 - 1 <= B) /\
  go_node_run (node_init big_g) big_hist <> node_run (node_init big_g) big_hist.
Proof. exact gen_node_run_eq_without_counter_bound_refuted. Qed.
Print Assumptions C01_generatedapp_without_counter_bound_refuted.
