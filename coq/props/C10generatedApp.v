(* C10, generated application: the application-level C10 theorems (the stream escrow account holds exactly the remaining
   deposits of all streams in every state of every well-formed node history; no transaction without a stream message and
   no block hook moves its funds) hold of the application that runs the GENERATED code.
   The application assembled from the code generated from /repo (model/GeneratedApp.v: go_deliver_tx, go_check_tx,
   go_begin_block, go_end_block, go_ante, go_node_step, go_node_run) is the hand-written application of model/App.v under
   the hypotheses below (proofs/GeneratedAppEq.v; props/C01generatedApp.v); each theorem here is that equality followed by
   the theorem about the model (proofs/GeneratedAppTransport.v).
   Hypotheses (proofs/GeneratedAppEq.v; app_inv, tx_wf, op_wf, hist_wf, begin_wf, end_wf: proofs/AppInv.v):
     gen_inv B a     app_inv a and the registries' invariants and the machine-integer bounds the generated code relies on
                     (counters and numbers of decisions at most B, registry fees below 2^63, len(signers) an int);
     gnode_inv B n   gen_inv B of the committed, check and (if any) deliver state of the node n;
     gmsg_ok m       a WRKChain record carries five hashes, a BEACON record one; the fields of a parameter update are in
                     range (for governance: fees below 2^63, maximum limit below 2^64); at every authz depth;
     gop_ok o, ghist_ok h   gmsg_ok of every message of the operation o / of every operation of the history h;
     B + hist_size h < two63 (one transaction: B + leaves_l (tx_msgs t) < two63; BeginBlock: B < two63)
                     hist_size h = number of leaf messages of the delivered transactions of h: no counter reaches 2^63.
   no_str m: m contains no stream message at any depth (proofs/AppInv.v). *)
From Coq Require Import ZArith Lia List String Bool.
From MC Require Import lib.Prelude lib.AMap lib.GoSdk model.Bank model.Stream model.StreamSpec model.Registry
  model.RegistrySpec model.Enterprise model.EnterpriseSpec model.App model.AppSpec model.GeneratedApp.
From MC Require Import proofs.BankProofs proofs.AppFrame proofs.AppParamsProofs proofs.AppAuthProofs proofs.AppFeeProofs
  proofs.AppInv proofs.AppLockedProofs proofs.AppSupplyProofs proofs.AppCrashProofs.
From MC Require Import proofs.GeneratedAppEq proofs.GeneratedAppTransport.
Import ListNotations.
Local Open Scope Z_scope.

(* ---- a transaction without stream messages, whatever its outcome ---- *)
Theorem C10_generatedapp_tx_without_stream_keeps_escrow : forall B a t a' r,
  gen_inv B a -> tx_wf t -> Forall gmsg_ok (tx_msgs t) -> B + leaves_l (tx_msgs t) < two63 ->
  go_deliver_tx a t = (a', r) ->
  forallb no_str (tx_msgs t) = true ->
  forall d, balance (a_bank a') STREAM_MACC d = balance (a_bank a) STREAM_MACC d.
Proof. exact gen_tx_without_stream_keeps_escrow. Qed.
Print Assumptions C10_generatedapp_tx_without_stream_keeps_escrow.

(* ---- the generated BeginBlock (order completion) never touches it ---- *)
Theorem C10_generatedapp_begin_block_keeps_stream_escrow : forall B a now a',
  gen_inv B a -> B < two63 -> begin_wf a now -> go_begin_block a now = Some a' ->
  forall d, balance (a_bank a') STREAM_MACC d = balance (a_bank a) STREAM_MACC d.
Proof. exact gen_begin_block_keeps_stream_escrow. Qed.
Print Assumptions C10_generatedapp_begin_block_keeps_stream_escrow.

(* ---- escrow backing in all three states of the generated node along every well-formed history ---- *)
Theorem C10_generatedapp_escrow_backed_reachable : forall B g h n,
  gen_inv B g -> hist_wf (node_init g) h -> ghist_ok h -> B + hist_size h < two63 ->
  go_node_run (node_init g) h = Some n ->
  (forall d, balance (a_bank (n_committed n)) STREAM_MACC d = total_deposits (a_str (n_committed n)) d) /\
  (forall d, balance (a_bank (n_check n)) STREAM_MACC d = total_deposits (a_str (n_check n)) d) /\
  match n_deliver n with
  | Some a => forall d, balance (a_bank a) STREAM_MACC d = total_deposits (a_str a) d
  | None => True
  end.
Proof. exact gen_escrow_backed_reachable_app. Qed.
Print Assumptions C10_generatedapp_escrow_backed_reachable.
