(* C15, link to the source: InitGenesis / ExportGenesis of /repo/x/enterprise/genesis.go as generated on every run
   (coq/GeneratedEnterpriseKeeper.v: go_InitGenesis, go_ExportGenesis) against the model of genesis export / import
   (model/Genesis.v: export_ent, import_ent).  The generated document is read as the model's by [gen_ent_of_go], a fresh
   store is [fresh_eworld] (model/EnterpriseGenesisGenSpec.v).
   Proofs: proofs/GeneratedEnterpriseGenesisEq.v.

   Export: no hypothesis.
   Import, hypotheses (each shown necessary by an example below, C15_generated_ent_*_needed):
     ent_params_valid ..     InitGenesis drops the error of SetParams; with invalid parameters the Go code keeps the old
                             parameters and goes on, the model refuses (x/enterprise's ValidateGenesis rejects such a
                             document earlier);
     Forall wl_ok ..         no whitelist entry is an undecodable address: InitGenesis panics on one, the model stores it;
     Forall po_status_ok ..  every purchase order has a status in 1..4: SetPurchaseOrder refuses any other and
                             InitGenesis panics, the model stores the order;
     Forall locked_ok ..     no locked amount is negative: SetLockedUndForAccount refuses one and InitGenesis panics, the
                             model stores it;
     bank_wf b               one row per (account, denomination): the model reads [balance] (the first row),
                             GetAllBalances lists every positive row;
     escrow_nonneg b         no row of the module account is negative: GetAllBalances lists the positive rows, the model
                             asks every row in another denomination to be zero.
   The three hypotheses on the document are only needed to exclude that the Go code panics where the model accepts:
   whenever the model refuses the Go code panics, and whenever the Go code succeeds the model accepts with the same store
   (C15_generated_ent_import_refused, C15_generated_ent_import_ok).
   Not needed: purchase orders keyed by their id, duplicate-free ids / owners in the document (the interleaved writes of
   the Go loops and the separate folds of the model build the same association lists and the same queues on every
   document), well-formed denominations, a non-negative total locked (a negative one is refused by both sides). *)
From MC Require Import lib.Prelude lib.AMap lib.GoSdk GeneratedEnterpriseTypes model.Bank model.Enterprise model.EnterpriseSpec
  model.Genesis model.EnterpriseKeeperPrims GeneratedEnterpriseKeeper model.EnterpriseGenesisGenSpec.
From MC Require Import proofs.BankProofs proofs.EnterpriseProofs proofs.GenesisProofs proofs.GeneratedEnterpriseGenesisEq.
Local Open Scope Z_scope.

(* ---------- export ---------- *)
Theorem C15_generated_ent_export_is_model : forall w,
  exists g, go_ExportGenesis w = Ok g /\ gen_ent_of_go g = export_ent (ew_ent w).
Proof. exact gen_ent_ExportGenesis_eq. Qed.
Print Assumptions C15_generated_ent_export_is_model.

(* the document itself, on every world (never an error, never a panic) *)
Theorem C15_generated_ent_export_document : forall w,
  go_ExportGenesis w =
    Ok (mk_go_GenesisState (params_to_go (e_params (ew_ent w))) (e_next (ew_ent w))
          (map (fun kv => to_go_po (snd kv)) (e_pos (ew_ent w)))
          (map (fun kv => mk_go_LockedUnd (fst kv) (snd kv)) (e_locked (ew_ent w)))
          (total_locked (ew_ent w)) (e_wl (ew_ent w))
          (map (fun kv => mk_go_SpentEFUND (fst kv) (snd kv)) (e_spent (ew_ent w)))
          (total_spent (ew_ent w))).
Proof. exact gen_ent_ExportGenesis_run. Qed.
Print Assumptions C15_generated_ent_export_document.

(* ---------- import ---------- *)
Theorem C15_generated_ent_import_is_model : forall now b p0 g,
  ent_params_valid (params_of_go (GenesisState_Params g)) = true ->
  Forall wl_ok (GenesisState_Whitelist g) ->
  Forall po_status_ok (GenesisState_PurchaseOrders g) ->
  Forall locked_ok (GenesisState_LockedUnd g) ->
  bank_wf b -> escrow_nonneg b ->
  match import_ent b (gen_ent_of_go g) with
  | Some s' => go_InitGenesis (fresh_eworld now b p0) g = Ok (with_ent (fresh_eworld now b p0) s', tt)
  | None => exists c, go_InitGenesis (fresh_eworld now b p0) g = Panic c
  end.
Proof. exact gen_ent_InitGenesis_eq. Qed.
Print Assumptions C15_generated_ent_import_is_model.

(* the model refuses: the generated code panics, whatever the document *)
Theorem C15_generated_ent_import_refused : forall now b p0 g,
  ent_params_valid (params_of_go (GenesisState_Params g)) = true ->
  bank_wf b -> escrow_nonneg b ->
  import_ent b (gen_ent_of_go g) = None ->
  exists c, go_InitGenesis (fresh_eworld now b p0) g = Panic c.
Proof. exact gen_ent_InitGenesis_none. Qed.
Print Assumptions C15_generated_ent_import_refused.

(* the generated code succeeds: the document passed the three keeper checks and the store is the model's, whatever the
   document *)
Theorem C15_generated_ent_import_ok : forall now b p0 g w',
  ent_params_valid (params_of_go (GenesisState_Params g)) = true ->
  bank_wf b -> escrow_nonneg b ->
  go_InitGenesis (fresh_eworld now b p0) g = Ok (w', tt) ->
  doc_okb g = true /\
  import_ent b (gen_ent_of_go g) = Some (ew_ent w') /\ w' = with_ent (fresh_eworld now b p0) (ew_ent w').
Proof. exact gen_ent_InitGenesis_ok. Qed.
Print Assumptions C15_generated_ent_import_ok.

(* on every world and every document with valid parameters *)
Theorem C15_generated_ent_import_run : forall w g,
  ent_params_valid (params_of_go (GenesisState_Params g)) = true ->
  go_InitGenesis w g =
    if doc_okb g then
      match go_escrow_check (ew_bank w) (GenesisState_TotalLocked g) with
      | Ok true => Ok (with_ent w (import_go g (ew_ent w)), tt)
      | Ok false => Panic enterprise_PANIC
      | Panic c => Panic c
      | Err e => Err e
      end
    else Panic enterprise_PANIC.
Proof. exact gen_ent_InitGenesis_run. Qed.
Print Assumptions C15_generated_ent_import_run.

(* ---------- export, then import into a fresh store ---------- *)
Theorem C15_generated_ent_roundtrip : forall w n now' p0,
  ent_inv {| w_bank := ew_bank w; w_ent := ew_ent w; w_now := n |} -> bank_wf (ew_bank w) ->
  Forall wl_ok (e_wl (ew_ent w)) ->
  exists d, go_ExportGenesis w = Ok d /\
            gen_ent_of_go d = export_ent (ew_ent w) /\
            import_ent (ew_bank w) (gen_ent_of_go d) = Some (ent_reimported (ew_ent w)) /\
            go_InitGenesis (fresh_eworld now' (ew_bank w) p0) d =
              Ok (with_ent (fresh_eworld now' (ew_bank w) p0) (ent_reimported (ew_ent w)), tt).
Proof. exact gen_ent_export_import_roundtrip. Qed.
Print Assumptions C15_generated_ent_roundtrip.

(* ---------- examples ---------- *)
(* two purchase orders (the first completed, the second raised with one decision), one locked entry of 500, total locked
   500, one spent entry, a whitelist of two, the module account holding 500: export; the document is the model's; import
   it into a fresh store (other parameters, other clock) over the same bank: the store is the exported one and the
   model's import gives it too; export again: the identical document *)
Example C15_generated_ent_roundtrip_ex :
  match go_ExportGenesis exg_world with
  | Ok d =>
      gen_ent_of_go d = export_ent (ew_ent exg_world) /\
      List.length (GenesisState_PurchaseOrders d) = 2%nat /\
      map EnterpriseUndPurchaseOrder_Status (GenesisState_PurchaseOrders d) = [4; 1] /\
      map (fun o => List.length (EnterpriseUndPurchaseOrder_Decisions o)) (GenesisState_PurchaseOrders d) = [1%nat; 1%nat] /\
      GenesisState_LockedUnd d = [mk_go_LockedUnd 10 (0, 500)] /\ GenesisState_TotalLocked d = (0, 500) /\
      GenesisState_SpentEfund d = [mk_go_SpentEFUND 10 (0, 25)] /\ GenesisState_Whitelist d = [10; 11] /\
      match go_InitGenesis (fresh_eworld 99 (exg_bank 500) exg_p0) d with
      | Ok (w', _) =>
          import_ent (exg_bank 500) (gen_ent_of_go d) = Some (ew_ent w') /\
          ew_ent w' = ew_ent exg_world /\ ew_now w' = 99 /\ ew_bank w' = exg_bank 500 /\
          go_ExportGenesis w' = Ok d
      | _ => False
      end
  | _ => False
  end.
Proof. vm_compute. repeat split; reflexivity. Qed.

(* the same document over a bank whose module account holds 499: InitGenesis panics, the model refuses *)
Example C15_generated_ent_import_escrow_mismatch_ex :
  match go_ExportGenesis exg_world with
  | Ok d =>
      go_InitGenesis (fresh_eworld 99 (exg_bank 499) exg_p0) d = Panic enterprise_PANIC /\
      import_ent (exg_bank 499) (gen_ent_of_go d) = None
  | _ => False
  end.
Proof. vm_compute. split; reflexivity. Qed.

(* the concrete banks satisfy the hypotheses of the import theorem *)
Example C15_generated_ent_ex_bank_ok : bank_wf (exg_bank 500) /\ escrow_nonneg (exg_bank 500) /\
                                       bank_wf (exg_bank 499) /\ escrow_nonneg (exg_bank 499).
Proof. exact exg_banks_ok. Qed.

(* invalid parameters (a blank denomination): the generated InitGenesis keeps the old parameters and goes on, the model
   refuses the document *)
Example C15_generated_ent_invalid_params_ex :
  let g := set_GenesisState_Params (set_GenesisState_Whitelist exg_doc0 [10]) (params_to_go exg_bad_params) in
  ent_params_valid (params_of_go (GenesisState_Params g)) = false /\
  import_ent exg_empty_bank (gen_ent_of_go g) = None /\
  go_InitGenesis (fresh_eworld 0 exg_empty_bank exg_p0) g =
    Ok (with_ent (fresh_eworld 0 exg_empty_bank exg_p0)
          {| e_params := exg_p0; e_next := 1; e_pos := []; e_raisedq := []; e_acceptedq := []; e_wl := [10];
             e_locked := []; e_spent := []; e_totlocked := Some (0, 0); e_totspent := Some (0, 0) |}, tt).
Proof. exact gen_ent_InitGenesis_invalid_params_differ. Qed.

(* the hypotheses of the import theorem cannot be dropped *)
Example C15_generated_ent_whitelist_needed :
  let g := set_GenesisState_Whitelist exg_doc0 [10; BAD_ADDR] in
  ent_params_valid (params_of_go (GenesisState_Params g)) = true /\
  (exists s', import_ent exg_empty_bank (gen_ent_of_go g) = Some s') /\
  go_InitGenesis (fresh_eworld 0 exg_empty_bank exg_p0) g = Panic enterprise_PANIC.
Proof. exact gen_ent_InitGenesis_whitelist_refuted. Qed.
Example C15_generated_ent_status_needed :
  let g := set_GenesisState_PurchaseOrders exg_doc0 [exg_go_po 1 0] in
  ent_params_valid (params_of_go (GenesisState_Params g)) = true /\
  (exists s', import_ent exg_empty_bank (gen_ent_of_go g) = Some s') /\
  go_InitGenesis (fresh_eworld 0 exg_empty_bank exg_p0) g = Panic enterprise_PANIC.
Proof. exact gen_ent_InitGenesis_status_refuted. Qed.
Example C15_generated_ent_locked_needed :
  let g := set_GenesisState_LockedUnd exg_doc0 [mk_go_LockedUnd 10 (0, -5)] in
  ent_params_valid (params_of_go (GenesisState_Params g)) = true /\
  (exists s', import_ent exg_empty_bank (gen_ent_of_go g) = Some s') /\
  go_InitGenesis (fresh_eworld 0 exg_empty_bank exg_p0) g = Panic enterprise_PANIC.
Proof. exact gen_ent_InitGenesis_locked_refuted. Qed.
Example C15_generated_ent_bank_wf_needed :
  let b := {| bal := [((ENT_MACC, 0), 0); ((ENT_MACC, 0), 5)]; supply := [] |} in
  ent_params_valid (params_of_go (GenesisState_Params exg_doc0)) = true /\ doc_okb exg_doc0 = true /\
  (forall d v, In ((ENT_MACC, d), v) (bal b) -> 0 <= v) /\
  (exists s', import_ent b (gen_ent_of_go exg_doc0) = Some s') /\
  go_InitGenesis (fresh_eworld 0 b exg_p0) exg_doc0 = Panic enterprise_PANIC.
Proof. exact gen_ent_InitGenesis_bank_wf_refuted. Qed.
Example C15_generated_ent_nonneg_needed :
  let b := {| bal := [((ENT_MACC, 1), -5)]; supply := [] |} in
  ent_params_valid (params_of_go (GenesisState_Params exg_doc0)) = true /\ doc_okb exg_doc0 = true /\
  NoDup (akeys (bal b)) /\
  import_ent b (gen_ent_of_go exg_doc0) = None /\
  exists w', go_InitGenesis (fresh_eworld 0 b exg_p0) exg_doc0 = Ok (w', tt).
Proof. exact gen_ent_InitGenesis_nonneg_refuted. Qed.
