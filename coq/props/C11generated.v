(* C11, link to the source: the Gallina functions generated on every run from
   /repo/x/stream/types/utils.go (coq/GeneratedFns.v, over the cosmos-sdk semantics of lib/GoSdk.v)
   compute exactly the model functions calculate_duration / calculate_amount_to_claim that the
   C11 theorems are about.  A change of the Go source that changes behaviour breaks these. *)
From MC Require Import lib.Prelude lib.GoSdk GeneratedFns lib.AMap model.Bank model.Stream.
From MC Require Import proofs.GeneratedFnsEq.
Local Open Scope Z_scope.

Theorem C11_generated_duration_is_model : forall (d : go_denom) (amt rate : Z),
  - two63 <= rate < two63 ->
  go_CalculateDuration (d, amt) rate = calculate_duration amt rate.
Proof. exact gen_CalculateDuration_eq. Qed.
Print Assumptions C11_generated_duration_is_model.

Theorem C11_generated_claim_is_model : forall (d : go_denom) (now dzt lot dep rate : Z),
  0 <= dep -> 0 <= rate ->
  - two63 < Time_Unix now - Time_Unix lot < two63 ->
  go_CalculateAmountToClaim now dzt lot (d, dep) rate =
    Ok ((d, fst (calculate_amount_to_claim now dzt lot dep rate)),
        (d, snd (calculate_amount_to_claim now dzt lot dep rate))).
Proof. exact gen_CalculateAmountToClaim_eq. Qed.
Print Assumptions C11_generated_claim_is_model.

(* 100000 nund at 100 nund/s last 1000 s *)
Example C11_generated_duration_ex :
  go_CalculateDuration (0, 100000) 100 = Ok 1000.
Proof. vm_compute. reflexivity. Qed.

(* a quotient that does not fit an int64 is the Int64() panic, as in the model *)
Example C11_generated_duration_panic_ex :
  go_CalculateDuration (0, two63) 1 = Panic 2 /\
  calculate_duration two63 1 = Panic 2.
Proof. vm_compute. split; reflexivity. Qed.

(* 2^24 s + 0.999999999 s after the last outflow, at 1 nund/s: exactly 2^24 coins (whole seconds) *)
Example C11_generated_claim_ex :
  let lot := 1700000000 * 1000000000 in
  let now := lot + 16777216 * 1000000000 + 999999999 in
  let dzt := lot + 100000000 * 1000000000 in
  go_CalculateAmountToClaim now dzt lot (0, 100000000) 1
    = Ok ((0, 16777216), (0, 83222784)).
Proof. vm_compute. reflexivity. Qed.

(* nanosecond borrow: 2 s minus 1 ns after the last outflow is one whole second *)
Example C11_generated_claim_borrow_ex :
  let lot := 1700000000 * 1000000000 + 5 in
  let now := lot + 2 * 1000000000 - 1 in
  let dzt := lot + 1000 * 1000000000 in
  go_CalculateAmountToClaim now dzt lot (0, 1000) 7
    = Ok ((0, 7), (0, 993)).
Proof. vm_compute. reflexivity. Qed.
