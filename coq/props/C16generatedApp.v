(* C16, generated application: the application-level C16 theorems (the stored parameters of the four modules always satisfy
   their validity rules; BeginBlock changes no parameter) hold of the application that runs the GENERATED code.
   The application assembled from the code generated from /repo (model/GeneratedApp.v: go_deliver_tx, go_check_tx,
   go_begin_block, go_end_block, go_ante, go_node_step, go_node_run) is the hand-written application of model/App.v under
   the hypotheses below (proofs/GeneratedAppEq.v; props/C01generatedApp.v); each theorem here is that equality followed by
   the theorem about the model (proofs/GeneratedAppTransport.v).
   Hypotheses (proofs/GeneratedAppEq.v; app_inv, tx_wf, op_wf, hist_wf, begin_wf, end_wf: proofs/AppInv.v):
     gen_inv B a     app_inv a and the registries' invariants and the machine-integer bounds the generated code relies on
                     (counters and numbers of decisions at most B, registry fees below 2^63, len(signers) an int);
     gnode_inv B n   gen_inv B of the committed, check and (if any) deliver state of the node n;
     gmsg_ok m       a WRKChain record carries five hashes, a BEACON record one; the fields of a parameter update are in
                     range (for governance: fees below 2^63, maximum limit below 2^64); at every authz depth;
     gop_ok o, ghist_ok h   gmsg_ok of every message of the operation o / of every operation of the history h;
     B + hist_size h < two63 (one transaction: B + leaves_l (tx_msgs t) < two63; BeginBlock: B < two63)
                     hist_size h = number of leaf messages of the delivered transactions of h: no counter reaches 2^63.
   params_ok a (model/AppSpec.v, proofs/AppParamsProofs.v): the parameters of the four modules stored in a are valid;
   params_of a: those parameters. *)
From Coq Require Import ZArith Lia List String Bool.
From MC Require Import lib.Prelude lib.AMap lib.GoSdk model.Bank model.Stream model.StreamSpec model.Registry
  model.RegistrySpec model.Enterprise model.EnterpriseSpec model.App model.AppSpec model.GeneratedApp.
From MC Require Import proofs.BankProofs proofs.AppFrame proofs.AppParamsProofs proofs.AppAuthProofs proofs.AppFeeProofs
  proofs.AppInv proofs.AppLockedProofs proofs.AppSupplyProofs proofs.AppCrashProofs.
From MC Require Import proofs.GeneratedAppEq proofs.GeneratedAppTransport.
Import ListNotations.
Local Open Scope Z_scope.

Theorem C16_generatedapp_params_valid_deliver_tx : forall B a t a' r,
  gen_inv B a -> tx_wf t -> Forall gmsg_ok (tx_msgs t) -> B + leaves_l (tx_msgs t) < two63 ->
  go_deliver_tx a t = (a', r) -> params_ok a'.
Proof. exact gen_deliver_tx_params_ok. Qed.
Print Assumptions C16_generatedapp_params_valid_deliver_tx.

Theorem C16_generatedapp_params_valid_check_tx : forall B a t a' r,
  gen_inv B a -> tx_wf t -> Forall gmsg_ok (tx_msgs t) -> go_check_tx a t = (a', r) -> params_ok a'.
Proof. exact gen_check_tx_params_ok. Qed.
Print Assumptions C16_generatedapp_params_valid_check_tx.

Theorem C16_generatedapp_params_valid_end_block : forall a props,
  (forall ms m, In ms props -> In m ms -> is_param_update m = true) ->
  params_ok a -> params_ok (go_end_block a props).
Proof. exact gen_end_block_params_ok. Qed.
Print Assumptions C16_generatedapp_params_valid_end_block.

(* the generated BeginBlock changes no parameter *)
Theorem C16_generatedapp_begin_block_changes_no_params : forall B a now a',
  gen_inv B a -> B < two63 -> begin_wf a now -> go_begin_block a now = Some a' -> params_of a' = params_of a.
Proof. exact gen_begin_block_params. Qed.
Print Assumptions C16_generatedapp_begin_block_changes_no_params.

(* all three states of the generated node, along every well-formed history *)
Theorem C16_generatedapp_params_valid_reachable : forall B g h n,
  gen_inv B g -> hist_wf (node_init g) h -> ghist_ok h -> B + hist_size h < two63 ->
  go_node_run (node_init g) h = Some n ->
  params_ok (n_committed n) /\ params_ok (n_check n) /\
  match n_deliver n with Some a => params_ok a | None => True end.
Proof. exact gen_params_valid_reachable. Qed.
Print Assumptions C16_generatedapp_params_valid_reachable.
