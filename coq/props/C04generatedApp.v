(* C04, generated application: the application-level C04 theorems (no user transaction can credit or debit the
   enterprise escrow account other than by fee unlocking; the eFUND books balance in every state of every well-formed
   node history) hold of the application that runs the GENERATED code.
   The application assembled from the code generated from /repo (model/GeneratedApp.v: go_deliver_tx, go_check_tx,
   go_begin_block, go_end_block, go_ante, go_node_step, go_node_run) is the hand-written application of model/App.v under
   the hypotheses below (proofs/GeneratedAppEq.v; props/C01generatedApp.v); each theorem here is that equality followed by
   the theorem about the model (proofs/GeneratedAppTransport.v).
   Hypotheses (proofs/GeneratedAppEq.v; app_inv, tx_wf, op_wf, hist_wf, begin_wf, end_wf: proofs/AppInv.v):
     gen_inv B a     app_inv a and the registries' invariants and the machine-integer bounds the generated code relies on
                     (counters and numbers of decisions at most B, registry fees below 2^63, len(signers) an int);
     gnode_inv B n   gen_inv B of the committed, check and (if any) deliver state of the node n;
     gmsg_ok m       a WRKChain record carries five hashes, a BEACON record one; the fields of a parameter update are in
                     range (for governance: fees below 2^63, maximum limit below 2^64); at every authz depth;
     gop_ok o, ghist_ok h   gmsg_ok of every message of the operation o / of every operation of the history h;
     B + hist_size h < two63 (one transaction: B + leaves_l (tx_msgs t) < two63; BeginBlock: B < two63)
                     hist_size h = number of leaf messages of the delivered transactions of h: no counter reaches 2^63. *)
From Coq Require Import ZArith Lia List String Bool.
From MC Require Import lib.Prelude lib.AMap lib.GoSdk model.Bank model.Stream model.StreamSpec model.Registry
  model.RegistrySpec model.Enterprise model.EnterpriseSpec model.App model.AppSpec model.GeneratedApp.
From MC Require Import proofs.BankProofs proofs.AppFrame proofs.AppParamsProofs proofs.AppAuthProofs proofs.AppFeeProofs
  proofs.AppInv proofs.AppLockedProofs proofs.AppSupplyProofs proofs.AppCrashProofs.
From MC Require Import proofs.GeneratedAppEq proofs.GeneratedAppTransport.
Import ListNotations.
Local Open Scope Z_scope.

(* ---- whatever a transaction contains, the escrow balance changes by exactly minus the amount unlocked for its fee
        payer, in the enterprise denomination only; it changes at all only for a WRKChain/BEACON tx that passed the
        generated ante chain ---- *)
Theorem C04_generatedapp_user_tx_cannot_move_escrow : forall B a t a' r,
  gen_inv B a -> tx_wf t -> Forall gmsg_ok (tx_msgs t) -> B + leaves_l (tx_msgs t) < two63 ->
  go_deliver_tx a t = (a', r) ->
  let d := ep_denom (e_params (a_ent a)) in
  let l := snd (locked_coin (a_ent a) (tx_payer t)) in
  let l' := snd (locked_coin (a_ent a') (tx_payer t)) in
  (forall d', balance (a_bank a') ENT_MACC d' = balance (a_bank a) ENT_MACC d' - (if d' =? d then l - l' else 0)) /\
  0 <= l - l' /\
  (forall d', balance (a_bank a') ENT_MACC d' <> balance (a_bank a) ENT_MACC d' ->
     d' = d /\ is_registry_tx t = true /\ (exists a1, go_ante false a t = Ok a1) /\
     l - l' = Z.min (fee_amount_of (tx_fee t) d) l).
Proof. exact gen_user_tx_cannot_move_escrow. Qed.
Print Assumptions C04_generatedapp_user_tx_cannot_move_escrow.

(* ---- the books balance in all three states of the generated node along every well-formed history ---- *)
Theorem C04_generatedapp_books_balance_reachable : forall B g h n,
  gen_inv B g -> hist_wf (node_init g) h -> ghist_ok h -> B + hist_size h < two63 ->
  go_node_run (node_init g) h = Some n ->
  let books_ok (a : app) :=
    let s := a_ent a in
    let d := ep_denom (e_params s) in
    balance (a_bank a) ENT_MACC d = snd (total_locked s) /\
    snd (total_locked s) = asum snd (e_locked s) /\
    snd (total_spent s) = asum snd (e_spent s) /\
    (forall x, amount_coin s x (e_locked s) + amount_coin s x (e_spent s) = completed_sum s x) /\
    (forall d', d' <> d -> balance (a_bank a) ENT_MACC d' = 0) /\
    fst (total_locked s) = d /\ fst (total_spent s) = d /\
    0 <= snd (total_locked s) /\ 0 <= snd (total_spent s) /\
    (forall x c, aget x (e_locked s) = Some c -> fst c = d /\ 0 <= snd c) /\
    (forall x c, aget x (e_spent s) = Some c -> fst c = d /\ 0 <= snd c) in
  books_ok (n_committed n) /\ books_ok (n_check n) /\
  match n_deliver n with Some a => books_ok a | None => True end.
Proof. exact gen_books_balance_reachable_app. Qed.
Print Assumptions C04_generatedapp_books_balance_reachable.
