(* Source-derived obligations of C04wiring: facts read from /repo by the translator on every run (coq/Generated.v), re-checked here. *)
From Coq Require Import List String ZArith.
From MC Require Import lib.Reach Generated proofs.Wiring.
Import ListNotations.
Open Scope string_scope.

Theorem C04_blocked_module_accounts : ltac:(let T := type of wiring_blocked in exact T).
Proof. exact wiring_blocked. Qed.
Print Assumptions C04_blocked_module_accounts.

Theorem C04_enterprise_perms : ltac:(let T := type of wiring_enterprise_perms in exact T).
Proof. exact wiring_enterprise_perms. Qed.
Print Assumptions C04_enterprise_perms.
