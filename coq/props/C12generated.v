(* C12, link to the source: the Gallina functions generated on every run from
   /repo/x/stream/types/utils.go (coq/GeneratedFns.v) never reach a cosmos-sdk panic (negative coin
   amount in NewCoin / Coin.Sub / NewDecCoinFromCoin, denomination mismatch in Coin.Sub) on the
   domains the keeper calls them with: a validator fee within [0,1], non-negative amounts and rate,
   a seconds difference that fits an int64. *)
From MC Require Import lib.Prelude lib.GoSdk GeneratedFns lib.AMap model.Bank model.Stream.
From MC Require Import proofs.GeneratedFnsEq.
Local Open Scope Z_scope.

Theorem C12_generated_fee_never_panics : forall (d : go_denom) (vf claim : Z),
  0 <= vf <= DEC_ONE -> 0 <= claim ->
  exists r, go_CalculateValidatorFee vf (d, claim) = Ok r.
Proof. exact gen_CalculateValidatorFee_ok. Qed.
Print Assumptions C12_generated_fee_never_panics.

Theorem C12_generated_claim_never_panics : forall (d : go_denom) (now dzt lot dep rate : Z),
  0 <= dep -> 0 <= rate ->
  - two63 < Time_Unix now - Time_Unix lot < two63 ->
  exists r, go_CalculateAmountToClaim now dzt lot (d, dep) rate = Ok r.
Proof. exact gen_CalculateAmountToClaim_ok. Qed.
Print Assumptions C12_generated_claim_never_panics.

(* the hypotheses matter: a fee rate above 1 makes Coin.Sub panic (negative coin amount) *)
Example C12_generated_fee_rate_above_one_panics :
  go_CalculateValidatorFee 2000000000000000000 (0, 1000) = Panic 4.
Proof. vm_compute. reflexivity. Qed.

(* ... and a negative flow rate makes NewCoin panic *)
Example C12_generated_claim_negative_rate_panics :
  let lot := 1700000000 * 1000000000 in
  go_CalculateAmountToClaim (lot + 5 * 1000000000) (lot + 100 * 1000000000) lot (0, 1000) (-1)
    = Panic 4.
Proof. vm_compute. reflexivity. Qed.

(* a full claim at the end of the stream returns *)
Example C12_generated_claim_full_ex :
  let lot := 1700000000 * 1000000000 in
  go_CalculateAmountToClaim (lot + 100 * 1000000000) (lot + 100 * 1000000000) lot (0, 1000) 10
    = Ok ((0, 1000), (0, 0)).
Proof. vm_compute. reflexivity. Qed.
